import HappyModel.C04.Control
import HappyProofs.C01.Props
import HappyProofs.C04.Breakpoint
import HappyProofs.C04.Session
/-!
# C04 — property theorems (control surface)

"Attaching the control surface (pause, step, resume, breakpoints, event and time hooks), a trace
recorder or event tracing does not change which events are delivered, their order, their times or
the resulting component state: a run driven by any sequence of pause/step/resume calls ends in the
same state as an uninterrupted run. step(n) delivers exactly n events unless the run ends first, a
breakpoint pauses right after the first delivery that satisfies it …"

The instrumented loop `ctlLoop` is written out separately from the plain loop `run` of C01 (as the
code has two loops); the theorems relate the two.
-/
namespace HappyModel.C04
open HappyModel.C01 HappyModel.C03
set_option linter.unusedVariables false
set_option linter.unusedSimpArgs false

variable {σ : Type} [Probe σ]

/-- the examples over `Unit` have nothing to watch -/
instance : Probe Unit := ⟨fun _ _ _ => none⟩

theorem run_add (m : Machine σ) (endT : Option Nat) (a b : Nat) (s : St σ) :
    run m endT a (run m endT b s) = run m endT (b + a) s := by
  induction b generalizing s with
  | zero => simp [run]
  | succ b ih =>
    have : b + 1 + a = (b + a) + 1 := by omega
    rw [this]
    simp only [run]
    cases hs : step m endT s with
    | none =>
      simp only []
      -- halted: running further changes nothing
      clear ih
      induction a with
      | zero => simp [run]
      | succ a iha => simp [run, hs]
    | some s' => simp only []; exact ih s'

theorem halted_run (m : Machine σ) (endT : Option Nat) (n : Nat) (s : St σ)
    (h : step m endT s = none) : run m endT n s = s := by
  cases n with
  | zero => rfl
  | succ n => simp [run, h]

theorem step_of_loop (m : Machine σ) (endT : Option Nat) (s : St σ) (x : Ev) (xs : List Ev)
    (hx : s.heap = x :: xs) (h1 : loopCond endT s = true)
    (h2 : (endT.isNone && s.primary == 0) = false) :
    step m endT s = some (stepWith m s (minOf x xs)) := by
  simp only [step, hx]
  have : continues endT s = true := by
    simp only [continues, loopCond] at *
    cases endT with
    | some t => simpa using h1
    | none =>
      simp at h1 h2 ⊢
      exact ⟨h1, Nat.pos_of_ne_zero h2⟩
  simp [this]

/-- one call of run()/resume()/step(n) under any control state only ever performs iterations of the
    plain loop: the engine state it returns is the plain run after some number `k` of iterations;
    and when it reports completion, the plain loop has halted too -/
theorem ctlLoop_is_run_prefix (m : Machine σ) (endT : Option Nat) (fuel : Nat) (s : St σ) (c : Ctl) :
    ∃ k, (ctlLoop m endT fuel s c).1 = run m endT k s ∧
      ((ctlLoop m endT fuel s c).2.2 = .complete → step m endT (ctlLoop m endT fuel s c).1 = none) := by
  induction fuel generalizing s c with
  | zero => exact ⟨0, rfl, by simp [ctlLoop]⟩
  | succ fuel ih =>
    simp only [ctlLoop]
    by_cases h1 : loopCond endT s = true
    · simp only [h1, Bool.not_true, Bool.false_eq_true, if_false]
      by_cases hp : shouldPause c = true
      · simp only [hp, if_true]; exact ⟨0, rfl, by simp⟩
      · simp only [hp, Bool.false_eq_true, if_false]
        by_cases h2 : (endT.isNone && s.primary == 0) = true
        · simp only [h2, if_true]
          refine ⟨0, rfl, fun _ => ?_⟩
          simp only [step]
          cases hh : s.heap with
          | nil => rfl
          | cons x xs =>
            simp only []
            have : continues endT s = false := by
              simp only [continues]
              cases endT with
              | some t => simp at h2
              | none => simp at h2; simp [h2]
            simp [this]
        · have h2' : (endT.isNone && s.primary == 0) = false := by simpa using h2
          simp only [h2', Bool.false_eq_true, if_false]
          cases hh : s.heap with
          | nil => simp [loopCond, hh] at h1
          | cons x xs =>
            simp only []
            have hstep := step_of_loop m endT s x xs hh h1 h2'
            have lift : ∀ c', ∃ k, (ctlLoop m endT fuel (stepWith m s (minOf x xs)) c').1 = run m endT k s ∧
                ((ctlLoop m endT fuel (stepWith m s (minOf x xs)) c').2.2 = .complete →
                  step m endT (ctlLoop m endT fuel (stepWith m s (minOf x xs)) c').1 = none) := by
              intro c'
              obtain ⟨k, hk, hc⟩ := ih (stepWith m s (minOf x xs)) c'
              exact ⟨k + 1, by rw [hk]; simp [run, hstep], hc⟩
            split
            · exact lift c
            · split
              · exact lift _
              · exact ⟨1, by simp [run, hstep], by simp⟩
    · have h1' : loopCond endT s = false := by simpa using h1
      simp only [h1', Bool.not_false, if_true]
      refine ⟨0, rfl, fun _ => ?_⟩
      simp only [step]
      cases hh : s.heap with
      | nil => rfl
      | cons x xs =>
        simp only []
        have : continues endT s = false := by
          simp only [continues, loopCond, hh] at *
          cases endT with
          | some t => simpa using h1'
          | none => simp at h1'
        simp [this]

/-- **control invariance**: whatever sequence of pause / resume / step(n) / breakpoint / hook
    commands drives the run, the engine state is always a state of the uninterrupted run
    (`reset()` starts another run and `schedule()` from outside changes the model being run: they are
    the two commands this statement does not cover — see `reset_state_is_init`, `session_inv`) -/
theorem control_prefix (m : Machine σ) (x : Ext σ) (endT : Option Nat) (fuel : Nat) (cmds : List Cmd)
    (hc : ∀ c ∈ cmds, c.isControl = true) (z : Sess σ)
    (s0 : St σ) (k0 : Nat) (hz : z.s = run m endT k0 s0) :
    ∃ k, (cmds.foldl (Sess.apply m x endT fuel) z).s = run m endT k s0 := by
  induction cmds generalizing z k0 with
  | nil => exact ⟨k0, hz⟩
  | cons cmd rest ih =>
    simp only [List.foldl_cons]
    have key : ∃ k1, (Sess.apply m x endT fuel z cmd).s = run m endT k1 s0 := by
      cases cmd with
      | pause => exact ⟨k0, hz⟩
      | bp b => exact ⟨k0, hz⟩
      | clear => exact ⟨k0, hz⟩
      | pauseAt k => exact ⟨k0, hz⟩
      | bpAt k b => exact ⟨k0, hz⟩
      | reset => have := hc .reset (by simp); simp [Cmd.isControl] at this
      | sched sp rel => have := hc (.sched sp rel) (by simp); simp [Cmd.isControl] at this
      | go =>
        simp only [Sess.apply]
        split
        · exact ⟨k0, hz⟩
        · obtain ⟨k, hk, _⟩ := ctlLoop_is_run_prefix m endT fuel z.s (if z.started then z.c.resume else z.c)
          exact ⟨k0 + k, by simp only []; rw [hk, hz, run_add]⟩
      | step n =>
        simp only [Sess.apply]
        split
        · exact ⟨k0, hz⟩
        · obtain ⟨k, hk, _⟩ := ctlLoop_is_run_prefix m endT fuel z.s (z.c.step n)
          exact ⟨k0 + k, by simp only []; rw [hk, hz, run_add]⟩
    obtain ⟨k1, h1⟩ := key
    exact ih (fun c hcm => hc c (List.mem_cons_of_mem _ hcm)) _ k1 h1

/-- … and once a controlled run reports completion it *is* the uninterrupted run: same delivery log,
    same entity state, same clock, for every larger number of iterations of the plain loop -/
theorem control_invariance (m : Machine σ) (endT : Option Nat) (fuel : Nat) (s : St σ) (c : Ctl)
    (k0 : Nat) (s0 : St σ) (hs : s = run m endT k0 s0)
    (hdone : (ctlLoop m endT fuel s c).2.2 = .complete) :
    ∃ k, ∀ n, k ≤ n → run m endT n s0 = (ctlLoop m endT fuel s c).1 := by
  obtain ⟨k, hk, hc⟩ := ctlLoop_is_run_prefix m endT fuel s c
  refine ⟨k0 + k, fun n hn => ?_⟩
  have hfin : (ctlLoop m endT fuel s c).1 = run m endT (k0 + k) s0 := by rw [hk, hs, run_add]
  have hh := hc hdone
  obtain ⟨d, rfl⟩ : ∃ d, n = (k0 + k) + d := ⟨n - (k0 + k), by omega⟩
  rw [← run_add, ← hfin, halted_run m endT d _ hh]

theorem stepWith_processed (m : Machine σ) (s : St σ) (e : Ev) :
    (stepWith m s e).processed = s.processed ∨ (stepWith m s e).processed = s.processed + 1 := by
  simp only [stepWith]
  by_cases hc : s.cancelled.contains e.id = true
  · have hc' : e.id ∈ s.cancelled := by simpa using hc
    simp [hc, hc']
  · have hc' : e.id ∉ s.cancelled := by simpa using hc
    by_cases hs : e.time < s.now
    · simp [hc, hs, hc']
    · by_cases hg : m.crashed s.ent e = true
      · simp [hc, hs, hg, hc']
      · simp [hc, hs, hg, hc']

/-- `step(n)`: with no pause request, breakpoint or pausing hook, a call that comes back paused has
    processed exactly `n` more events (cancelled and stale pops do not count) -/
theorem step_exact (m : Machine σ) (endT : Option Nat) (fuel : Nat) (s : St σ) (r : Nat) :
    (ctlLoop m endT fuel s { steps := some r }).2.2 = .paused →
      (ctlLoop m endT fuel s { steps := some r }).1.processed = s.processed + r := by
  induction fuel generalizing s r with
  | zero => simp [ctlLoop]
  | succ fuel ih =>
    simp only [ctlLoop]
    by_cases h1 : loopCond endT s = true
    · simp only [h1, Bool.not_true, Bool.false_eq_true, if_false]
      by_cases hp : shouldPause { steps := some r } = true
      · simp only [hp, if_true]
        intro _
        simp [shouldPause] at hp
        omega
      · simp only [hp, Bool.false_eq_true, if_false]
        have hr : r ≠ 0 := by
          intro h; subst h; simp [shouldPause] at hp
        by_cases h2 : (endT.isNone && s.primary == 0) = true
        · simp [h2]
        · have h2' : (endT.isNone && s.primary == 0) = false := by simpa using h2
          simp only [h2', Bool.false_eq_true, if_false]
          cases hh : s.heap with
          | nil => simp
          | cons x xs =>
            simp only []
            split
            · rename_i heq
              intro hpz
              have := ih (stepWith m s (minOf x xs)) r hpz
              have e : (stepWith m s (minOf x xs)).processed = s.processed := by simpa using heq
              omega
            · rename_i hne
              have hinc : (stepWith m s (minOf x xs)).processed = s.processed + 1 := by
                have hne' : (stepWith m s (minOf x xs)).processed ≠ s.processed := by simpa using hne
                rcases stepWith_processed m s (minOf x xs) with h | h
                · exact absurd h hne'
                · exact h
              simp only [added, List.filter_nil, List.map_nil, List.append_nil, List.isEmpty_nil, if_true,
                Option.map_some, List.contains_nil, Bool.or_self]
              intro hpz
              have := ih (stepWith m s (minOf x xs)) (r - 1) hpz
              omega
    · have h1' : loopCond endT s = false := by simpa using h1
      simp [h1']

/-- non-vacuity: stepping 2 out of 3 events and then resuming gives the uninterrupted log -/
example :
    let mc : Machine Unit := { handle := fun _ _ _ => { ent := () } }
    let s0 : St Unit := init () 0 [⟨1, 0, 0, false, 0, 0⟩, ⟨2, 0, 1, false, 0, 0⟩, ⟨2, 0, 2, false, 0, 0⟩]
    let z1 := (Sess.apply mc {} (some 10) 100 { s := s0 } .pause)
    let z2 := Sess.apply mc {} (some 10) 100 z1 .go
    let z3 := Sess.apply mc {} (some 10) 100 z2 (.step 2)
    let z4 := Sess.apply mc {} (some 10) 100 z3 .go
    z3.s.processed = 2 ∧ z3.paused = true ∧ z4.running = false ∧
      z4.s.log.map (·.id) = (run mc (some 10) 100 s0).log.map (·.id) := by decide


/-! ### breakpoints -/

/-- **"a breakpoint pauses right after the first delivery that satisfies it"**: in any call of
    run()/resume()/step(n), a delivery on which some breakpoint registered at that moment fires —
    registered before the call, or by an on_event hook during it, the hooks of that very delivery
    included — is the *last* delivery of the call, no earlier delivery of the call fired any
    breakpoint registered at its moment, and the call comes back paused in the engine state right
    after that delivery -/
theorem breakpoint_first (m : Machine σ) (endT : Option Nat) (fuel : Nat) (s : St σ) (c : Ctl)
    (pre : List ((St σ × Ev) × List Bp)) (x : (St σ × Ev) × List Bp) (post : List ((St σ × Ev) × List Bp))
    (hD : ctlDelivs m endT fuel s c = pre ++ x :: post) (hf : fires x.2 x.1) :
    post = [] ∧ (∀ q ∈ pre, ¬ fires q.2 q.1) ∧
      (ctlLoop m endT fuel s c).2.2 = .paused ∧ (ctlLoop m endT fuel s c).1 = x.1.1 := by
  have F := callFacts m endT fuel s c
  obtain ⟨h1, h2, h3, _⟩ := F.first pre x post hD hf
  refine ⟨h1, ?_, h2, h3⟩
  intro q hq hfq
  obtain ⟨a, b, rfl⟩ := List.append_of_mem hq
  have hD' : ctlDelivs m endT fuel s c = a ++ q :: (b ++ x :: post) := by
    rw [hD]; simp
  have := (F.first a q _ hD' hfq).1
  simp at this

/-- in particular for the breakpoints registered when the call starts: they stay registered through
    the call (`CallFacts.grow`), so the first delivery that satisfies one of them is the last one -/
theorem breakpoint_first_registered (m : Machine σ) (endT : Option Nat) (fuel : Nat) (s : St σ) (c : Ctl)
    (pre : List ((St σ × Ev) × List Bp)) (x : (St σ × Ev) × List Bp) (post : List ((St σ × Ev) × List Bp))
    (hD : ctlDelivs m endT fuel s c = pre ++ x :: post) (hf : fires c.bps x.1) :
    post = [] ∧ (∀ q ∈ pre, ¬ fires c.bps q.1) ∧
      (ctlLoop m endT fuel s c).2.2 = .paused ∧ (ctlLoop m endT fuel s c).1 = x.1.1 := by
  have F := callFacts m endT fuel s c
  have hmem : ∀ y ∈ ctlDelivs m endT fuel s c, fires c.bps y.1 → fires y.2 y.1 := by
    intro y hy ⟨b, hb, hh⟩
    exact ⟨b, F.grow y hy b hb, hh⟩
  have hx : x ∈ ctlDelivs m endT fuel s c := by rw [hD]; simp
  obtain ⟨h1, h2, h3, h4⟩ := breakpoint_first m endT fuel s c pre x post hD (hmem x hx hf)
  refine ⟨h1, ?_, h3, h4⟩
  intro q hq hfq
  exact h2 q hq (hmem q (by rw [hD]; exact List.mem_append_left _ hq) hfq)

/-- **a breakpoint registered by a hook while the loop is running is in force at once**: if an
    on_event hook adds breakpoint `b` after the delivery that makes `processed = k`, and `b` is
    satisfied right after that delivery, the call pauses there — there is no need for the registry
    to have been non-empty when the call entered the loop -/
theorem hook_added_breakpoint_first (m : Machine σ) (endT : Option Nat) (fuel : Nat) (s : St σ) (c : Ctl)
    (k : Nat) (b : Bp) (ha : (k, b) ∈ c.addAt)
    (pre : List ((St σ × Ev) × List Bp)) (x : (St σ × Ev) × List Bp) (post : List ((St σ × Ev) × List Bp))
    (hD : ctlDelivs m endT fuel s c = pre ++ x :: post) (hk : x.1.1.processed = k)
    (hh : b.hit x.1.1 x.1.2 = true) :
    post = [] ∧ (ctlLoop m endT fuel s c).2.2 = .paused ∧ (ctlLoop m endT fuel s c).1 = x.1.1 := by
  have F := callFacts m endT fuel s c
  have hx : x ∈ ctlDelivs m endT fuel s c := by rw [hD]; simp
  have hb : b ∈ x.2 := F.hooked x hx (k, b) ha hk.symm
  obtain ⟨h1, _, h3, h4⟩ := breakpoint_first m endT fuel s c pre x post hD ⟨b, hb, hh⟩
  exact ⟨h1, h3, h4⟩

-- non-vacuity: no breakpoint is registered when run() enters the loop; an on_event hook registers
-- "time ≥ 2" after the third event (t = 3), which is satisfied at once: the run pauses with exactly three
-- events processed (of five), and the one-shot breakpoint is gone
example :
    let mc : Machine Unit := { handle := fun _ _ _ => { ent := () } }
    let s0 : St Unit := init () 0 [⟨1, 0, 0, false, 0, 0⟩, ⟨2, 0, 0, false, 0, 0⟩, ⟨3, 0, 0, false, 0, 0⟩,
                                  ⟨4, 0, 0, false, 0, 0⟩, ⟨5, 0, 0, false, 0, 0⟩]
    let r := ctlLoop mc (some 10) 100 s0 { addAt := [(3, .time 2 true)] }
    r.2.2 = .paused ∧ r.1.processed = 3 ∧ r.2.1.bps = [] ∧
    (ctlLoop mc (some 10) 100 s0 {}).2.2 = .complete := by decide

/-- conversely, a call comes back paused only for a cause: a pause request or an exhausted step
    budget (`shouldPause`), or a breakpoint registered at that moment that fires on the last delivery
    — which then is the first delivery of the call that fires one -/
theorem breakpoint_pause_cause (m : Machine σ) (endT : Option Nat) (fuel : Nat) (s : St σ) (c : Ctl)
    (hp : (ctlLoop m endT fuel s c).2.2 = .paused) :
    shouldPause (ctlLoop m endT fuel s c).2.1 = true ∨
    ∃ pre x, ctlDelivs m endT fuel s c = pre ++ [x] ∧ (ctlLoop m endT fuel s c).1 = x.1.1 ∧
      fires x.2 x.1 ∧ ∀ q ∈ pre, ¬ fires q.2 q.1 := by
  have F := callFacts m endT fuel s c
  by_cases hq : ∀ x ∈ ctlDelivs m endT fuel s c, ¬ fires x.2 x.1
  · exact Or.inl ((F.quiet hq).2 hp)
  · right
    have : ∃ x, x ∈ ctlDelivs m endT fuel s c ∧ fires x.2 x.1 := by
      apply Classical.byContradiction
      intro hne
      exact hq (fun p hp' hf => hne ⟨p, hp', hf⟩)
    obtain ⟨x, hpm, hf⟩ := this
    obtain ⟨pre, post, hD⟩ := List.append_of_mem hpm
    obtain ⟨h1, h2, _, h4⟩ := breakpoint_first m endT fuel s c pre x post hD hf
    subst h1
    exact ⟨pre, x, hD, h4, hf, h2⟩

/-! ### MetricBreakpoint: zero is a value, only `None` is missing -/

/-- a MetricBreakpoint fires exactly when the watched attribute *has a value* and the value compares
    as asked — whatever the value: `0` (and `False`, which is `0`) is a value like any other -/
theorem metric_hit_iff (s : St σ) (last : Ev) (ent attr : Nat) (op : Cmp) (thr2 : Int) (o : Bool) :
    (Bp.metric ent attr op thr2 o).hit s last = true ↔
      ∃ v, Probe.read s.ent ent attr = some v ∧ op.holds (2 * v) thr2 = true := by
  simp only [Bp.hit]
  cases h : Probe.read s.ent ent attr with
  | none => simp
  | some v => simp

/-- at the value 0 the breakpoint is decided by the comparison alone -/
theorem metric_zero_is_a_value (s : St σ) (last : Ev) (ent attr : Nat) (op : Cmp) (thr2 : Int) (o : Bool)
    (h0 : Probe.read s.ent ent attr = some 0) :
    (Bp.metric ent attr op thr2 o).hit s last = op.holds 0 thr2 := by
  simp [Bp.hit, h0]

/-- a missing entity / attribute (or `None`) never satisfies a MetricBreakpoint -/
theorem metric_missing_never_fires (s : St σ) (last : Ev) (ent attr : Nat) (op : Cmp) (thr2 : Int) (o : Bool)
    (h0 : Probe.read s.ent ent attr = none) : (Bp.metric ent attr op thr2 o).hit s last = false := by
  simp [Bp.hit, h0]

/-- **a MetricBreakpoint pauses right after the first delivery at which the attribute satisfies it**,
    also when that happens at the value 0: if after some delivery `p` of a call the watched attribute
    reads `v` with `v op thr` (e.g. `level ≤ 0` at `v = 0`), then `p` is the last delivery of the
    call, no earlier delivery of the call satisfied any registered breakpoint, and the call returns
    paused in the state right after `p` -/
theorem metric_breakpoint_first (m : Machine σ) (endT : Option Nat) (fuel : Nat) (s : St σ) (c : Ctl)
    (ent attr : Nat) (op : Cmp) (thr2 : Int) (o : Bool) (hb : Bp.metric ent attr op thr2 o ∈ c.bps)
    (pre : List ((St σ × Ev) × List Bp)) (x : (St σ × Ev) × List Bp) (post : List ((St σ × Ev) × List Bp))
    (hD : ctlDelivs m endT fuel s c = pre ++ x :: post) (v : Int)
    (hv : Probe.read x.1.1.ent ent attr = some v) (hc : op.holds (2 * v) thr2 = true) :
    post = [] ∧ (∀ q ∈ pre, ¬ fires c.bps q.1) ∧
      (ctlLoop m endT fuel s c).2.2 = .paused ∧ (ctlLoop m endT fuel s c).1 = x.1.1 :=
  breakpoint_first_registered m endT fuel s c pre x post hD
    ⟨_, hb, (metric_hit_iff x.1.1 x.1.2 ent attr op thr2 o).mpr ⟨v, hv, hc⟩⟩

/-- a tank whose level every event lowers by one; the level is what a breakpoint can watch -/
instance : Probe Int := ⟨fun l _ _ => some l⟩

-- non-vacuity: level 3, three drain events and a fourth; `level ≤ 0`, `level == 0` and `level < 1`
-- each pause the run right after the third delivery, at level 0; `level ≥ 7` never does
example :
    let mc : Machine Int := { handle := fun l _ _ => { ent := l - 1 } }
    let s0 : St Int := init 3 0 [⟨1, 0, 0, false, 0, 0⟩, ⟨2, 0, 0, false, 0, 0⟩, ⟨3, 0, 0, false, 0, 0⟩, ⟨4, 0, 0, false, 0, 0⟩]
    (∀ b ∈ [Bp.metric 0 0 .le 0 false, Bp.metric 0 0 .eq 0 true, Bp.metric 0 0 .lt 2 false],
      let r := ctlLoop mc (some 10) 100 s0 { bps := [b] }
      r.2.2 = .paused ∧ r.1.processed = 3 ∧ r.1.ent = 0) ∧
    (ctlLoop mc (some 10) 100 s0 { bps := [Bp.metric 0 0 .ge 14 false] }).2.2 = .complete := by decide

/-- a one-shot breakpoint disappears only by firing (and a persistent one never): a breakpoint that
    was registered before a call and is not after it is one-shot and fired on the last delivery of
    that call -/
theorem oneshot_removed_only_if_fired (m : Machine σ) (endT : Option Nat) (fuel : Nat) (s : St σ)
    (c : Ctl) (b : Bp) (hb : b ∈ c.bps) (hgone : b ∉ (ctlLoop m endT fuel s c).2.1.bps) :
    b.oneShot = true ∧ ∃ pre x, ctlDelivs m endT fuel s c = pre ++ [x] ∧ b.hit x.1.1 x.1.2 = true := by
  have F := callFacts m endT fuel s c
  by_cases hq : ∀ x ∈ ctlDelivs m endT fuel s c, ¬ fires x.2 x.1
  · exact absurd ((F.quiet hq).1 b hb) hgone
  · have : ∃ x, x ∈ ctlDelivs m endT fuel s c ∧ fires x.2 x.1 := by
      apply Classical.byContradiction
      intro hne
      exact hq (fun p hp' hf => hne ⟨p, hp', hf⟩)
    obtain ⟨x, hpm, hf⟩ := this
    obtain ⟨pre, post, hD⟩ := List.append_of_mem hpm
    obtain ⟨h1, _, _, h4⟩ := F.first pre x post hD hf
    subst h1
    rw [h4] at hgone
    have hbx : b ∈ x.2 := F.grow x hpm b hb
    have : (b.hit x.1.1 x.1.2 && b.oneShot) = true := by
      by_cases hx : (b.hit x.1.1 x.1.2 && b.oneShot) = true
      · exact hx
      · have hx' : (b.hit x.1.1 x.1.2 && b.oneShot) = false := by simpa using hx
        exact absurd (List.mem_filter.mpr ⟨hbx, by simp [hx']⟩) hgone
    simp at this
    exact ⟨this.2, pre, x, hD, this.1⟩

/-- with nothing armed — no pause request, no step budget, no breakpoint, no pausing hook — a call
    never comes back paused (in particular the run() after a reset(), see `reset_clears_control`) -/
theorem no_cause_no_pause (m : Machine σ) (endT : Option Nat) (fuel : Nat) (s : St σ) :
    (ctlLoop m endT fuel s {}).2.2 ≠ .paused := by
  induction fuel generalizing s with
  | zero => simp [ctlLoop]
  | succ fuel ih =>
    simp only [ctlLoop]
    by_cases h1 : loopCond endT s = true
    · simp only [h1, Bool.not_true, Bool.false_eq_true, if_false]
      have hp : shouldPause ({} : Ctl) = false := by simp [shouldPause]
      simp only [hp, Bool.false_eq_true, if_false]
      by_cases h2 : (endT.isNone && s.primary == 0) = true
      · simp [h2]
      · have h2' : (endT.isNone && s.primary == 0) = false := by simpa using h2
        simp only [h2', Bool.false_eq_true, if_false]
        cases hh : s.heap with
        | nil => simp
        | cons x xs =>
          simp only []
          split
          · exact ih _
          · simp only [List.filter_nil, List.isEmpty_nil, if_true, Option.map_none,
              List.contains_nil, Bool.or_self]
            exact ih _
    · have h1' : loopCond endT s = false := by simpa using h1
      simp [h1']

/-- non-vacuity: two breakpoints, the earlier-registered persistent one (type 1) fires at the second
    delivery while the later one-shot (count ≥ 3) is not yet satisfied: the one-shot stays registered
    and stops the resumed run after delivery 3 -/
example :
    let mc : Machine Unit := { handle := fun _ _ _ => { ent := () } }
    let s0 : St Unit := init () 0 [⟨1, 0, 0, false, 0, 0⟩, ⟨2, 0, 1, false, 0, 0⟩, ⟨3, 0, 2, false, 0, 0⟩, ⟨4, 0, 2, false, 0, 0⟩]
    let z0 : Sess Unit := { s := s0 }
    let z1 := Sess.apply mc {} (some 10) 100 z0 (.bp (.kind 1 false))
    let z2 := Sess.apply mc {} (some 10) 100 z1 (.bp (.count 3 true))
    let z3 := Sess.apply mc {} (some 10) 100 z2 .go
    let z4 := Sess.apply mc {} (some 10) 100 z3 .go
    let z5 := Sess.apply mc {} (some 10) 100 z4 .go
    z3.paused = true ∧ z3.s.processed = 2 ∧ z3.c.bps.length = 2 ∧
    z4.paused = true ∧ z4.s.processed = 3 ∧ z4.c.bps.length = 1 ∧
    z5.running = false ∧ z5.s.processed = 4 := by decide

/-! ### reset() and schedule() from outside -/

/-- `reset()` leaves nothing of the previous round armed except what the user registered:
    pause request and step budget are cleared, breakpoints and hooks are kept -/
theorem reset_clears_control (m : Machine σ) (x : Ext σ) (endT : Option Nat) (fuel : Nat) (z : Sess σ) :
    let z' := Sess.apply m x endT fuel z .reset
    z'.c.pauseReq = false ∧ z'.c.steps = none ∧ z'.c.bps = z.c.bps ∧ z'.c.pauseAt = z.c.pauseAt ∧
    z'.started = false ∧ z'.paused = false ∧ z'.running = false ∧ z'.pre = z.pre := by
  simp [Sess.apply, Ctl.reset]

/-- **the state after `reset()` is the initial state of the same pre-run schedule**, creation indices
    shifted by a constant (the events are re-created, in the original order); clock and counters
    are back at the start clock and zero; entity state is whatever it was -/
theorem reset_state_is_init (m : Machine σ) (x : Ext σ) (endT : Option Nat) (fuel : Nat) (z : Sess σ) :
    (Sess.apply m x endT fuel z .reset).s =
      renSt (· + z.s.nextId) id (z.s.nextId + z.pre.length) (init (x.reseat z.s.ent z.pre.length) z.start z.pre) := by
  simp only [Sess.apply]
  exact reset_is_init _ _ _ _

/-- **reset() + run() repeats the original run** for models that do not compute with creation
    indices (C03 `IdOblivious`) and whose entity state is back at its initial value `ent0`
    ("stateless"): same observable delivery sequence (time, target, type, payload, tag), same clock,
    same number of processed events, after any number of loop iterations -/
theorem reset_replays (mc : Machine σ) (ho : IdOblivious mc) (base start : Nat) (ent0 : σ) (pre : List Spec)
    (endT : Option Nat) (n : Nat) :
    (run mc endT n (resetSt base start ent0 pre)).log.map obs = (run mc endT n (init ent0 start pre)).log.map obs ∧
    (run mc endT n (resetSt base start ent0 pre)).now = (run mc endT n (init ent0 start pre)).now ∧
    (run mc endT n (resetSt base start ent0 pre)).processed = (run mc endT n (init ent0 start pre)).processed := by
  rw [reset_is_init]
  have h := run_index_shift mc (· + base) id (by intro a b hab; show a + base < b + base; omega)
    (ho.equivariant _) endT n (init ent0 start pre) (base + pre.length)
    (by intro j; show (init ent0 start pre).nextId + j + base = base + pre.length + j; simp [init]; omega)
  refine ⟨?_, h.2.1, h.2.2.1⟩
  rw [h.1]
  simp [List.map_map, Function.comp_def, obs_ren]

/-- non-vacuity of `reset_replays`: a machine whose handler emits a follow-up event without looking
    at creation indices is `IdOblivious` -/
example : IdOblivious ({ handle := fun (n : Nat) now e =>
    { ent := n + 1, specs := if e.kind = 0 then [⟨now + 1, e.target, 1, false, 0, 0⟩] else [] } } : Machine Nat) :=
  ⟨fun _ _ _ _ => rfl, fun _ _ _ => rfl, fun _ _ _ => rfl⟩

/-- the engine invariant of C01 (fresh creation indices, delivery log sorted by (time, index), log
    below heap, …) holds in every state a session can reach — whatever is scheduled from outside and
    however often the run is reset -/
theorem session_inv (m : Machine σ) (x : Ext σ) (endT : Option Nat) (fuel : Nat) (cmds : List Cmd)
    (z : Sess σ) (inv : Inv z.s) : Inv (cmds.foldl (Sess.apply m x endT fuel) z).s := by
  induction cmds generalizing z with
  | nil => exact inv
  | cons cmd rest ih =>
    simp only [List.foldl_cons]
    apply ih
    have loop : ∀ c, Inv (ctlLoop m endT fuel z.s c).1 := by
      intro c
      obtain ⟨k, hk, _⟩ := ctlLoop_is_run_prefix m endT fuel z.s c
      rw [hk]; exact run_inv m endT k z.s inv
    cases cmd with
    | pause => exact inv
    | bp b => exact inv
    | clear => exact inv
    | pauseAt k => exact inv
    | bpAt k b => exact inv
    | reset => simp only [Sess.apply]; exact reset_inv _ _ _ _
    | sched sp rel =>
      simp only [Sess.apply]
      split
      · exact inv
      · exact inject_inv _ _ _ inv
    | go =>
      simp only [Sess.apply]
      split
      · exact inv
      · exact loop _
    | step n =>
      simp only [Sess.apply]
      split
      · exact inv
      · exact loop _

/-- **time order with FIFO ties in every session**: deliveries of the current round are strictly
    increasing in (time, creation index), also across pauses, injections from outside (which always
    get the youngest index, `injected_is_youngest`) and resets -/
theorem session_fifo (m : Machine σ) (x : Ext σ) (endT : Option Nat) (fuel : Nat) (cmds : List Cmd)
    (ent : σ) (pre : List Spec) :
    (cmds.foldl (Sess.apply m x endT fuel) { s := init ent 0 pre, pre := pre }).s.log.Pairwise
      (fun a b => a.time < b.time ∨ (a.time = b.time ∧ a.id < b.id)) := by
  have inv := session_inv m x endT fuel cmds { s := init ent 0 pre, pre := pre } (init_inv ent 0 pre)
  refine (logSorted_pairwise _ inv.sorted).imp ?_
  intro a b h
  unfold keyLt at h
  simp at h
  omega

/-- non-vacuity: pause after 2 of 3 deliveries, schedule an event for the timestamp of the pending
    one from outside: it is delivered after it; then reset() and run(): the original three deliveries -/
example :
    let mc : Machine Unit := { handle := fun _ _ _ => { ent := () } }
    let pre : List Spec := [⟨1, 0, 0, false, 0, 1⟩, ⟨2, 0, 1, false, 0, 2⟩, ⟨2, 0, 2, false, 0, 3⟩]
    let z0 : Sess Unit := { s := init () 0 pre, pre := pre }
    let z1 := Sess.apply mc {} (some 10) 100 z0 .pause
    let z2 := Sess.apply mc {} (some 10) 100 z1 .go
    let z3 := Sess.apply mc {} (some 10) 100 z2 (.step 2)
    let z4 := Sess.apply mc {} (some 10) 100 z3 (.sched ⟨0, 0, 7, false, 0, 9⟩ true)
    let z5 := Sess.apply mc {} (some 10) 100 z4 .go
    let z6 := Sess.apply mc {} (some 10) 100 z5 .reset
    let z7 := Sess.apply mc {} (some 10) 100 z6 .go
    z5.s.log.map (·.tag) = [1, 2, 3, 9] ∧ z6.s.now = 0 ∧ z6.s.heap.map (·.id) = [4, 5, 6] ∧
      z7.running = false ∧ z7.s.log.map (·.tag) = [1, 2, 3] := by decide

end HappyModel.C04
