import HappyModel.C04.Control
import HappyProofs.C01.Props
/-!
# C04 — property theorems (control surface)

"Attaching the control surface (pause, step, resume, breakpoints, event and time hooks), a trace
recorder or event tracing does not change which events are delivered, their order, their times or
the resulting component state: a run driven by any sequence of pause/step/resume calls ends in the
same state as an uninterrupted run. step(n) delivers exactly n events unless the run ends first, a
breakpoint pauses right after the first delivery that satisfies it …"

The instrumented loop `ctlLoop` is written out separately from the plain loop `run` of C01 (as the
code has two loops); the theorems relate the two.
-/
namespace HappyModel.C04
open HappyModel.C01
set_option linter.unusedVariables false
set_option linter.unusedSimpArgs false

variable {σ : Type}

theorem run_add (m : Machine σ) (endT : Option Nat) (a b : Nat) (s : St σ) :
    run m endT a (run m endT b s) = run m endT (b + a) s := by
  induction b generalizing s with
  | zero => simp [run]
  | succ b ih =>
    have : b + 1 + a = (b + a) + 1 := by omega
    rw [this]
    simp only [run]
    cases hs : step m endT s with
    | none =>
      simp only []
      -- halted: running further changes nothing
      clear ih
      induction a with
      | zero => simp [run]
      | succ a iha => simp [run, hs]
    | some s' => simp only []; exact ih s'

theorem halted_run (m : Machine σ) (endT : Option Nat) (n : Nat) (s : St σ)
    (h : step m endT s = none) : run m endT n s = s := by
  cases n with
  | zero => rfl
  | succ n => simp [run, h]

theorem step_of_loop (m : Machine σ) (endT : Option Nat) (s : St σ) (x : Ev) (xs : List Ev)
    (hx : s.heap = x :: xs) (h1 : loopCond endT s = true)
    (h2 : (endT.isNone && s.primary == 0) = false) :
    step m endT s = some (stepWith m s (minOf x xs)) := by
  simp only [step, hx]
  have : continues endT s = true := by
    simp only [continues, loopCond] at *
    cases endT with
    | some t => simpa using h1
    | none =>
      simp at h1 h2 ⊢
      exact ⟨h1, Nat.pos_of_ne_zero h2⟩
  simp [this]

/-- one call of run()/resume()/step(n) under any control state only ever performs iterations of the
    plain loop: the engine state it returns is the plain run after some number `k` of iterations;
    and when it reports completion, the plain loop has halted too -/
theorem ctlLoop_is_run_prefix (m : Machine σ) (endT : Option Nat) (fuel : Nat) (s : St σ) (c : Ctl) :
    ∃ k, (ctlLoop m endT fuel s c).1 = run m endT k s ∧
      ((ctlLoop m endT fuel s c).2.2 = .complete → step m endT (ctlLoop m endT fuel s c).1 = none) := by
  induction fuel generalizing s c with
  | zero => exact ⟨0, rfl, by simp [ctlLoop]⟩
  | succ fuel ih =>
    simp only [ctlLoop]
    by_cases h1 : loopCond endT s = true
    · simp only [h1, Bool.not_true, Bool.false_eq_true, if_false]
      by_cases hp : shouldPause c = true
      · simp only [hp, if_true]; exact ⟨0, rfl, by simp⟩
      · simp only [hp, Bool.false_eq_true, if_false]
        by_cases h2 : (endT.isNone && s.primary == 0) = true
        · simp only [h2, if_true]
          refine ⟨0, rfl, fun _ => ?_⟩
          simp only [step]
          cases hh : s.heap with
          | nil => rfl
          | cons x xs =>
            simp only []
            have : continues endT s = false := by
              simp only [continues]
              cases endT with
              | some t => simp at h2
              | none => simp at h2; simp [h2]
            simp [this]
        · have h2' : (endT.isNone && s.primary == 0) = false := by simpa using h2
          simp only [h2', Bool.false_eq_true, if_false]
          cases hh : s.heap with
          | nil => simp [loopCond, hh] at h1
          | cons x xs =>
            simp only []
            have hstep := step_of_loop m endT s x xs hh h1 h2'
            have lift : ∀ c', ∃ k, (ctlLoop m endT fuel (stepWith m s (minOf x xs)) c').1 = run m endT k s ∧
                ((ctlLoop m endT fuel (stepWith m s (minOf x xs)) c').2.2 = .complete →
                  step m endT (ctlLoop m endT fuel (stepWith m s (minOf x xs)) c').1 = none) := by
              intro c'
              obtain ⟨k, hk, hc⟩ := ih (stepWith m s (minOf x xs)) c'
              exact ⟨k + 1, by rw [hk]; simp [run, hstep], hc⟩
            split
            · exact lift c
            · split
              · exact lift _
              · exact ⟨1, by simp [run, hstep], by simp⟩
    · have h1' : loopCond endT s = false := by simpa using h1
      simp only [h1', Bool.not_false, if_true]
      refine ⟨0, rfl, fun _ => ?_⟩
      simp only [step]
      cases hh : s.heap with
      | nil => rfl
      | cons x xs =>
        simp only []
        have : continues endT s = false := by
          simp only [continues, loopCond, hh] at *
          cases endT with
          | some t => simpa using h1'
          | none => simp at h1'
        simp [this]

/-- **control invariance**: whatever sequence of pause / resume / step(n) / breakpoint / hook
    commands drives the run, the engine state is always a state of the uninterrupted run -/
theorem control_prefix (m : Machine σ) (endT : Option Nat) (fuel : Nat) (cmds : List Cmd) (z : Sess σ)
    (s0 : St σ) (k0 : Nat) (hz : z.s = run m endT k0 s0) :
    ∃ k, (cmds.foldl (Sess.apply m endT fuel) z).s = run m endT k s0 := by
  induction cmds generalizing z k0 with
  | nil => exact ⟨k0, hz⟩
  | cons cmd rest ih =>
    simp only [List.foldl_cons]
    have key : ∃ k1, (Sess.apply m endT fuel z cmd).s = run m endT k1 s0 := by
      cases cmd with
      | pause => exact ⟨k0, hz⟩
      | bp b => exact ⟨k0, hz⟩
      | clear => exact ⟨k0, hz⟩
      | pauseAt k => exact ⟨k0, hz⟩
      | go =>
        simp only [Sess.apply]
        split
        · exact ⟨k0, hz⟩
        · obtain ⟨k, hk, _⟩ := ctlLoop_is_run_prefix m endT fuel z.s (if z.started then z.c.resume else z.c)
          exact ⟨k0 + k, by simp only []; rw [hk, hz, run_add]⟩
      | step n =>
        simp only [Sess.apply]
        split
        · exact ⟨k0, hz⟩
        · obtain ⟨k, hk, _⟩ := ctlLoop_is_run_prefix m endT fuel z.s (z.c.step n)
          exact ⟨k0 + k, by simp only []; rw [hk, hz, run_add]⟩
    obtain ⟨k1, h1⟩ := key
    exact ih _ k1 h1

/-- … and once a controlled run reports completion it *is* the uninterrupted run: same delivery log,
    same entity state, same clock, for every larger number of iterations of the plain loop -/
theorem control_invariance (m : Machine σ) (endT : Option Nat) (fuel : Nat) (s : St σ) (c : Ctl)
    (k0 : Nat) (s0 : St σ) (hs : s = run m endT k0 s0)
    (hdone : (ctlLoop m endT fuel s c).2.2 = .complete) :
    ∃ k, ∀ n, k ≤ n → run m endT n s0 = (ctlLoop m endT fuel s c).1 := by
  obtain ⟨k, hk, hc⟩ := ctlLoop_is_run_prefix m endT fuel s c
  refine ⟨k0 + k, fun n hn => ?_⟩
  have hfin : (ctlLoop m endT fuel s c).1 = run m endT (k0 + k) s0 := by rw [hk, hs, run_add]
  have hh := hc hdone
  obtain ⟨d, rfl⟩ : ∃ d, n = (k0 + k) + d := ⟨n - (k0 + k), by omega⟩
  rw [← run_add, ← hfin, halted_run m endT d _ hh]

theorem stepWith_processed (m : Machine σ) (s : St σ) (e : Ev) :
    (stepWith m s e).processed = s.processed ∨ (stepWith m s e).processed = s.processed + 1 := by
  simp only [stepWith]
  by_cases hc : s.cancelled.contains e.id = true
  · have hc' : e.id ∈ s.cancelled := by simpa using hc
    simp [hc, hc']
  · have hc' : e.id ∉ s.cancelled := by simpa using hc
    by_cases hs : e.time < s.now
    · simp [hc, hs, hc']
    · by_cases hg : m.crashed s.ent e = true
      · simp [hc, hs, hg, hc']
      · simp [hc, hs, hg, hc']

/-- `step(n)`: with no pause request, breakpoint or pausing hook, a call that comes back paused has
    processed exactly `n` more events (cancelled and stale pops do not count) -/
theorem step_exact (m : Machine σ) (endT : Option Nat) (fuel : Nat) (s : St σ) (r : Nat) :
    (ctlLoop m endT fuel s { steps := some r }).2.2 = .paused →
      (ctlLoop m endT fuel s { steps := some r }).1.processed = s.processed + r := by
  induction fuel generalizing s r with
  | zero => simp [ctlLoop]
  | succ fuel ih =>
    simp only [ctlLoop]
    by_cases h1 : loopCond endT s = true
    · simp only [h1, Bool.not_true, Bool.false_eq_true, if_false]
      by_cases hp : shouldPause { steps := some r } = true
      · simp only [hp, if_true]
        intro _
        simp [shouldPause] at hp
        omega
      · simp only [hp, Bool.false_eq_true, if_false]
        have hr : r ≠ 0 := by
          intro h; subst h; simp [shouldPause] at hp
        by_cases h2 : (endT.isNone && s.primary == 0) = true
        · simp [h2]
        · have h2' : (endT.isNone && s.primary == 0) = false := by simpa using h2
          simp only [h2', Bool.false_eq_true, if_false]
          cases hh : s.heap with
          | nil => simp
          | cons x xs =>
            simp only []
            split
            · rename_i heq
              intro hpz
              have := ih (stepWith m s (minOf x xs)) r hpz
              have e : (stepWith m s (minOf x xs)).processed = s.processed := by simpa using heq
              omega
            · rename_i hne
              have hinc : (stepWith m s (minOf x xs)).processed = s.processed + 1 := by
                have hne' : (stepWith m s (minOf x xs)).processed ≠ s.processed := by simpa using hne
                rcases stepWith_processed m s (minOf x xs) with h | h
                · exact absurd h hne'
                · exact h
              simp only [List.filter_nil, List.isEmpty_nil, if_true, Option.map_some,
                List.contains_nil, Bool.or_self]
              intro hpz
              have := ih (stepWith m s (minOf x xs)) (r - 1) hpz
              omega
    · have h1' : loopCond endT s = false := by simpa using h1
      simp [h1']

/-- non-vacuity: stepping 2 out of 3 events and then resuming gives the uninterrupted log -/
example :
    let mc : Machine Unit := { handle := fun _ _ _ => { ent := () } }
    let s0 : St Unit := init () 0 [⟨1, 0, 0, false, 0, 0⟩, ⟨2, 0, 1, false, 0, 0⟩, ⟨2, 0, 2, false, 0, 0⟩]
    let z1 := (Sess.apply mc (some 10) 100 { s := s0 } .pause)
    let z2 := Sess.apply mc (some 10) 100 z1 .go
    let z3 := Sess.apply mc (some 10) 100 z2 (.step 2)
    let z4 := Sess.apply mc (some 10) 100 z3 .go
    z3.s.processed = 2 ∧ z3.paused = true ∧ z4.running = false ∧
      z4.s.log.map (·.id) = (run mc (some 10) 100 s0).log.map (·.id) := by decide

end HappyModel.C04
