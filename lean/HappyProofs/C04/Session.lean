import HappyModel.C04.Control
import HappyProofs.C01.Props
import HappyProofs.C03.Props
/-!
`reset()` and `schedule()` from outside the loop: what they do to the engine state.

* an injected event is the youngest event of the model (next creation index), so the engine
  invariant of C01 — and with it time order with FIFO ties — survives any injection;
* the state after `reset()` *is* the initial state of the same pre-run schedule with all creation
  indices shifted by a constant, so (C03, index shift) a run from it repeats the original run.
-/
namespace HappyModel.C04
open HappyModel.C01 HappyModel.C03
set_option linter.unusedVariables false
set_option linter.unusedSimpArgs false

variable {σ : Type} [Probe σ]

/-- `schedule()` from outside preserves the engine invariant: the new event has the next creation
    index, so it sorts after every pending or delivered event with the same timestamp -/
theorem inject_inv (s : St σ) (ent' : σ) (sp : Spec) (inv : Inv s) : Inv (injectSt s ent' sp) := by
  have hnew : ∀ e ∈ mkEvents s.nextId s.now [sp], s.nextId ≤ e.id ∧ e.id < s.nextId + 1 ∧ e.born = s.now := by
    intro e he
    have := mkEvents_id s.nextId s.now [sp] e he
    simpa using this
  unfold injectSt
  refine
    { fresh_heap := ?_, fresh_log := ?_, nodup := ?_, sorted := inv.sorted,
      log_le_now := inv.log_le_now, log_lt_heap := ?_, log_ne_heap := ?_, prim := ?_, notStale := ?_,
      popped_ne_heap := ?_, fresh_popped := ?_, popped_nodup := inv.popped_nodup,
      log_popped := inv.log_popped }
  · intro e he
    rcases List.mem_append.mp he with he | he
    · have := inv.fresh_heap e he; simp only []; omega
    · have := hnew e he; simp only []; omega
  · intro e he
    have := inv.fresh_log e he; simp only []; omega
  · simp only []
    rw [List.map_append, List.nodup_append]
    refine ⟨inv.nodup, mkEvents_ids_nodup _ _ _, ?_⟩
    intro a ha b hb
    simp only [List.mem_map] at ha hb
    obtain ⟨ea, hea, rfl⟩ := ha
    obtain ⟨eb, heb, rfl⟩ := hb
    have h1 := inv.fresh_heap ea hea
    have h2 := (hnew eb heb).1
    omega
  · intro d hd e he hge
    simp only [] at he hge
    rcases List.mem_append.mp he with he | he
    · exact inv.log_lt_heap d hd e he hge
    · have h1 := inv.fresh_log d hd
      have h2 := (hnew e he).1
      have h3 := inv.log_le_now d hd
      unfold keyLt; simp; omega
  · intro d hd e he
    simp only [] at he
    rcases List.mem_append.mp he with he | he
    · exact inv.log_ne_heap d hd e he
    · have h1 := inv.fresh_log d hd
      have h2 := (hnew e he).1
      omega
  · simp only []
    rw [countPrimary_append, inv.prim]
  · intro e he hb
    simp only [] at he ⊢
    rcases List.mem_append.mp he with he | he
    · exact inv.notStale e he hb
    · have := (hnew e he).2.2; omega
  · intro p hp e he
    simp only [] at he hp
    rcases List.mem_append.mp he with he | he
    · exact inv.popped_ne_heap p hp e he
    · have h1 := inv.fresh_popped p hp
      have h2 := (hnew e he).1
      omega
  · intro p hp
    have := inv.fresh_popped p hp; simp only [] at hp ⊢; omega

/-- the injected event is younger than everything pending or delivered: among equal timestamps it
    is delivered last (its key is above every older key with a timestamp not after its own) -/
theorem injected_is_youngest (s : St σ) (ent' : σ) (sp : Spec) (inv : Inv s) :
    ∀ e ∈ (injectSt s ent' sp).heap, e ∉ s.heap →
      e.id = s.nextId ∧ e.time = sp.time ∧
      (∀ o ∈ s.heap, o.time ≤ e.time → keyLt o e = true) ∧
      (∀ o ∈ s.log, o.id < e.id) := by
  intro e he hne
  unfold injectSt at he
  simp only [mkEvents, List.mem_append, List.mem_singleton] at he
  rcases he with he | he
  · exact absurd he hne
  · subst he
    refine ⟨rfl, rfl, ?_, ?_⟩
    · intro o ho hle
      have := inv.fresh_heap o ho
      unfold keyLt; simp only [] at hle ⊢; simp; omega
    · intro o ho
      exact inv.fresh_log o ho

/-- the state after `reset()` satisfies the engine invariant -/
theorem reset_is_init (base start : Nat) (ent : σ) (pre : List Spec) :
    resetSt base start ent pre = renSt (· + base) id (base + pre.length) (init ent start pre) := by
  have h := mkEvents_ren (· + base) 0 base start pre (by intro j; simp; omega)
  unfold resetSt renSt init
  simp only [h, countPrimary_ren, List.map_nil, id]

theorem renSt_shift_inv (k N' : Nat) (s : St σ) (inv : Inv s) (hN : s.nextId + k ≤ N') :
    Inv (renSt (· + k) id N' s) := by
  have hkl : ∀ a b : Ev, keyLt (renEv (· + k) a) (renEv (· + k) b) = keyLt a b := by
    intro a b; unfold keyLt renEv; simp
  have hmap : ∀ l : List Ev, (l.map (renEv (· + k))).map (·.id) = (l.map (·.id)).map (· + k) := by
    intro l; simp [List.map_map, Function.comp_def, renEv]
  have hinj : ∀ l : List Nat, l.Nodup → (l.map (· + k)).Nodup := by
    intro l hl
    unfold List.Nodup at *
    rw [List.pairwise_map]
    exact hl.imp (by intro a b hab h; omega)
  unfold renSt
  refine
    { fresh_heap := ?_, fresh_log := ?_, nodup := ?_, sorted := ?_,
      log_le_now := ?_, log_lt_heap := ?_, log_ne_heap := ?_, prim := ?_, notStale := ?_,
      popped_ne_heap := ?_, fresh_popped := ?_, popped_nodup := ?_, log_popped := ?_ }
  · intro e he
    simp only [List.mem_map] at he
    obtain ⟨e0, h0, rfl⟩ := he
    have := inv.fresh_heap e0 h0
    simp only [renEv]; omega
  · intro e he
    simp only [List.mem_map] at he
    obtain ⟨e0, h0, rfl⟩ := he
    have := inv.fresh_log e0 h0
    simp only [renEv]; omega
  · simp only []; rw [hmap]; exact hinj _ inv.nodup
  · simp only []
    have hs := inv.sorted
    generalize s.log = l at hs
    induction l with
    | nil => simp [LogSorted]
    | cons a r ih =>
      cases r with
      | nil => simp [LogSorted]
      | cons b r' =>
        simp only [LogSorted, List.map_cons] at hs ⊢
        exact ⟨by rw [hkl]; exact hs.1, ih hs.2⟩
  · intro d hd
    simp only [List.mem_map] at hd
    obtain ⟨d0, h0, rfl⟩ := hd
    exact inv.log_le_now d0 h0
  · intro d hd e he hge
    simp only [List.mem_map] at hd he
    obtain ⟨d0, hd0, rfl⟩ := hd
    obtain ⟨e0, he0, rfl⟩ := he
    rw [hkl]
    exact inv.log_lt_heap d0 hd0 e0 he0 hge
  · intro d hd e he
    simp only [List.mem_map] at hd he
    obtain ⟨d0, hd0, rfl⟩ := hd
    obtain ⟨e0, he0, rfl⟩ := he
    have := inv.log_ne_heap d0 hd0 e0 he0
    simp only [renEv]; omega
  · simp only [countPrimary_ren]; exact inv.prim
  · intro e he hb
    simp only [List.mem_map] at he
    obtain ⟨e0, he0, rfl⟩ := he
    exact inv.notStale e0 he0 hb
  · intro p hp e he
    simp only [List.mem_map] at hp he
    obtain ⟨p0, hp0, rfl⟩ := hp
    obtain ⟨e0, he0, rfl⟩ := he
    have := inv.popped_ne_heap p0 hp0 e0 he0
    simp only [renEv]; omega
  · intro p hp
    simp only [List.mem_map] at hp
    obtain ⟨p0, hp0, rfl⟩ := hp
    have := inv.fresh_popped p0 hp0
    simp only [renEv]; omega
  · simp only []
    have : (s.popped.map (fun p => (renEv (· + k) p.1, p.2))).map (·.1.id) = (s.popped.map (·.1.id)).map (· + k) := by
      simp [List.map_map, Function.comp_def, renEv]
    rw [this]; exact hinj _ inv.popped_nodup
  · intro e
    simp only [List.mem_map]
    constructor
    · rintro ⟨e0, h0, rfl⟩
      exact ⟨(e0, .delivered), (inv.log_popped e0).mp h0, rfl⟩
    · rintro ⟨p0, hp0, hpe⟩
      obtain ⟨pe, pv⟩ := p0
      simp only [Prod.mk.injEq] at hpe
      obtain ⟨h1, h2⟩ := hpe
      subst h2
      exact ⟨pe, (inv.log_popped pe).mpr hp0, h1⟩

theorem reset_inv (base start : Nat) (ent : σ) (pre : List Spec) : Inv (resetSt base start ent pre) := by
  rw [reset_is_init]
  exact renSt_shift_inv base _ _ (init_inv ent start pre) (by simp [init]; omega)

end HappyModel.C04
