import HappyModel.C04.Control
/-!
Breakpoints in the instrumented loop: "a breakpoint pauses right after the first delivery that
satisfies it", and a one-shot breakpoint is unregistered only by firing.
-/
namespace HappyModel.C04
open HappyModel.C01
set_option linter.unusedVariables false
set_option linter.unusedSimpArgs false

variable {σ : Type} [Probe σ]

/-- ghost view of one call of run()/resume()/step(n): the deliveries it makes, in order, each with
    the engine state right after it and the breakpoints registered at that moment — those of the
    start of the call plus what on_event hooks have added since, the hooks of this very delivery
    included (what `_check_breakpoints` looks at).  Same recursion as `ctlLoop`. -/
def ctlDelivs (m : Machine σ) (endT : Option Nat) : Nat → St σ → Ctl → List ((St σ × Ev) × List Bp)
  | 0, _, _ => []
  | fuel+1, s, c =>
    if !loopCond endT s then []
    else if shouldPause c then []
    else if endT.isNone && s.primary == 0 then []
    else
      match s.heap with
      | [] => []
      | x :: xs =>
        let e := minOf x xs
        let s' := stepWith m s e
        if s'.processed == s.processed then ctlDelivs m endT fuel s' c
        else
          let c1 := { c with steps := c.steps.map (· - 1),
                             pauseReq := c.pauseReq || c.pauseAt.contains s'.processed,
                             bps := c.bps ++ added c s'.processed }
          let hits := c1.bps.filter (Bp.hit s' e)
          if hits.isEmpty then ((s', e), c1.bps) :: ctlDelivs m endT fuel s' c1
          else [((s', e), c1.bps)]

/-- does some registered breakpoint fire on this delivery? -/
def fires (bps : List Bp) (p : St σ × Ev) : Prop := ∃ b ∈ bps, b.hit p.1 p.2 = true

theorem filter_isEmpty_iff_not_fires (bps : List Bp) (p : St σ × Ev) :
    (bps.filter (Bp.hit p.1 p.2)).isEmpty = true ↔ ¬ fires bps p := by
  simp only [List.isEmpty_iff, List.filter_eq_nil_iff, fires]
  constructor
  · rintro h ⟨b, hb, hh⟩; exact h b hb hh
  · intro h b hb hh; exact h ⟨b, hb, hh⟩

/-- the result of a call, described together with its deliveries; everything below is read off it -/
structure CallFacts (bps : List Bp) (addAt : List (Nat × Bp)) (D : List ((St σ × Ev) × List Bp))
    (r : St σ × Ctl × Outcome) : Prop where
  /-- a delivery on which a breakpoint registered at that moment fires is the last delivery of the
      call, the call comes back paused in the state right after it, and exactly the one-shot
      breakpoints that fired on it are unregistered -/
  first : ∀ pre x post, D = pre ++ x :: post → fires x.2 x.1 →
      post = [] ∧ r.2.2 = .paused ∧ r.1 = x.1.1 ∧
      r.2.1.bps = x.2.filter (fun b => !(b.hit x.1.1 x.1.2 && b.oneShot))
  /-- if no delivery fired a breakpoint, every breakpoint registered at the start of the call still is
      (hooks may have added more) and a pause can only come from a pause request or an exhausted
      step budget -/
  quiet : (∀ x ∈ D, ¬ fires x.2 x.1) →
      (∀ b ∈ bps, b ∈ r.2.1.bps) ∧ (r.2.2 = .paused → shouldPause r.2.1 = true)
  /-- the registry only grows while nothing fires: what was registered at the start of the call is
      registered at every delivery of the call -/
  grow : ∀ x ∈ D, ∀ b ∈ bps, b ∈ x.2
  /-- … and a breakpoint that a hook adds on a delivery (`processed = k`) is in force for that very delivery -/
  hooked : ∀ x ∈ D, ∀ a ∈ addAt, a.1 = x.1.1.processed → a.2 ∈ x.2

theorem callFacts (m : Machine σ) (endT : Option Nat) (fuel : Nat) (s : St σ) (c : Ctl) :
    CallFacts c.bps c.addAt (ctlDelivs m endT fuel s c) (ctlLoop m endT fuel s c) := by
  induction fuel generalizing s c with
  | zero =>
    refine ⟨?_, ?_, ?_, ?_⟩
    · intro pre p post h; simp [ctlDelivs] at h
    · intro _; simp [ctlLoop]
    · intro x hx; simp [ctlDelivs] at hx
    · intro x hx; simp [ctlDelivs] at hx
  | succ fuel ih =>
    simp only [ctlLoop, ctlDelivs]
    have stop : ∀ (o : Outcome), (o = .paused → shouldPause c = true) →
        CallFacts c.bps c.addAt ([] : List ((St σ × Ev) × List Bp)) (s, c, o) := by
      intro o ho
      exact ⟨by intro pre p post h; simp at h, fun _ => ⟨fun b hb => hb, ho⟩, by intro x hx; simp at hx,
        by intro x hx; simp at hx⟩
    by_cases h1 : loopCond endT s = true
    · simp only [h1, Bool.not_true, Bool.false_eq_true, if_false]
      by_cases hp : shouldPause c = true
      · simp only [hp, if_true]
        exact stop .paused (fun _ => hp)
      · simp only [hp, Bool.false_eq_true, if_false]
        by_cases h2 : (endT.isNone && s.primary == 0) = true
        · simp only [h2, if_true]
          exact stop .complete (by simp)
        · have h2' : (endT.isNone && s.primary == 0) = false := by simpa using h2
          simp only [h2', Bool.false_eq_true, if_false]
          cases hh : s.heap with
          | nil => exact stop .complete (by simp)
          | cons x xs =>
            simp only []
            by_cases hproc : ((stepWith m s (minOf x xs)).processed == s.processed) = true
            · simp only [hproc, if_true]
              exact ih (stepWith m s (minOf x xs)) c
            · simp only [hproc, Bool.false_eq_true, if_false]
              generalize hs' : stepWith m s (minOf x xs) = s'
              generalize he : minOf x xs = e
              generalize hbs : c.bps ++ added c s'.processed = bs
              by_cases hhit : (List.filter (Bp.hit s' e) bs).isEmpty = true
              · -- nothing fires on this delivery: continue with the (possibly larger) registry
                simp only [hhit, if_true]
                have hnf : ¬ fires bs (s', e) := (filter_isEmpty_iff_not_fires bs (s', e)).mp hhit
                have ih' := ih s' { c with steps := c.steps.map (· - 1),
                                           pauseReq := c.pauseReq || c.pauseAt.contains s'.processed,
                                           bps := bs }
                have hsub : ∀ b ∈ c.bps, b ∈ bs := by
                  intro b hb; rw [← hbs]; exact List.mem_append_left _ hb
                have hadd : ∀ a ∈ c.addAt, a.1 = s'.processed → a.2 ∈ bs := by
                  intro a ha hk
                  rw [← hbs]
                  apply List.mem_append_right
                  simp only [added, List.mem_map, List.mem_filter]
                  exact ⟨a, ⟨ha, by simp [hk]⟩, rfl⟩
                refine ⟨?_, ?_, ?_, ?_⟩
                · intro pre p post hD hf
                  cases pre with
                  | nil =>
                    simp only [List.nil_append, List.cons.injEq] at hD
                    have h0 := hD.1
                    subst h0
                    exact absurd hf hnf
                  | cons q pre' =>
                    simp only [List.cons_append, List.cons.injEq] at hD
                    exact ih'.first pre' p post hD.2 hf
                · intro hq
                  have := ih'.quiet (fun p hp' => hq p (List.mem_cons_of_mem _ hp'))
                  exact ⟨fun b hb => this.1 b (hsub b hb), this.2⟩
                · intro y hy b hb
                  rcases List.mem_cons.mp hy with rfl | hy
                  · exact hsub b hb
                  · exact ih'.grow y hy b (hsub b hb)
                · intro y hy a ha hk
                  rcases List.mem_cons.mp hy with rfl | hy
                  · exact hadd a ha hk
                  · exact ih'.hooked y hy a ha hk
              · -- a breakpoint fires: pause right here
                simp only [hhit, Bool.false_eq_true, if_false]
                have hf : fires bs (s', e) := by
                  by_cases hf : fires bs (s', e)
                  · exact hf
                  · exact absurd ((filter_isEmpty_iff_not_fires bs (s', e)).mpr hf) hhit
                refine ⟨?_, ?_, ?_, ?_⟩
                · intro pre p post hD _
                  cases pre with
                  | nil =>
                    simp only [List.nil_append, List.cons.injEq] at hD
                    obtain ⟨hp', hpost⟩ := hD
                    subst hp'
                    exact ⟨hpost.symm, rfl, rfl, rfl⟩
                  | cons q pre' =>
                    simp only [List.cons_append, List.cons.injEq] at hD
                    have := hD.2
                    simp at this
                · intro hq
                  exact absurd hf (hq ((s', e), bs) (by simp))
                · intro y hy b hb
                  simp only [List.mem_singleton] at hy
                  subst hy
                  rw [← hbs]; exact List.mem_append_left _ hb
                · intro y hy a ha hk
                  simp only [List.mem_singleton] at hy
                  subst hy
                  rw [← hbs]
                  apply List.mem_append_right
                  simp only [added, List.mem_map, List.mem_filter]
                  exact ⟨a, ⟨ha, by simp [hk]⟩, rfl⟩
    · have h1' : loopCond endT s = false := by simpa using h1
      simp only [h1', Bool.not_false, if_true]
      exact stop .complete (by simp)

end HappyModel.C04
