import HappyModel.C04.Control
/-!
Breakpoints in the instrumented loop: "a breakpoint pauses right after the first delivery that
satisfies it", and a one-shot breakpoint is unregistered only by firing.
-/
namespace HappyModel.C04
open HappyModel.C01
set_option linter.unusedVariables false
set_option linter.unusedSimpArgs false

variable {σ : Type} [Probe σ]

/-- ghost view of one call of run()/resume()/step(n): the deliveries it makes, in order, each with
    the engine state right after it (what `_check_breakpoints` looks at).  Same recursion as
    `ctlLoop`. -/
def ctlDelivs (m : Machine σ) (endT : Option Nat) : Nat → St σ → Ctl → List (St σ × Ev)
  | 0, _, _ => []
  | fuel+1, s, c =>
    if !loopCond endT s then []
    else if shouldPause c then []
    else if endT.isNone && s.primary == 0 then []
    else
      match s.heap with
      | [] => []
      | x :: xs =>
        let e := minOf x xs
        let s' := stepWith m s e
        if s'.processed == s.processed then ctlDelivs m endT fuel s' c
        else
          let c1 := { c with steps := c.steps.map (· - 1),
                             pauseReq := c.pauseReq || c.pauseAt.contains s'.processed }
          let hits := c1.bps.filter (Bp.hit s' e)
          if hits.isEmpty then (s', e) :: ctlDelivs m endT fuel s' c1
          else [(s', e)]

/-- does some registered breakpoint fire on this delivery? -/
def fires (bps : List Bp) (p : St σ × Ev) : Prop := ∃ b ∈ bps, b.hit p.1 p.2 = true

theorem filter_isEmpty_iff_not_fires (bps : List Bp) (p : St σ × Ev) :
    (bps.filter (Bp.hit p.1 p.2)).isEmpty = true ↔ ¬ fires bps p := by
  simp only [List.isEmpty_iff, List.filter_eq_nil_iff, fires]
  constructor
  · rintro h ⟨b, hb, hh⟩; exact h b hb hh
  · intro h b hb hh; exact h ⟨b, hb, hh⟩

/-- the result of a call, described together with its deliveries; everything below is read off it -/
structure CallFacts (bps : List Bp) (D : List (St σ × Ev)) (r : St σ × Ctl × Outcome) : Prop where
  /-- a delivery on which a registered breakpoint fires is the last delivery of the call, the call
      comes back paused in the state right after it, and exactly the one-shot breakpoints that
      fired on it are unregistered -/
  first : ∀ pre p post, D = pre ++ p :: post → fires bps p →
      post = [] ∧ r.2.2 = .paused ∧ r.1 = p.1 ∧
      r.2.1.bps = bps.filter (fun b => !(b.hit p.1 p.2 && b.oneShot))
  /-- if no delivery fired a breakpoint, the registered breakpoints are untouched and a pause can
      only come from a pause request or an exhausted step budget -/
  quiet : (∀ p ∈ D, ¬ fires bps p) →
      r.2.1.bps = bps ∧ (r.2.2 = .paused → shouldPause r.2.1 = true)

theorem callFacts (m : Machine σ) (endT : Option Nat) (fuel : Nat) (s : St σ) (c : Ctl) :
    CallFacts c.bps (ctlDelivs m endT fuel s c) (ctlLoop m endT fuel s c) := by
  induction fuel generalizing s c with
  | zero =>
    refine ⟨?_, ?_⟩
    · intro pre p post h; simp [ctlDelivs] at h
    · intro _; simp [ctlLoop]
  | succ fuel ih =>
    simp only [ctlLoop, ctlDelivs]
    by_cases h1 : loopCond endT s = true
    · simp only [h1, Bool.not_true, Bool.false_eq_true, if_false]
      by_cases hp : shouldPause c = true
      · simp only [hp, if_true]
        exact ⟨by intro pre p post h; simp at h, fun _ => ⟨rfl, fun _ => hp⟩⟩
      · simp only [hp, Bool.false_eq_true, if_false]
        by_cases h2 : (endT.isNone && s.primary == 0) = true
        · simp only [h2, if_true]
          exact ⟨by intro pre p post h; simp at h, fun _ => ⟨rfl, by simp⟩⟩
        · have h2' : (endT.isNone && s.primary == 0) = false := by simpa using h2
          simp only [h2', Bool.false_eq_true, if_false]
          cases hh : s.heap with
          | nil => exact ⟨by intro pre p post h; simp at h, fun _ => ⟨rfl, by simp⟩⟩
          | cons x xs =>
            simp only []
            by_cases hproc : ((stepWith m s (minOf x xs)).processed == s.processed) = true
            · simp only [hproc, if_true]
              exact ih (stepWith m s (minOf x xs)) c
            · simp only [hproc, Bool.false_eq_true, if_false]
              generalize hs' : stepWith m s (minOf x xs) = s'
              generalize he : minOf x xs = e
              by_cases hhit : (List.filter (Bp.hit s' e) c.bps).isEmpty = true
              · -- nothing fires on this delivery: continue with the same registered breakpoints
                simp only [hhit, if_true]
                have hnf : ¬ fires c.bps (s', e) := (filter_isEmpty_iff_not_fires c.bps (s', e)).mp hhit
                have ih' := ih s' { c with steps := c.steps.map (· - 1),
                                           pauseReq := c.pauseReq || c.pauseAt.contains s'.processed }
                refine ⟨?_, ?_⟩
                · intro pre p post hD hf
                  cases pre with
                  | nil =>
                    simp only [List.nil_append, List.cons.injEq] at hD
                    exact absurd (hD.1 ▸ hf) hnf
                  | cons q pre' =>
                    simp only [List.cons_append, List.cons.injEq] at hD
                    exact ih'.first pre' p post hD.2 hf
                · intro hq
                  exact ih'.quiet (fun p hp' => hq p (List.mem_cons_of_mem _ hp'))
              · -- a breakpoint fires: pause right here
                simp only [hhit, Bool.false_eq_true, if_false]
                have hf : fires c.bps (s', e) := by
                  by_cases hf : fires c.bps (s', e)
                  · exact hf
                  · exact absurd ((filter_isEmpty_iff_not_fires c.bps (s', e)).mpr hf) hhit
                refine ⟨?_, ?_⟩
                · intro pre p post hD _
                  cases pre with
                  | nil =>
                    simp only [List.nil_append, List.cons.injEq] at hD
                    obtain ⟨hp', hpost⟩ := hD
                    subst hp'
                    exact ⟨hpost.symm, rfl, rfl, rfl⟩
                  | cons q pre' =>
                    simp only [List.cons_append, List.cons.injEq] at hD
                    have := hD.2
                    simp at this
                · intro hq
                  exact absurd hf (hq (s', e) (by simp))
    · have h1' : loopCond endT s = false := by simpa using h1
      simp only [h1', Bool.not_false, if_true]
      exact ⟨by intro pre p post h; simp at h, fun _ => ⟨rfl, by simp⟩⟩

end HappyModel.C04
