import HappyProofs.C07.Ranked
import HappyProofs.C07.Timers
import HappyProofs.C07.Rearm
/-!
# C07 — the modelled timers as engine handlers

`Timers.lean` / `Rearm.lean` describe the timer idioms as chains of delivery instants.  Here the same
timers are written as handlers (`Machine`) of the C01 engine model, and shown to satisfy the handler
hypotheses of the engine theorems — so `no_stale_pop` (nothing is ever discarded) and the per-instant
bounds apply to them, for every run length, every end time and every pending workload they are mixed with.

* `tickMachine iv` — the periodic daemon: each delivery re-arms at `now + iv`;
* `manualMachine iv` — "interval 0 = disabled": re-arms with `Timers.rearmNew`;
* `rearmMachine bs` — the ShiftedServer timer that exists: the event carries how many boundaries are
  left (`data`); it is re-armed for the next boundary at `max ns now`.
-/
namespace HappyModel.C07
open HappyModel.C01
set_option linter.unusedVariables false
set_option linter.unusedSimpArgs false

variable {σ : Type}

/-- the engine theorems of `Props.lean` (`no_stale_pop`, `deliveries_at_instant_bounded`,
    `deliveries_at_instant_ranked_bound`), restated here from the lemmas they rest on: this file is imported by
    `Props.lean` -/
theorem engine_no_stale (mc : Machine σ) (hE : EmitsGeNow mc) (ent : σ) (start : Nat) (pre : List Spec)
    (hP : PreGeStart start pre) (endT : Option Nat) (n : Nat) :
    (runFrom mc ent start pre endT n).nStale = 0 ∧
    ∀ p ∈ (runFrom mc ent start pre endT n).popped, p.2 ≠ Verdict.stale := by
  have np := run_noPast mc hE endT n _ (init_inv ent start pre) (init_noPast ent start pre hP)
  exact ⟨np.nstale, np.popped_ok⟩

theorem engine_instant_bounded (mc : Machine σ) (hS : StrictFuture mc) (endT : Option Nat) (n : Nat) (s : St σ)
    (t : Nat) (ht : t ≤ s.now) : delivAt (run mc endT n s) t ≤ delivAt s t + pendingAt s t := by
  have := run_budget mc hS endT n s t ht
  omega

theorem engine_instant_ranked (mc : Machine σ) (fan : Nat) (hR : Ranked mc fan) (endT : Option Nat) (n : Nat)
    (s : St σ) (t : Nat) (ht : t ≤ s.now) : delivAt (run mc endT n s) t ≤ delivAt s t + wsum fan s.heap t := by
  have := run_potential mc fan hR endT n s t ht
  unfold potential at this
  omega

-- ------------------------------------------------------------------ periodic daemon
def tickMachine (iv : Nat) : Machine Unit :=
  { handle := fun _ now e => { ent := (), specs := [⟨now + iv, e.target, e.kind, e.daemon, 0, 0⟩] } }

theorem tickMachine_emitsGeNow (iv : Nat) : EmitsGeNow (tickMachine iv) := by
  intro ent now ev sp hsp
  simp [tickMachine] at hsp
  subst hsp; simp

/-- with the ≥ 1 ns guard passed the daemon is strictly-future (`Timers.tick_progress`) -/
theorem tickMachine_strictFuture (iv : Nat) (h : 1 ≤ iv) : StrictFuture (tickMachine iv) := by
  intro ent now ev sp hsp
  simp [tickMachine] at hsp
  subst hsp; simp; omega

/-- and only then: the sub-nanosecond interval is not strictly-future -/
theorem tickMachine_zero_not_strictFuture : ¬ StrictFuture (tickMachine 0) := by
  intro h
  have := h () 0 ⟨0, 0, 0, 0, false, 0, 0, 0⟩ ⟨0, 0, 0, false, 0, 0⟩ (by simp [tickMachine])
  simp at this

/-- **timers_no_stale_pop**: the engine never discards an event of a periodic daemon, whatever its interval -/
theorem timers_no_stale_pop (iv : Nat) (start : Nat) (pre : List Spec) (hP : PreGeStart start pre)
    (endT : Option Nat) (n : Nat) :
    (runFrom (tickMachine iv) () start pre endT n).nStale = 0 ∧
    ∀ p ∈ (runFrom (tickMachine iv) () start pre endT n).popped, p.2 ≠ Verdict.stale :=
  engine_no_stale (tickMachine iv) (tickMachine_emitsGeNow iv) () start pre hP endT n

/-- **timers_deliveries_at_instant_bounded**: a guarded daemon never adds to an instant: deliveries at `t` are
    bounded by what was pending for `t` when the clock got there, for every number of daemons / pending events -/
theorem timers_deliveries_at_instant_bounded (iv : Nat) (h : 1 ≤ iv) (endT : Option Nat) (n : Nat) (s : St Unit)
    (t : Nat) (ht : t ≤ s.now) :
    delivAt (run (tickMachine iv) endT n s) t ≤ delivAt s t + pendingAt s t :=
  engine_instant_bounded (tickMachine iv) (tickMachine_strictFuture iv h) endT n s t ht

example : delivAt (runFrom (tickMachine 250) () 0 [⟨1000, 0, 0, true, 0, 0⟩, ⟨1250, 0, 1, false, 0, 0⟩] (some 1600) 20) 1250 = 2 ∧
    (runFrom (tickMachine 250) () 0 [⟨1000, 0, 0, true, 0, 0⟩, ⟨1250, 0, 1, false, 0, 0⟩] (some 1600) 20).nStale = 0 := by decide

-- ------------------------------------------------------------------ interval 0 = disabled
def manualMachine (iv : Nat) : Machine Unit :=
  { handle := fun _ now e => { ent := (), specs := (Timers.rearmNew iv now).map (fun t => ⟨t, e.target, e.kind, e.daemon, 0, 0⟩) } }

/-- the handler that exists is strictly-future for EVERY interval, 0 (= disabled) included -/
theorem manualMachine_strictFuture (iv : Nat) : StrictFuture (manualMachine iv) := by
  intro ent now ev sp hsp
  unfold manualMachine Timers.rearmNew at hsp
  by_cases h : iv = 0
  · simp [h] at hsp
  · simp [h] at hsp
    subst hsp; simp; omega

theorem manualMachine_emitsGeNow (iv : Nat) : EmitsGeNow (manualMachine iv) := by
  intro ent now ev sp hsp
  exact Nat.le_of_lt (manualMachine_strictFuture iv ent now ev sp hsp)

theorem manual_no_stale_pop (iv : Nat) (start : Nat) (pre : List Spec) (hP : PreGeStart start pre)
    (endT : Option Nat) (n : Nat) :
    (runFrom (manualMachine iv) () start pre endT n).nStale = 0 :=
  (engine_no_stale (manualMachine iv) (manualMachine_emitsGeNow iv) () start pre hP endT n).1

/-- manual ticks with gossip disabled: every tick is delivered once, nothing else happens at its instant -/
theorem manual_deliveries_at_instant_bounded (iv : Nat) (endT : Option Nat) (n : Nat) (s : St Unit)
    (t : Nat) (ht : t ≤ s.now) :
    delivAt (run (manualMachine iv) endT n s) t ≤ delivAt s t + pendingAt s t :=
  engine_instant_bounded (manualMachine iv) (manualMachine_strictFuture iv) endT n s t ht

/-- the pre-fix handler (`Timers.rearmOld`) with interval 0 is the zero-delay poll -/
def manualOldMachine (iv : Nat) : Machine Unit :=
  { handle := fun _ now e => { ent := (), specs := (Timers.rearmOld iv now).map (fun t => ⟨t, e.target, e.kind, e.daemon, 0, 0⟩) } }

theorem manualOldMachine_zero_not_strictFuture : ¬ StrictFuture (manualOldMachine 0) := by
  intro h
  have := h () 5 ⟨0, 5, 0, 0, false, 0, 0, 0⟩ ⟨5, 0, 0, false, 0, 0⟩ (by simp [manualOldMachine, Timers.rearmOld])
  simp at this

example : delivAt (runFrom (manualMachine 0) () 0 [⟨500, 0, 0, true, 0, 0⟩, ⟨500, 0, 0, true, 0, 0⟩] (some 2000) 50) 500 = 2 ∧
    delivAt (runFrom (manualOldMachine 0) () 0 [⟨500, 0, 0, true, 0, 0⟩] (some 2000) 50) 500 = 50 := by decide

-- ------------------------------------------------------------------ the ShiftedServer timer that exists
/-- the `_ShiftChange` handler: `e.data` = boundaries left; the event stands for boundary `bs.length - e.data` -/
def rearmSpecs (bs : List Rearm.Boundary) (now : Nat) (e : Ev) : List Spec :=
  if e.data = 0 then []
  else match bs[bs.length - e.data]? with
    | none => []
    | some b => [⟨max b.ns now, e.target, e.kind, e.daemon, e.data - 1, 0⟩]

def rearmMachine (bs : List Rearm.Boundary) : Machine Unit :=
  { handle := fun _ now e => { ent := (), specs := rearmSpecs bs now e } }

/-- it may re-arm at `now` (a boundary that is already past), but then with one boundary less to go -/
theorem rearmMachine_ranked (bs : List Rearm.Boundary) : Ranked (rearmMachine bs) 1 := by
  intro ent now ev
  show (rearmSpecs bs now ev).length ≤ 1 ∧ ∀ sp ∈ rearmSpecs bs now ev, now < sp.time ∨ (now = sp.time ∧ sp.data < ev.data)
  unfold rearmSpecs
  by_cases hd : ev.data = 0
  · simp [hd]
  · cases hb : bs[bs.length - ev.data]? with
    | none => simp [hd, hb]
    | some b =>
      simp only [hd, hb, if_false, List.length_singleton, Nat.le_refl, List.mem_singleton, forall_eq, true_and]
      by_cases h : now < max b.ns now
      · exact Or.inl h
      · refine Or.inr ⟨?_, ?_⟩
        · have := Nat.le_max_right b.ns now
          show now = max b.ns now
          omega
        · show ev.data - 1 < ev.data
          omega

theorem rearmMachine_emitsGeNow (bs : List Rearm.Boundary) : EmitsGeNow (rearmMachine bs) := by
  intro ent now ev sp hsp
  rcases (rearmMachine_ranked bs ent now ev).2 sp hsp with h | h <;> omega

/-- **rearm_no_stale_pop**: no `_ShiftChange` event is ever discarded, for every schedule (lossy boundaries included) -/
theorem rearm_no_stale_pop (bs : List Rearm.Boundary) (start : Nat) (pre : List Spec) (hP : PreGeStart start pre)
    (endT : Option Nat) (n : Nat) :
    (runFrom (rearmMachine bs) () start pre endT n).nStale = 0 ∧
    ∀ p ∈ (runFrom (rearmMachine bs) () start pre endT n).popped, p.2 ≠ Verdict.stale :=
  engine_no_stale (rearmMachine bs) (rearmMachine_emitsGeNow bs) () start pre hP endT n

/-- **rearm_deliveries_at_instant_bounded**: at any instant the timer is delivered at most once per boundary it still
    has to go (`W 1 r = r + 1`) for each timer event pending there — never unboundedly, unlike the old timer -/
theorem rearm_deliveries_at_instant_bounded (bs : List Rearm.Boundary) (endT : Option Nat) (n : Nat) (s : St Unit)
    (t : Nat) (ht : t ≤ s.now) :
    delivAt (run (rearmMachine bs) endT n s) t ≤ delivAt s t + wsum 1 s.heap t :=
  engine_instant_ranked (rearmMachine bs) 1 (rearmMachine_ranked bs) endT n s t ht

theorem W_one (r : Nat) : W 1 r = r + 1 := by
  induction r with
  | zero => rfl
  | succ r ih => simp [W, ih]; omega

/-- the schedule of the genuine defect (2.05 s is lossy): three shift changes, each delivered once, none discarded -/
example :
    let bs : List Rearm.Boundary := [⟨1000000000, false⟩, ⟨2049999999, true⟩, ⟨2450000000, false⟩]
    ((runFrom (rearmMachine bs) () 0 [⟨1000000000, 0, 0, true, 2, 0⟩] (some 3000000000) 20).log.map (·.time)) =
      [1000000000, 2049999999, 2450000000] ∧
    (runFrom (rearmMachine bs) () 0 [⟨1000000000, 0, 0, true, 2, 0⟩] (some 3000000000) 20).nStale = 0 := by decide

/-- the engine runs of the handlers reproduce the chains of `Timers.lean` / `Rearm.lean` (decided instances; the loose
    horizon rule of `_execute_until` delivers one tick beyond the end time) -/
example :
    ((runFrom (tickMachine 250) () 0 [⟨1000, 0, 0, false, 0, 0⟩] (some 1600) 20).log.map (·.time)) = Timers.tickChain 250 4 1000 ∧
    ((runFrom (manualMachine 0) () 0 [⟨500, 0, 0, false, 0, 0⟩] (some 2000) 20).log.map (·.time)) = Timers.roundChain Timers.rearmNew 0 20 500 ∧
    (let bs : List Rearm.Boundary := [⟨1000000000, false⟩, ⟨2049999999, true⟩, ⟨2450000000, false⟩]
     ((runFrom (rearmMachine bs) () 0 [⟨1000000000, 0, 0, false, 2, 0⟩] (some 3000000000) 20).log.map (·.time)) =
       (Rearm.chain bs 3 0 0).map (·.1)) := by decide

end HappyModel.C07
