/-!
# C07 — stamping an event through a float-seconds round trip

Two ways of stamping "`d` after now" occur in the component library:

* `now + Duration.from_seconds(d)` — integer nanoseconds: `stampInt now dNs = now + dNs`;
* `Instant.from_seconds(now.to_seconds() + d)` — the clock is converted to float seconds and back:
  `stampFloat conv now dNs = conv (now + dNs)`.

`conv : Nat → Nat` is the composite `ns ↦ int((ns / 1e9) * 1e9)` of the library's two conversions, taken as a
parameter: floats do not enter.  The only facts used are that truncation never gains (`conv n ≤ n`, `NoGain`)
and, for the sharp statement, that it loses at most one nanosecond (`LosesAtMostOne`).

* `stampInt_never_past` — the integer form never stamps before `now`;
* `stampFloat_zero_past_iff` — with a zero delay ("retry immediately", "re-arm at the boundary") the float form
  stamps in the past **exactly when** `conv` loses a nanosecond at `now`;
* `stampFloat_past_iff` — with `LosesAtMostOne`, for every delay: in the past iff the delay is 0 and `conv` loses
  a nanosecond at `now`; any delay of ≥ 1 ns is safe;
* decided witness: 2.05 s (`int(2050000000 / 1e9 * 1e9) = 2049999999` in IEEE doubles), the instant found in this
  session (ShiftedServer boundary, Client retry at a lossy timeout instant).
-/
namespace HappyModel.C07.FloatStamp

def stampInt (now dNs : Nat) : Nat := now + dNs
def stampFloat (conv : Nat → Nat) (now dNs : Nat) : Nat := conv (now + dNs)

/-- truncation never rounds up -/
def NoGain (conv : Nat → Nat) : Prop := ∀ n, conv n ≤ n
/-- … and loses at most one nanosecond -/
def LosesAtMostOne (conv : Nat → Nat) : Prop := ∀ n, n ≤ conv n + 1

/-- `conv` loses a nanosecond at `n`: the instant does not survive the ns → float seconds → ns round trip -/
def LossyAt (conv : Nat → Nat) (n : Nat) : Prop := conv n < n

/-- the integer form never stamps in the past -/
theorem stampInt_never_past (now dNs : Nat) : now ≤ stampInt now dNs := by
  unfold stampInt; omega

/-- … and is strictly later for every delay of at least one nanosecond -/
theorem stampInt_strict (now dNs : Nat) (h : 1 ≤ dNs) : now < stampInt now dNs := by
  unfold stampInt; omega

/-- zero delay: the float form is in the past exactly when `conv` loses a nanosecond at `now` -/
theorem stampFloat_zero_past_iff (conv : Nat → Nat) (now : Nat) :
    stampFloat conv now 0 < now ↔ LossyAt conv now := by
  unfold stampFloat LossyAt; simp

/-- a round trip that never gains never stamps *later* than the integer form -/
theorem stampFloat_le_stampInt (conv : Nat → Nat) (h : NoGain conv) (now dNs : Nat) :
    stampFloat conv now dNs ≤ stampInt now dNs := h (now + dNs)

/-- the sharp statement: the float form stamps in the past iff the delay is zero and `now` is lossy -/
theorem stampFloat_past_iff (conv : Nat → Nat) (h1 : LosesAtMostOne conv) (now dNs : Nat) :
    stampFloat conv now dNs < now ↔ dNs = 0 ∧ LossyAt conv now := by
  unfold stampFloat LossyAt
  constructor
  · intro h
    have := h1 (now + dNs)
    have hd : dNs = 0 := by omega
    subst hd
    exact ⟨rfl, by simpa using h⟩
  · rintro ⟨rfl, h⟩
    simpa using h

/-- so any delay of at least one nanosecond is safe even in the float form -/
theorem stampFloat_safe_of_delay (conv : Nat → Nat) (h1 : LosesAtMostOne conv) (now dNs : Nat) (hd : 1 ≤ dNs) :
    now ≤ stampFloat conv now dNs := by
  unfold stampFloat
  have := h1 (now + dNs)
  omega

/-- re-arming through the float form at a lossy instant with zero delay: one nanosecond in the past -/
theorem stampFloat_zero_one_ns_back (conv : Nat → Nat) (h1 : LosesAtMostOne conv) (now : Nat) (hl : LossyAt conv now) :
    stampFloat conv now 0 + 1 = now := by
  unfold stampFloat LossyAt at *
  have := h1 now
  simp at *; omega

/-- the witness of this session: the instant 2.05 s = 2 050 000 000 ns reads back as 2 049 999 999 ns
    (`int(2050000000 / 1e9 * 1e9)` in IEEE doubles); every other instant is left alone in this `conv` -/
def convWitness (n : Nat) : Nat := if n = 2050000000 then 2049999999 else n

theorem convWitness_noGain : NoGain convWitness := by
  intro n; unfold convWitness; split <;> omega

theorem convWitness_losesAtMostOne : LosesAtMostOne convWitness := by
  intro n; unfold convWitness; split <;> omega

/-- at 2.05 s: the float form with zero delay is stamped 1 ns in the past, the integer form is not; with a delay
    of 1 ns, or at the neighbouring instant, both are fine -/
example :
    LossyAt convWitness 2050000000 ∧
    stampFloat convWitness 2050000000 0 = 2049999999 ∧ stampFloat convWitness 2050000000 0 < 2050000000 ∧
    stampInt 2050000000 0 = 2050000000 ∧
    2050000000 ≤ stampFloat convWitness 2050000000 1 ∧
    ¬ LossyAt convWitness 2049999999 ∧ 2049999999 ≤ stampFloat convWitness 2049999999 0 := by
  unfold LossyAt
  decide

end HappyModel.C07.FloatStamp
