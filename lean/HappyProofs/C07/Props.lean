import HappyProofs.C07.NoPast
import HappyProofs.C07.Rearm
import HappyProofs.C07.Ranked
import HappyProofs.C07.Timers
import HappyProofs.C07.TimerHandlers
import HappyProofs.C07.FloatStamp
/-!
# C07 — property theorems

"For every component in the library and every workload, each event a component emits carries a
timestamp no earlier than the instant at which it is emitted, so the engine never has to discard it,
and a finite workload never causes an unbounded number of deliveries at a single simulated instant:
simulated time always advances or the run ends."

What Lean carries (on the engine model of C01, for **every** `Machine`, i.e. every handler function):

* `no_stale_pop`, `emitted_never_discarded` — *if* every handler output is stamped `≥ now`
  (`EmitsGeNow`) and pre-run events are not before the start, the engine never pops a stale event:
  the discard counter stays 0 along every run.  (The "so" of the property text.)
* `instant_budget`, `deliveries_at_instant_bounded`, `instant_does_not_feed_itself` — *if* every
  handler output is strictly in the future (`StrictFuture`), then once the clock has reached `t` the
  number of deliveries at `t` plus the number of pending events stamped `t` never grows: deliveries
  at one instant are bounded by what was pending when the clock got there; every delivered event was
  created strictly before its own instant or before the run.
* `spin_witness_unbounded` — `EmitsGeNow` alone does not bound an instant: the zero-delay poll
  (`while not flag: yield 0.0`) delivers `n` events at clock 0 for every `n`.
* `judge_none_iff_holds` — the executable judge used on monitored traces is the predicate `Holds`.

* `Rearm.old_rearms_same_instant`, `Rearm.old_spins`, `Rearm.old_unbounded` (file `Rearm.lean`) — the one
  component whose timer *is* modelled: `ShiftedServer`'s self-perpetuating `_ShiftChange` event.  The old
  timer ("next boundary strictly after the clock reading") re-arms at the current instant forever at every
  boundary that loses a nanosecond in `Instant.from_seconds` (2.05 s, 1.001 s, …); the timer that exists
  (`Rearm.chain`) handles each boundary once, in order, never before the clock, exactly at the boundary's
  instant (`chain_length_le`, `chain_not_past`, `chain_indices`, `chain_exact`).

* `Timers.*` (file `Timers.lean`) — three more timer idioms that produced real defects: the periodic daemon
  `next = now + interval` (`tick_progress`, `guarded_tick_at_most_once_per_instant`, `tick_zero_spins`), the
  "interval 0 = disabled" manual tick (`disabled_manual_tick_schedules_nothing`, `old_disabled_tick_spins`) and
  events collected across yields (`warmupNew_never_past`, `warmupOld_past_iff`).

Whether each *library component* satisfies `EmitsGeNow` and terminates its instants is not a Lean
statement here (components have no model in C07): the monitored scenario runs decide it, judged by
`Holds`.  The general progress statement for handlers that may emit at `now` with a decreasing rank is
`finite_per_instant_ranked`, proved as `finite_per_instant_ranked_holds` / `deliveries_at_instant_ranked_bound`
(file `Ranked.lean`); `rank_hypothesis_needed` shows the rank hypothesis cannot be dropped.
-/
namespace HappyModel.C07
open HappyModel.C01
set_option linter.unusedVariables false
set_option linter.unusedSimpArgs false

variable {σ : Type}

/-- **T1** the engine never pops a stale event, and never counts a discard, when handlers stamp `≥ now` -/
theorem no_stale_pop (mc : Machine σ) (hE : EmitsGeNow mc) (ent : σ) (start : Nat) (pre : List Spec)
    (hP : PreGeStart start pre) (endT : Option Nat) (n : Nat) :
    (runFrom mc ent start pre endT n).nStale = 0 ∧
    ∀ p ∈ (runFrom mc ent start pre endT n).popped, p.2 ≠ Verdict.stale := by
  have np := run_noPast mc hE endT n _ (init_inv ent start pre) (init_noPast ent start pre hP)
  exact ⟨np.nstale, np.popped_ok⟩

/-- every event that leaves the heap is delivered, or was cancelled, or its target is crashed —
    never discarded as "time travel" -/
theorem emitted_never_discarded (mc : Machine σ) (hE : EmitsGeNow mc) (ent : σ) (start : Nat)
    (pre : List Spec) (hP : PreGeStart start pre) (endT : Option Nat) (n : Nat) :
    ∀ p ∈ (runFrom mc ent start pre endT n).popped,
      p.2 = Verdict.delivered ∨ p.2 = Verdict.cancelled ∨ p.2 = Verdict.gated := by
  intro p hp
  have := (no_stale_pop mc hE ent start pre hP endT n).2 p hp
  cases h : p.2 <;> simp_all

/-- and every event still pending is not in the past either -/
theorem pending_not_past (mc : Machine σ) (hE : EmitsGeNow mc) (ent : σ) (start : Nat) (pre : List Spec)
    (hP : PreGeStart start pre) (endT : Option Nat) (n : Nat) :
    ∀ e ∈ (runFrom mc ent start pre endT n).heap, (runFrom mc ent start pre endT n).now ≤ e.time := by
  intro e he
  have np := run_noPast mc hE endT n _ (init_inv ent start pre) (init_noPast ent start pre hP)
  exact pending_never_stale mc ent start pre endT n e he (np.born_le e he)

/-- **T2** once the clock has reached `t`, deliveries at `t` + events pending for `t` never grows -/
theorem instant_budget (mc : Machine σ) (hS : StrictFuture mc) (endT : Option Nat) (n : Nat) (s : St σ)
    (t : Nat) (ht : t ≤ s.now) :
    delivAt (run mc endT n s) t + pendingAt (run mc endT n s) t ≤ delivAt s t + pendingAt s t :=
  run_budget mc hS endT n s t ht

/-- the number of deliveries at one clock value is bounded by the number of events pending with that
    timestamp when the clock reached it (plus those already delivered at it) — however long the run -/
theorem deliveries_at_instant_bounded (mc : Machine σ) (hS : StrictFuture mc) (endT : Option Nat)
    (n : Nat) (s : St σ) (t : Nat) (ht : t ≤ s.now) :
    delivAt (run mc endT n s) t ≤ delivAt s t + pendingAt s t := by
  have := instant_budget mc hS endT n s t ht
  omega

/-- every delivered event was created strictly before its own instant, or before the run -/
theorem instant_does_not_feed_itself (mc : Machine σ) (hS : StrictFuture mc) (ent : σ) (start : Nat)
    (pre : List Spec) (endT : Option Nat) (n : Nat) :
    ∀ e ∈ (runFrom mc ent start pre endT n).log, e.born < e.time ∨ e.id < pre.length :=
  (run_fore mc hS pre.length endT n _ (init_fore ent start pre)).log

/-- The general statement: a handler may emit at `now` provided a rank decreases; then the deliveries at
    one instant are bounded by a function of the ranks pending when the clock got there.  Library
    components that forward at `now` fall under this, not under `StrictFuture`.
    Proved below (`finite_per_instant_ranked_holds`). -/
def finite_per_instant_ranked : Prop :=
  ∀ (σ : Type) (mc : Machine σ) (rank : Ev → Nat) (fan : Nat),
    (∀ ent now ev, ((mc.handle ent now ev).specs.length ≤ fan) ∧
      ∀ sp ∈ (mc.handle ent now ev).specs, now < sp.time ∨ (now = sp.time ∧ sp.data < ev.data)) →
    (∀ e : Ev, rank e = e.data) →
    ∀ (endT : Option Nat) (s : St σ) (t : Nat), t ≤ s.now →
      ∃ B, ∀ n, delivAt (run mc endT n s) t ≤ B

/-- **T3** the explicit bound: deliveries at `t` never exceed those already made plus, for every event
    pending for `t` when the clock reached `t`, the size `W fan rank` of the complete `fan`-ary tree of
    depth `rank` — for every handler that emits at `now` only with a strictly smaller rank, every
    run length, every end time -/
theorem deliveries_at_instant_ranked_bound (mc : Machine σ) (fan : Nat) (hR : Ranked mc fan)
    (endT : Option Nat) (n : Nat) (s : St σ) (t : Nat) (ht : t ≤ s.now) :
    delivAt (run mc endT n s) t ≤ delivAt s t + wsum fan s.heap t := by
  have := run_potential mc fan hR endT n s t ht
  unfold potential at this
  omega

theorem finite_per_instant_ranked_holds : finite_per_instant_ranked := by
  intro σ mc rank fan hR _ endT s t ht
  exact ⟨delivAt s t + wsum fan s.heap t, fun n => deliveries_at_instant_ranked_bound mc fan hR endT n s t ht⟩

/-- a zero-delay relay chain: every hop forwards at the same instant with one hop less to go -/
def relayMachine : Machine Unit :=
  { handle := fun _ now e => { ent := (), specs := if e.data = 0 then [] else [⟨now, 0, 0, false, e.data - 1, 0⟩] } }

theorem relayMachine_ranked : Ranked relayMachine 1 := by
  intro ent now ev
  unfold relayMachine
  by_cases h : ev.data = 0
  · simp [h]
  · simp [h]; omega

/-- non-vacuity: the relay chain is `Ranked` but not `StrictFuture`; an event with 5 hops to go makes
    exactly `W 1 5 = 6` deliveries at its instant — the bound is attained -/
example :
    ¬ StrictFuture relayMachine ∧
    delivAt (runFrom relayMachine () 0 [⟨3, 0, 0, false, 5, 0⟩] (some 10) 20) 3 = 6 ∧
    delivAt (init () 0 [⟨3, 0, 0, false, 5, 0⟩] : St Unit) 3 + wsum 1 (init () 0 [⟨3, 0, 0, false, 5, 0⟩] : St Unit).heap 3 = 6 := by
  refine ⟨?_, by decide, by decide⟩
  intro h
  have := h () 7 ⟨0, 7, 0, 0, false, 1, 0, 0⟩ ⟨7, 0, 0, false, 0, 0⟩ (by simp [relayMachine])
  simp at this

/-! ### the zero-delay poll: `EmitsGeNow` alone does not bound an instant -/

/-- `while not flag: yield 0.0` with a flag nobody sets: each delivery re-schedules itself at `now` -/
def spinMachine : Machine Unit :=
  { handle := fun _ now _ => { ent := (), specs := [⟨now, 0, 0, false, 0, 0⟩] } }

theorem spinMachine_emitsGeNow : EmitsGeNow spinMachine := by
  intro ent now ev sp hsp
  simp [spinMachine] at hsp
  subst hsp; simp

def spinState (k : Nat) : St Unit :=
  { heap := [⟨k, 0, 0, 0, false, 0, 0, 0⟩], now := 0, nextId := k + 1, ent := (),
    log := (List.range k).map (fun i => ⟨i, 0, 0, 0, false, 0, 0, 0⟩),
    popped := (List.range k).map (fun i => (⟨i, 0, 0, 0, false, 0, 0, 0⟩, Verdict.delivered)),
    primary := 1, processed := k }

theorem spin_step (k : Nat) : step spinMachine (some 10) (spinState k) = some (spinState (k + 1)) := by
  simp [step, spinState, continues, minOf, stepWith, spinMachine, mkEvents, countPrimary,
        List.range_succ]

theorem spin_run (n k : Nat) : run spinMachine (some 10) n (spinState k) = spinState (k + n) := by
  induction n generalizing k with
  | zero => simp [run]
  | succ n ih =>
    unfold run
    rw [spin_step]
    simp only []
    rw [ih]
    congr 1; omega

/-- a one-event workload, stamped correctly, produces `n` deliveries at clock 0 for every `n`:
    the clock never advances although the run has an end time -/
theorem spin_witness_unbounded (n : Nat) :
    delivAt (run spinMachine (some 10) n (spinState 0)) 0 = n ∧
    (run spinMachine (some 10) n (spinState 0)).now = 0 ∧
    (run spinMachine (some 10) n (spinState 0)).nStale = 0 := by
  rw [spin_run]
  have hall : ∀ l : List Nat,
      List.filter (fun e : Ev => e.time == 0) (l.map fun i => (⟨i, 0, 0, 0, false, 0, 0, 0⟩ : Ev)) =
        l.map fun i => (⟨i, 0, 0, 0, false, 0, 0, 0⟩ : Ev) := by
    intro l
    rw [List.filter_eq_self]
    intro e he
    simp only [List.mem_map] at he
    obtain ⟨i, _, rfl⟩ := he
    simp
  simp [delivAt, spinState, hall]

/-- the rank hypothesis cannot be dropped: the zero-delay poll emits at `now` with the same rank, and no
    bound on its deliveries at instant 0 holds for all run lengths -/
theorem rank_hypothesis_needed :
    (∀ fan, ¬ Ranked spinMachine fan) ∧
    ¬ ∃ B, ∀ n, delivAt (run spinMachine (some 10) n (spinState 0)) 0 ≤ B := by
  constructor
  · intro fan h
    have := (h () 0 ⟨0, 0, 0, 0, false, 0, 0, 0⟩).2 ⟨0, 0, 0, false, 0, 0⟩ (by simp [spinMachine])
    simp at this
  · rintro ⟨B, hB⟩
    have h1 := hB (B + 1)
    rw [(spin_witness_unbounded (B + 1)).1] at h1
    omega

/-! ### the judge is the predicate -/

theorem judge_none_iff_holds (family : String) (bound : Nat) (tr : List Line) :
    judge family bound tr = none ↔ Holds bound tr := by
  unfold judge Holds
  cases hf : (pushes tr).find? (fun p => decide (p.time < p.clock)) with
  | some p =>
    simp only []
    have h1 := List.find?_some hf
    have hp := List.mem_of_find?_eq_some hf
    simp at h1
    constructor
    · intro h; simp at h
    · intro h
      have h2 := h.1 p hp
      omega
  | none =>
    simp only []
    rw [List.find?_eq_none] at hf
    have hpush : ∀ p ∈ pushes tr, p.clock ≤ p.time := by
      intro p hp; have := hf p hp; simp at this; omega
    cases hm : clocksMonotone (delivs tr) with
    | false => simp [hm]
    | true =>
      simp only [hm]
      cases hs : (perClock tr).find? (fun cn => decide (bound < cn.2)) with
      | some cn =>
        have hc := List.find?_some hs
        have hmem := List.mem_of_find?_eq_some hs
        simp only []
        constructor
        · intro h; simp at h
        · intro h
          have := h.2.2.1 cn hmem
          simp at hc; omega
      | none =>
        rw [List.find?_eq_none] at hs
        have hcnt : ∀ cn ∈ perClock tr, cn.2 ≤ bound := by
          intro cn hcn; have := hs cn hcn; simp at this; omega
        by_cases hd : discards tr = 0
        · constructor
          · intro _; exact ⟨hpush, hd, hcnt, trivial⟩
          · intro _; simp [hd]
        · simp [hd]

/-! ### non-vacuity -/

/-- a handler that satisfies `StrictFuture` (hence `EmitsGeNow`) and a run of it that delivers ties -/
example :
    let mc : Machine Unit :=
      { handle := fun _ now e => { ent := (), specs := if e.kind = 0 then [⟨now + 5, 0, 1, false, 0, 0⟩, ⟨now + 5, 0, 1, false, 0, 0⟩] else [] } }
    StrictFuture mc ∧ PreGeStart 0 [⟨1, 0, 0, false, 0, 0⟩, ⟨6, 0, 1, false, 0, 0⟩] ∧
    delivAt (runFrom mc () 0 [⟨1, 0, 0, false, 0, 0⟩, ⟨6, 0, 1, false, 0, 0⟩] (some 10) 10) 6 = 3 := by
  refine ⟨?_, by unfold PreGeStart; decide, by decide⟩
  intro ent now ev sp hsp
  simp only at hsp
  split at hsp <;> simp at hsp
  rcases hsp with rfl | rfl <;> simp

/-- `Holds` is satisfiable by a non-trivial trace and refuted by a past push / a spin -/
example : Holds 3 [.push ⟨0, 0, "init"⟩, .deliv 0 1, .push ⟨0, 5, "Server"⟩, .deliv 5 2, .deliv 5 1, .discarded 0] := by decide
example : ¬ Holds 3 [.push ⟨7, 5, "MessageQueue"⟩, .deliv 7 1, .discarded 1] := by decide
example : ¬ Holds 3 [.push ⟨0, 0, "Mutex"⟩, .deliv 0 2, .deliv 0 2, .discarded 0] := by decide

end HappyModel.C07
