import HappyModel.C07.Timers
/-!
# C07 — theorems for the timer idioms of `HappyModel/C07/Timers.lean` (every interval, clock, fuel)
-/
namespace HappyModel.C07.Timers
set_option linter.unusedVariables false
set_option linter.unusedSimpArgs false

-- ------------------------------------------------------------------ 1. periodic daemon
/-- **tick_progress**: a re-arm is strictly later than `now` iff the interval converts to ≥ 1 ns -/
theorem tick_progress (ivNs now : Nat) : now < now + ivNs ↔ 1 ≤ ivNs := by omega

/-- the `k`-th delivery happens at `now + k * ivNs` -/
theorem tickChain_get (ivNs : Nat) : ∀ (f now k : Nat), k < f → (tickChain ivNs f now)[k]? = some (now + k * ivNs)
  | 0, _, _, h => by omega
  | f + 1, now, 0, _ => by simp [tickChain]
  | f + 1, now, k + 1, h => by
    have := tickChain_get ivNs f (now + ivNs) k (by omega)
    simp only [tickChain, List.getElem?_cons_succ, this]
    congr 1
    rw [Nat.succ_mul]; omega

theorem tickChain_length (ivNs : Nat) : ∀ (f now : Nat), (tickChain ivNs f now).length = f
  | 0, _ => rfl
  | f + 1, now => by simp [tickChain, tickChain_length ivNs f]

/-- every delivery of the chain is at or after the clock value it started from -/
theorem tickChain_ge (ivNs : Nat) : ∀ (f now : Nat), ∀ t ∈ tickChain ivNs f now, now ≤ t
  | 0, _ => by simp [tickChain]
  | f + 1, now => by
    intro t ht
    simp [tickChain] at ht
    rcases ht with rfl | ht
    · exact Nat.le_refl _
    · have := tickChain_ge ivNs f (now + ivNs) t ht; omega

/-- with the guard passed (interval ≥ 1 ns) the delivery instants strictly increase: never two at one instant -/
theorem tickChain_strict (ivNs : Nat) (h : 1 ≤ ivNs) : ∀ (f now : Nat), (tickChain ivNs f now).Pairwise (· < ·)
  | 0, _ => by simp [tickChain]
  | f + 1, now => by
    simp only [tickChain, List.pairwise_cons]
    refine ⟨?_, tickChain_strict ivNs h f (now + ivNs)⟩
    intro t ht
    have := tickChain_ge ivNs f (now + ivNs) t ht; omega

theorem pairwise_lt_count_le_one : ∀ (l : List Nat), l.Pairwise (· < ·) → ∀ t, l.count t ≤ 1
  | [], _, t => by simp
  | x :: xs, h, t => by
    have hc := List.pairwise_cons.mp h
    have ih := pairwise_lt_count_le_one xs hc.2 t
    by_cases hx : x = t
    · subst hx
      have : xs.count x = 0 := by
        rw [List.count_eq_zero]
        intro hm; have := hc.1 x hm; omega
      simp [List.count_cons, this]
    · have hne : (x == t) = false := by simp [hx]
      simp [List.count_cons, hne]; exact ih

/-- a guarded periodic daemon is delivered at most once per instant, however long it runs -/
theorem guarded_tick_at_most_once_per_instant (ivNs iv : Nat) (hg : mkPeriodic ivNs = some iv)
    (f now t : Nat) : (tickChain iv f now).count t ≤ 1 := by
  have h1 : 1 ≤ iv := by
    unfold mkPeriodic at hg
    split at hg <;> simp at hg
    omega
  exact pairwise_lt_count_le_one _ (tickChain_strict iv h1 f now) t

/-- the unguarded sub-nanosecond interval: every delivery re-arms at the same instant, forever -/
theorem tick_zero_spins : ∀ (f now : Nat), tickChain 0 f now = List.replicate f now
  | 0, _ => rfl
  | f + 1, now => by simp [tickChain, tick_zero_spins f now, List.replicate_succ]

theorem tick_zero_unbounded (now bound : Nat) : ∃ f, bound < (tickChain 0 f now).count now := by
  refine ⟨bound + 1, ?_⟩
  rw [tick_zero_spins]; simp

/-- the guard rejects exactly the intervals that would spin -/
theorem mkPeriodic_none_iff (ivNs : Nat) : mkPeriodic ivNs = none ↔ ivNs = 0 := by
  unfold mkPeriodic; split <;> simp_all

example : tickChain 250 4 1000 = [1000, 1250, 1500, 1750] := by decide
example : ticksUntil 250 1000 1600 = [1000, 1250, 1500] ∧ ticksUntil 0 1000 1600 = [] := by decide
example : tickChain 0 4 1000 = [1000, 1000, 1000, 1000] := by decide

-- ------------------------------------------------------------------ 2. interval 0 = disabled
/-- **a manual tick with interval 0 schedules nothing**: exactly one delivery -/
theorem disabled_manual_tick_schedules_nothing (f now : Nat) :
    rearmNew 0 now = [] ∧ roundChain rearmNew 0 (f + 1) now = [now] := by
  simp [rearmNew, roundChain]

/-- with a positive interval the manual tick starts the periodic chain (strictly later re-arms) -/
theorem enabled_tick_rearms_later (ivNs now : Nat) (h : 1 ≤ ivNs) :
    ∃ t, rearmNew ivNs now = [t] ∧ now < t := by
  refine ⟨now + ivNs, ?_, by omega⟩
  unfold rearmNew
  have : ivNs ≠ 0 := by omega
  simp [this]

/-- the pre-fix handlers: the manual tick re-arms at `now + 0` forever -/
theorem old_disabled_tick_spins : ∀ (f now : Nat), roundChain rearmOld 0 f now = List.replicate f now
  | 0, _ => rfl
  | f + 1, now => by
    have := old_disabled_tick_spins f now
    simp [roundChain, rearmOld, this, List.replicate_succ]

theorem old_disabled_tick_unbounded (now bound : Nat) : ∃ f, bound < (roundChain rearmOld 0 f now).count now := by
  refine ⟨bound + 1, ?_⟩
  rw [old_disabled_tick_spins]; simp

example : manualTicks [500, 500, 1200] 2000 = [500, 500, 1200] := by decide
example : roundChain rearmOld 0 3 500 = [500, 500, 500] := by decide

-- ------------------------------------------------------------------ 3. events held across yields
/-- handing each event over when it is built never emits into the past -/
theorem warmupNew_never_past (c idle n : Nat) : ∀ p ∈ warmupNew c idle n, p.1 ≤ p.2 := by
  intro p hp
  simp [warmupNew] at hp
  obtain ⟨k, _, rfl⟩ := hp
  simp

/-- collecting them until the end of the warm-up emits into the past exactly when the idle timeout is
    shorter than the rest of the warm-up (connection latency × remaining connections) -/
theorem warmupOld_past_iff (c idle n : Nat) :
    (∃ p ∈ warmupOld c idle n, p.2 < p.1) ↔ 2 ≤ n ∧ idle < c * (n - 1) := by
  constructor
  · rintro ⟨p, hp, hlt⟩
    simp [warmupOld] at hp
    obtain ⟨k, hk, rfl⟩ := hp
    simp at hlt
    have h1 : c * (k + 1) < c * n := by omega
    have hc : 0 < c := by
      rcases Nat.eq_zero_or_pos c with h0 | h0
      · subst h0; simp at h1
      · exact h0
    have hn : 2 ≤ n := by
      have : k + 1 < n := Nat.lt_of_mul_lt_mul_left h1
      omega
    refine ⟨hn, ?_⟩
    have h2 : c * 1 ≤ c * (k + 1) := Nat.mul_le_mul_left c (by omega)
    have h3 : c * (n - 1) + c * 1 = c * n := by rw [← Nat.mul_add]; congr 1; omega
    omega
  · rintro ⟨hn, hlt⟩
    refine ⟨(c * n, c * (0 + 1) + idle), ?_, ?_⟩
    · simp [warmupOld]; exact ⟨0, by omega, by simp⟩
    · have h3 : c * (n - 1) + c * 1 = c * n := by rw [← Nat.mul_add]; congr 1; omega
      simp; omega

/-- the ConnectionPool witness of this session: 3 connections, 15 ms each, idle timeout 1 ms -/
example : warmupOld 15 1 3 = [(45, 16), (45, 31), (45, 46)] ∧ warmupNew 15 1 3 = [(15, 16), (30, 31), (45, 46)] := by decide

end HappyModel.C07.Timers
