import HappyProofs.C07.Lemmas
/-! Invariants of C07 on the C01 engine: nothing stale is ever popped; an instant cannot feed itself. -/
namespace HappyModel.C07
open HappyModel.C01
set_option linter.unusedVariables false
set_option linter.unusedSimpArgs false

variable {σ : Type}

structure NoPast (s : St σ) : Prop where
  born_le : ∀ e ∈ s.heap, e.born ≤ e.time
  nstale : s.nStale = 0
  popped_ok : ∀ p ∈ s.popped, p.2 ≠ Verdict.stale

theorem stepWith_noPast (mc : Machine σ) (hE : EmitsGeNow mc) (s : St σ) (m : Ev) (hm : m ∈ s.heap)
    (inv : Inv s) (np : NoPast s) : NoPast (stepWith mc s m) := by
  have hfresh : s.now ≤ m.time := inv.notStale m hm (np.born_le m hm)
  have hsub : ∀ e ∈ s.heap.erase m, e.born ≤ e.time := fun e he => np.born_le e (List.mem_of_mem_erase he)
  unfold stepWith
  simp only []
  split
  · refine ⟨hsub, np.nstale, ?_⟩
    intro p hp
    rcases List.mem_append.mp hp with hp | hp
    · exact np.popped_ok p hp
    · simp at hp; subst hp; simp
  · split
    · omega
    · split
      · refine ⟨hsub, np.nstale, ?_⟩
        intro p hp
        rcases List.mem_append.mp hp with hp | hp
        · exact np.popped_ok p hp
        · simp at hp; subst hp; simp
      · refine ⟨?_, np.nstale, ?_⟩
        · intro e he
          rcases List.mem_append.mp he with he | he
          · exact hsub e he
          · obtain ⟨sp, hsp, ht, hb⟩ := mkEvents_time _ _ _ e he
            have := hE s.ent m.time m sp hsp
            omega
        · intro p hp
          rcases List.mem_append.mp hp with hp | hp
          · exact np.popped_ok p hp
          · simp at hp; subst hp; simp

theorem init_noPast (ent : σ) (start : Nat) (pre : List Spec) (hP : PreGeStart start pre) :
    NoPast (init ent start pre) := by
  refine ⟨?_, rfl, by simp [init]⟩
  intro e he
  obtain ⟨sp, hsp, ht, hb⟩ := mkEvents_time 0 start pre e he
  have := hP sp hsp
  omega

theorem run_noPast (mc : Machine σ) (hE : EmitsGeNow mc) (endT : Option Nat) (n : Nat) (s : St σ)
    (inv : Inv s) (np : NoPast s) : NoPast (run mc endT n s) := by
  induction n generalizing s with
  | zero => simpa [run]
  | succ n ih =>
    unfold run
    cases hs : step mc endT s with
    | none => simpa
    | some s' =>
      simp only []
      obtain ⟨m, hm, rfl⟩ := step_some hs
      exact ih _ (step_inv hs inv) (stepWith_noPast mc hE s m hm inv np)

/-! ### progress: the per-instant budget -/

def delivAt (s : St σ) (t : Nat) : Nat := (s.log.filter (fun e => e.time == t)).length
def pendingAt (s : St σ) (t : Nat) : Nat := (s.heap.filter (fun e => e.time == t)).length

theorem stepWith_now_le (mc : Machine σ) (s : St σ) (m : Ev) : s.now ≤ (stepWith mc s m).now :=
  (pop_verdict mc s m).1

theorem mkEvents_none_at (mc : Machine σ) (hS : StrictFuture mc) (ent : σ) (nextId : Nat) (m : Ev) (t : Nat)
    (ht : t ≤ m.time) :
    ((mkEvents nextId m.time (mc.handle ent m.time m).specs).filter (fun e => e.time == t)) = [] := by
  rw [List.filter_eq_nil_iff]
  intro e he
  obtain ⟨sp, hsp, het, _⟩ := mkEvents_time _ _ _ e he
  have := hS ent m.time m sp hsp
  simp; omega

theorem stepWith_budget (mc : Machine σ) (hS : StrictFuture mc) (s : St σ) (m : Ev) (hm : m ∈ s.heap)
    (t : Nat) (ht : t ≤ s.now) :
    delivAt (stepWith mc s m) t + pendingAt (stepWith mc s m) t ≤ delivAt s t + pendingAt s t := by
  have hle := filter_erase_le s.heap m (fun e => e.time == t)
  unfold stepWith delivAt pendingAt
  simp only []
  split
  · simp only []; omega
  · split
    · simp only []; omega
    · rename_i hnc hns
      split
      · simp only []; omega
      · simp only [List.filter_append, List.length_append]
        rw [mkEvents_none_at mc hS s.ent s.nextId m t (by omega)]
        by_cases hmt : (m.time == t) = true
        · have := filter_erase_succ s.heap m (fun e => e.time == t) hm hmt
          simp [List.filter_cons, hmt]; omega
        · simp [List.filter_cons, hmt]; omega

theorem run_budget (mc : Machine σ) (hS : StrictFuture mc) (endT : Option Nat) (n : Nat) (s : St σ)
    (t : Nat) (ht : t ≤ s.now) :
    delivAt (run mc endT n s) t + pendingAt (run mc endT n s) t ≤ delivAt s t + pendingAt s t := by
  induction n generalizing s with
  | zero => simp [run]
  | succ n ih =>
    unfold run
    cases hs : step mc endT s with
    | none => simp
    | some s' =>
      simp only []
      obtain ⟨m, hm, rfl⟩ := step_some hs
      have h1 := stepWith_budget mc hS s m hm t ht
      have h2 := ih (stepWith mc s m) (Nat.le_trans ht (stepWith_now_le mc s m))
      omega

/-! ### an instant cannot feed itself -/

/-- created strictly before its own timestamp, or scheduled before the run -/
def Foreseen (npre : Nat) (e : Ev) : Prop := e.born < e.time ∨ e.id < npre

structure Fore (npre : Nat) (s : St σ) : Prop where
  heap : ∀ e ∈ s.heap, Foreseen npre e
  log : ∀ e ∈ s.log, Foreseen npre e

theorem stepWith_fore (mc : Machine σ) (hS : StrictFuture mc) (npre : Nat) (s : St σ) (m : Ev)
    (hm : m ∈ s.heap) (f : Fore npre s) : Fore npre (stepWith mc s m) := by
  have hsub : ∀ e ∈ s.heap.erase m, Foreseen npre e := fun e he => f.heap e (List.mem_of_mem_erase he)
  unfold stepWith
  simp only []
  split
  · exact ⟨hsub, f.log⟩
  · split
    · exact ⟨hsub, f.log⟩
    · split
      · exact ⟨hsub, f.log⟩
      · refine ⟨?_, ?_⟩
        · intro e he
          rcases List.mem_append.mp he with he | he
          · exact hsub e he
          · obtain ⟨sp, hsp, het, hb⟩ := mkEvents_time _ _ _ e he
            have := hS s.ent m.time m sp hsp
            left; omega
        · intro e he
          rcases List.mem_append.mp he with he | he
          · exact f.log e he
          · simp at he; subst he; exact f.heap _ hm

theorem run_fore (mc : Machine σ) (hS : StrictFuture mc) (npre : Nat) (endT : Option Nat) (n : Nat)
    (s : St σ) (f : Fore npre s) : Fore npre (run mc endT n s) := by
  induction n generalizing s with
  | zero => simpa [run]
  | succ n ih =>
    unfold run
    cases hs : step mc endT s with
    | none => simpa
    | some s' =>
      simp only []
      obtain ⟨m, hm, rfl⟩ := step_some hs
      exact ih _ (stepWith_fore mc hS npre s m hm f)

theorem init_fore (ent : σ) (start : Nat) (pre : List Spec) : Fore pre.length (init ent start pre) := by
  refine ⟨?_, by simp [init]⟩
  intro e he
  have := (mkEvents_id 0 start pre e he).2.1
  right; omega

end HappyModel.C07
