import HappyModel.C07.Rearm
/-!
# C07 — the self-perpetuating schedule timer: the old one spins at a lossy boundary, the new one cannot

All statements are for **every** boundary list (sorted by instant), every clock value and every fuel.
-/
namespace HappyModel.C07.Rearm
set_option linter.unusedVariables false
set_option linter.unusedSimpArgs false

/-- boundaries in schedule order have non-decreasing instants (`int(b * 1e9)` is monotone in `b`) -/
def Sorted (bs : List Boundary) : Prop := bs.Pairwise (fun a b => a.ns ≤ b.ns)

/-- some boundary stamped `t` reads back strictly before itself -/
def LossyAt (bs : List Boundary) (t : Nat) : Prop := ∃ b ∈ bs, b.ns = t ∧ b.lossy = true

/-- in a sorted list the first element satisfying `P` is not later than any element satisfying `P` -/
theorem find_le (bs : List Boundary) (hs : Sorted bs) (P : Boundary → Bool) (b : Boundary)
    (hb : b ∈ bs) (hP : P b = true) :
    ∃ x, bs.find? P = some x ∧ x ∈ bs ∧ P x = true ∧ x.ns ≤ b.ns := by
  induction bs with
  | nil => cases hb
  | cons a t ih =>
    have hs' := List.pairwise_cons.mp hs
    by_cases ha : P a = true
    · refine ⟨a, by simp [List.find?_cons, ha], by simp, ha, ?_⟩
      rcases List.mem_cons.mp hb with h | hbt
      · subst h; exact Nat.le_refl _
      · exact hs'.1 b hbt
    · have ha' : P a = false := by simpa using ha
      have hbt : b ∈ t := by
        rcases List.mem_cons.mp hb with h | hbt
        · subst h; rw [hP] at ha'; cases ha'
        · exact hbt
      obtain ⟨x, hx, hxm, hxP, hxl⟩ := ih hs'.2 hbt
      exact ⟨x, by simp [List.find?_cons, ha', hx], List.mem_cons_of_mem _ hxm, hxP, hxl⟩

/-- **the defect**: at a lossy boundary the old timer finds a boundary stamped with the *current*
    instant as "the next transition after now" -/
theorem old_rearms_same_instant (bs : List Boundary) (hs : Sorted bs) (t : Nat) (h : LossyAt bs t) :
    ∃ x, nextOld bs t = some x ∧ x.ns = t := by
  obtain ⟨b, hb, hbt, hbl⟩ := h
  have hP : afterReading t b = true := by simp [afterReading, hbt, hbl]
  obtain ⟨x, hx, _, hxP, hxl⟩ := find_le bs hs (afterReading t) b hb hP
  refine ⟨x, hx, ?_⟩
  simp [afterReading] at hxP
  rcases hxP with h1 | h2
  · omega
  · exact h2.1

/-- so every further delivery of the self-perpetuating event happens at the same instant -/
theorem old_spins (bs : List Boundary) (hs : Sorted bs) (t : Nat) (h : LossyAt bs t) :
    ∀ n, chainOld bs n t = List.replicate n t := by
  intro n
  induction n with
  | zero => rfl
  | succ n ih =>
    obtain ⟨x, hx, hxt⟩ := old_rearms_same_instant bs hs t h
    simp [chainOld, hx, hxt, ih, List.replicate_succ]

/-- … unboundedly many: no bound on the deliveries at instant `t` holds for all run lengths -/
theorem old_unbounded (bs : List Boundary) (hs : Sorted bs) (t : Nat) (h : LossyAt bs t) (bound : Nat) :
    ∃ n, bound < (chainOld bs n t).count t := by
  refine ⟨bound + 1, ?_⟩
  rw [old_spins bs hs t h]
  simp

example : LossyAt [⟨1000000000, false⟩, ⟨2049999999, true⟩, ⟨2450000000, false⟩] 2049999999 ∧
    Sorted [⟨1000000000, false⟩, ⟨2049999999, true⟩, ⟨2450000000, false⟩] := by
  refine ⟨⟨⟨2049999999, true⟩, by simp, rfl, rfl⟩, by simp [Sorted]⟩

example : chainOld [⟨1000000000, false⟩, ⟨2049999999, true⟩, ⟨2450000000, false⟩] 5 1000000000 =
    [1000000000, 2049999999, 2049999999, 2049999999, 2049999999] := by decide

-- ------------------------------------------------------------------------- the timer that exists
/-- the event is delivered at most once per boundary: the whole chain is bounded by the schedule -/
theorem chain_length_le (bs : List Boundary) : ∀ (fuel i now : Nat),
    (chain bs fuel i now).length ≤ bs.length - i := by
  intro fuel
  induction fuel with
  | zero => intro i now; simp [chain]
  | succ f ih =>
    intro i now
    unfold chain
    cases hb : bs[i]? with
    | none => simp
    | some b =>
      have hi : i < bs.length := by
        rcases List.getElem?_eq_some_iff.mp hb with ⟨h, _⟩; exact h
      have := ih (i + 1) (max b.ns now)
      simp only [List.length_cons]
      omega

/-- every delivery happens at or after the clock value at which it was scheduled (nothing is emitted
    into the past), and the delivery instants never decrease -/
theorem chain_not_past (bs : List Boundary) : ∀ (fuel i now : Nat),
    (∀ p ∈ chain bs fuel i now, now ≤ p.1) ∧ (chain bs fuel i now).Pairwise (fun a b => a.1 ≤ b.1) := by
  intro fuel
  induction fuel with
  | zero => intro i now; simp [chain]
  | succ f ih =>
    intro i now
    unfold chain
    cases hb : bs[i]? with
    | none => simp
    | some b =>
      obtain ⟨h1, h2⟩ := ih (i + 1) (max b.ns now)
      refine ⟨?_, ?_⟩
      · intro p hp
        rcases List.mem_cons.mp hp with h | h
        · subst h; exact Nat.le_max_right _ _
        · exact Nat.le_trans (Nat.le_max_right _ _) (h1 p h)
      · exact List.pairwise_cons.mpr ⟨fun p hp => h1 p hp, h2⟩

/-- the deliveries walk through the schedule in order: indices `i, i+1, i+2, …` — each boundary once -/
theorem chain_indices (bs : List Boundary) : ∀ (fuel i now : Nat),
    (chain bs fuel i now).map (·.2) = List.range' i (chain bs fuel i now).length := by
  intro fuel
  induction fuel with
  | zero => intro i now; simp [chain]
  | succ f ih =>
    intro i now
    unfold chain
    cases hb : bs[i]? with
    | none => simp
    | some b =>
      simp only [List.map_cons, List.length_cons, List.range'_succ]
      rw [ih (i + 1) (max b.ns now)]

/-- when the schedule is sorted and the timer is armed for a boundary that is not yet past, every
    delivery happens exactly at its boundary's instant -/
theorem chain_exact (bs : List Boundary) (hs : Sorted bs) : ∀ (fuel i now : Nat),
    (∀ b, bs[i]? = some b → now ≤ b.ns) →
    ∀ p ∈ chain bs fuel i now, ∃ b, bs[p.2]? = some b ∧ p.1 = b.ns := by
  intro fuel
  induction fuel with
  | zero => intro i now _ p hp; simp [chain] at hp
  | succ f ih =>
    intro i now hnow p hp
    unfold chain at hp
    cases hb : bs[i]? with
    | none => simp [hb] at hp
    | some b =>
      simp only [hb] at hp
      have hle : now ≤ b.ns := hnow b hb
      have hmax : max b.ns now = b.ns := Nat.max_eq_left hle
      rcases List.mem_cons.mp hp with h | h
      · subst h; exact ⟨b, hb, hmax⟩
      · refine ih (i + 1) (max b.ns now) ?_ p h
        intro b' hb'
        rw [hmax]
        have hi : i < bs.length := (List.getElem?_eq_some_iff.mp hb).1
        have hi' : i + 1 < bs.length := (List.getElem?_eq_some_iff.mp hb').1
        have e1 : bs[i] = b := (List.getElem?_eq_some_iff.mp hb).2
        have e2 : bs[i + 1] = b' := (List.getElem?_eq_some_iff.mp hb').2
        have := (List.pairwise_iff_getElem.mp hs) i (i + 1) hi hi' (Nat.lt_succ_self i)
        rw [e1, e2] at this
        exact this

example : chain [⟨1000000000, false⟩, ⟨2049999999, true⟩, ⟨2450000000, false⟩] 3 0 100000370 =
    [(1000000000, 0), (2049999999, 1), (2450000000, 2)] := by decide

end HappyModel.C07.Rearm
