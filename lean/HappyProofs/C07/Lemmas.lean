import HappyProofs.C01.Props
import HappyModel.C07.Spec
/-! Helper lemmas for C07 on the C01 engine model. -/
namespace HappyModel.C07
open HappyModel.C01
set_option linter.unusedVariables false

variable {σ : Type}

/-- every event a handler returns is stamped no earlier than the instant at which it is emitted -/
def EmitsGeNow (mc : Machine σ) : Prop :=
  ∀ ent now ev, ∀ sp ∈ (mc.handle ent now ev).specs, now ≤ sp.time

/-- pre-run events are scheduled at or after the start time -/
def PreGeStart (start : Nat) (pre : List Spec) : Prop := ∀ sp ∈ pre, start ≤ sp.time

/-- every event a handler returns lies strictly in the future -/
def StrictFuture (mc : Machine σ) : Prop :=
  ∀ ent now ev, ∀ sp ∈ (mc.handle ent now ev).specs, now < sp.time

theorem mkEvents_time (n now : Nat) (specs : List Spec) :
    ∀ e ∈ mkEvents n now specs, ∃ sp ∈ specs, e.time = sp.time ∧ e.born = now := by
  induction specs generalizing n with
  | nil => simp [mkEvents]
  | cons s ss ih =>
    intro e he
    simp [mkEvents] at he
    rcases he with rfl | he
    · exact ⟨s, by simp, rfl, rfl⟩
    · obtain ⟨sp, hsp, h⟩ := ih (n+1) e he
      exact ⟨sp, by simp [hsp], h⟩

theorem filter_erase_le (l : List Ev) (m : Ev) (p : Ev → Bool) :
    ((l.erase m).filter p).length ≤ (l.filter p).length :=
  (List.erase_sublist.filter p).length_le

theorem filter_erase_succ (l : List Ev) (m : Ev) (p : Ev → Bool) (hm : m ∈ l) (hp : p m = true) :
    ((l.erase m).filter p).length + 1 = (l.filter p).length := by
  induction l with
  | nil => simp at hm
  | cons x xs ih =>
    by_cases hx : x = m
    · subst hx
      simp [List.erase_cons_head, List.filter_cons, hp]
    · have hm' : m ∈ xs := by
        rcases List.mem_cons.mp hm with h | h
        · exact absurd h.symm hx
        · exact h
      have hne : ¬ (x == m) = true := by simp [hx]
      rw [List.erase_cons_tail hne]
      have := ih hm'
      simp only [List.filter_cons]
      cases p x <;> simp <;> omega

/-- the loop pops a member of the heap -/
theorem step_some {mc : Machine σ} {endT : Option Nat} {s s' : St σ} (h : step mc endT s = some s') :
    ∃ m, m ∈ s.heap ∧ s' = stepWith mc s m := by
  unfold step at h
  split at h
  · simp at h
  · rename_i x xs hheap
    split at h
    · simp at h
      refine ⟨minOf x xs, ?_, h.symm⟩
      rw [hheap]; exact (pop_is_min x xs).1
    · simp at h

theorem step_inv {mc : Machine σ} {endT : Option Nat} {s s' : St σ} (h : step mc endT s = some s')
    (inv : Inv s) : Inv s' := by
  have := run_inv mc endT 1 s inv
  simpa [run, h] using this

end HappyModel.C07
