import HappyProofs.C07.NoPast
/-!
# C07 — per-instant finiteness for handlers that may emit at `now` with a decreasing rank

`StrictFuture` (every emitted event is strictly later than `now`) is too strong for library components
that forward at the current instant (routers, taggers, zero-latency hops, `yield 0.0` continuations).
What they satisfy is: every event emitted **at** `now` carries a strictly smaller rank than the event
being handled (`Ranked`; the rank is the event's `data` field: remaining hops / remaining budget), and a
handler emits at most `fan` events.

Then an event of rank `r` pending at instant `t` can cause at most `W fan r` deliveries at `t`
(`W fan 0 = 1`, `W fan (r+1) = 1 + fan * W fan r`: the nodes of the complete `fan`-ary tree of depth `r`),
and `delivAt s t + Σ_{e pending at t} W fan (rank e)` never grows once the clock has reached `t`
(`run_potential`).  Hence the number of deliveries at one instant is bounded by a function of the ranks
present when the instant starts (`deliveries_at_instant_ranked_bound`), for every run length.
-/
namespace HappyModel.C07
open HappyModel.C01
set_option linter.unusedVariables false
set_option linter.unusedSimpArgs false

variable {σ : Type}

/-- every handler call emits at most `fan` events, each strictly later than `now` or at `now` with a
    strictly smaller rank (`data`) than the event being handled -/
def Ranked (mc : Machine σ) (fan : Nat) : Prop :=
  ∀ ent now ev, (mc.handle ent now ev).specs.length ≤ fan ∧
    ∀ sp ∈ (mc.handle ent now ev).specs, now < sp.time ∨ (now = sp.time ∧ sp.data < ev.data)

/-- deliveries at one instant an event of rank `r` can cause (itself included) -/
def W (fan : Nat) : Nat → Nat
  | 0 => 1
  | r + 1 => 1 + fan * W fan r

theorem W_succ_ge (fan : Nat) : ∀ b, W fan b ≤ W fan (b + 1)
  | 0 => by simp [W]
  | c + 1 => by
    have ih := W_succ_ge fan c
    show 1 + fan * W fan c ≤ 1 + fan * W fan (c + 1)
    have := Nat.mul_le_mul_left fan ih
    omega

theorem W_mono (fan : Nat) {a b : Nat} (h : a ≤ b) : W fan a ≤ W fan b := by
  induction b with
  | zero => have : a = 0 := by omega
            subst this; exact Nat.le_refl _
  | succ b ih =>
    by_cases hab : a = b + 1
    · subst hab; exact Nat.le_refl _
    · exact Nat.le_trans (ih (by omega)) (W_succ_ge fan b)

/-- weighted number of events pending for instant `t` -/
def wsum (fan : Nat) (l : List Ev) (t : Nat) : Nat :=
  ((l.filter (fun e => e.time == t)).map (fun e => W fan e.data)).sum

def potential (fan : Nat) (s : St σ) (t : Nat) : Nat := delivAt s t + wsum fan s.heap t

theorem wsum_append (fan : Nat) (a b : List Ev) (t : Nat) : wsum fan (a ++ b) t = wsum fan a t + wsum fan b t := by
  simp [wsum, List.filter_append, List.map_append, List.sum_append]

theorem wsum_cons (fan : Nat) (x : Ev) (l : List Ev) (t : Nat) :
    wsum fan (x :: l) t = (if x.time = t then W fan x.data else 0) + wsum fan l t := by
  by_cases h : x.time = t <;> simp [wsum, List.filter_cons, h]

theorem wsum_erase_le (fan : Nat) (l : List Ev) (m : Ev) (t : Nat) : wsum fan (l.erase m) t ≤ wsum fan l t := by
  induction l with
  | nil => simp
  | cons x xs ih =>
    by_cases hx : x = m
    · subst hx; simp [List.erase_cons_head, wsum_cons]
    · have hne : ¬ (x == m) = true := by simp [hx]
      rw [List.erase_cons_tail hne, wsum_cons, wsum_cons]; omega

theorem wsum_erase_mem (fan : Nat) (l : List Ev) (m : Ev) (t : Nat) (hm : m ∈ l) (ht : m.time = t) :
    wsum fan (l.erase m) t + W fan m.data = wsum fan l t := by
  induction l with
  | nil => simp at hm
  | cons x xs ih =>
    by_cases hx : x = m
    · subst hx; simp [List.erase_cons_head, wsum_cons, ht]; omega
    · have hm' : m ∈ xs := by
        rcases List.mem_cons.mp hm with h | h
        · exact absurd h.symm hx
        · exact h
      have hne : ¬ (x == m) = true := by simp [hx]
      rw [List.erase_cons_tail hne, wsum_cons, wsum_cons]
      have := ih hm'; omega

theorem sum_map_le_length_mul (l : List Ev) (f : Ev → Nat) (K : Nat) (h : ∀ x ∈ l, f x ≤ K) :
    (l.map f).sum ≤ l.length * K := by
  induction l with
  | nil => simp
  | cons x xs ih =>
    have h1 := h x (by simp)
    have h2 := ih (fun y hy => h y (by simp [hy]))
    simp only [List.map_cons, List.sum_cons, List.length_cons]
    rw [Nat.succ_mul]; omega

theorem mkEvents_spec (n now : Nat) (specs : List Spec) :
    ∀ e ∈ mkEvents n now specs, ∃ sp ∈ specs, e.time = sp.time ∧ e.data = sp.data := by
  induction specs generalizing n with
  | nil => simp [mkEvents]
  | cons s ss ih =>
    intro e he
    simp [mkEvents] at he
    rcases he with rfl | he
    · exact ⟨s, by simp, rfl, rfl⟩
    · obtain ⟨sp, hsp, h⟩ := ih (n+1) e he
      exact ⟨sp, by simp [hsp], h⟩

theorem mkEvents_length (n now : Nat) (specs : List Spec) : (mkEvents n now specs).length = specs.length := by
  induction specs generalizing n with
  | nil => simp [mkEvents]
  | cons s ss ih => simp [mkEvents, ih]

/-- what the handling of `m` (at instant `m.time = t`) adds for instant `t` weighs less than `m` itself -/
theorem wsum_children (mc : Machine σ) (fan : Nat) (hR : Ranked mc fan) (ent : σ) (nextId : Nat) (m : Ev) :
    wsum fan (mkEvents nextId m.time (mc.handle ent m.time m).specs) m.time + 1 ≤ W fan m.data := by
  obtain ⟨hlen, hsp⟩ := hR ent m.time m
  have hdata : ∀ e ∈ (mkEvents nextId m.time (mc.handle ent m.time m).specs).filter (fun e => e.time == m.time),
      e.data < m.data := by
    intro e he
    obtain ⟨hmem, htime⟩ := List.mem_filter.mp he
    obtain ⟨sp, hspm, het, hed⟩ := mkEvents_spec _ _ _ e hmem
    have := hsp sp hspm
    simp at htime
    rcases this with h | h
    · omega
    · omega
  have hcount : ((mkEvents nextId m.time (mc.handle ent m.time m).specs).filter (fun e => e.time == m.time)).length ≤ fan := by
    have := List.length_filter_le (fun e : Ev => e.time == m.time) (mkEvents nextId m.time (mc.handle ent m.time m).specs)
    rw [mkEvents_length] at this; omega
  unfold wsum
  cases hd : m.data with
  | zero =>
    have hnil : (mkEvents nextId m.time (mc.handle ent m.time m).specs).filter (fun e => e.time == m.time) = [] := by
      rw [List.eq_nil_iff_forall_not_mem]
      intro e he
      have := hdata e he; omega
    simp [hnil, W]
  | succ d =>
    have hb := sum_map_le_length_mul _ (fun e => W fan e.data) (W fan d) (by
      intro e he
      have := hdata e he
      exact W_mono fan (by omega))
    have hmul : ((mkEvents nextId m.time (mc.handle ent m.time m).specs).filter (fun e => e.time == m.time)).length * W fan d
        ≤ fan * W fan d := Nat.mul_le_mul_right _ hcount
    show _ + 1 ≤ 1 + fan * W fan d
    omega

/-- handling an event of a later instant adds nothing for instant `t` -/
theorem wsum_children_later (mc : Machine σ) (fan : Nat) (hR : Ranked mc fan) (ent : σ) (nextId : Nat) (m : Ev)
    (t : Nat) (ht : t < m.time) :
    wsum fan (mkEvents nextId m.time (mc.handle ent m.time m).specs) t = 0 := by
  have hnil : (mkEvents nextId m.time (mc.handle ent m.time m).specs).filter (fun e => e.time == t) = [] := by
    rw [List.filter_eq_nil_iff]
    intro e he
    obtain ⟨sp, hspm, het, _⟩ := mkEvents_spec _ _ _ e he
    have := (hR ent m.time m).2 sp hspm
    simp; omega
  simp [wsum, hnil]

theorem stepWith_potential (mc : Machine σ) (fan : Nat) (hR : Ranked mc fan) (s : St σ) (m : Ev)
    (hm : m ∈ s.heap) (t : Nat) (ht : t ≤ s.now) :
    potential fan (stepWith mc s m) t ≤ potential fan s t := by
  have hle := wsum_erase_le fan s.heap m t
  unfold stepWith potential delivAt
  simp only []
  split
  · simp only []; omega
  · split
    · simp only []; omega
    · rename_i hnc hns
      split
      · simp only []; omega
      · rw [wsum_append]
        by_cases hmt : m.time = t
        · have h1 := wsum_erase_mem fan s.heap m t hm hmt
          have h2 := wsum_children mc fan hR s.ent s.nextId m
          rw [hmt] at h2
          simp [List.filter_append, List.filter_cons, hmt]; omega
        · have hlt : t < m.time := by omega
          have h2 := wsum_children_later mc fan hR s.ent s.nextId m t hlt
          have hne : ¬ (m.time == t) = true := by simp [hmt]
          simp [List.filter_append, List.filter_cons, hne]; omega

theorem run_potential (mc : Machine σ) (fan : Nat) (hR : Ranked mc fan) (endT : Option Nat) (n : Nat)
    (s : St σ) (t : Nat) (ht : t ≤ s.now) :
    potential fan (run mc endT n s) t ≤ potential fan s t := by
  induction n generalizing s with
  | zero => simp [run]
  | succ n ih =>
    unfold run
    cases hs : step mc endT s with
    | none => simp
    | some s' =>
      simp only []
      obtain ⟨m, hm, rfl⟩ := step_some hs
      have h1 := stepWith_potential mc fan hR s m hm t ht
      have h2 := ih (stepWith mc s m) (Nat.le_trans ht (stepWith_now_le mc s m))
      omega

end HappyModel.C07
