import HappyModel.C06.Engine
import HappyModel.C06.Spec
import HappyProofs.C06.Lists
/-!
The invariant that ties the state the fault closures mutate (`WS`: counters, reference counts,
layer stacks) to the *set of active windows*: every component of `WS` is the projection of the
active list that the specification prescribes.  Preserved by every activation of a window that is
not active and every deactivation of a window that is.
-/
set_option linter.unusedSimpArgs false
namespace HappyModel.C06

def latLayer (fs : List Fault) (f : Nat) : Option Layer :=
  match kindOf fs f with
  | some (.lat a b x) => some ⟨f, a, b, x⟩
  | _ => none

def lossLayer (fs : List Fault) (f : Nat) : Option Layer :=
  match kindOf fs f with
  | some (.loss a b x) => some ⟨f, a, b, x⟩
  | _ => none

def capLayer (fs : List Fault) (f : Nat) : Option Factor :=
  match kindOf fs f with
  | some (.cap n d) => some ⟨f, n, d⟩
  | _ => none

theorem latLayer_fid (fs) (g y) (h : latLayer fs g = some y) : y.fid = g := by
  unfold latLayer at h; split at h <;> simp_all; rw [← h]
theorem lossLayer_fid (fs) (g y) (h : lossLayer fs g = some y) : y.fid = g := by
  unfold lossLayer at h; split at h <;> simp_all; rw [← h]
theorem capLayer_fid (fs) (g y) (h : capLayer fs g = some y) : y.fid = g := by
  unfold capLayer at h; split at h <;> simp_all; rw [← h]

structure WInv (fs : List Fault) (w : WS) (act : List Nat) : Prop where
  depth : ∀ e, w.depth e = sumOver act (downC fs · e)
  bi : ∀ a b, w.bi a b = sumOver act (biC fs · a b)
  dir : ∀ a b, w.dir a b = sumOver act (dirC fs · a b)
  lat : w.lat = act.filterMap (latLayer fs)
  loss : w.loss = act.filterMap (lossLayer fs)
  capf : w.capf = act.filterMap (capLayer fs)
  live : w.live = act.filter (isPartF fs)

theorem winv_init (fs : List Fault) : WInv fs {} [] := by
  constructor <;> intros <;> rfl

/-- activating a window adds exactly its contribution -/
theorem winv_activate (fs : List Fault) (w : WS) (act : List Nat) (f : Nat) (k : Kind)
    (hk : kindOf fs f = some k) (h : WInv fs w act) : WInv fs (w.activate f k) (f :: act) := by
  cases k with
  | crash e =>
    constructor
    · intro e'
      have hd : downC fs f e' = if e = e' then 1 else 0 := by simp [downC, hk]
      show upd w.depth e (w.depth e + 1) e' = sumOver (f :: act) (downC fs · e')
      simp only [sumOver, List.map_cons, List.sum_cons, hd]
      by_cases he : e' = e
      · subst he; simp [h.depth e', sumOver]; omega
      · have : ¬ e = e' := fun h => he h.symm
        rw [upd_other _ _ _ _ he, h.depth e']; simp [sumOver, this]
    · intro a b; simp [WS.activate, sumOver, biC, hk, h.bi a b]
    · intro a b; simp [WS.activate, sumOver, dirC, hk, h.dir a b]
    · simp [WS.activate, latLayer, hk, h.lat]
    · simp [WS.activate, lossLayer, hk, h.loss]
    · simp [WS.activate, capLayer, hk, h.capf]
    · simp [WS.activate, isPartF, hk, h.live, List.filter_cons]
  | pause e =>
    constructor
    · intro e'
      have hd : downC fs f e' = if e = e' then 1 else 0 := by simp [downC, hk]
      show upd w.depth e (w.depth e + 1) e' = sumOver (f :: act) (downC fs · e')
      simp only [sumOver, List.map_cons, List.sum_cons, hd]
      by_cases he : e' = e
      · subst he; simp [h.depth e', sumOver]; omega
      · have : ¬ e = e' := fun h => he h.symm
        rw [upd_other _ _ _ _ he, h.depth e']; simp [sumOver, this]
    · intro a b; simp [WS.activate, sumOver, biC, hk, h.bi a b]
    · intro a b; simp [WS.activate, sumOver, dirC, hk, h.dir a b]
    · simp [WS.activate, latLayer, hk, h.lat]
    · simp [WS.activate, lossLayer, hk, h.loss]
    · simp [WS.activate, capLayer, hk, h.capf]
    · simp [WS.activate, isPartF, hk, h.live, List.filter_cons]
  | part asym A B =>
    cases asym with
    | false =>
      constructor
      · intro e; simp [WS.activate, sumOver, downC, hk, h.depth e]
      · intro a b; simp [WS.activate, sumOver, biC, hk, h.bi a b, biCov]; omega
      · intro a b; simp [WS.activate, sumOver, dirC, hk, h.dir a b]
      · simp [WS.activate, latLayer, hk, h.lat]
      · simp [WS.activate, lossLayer, hk, h.loss]
      · simp [WS.activate, capLayer, hk, h.capf]
      · simp [WS.activate, isPartF, hk, h.live, List.filter_cons]
    | true =>
      constructor
      · intro e; simp [WS.activate, sumOver, downC, hk, h.depth e]
      · intro a b; simp [WS.activate, sumOver, biC, hk, h.bi a b]
      · intro a b; simp [WS.activate, sumOver, dirC, hk, h.dir a b, dirCov]; omega
      · simp [WS.activate, latLayer, hk, h.lat]
      · simp [WS.activate, lossLayer, hk, h.loss]
      · simp [WS.activate, capLayer, hk, h.capf]
      · simp [WS.activate, isPartF, hk, h.live, List.filter_cons]
  | lat a b x =>
    constructor
    · intro e; simp [WS.activate, sumOver, downC, hk, h.depth e]
    · intro a b; simp [WS.activate, sumOver, biC, hk, h.bi a b]
    · intro a b; simp [WS.activate, sumOver, dirC, hk, h.dir a b]
    · simp [WS.activate, latLayer, hk, h.lat]
    · simp [WS.activate, lossLayer, hk, h.loss]
    · simp [WS.activate, capLayer, hk, h.capf]
    · simp [WS.activate, isPartF, hk, h.live, List.filter_cons]
  | loss a b x =>
    constructor
    · intro e; simp [WS.activate, sumOver, downC, hk, h.depth e]
    · intro a b; simp [WS.activate, sumOver, biC, hk, h.bi a b]
    · intro a b; simp [WS.activate, sumOver, dirC, hk, h.dir a b]
    · simp [WS.activate, latLayer, hk, h.lat]
    · simp [WS.activate, lossLayer, hk, h.loss]
    · simp [WS.activate, capLayer, hk, h.capf]
    · simp [WS.activate, isPartF, hk, h.live, List.filter_cons]
  | cap n d =>
    constructor
    · intro e; simp [WS.activate, sumOver, downC, hk, h.depth e]
    · intro a b; simp [WS.activate, sumOver, biC, hk, h.bi a b]
    · intro a b; simp [WS.activate, sumOver, dirC, hk, h.dir a b]
    · simp [WS.activate, latLayer, hk, h.lat]
    · simp [WS.activate, lossLayer, hk, h.loss]
    · simp [WS.activate, capLayer, hk, h.capf]
    · simp [WS.activate, isPartF, hk, h.live, List.filter_cons]

theorem sumOver_erase (g : Nat → Nat) (act : List Nat) (f : Nat) (hf : f ∈ act) :
    sumOver (act.erase f) g = sumOver act g - g f := sum_map_erase g act f hf

/-- deactivating an active window removes exactly its contribution, whatever else is active -/
theorem winv_deactivate (fs : List Fault) (w : WS) (act : List Nat) (f : Nat) (k : Kind)
    (hk : kindOf fs f = some k) (h : WInv fs w act) (nd : act.Nodup) (hf : f ∈ act) :
    WInv fs (w.deactivate f k) (act.erase f) := by
  have hlat := filterMap_erase (β := Layer) (·.fid) (latLayer fs) (latLayer_fid fs) act f nd
  have hloss := filterMap_erase (β := Layer) (·.fid) (lossLayer fs) (lossLayer_fid fs) act f nd
  have hcap := filterMap_erase (β := Factor) (·.fid) (capLayer fs) (capLayer_fid fs) act f nd
  have hnp : isPartK k = false → (act.erase f).filter (isPartF fs) = act.filter (isPartF fs) := by
    intro hp
    apply filter_erase_false
    cases k <;> simp_all [isPartF, isPartK]
  have hlive : isPartK k = true → f ∈ w.live ∧
      (act.erase f).filter (isPartF fs) = w.live.erase f := by
    intro hp
    have hpf : isPartF fs f = true := by cases k <;> simp_all [isPartF, isPartK]
    refine ⟨?_, ?_⟩
    · rw [h.live]; exact List.mem_filter.mpr ⟨hf, hpf⟩
    · rw [h.live]; exact filter_erase_true _ act f hpf
  cases k with
  | crash e =>
    constructor
    · intro e'
      have hd : downC fs f e' = if e = e' then 1 else 0 := by simp [downC, hk]
      show upd w.depth e (w.depth e - 1) e' = sumOver (act.erase f) (downC fs · e')
      rw [sumOver_erase _ act f hf, hd]
      by_cases he : e' = e
      · subst he; simp [h.depth e']
      · have : ¬ e = e' := fun h => he h.symm
        rw [upd_other _ _ _ _ he, h.depth e']; simp [this]
    · intro a b; rw [sumOver_erase _ act f hf]; simp [WS.deactivate, biC, hk, h.bi a b]
    · intro a b; rw [sumOver_erase _ act f hf]; simp [WS.deactivate, dirC, hk, h.dir a b]
    · rw [filterMap_erase_none _ act f (by simp [latLayer, hk])]; exact h.lat
    · rw [filterMap_erase_none _ act f (by simp [lossLayer, hk])]; exact h.loss
    · rw [filterMap_erase_none _ act f (by simp [capLayer, hk])]; exact h.capf
    · rw [hnp rfl]; exact h.live
  | pause e =>
    constructor
    · intro e'
      have hd : downC fs f e' = if e = e' then 1 else 0 := by simp [downC, hk]
      show upd w.depth e (w.depth e - 1) e' = sumOver (act.erase f) (downC fs · e')
      rw [sumOver_erase _ act f hf, hd]
      by_cases he : e' = e
      · subst he; simp [h.depth e']
      · have : ¬ e = e' := fun h => he h.symm
        rw [upd_other _ _ _ _ he, h.depth e']; simp [this]
    · intro a b; rw [sumOver_erase _ act f hf]; simp [WS.deactivate, biC, hk, h.bi a b]
    · intro a b; rw [sumOver_erase _ act f hf]; simp [WS.deactivate, dirC, hk, h.dir a b]
    · rw [filterMap_erase_none _ act f (by simp [latLayer, hk])]; exact h.lat
    · rw [filterMap_erase_none _ act f (by simp [lossLayer, hk])]; exact h.loss
    · rw [filterMap_erase_none _ act f (by simp [capLayer, hk])]; exact h.capf
    · rw [hnp rfl]; exact h.live
  | part asym A B =>
    obtain ⟨hc, hl⟩ := hlive rfl
    cases asym with
    | false =>
      constructor
      · intro e; rw [sumOver_erase _ act f hf]; simp [WS.deactivate, hc, downC, hk, h.depth e]
      · intro a b; rw [sumOver_erase _ act f hf]; simp [WS.deactivate, hc, biC, hk, h.bi a b, biCov]
      · intro a b; rw [sumOver_erase _ act f hf]; simp [WS.deactivate, hc, dirC, hk, h.dir a b]
      · rw [filterMap_erase_none _ act f (by simp [latLayer, hk])]; simp [WS.deactivate, hc, h.lat]
      · rw [filterMap_erase_none _ act f (by simp [lossLayer, hk])]; simp [WS.deactivate, hc, h.loss]
      · rw [filterMap_erase_none _ act f (by simp [capLayer, hk])]; simp [WS.deactivate, hc, h.capf]
      · rw [hl]; simp [WS.deactivate, hc]
    | true =>
      constructor
      · intro e; rw [sumOver_erase _ act f hf]; simp [WS.deactivate, hc, downC, hk, h.depth e]
      · intro a b; rw [sumOver_erase _ act f hf]; simp [WS.deactivate, hc, biC, hk, h.bi a b]
      · intro a b; rw [sumOver_erase _ act f hf]; simp [WS.deactivate, hc, dirC, hk, h.dir a b, dirCov]
      · rw [filterMap_erase_none _ act f (by simp [latLayer, hk])]; simp [WS.deactivate, hc, h.lat]
      · rw [filterMap_erase_none _ act f (by simp [lossLayer, hk])]; simp [WS.deactivate, hc, h.loss]
      · rw [filterMap_erase_none _ act f (by simp [capLayer, hk])]; simp [WS.deactivate, hc, h.capf]
      · rw [hl]; simp [WS.deactivate, hc]
  | lat a b x =>
    constructor
    · intro e; rw [sumOver_erase _ act f hf]; simp [WS.deactivate, downC, hk, h.depth e]
    · intro a b; rw [sumOver_erase _ act f hf]; simp [WS.deactivate, biC, hk, h.bi a b]
    · intro a b; rw [sumOver_erase _ act f hf]; simp [WS.deactivate, dirC, hk, h.dir a b]
    · rw [hlat]; simp [WS.deactivate, h.lat]
    · rw [filterMap_erase_none _ act f (by simp [lossLayer, hk])]; exact h.loss
    · rw [filterMap_erase_none _ act f (by simp [capLayer, hk])]; exact h.capf
    · rw [hnp rfl]; exact h.live
  | loss a b x =>
    constructor
    · intro e; rw [sumOver_erase _ act f hf]; simp [WS.deactivate, downC, hk, h.depth e]
    · intro a b; rw [sumOver_erase _ act f hf]; simp [WS.deactivate, biC, hk, h.bi a b]
    · intro a b; rw [sumOver_erase _ act f hf]; simp [WS.deactivate, dirC, hk, h.dir a b]
    · rw [filterMap_erase_none _ act f (by simp [latLayer, hk])]; exact h.lat
    · rw [hloss]; simp [WS.deactivate, h.loss]
    · rw [filterMap_erase_none _ act f (by simp [capLayer, hk])]; exact h.capf
    · rw [hnp rfl]; exact h.live
  | cap n d =>
    constructor
    · intro e; rw [sumOver_erase _ act f hf]; simp [WS.deactivate, downC, hk, h.depth e]
    · intro a b; rw [sumOver_erase _ act f hf]; simp [WS.deactivate, biC, hk, h.bi a b]
    · intro a b; rw [sumOver_erase _ act f hf]; simp [WS.deactivate, dirC, hk, h.dir a b]
    · rw [filterMap_erase_none _ act f (by simp [latLayer, hk])]; exact h.lat
    · rw [filterMap_erase_none _ act f (by simp [lossLayer, hk])]; exact h.loss
    · rw [hcap]; simp [WS.deactivate, h.capf]
    · rw [hnp rfl]; exact h.live

/-- `Partition.heal()` on a handle that holds nothing any more — healed before, or swept by
    `Network.heal_partition()` — changes nothing: in particular it cannot release a reference that
    belongs to another, still active partition -/
theorem winv_deactivate_stale (fs : List Fault) (w : WS) (act : List Nat) (f : Nat) (k : Kind)
    (hp : isPartK k = true) (h : WInv fs w act) (hf : f ∉ act) :
    w.deactivate f k = w ∧ act.erase f = act := by
  have hc : f ∉ w.live := by
    rw [h.live]
    exact fun hm => hf (List.mem_filter.mp hm).1
  refine ⟨?_, List.erase_of_not_mem hf⟩
  cases k with
  | part asym A B => cases asym <;> simp [WS.deactivate, hc]
  | _ => simp [isPartK] at hp

theorem part_contributes (fs : List Fault) (x : Nat) (hx : isPartF fs x = true) :
    (∀ e, downC fs x e = 0) ∧ latLayer fs x = none ∧ lossLayer fs x = none ∧ capLayer fs x = none := by
  unfold isPartF at hx
  cases hk : kindOf fs x with
  | none => simp [hk] at hx
  | some k => cases k <;> simp_all [downC, latLayer, lossLayer, capLayer]

theorem nonpart_contributes (fs : List Fault) (x : Nat) (hx : isPartF fs x = false) (a b : Nat) :
    biC fs x a b = 0 ∧ dirC fs x a b = 0 := by
  unfold isPartF at hx
  cases hk : kindOf fs x with
  | none => simp [biC, dirC, hk]
  | some k => cases k <;> simp_all [biC, dirC]

theorem partOnF_isPartF (fs : List Fault) (k x : Nat) (h : partOnF fs k x = true) :
    isPartF fs x = true := by
  unfold partOnF at h
  unfold isPartF kindOf
  cases hx : fs[x]? with
  | none => simp [hx] at h
  | some ft =>
    simp only [hx, Bool.and_eq_true] at h
    simp only [Option.map_some]
    cases hk : ft.kind <;> simp_all [isPartK]

/-- the members of a partition are nodes of the network it resolves to -/
theorem netWF_members (fs : List Fault) (hn : netWF fs = true) (x : Nat) (ft : Fault)
    (hx : fs[x]? = some ft) (asym : Bool) (A B : List Nat) (hk : ft.kind = .part asym A B) :
    ∀ y, (y ∈ A ∨ y ∈ B) → netOf y = ft.net := by
  intro y hy
  have hm : ft ∈ fs := List.mem_of_getElem? hx
  have h1 := List.all_eq_true.mp hn ft hm
  simp only [hk] at h1
  have h2 := List.all_eq_true.mp h1 y (List.mem_append.mpr hy)
  simpa using h2

/-- a partition of network `k` contributes nothing to pairs whose first node is on another network -/
theorem partOn_other_net (fs : List Fault) (hn : netWF fs = true) (k x a b : Nat)
    (h : partOnF fs k x = true) (ha : netOf a ≠ k) : biC fs x a b = 0 ∧ dirC fs x a b = 0 := by
  unfold partOnF at h
  cases hx : fs[x]? with
  | none => simp [hx] at h
  | some ft =>
    simp only [hx, Bool.and_eq_true, beq_iff_eq] at h
    cases hk : ft.kind with
    | part asym A B =>
      have hmem := netWF_members fs hn x ft hx asym A B hk
      have hA : a ∉ A := fun hm => ha ((hmem a (Or.inl hm)).trans h.2)
      have hB : a ∉ B := fun hm => ha ((hmem a (Or.inr hm)).trans h.2)
      cases asym <;> simp [biC, dirC, kindOf, hx, hk, hA, hB]
    | _ => simp [hk, isPartK] at h

/-- a window that is not a partition of network `k` contributes nothing to that network's pairs -/
theorem not_partOn_this_net (fs : List Fault) (hn : netWF fs = true) (k x a b : Nat)
    (h : partOnF fs k x = false) (ha : netOf a = k) : biC fs x a b = 0 ∧ dirC fs x a b = 0 := by
  unfold partOnF at h
  cases hx : fs[x]? with
  | none => simp [biC, dirC, kindOf, hx]
  | some ft =>
    simp only [hx] at h
    cases hk : ft.kind with
    | part asym A B =>
      have hne : ft.net ≠ k := by simpa [hk, isPartK] using h
      have hmem := netWF_members fs hn x ft hx asym A B hk
      have hA : a ∉ A := fun hm => hne ((hmem a (Or.inl hm)).symm.trans ha)
      have hB : a ∉ B := fun hm => hne ((hmem a (Or.inr hm)).symm.trans ha)
      cases asym <;> simp [biC, dirC, kindOf, hx, hk, hA, hB]
    | _ => simp [biC, dirC, kindOf, hx, hk]

/-- `heal_partition()` on network `k` ends every open partition window of that network and nothing
    else: the other networks' partitions, crash state, latency, loss and capacity stay -/
theorem winv_healall (fs : List Fault) (w : WS) (act : List Nat) (k : Nat) (hn : netWF fs = true)
    (h : WInv fs w act) :
    WInv fs (w.healAll k (partOnF fs k)) (act.filter fun f => !partOnF fs k f) := by
  have hz : ∀ x, (!partOnF fs k x) = false → isPartF fs x = true := by
    intro x hx; exact partOnF_isPartF fs k x (by simpa using hx)
  have hon : ∀ x, (!partOnF fs k x) = false → partOnF fs k x = true := by intro x hx; simpa using hx
  constructor
  · intro e
    show w.depth e = _
    rw [h.depth e]; unfold sumOver
    exact (sum_map_filter_zero _ _ (fun x hx => (part_contributes fs x (hz x hx)).1 e) act).symm
  · intro a b
    show (if netOf a = k then 0 else w.bi a b) = _
    unfold sumOver
    by_cases ha : netOf a = k
    · rw [if_pos ha]
      exact (sum_map_zero _ _ (fun x hx =>
        (not_partOn_this_net fs hn k x a b (by simpa using (List.mem_filter.mp hx).2) ha).1)).symm
    · rw [if_neg ha, h.bi a b]; unfold sumOver
      exact (sum_map_filter_zero _ _
        (fun x hx => (partOn_other_net fs hn k x a b (hon x hx) ha).1) act).symm
  · intro a b
    show (if netOf a = k then 0 else w.dir a b) = _
    unfold sumOver
    by_cases ha : netOf a = k
    · rw [if_pos ha]
      exact (sum_map_zero _ _ (fun x hx =>
        (not_partOn_this_net fs hn k x a b (by simpa using (List.mem_filter.mp hx).2) ha).2)).symm
    · rw [if_neg ha, h.dir a b]; unfold sumOver
      exact (sum_map_filter_zero _ _
        (fun x hx => (partOn_other_net fs hn k x a b (hon x hx) ha).2) act).symm
  · show w.lat = _
    rw [h.lat]
    exact (filterMap_filter_none _ _ (fun x hx => (part_contributes fs x (hz x hx)).2.1) act).symm
  · show w.loss = _
    rw [h.loss]
    exact (filterMap_filter_none _ _ (fun x hx => (part_contributes fs x (hz x hx)).2.2.1) act).symm
  · show w.capf = _
    rw [h.capf]
    exact (filterMap_filter_none _ _ (fun x hx => (part_contributes fs x (hz x hx)).2.2.2) act).symm
  · show w.live.filter (fun f => !partOnF fs k f) = _
    rw [h.live, List.filter_filter, List.filter_filter]
    apply List.filter_congr
    intro x _
    exact Bool.and_comm _ _

end HappyModel.C06
