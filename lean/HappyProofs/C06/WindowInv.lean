import HappyModel.C06.Windows
import HappyModel.C06.Spec
import HappyProofs.C06.Lists
/-!
The invariant that ties the state the fault closures mutate (`WS`: counters, reference counts,
layer stacks) to the *set of active windows*: every component of `WS` is the projection of the
active list that the specification prescribes.  Preserved by every activation of a window that is
not active and every deactivation of a window that is.
-/
set_option linter.unusedSimpArgs false
namespace HappyModel.C06

def latLayer (fs : List Fault) (f : Nat) : Option Layer :=
  match kindOf fs f with
  | some (.lat a b x) => some ⟨f, a, b, x⟩
  | _ => none

def lossLayer (fs : List Fault) (f : Nat) : Option Layer :=
  match kindOf fs f with
  | some (.loss a b x) => some ⟨f, a, b, x⟩
  | _ => none

def capLayer (fs : List Fault) (f : Nat) : Option Factor :=
  match kindOf fs f with
  | some (.cap n d) => some ⟨f, n, d⟩
  | _ => none

theorem latLayer_fid (fs) (g y) (h : latLayer fs g = some y) : y.fid = g := by
  unfold latLayer at h; split at h <;> simp_all; rw [← h]
theorem lossLayer_fid (fs) (g y) (h : lossLayer fs g = some y) : y.fid = g := by
  unfold lossLayer at h; split at h <;> simp_all; rw [← h]
theorem capLayer_fid (fs) (g y) (h : capLayer fs g = some y) : y.fid = g := by
  unfold capLayer at h; split at h <;> simp_all; rw [← h]

structure WInv (fs : List Fault) (w : WS) (act : List Nat) : Prop where
  depth : ∀ e, w.depth e = sumOver act (downC fs · e)
  bi : ∀ a b, w.bi a b = sumOver act (biC fs · a b)
  dir : ∀ a b, w.dir a b = sumOver act (dirC fs · a b)
  lat : w.lat = act.filterMap (latLayer fs)
  loss : w.loss = act.filterMap (lossLayer fs)
  capf : w.capf = act.filterMap (capLayer fs)

theorem winv_init (fs : List Fault) : WInv fs {} [] := by
  constructor <;> intros <;> rfl

/-- activating a window adds exactly its contribution -/
theorem winv_activate (fs : List Fault) (w : WS) (act : List Nat) (f : Nat) (k : Kind)
    (hk : kindOf fs f = some k) (h : WInv fs w act) : WInv fs (w.activate f k) (f :: act) := by
  cases k with
  | crash e =>
    constructor
    · intro e'
      have hd : downC fs f e' = if e = e' then 1 else 0 := by simp [downC, hk]
      show upd w.depth e (w.depth e + 1) e' = sumOver (f :: act) (downC fs · e')
      simp only [sumOver, List.map_cons, List.sum_cons, hd]
      by_cases he : e' = e
      · subst he; simp [h.depth e', sumOver]; omega
      · have : ¬ e = e' := fun h => he h.symm
        rw [upd_other _ _ _ _ he, h.depth e']; simp [sumOver, this]
    · intro a b; simp [WS.activate, sumOver, biC, hk, h.bi a b]
    · intro a b; simp [WS.activate, sumOver, dirC, hk, h.dir a b]
    · simp [WS.activate, latLayer, hk, h.lat]
    · simp [WS.activate, lossLayer, hk, h.loss]
    · simp [WS.activate, capLayer, hk, h.capf]
  | pause e =>
    constructor
    · intro e'
      have hd : downC fs f e' = if e = e' then 1 else 0 := by simp [downC, hk]
      show upd w.depth e (w.depth e + 1) e' = sumOver (f :: act) (downC fs · e')
      simp only [sumOver, List.map_cons, List.sum_cons, hd]
      by_cases he : e' = e
      · subst he; simp [h.depth e', sumOver]; omega
      · have : ¬ e = e' := fun h => he h.symm
        rw [upd_other _ _ _ _ he, h.depth e']; simp [sumOver, this]
    · intro a b; simp [WS.activate, sumOver, biC, hk, h.bi a b]
    · intro a b; simp [WS.activate, sumOver, dirC, hk, h.dir a b]
    · simp [WS.activate, latLayer, hk, h.lat]
    · simp [WS.activate, lossLayer, hk, h.loss]
    · simp [WS.activate, capLayer, hk, h.capf]
  | part asym A B =>
    cases asym with
    | false =>
      constructor
      · intro e; simp [WS.activate, sumOver, downC, hk, h.depth e]
      · intro a b; simp [WS.activate, sumOver, biC, hk, h.bi a b, biCov]; omega
      · intro a b; simp [WS.activate, sumOver, dirC, hk, h.dir a b]
      · simp [WS.activate, latLayer, hk, h.lat]
      · simp [WS.activate, lossLayer, hk, h.loss]
      · simp [WS.activate, capLayer, hk, h.capf]
    | true =>
      constructor
      · intro e; simp [WS.activate, sumOver, downC, hk, h.depth e]
      · intro a b; simp [WS.activate, sumOver, biC, hk, h.bi a b]
      · intro a b; simp [WS.activate, sumOver, dirC, hk, h.dir a b, dirCov]; omega
      · simp [WS.activate, latLayer, hk, h.lat]
      · simp [WS.activate, lossLayer, hk, h.loss]
      · simp [WS.activate, capLayer, hk, h.capf]
  | lat a b x =>
    constructor
    · intro e; simp [WS.activate, sumOver, downC, hk, h.depth e]
    · intro a b; simp [WS.activate, sumOver, biC, hk, h.bi a b]
    · intro a b; simp [WS.activate, sumOver, dirC, hk, h.dir a b]
    · simp [WS.activate, latLayer, hk, h.lat]
    · simp [WS.activate, lossLayer, hk, h.loss]
    · simp [WS.activate, capLayer, hk, h.capf]
  | loss a b x =>
    constructor
    · intro e; simp [WS.activate, sumOver, downC, hk, h.depth e]
    · intro a b; simp [WS.activate, sumOver, biC, hk, h.bi a b]
    · intro a b; simp [WS.activate, sumOver, dirC, hk, h.dir a b]
    · simp [WS.activate, latLayer, hk, h.lat]
    · simp [WS.activate, lossLayer, hk, h.loss]
    · simp [WS.activate, capLayer, hk, h.capf]
  | cap n d =>
    constructor
    · intro e; simp [WS.activate, sumOver, downC, hk, h.depth e]
    · intro a b; simp [WS.activate, sumOver, biC, hk, h.bi a b]
    · intro a b; simp [WS.activate, sumOver, dirC, hk, h.dir a b]
    · simp [WS.activate, latLayer, hk, h.lat]
    · simp [WS.activate, lossLayer, hk, h.loss]
    · simp [WS.activate, capLayer, hk, h.capf]

theorem sumOver_erase (g : Nat → Nat) (act : List Nat) (f : Nat) (hf : f ∈ act) :
    sumOver (act.erase f) g = sumOver act g - g f := sum_map_erase g act f hf

/-- deactivating an active window removes exactly its contribution, whatever else is active -/
theorem winv_deactivate (fs : List Fault) (w : WS) (act : List Nat) (f : Nat) (k : Kind)
    (hk : kindOf fs f = some k) (h : WInv fs w act) (nd : act.Nodup) (hf : f ∈ act) :
    WInv fs (w.deactivate f k) (act.erase f) := by
  have hlat := filterMap_erase (β := Layer) (·.fid) (latLayer fs) (latLayer_fid fs) act f nd
  have hloss := filterMap_erase (β := Layer) (·.fid) (lossLayer fs) (lossLayer_fid fs) act f nd
  have hcap := filterMap_erase (β := Factor) (·.fid) (capLayer fs) (capLayer_fid fs) act f nd
  cases k with
  | crash e =>
    constructor
    · intro e'
      have hd : downC fs f e' = if e = e' then 1 else 0 := by simp [downC, hk]
      show upd w.depth e (w.depth e - 1) e' = sumOver (act.erase f) (downC fs · e')
      rw [sumOver_erase _ act f hf, hd]
      by_cases he : e' = e
      · subst he; simp [h.depth e']
      · have : ¬ e = e' := fun h => he h.symm
        rw [upd_other _ _ _ _ he, h.depth e']; simp [this]
    · intro a b; rw [sumOver_erase _ act f hf]; simp [WS.deactivate, biC, hk, h.bi a b]
    · intro a b; rw [sumOver_erase _ act f hf]; simp [WS.deactivate, dirC, hk, h.dir a b]
    · rw [filterMap_erase_none _ act f (by simp [latLayer, hk])]; exact h.lat
    · rw [filterMap_erase_none _ act f (by simp [lossLayer, hk])]; exact h.loss
    · rw [filterMap_erase_none _ act f (by simp [capLayer, hk])]; exact h.capf
  | pause e =>
    constructor
    · intro e'
      have hd : downC fs f e' = if e = e' then 1 else 0 := by simp [downC, hk]
      show upd w.depth e (w.depth e - 1) e' = sumOver (act.erase f) (downC fs · e')
      rw [sumOver_erase _ act f hf, hd]
      by_cases he : e' = e
      · subst he; simp [h.depth e']
      · have : ¬ e = e' := fun h => he h.symm
        rw [upd_other _ _ _ _ he, h.depth e']; simp [this]
    · intro a b; rw [sumOver_erase _ act f hf]; simp [WS.deactivate, biC, hk, h.bi a b]
    · intro a b; rw [sumOver_erase _ act f hf]; simp [WS.deactivate, dirC, hk, h.dir a b]
    · rw [filterMap_erase_none _ act f (by simp [latLayer, hk])]; exact h.lat
    · rw [filterMap_erase_none _ act f (by simp [lossLayer, hk])]; exact h.loss
    · rw [filterMap_erase_none _ act f (by simp [capLayer, hk])]; exact h.capf
  | part asym A B =>
    cases asym with
    | false =>
      constructor
      · intro e; rw [sumOver_erase _ act f hf]; simp [WS.deactivate, downC, hk, h.depth e]
      · intro a b; rw [sumOver_erase _ act f hf]; simp [WS.deactivate, biC, hk, h.bi a b, biCov]
      · intro a b; rw [sumOver_erase _ act f hf]; simp [WS.deactivate, dirC, hk, h.dir a b]
      · rw [filterMap_erase_none _ act f (by simp [latLayer, hk])]; exact h.lat
      · rw [filterMap_erase_none _ act f (by simp [lossLayer, hk])]; exact h.loss
      · rw [filterMap_erase_none _ act f (by simp [capLayer, hk])]; exact h.capf
    | true =>
      constructor
      · intro e; rw [sumOver_erase _ act f hf]; simp [WS.deactivate, downC, hk, h.depth e]
      · intro a b; rw [sumOver_erase _ act f hf]; simp [WS.deactivate, biC, hk, h.bi a b]
      · intro a b; rw [sumOver_erase _ act f hf]; simp [WS.deactivate, dirC, hk, h.dir a b, dirCov]
      · rw [filterMap_erase_none _ act f (by simp [latLayer, hk])]; exact h.lat
      · rw [filterMap_erase_none _ act f (by simp [lossLayer, hk])]; exact h.loss
      · rw [filterMap_erase_none _ act f (by simp [capLayer, hk])]; exact h.capf
  | lat a b x =>
    constructor
    · intro e; rw [sumOver_erase _ act f hf]; simp [WS.deactivate, downC, hk, h.depth e]
    · intro a b; rw [sumOver_erase _ act f hf]; simp [WS.deactivate, biC, hk, h.bi a b]
    · intro a b; rw [sumOver_erase _ act f hf]; simp [WS.deactivate, dirC, hk, h.dir a b]
    · rw [hlat]; simp [WS.deactivate, h.lat]
    · rw [filterMap_erase_none _ act f (by simp [lossLayer, hk])]; exact h.loss
    · rw [filterMap_erase_none _ act f (by simp [capLayer, hk])]; exact h.capf
  | loss a b x =>
    constructor
    · intro e; rw [sumOver_erase _ act f hf]; simp [WS.deactivate, downC, hk, h.depth e]
    · intro a b; rw [sumOver_erase _ act f hf]; simp [WS.deactivate, biC, hk, h.bi a b]
    · intro a b; rw [sumOver_erase _ act f hf]; simp [WS.deactivate, dirC, hk, h.dir a b]
    · rw [filterMap_erase_none _ act f (by simp [latLayer, hk])]; exact h.lat
    · rw [hloss]; simp [WS.deactivate, h.loss]
    · rw [filterMap_erase_none _ act f (by simp [capLayer, hk])]; exact h.capf
  | cap n d =>
    constructor
    · intro e; rw [sumOver_erase _ act f hf]; simp [WS.deactivate, downC, hk, h.depth e]
    · intro a b; rw [sumOver_erase _ act f hf]; simp [WS.deactivate, biC, hk, h.bi a b]
    · intro a b; rw [sumOver_erase _ act f hf]; simp [WS.deactivate, dirC, hk, h.dir a b]
    · rw [filterMap_erase_none _ act f (by simp [latLayer, hk])]; exact h.lat
    · rw [filterMap_erase_none _ act f (by simp [lossLayer, hk])]; exact h.loss
    · rw [hcap]; simp [WS.deactivate, h.capf]

end HappyModel.C06
