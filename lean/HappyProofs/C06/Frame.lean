import HappyModel.C06.Engine
import HappyModel.C06.Spec
/-! Frame lemmas: only fault events touch the window state; the gate is decided by it alone. -/
set_option linter.unusedSimpArgs false
namespace HappyModel.C06

/-- the window state, the record of processed fault events and the cancelled handles are untouched -/
def Frame (s s' : St) : Prop := s'.ws = s.ws ∧ s'.fired = s.fired ∧ s'.cancelled = s.cancelled

theorem Frame.refl (s : St) : Frame s s := ⟨rfl, rfl, rfl⟩
theorem Frame.trans {a b c : St} (h1 : Frame a b) (h2 : Frame b c) : Frame a c :=
  ⟨h2.1.trans h1.1, h2.2.1.trans h1.2.1, h2.2.2.trans h1.2.2⟩

theorem frame_setSt (s : St) (j : Nat) (st : Status) : Frame s (s.setSt j st) := ⟨rfl, rfl, rfl⟩
theorem frame_suspend (s : St) (j k : Nat) (st : Status) : Frame s (s.suspend j k st) := ⟨rfl, rfl, rfl⟩

theorem frame_resolve (s : St) (f : Nat) : Frame s (s.resolve f) := by
  unfold St.resolve
  split
  · exact Frame.refl s
  · split <;> exact ⟨rfl, rfl, rfl⟩

theorem frame_wake : ∀ (l : List (Nat × Nat)) (s : St), Frame s (s.wake l)
  | [], s => ⟨rfl, rfl, rfl⟩
  | (j, a) :: rest, s => by
    unfold St.wake
    split
    · exact Frame.trans ⟨rfl, rfl, rfl⟩ (frame_wake rest _)
    · exact ⟨rfl, rfl, rfl⟩

theorem wake_base : ∀ (l : List (Nat × Nat)) (s : St), (s.wake l).base = s.base
  | [], s => rfl
  | (j, a) :: rest, s => by
    unfold St.wake
    split
    · exact wake_base rest _
    · rfl

theorem frame_exec (c : Case) (j now : Nat) : ∀ (ops : List Op) (k : Nat) (s : St),
    Frame s (exec c j now ops k s).1
  | [], k, s => by simp only [exec]; exact frame_setSt _ _ _
  | op :: rest, k, s => by
    cases op with
    | sleep d => simp only [exec]; exact frame_suspend _ _ _ _
    | emit d => simp only [exec]; exact ⟨rfl, rfl, rfl⟩
    | wait f =>
      simp only [exec]
      split
      · exact frame_suspend _ _ _ _
      · exact ⟨rfl, rfl, rfl⟩
    | res f =>
      simp only [exec]
      exact Frame.trans (frame_resolve s f) (frame_exec c j now rest (k + 1) _)
    | acq a =>
      simp only [exec]
      split
      · exact frame_exec c j now rest (k + 1) s
      · split <;> exact ⟨rfl, rfl, rfl⟩
    | rel =>
      simp only [exec]
      split
      · exact frame_exec c j now rest (k + 1) s
      · rename_i g gs _
        have h1 : Frame s { s with avail := s.avail + (g * SC : Nat),
                                   procs := upd s.procs j { s.procs j with grants := gs } } := ⟨rfl, rfl, rfl⟩
        exact Frame.trans (Frame.trans h1 (frame_wake s.waiters _)) (frame_exec c j now rest (k + 1) _)

theorem frame_dropPop (s : St) (p : Pop) : Frame s (dropPop s p) := by
  cases p <;> exact ⟨rfl, rfl, rfl⟩

theorem frame_resumeJob (c : Case) (s : St) (t j : Nat) : Frame s (resumeJob c s t j).1 := by
  unfold resumeJob
  simp only []
  refine Frame.trans ?_ (frame_exec c j t _ _ _)
  split <;> exact ⟨rfl, rfl, rfl⟩

/-- the events that act on faults: fault events, `FaultHandle.cancel`, `Network.heal_partition` -/
def Pop.isFault : Pop → Bool
  | .fault .. => true
  | .cancel .. => true
  | .healall .. => true
  | _ => false

theorem frame_setCap (s : St) (o n : Nat) : Frame s (s.setCap o n) := by
  unfold St.setCap
  simp only []
  split
  · exact Frame.trans ⟨rfl, rfl, rfl⟩ (frame_wake _ _)
  · exact ⟨rfl, rfl, rfl⟩

theorem frame_stepOpen (c : Case) (s : St) (p : Pop) (h : p.isFault = false) :
    Frame s (stepOpen c s p).1 := by
  cases p with
  | fault t f a => simp [Pop.isFault] at h
  | cancel t f => simp [Pop.isFault] at h
  | healall t k => simp [Pop.isFault] at h
  | setcap t v => simp only [stepOpen]; exact Frame.trans ⟨rfl, rfl, rfl⟩ (frame_setCap _ _ _)
  | job t j cont =>
    cases cont with
    | false =>
      simp only [stepOpen]
      split
      · exact frame_exec c j t _ _ _
      · exact Frame.refl s
    | true =>
      simp only [stepOpen]
      split
      · split
        · exact frame_resumeJob c s t j
        · exact Frame.refl s
      · exact frame_resumeJob c s t j
      · exact Frame.refl s
  | sink t j k => simp only [stepOpen]; split <;> exact ⟨rfl, rfl, rfl⟩
  | nsend t p =>
    simp only [stepOpen]
    split
    · exact Frame.refl s
    · split
      · exact ⟨rfl, rfl, rfl⟩
      · split <;> exact ⟨rfl, rfl, rfl⟩
  | nhop t p => simp only [stepOpen]; split <;> exact ⟨rfl, rfl, rfl⟩
  | recv t p => simp only [stepOpen]; split <;> exact ⟨rfl, rfl, rfl⟩

theorem frame_step (c : Case) (s : St) (p : Pop) (h : p.isFault = false) :
    Frame s (step c s p).1 := by
  unfold step
  split
  · split
    · exact frame_dropPop s p
    · exact frame_stepOpen c s p h
  · exact frame_stepOpen c s p h

/-- a fault event the engine can have delivered (`faultBad = false`: the handle is not cancelled,
    activation first, each event of a scheduled fault once) applies exactly its closure to the window
    state -/
theorem step_fault (c : Case) (s : St) (t f : Nat) (a : Bool) (ft : Fault)
    (hf : c.faults[f]? = some ft) (hg : faultBad s f a ft.kind = false) :
    (step c s (.fault t f a)).1.ws =
        (if a then s.ws.activate f ft.kind else s.ws.deactivate f ft.kind) ∧
    (step c s (.fault t f a)).1.fired = (f, a) :: s.fired ∧
    (step c s (.fault t f a)).1.cancelled = s.cancelled := by
  simp only [step, popEntity, stepOpen, faultPop, hf, hg]
  have := frame_setCap
    { s with ws := if a then s.ws.activate f ft.kind else s.ws.deactivate f ft.kind,
             fired := (f, a) :: s.fired }
    (s.ws.capOf s.base)
    ((if a then s.ws.activate f ft.kind else s.ws.deactivate f ft.kind).capOf s.base)
  exact ⟨by simpa using this.1, by simpa using this.2.1, by simpa using this.2.2⟩

/-- `Network.heal_partition()` touches the partition reference counts and handles only -/
theorem step_healall (c : Case) (s : St) (t k : Nat) :
    (step c s (.healall t k)).1 = { s with ws := s.ws.healAll k (c.partOn k) } := by
  simp [step, popEntity, stepOpen]

/-- `FaultHandle.cancel()` only marks the handle -/
theorem step_cancel (c : Case) (s : St) (t f : Nat) :
    (step c s (.cancel t f)).1 = { s with cancelled := f :: s.cancelled } := by
  simp [step, popEntity, stepOpen]

end HappyModel.C06
