import HappyProofs.C06.WindowInv
/-! From the invariant to the effective settings: what the system reads equals `base ⊕ active`. -/
set_option linter.unusedSimpArgs false
namespace HappyModel.C06

theorem layerSum_cons (l : Layer) (ls : List Layer) (a b : Nat) :
    layerSum (l :: ls) a b = (if (l.a == a && l.b == b) = true then l.x else 0) + layerSum ls a b := by
  unfold layerSum
  by_cases h : (l.a == a && l.b == b) = true <;> simp [List.filter_cons, h]

theorem latC_of_layer (fs : List Fault) (x a b : Nat) :
    latC fs x a b = match latLayer fs x with
      | some l => if (l.a == a && l.b == b) = true then l.x else 0
      | none => 0 := by
  unfold latC latLayer
  cases hk : kindOf fs x with
  | none => rfl
  | some k => cases k <;> simp

theorem lossC_of_layer (fs : List Fault) (x a b : Nat) :
    lossC fs x a b = match lossLayer fs x with
      | some l => if (l.a == a && l.b == b) = true then l.x else 0
      | none => 0 := by
  unfold lossC lossLayer
  cases hk : kindOf fs x with
  | none => rfl
  | some k => cases k <;> simp

theorem layerSum_lat (fs : List Fault) (a b : Nat) : ∀ act : List Nat,
    layerSum (act.filterMap (latLayer fs)) a b = sumOver act (latC fs · a b)
  | [] => rfl
  | x :: xs => by
    have ih := layerSum_lat fs a b xs
    have hs : sumOver (x :: xs) (latC fs · a b) = latC fs x a b + sumOver xs (latC fs · a b) := by
      simp [sumOver]
    rw [hs, latC_of_layer, List.filterMap_cons]
    cases h : latLayer fs x with
    | none => simpa using ih
    | some l => simp only [layerSum_cons, ih]

theorem layerSum_loss (fs : List Fault) (a b : Nat) : ∀ act : List Nat,
    layerSum (act.filterMap (lossLayer fs)) a b = sumOver act (lossC fs · a b)
  | [] => rfl
  | x :: xs => by
    have ih := layerSum_loss fs a b xs
    have hs : sumOver (x :: xs) (lossC fs · a b) = lossC fs x a b + sumOver xs (lossC fs · a b) := by
      simp [sumOver]
    rw [hs, lossC_of_layer, List.filterMap_cons]
    cases h : lossLayer fs x with
    | none => simpa using ih
    | some l => simp only [layerSum_cons, ih]

theorem capNum_of_layer (fs : List Fault) (x : Nat) :
    capNum fs x = match capLayer fs x with | some l => l.num | none => 1 := by
  unfold capNum capLayer
  cases hk : kindOf fs x with
  | none => rfl
  | some k => cases k <;> simp

theorem capDen_of_layer (fs : List Fault) (x : Nat) :
    capDen fs x = match capLayer fs x with | some l => l.den | none => 1 := by
  unfold capDen capLayer
  cases hk : kindOf fs x with
  | none => rfl
  | some k => cases k <;> simp

theorem prod_num (fs : List Fault) : ∀ act : List Nat,
    ((act.filterMap (capLayer fs)).map (·.num)).foldr (· * ·) 1 = prodOver act (capNum fs)
  | [] => rfl
  | x :: xs => by
    have ih := prod_num fs xs
    have hs : prodOver (x :: xs) (capNum fs) = capNum fs x * prodOver xs (capNum fs) := by
      simp [prodOver]
    rw [hs, capNum_of_layer, List.filterMap_cons]
    cases h : capLayer fs x with
    | none => simpa using ih
    | some l => simp only [List.map_cons, List.foldr_cons, ih]

theorem prod_den (fs : List Fault) : ∀ act : List Nat,
    ((act.filterMap (capLayer fs)).map (·.den)).foldr (· * ·) 1 = prodOver act (capDen fs)
  | [] => rfl
  | x :: xs => by
    have ih := prod_den fs xs
    have hs : prodOver (x :: xs) (capDen fs) = capDen fs x * prodOver xs (capDen fs) := by
      simp [prodOver]
    rw [hs, capDen_of_layer, List.filterMap_cons]
    cases h : capLayer fs x with
    | none => simpa using ih
    | some l => simp only [List.map_cons, List.foldr_cons, ih]

/-- every effective setting is the configured value combined with the contributions of exactly
    the active windows -/
structure Effects (c : Case) (w : WS) (act : List Nat) : Prop where
  down : ∀ e, w.down e = decide (0 < specDown c.faults act e)
  blocked : ∀ a b, w.blocked a b = specBlocked c.faults act a b
  lat : ∀ a b, w.latOf (c.baseLat a b) a b = specLat c act a b
  loss : ∀ a b, w.lossOf (c.baseLoss a b) a b = specLoss c act a b
  cap : w.capOf c.cap = specCap c act
  /-- … for whatever capacity the model has configured: base × the factors of the active windows -/
  capB : ∀ base, w.capOf base = specCapB c base act

theorem effects_of_inv (c : Case) (w : WS) (act : List Nat) (h : WInv c.faults w act) :
    Effects c w act := by
  constructor
  · intro e; unfold WS.down specDown; rw [h.depth e]
  · intro a b; simp [WS.blocked, specBlocked, h.bi a b, h.dir a b]
  · intro a b; simp [WS.latOf, specLat, h.lat, layerSum_lat]
  · intro a b; simp [WS.lossOf, specLoss, h.loss, layerSum_loss]
  · simp [WS.capOf, specCap, specCapB, h.capf, prod_num, prod_den]
  · intro base; simp [WS.capOf, specCapB, h.capf, prod_num, prod_den]

/-- blocked ⇔ some active window covers the direction -/
theorem specBlocked_iff (fs : List Fault) (act : List Nat) (a b : Nat) :
    specBlocked fs act a b = true ↔ ∃ f ∈ act, covers fs f a b := by
  unfold specBlocked covers sumOver
  simp only [decide_eq_true_eq]
  induction act with
  | nil => simp
  | cons x xs ih =>
    simp only [List.map_cons, List.sum_cons, List.mem_cons, exists_eq_or_imp]
    rw [← ih]; omega

/-- down ⇔ some active crash/pause window is on the entity -/
theorem specDown_pos_iff (fs : List Fault) (act : List Nat) (e : Nat) :
    0 < specDown fs act e ↔ ∃ f ∈ act, 0 < downC fs f e := by
  unfold specDown sumOver
  induction act with
  | nil => simp
  | cons x xs ih =>
    simp only [List.map_cons, List.sum_cons, List.mem_cons, exists_eq_or_imp]
    rw [← ih]; omega

end HappyModel.C06
