import HappyProofs.C06.Run
/-! Helper lemmas for the handle / manual-call theorems: the window state is *determined* by the set
of active windows; one more processed event is one `actStep`; once a handle is cancelled a legitimate
schedule contains no further event of its fault. -/
set_option linter.unusedSimpArgs false
namespace HappyModel.C06

/-- two window states that are both the projection of the same active set are equal -/
theorem winv_unique (fs : List Fault) (w w' : WS) (act : List Nat)
    (h : WInv fs w act) (h' : WInv fs w' act) : w = w' := by
  cases w; cases w'
  simp only [WS.mk.injEq]
  refine ⟨funext fun e => ?_, funext fun a => funext fun b => ?_, funext fun a => funext fun b => ?_,
    ?_, ?_, ?_, ?_⟩
  · exact (h.depth e).trans (h'.depth e).symm
  · exact (h.bi a b).trans (h'.bi a b).symm
  · exact (h.dir a b).trans (h'.dir a b).symm
  · exact h.live.trans h'.live.symm
  · exact h.lat.trans h'.lat.symm
  · exact h.loss.trans h'.loss.symm
  · exact h.capf.trans h'.capf.symm

theorem activeAfter_succ (fs : List Fault) (tr : List Pop) (k : Nat) (p : Pop) (hp : tr[k]? = some p) :
    activeAfter fs (tr.take (k + 1)) = actStep fs (activeAfter fs (tr.take k)) p := by
  unfold activeAfter
  rw [List.take_add_one, hp]
  simp [List.foldl_append]

/-- no event of a fault whose handle is cancelled occurs in a legitimate schedule -/
theorem legit_no_fault_of_canc (c : Case) (f : Nat) : ∀ (l : List Pop) (canc : List Nat),
    legitFrom c canc l = true → f ∈ canc → ∀ t a, Pop.fault t f a ∉ l
  | [], _, _, _ => by simp
  | p :: rest, canc, hl, hf => by
    intro t a hm
    cases p with
    | fault t' g a' =>
      simp only [legitFrom, Bool.and_eq_true, Bool.not_eq_true', List.contains_eq_mem,
        decide_eq_false_iff_not] at hl
      rcases List.mem_cons.mp hm with heq | hm
      · have hg : f = g := by injection heq
        exact hl.1.2 (hg ▸ hf)
      · exact legit_no_fault_of_canc c f rest canc hl.2 hf t a hm
    | cancel t' g =>
      simp only [legitFrom] at hl
      rcases List.mem_cons.mp hm with heq | hm
      · cases heq
      · exact legit_no_fault_of_canc c f rest (g :: canc) hl (List.mem_cons_of_mem _ hf) t a hm
    | healall t' k' =>
      simp only [legitFrom] at hl
      rcases List.mem_cons.mp hm with heq | hm
      · cases heq
      · exact legit_no_fault_of_canc c f rest canc hl hf t a hm
    | setcap t' v =>
      simp only [legitFrom] at hl
      rcases List.mem_cons.mp hm with heq | hm
      · cases heq
      · exact legit_no_fault_of_canc c f rest canc hl hf t a hm
    | job t' j cont =>
      simp only [legitFrom] at hl
      rcases List.mem_cons.mp hm with heq | hm
      · cases heq
      · exact legit_no_fault_of_canc c f rest canc hl hf t a hm
    | sink t' j k =>
      simp only [legitFrom] at hl
      rcases List.mem_cons.mp hm with heq | hm
      · cases heq
      · exact legit_no_fault_of_canc c f rest canc hl hf t a hm
    | nsend t' q =>
      simp only [legitFrom] at hl
      rcases List.mem_cons.mp hm with heq | hm
      · cases heq
      · exact legit_no_fault_of_canc c f rest canc hl hf t a hm
    | nhop t' q =>
      simp only [legitFrom] at hl
      rcases List.mem_cons.mp hm with heq | hm
      · cases heq
      · exact legit_no_fault_of_canc c f rest canc hl hf t a hm
    | recv t' q =>
      simp only [legitFrom] at hl
      rcases List.mem_cons.mp hm with heq | hm
      · cases heq
      · exact legit_no_fault_of_canc c f rest canc hl hf t a hm

theorem legit_tail_ex (c : Case) (canc : List Nat) (p : Pop) (rest : List Pop)
    (hl : legitFrom c canc (p :: rest) = true) : ∃ canc', legitFrom c canc' rest = true := by
  cases p with
  | fault t g a => simp only [legitFrom, Bool.and_eq_true] at hl; exact ⟨_, hl.2⟩
  | _ => simp only [legitFrom] at hl; exact ⟨_, hl⟩

/-- after the event that cancels the handle of fault `f`, no event of `f` is processed -/
theorem legit_after_cancel (c : Case) (t f : Nat) : ∀ (l : List Pop) (canc : List Nat) (i : Nat),
    legitFrom c canc l = true → l[i]? = some (.cancel t f) →
    ∀ t' a, Pop.fault t' f a ∉ l.drop (i + 1)
  | [], _, _, _, h => by simp at h
  | p :: rest, canc, 0, hl, h => by
    have hp : p = .cancel t f := by simpa using h
    subst hp
    simp only [legitFrom] at hl
    simpa using legit_no_fault_of_canc c f rest (f :: canc) hl (List.mem_cons_self ..)
  | p :: rest, canc, i + 1, hl, h => by
    obtain ⟨canc', hl'⟩ := legit_tail_ex c canc p rest hl
    simpa using legit_after_cancel c t f rest canc' i hl' (by simpa using h)

end HappyModel.C06
