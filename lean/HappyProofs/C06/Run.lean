import HappyProofs.C06.Frame
import HappyProofs.C06.Effects
/-! The invariant along a whole run: for every well-formed schedule of a legitimate fault plan, at
every point of the run, the window state is the projection of the set of active windows. -/
set_option linter.unusedSimpArgs false
namespace HappyModel.C06

/-- every fault event in the schedule belongs to a fault of the plan whose handle was not cancelled
    (`FaultHandle.cancel` marks the events cancelled and the engine never delivers those: C01) -/
def Legit (c : Case) (tr : List Pop) : Prop :=
  ∀ t f a, Pop.fault t f a ∈ tr → ∃ ft, c.faults[f]? = some ft ∧ ft.cancelled = false

def everStep (ever : List Nat) : Pop → List Nat
  | .fault _ f true => f :: ever
  | _ => ever

structure GInv (c : Case) (s : St) (ever act : List Nat) : Prop where
  w : WInv c.faults s.ws act
  nd : act.Nodup
  sub : ∀ f, f ∈ act → f ∈ ever
  firedA : ∀ f, (f, true) ∈ s.fired ↔ f ∈ ever
  firedD : ∀ f, (f, false) ∈ s.fired → f ∉ act ∧ f ∈ ever

theorem ginv_init (c : Case) : GInv c (St.init c) [] [] := by
  constructor
  · exact winv_init _
  · exact List.nodup_nil
  · intro f h; exact h
  · intro f; simp [St.init]
  · intro f h; simp [St.init] at h

theorem legit_tail {c : Case} {p : Pop} {rest : List Pop} (h : Legit c (p :: rest)) : Legit c rest :=
  fun t f a hm => h t f a (List.mem_cons_of_mem _ hm)

theorem ginv_step (c : Case) (s : St) (ever act : List Nat) (p : Pop) (rest : List Pop)
    (h : GInv c s ever act) (hwf : wfFrom ever act (p :: rest) = true) (hl : Legit c (p :: rest)) :
    GInv c (step c s p).1 (everStep ever p) (actStep act p) ∧
    wfFrom (everStep ever p) (actStep act p) rest = true := by
  by_cases hf : p.isFault = false
  · have fr := frame_step c s p hf
    have e1 : everStep ever p = ever := by cases p <;> simp_all [everStep, Pop.isFault]
    have e2 : actStep act p = act := by cases p <;> simp_all [actStep, Pop.isFault]
    have e3 : wfFrom ever act rest = true := by cases p <;> simp_all [wfFrom, Pop.isFault]
    rw [e1, e2]
    refine ⟨⟨?_, h.nd, h.sub, ?_, ?_⟩, e3⟩
    · rw [fr.1]; exact h.w
    · intro f; rw [fr.2]; exact h.firedA f
    · intro f; rw [fr.2]; exact h.firedD f
  · cases p with
    | fault t f a =>
      obtain ⟨ft, hft, hcan⟩ := hl t f a (List.mem_cons_self ..)
      have hk : kindOf c.faults f = some ft.kind := by simp [kindOf, hft]
      cases a with
      | true =>
        simp only [wfFrom, Bool.and_eq_true, Bool.not_eq_true', List.contains_eq_mem,
          decide_eq_false_iff_not] at hwf
        obtain ⟨hne, hrest⟩ := hwf
        have h1 : s.fired.contains (f, true) = false := by
          simp only [List.contains_eq_mem, decide_eq_false_iff_not]
          exact fun hm => hne ((h.firedA f).mp hm)
        obtain ⟨hws, hfired⟩ := step_fault c s t f true ft hft hcan h1 (by simp)
        simp only [everStep, actStep]
        refine ⟨⟨?_, ?_, ?_, ?_, ?_⟩, hrest⟩
        · rw [hws]; exact winv_activate _ _ _ _ _ hk h.w
        · exact List.nodup_cons.mpr ⟨fun hm => hne (h.sub f hm), h.nd⟩
        · intro g hg
          rcases List.mem_cons.mp hg with rfl | hg
          · exact List.mem_cons_self ..
          · exact List.mem_cons_of_mem _ (h.sub g hg)
        · intro g; rw [hfired]
          simp only [List.mem_cons, Prod.mk.injEq, and_true]
          rw [h.firedA g]
        · intro g hg; rw [hfired] at hg
          simp only [List.mem_cons, Prod.mk.injEq, Bool.false_eq_true, and_false, false_or] at hg
          obtain ⟨hna, hev⟩ := h.firedD g hg
          refine ⟨fun hm => ?_, List.mem_cons_of_mem _ hev⟩
          rcases List.mem_cons.mp hm with rfl | hm
          · exact hne hev
          · exact hna hm
      | false =>
        simp only [wfFrom, Bool.and_eq_true, List.contains_eq_mem, decide_eq_true_eq] at hwf
        obtain ⟨hin, hrest⟩ := hwf
        have h1 : s.fired.contains (f, false) = false := by
          simp only [List.contains_eq_mem, decide_eq_false_iff_not]
          exact fun hm => (h.firedD f hm).1 hin
        have h2 : s.fired.contains (f, true) = true := by
          simp only [List.contains_eq_mem, decide_eq_true_eq]
          exact (h.firedA f).mpr (h.sub f hin)
        obtain ⟨hws, hfired⟩ := step_fault c s t f false ft hft hcan h1 (fun _ => h2)
        simp only [everStep, actStep]
        refine ⟨⟨?_, ?_, ?_, ?_, ?_⟩, hrest⟩
        · rw [hws]; exact winv_deactivate _ _ _ _ _ hk h.w h.nd hin
        · exact nodup_erase f h.nd
        · intro g hg; exact h.sub g (List.mem_of_mem_erase hg)
        · intro g; rw [hfired]
          simp only [List.mem_cons, Prod.mk.injEq, Bool.true_eq_false, and_false, false_or]
          exact h.firedA g
        · intro g hg; rw [hfired] at hg
          rcases List.mem_cons.mp hg with heq | hg
          · have : g = f := by simpa using congrArg Prod.fst heq
            subst this
            exact ⟨fun hm => (List.Nodup.not_mem_erase h.nd) hm, h.sub g hin⟩
          · exact ⟨fun hm => (h.firedD g hg).1 (List.mem_of_mem_erase hm), (h.firedD g hg).2⟩
    | _ => simp [Pop.isFault] at hf

/-- the state before the `k`-th processed event -/
def stateAt (c : Case) (tr : List Pop) (k : Nat) : St := final c (St.init c) (tr.take k)

theorem ginv_run (c : Case) : ∀ (tr : List Pop) (s : St) (ever act : List Nat) (k : Nat),
    GInv c s ever act → wfFrom ever act tr = true → Legit c tr →
    GInv c (final c s (tr.take k)) ((tr.take k).foldl everStep ever) ((tr.take k).foldl actStep act)
  | _, s, ever, act, 0, h, _, _ => by simpa [final] using h
  | [], s, ever, act, k + 1, h, _, _ => by simpa [final] using h
  | p :: rest, s, ever, act, k + 1, h, hwf, hl => by
    obtain ⟨h', hwf'⟩ := ginv_step c s ever act p rest h hwf hl
    simpa [final] using ginv_run c rest _ _ _ k h' hwf' (legit_tail hl)

/-- **the window state is the projection of the active windows, at every point of every run** -/
theorem inv_at (c : Case) (tr : List Pop) (k : Nat) (hwf : WF tr) (hl : Legit c tr) :
    WInv c.faults (stateAt c tr k).ws (activeAfter (tr.take k)) :=
  (ginv_run c tr (St.init c) [] [] k (ginv_init c) hwf hl).w

end HappyModel.C06
