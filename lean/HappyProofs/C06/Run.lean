import HappyProofs.C06.Frame
import HappyProofs.C06.Effects
/-! The invariant along a whole run: for every well-formed schedule of a legitimate fault plan, at
every point of the run, the window state is the projection of the set of active windows. -/
set_option linter.unusedSimpArgs false
namespace HappyModel.C06

/-- the handles that are cancelled after a processed event -/
def cancStep (canc : List Nat) : Pop → List Nat
  | .cancel _ f => f :: canc
  | _ => canc

/-- every fault event in the schedule belongs to a fault of the plan, and none is processed once the
    handle of its fault is cancelled (`FaultHandle.cancel` marks the pending events cancelled and the
    engine never delivers those: C01 `never_cancelled`) -/
def legitFrom (c : Case) (canc : List Nat) : List Pop → Bool
  | [] => true
  | .fault _ f _ :: rest => (c.faults[f]?).isSome && !canc.contains f && legitFrom c canc rest
  | .cancel _ f :: rest => legitFrom c (f :: canc) rest
  | _ :: rest => legitFrom c canc rest

/-- … starting from the handles cancelled before the run (`Case.initCanc`); and the plan is well
    formed: a partition names nodes of the one network it resolves to (`netWF`) -/
def Legit (c : Case) (tr : List Pop) : Prop :=
  netWF c.faults = true ∧ legitFrom c c.initCanc tr = true

def everStep (ever : List Nat) : Pop → List Nat
  | .fault _ f true => f :: ever
  | _ => ever

structure GInv (c : Case) (s : St) (ever act canc : List Nat) : Prop where
  w : WInv c.faults s.ws act
  nd : act.Nodup
  sub : ∀ f, f ∈ act → f ∈ ever
  firedA : ∀ f, (f, true) ∈ s.fired ↔ f ∈ ever
  firedD : ∀ f, (f, false) ∈ s.fired → f ∉ act ∧ f ∈ ever
  canc : s.cancelled = canc

theorem ginv_init (c : Case) : GInv c (St.init c) [] [] c.initCanc := by
  constructor
  · exact winv_init _
  · exact List.nodup_nil
  · intro f h; exact h
  · intro f; simp [St.init]
  · intro f h; simp [St.init] at h
  · rfl

theorem isPartK_of_isPartF {fs : List Fault} {f : Nat} {k : Kind} (hk : kindOf fs f = some k)
    (hp : isPartF fs f = true) : isPartK k = true := by
  unfold isPartF at hp; rw [hk] at hp
  cases k <;> simp_all [isPartK]

theorem ginv_step (c : Case) (s : St) (ever act canc : List Nat) (p : Pop) (rest : List Pop)
    (hn : netWF c.faults = true)
    (h : GInv c s ever act canc) (hwf : wfFrom c.faults ever act (p :: rest) = true)
    (hl : legitFrom c canc (p :: rest) = true) :
    GInv c (step c s p).1 (everStep ever p) (actStep c.faults act p) (cancStep canc p) ∧
    wfFrom c.faults (everStep ever p) (actStep c.faults act p) rest = true ∧
    legitFrom c (cancStep canc p) rest = true := by
  by_cases hf : p.isFault = false
  · have fr := frame_step c s p hf
    have e1 : everStep ever p = ever := by cases p <;> simp_all [everStep, Pop.isFault]
    have e2 : actStep c.faults act p = act := by cases p <;> simp_all [actStep, Pop.isFault]
    have e3 : wfFrom c.faults ever act rest = true := by cases p <;> simp_all [wfFrom, Pop.isFault]
    have e4 : cancStep canc p = canc := by cases p <;> simp_all [cancStep, Pop.isFault]
    have e5 : legitFrom c canc rest = true := by cases p <;> simp_all [legitFrom, Pop.isFault]
    rw [e1, e2, e4]
    refine ⟨⟨?_, h.nd, h.sub, ?_, ?_, ?_⟩, e3, e5⟩
    · rw [fr.1]; exact h.w
    · intro f; rw [fr.2.1]; exact h.firedA f
    · intro f; rw [fr.2.1]; exact h.firedD f
    · rw [fr.2.2]; exact h.canc
  · cases p with
    | fault t f a =>
      simp only [legitFrom, Bool.and_eq_true, Bool.not_eq_true', List.contains_eq_mem,
        decide_eq_false_iff_not] at hl
      obtain ⟨⟨hsome, hnc⟩, hlrest⟩ := hl
      obtain ⟨ft, hft⟩ := Option.isSome_iff_exists.mp hsome
      have hk : kindOf c.faults f = some ft.kind := by simp [kindOf, hft]
      have hcan : f ∉ s.cancelled := by
        rw [h.canc]; exact hnc
      cases a with
      | true =>
        simp only [wfFrom, Bool.and_eq_true, Bool.not_eq_true', List.contains_eq_mem,
          decide_eq_false_iff_not] at hwf
        obtain ⟨hne, hrest⟩ := hwf
        have h1 : (f, true) ∉ s.fired := fun hm => hne ((h.firedA f).mp hm)
        have hg : faultBad s f true ft.kind = false := by simp [faultBad, hcan, h1]
        obtain ⟨hws, hfired, hcc⟩ := step_fault c s t f true ft hft hg
        simp only [everStep, actStep, cancStep]
        refine ⟨⟨?_, ?_, ?_, ?_, ?_, ?_⟩, hrest, hlrest⟩
        · rw [hws]; exact winv_activate _ _ _ _ _ hk h.w
        · exact List.nodup_cons.mpr ⟨fun hm => hne (h.sub f hm), h.nd⟩
        · intro g hg
          rcases List.mem_cons.mp hg with rfl | hg
          · exact List.mem_cons_self ..
          · exact List.mem_cons_of_mem _ (h.sub g hg)
        · intro g; rw [hfired]
          simp only [List.mem_cons, Prod.mk.injEq, and_true]
          rw [h.firedA g]
        · intro g hg; rw [hfired] at hg
          simp only [List.mem_cons, Prod.mk.injEq, Bool.false_eq_true, and_false, false_or] at hg
          obtain ⟨hna, hev⟩ := h.firedD g hg
          refine ⟨fun hm => ?_, List.mem_cons_of_mem _ hev⟩
          rcases List.mem_cons.mp hm with rfl | hm
          · exact hne hev
          · exact hna hm
        · rw [hcc]; exact h.canc
      | false =>
        simp only [wfFrom, Bool.and_eq_true, Bool.or_eq_true, List.contains_eq_mem,
          decide_eq_true_eq] at hwf
        obtain ⟨hcond, hrest⟩ := hwf
        simp only [everStep, actStep, cancStep]
        by_cases hin : f ∈ act
        · have h1 : (f, false) ∉ s.fired := fun hm => (h.firedD f hm).1 hin
          have h2 : (f, true) ∈ s.fired := (h.firedA f).mpr (h.sub f hin)
          have hg : faultBad s f false ft.kind = false := by simp [faultBad, hcan, h1, h2]
          obtain ⟨hws, hfired, hcc⟩ := step_fault c s t f false ft hft hg
          refine ⟨⟨?_, ?_, ?_, ?_, ?_, ?_⟩, hrest, hlrest⟩
          · rw [hws]; exact winv_deactivate _ _ _ _ _ hk h.w h.nd hin
          · exact nodup_erase f h.nd
          · intro g hg; exact h.sub g (List.mem_of_mem_erase hg)
          · intro g; rw [hfired]
            simp only [List.mem_cons, Prod.mk.injEq, Bool.true_eq_false, and_false, false_or]
            exact h.firedA g
          · intro g hg; rw [hfired] at hg
            rcases List.mem_cons.mp hg with heq | hg
            · have : g = f := by simpa using congrArg Prod.fst heq
              subst this
              exact ⟨fun hm => (List.Nodup.not_mem_erase h.nd) hm, h.sub g hin⟩
            · exact ⟨fun hm => (h.firedD g hg).1 (List.mem_of_mem_erase hm), (h.firedD g hg).2⟩
          · rw [hcc]; exact h.canc
        · -- a stale `Partition.heal()`: the handle holds nothing any more
          have hpe : isPartF c.faults f = true ∧ f ∈ ever := by
            rcases hcond with h' | h'
            · exact absurd h' hin
            · exact h'
          have hpk : isPartK ft.kind = true := isPartK_of_isPartF hk hpe.1
          have h2 : (f, true) ∈ s.fired := (h.firedA f).mpr hpe.2
          have hg : faultBad s f false ft.kind = false := by simp [faultBad, hcan, h2, hpk]
          obtain ⟨hws, hfired, hcc⟩ := step_fault c s t f false ft hft hg
          obtain ⟨hsame, herase⟩ := winv_deactivate_stale c.faults s.ws act f ft.kind hpk h.w hin
          rw [herase]
          refine ⟨⟨?_, h.nd, h.sub, ?_, ?_, ?_⟩, by rw [← herase]; exact hrest, hlrest⟩
          · rw [hws]; simp only [Bool.false_eq_true, if_false]; rw [hsame]; exact h.w
          · intro g; rw [hfired]
            simp only [List.mem_cons, Prod.mk.injEq, Bool.true_eq_false, and_false, false_or]
            exact h.firedA g
          · intro g hg; rw [hfired] at hg
            rcases List.mem_cons.mp hg with heq | hg
            · have : g = f := by simpa using congrArg Prod.fst heq
              subst this
              exact ⟨hin, hpe.2⟩
            · exact h.firedD g hg
          · rw [hcc]; exact h.canc
    | cancel t f =>
      rw [step_cancel]
      simp only [everStep, actStep, cancStep]
      refine ⟨⟨h.w, h.nd, h.sub, h.firedA, h.firedD, ?_⟩, by simpa [wfFrom] using hwf,
        by simpa [legitFrom] using hl⟩
      simp [h.canc]
    | healall t k =>
      rw [step_healall]
      simp only [everStep, actStep, cancStep]
      refine ⟨⟨winv_healall _ _ _ k hn h.w, ?_, ?_, h.firedA, ?_, h.canc⟩, by simpa [wfFrom] using hwf,
        by simpa [legitFrom] using hl⟩
      · exact List.Nodup.sublist List.filter_sublist h.nd
      · intro g hg; exact h.sub g (List.mem_filter.mp hg).1
      · intro g hg
        exact ⟨fun hm => (h.firedD g hg).1 (List.mem_filter.mp hm).1, (h.firedD g hg).2⟩
    | _ => simp [Pop.isFault] at hf

/-- the state before the `k`-th processed event -/
def stateAt (c : Case) (tr : List Pop) (k : Nat) : St := final c (St.init c) (tr.take k)

theorem ginv_run (c : Case) : ∀ (tr : List Pop) (s : St) (ever act canc : List Nat) (k : Nat),
    netWF c.faults = true →
    GInv c s ever act canc → wfFrom c.faults ever act tr = true → legitFrom c canc tr = true →
    GInv c (final c s (tr.take k)) ((tr.take k).foldl everStep ever)
      ((tr.take k).foldl (actStep c.faults) act) ((tr.take k).foldl cancStep canc)
  | _, s, ever, act, canc, 0, _, h, _, _ => by simpa [final] using h
  | [], s, ever, act, canc, k + 1, _, h, _, _ => by simpa [final] using h
  | p :: rest, s, ever, act, canc, k + 1, hn, h, hwf, hl => by
    obtain ⟨h', hwf', hl'⟩ := ginv_step c s ever act canc p rest hn h hwf hl
    simpa [final] using ginv_run c rest _ _ _ _ k hn h' hwf' hl'

/-- **the window state is the projection of the active windows, at every point of every run** -/
theorem inv_at (c : Case) (tr : List Pop) (k : Nat) (hwf : WF c.faults tr) (hl : Legit c tr) :
    WInv c.faults (stateAt c tr k).ws (activeAfter c.faults (tr.take k)) :=
  (ginv_run c tr (St.init c) [] [] c.initCanc k hl.1 (ginv_init c) hwf hl.2).w

end HappyModel.C06
