import HappyProofs.C06.Run
import HappyProofs.C06.TimeWindow
import HappyProofs.C06.PcFrame
import HappyProofs.C06.Cancel
/-!
# C06 — property theorems

"While an entity is crashed or paused by a fault it executes nothing: no handler runs, no in-flight
process advances, and it emits no events; processing resumes from the restart time and other
entities are unaffected. A partition, added latency, packet loss or reduced capacity is in effect for
its target exactly while at least one fault window covering that target is active, whatever other
faults overlap it, and once every window has ended the system is back to its configured state.
Cancelling a fault handle before activation prevents the fault entirely."

All statements are about the model of the *repaired* code (`fixes/C06-*.diff`), for **every** case
(fault plan of any length with arbitrary, overlapping, nested, identical windows on the same or
different targets; any jobs; any probes) and **every** schedule `tr` of processed events that is
well-formed (`WF`: each fault event at most once, activation before deactivation — what the engine's
exactly-once, ordered delivery gives) and legitimate (`Legit`: only events of scheduled,
not-cancelled faults — cancelled events are never delivered).  "Active at step k" is
`activeAfter c.faults (tr.take k)`: activated and not yet deactivated among the first `k` processed events.
-/
set_option linter.unusedSimpArgs false
namespace HappyModel.C06

theorem stateAt_succ (c : Case) (tr : List Pop) (k : Nat) (p : Pop) (hp : tr[k]? = some p) :
    stateAt c tr (k + 1) = (step c (stateAt c tr k) p).1 := by
  unfold stateAt
  have : ∀ (tr : List Pop) (s : St) (k : Nat), tr[k]? = some p →
      final c s (tr.take (k + 1)) = (step c (final c s (tr.take k)) p).1 := by
    intro tr
    induction tr with
    | nil => intro s k h; simp at h
    | cons q rest ih =>
      intro s k h
      cases k with
      | zero => simp at h; subst h; simp [final]
      | succ k => simpa [final] using ih (step c s q).1 k (by simpa using h)
  exact this tr _ k hp

/-- **effect_iff_active** — at every point of every run, every effective setting equals the
    configured value combined with the contributions of exactly the windows active at that point:
    down ⇔ (number of active crash/pause windows on the entity) > 0; blocked ⇔ active partitions
    covering the direction; latency = base + Σ active extras; loss = min(1, base + Σ active extras);
    capacity = base × Π active factors. -/
theorem effect_iff_active (c : Case) (tr : List Pop) (k : Nat) (hwf : WF c.faults tr) (hl : Legit c tr) :
    Effects c (stateAt c tr k).ws (activeAfter c.faults (tr.take k)) :=
  effects_of_inv c _ _ (inv_at c tr k hwf hl)

/-- in particular: a direction is blocked ⇔ some partition window covering it is active -/
theorem blocked_iff_covering_window_active (c : Case) (tr : List Pop) (k : Nat) (hwf : WF c.faults tr)
    (hl : Legit c tr) (a b : Nat) :
    (stateAt c tr k).ws.blocked a b = true ↔
      ∃ f ∈ activeAfter c.faults (tr.take k), covers c.faults f a b := by
  rw [(effect_iff_active c tr k hwf hl).blocked a b]; exact specBlocked_iff _ _ _ _

/-- … and an entity is down ⇔ some crash/pause window on it is active -/
theorem down_iff_window_active (c : Case) (tr : List Pop) (k : Nat) (hwf : WF c.faults tr)
    (hl : Legit c tr) (e : Nat) :
    (stateAt c tr k).ws.down e = true ↔
      ∃ f ∈ activeAfter c.faults (tr.take k), 0 < downC c.faults f e := by
  rw [(effect_iff_active c tr k hwf hl).down e, decide_eq_true_eq]; exact specDown_pos_iff _ _ _

/-- **all_ended_restores_base** — once every window has ended the configured state is back -/
theorem all_ended_restores_base (c : Case) (tr : List Pop) (k : Nat) (hwf : WF c.faults tr) (hl : Legit c tr)
    (hend : activeAfter c.faults (tr.take k) = []) :
    (∀ e, (stateAt c tr k).ws.down e = false) ∧
    (∀ a b, (stateAt c tr k).ws.blocked a b = false) ∧
    (∀ a b, (stateAt c tr k).ws.latOf (c.baseLat a b) a b = c.baseLat a b) ∧
    (∀ a b, (stateAt c tr k).ws.lossOf (c.baseLoss a b) a b = min SC (c.baseLoss a b)) ∧
    (stateAt c tr k).ws.capOf c.cap = c.cap * SC := by
  have h := effect_iff_active c tr k hwf hl
  rw [hend] at h
  refine ⟨fun e => ?_, fun a b => ?_, fun a b => ?_, fun a b => ?_, ?_⟩
  · rw [h.down e]; simp [specDown, sumOver]
  · rw [h.blocked a b]; simp [specBlocked, sumOver]
  · rw [h.lat a b]; simp [specLat, sumOver]
  · rw [h.loss a b]; simp [specLoss, sumOver]
  · rw [h.cap]; simp [specCap, specCapB, prodOver]

/-- **capacity_tracks_live_configuration** — at every point of every run the effective capacity is
    the capacity the model has *currently* configured (`St.base`: what the resource was built with,
    or what the model last passed to `Resource.set_capacity` — before, inside or between windows)
    times the factors of exactly the `ReduceCapacity` windows active at that point; with no window
    active it is that configured capacity itself -/
theorem capacity_tracks_live_configuration (c : Case) (tr : List Pop) (k : Nat) (hwf : WF c.faults tr)
    (hl : Legit c tr) :
    (stateAt c tr k).ws.capOf (stateAt c tr k).base =
      specCapB c (stateAt c tr k).base (activeAfter c.faults (tr.take k)) ∧
    (activeAfter c.faults (tr.take k) = [] →
      (stateAt c tr k).ws.capOf (stateAt c tr k).base = (stateAt c tr k).base * SC) := by
  have h := (effect_iff_active c tr k hwf hl).capB (stateAt c tr k).base
  refine ⟨h, fun hend => ?_⟩
  rw [h, hend]; simp [specCapB, prodOver]

/-- the configured capacity is what the model last set -/
theorem setcap_sets_base (c : Case) (tr : List Pop) (k t v : Nat) (hp : tr[k]? = some (.setcap t v)) :
    (stateAt c tr (k + 1)).base = v ∧ (stateAt c tr (k + 1)).ws = (stateAt c tr k).ws := by
  rw [stateAt_succ c tr k _ hp]
  have hb : (step c (stateAt c tr k) (.setcap t v)).1.base = v := by
    simp only [step, popEntity, stepOpen, St.setCap]
    split <;> simp [wake_base]
  exact ⟨hb, (frame_step c _ (.setcap t v) rfl).1⟩

/-- what "nothing happened to the workload" means for one step -/
structure Untouched (s s' : St) : Prop where
  pc : ∀ j, (s'.procs j).pc = (s.procs j).pc
  grants : ∀ j, (s'.procs j).grants = (s.procs j).grants
  emis : s'.emis = s.emis
  futs : s'.futs = s.futs
  avail : s'.avail = s.avail
  waiters : s'.waiters = s.waiters
  ws : s'.ws = s.ws

theorem untouched_dropPop (s : St) (p : Pop) : Untouched s (dropPop s p) := by
  cases p <;> (constructor <;> intros <;> try rfl)
  all_goals
    rename_i t j cont i
    by_cases h : i = j
    · subst h; simp [dropPop, St.setSt]
    · simp [dropPop, St.setSt, upd_other _ _ _ _ h]

/-- **crashed_executes_nothing** — an event (delivery of a job, continuation of an in-flight
    generator process, probe hop or probe delivery) whose target entity has an active crash or
    pause window when it is processed runs nothing: no activity token (no handler entry, no
    resumption, no emission), no process of any entity advances, nothing is emitted, no future,
    grant or resource waiter changes; the dropped process never resumes (`dropPop`). -/
theorem crashed_executes_nothing (c : Case) (tr : List Pop) (k : Nat) (p : Pop) (e : Nat)
    (hwf : WF c.faults tr) (hl : Legit c tr) (hp : tr[k]? = some p) (he : popEntity c p = some e)
    (hdown : ∃ f ∈ activeAfter c.faults (tr.take k), 0 < downC c.faults f e) :
    (step c (stateAt c tr k) p).2 = [] ∧
    stateAt c tr (k + 1) = dropPop (stateAt c tr k) p ∧
    Untouched (stateAt c tr k) (stateAt c tr (k + 1)) := by
  have hd : (stateAt c tr k).ws.down e = true := (down_iff_window_active c tr k hwf hl e).mpr hdown
  have hs : step c (stateAt c tr k) p = (dropPop (stateAt c tr k) p, []) := by
    simp [step, he, hd]
  rw [stateAt_succ c tr k p hp, hs]
  exact ⟨rfl, rfl, untouched_dropPop _ _⟩

/-- **no process of a down entity advances** — at *every* step at which an entity has an active
    crash or pause window, whatever event is processed (its own delivery or continuation, another
    entity resolving a future it is parked on, a grant being released to it, a fault event), the
    program counter of each of its jobs stays where it is -/
theorem no_process_of_down_entity_advances (c : Case) (tr : List Pop) (k i : Nat) (p : Pop)
    (hwf : WF c.faults tr) (hl : Legit c tr) (hp : tr[k]? = some p)
    (hdown : ∃ f ∈ activeAfter c.faults (tr.take k), 0 < downC c.faults f (c.job i).ent) :
    ((stateAt c tr (k + 1)).procs i).pc = ((stateAt c tr k).procs i).pc := by
  by_cases hj : popJob p = some i
  · cases p with
    | job t j cont =>
      have : j = i := by simpa [popJob] using hj
      subst this
      exact (crashed_executes_nothing c tr k _ _ hwf hl hp rfl hdown).2.2.pc j
    | _ => simp [popJob] at hj
  · rw [stateAt_succ c tr k p hp]
    exact process_advances_only_at_own_events c _ p i hj

/-- **others_ungated** — an event whose target has no active crash/pause window is handled exactly
    as by the fault-free engine (`stepOpen` never looks at the crash state), whatever windows are
    active on other entities -/
theorem others_ungated (c : Case) (tr : List Pop) (k : Nat) (p : Pop) (e : Nat)
    (hwf : WF c.faults tr) (hl : Legit c tr) (he : popEntity c p = some e)
    (hup : ∀ f ∈ activeAfter c.faults (tr.take k), downC c.faults f e = 0) :
    step c (stateAt c tr k) p = stepOpen c (stateAt c tr k) p := by
  have hd : (stateAt c tr k).ws.down e = false := by
    cases h : (stateAt c tr k).ws.down e with
    | false => rfl
    | true =>
      obtain ⟨f, hf, hpos⟩ := (down_iff_window_active c tr k hwf hl e).mp h
      have := hup f hf; omega
  simp [step, he, hd]

/-- **restart_resumes** — once every crash/pause window on an entity has ended, a job delivered to
    it is entered and an in-flight process of it whose wake-up is due resumes -/
theorem restart_resumes (c : Case) (tr : List Pop) (k t j : Nat) (cont : Bool)
    (hwf : WF c.faults tr) (hl : Legit c tr)
    (hup : ∀ f ∈ activeAfter c.faults (tr.take k), downC c.faults f (c.job j).ent = 0) :
    (cont = false → ((stateAt c tr k).procs j).st = .idle →
      ∃ rest, (step c (stateAt c tr k) (.job t j false)).2 = .enter :: rest) ∧
    (cont = true → (((stateAt c tr k).procs j).st = .sleeping t ∨ ((stateAt c tr k).procs j).st = .ready) →
      ∃ rest, (step c (stateAt c tr k) (.job t j true)).2 = .w ((stateAt c tr k).procs j).pc :: rest) := by
  constructor
  · intro _ hidle
    rw [others_ungated c tr k (.job t j false) _ hwf hl rfl hup]
    simp [stepOpen, hidle]
  · intro _ hst
    rw [others_ungated c tr k (.job t j true) _ hwf hl rfl hup]
    rcases hst with h | h <;> simp [stepOpen, h, resumeJob]

/-! ### cancelled faults -/

theorem not_mem_foldl_actStep (fs : List Fault) (f : Nat) : ∀ (tr : List Pop) (act : List Nat),
    (∀ t a, Pop.fault t f a ∉ tr) → f ∉ act → f ∉ tr.foldl (actStep fs) act
  | [], act, _, h => by simpa using h
  | p :: rest, act, hno, h => by
    simp only [List.foldl_cons]
    apply not_mem_foldl_actStep fs f rest
    · intro t a hm; exact hno t a (List.mem_cons_of_mem _ hm)
    · cases p with
      | fault t g a =>
        have hg : g ≠ f := fun hgf => hno t a (by rw [hgf]; exact List.mem_cons_self ..)
        cases a with
        | true => simp only [actStep, List.mem_cons, not_or]; exact ⟨fun h' => hg h'.symm, h⟩
        | false => simp only [actStep]; exact fun hm => h (List.mem_of_mem_erase hm)
      | healall t k => simp only [actStep]; exact fun hm => h (List.mem_filter.mp hm).1
      | _ => simpa [actStep] using h

theorem take_subset_no_fault {f : Nat} {tr : List Pop} (k : Nat)
    (hno : ∀ t a, Pop.fault t f a ∉ tr) : ∀ t a, Pop.fault t f a ∉ tr.take k :=
  fun t a hm => hno t a (List.mem_of_mem_take hm)

theorem kindOf_set_ne (fs : List Fault) (f x : Nat) (g : Fault) (h : x ≠ f) :
    kindOf (fs.set f g) x = kindOf fs x := by
  unfold kindOf
  rw [List.getElem?_set_ne (fun h' => h h'.symm)]

theorem sumOver_congr (act : List Nat) (g g' : Nat → Nat) (h : ∀ x ∈ act, g x = g' x) :
    sumOver act g = sumOver act g' := by
  unfold sumOver; rw [List.map_congr_left h]

theorem prodOver_congr (act : List Nat) (g g' : Nat → Nat) (h : ∀ x ∈ act, g x = g' x) :
    prodOver act g = prodOver act g' := by
  unfold prodOver; rw [List.map_congr_left h]

/-- **cancelled_fault_is_noop** — a fault whose events are never delivered (its handle was cancelled
    before activation) is never active, and every effective setting at every point of the run is
    what it would be if *any other fault* `g` stood in its place in the plan: the cancelled fault's
    kind, target, parameters and window have no effect at all. -/
theorem cancelled_fault_is_noop (c : Case) (tr : List Pop) (k f : Nat) (g : Fault)
    (hwf : WF c.faults tr) (hl : Legit c tr) (hno : ∀ t a, Pop.fault t f a ∉ tr) :
    f ∉ activeAfter c.faults (tr.take k) ∧
    (let c' := { c with faults := c.faults.set f g }
     ∀ e a b,
      (stateAt c tr k).ws.down e = decide (0 < specDown c'.faults (activeAfter c.faults (tr.take k)) e) ∧
      (stateAt c tr k).ws.blocked a b = specBlocked c'.faults (activeAfter c.faults (tr.take k)) a b ∧
      (stateAt c tr k).ws.latOf (c.baseLat a b) a b = specLat c' (activeAfter c.faults (tr.take k)) a b ∧
      (stateAt c tr k).ws.lossOf (c.baseLoss a b) a b = specLoss c' (activeAfter c.faults (tr.take k)) a b ∧
      (stateAt c tr k).ws.capOf c.cap = specCap c' (activeAfter c.faults (tr.take k))) := by
  have hna : f ∉ activeAfter c.faults (tr.take k) :=
    not_mem_foldl_actStep c.faults f _ [] (take_subset_no_fault k hno) (by simp)
  refine ⟨hna, ?_⟩
  intro c' e a b
  have h := effect_iff_active c tr k hwf hl
  have hne : ∀ x ∈ activeAfter c.faults (tr.take k), x ≠ f := fun x hx hxf => hna (hxf ▸ hx)
  have hk : ∀ x ∈ activeAfter c.faults (tr.take k), kindOf c'.faults x = kindOf c.faults x :=
    fun x hx => kindOf_set_ne c.faults f x g (hne x hx)
  refine ⟨?_, ?_, ?_, ?_, ?_⟩
  · rw [h.down e]; unfold specDown
    rw [sumOver_congr _ (downC c.faults · e) (downC c'.faults · e)
          (fun x hx => by simp only [downC, hk x hx])]
  · rw [h.blocked a b]; unfold specBlocked
    rw [sumOver_congr _ (biC c.faults · a b) (biC c'.faults · a b)
          (fun x hx => by simp only [biC, hk x hx]),
        sumOver_congr _ (dirC c.faults · a b) (dirC c'.faults · a b)
          (fun x hx => by simp only [dirC, hk x hx])]
  · rw [h.lat a b]; unfold specLat
    rw [sumOver_congr _ (latC c.faults · a b) (latC c'.faults · a b)
          (fun x hx => by simp only [latC, hk x hx])]
    rfl
  · rw [h.loss a b]; unfold specLoss
    rw [sumOver_congr _ (lossC c.faults · a b) (lossC c'.faults · a b)
          (fun x hx => by simp only [lossC, hk x hx])]
    rfl
  · rw [h.cap]; unfold specCap specCapB
    rw [prodOver_congr _ (capNum c.faults) (capNum c'.faults)
          (fun x hx => by simp only [capNum, hk x hx]),
        prodOver_congr _ (capDen c.faults) (capDen c'.faults)
          (fun x hx => by simp only [capDen, hk x hx])]

/-! ### the restart instant -/

theorem clear_of_down (fs : List Fault) (f e : Nat) (h : 0 < downC fs f e) (tr : List Pop) :
    Clear fs f tr := by
  intro hp
  exfalso
  unfold downC at h
  unfold isPartF at hp
  cases hk : kindOf fs f with
  | none => simp [hk] at h
  | some kd => cases kd <;> simp_all

/-- **up_from_restart_time** — "processing resumes from the restart time": when an event is
    processed at a time `t` that lies in none of the crash / pause windows `[s, r)` of an entity
    (`t < s`, or `r ≤ t` — in particular exactly at the restart instant `t = r`), the entity is up,
    provided the ends of its windows that are due by `t` come before this event in the schedule
    (fault boundaries first at their instant: `FaultSchedule.start` + C01) -/
theorem up_from_restart_time (c : Case) (tr : List Pop) (k : Nat) (p : Pop) (e : Nat)
    (hwf : WF c.faults tr) (hl : Legit c tr) (hs : Sorted tr) (hp : tr[k]? = some p)
    (hend : ∀ f ft, c.faults[f]? = some ft → 0 < downC c.faults f e →
      (∀ t, Pop.fault t f true ∈ tr → t = ft.s) ∧
      (∀ r', ft.r = some r' → r' ≤ p.time → Pop.fault r' f false ∈ tr.take k) ∧
      (p.time < ft.s ∨ ∃ r', ft.r = some r' ∧ r' ≤ p.time)) :
    (stateAt c tr k).ws.down e = false := by
  cases h : (stateAt c tr k).ws.down e with
  | false => rfl
  | true =>
    exfalso
    obtain ⟨f, hf, hpos⟩ := (down_iff_window_active c tr k hwf hl e).mp h
    have hex : ∃ ft, c.faults[f]? = some ft := by
      cases hx : c.faults[f]? with
      | none => simp [downC, kindOf, hx] at hpos
      | some ft => exact ⟨ft, rfl⟩
    obtain ⟨ft, hx⟩ := hex
    obtain ⟨h1, h2, h3⟩ := hend f ft hx hpos
    have hin := in_window_of_active c.faults tr k p f ft.s ft.r hwf hs
      (clear_of_down c.faults f e hpos tr) hp h1 h2 hf
    rcases h3 with h3 | ⟨r', hr', hle⟩
    · omega
    · have := hin.2 r' hr'; omega

/-- … so a job delivered at the restart instant (or any later time outside the windows) is entered -/
theorem delivery_at_restart_time_runs (c : Case) (tr : List Pop) (k t j : Nat)
    (hwf : WF c.faults tr) (hl : Legit c tr) (hs : Sorted tr) (hp : tr[k]? = some (.job t j false))
    (hidle : ((stateAt c tr k).procs j).st = .idle)
    (hend : ∀ f ft, c.faults[f]? = some ft → 0 < downC c.faults f (c.job j).ent →
      (∀ t', Pop.fault t' f true ∈ tr → t' = ft.s) ∧
      (∀ r', ft.r = some r' → r' ≤ t → Pop.fault r' f false ∈ tr.take k) ∧
      (t < ft.s ∨ ∃ r', ft.r = some r' ∧ r' ≤ t)) :
    ∃ rest, (step c (stateAt c tr k) (.job t j false)).2 = .enter :: rest := by
  have hup := up_from_restart_time c tr k (.job t j false) (c.job j).ent hwf hl hs hp hend
  simp [step, popEntity, hup, stepOpen, hidle]

/-! ### cancelling at any point of a fault's life -/

/-- **cancel_before_activation_prevents** — "cancelling a fault handle before activation prevents
    the fault entirely": if the handle of fault `f` is cancelled by the `i`-th processed event and no
    event of `f` was processed before, then no event of `f` is ever processed and `f` is never active
    (so, by `cancelled_fault_is_noop`, every effective setting at every point of the run is what it
    would be with any other fault in its place).  Likewise for a handle cancelled before the run
    starts — before or after the `Simulation` was built (`Case.initCanc`). -/
theorem cancel_before_activation_prevents (c : Case) (tr : List Pop) (i t f : Nat) (hl : Legit c tr)
    (hc : tr[i]? = some (.cancel t f) ∨ f ∈ c.initCanc)
    (hbefore : ∀ t' a, Pop.fault t' f a ∉ tr.take i) :
    (∀ t' a, Pop.fault t' f a ∉ tr) ∧ ∀ k, f ∉ activeAfter c.faults (tr.take k) := by
  have hno : ∀ t' a, Pop.fault t' f a ∉ tr := by
    rcases hc with hc | hc
    · intro t' a hm
      have hafter := legit_after_cancel c t f tr c.initCanc i hl.2 hc t' a
      rw [← List.take_append_drop (i + 1) tr] at hm
      rcases List.mem_append.mp hm with h | h
      · rw [List.take_add_one, hc] at h
        rcases List.mem_append.mp h with h | h
        · exact hbefore t' a h
        · simp at h
      · exact hafter h
    · exact legit_no_fault_of_canc c f tr _ hl.2 hc
  exact ⟨hno, fun k => not_mem_foldl_actStep c.faults f _ [] (take_subset_no_fault k hno) (by simp)⟩

/-- **cancel_is_silent** — the call of `FaultHandle.cancel()` itself changes no setting and no
    window: a handle cancelled while its window is active leaves the window as it is (its end never
    comes: `Legit`), a handle cancelled after the window ended changes nothing at all -/
theorem cancel_is_silent (c : Case) (tr : List Pop) (k t f : Nat) (hp : tr[k]? = some (.cancel t f)) :
    (stateAt c tr (k + 1)).ws = (stateAt c tr k).ws ∧
    activeAfter c.faults (tr.take (k + 1)) = activeAfter c.faults (tr.take k) := by
  refine ⟨?_, ?_⟩
  · rw [stateAt_succ c tr k _ hp, step_cancel]
  · rw [activeAfter_succ c.faults tr k _ hp]; rfl

/-! ### direct calls of the Network's partition API between the scheduled windows -/

/-- **heal_all_ends_every_partition** — `heal_partition()` on network `k` unblocks every direction
    of that network, ends exactly the partition windows of that network that are open (scheduled and
    manual), and leaves the other networks' partitions, crash state, latency, loss and capacity as
    they are -/
theorem heal_all_ends_every_partition (c : Case) (tr : List Pop) (k t net : Nat)
    (hp : tr[k]? = some (.healall t net)) :
    (∀ a b, netOf a = net → (stateAt c tr (k + 1)).ws.blocked a b = false) ∧
    (∀ a b, netOf a ≠ net →
      (stateAt c tr (k + 1)).ws.blocked a b = (stateAt c tr k).ws.blocked a b) ∧
    (∀ e, (stateAt c tr (k + 1)).ws.down e = (stateAt c tr k).ws.down e) ∧
    (∀ base a b, (stateAt c tr (k + 1)).ws.latOf base a b = (stateAt c tr k).ws.latOf base a b) ∧
    (∀ base a b, (stateAt c tr (k + 1)).ws.lossOf base a b = (stateAt c tr k).ws.lossOf base a b) ∧
    (∀ cap, (stateAt c tr (k + 1)).ws.capOf cap = (stateAt c tr k).ws.capOf cap) ∧
    activeAfter c.faults (tr.take (k + 1)) =
      (activeAfter c.faults (tr.take k)).filter (fun f => !partOnF c.faults net f) := by
  rw [stateAt_succ c tr k _ hp, step_healall, activeAfter_succ c.faults tr k _ hp]
  refine ⟨fun a b ha => ?_, fun a b ha => ?_, fun e => rfl, fun _ a b => rfl, fun _ a b => rfl,
    fun _ => rfl, rfl⟩
  · simp [WS.healAll, WS.blocked, ha]
  · simp [WS.healAll, WS.blocked, ha]

/-- **stale_heal_is_noop** — the end of a window that is not active any more (a second
    `Partition.heal()` on the same handle, a `heal()` or the scheduled end of a `NetworkPartition`
    after `Network.heal_partition()` swept it) leaves the whole window state as it is: it cannot
    take away the reference another, still active partition holds on the same pair -/
theorem stale_heal_is_noop (c : Case) (tr : List Pop) (k t f : Nat) (hwf : WF c.faults tr)
    (hl : Legit c tr) (hp : tr[k]? = some (.fault t f false))
    (hna : f ∉ activeAfter c.faults (tr.take k)) :
    (stateAt c tr (k + 1)).ws = (stateAt c tr k).ws ∧
    activeAfter c.faults (tr.take (k + 1)) = activeAfter c.faults (tr.take k) := by
  have hact : activeAfter c.faults (tr.take (k + 1)) = activeAfter c.faults (tr.take k) := by
    rw [activeAfter_succ c.faults tr k _ hp]; exact List.erase_of_not_mem hna
  refine ⟨?_, hact⟩
  have h1 := inv_at c tr (k + 1) hwf hl
  rw [hact] at h1
  exact winv_unique c.faults _ _ _ h1 (inv_at c tr k hwf hl)

/-! ### non-vacuity: a concrete plan with overlapping windows of every kind satisfies the hypotheses,
and the conclusions say something about it -/

instance (fs : List Fault) (tr : List Pop) : Decidable (WF fs tr) := by unfold WF; exact inferInstance
instance (c : Case) (tr : List Pop) : Decidable (Legit c tr) := by unfold Legit; exact inferInstance

/-- crash [100, 800) ⊃ pause [200, 300) on worker 0; two partitions {0}|{1} [100,500) ⊃ [200,300);
    two latency windows on 0→1; one capacity window; one cancelled loss fault (index 7) -/
def exCase : Case :=
  { n := 2, cap := 8, links := [⟨0, 1, 10, 0⟩, ⟨1, 0, 10, 0⟩],
    faults := [⟨.crash 0, 100, some 800, false, false, 0⟩, ⟨.pause 0, 200, some 300, false, false, 0⟩,
               ⟨.part false [0] [1], 100, some 500, false, false, 0⟩, ⟨.part false [0] [1], 200, some 300, false, false, 0⟩,
               ⟨.lat 0 1 5, 100, some 500, false, false, 0⟩, ⟨.lat 0 1 7, 200, some 300, false, false, 0⟩,
               ⟨.cap 1 2, 100, some 500, false, false, 0⟩, ⟨.loss 0 1 1024, 50, some 60, true, false, 0⟩],
    jobs := [⟨0, [.sleep 150, .emit 10]⟩, ⟨1, [.sleep 5]⟩, ⟨0, [.sleep 1]⟩],
    probes := [⟨0, 1, 0⟩, ⟨1, 0, 0⟩] }

def exTr : List Pop :=
  [.job 0 0 false, .fault 100 0 true, .fault 100 2 true, .fault 100 4 true, .fault 100 6 true,
   .job 150 0 true,                                   -- 5: in-flight process of the crashed worker
   .job 160 1 false,                                  -- 6: bystander
   .fault 200 1 true, .fault 200 3 true, .fault 200 5 true,
   .fault 300 1 false, .fault 300 3 false, .fault 300 5 false,
   .nsend 350 0,                                      -- 13: probe while one partition is still active
   .fault 500 2 false, .fault 500 4 false, .fault 500 6 false,
   .nsend 600 1, .nhop 610 1, .recv 610 1,            -- 19: delivery to the still crashed worker
   .fault 800 0 false,
   .job 900 2 false]                                  -- 21: after the restart

example : WF exCase.faults exTr ∧ Legit exCase exTr := by decide

/-- hypotheses of `crashed_executes_nothing` hold at step 5 (process in flight) and step 19
    (delivery), and at step 13 the pause has ended but the crash has not -/
example :
    (∃ f ∈ activeAfter exCase.faults (exTr.take 5), 0 < downC exCase.faults f 0) ∧
    (∃ f ∈ activeAfter exCase.faults (exTr.take 19), 0 < downC exCase.faults f 0) ∧
    activeAfter exCase.faults (exTr.take 13) = [6, 4, 2, 0] ∧
    activeAfter exCase.faults (exTr.take 10) = [5, 3, 1, 6, 4, 2, 0] := by decide

/-- the conclusions are not trivial: the run reaches states with stacked settings, and the process
    in flight (job 0, suspended in op 0) is not resumed at step 5 while the bystander runs -/
example :
    specLat exCase (activeAfter exCase.faults (exTr.take 10)) 0 1 = 22 ∧
    specLat exCase (activeAfter exCase.faults (exTr.take 13)) 0 1 = 15 ∧
    specBlocked exCase.faults (activeAfter exCase.faults (exTr.take 13)) 0 1 = true ∧
    specCap exCase (activeAfter exCase.faults (exTr.take 13)) = 4 * SC ∧
    specDown exCase.faults (activeAfter exCase.faults (exTr.take 13)) 0 = 1 ∧
    (step exCase (stateAt exCase exTr 5) (.job 150 0 true)).2 = [] ∧
    (step exCase (stateAt exCase exTr 6) (.job 160 1 false)).2 = [.enter] ∧
    (step exCase (stateAt exCase exTr 13) (.nsend 350 0)).2 = [.part] ∧
    (step exCase (stateAt exCase exTr 19) (.recv 610 1)).2 = [] := by decide

set_option maxRecDepth 8192 in
/-- hypotheses of `all_ended_restores_base`, `restart_resumes`, `others_ungated` (step 6: worker 1
    has no window while worker 0 is crashed) and `cancelled_fault_is_noop` (fault 7) hold -/
example :
    activeAfter exCase.faults (exTr.take 21) = [] ∧
    ((stateAt exCase exTr 21).procs 2).st = .idle ∧
    (∀ f ∈ activeAfter exCase.faults (exTr.take 6), downC exCase.faults f 1 = 0) ∧
    (step exCase (stateAt exCase exTr 21) (.job 900 2 false)).2 = [.enter] ∧
    (∀ p ∈ exTr, ∀ t a, p ≠ Pop.fault t 7 a) := by
  refine ⟨by decide, by decide, by decide, by decide, ?_⟩
  intro p hp t a
  simp only [exTr, List.mem_cons, List.not_mem_nil, or_false] at hp
  rcases hp with h | h | h | h | h | h | h | h | h | h | h | h | h | h | h | h | h | h | h | h | h | h <;>
    subst h <;> simp

instance (tr : List Pop) : Decidable (Sorted tr) := by unfold Sorted; exact inferInstance

/-- hypotheses of `active_of_inside` / `inside_of_active` hold for the example schedule: it is
    time-ordered, and at step 13 (time 350) the crash window (100, 800) is strictly around it -/
example :
    Sorted exTr ∧ exTr[13]? = some (.nsend 350 0) ∧ Pop.fault 100 0 true ∈ exTr ∧
    Pop.fault 800 0 false ∈ exTr ∧ 0 ∈ activeAfter exCase.faults (exTr.take 13) := by decide

/-! ### non-vacuity of the handle / manual-call theorems -/

/-- scheduled partition {0}|{1} [100, 400) (fault 0); a manual `Network.partition([0],[1])` at 300
    (window 1), healed at 460 and again at 470; latency fault 2 whose handle is cancelled at 50, before
    its start at 100; crash fault 3 whose handle is cancelled before the run; latency fault 4
    [100, 500) whose handle is cancelled at 250, inside its window -/
def exCase2 : Case :=
  { n := 2, cap := 8, links := [⟨0, 1, 10, 0⟩, ⟨1, 0, 10, 0⟩],
    faults := [⟨.part false [0] [1], 100, some 400, false, false, 0⟩,
               ⟨.part false [0] [1], 300, none, false, true, 0⟩,
               ⟨.lat 0 1 5, 100, some 500, false, false, 0⟩,
               ⟨.crash 0, 100, some 800, true, false, 0⟩,
               ⟨.lat 0 1 7, 100, some 500, false, false, 0⟩],
    probes := [⟨0, 1, 0⟩] }

def exTr2 : List Pop :=
  [.cancel 50 2,                -- 0: before activation
   .fault 100 0 true, .fault 100 4 true,
     .healall 200 0,                -- 3: sweeps window 0, leaves the latency window
   .cancel 250 4,               -- 4: inside the window: it never ends
   .fault 300 1 true,           -- 5: manual partition on the same pair
   .fault 400 0 false,          -- 6: scheduled end of the swept window: stale
   .nsend 450 0,                -- 7: still blocked by window 1
   .fault 460 1 false,          -- 8
   .fault 470 1 false]          -- 9: repeated heal: stale

example : WF exCase2.faults exTr2 ∧ Legit exCase2 exTr2 ∧ exCase2.initCanc = [3] := by decide

/-- hypotheses of `cancel_before_activation_prevents` (fault 2 at event 0, fault 3 before the run),
    `cancel_is_silent` (events 0 and 4), `heal_all_ends_every_partition` (event 3) and
    `stale_heal_is_noop` (events 6 and 9) hold, and the conclusions are not trivial: the heal-all ends
    window 0 but not the latency window 4, the stale end at event 6 leaves the pair blocked by the
    manual window 1, and the window cancelled inside stays -/
example :
    exTr2[0]? = some (.cancel 50 2) ∧ (∀ t' a, Pop.fault t' 2 a ∉ exTr2.take 0) ∧
    exTr2[3]? = some (.healall 200 0) ∧
    activeAfter exCase2.faults (exTr2.take 3) = [4, 0] ∧
    activeAfter exCase2.faults (exTr2.take 4) = [4] ∧
    exTr2[6]? = some (.fault 400 0 false) ∧ 0 ∉ activeAfter exCase2.faults (exTr2.take 6) ∧
    activeAfter exCase2.faults (exTr2.take 7) = [1, 4] ∧
    specBlocked exCase2.faults (activeAfter exCase2.faults (exTr2.take 7)) 0 1 = true ∧
    (step exCase2 (stateAt exCase2 exTr2 7) (.nsend 450 0)).2 = [.part] ∧
    exTr2[9]? = some (.fault 470 1 false) ∧ 1 ∉ activeAfter exCase2.faults (exTr2.take 9) ∧
    activeAfter exCase2.faults (exTr2.take 10) = [4] ∧
    specLat exCase2 (activeAfter exCase2.faults (exTr2.take 10)) 0 1 = 17 := by
  refine ⟨by decide, by simp, by decide, by decide, by decide, by decide, by decide, by decide,
    by decide, by decide, by decide, by decide, by decide, by decide⟩

/-! ### non-vacuity of the restart-instant theorems -/

/-- `exCase` with only its crash [100, 800) on worker 0 taking part: a job is delivered to worker 0
    exactly at the restart instant 800, after the restart event of that instant -/
def exTr3 : List Pop := [.fault 100 0 true, .job 150 0 false, .fault 800 0 false, .job 800 2 false]

example : WF exCase.faults exTr3 ∧ Legit exCase exTr3 ∧ Sorted exTr3 ∧
    exTr3[3]? = some (.job 800 2 false) ∧ ((stateAt exCase exTr3 3).procs 2).st = .idle ∧
    Pop.fault 800 0 false ∈ exTr3.take 3 ∧ 0 < downC exCase.faults 0 (exCase.job 2).ent ∧
    (step exCase (stateAt exCase exTr3 1) (.job 150 0 false)).2 = [] ∧
    (step exCase (stateAt exCase exTr3 3) (.job 800 2 false)).2 = [.enter] := by decide

end HappyModel.C06
