/-! Small list lemmas used by the C06 window-algebra proofs (core Lean only). -/
set_option linter.unusedSimpArgs false
namespace HappyModel.C06

theorem le_sum_map_of_mem (g : Nat → Nat) : ∀ (l : List Nat) (f : Nat), f ∈ l → g f ≤ (l.map g).sum
  | x :: xs, f, h => by
    simp only [List.map_cons, List.sum_cons]
    rcases List.mem_cons.mp h with rfl | h
    · omega
    · have := le_sum_map_of_mem g xs f h; omega

/-- removing one occurrence of an active window removes exactly its contribution -/
theorem sum_map_erase (g : Nat → Nat) : ∀ (l : List Nat) (f : Nat), f ∈ l →
    ((l.erase f).map g).sum = (l.map g).sum - g f
  | x :: xs, f, h => by
    by_cases hx : x = f
    · subst hx; simp
    · have hf : f ∈ xs := by
        rcases List.mem_cons.mp h with rfl | h
        · exact absurd rfl hx
        · exact h
      have ih := sum_map_erase g xs f hf
      have hle := le_sum_map_of_mem g xs f hf
      rw [List.erase_cons_tail (by simpa using hx)]
      simp only [List.map_cons, List.sum_cons, ih]
      omega

theorem sum_map_erase_zero (g : Nat → Nat) (l : List Nat) (f : Nat) (h : f ∈ l) (hz : g f = 0) :
    ((l.erase f).map g).sum = (l.map g).sum := by
  rw [sum_map_erase g l f h, hz]; rfl

theorem prod_map_erase_one (g : Nat → Nat) : ∀ (l : List Nat) (f : Nat), g f = 1 →
    ((l.erase f).map g).foldr (· * ·) 1 = (l.map g).foldr (· * ·) 1
  | [], _, _ => rfl
  | x :: xs, f, h => by
    by_cases hx : x = f
    · subst hx; simp [h]
    · rw [List.erase_cons_tail (by simpa using hx)]
      simp only [List.map_cons, List.foldr_cons, prod_map_erase_one g xs f h]

theorem mem_filterMap_fid {β} (fid : β → Nat) (L : Nat → Option β)
    (hL : ∀ g y, L g = some y → fid y = g) (l : List Nat) (y : β) (h : y ∈ l.filterMap L) :
    fid y ∈ l := by
  obtain ⟨g, hg, hy⟩ := List.mem_filterMap.mp h
  rw [hL g y hy]; exact hg

/-- a window that ends takes out its own layer only, wherever it sits in the stack -/
theorem filterMap_erase {β} (fid : β → Nat) (L : Nat → Option β)
    (hL : ∀ g y, L g = some y → fid y = g) : ∀ (l : List Nat) (f : Nat), l.Nodup →
    (l.erase f).filterMap L = (l.filterMap L).filter (fun y => fid y != f)
  | [], _, _ => rfl
  | x :: xs, f, nd => by
    have hx : x ∉ xs := (List.nodup_cons.mp nd).1
    have nd' : xs.Nodup := (List.nodup_cons.mp nd).2
    by_cases hxf : x = f
    · subst hxf
      have keep : (xs.filterMap L).filter (fun y => fid y != x) = xs.filterMap L := by
        apply List.filter_eq_self.mpr
        intro y hy
        have := mem_filterMap_fid fid L hL xs y hy
        have hne : fid y ≠ x := fun h => hx (h ▸ this)
        simpa using hne
      simp only [List.erase_cons_head]
      cases hLx : L x with
      | none => simp [List.filterMap_cons, hLx, keep]
      | some y =>
        have : fid y = x := hL x y hLx
        simp [List.filterMap_cons, hLx, keep, this]
    · rw [List.erase_cons_tail (by simpa using hxf)]
      have ih := filterMap_erase fid L hL xs f nd'
      cases hLx : L x with
      | none => simp [List.filterMap_cons, hLx, ih]
      | some y =>
        have hy : fid y = x := hL x y hLx
        have : (fid y != f) = true := by simpa [hy] using hxf
        simp [List.filterMap_cons, hLx, ih, List.filter_cons, this]

theorem filterMap_erase_none {β} (L : Nat → Option β) : ∀ (l : List Nat) (f : Nat), L f = none →
    (l.erase f).filterMap L = l.filterMap L
  | [], _, _ => rfl
  | x :: xs, f, h => by
    by_cases hxf : x = f
    · subst hxf; simp [List.filterMap_cons, h]
    · rw [List.erase_cons_tail (by simpa using hxf)]
      simp [List.filterMap_cons, filterMap_erase_none L xs f h]

theorem filter_erase_false (p : Nat → Bool) : ∀ (l : List Nat) (f : Nat), p f = false →
    (l.erase f).filter p = l.filter p
  | [], _, _ => rfl
  | x :: xs, f, h => by
    by_cases hx : x = f
    · subst hx; simp [List.filter_cons, h]
    · rw [List.erase_cons_tail (by simpa using hx)]
      simp [List.filter_cons, filter_erase_false p xs f h]

theorem filter_erase_true (p : Nat → Bool) : ∀ (l : List Nat) (f : Nat), p f = true →
    (l.erase f).filter p = (l.filter p).erase f
  | [], _, _ => rfl
  | x :: xs, f, h => by
    by_cases hx : x = f
    · subst hx; simp [List.filter_cons, h]
    · rw [List.erase_cons_tail (by simpa using hx)]
      have ih := filter_erase_true p xs f h
      by_cases hp : p x = true
      · have hxf : (x == f) = false := by simpa using hx
        simp [List.filter_cons, hp, List.erase_cons_tail, hxf, ih]
      · simp [List.filter_cons, hp, ih]

/-- dropping elements that contribute nothing does not change a sum -/
theorem sum_map_filter_zero (g : Nat → Nat) (p : Nat → Bool) (hz : ∀ x, p x = false → g x = 0) :
    ∀ l : List Nat, ((l.filter p).map g).sum = (l.map g).sum
  | [] => rfl
  | x :: xs => by
    have ih := sum_map_filter_zero g p hz xs
    by_cases hp : p x = true
    · simp [List.filter_cons, hp, ih]
    · have : g x = 0 := hz x (by simpa using hp)
      simp [List.filter_cons, hp, ih, this]

theorem sum_map_zero (g : Nat → Nat) : ∀ l : List Nat, (∀ x ∈ l, g x = 0) → (l.map g).sum = 0
  | [], _ => rfl
  | x :: xs, h => by
    simp [h x (List.mem_cons_self ..), sum_map_zero g xs (fun y hy => h y (List.mem_cons_of_mem _ hy))]

theorem filterMap_filter_none {β} (L : Nat → Option β) (p : Nat → Bool)
    (hz : ∀ x, p x = false → L x = none) : ∀ l : List Nat, (l.filter p).filterMap L = l.filterMap L
  | [] => rfl
  | x :: xs => by
    have ih := filterMap_filter_none L p hz xs
    by_cases hp : p x = true
    · simp [List.filter_cons, hp, List.filterMap_cons, ih]
    · have : L x = none := hz x (by simpa using hp)
      simp [List.filter_cons, hp, List.filterMap_cons, ih, this]

theorem nodup_erase {l : List Nat} (f : Nat) (h : l.Nodup) : (l.erase f).Nodup :=
  List.Nodup.sublist List.erase_sublist h

end HappyModel.C06
