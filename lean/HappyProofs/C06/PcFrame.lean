import HappyModel.C06.Engine
/-! A process advances only when its *own* delivery / continuation is processed: whatever any other
event does (resolving futures, releasing grants, waking waiters, fault events), the program counter
of every other job stays where it is. -/
set_option linter.unusedSimpArgs false
namespace HappyModel.C06

/-- program counters of all jobs except `j` are unchanged -/
def PcExcept (j : Option Nat) (s s' : St) : Prop :=
  ∀ i, some i ≠ j → (s'.procs i).pc = (s.procs i).pc

theorem PcExcept.refl (j) (s : St) : PcExcept j s s := fun _ _ => rfl
theorem PcExcept.trans {j} {a b c : St} (h1 : PcExcept j a b) (h2 : PcExcept j b c) : PcExcept j a c :=
  fun i hi => (h2 i hi).trans (h1 i hi)
theorem PcExcept.weaken {j} {a b : St} (h : PcExcept none a b) : PcExcept j a b :=
  fun i _ => h i (by simp)

theorem pc_setSt (s : St) (p : Nat) (st : Status) : PcExcept none s (s.setSt p st) := by
  intro i _
  by_cases h : i = p
  · subst h; simp [St.setSt]
  · simp [St.setSt, upd_other _ _ _ _ h]

theorem pc_resolve (s : St) (f : Nat) : PcExcept none s (s.resolve f) := by
  unfold St.resolve
  split
  · exact PcExcept.refl _ s
  · split
    · rename_i p _
      intro i hi
      have := pc_setSt { s with futs := upd s.futs f { resolved := true, parked := none } } p .ready i hi
      simpa using this
    · intro i _; rfl

theorem pc_wake : ∀ (l : List (Nat × Nat)) (s : St), PcExcept none s (s.wake l)
  | [], s => fun _ _ => rfl
  | (j, a) :: rest, s => by
    unfold St.wake
    split
    · refine PcExcept.trans ?_ (pc_wake rest _)
      intro i _
      by_cases h : i = j
      · subst h; simp
      · simp [upd_other _ _ _ _ h]
    · intro i _; rfl

theorem pc_suspend (s : St) (j k : Nat) (st : Status) : PcExcept (some j) s (s.suspend j k st) := by
  intro i hi
  have : i ≠ j := fun h => hi (by rw [h])
  simp [St.suspend, upd_other _ _ _ _ this]

theorem pc_exec (c : Case) (j now : Nat) : ∀ (ops : List Op) (k : Nat) (s : St),
    PcExcept (some j) s (exec c j now ops k s).1
  | [], k, s => by simp only [exec]; exact (pc_setSt s j .done).weaken
  | op :: rest, k, s => by
    cases op with
    | sleep d => simp only [exec]; exact pc_suspend _ _ _ _
    | emit d =>
      simp only [exec]
      intro i hi; exact pc_suspend s j k _ i hi
    | wait f =>
      simp only [exec]
      split
      · exact pc_suspend _ _ _ _
      · intro i hi; exact pc_suspend s j k _ i hi
    | res f =>
      simp only [exec]
      exact PcExcept.trans (pc_resolve s f).weaken (pc_exec c j now rest (k + 1) _)
    | acq a =>
      simp only [exec]
      split
      · exact pc_exec c j now rest (k + 1) s
      · split
        · intro i hi
          have : i ≠ j := fun h => hi (by rw [h])
          simp [upd_other _ _ _ _ this]
        · intro i hi; exact pc_suspend s j k _ i hi
    | rel =>
      simp only [exec]
      split
      · exact pc_exec c j now rest (k + 1) s
      · rename_i g gs _
        have h1 : PcExcept (some j) s
            { s with avail := s.avail + (g * SC : Nat),
                     procs := upd s.procs j { s.procs j with grants := gs } } := by
          intro i hi
          have : i ≠ j := fun h => hi (by rw [h])
          simp [upd_other _ _ _ _ this]
        exact PcExcept.trans (PcExcept.trans h1 (pc_wake s.waiters _).weaken)
          (pc_exec c j now rest (k + 1) _)

def popJob : Pop → Option Nat
  | .job _ j _ => some j
  | _ => none

theorem pc_setCap (s : St) (o n : Nat) : PcExcept none s (s.setCap o n) := by
  unfold St.setCap
  simp only []
  split
  · exact PcExcept.trans (fun _ _ => rfl) (pc_wake _ _)
  · intro i _; rfl

theorem pc_stepOpen (c : Case) (s : St) (p : Pop) : PcExcept (popJob p) s (stepOpen c s p).1 := by
  cases p with
  | fault t f a =>
    simp only [stepOpen, faultPop]
    split
    · exact PcExcept.refl _ s
    · split
      · exact PcExcept.refl _ s
      · exact (PcExcept.trans (fun _ _ => rfl) (pc_setCap _ _ _)).weaken
  | cancel t f => intro i _; rfl
  | healall t k => intro i _; rfl
  | setcap t v =>
    simp only [stepOpen]
    exact (PcExcept.trans (fun _ _ => rfl) (pc_setCap _ _ _)).weaken
  | job t j cont =>
    cases cont with
    | false =>
      simp only [stepOpen, popJob]
      split
      · exact pc_exec c j t _ _ _
      · exact PcExcept.refl _ s
    | true =>
      have hres : PcExcept (some j) s (resumeJob c s t j).1 := by
        unfold resumeJob
        simp only []
        refine PcExcept.trans ?_ (pc_exec c j t _ _ _)
        split
        · intro i hi
          have : i ≠ j := fun h => hi (by rw [h])
          simp [upd_other _ _ _ _ this]
        · exact PcExcept.refl _ s
      simp only [stepOpen, popJob]
      split
      · split
        · exact hres
        · exact PcExcept.refl _ s
      · exact hres
      · exact PcExcept.refl _ s
  | sink t j k => simp only [stepOpen]; split <;> (intro i _; rfl)
  | nsend t p =>
    simp only [stepOpen]
    split
    · exact PcExcept.refl _ s
    · split
      · intro i _; rfl
      · split <;> (intro i _; rfl)
  | nhop t p => simp only [stepOpen]; split <;> (intro i _; rfl)
  | recv t p => simp only [stepOpen]; split <;> (intro i _; rfl)

theorem pc_dropPop (s : St) (p : Pop) : PcExcept none s (dropPop s p) := by
  cases p with
  | job t j cont => exact pc_setSt s j .dead
  | _ => intro i _; rfl

/-- **a process advances only at its own events**: processing any event leaves the program counter
    of every job other than the one the event belongs to unchanged -/
theorem process_advances_only_at_own_events (c : Case) (s : St) (p : Pop) (i : Nat)
    (h : popJob p ≠ some i) : ((step c s p).1.procs i).pc = (s.procs i).pc := by
  have hi : some i ≠ popJob p := fun h' => h h'.symm
  unfold step
  split
  · split
    · exact pc_dropPop s p i (by simp)
    · exact pc_stepOpen c s p i hi
  · exact pc_stepOpen c s p i hi

end HappyModel.C06
