import HappyModel.C06.Spec
import HappyProofs.C06.WindowInv
/-!
"Active at step k" (activated and not yet deactivated among the first k processed events) read as a
*time window*: in a schedule ordered by time, a window whose activation was processed at time `s`
and whose deactivation is processed at time `r` is active at every step whose time lies strictly
between `s` and `r`, and only at steps whose time lies in `[s, r]` (at the two boundary instants the
engine's tie order decides, which is C01's subject).  For a partition window this is stated for
schedules in which no `Network.heal_partition()` call cuts windows short (`Clear`).
-/
set_option linter.unusedSimpArgs false
namespace HappyModel.C06

def ActIn (f : Nat) (l : List Pop) : Prop := ∃ t, Pop.fault t f true ∈ l
def NoDeact (f : Nat) (l : List Pop) : Prop := ∀ t, Pop.fault t f false ∉ l

/-- no `Network.heal_partition()` call can end window `f` early (vacuous unless `f` is a partition) -/
def Clear (fs : List Fault) (f : Nat) (l : List Pop) : Prop :=
  isPartF fs f = true → ∀ t k, Pop.healall t k ∉ l

theorem clear_tail {fs : List Fault} {f : Nat} {p : Pop} {rest : List Pop}
    (h : Clear fs f (p :: rest)) : Clear fs f rest :=
  fun hp t k hm => h hp t k (List.mem_cons_of_mem _ hm)

theorem mem_active_iff (fs : List Fault) (f : Nat) : ∀ (l : List Pop) (ever act : List Nat),
    wfFrom fs ever act l = true → (∀ x, x ∈ act → x ∈ ever) → act.Nodup → Clear fs f l →
    (f ∈ l.foldl (actStep fs) act ↔
      (f ∈ act ∧ NoDeact f l) ∨ (f ∉ ever ∧ ActIn f l ∧ NoDeact f l))
  | [], ever, act, _, hsub, _, _ => by
    simp only [List.foldl_nil, NoDeact, ActIn, List.not_mem_nil, not_false_eq_true, implies_true,
      and_true, exists_false, false_and, and_false, or_false]
  | p :: rest, ever, act, hwf, hsub, nd, hcl => by
    have hcl' := clear_tail hcl
    cases p with
    | fault t g a =>
      cases a with
      | true =>
        simp only [wfFrom, Bool.and_eq_true, Bool.not_eq_true', List.contains_eq_mem,
          decide_eq_false_iff_not] at hwf
        obtain ⟨hg, hrest⟩ := hwf
        have ih := mem_active_iff fs f rest (g :: ever) (g :: act) hrest
          (fun x hx => by
            rcases List.mem_cons.mp hx with rfl | hx
            · exact List.mem_cons_self ..
            · exact List.mem_cons_of_mem _ (hsub x hx))
          (List.nodup_cons.mpr ⟨fun hm => hg (hsub g hm), nd⟩) hcl'
        simp only [List.foldl_cons, actStep]
        rw [ih]
        have nd1 : NoDeact f (Pop.fault t g true :: rest) ↔ NoDeact f rest := by
          simp [NoDeact]
        by_cases hfg : f = g
        · subst hfg
          have : f ∉ act := fun hm => hg (hsub f hm)
          have a1 : ActIn f (Pop.fault t f true :: rest) := ⟨t, List.mem_cons_self ..⟩
          simp [nd1, this, hg, a1]
        · have a1 : ActIn f (Pop.fault t g true :: rest) ↔ ActIn f rest := by
            simp only [ActIn, List.mem_cons, Pop.fault.injEq, and_true]
            constructor
            · rintro ⟨t', h | h⟩
              · exact absurd h.2 hfg
              · exact ⟨t', h⟩
            · rintro ⟨t', h⟩; exact ⟨t', Or.inr h⟩
          simp [nd1, a1, hfg]
      | false =>
        simp only [wfFrom, Bool.and_eq_true, Bool.or_eq_true, List.contains_eq_mem,
          decide_eq_true_eq] at hwf
        obtain ⟨hg, hrest⟩ := hwf
        have hgev : g ∈ ever := by
          rcases hg with h | h
          · exact hsub g h
          · exact h.2
        have ih := mem_active_iff fs f rest ever (act.erase g) hrest
          (fun x hx => hsub x (List.mem_of_mem_erase hx))
          (List.Nodup.sublist List.erase_sublist nd) hcl'
        simp only [List.foldl_cons, actStep]
        rw [ih]
        by_cases hfg : f = g
        · subst hfg
          have h1 : f ∉ act.erase f := List.Nodup.not_mem_erase nd
          have h2 : ¬ NoDeact f (Pop.fault t f false :: rest) := fun h => h t (List.mem_cons_self ..)
          have h3 : f ∈ ever := hgev
          simp [h1, h2, h3]
        · have nd1 : NoDeact f (Pop.fault t g false :: rest) ↔ NoDeact f rest := by
            simp only [NoDeact, List.mem_cons, Pop.fault.injEq, and_true, not_or]
            constructor
            · intro h t'; exact (h t').2
            · intro h t'; exact ⟨fun h' => hfg h'.2, h t'⟩
          have a1 : ActIn f (Pop.fault t g false :: rest) ↔ ActIn f rest := by
            simp [ActIn]
          have m1 : f ∈ act.erase g ↔ f ∈ act := List.mem_erase_of_ne hfg
          simp [nd1, a1, m1]
    | healall t k =>
      simp only [wfFrom] at hwf
      have hnp : partOnF fs k f = false := by
        cases hp : partOnF fs k f with
        | false => rfl
        | true => exact absurd (List.mem_cons_self ..) (hcl (partOnF_isPartF fs k f hp) t k)
      have ih := mem_active_iff fs f rest ever (act.filter fun x => !partOnF fs k x) hwf
        (fun x hx => hsub x (List.mem_filter.mp hx).1)
        (List.Nodup.sublist List.filter_sublist nd) hcl'
      simp only [List.foldl_cons, actStep]
      rw [ih]
      have m1 : f ∈ act.filter (fun x => !partOnF fs k x) ↔ f ∈ act := by
        simp [List.mem_filter, hnp]
      simp [m1, NoDeact, ActIn]
    | setcap t v =>
      simp only [wfFrom] at hwf
      simpa [actStep, NoDeact, ActIn] using mem_active_iff fs f rest ever act hwf hsub nd hcl'
    | cancel t g =>
      simp only [wfFrom] at hwf
      simpa [actStep, NoDeact, ActIn] using mem_active_iff fs f rest ever act hwf hsub nd hcl'
    | job t j cont =>
      simp only [wfFrom] at hwf
      simpa [actStep, NoDeact, ActIn] using mem_active_iff fs f rest ever act hwf hsub nd hcl'
    | sink t j k =>
      simp only [wfFrom] at hwf
      simpa [actStep, NoDeact, ActIn] using mem_active_iff fs f rest ever act hwf hsub nd hcl'
    | nsend t q =>
      simp only [wfFrom] at hwf
      simpa [actStep, NoDeact, ActIn] using mem_active_iff fs f rest ever act hwf hsub nd hcl'
    | nhop t q =>
      simp only [wfFrom] at hwf
      simpa [actStep, NoDeact, ActIn] using mem_active_iff fs f rest ever act hwf hsub nd hcl'
    | recv t q =>
      simp only [wfFrom] at hwf
      simpa [actStep, NoDeact, ActIn] using mem_active_iff fs f rest ever act hwf hsub nd hcl'

theorem wf_take (fs : List Fault) : ∀ (l : List Pop) (ever act : List Nat) (k : Nat),
    wfFrom fs ever act l = true → wfFrom fs ever act (l.take k) = true
  | _, _, _, 0, _ => by simp [wfFrom]
  | [], _, _, _ + 1, _ => by simp [wfFrom]
  | p :: rest, ever, act, k + 1, h => by
    cases p with
    | fault t g a =>
      cases a <;> simp only [List.take_succ_cons, wfFrom, Bool.and_eq_true] at h ⊢ <;>
        exact ⟨h.1, wf_take fs rest _ _ k h.2⟩
    | _ => simp only [List.take_succ_cons, wfFrom] at h ⊢; exact wf_take fs rest _ _ k h

/-- times never decrease along the schedule -/
def Sorted (tr : List Pop) : Prop := tr.Pairwise (fun p q => p.time ≤ q.time)

theorem split_at (tr : List Pop) (k : Nat) (p : Pop) (hp : tr[k]? = some p) :
    ∃ rest, tr = tr.take k ++ p :: rest := by
  refine ⟨tr.drop (k + 1), ?_⟩
  have hk : k < tr.length := by
    rcases Nat.lt_or_ge k tr.length with h | h
    · exact h
    · simp [List.getElem?_eq_none h] at hp
  have : tr[k] = p := by
    have := List.getElem?_eq_getElem hk; rw [this] at hp; exact Option.some.inj hp
  rw [← this, ← List.drop_eq_getElem_cons hk, List.take_append_drop]

/-- a window whose activation has been processed strictly before the time of step `k` and whose
    deactivation (if any) is processed strictly after it is active at step `k` -/
theorem active_of_inside (fs : List Fault) (tr : List Pop) (k : Nat) (p : Pop) (f s : Nat)
    (hwf : WF fs tr) (hs : Sorted tr) (hcl : Clear fs f tr) (hp : tr[k]? = some p)
    (hact : Pop.fault s f true ∈ tr) (h1 : s < p.time)
    (h2 : ∀ r, Pop.fault r f false ∈ tr → p.time < r) :
    f ∈ activeAfter fs (tr.take k) := by
  have hclk : Clear fs f (tr.take k) := fun hpf t k' hm => hcl hpf t k' (List.mem_of_mem_take hm)
  obtain ⟨rest, hsplit⟩ := split_at tr k p hp
  have hpw : (tr.take k ++ p :: rest).Pairwise (fun p q => p.time ≤ q.time) := hsplit ▸ hs
  obtain ⟨_, hright, hcross⟩ := List.pairwise_append.mp hpw
  have hpr := (List.pairwise_cons.mp hright).1
  have inTake : ∀ x, x ∈ tr → x ∉ tr.take k → p.time ≤ x.time := by
    intro x hx hnx
    rw [hsplit] at hx
    rcases List.mem_append.mp hx with h | h
    · exact absurd h hnx
    · rcases List.mem_cons.mp h with rfl | h
      · exact Nat.le_refl _
      · exact hpr x h
  have hA : ActIn f (tr.take k) := by
    refine ⟨s, ?_⟩
    cases Classical.em (Pop.fault s f true ∈ tr.take k) with
    | inl h => exact h
    | inr h =>
      have := inTake _ hact h
      have e : (Pop.fault s f true).time = s := rfl
      rw [e] at this; omega
  have hN : NoDeact f (tr.take k) := by
    intro r hm
    have hr := h2 r (List.mem_of_mem_take hm)
    have := hcross _ hm p (List.mem_cons_self ..)
    have e : (Pop.fault r f false).time = r := rfl
    rw [e] at this; omega
  exact (mem_active_iff fs f (tr.take k) [] [] (wf_take fs tr [] [] k hwf) (by simp) List.nodup_nil
    hclk).mpr (Or.inr ⟨by simp, hA, hN⟩)

/-- conversely, a window that is active at step `k` was activated at a time `≤` the step's time, and
    its deactivation, if it is ever processed, is processed at a time `≥` the step's time -/
theorem inside_of_active (fs : List Fault) (tr : List Pop) (k : Nat) (p : Pop) (f : Nat)
    (hwf : WF fs tr) (hs : Sorted tr) (hcl : Clear fs f tr) (hp : tr[k]? = some p)
    (hact : f ∈ activeAfter fs (tr.take k)) :
    (∃ s, Pop.fault s f true ∈ tr ∧ s ≤ p.time) ∧
    (∀ r, Pop.fault r f false ∈ tr → p.time ≤ r) := by
  obtain ⟨rest, hsplit⟩ := split_at tr k p hp
  have hpw : (tr.take k ++ p :: rest).Pairwise (fun p q => p.time ≤ q.time) := hsplit ▸ hs
  obtain ⟨_, hright, hcross⟩ := List.pairwise_append.mp hpw
  have hpr := (List.pairwise_cons.mp hright).1
  have hclk : Clear fs f (tr.take k) := fun hpf t k' hm => hcl hpf t k' (List.mem_of_mem_take hm)
  have hm := (mem_active_iff fs f (tr.take k) [] [] (wf_take fs tr [] [] k hwf) (by simp)
    List.nodup_nil hclk).mp hact
  rcases hm with ⟨h, _⟩ | ⟨_, ⟨s, hs'⟩, hN⟩
  · simp at h
  · refine ⟨⟨s, List.mem_of_mem_take hs', ?_⟩, ?_⟩
    · exact hcross _ hs' p (List.mem_cons_self ..)
    · intro r hr
      rw [hsplit] at hr
      rcases List.mem_append.mp hr with h | h
      · exact absurd h (hN r)
      · rcases List.mem_cons.mp h with h | h
        · rw [← h]; exact Nat.le_refl _
        · exact hpr _ h

/-! ### windows are `[s, r)` when fault boundaries come first at their instant

`FaultSchedule.start` gives the fault events the smallest tie-breaking indices, so at an instant the
engine (C01: time order, FIFO by index among equal times) processes the starts and ends of windows
before every other event.  For the event `p` processed at step `k` that is what `hb1` / `hb2` say;
`ht1` / `ht2`: fault events carry their configured times. -/

/-- an active window has started (`s ≤` now) and its end is still ahead (now `< r`) -/
theorem in_window_of_active (fs : List Fault) (tr : List Pop) (k : Nat) (p : Pop) (f s : Nat)
    (r : Option Nat) (hwf : WF fs tr) (hs : Sorted tr) (hcl : Clear fs f tr) (hp : tr[k]? = some p)
    (ht1 : ∀ t, Pop.fault t f true ∈ tr → t = s)
    (hb2 : ∀ r', r = some r' → r' ≤ p.time → Pop.fault r' f false ∈ tr.take k)
    (hact : f ∈ activeAfter fs (tr.take k)) :
    s ≤ p.time ∧ ∀ r', r = some r' → p.time < r' := by
  obtain ⟨rest, hsplit⟩ := split_at tr k p hp
  have hpw : (tr.take k ++ p :: rest).Pairwise (fun p q => p.time ≤ q.time) := hsplit ▸ hs
  obtain ⟨_, _, hcross⟩ := List.pairwise_append.mp hpw
  have hclk : Clear fs f (tr.take k) := fun hpf t k' hm => hcl hpf t k' (List.mem_of_mem_take hm)
  have hm := (mem_active_iff fs f (tr.take k) [] [] (wf_take fs tr [] [] k hwf) (by simp)
    List.nodup_nil hclk).mp hact
  rcases hm with ⟨h, _⟩ | ⟨_, ⟨t, ht⟩, hN⟩
  · simp at h
  · have hts : t = s := ht1 t (List.mem_of_mem_take ht)
    have hle := hcross _ ht p (List.mem_cons_self ..)
    have e : (Pop.fault t f true).time = t := rfl
    rw [e, hts] at hle
    refine ⟨hle, fun r' hr' => ?_⟩
    rcases Nat.lt_or_ge p.time r' with h | h
    · exact h
    · exact absurd (hb2 r' hr' h) (hN r')

/-- a window that has started and whose end is still ahead is active -/
theorem active_of_in_window (fs : List Fault) (tr : List Pop) (k : Nat) (p : Pop) (f s : Nat)
    (r : Option Nat) (hwf : WF fs tr) (hs : Sorted tr) (hcl : Clear fs f tr) (hp : tr[k]? = some p)
    (ht2 : ∀ t, Pop.fault t f false ∈ tr → r = some t)
    (hb1 : s ≤ p.time → Pop.fault s f true ∈ tr.take k)
    (hin : s ≤ p.time ∧ ∀ r', r = some r' → p.time < r') :
    f ∈ activeAfter fs (tr.take k) := by
  obtain ⟨rest, hsplit⟩ := split_at tr k p hp
  have hpw : (tr.take k ++ p :: rest).Pairwise (fun p q => p.time ≤ q.time) := hsplit ▸ hs
  obtain ⟨_, _, hcross⟩ := List.pairwise_append.mp hpw
  have hclk : Clear fs f (tr.take k) := fun hpf t k' hm => hcl hpf t k' (List.mem_of_mem_take hm)
  have hA : ActIn f (tr.take k) := ⟨s, hb1 hin.1⟩
  have hN : NoDeact f (tr.take k) := by
    intro t hm
    have hr := ht2 t (List.mem_of_mem_take hm)
    have hlt := hin.2 t hr
    have hle := hcross _ hm p (List.mem_cons_self ..)
    have e : (Pop.fault t f false).time = t := rfl
    rw [e] at hle; omega
  exact (mem_active_iff fs f (tr.take k) [] [] (wf_take fs tr [] [] k hwf) (by simp) List.nodup_nil
    hclk).mpr (Or.inr ⟨by simp, hA, hN⟩)

/-- **active_iff_in_window** — when an event that is not a fault boundary is processed at time `t`,
    a scheduled window `[s, r)` is active iff `s ≤ t < r` (`r = none`: iff `s ≤ t`) -/
theorem active_iff_in_window (fs : List Fault) (tr : List Pop) (k : Nat) (p : Pop) (f s : Nat)
    (r : Option Nat) (hwf : WF fs tr) (hs : Sorted tr) (hcl : Clear fs f tr) (hp : tr[k]? = some p)
    (ht1 : ∀ t, Pop.fault t f true ∈ tr → t = s)
    (ht2 : ∀ t, Pop.fault t f false ∈ tr → r = some t)
    (hb1 : s ≤ p.time → Pop.fault s f true ∈ tr.take k)
    (hb2 : ∀ r', r = some r' → r' ≤ p.time → Pop.fault r' f false ∈ tr.take k) :
    f ∈ activeAfter fs (tr.take k) ↔ (s ≤ p.time ∧ ∀ r', r = some r' → p.time < r') :=
  ⟨in_window_of_active fs tr k p f s r hwf hs hcl hp ht1 hb2,
   active_of_in_window fs tr k p f s r hwf hs hcl hp ht2 hb1⟩

end HappyModel.C06
