import HappyProofs.C11.ProgLeader
/-! The schedule predicates and state hypotheses of the bounded-progress theorem, as decidable
    `Bool`s, and their `Prop` readings.

* `established s L t`     node `L` is leader of term `t`
* `stableRun v t ns s as` along the run no node in `ns` ever has a term above `t` (no election
                          timeout reaches them: a stable leader)
* `inSync s L t p`        follower `p` knows term `t`, and the leader's `next_index[p]`, and every
                          AppendEntries / acknowledgement in flight between them, refer to a prefix of
                          the leader's log that `p` holds (no back-off is pending) -/
namespace HappyModel.C11
open Spec

/-! ### agreement of a follower's log with the leader's first `a` entries -/

def Agree (Ll pl : List Entry) (a : Nat) : Prop := a ≤ Ll.length ∧ Ll.take a <+: pl

def agreeB (Ll pl : List Entry) (a : Nat) : Bool := decide (a ≤ Ll.length) && (Ll.take a).isPrefixOf pl

theorem agreeB_iff {Ll pl : List Entry} {a : Nat} : agreeB Ll pl a = true ↔ Agree Ll pl a := by
  simp [agreeB, Agree, List.isPrefixOf_iff_prefix]

theorem Agree.left {Ll Ll' pl : List Entry} {a : Nat} (h : Agree Ll pl a) (hp : Ll <+: Ll') : Agree Ll' pl a := by
  obtain ⟨h1, h2⟩ := h
  refine ⟨Nat.le_trans h1 hp.length_le, ?_⟩
  rw [take_eq_of_prefix hp h1]; exact h2

theorem Agree.le {Ll pl : List Entry} {a b : Nat} (h : Agree Ll pl a) (hb : b ≤ a) : Agree Ll pl b := by
  obtain ⟨h1, h2⟩ := h
  refine ⟨by omega, List.IsPrefix.trans ?_ h2⟩
  rw [List.prefix_take_iff]
  exact ⟨List.take_prefix _ _, by rw [List.length_take]; omega⟩

/-- the follower's log is replaced by a log `X` of the leader that it did not hold yet -/
theorem Agree.replace {Ll pl X : List Entry} {a : Nat} (h : Agree Ll pl a) (hX : X <+: Ll) (hn : ¬ X <+: pl) : Agree Ll X a := by
  obtain ⟨h1, h2⟩ := h
  refine ⟨h1, ?_⟩
  by_cases ha : a ≤ X.length
  · rw [take_eq_of_prefix hX ha]; exact List.take_prefix _ _
  · exfalso; apply hn
    refine List.IsPrefix.trans ?_ h2
    rw [List.prefix_take_iff]
    exact ⟨hX, by omega⟩

theorem Agree.entry {Ll pl : List Entry} {a k : Nat} (h : Agree Ll pl a) (hk : k ≤ a) {e : Entry} (he : getE Ll k = some e) :
    getE pl k = some e := by
  obtain ⟨h1, h2⟩ := h
  unfold getE at he ⊢
  split at he
  · cases he
  · rename_i hk0
    rw [if_neg hk0]
    obtain ⟨hlt, hv⟩ := List.getElem?_eq_some_iff.mp he
    have h3 : (Ll.take a)[k - 1]? = some e := by
      rw [List.getElem?_take_of_lt (by omega)]; exact he
    obtain ⟨hlt', hv'⟩ := List.getElem?_eq_some_iff.mp h3
    have := h2.getElem hlt'
    rw [List.getElem?_eq_some_iff]
    exact ⟨Nat.lt_of_lt_of_le hlt' h2.length_le, by rw [← this]; exact hv'⟩

/-- every log of the leader of a term is a prefix of the current log of the node that leads that term -/
theorem leaderLog_prefix {g : GSt} (inv : AllInv g) {j : Nat} (hl : (g.s.nodes j).role = .leader) {X : List Entry}
    (hX : LeaderLog g (g.s.nodes j).term X) : X <+: (g.s.nodes j).log := by
  obtain ⟨k, L, h1, _, h3⟩ := hX
  rcases h3 with h3 | ⟨h3, h4⟩
  · obtain ⟨k', L', h1', h2', _⟩ := inv.hi.n_ldr j hl
    rw [h3, inv.hi.ll_uniq _ k L k' L' h1 h1']; exact h2'
  · have := inv.li.g2 j hl X h3 h4
    rw [List.prefix_iff_eq_take]; exact this.2.symm

/-! ### established leader, stable run -/

def established (s : St) (L t : Nat) : Bool :=
  decide (L < s.n) && decide ((s.nodes L).role = .leader) && decide ((s.nodes L).term = t)

structure Est (s : St) (L t : Nat) : Prop where
  lt : L < s.n
  role : (s.nodes L).role = .leader
  term : (s.nodes L).term = t

theorem established_iff {s : St} {L t : Nat} : established s L t = true ↔ Est s L t := by
  simp only [established, Bool.and_eq_true, decide_eq_true_eq]
  exact ⟨fun h => ⟨h.1.1, h.1.2, h.2⟩, fun h => ⟨⟨h.lt, h.role⟩, h.term⟩⟩

/-- no node of `ns` has a term above `t` -/
def termsLe (s : St) (t : Nat) (ns : List Nat) : Bool := ns.all (fun i => decide ((s.nodes i).term ≤ t))

/-- along the whole run no node of `ns` has a term above `t` -/
def stableRun (v : Variant) (t : Nat) (ns : List Nat) : St → List Act → Bool
  | s, [] => termsLe s t ns
  | s, a :: as => termsLe s t ns && stableRun v t ns (step v s a).1 as

theorem termsLe_mem {s : St} {t : Nat} {ns : List Nat} (h : termsLe s t ns = true) {i : Nat} (hi : i ∈ ns) : (s.nodes i).term ≤ t := by
  simp only [termsLe, List.all_eq_true, decide_eq_true_eq] at h
  exact h i hi

theorem stableRun_here {v : Variant} {t : Nat} {ns : List Nat} {s : St} {as : List Act} (h : stableRun v t ns s as = true) :
    termsLe s t ns = true := by
  cases as with
  | nil => exact h
  | cons a as => simp only [stableRun, Bool.and_eq_true] at h; exact h.1

theorem stableRun_cons {v : Variant} {t : Nat} {ns : List Nat} {s : St} {a : Act} {as : List Act}
    (h : stableRun v t ns s (a :: as) = true) : stableRun v t ns (step v s a).1 as = true := by
  simp only [stableRun, Bool.and_eq_true] at h; exact h.2

/-! ### a follower in sync with the leader -/

def msgSync (s : St) (L t p : Nat) (e : Env) : Bool :=
  match e.body with
  | .ae t' _ pi pt _ _ =>
    !(t' == t && e.dst == p) ||
      (agreeB (s.nodes L).log (s.nodes p).log pi && pt == (if pi > 0 then termAt (s.nodes L).log pi else 0))
  | .ar t' true f m => !(t' == t && f == p) || agreeB (s.nodes L).log (s.nodes p).log m
  | _ => true

def inSync (s : St) (L t p : Nat) : Bool :=
  decide (p < s.n) && decide (p ≠ L) && decide ((s.nodes p).term = t)
    && agreeB (s.nodes L).log (s.nodes p).log ((s.nodes L).nextIndex.getD p 1 - 1)
    && s.msgs.all (msgSync s L t p)

structure Sync (s : St) (L t p : Nat) : Prop where
  pn : p < s.n
  pne : p ≠ L
  pterm : (s.nodes p).term = t
  nx : Agree (s.nodes L).log (s.nodes p).log ((s.nodes L).nextIndex.getD p 1 - 1)
  ae : ∀ e ∈ s.msgs, e.dst = p → ∀ l pi pt es lc, e.body = .ae t l pi pt es lc →
        Agree (s.nodes L).log (s.nodes p).log pi ∧ pt = (if pi > 0 then termAt (s.nodes L).log pi else 0)
  ar : ∀ e ∈ s.msgs, ∀ m, e.body = .ar t true p m → Agree (s.nodes L).log (s.nodes p).log m

theorem sync_of_inSync {s : St} {L t p : Nat} (h : inSync s L t p = true) : Sync s L t p := by
  simp only [inSync, Bool.and_eq_true, decide_eq_true_eq, List.all_eq_true] at h
  obtain ⟨⟨⟨⟨h1, h2⟩, h3⟩, h4⟩, h5⟩ := h
  refine ⟨h1, h2, h3, agreeB_iff.mp h4, ?_, ?_⟩
  · intro e he hd l pi pt es lc hb
    have := h5 e he
    simp only [msgSync, hb, hd, beq_self_eq_true, Bool.and_self, Bool.not_true, Bool.false_or, Bool.and_eq_true, beq_iff_eq] at this
    exact ⟨agreeB_iff.mp this.1, this.2⟩
  · intro e he m hb
    have := h5 e he
    simp only [msgSync, hb, beq_self_eq_true, Bool.and_self, Bool.not_true, Bool.false_or] at this
    exact agreeB_iff.mp this

end HappyModel.C11
