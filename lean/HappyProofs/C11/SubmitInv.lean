import HappyProofs.C11.ApplyLog
/-! A pending client future always points at the entry its own `submit` created (repair D4:
    truncation discards the futures it invalidates), so it can only resolve with that entry. -/
namespace HappyModel.C11
open Spec

/-- submits so far: (node, future, command id) -/
abbrev Subs := List (Nat × Nat × Nat)

@[reducible] def PendOk (S : Subs) (i : Nat) (x : Node) : Prop :=
  ∀ p ∈ x.pending, ∃ e, getE x.log p.1 = some e ∧ (i, p.2, e.cmd.id) ∈ S

/-- every resolution a handler reports names a future whose own command sits at that index and is
    reported as applied there in the same step -/
@[reducible] def ResOk (S : Subs) (i : Nat) (r : HR) : Prop :=
  ∀ q ∈ r.ress, ∃ e : Entry, (i, q.1, e.cmd.id) ∈ S ∧ (q.2.1, e.cmd, q.2.2) ∈ r.apps

theorem mem_popPending {p : List (Nat × Nat)} {idx : Nat} {q : Nat × Nat} (h : q ∈ popPending p idx) : q ∈ p :=
  (List.mem_filter.mp h).1

theorem getPending_mem {p : List (Nat × Nat)} {idx f : Nat} (h : getPending p idx = some f) : (idx, f) ∈ p := by
  unfold getPending at h
  cases hf : p.find? (fun q => q.1 == idx) with
  | none => rw [hf] at h; cases h
  | some q =>
    rw [hf] at h
    simp only [Option.map_some, Option.some.injEq] at h
    have hm := List.mem_of_find?_eq_some hf
    have hq := List.find?_some hf
    simp only [beq_iff_eq] at hq
    rw [← hq, ← h]; exact hm

theorem getE_append_left {l : List Entry} {k : Nat} {e0 : Entry} (e : Entry) (h : getE l k = some e0) :
    getE (l ++ [e]) k = some e0 := by
  unfold getE at h ⊢
  split at h
  · cases h
  · rename_i hk
    rw [if_neg hk]
    obtain ⟨hlt, _⟩ := List.getElem?_eq_some_iff.mp h
    rw [List.getElem?_append_left hlt]; exact h

theorem getE_take {l : List Entry} {k m : Nat} {e0 : Entry} (hk : k ≤ m) (h : getE l k = some e0) :
    getE (l.take m) k = some e0 := by
  unfold getE at h ⊢
  split at h
  · cases h
  · rename_i hk0
    rw [if_neg hk0, List.getElem?_take_of_lt (by omega)]; exact h

theorem applyOne_sub (S : Subs) (i : Nat) (r : HR) (idx : Nat) (e : Entry)
    (hp : PendOk S i r.node) (hr : ResOk S i r) (he : getE r.node.log idx = some e) :
    PendOk S i (applyOne r idx e).node ∧ ResOk S i (applyOne r idx e) := by
  unfold applyOne
  simp only []
  split
  · split
    · rename_i f hf
      constructor
      · intro p hp'
        exact hp p (mem_popPending hp')
      · intro q hq
        simp only [List.mem_append, List.mem_singleton] at hq
        rcases hq with hq | hq
        · obtain ⟨e', h1, h2⟩ := hr q hq
          exact ⟨e', h1, List.mem_append_left _ h2⟩
        · obtain ⟨e0, h0, hs⟩ := hp _ (getPending_mem hf)
          simp only at h0 hs
          rw [he] at h0
          have : e = e0 := Option.some.inj h0
          subst this
          rw [hq]
          exact ⟨e, hs, List.mem_append_right _ (by simp)⟩
    · constructor
      · intro p hp'
        exact hp p (mem_popPending hp')
      · intro q hq
        obtain ⟨e', h1, h2⟩ := hr q hq
        exact ⟨e', h1, List.mem_append_left _ h2⟩
  · exact ⟨hp, hr⟩

theorem applyFrom_sub (S : Subs) (i : Nat) (es : List Entry) : ∀ (r : HR) (idx : Nat),
    PendOk S i r.node → ResOk S i r → (∀ j, ∀ hj : j < es.length, getE r.node.log (idx + j) = some es[j]) →
    PendOk S i (applyFrom r idx es).node ∧ ResOk S i (applyFrom r idx es) := by
  induction es with
  | nil => intro r idx hp hr _; exact ⟨hp, hr⟩
  | cons e es ih =>
    intro r idx hp hr hes
    obtain ⟨hp', hr'⟩ := applyOne_sub S i r idx e hp hr (hes 0 (by simp))
    simp only [applyFrom]
    apply ih _ _ hp' hr'
    intro j hj
    rw [applyOne_log]
    have := hes (j + 1) (by simp; omega)
    rw [show idx + 1 + j = idx + (j + 1) by omega]
    exact this

theorem advance_sub (S : Subs) (i : Nat) (x : Node) (new : Nat) (hp : PendOk S i x) :
    PendOk S i (advanceCommit { node := x } new).node ∧ ResOk S i (advanceCommit { node := x } new) := by
  unfold advanceCommit
  simp only []
  split
  · exact ⟨hp, by intro q hq; cases hq⟩
  · apply applyFrom_sub S i _ _ _ hp (by intro q hq; cases hq)
    intro j hj
    rw [List.length_drop, List.length_take] at hj
    have hjl : x.commit + j < x.log.length := by omega
    show getE x.log (x.commit + 1 + j) = _
    rw [show x.commit + 1 + j = (x.commit + j) + 1 by omega, getE_succ, List.getElem?_eq_getElem hjl]
    simp only [List.getElem_drop, List.getElem_take]

theorem truncate_sub (v : Variant) (hd : v.dropPending = true) (S : Subs) (i : Nat) (x : Node) (idx : Nat)
    (hp : PendOk S i x) : PendOk S i (truncateFrom v x idx) := by
  unfold truncateFrom
  split
  · exact hp
  · rename_i hidx
    intro p hp'
    simp only [hd, if_true] at hp'
    obtain ⟨hmem, hlt⟩ := List.mem_filter.mp hp'
    simp only [decide_eq_true_eq] at hlt
    obtain ⟨e, he, hs⟩ := hp p hmem
    exact ⟨e, getE_take (by omega) he, hs⟩

theorem appendLoop_sub (v : Variant) (hd : v.dropPending = true) (S : Subs) (i : Nat) (es : List Entry) :
    ∀ (x : Node) (idx : Nat), PendOk S i x → PendOk S i (appendLoop v x idx es) := by
  induction es with
  | nil => intro x idx hp; exact hp
  | cons e es ih =>
    intro x idx hp
    simp only [appendLoop]
    split
    · split
      · apply ih
        have ht := truncate_sub v hd S i x idx hp
        intro p hp'
        obtain ⟨e0, he0, hs⟩ := ht p hp'
        exact ⟨e0, getE_append_left e he0, hs⟩
      · exact ih x (idx + 1) hp
    · apply ih
      intro p hp'
      obtain ⟨e0, he0, hs⟩ := hp p hp'
      exact ⟨e0, getE_append_left e he0, hs⟩

end HappyModel.C11
