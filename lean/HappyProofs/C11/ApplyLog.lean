import HappyProofs.C11.ApplyOrder
import HappyProofs.C11.LogInv
/-! What a node hands to its state machine at index k is entry k of its own log, and k is at or
    below its commit index at that moment — for every variant. -/
namespace HappyModel.C11
open Spec

theorem applyOne_apps (r : HR) (idx : Nat) (e : Entry) :
    ∀ p ∈ (applyOne r idx e).apps, p ∈ r.apps ∨ (p.1 = idx ∧ p.2.1 = e.cmd) := by
  intro p hp
  unfold applyOne at hp
  simp only [] at hp
  split at hp
  · split at hp
    · simp only [List.mem_append, List.mem_singleton] at hp
      rcases hp with h | h
      · exact Or.inl h
      · rw [h]; exact Or.inr ⟨rfl, rfl⟩
    · simp only [List.mem_append, List.mem_singleton] at hp
      rcases hp with h | h
      · exact Or.inl h
      · rw [h]; exact Or.inr ⟨rfl, rfl⟩
  · exact Or.inl hp

theorem applyFrom_apps (es : List Entry) : ∀ (r : HR) (idx : Nat),
    ∀ p ∈ (applyFrom r idx es).apps, p ∈ r.apps ∨ ∃ j, ∃ hj : j < es.length, p.1 = idx + j ∧ p.2.1 = es[j].cmd := by
  induction es with
  | nil => intro r idx p hp; exact Or.inl hp
  | cons e es ih =>
    intro r idx p hp
    simp only [applyFrom] at hp
    rcases ih (applyOne r idx e) (idx + 1) p hp with h | ⟨j, hj, h1, h2⟩
    · rcases applyOne_apps r idx e p h with h | ⟨h1, h2⟩
      · exact Or.inl h
      · exact Or.inr ⟨0, by simp, by simpa using h1, by simpa using h2⟩
    · exact Or.inr ⟨j + 1, by simp; omega, by omega, by simpa using h2⟩

/-- every reported application is a committed entry of the node's log -/
def AppsFromLog (r : HR) : Prop :=
  ∀ p ∈ r.apps, 1 ≤ p.1 ∧ p.1 ≤ r.node.commit ∧ ∃ e, getE r.node.log p.1 = some e ∧ e.cmd = p.2.1

theorem applyFrom_commit (es : List Entry) (r : HR) (idx : Nat) : (applyFrom r idx es).node.commit = r.node.commit := by
  induction es generalizing r idx with
  | nil => rfl
  | cons e es ih =>
    simp only [applyFrom]; rw [ih]
    unfold applyOne; simp only []; split
    · split <;> rfl
    · rfl

theorem afl_advance (x : Node) (new : Nat) : AppsFromLog (advanceCommit { node := x } new) := by
  unfold advanceCommit
  simp only []
  split
  · intro p hp; cases hp
  · rename_i hnew
    intro p hp
    rw [applyFrom_log, applyFrom_commit]
    rcases applyFrom_apps _ _ _ p hp with h | ⟨j, hj, h1, h2⟩
    · cases h
    · rw [List.length_drop, List.length_take] at hj
      have hjl : x.commit + j < x.log.length := by omega
      refine ⟨by omega, by show p.1 ≤ min new x.log.length; omega, x.log[x.commit + j], ?_, ?_⟩
      · show getE x.log p.1 = _
        rw [h1, show x.commit + 1 + j = (x.commit + j) + 1 by omega, getE_succ, List.getElem?_eq_getElem hjl]
      · rw [h2]
        simp only [List.getElem_drop, List.getElem_take]

theorem afl_nil {r : HR} (h : r.apps = []) : AppsFromLog r := by
  intro p hp; rw [h] at hp; cases hp

theorem afl_aeCommit (x : Node) (lc : Nat) : AppsFromLog (aeCommit x lc) := by
  unfold aeCommit; split
  · exact afl_advance x _
  · exact afl_nil rfl

theorem afl_ae (v : Variant) (x : Node) (me src t pi pt : Nat) (es : List Entry) (lc : Nat) :
    AppsFromLog (handleAE v x me src t pi pt es lc) := by
  unfold handleAE
  split
  · exact afl_nil rfl
  · split
    · exact afl_nil rfl
    · exact afl_aeCommit (appendLoop v (stepDown v x t) (pi + 1) es) lc

theorem afl_tryAdvance (n : Nat) (x : Node) (me : Nat) : AppsFromLog (tryAdvance n x me) := by
  unfold tryAdvance; split
  · exact afl_advance x _
  · exact afl_nil rfl

theorem afl_ar (v : Variant) (n : Nat) (x : Node) (me t : Nat) (s : Bool) (f mi : Nat) :
    AppsFromLog (handleAR v n x me t s f mi) := by
  unfold handleAR
  split
  · exact afl_nil rfl
  · split
    · exact afl_nil rfl
    · split
      · exact afl_nil rfl
      · split
        · exact afl_tryAdvance n _ me
        · split <;> exact afl_nil rfl

theorem afl_msg (v : Variant) (n : Nat) (x : Node) (e : Env) : AppsFromLog (handleMsg v n x e) := by
  unfold handleMsg
  split
  · unfold handleRV rvCore; split <;> split <;> exact afl_nil rfl
  · unfold handleVR; split
    · exact afl_nil rfl
    · split
      · exact afl_nil rfl
      · unfold vrCount; split <;> exact afl_nil rfl
  · exact afl_ae v x _ _ _ _ _ _ _
  · exact afl_ar v n x _ _ _ _ _

theorem afl_timeout (n : Nat) (x : Node) (me : Nat) : AppsFromLog (handleTimeout n x me) := by
  unfold handleTimeout; split
  · exact afl_nil rfl
  · split <;> exact afl_nil rfl

theorem afl_hb (n : Nat) (x : Node) (me : Nat) : AppsFromLog (handleHB n x me) := by
  unfold handleHB; split <;> exact afl_nil rfl

theorem afl_submit (x : Node) (f : Nat) (c : Cmd) : AppsFromLog (handleSubmit x f c) := by
  unfold handleSubmit; split <;> exact afl_nil rfl

/-- in every step, what the step reports as applied is committed log content of the target node -/
theorem step_afl (v : Variant) (s : St) (a : Act) :
    ((step v s a).2.apps = []) ∨
    ∃ i r, i < s.n ∧ step v s a = applyHR s i r ∧ AppsFromLog r := by
  rcases step_case v s a with ⟨_, _, _, _, ha, _⟩ | ⟨e, _, _, hi, _, _, _, hs⟩ | ⟨i, _, hi, _, hs⟩ | ⟨i, _, hi, _, hs⟩ | ⟨i, f, c, _, hi, _, hs⟩
  · exact Or.inl ha
  · exact Or.inr ⟨_, _, hi, hs, afl_msg v s.n _ e⟩
  · exact Or.inr ⟨_, _, hi, hs, afl_timeout s.n _ i⟩
  · exact Or.inr ⟨_, _, hi, hs, afl_hb s.n _ i⟩
  · exact Or.inr ⟨_, _, hi, hs, afl_submit _ f c⟩

end HappyModel.C11
