import HappyProofs.C11.SafetyObs
/-! The safety theorems of Raft, for every variant with repairs D1–D3, every cluster size and every
    action list: `match_sound`, `leader_completeness`, `state_machine_safety`, `commit_monotone`. -/
namespace HappyModel.C11
open Spec

theorem allInv_reach (v : Variant) (hr : Rep v) (n : Nat) (as : List Act) : AllInv (grun v (ginit n) as) :=
  allInv_run v hr as (ginit n) (allInv_init n)

/-- MATCH SOUND.  In every reachable state, if node `i` is leader and `match_index[j] = m ≠ 0`, then
    `m ≤ len(log_i)` and at some earlier moment of the run (after `k` actions) node `j` was in the
    leader's current term with a log that starts with the leader's first `m` entries. -/
theorem match_sound (v : Variant) (hr : Rep v) (n : Nat) (as : List Act) (i j : Nat)
    (hl : ((run v (init n) as).nodes i).role = .leader)
    (hm : ((run v (init n) as).nodes i).matchIndex.getD j 0 ≠ 0) :
    ((run v (init n) as).nodes i).matchIndex.getD j 0 ≤ ((run v (init n) as).nodes i).log.length ∧
    ∃ k, k ≤ as.length ∧ ((run v (init n) (as.take k)).nodes j).term = ((run v (init n) as).nodes i).term ∧
      ((run v (init n) as).nodes i).log.take (((run v (init n) as).nodes i).matchIndex.getD j 0)
        <+: ((run v (init n) (as.take k)).nodes j).log := by
  have inv := allInv_reach v hr n as
  have hs : (grun v (ginit n) as).s = run v (init n) as := grun_s v as (ginit n)
  have := inv.hi.n_ms i (by rw [hs]; exact hl) j
  rw [hs] at this
  rcases this with h | ⟨h1, L, h2, h3⟩
  · exact absurd h hm
  · refine ⟨h1, ?_⟩
    rcases seen_run v as (ginit n) _ h2 with h | ⟨k, hk, e1, e2⟩
    · simp [ginit] at h
    · exact ⟨k, hk, e1, by rw [show (ginit n).s = init n from rfl] at e2; rw [e2]; exact h3⟩

/-! ### leader completeness -/

theorem frame_lc {g : GSt} (inv : AllInv g) {f : Frame} (hf : f.views = viewsOf g.s) {seen : List (Nat × OEntry × Nat)}
    (hseen : ∀ c ∈ seen, CommObs g c) : frameLeaderComplete seen f = true := by
  unfold frameLeaderComplete
  simp only [List.all_eq_true]
  intro w hw
  rw [hf] at hw
  obtain ⟨j, _, rfl⟩ := mem_viewsOf hw
  by_cases hl : (g.s.nodes j).role = .leader
  · have hrole : (viewOf (g.s.nodes j)).role = .leader := hl
    simp only [hrole, bne_self_eq_false, Bool.false_or, List.all_eq_true]
    intro c hc
    by_cases hle : (viewOf (g.s.nodes j)).term ≤ c.2.2
    · simp [hle]
    · have := commObs_leader inv (hseen c hc) hl (by have : (viewOf (g.s.nodes j)).term = (g.s.nodes j).term := rfl; omega)
      rw [viewOf_log, this]; simp
  · have hrole : (viewOf (g.s.nodes j)).role ≠ .leader := hl
    simp [hrole]

theorem lc_go (v : Variant) (hr : Rep v) (as : List Act) : ∀ (g : GSt) (seen : List (Nat × OEntry × Nat)), AllInv g →
    (∀ c ∈ seen, CommObs g c) → leaderCompleteGo seen (framesFrom v g.s as) = true := by
  induction as with
  | nil => intro g seen _ _; rfl
  | cons a as ih =>
    intro g seen inv hseen
    have inv' := allInv_step v hr g inv a
    have hf : (frameOf (step v g.s a).1 (step v g.s a).2 a).views = viewsOf (gstep v g a).s := by rw [gstep_s]; rfl
    have hseen' : ∀ c ∈ (committedOf (frameOf (step v g.s a).1 (step v g.s a).2 a) ++ seen).eraseDups, CommObs (gstep v g a) c := by
      intro c hc
      rcases List.mem_append.mp (List.mem_eraseDups.mp hc) with h | h
      · exact commObs_of_frame inv' hf h
      · exact (hseen c h).mono (gle_step v hr g inv a)
    simp only [framesFrom, leaderCompleteGo, Bool.and_eq_true]
    refine ⟨frame_lc inv' hf hseen', ?_⟩
    have := ih (gstep v g a) _ inv' hseen'
    rw [gstep_s] at this; exact this

/-- LEADER COMPLETENESS.  Every entry that any node has shown as committed while in term `T` is, at the
    same index, in the log of every node that is leader of a term `> T` then or later. -/
theorem leader_completeness (v : Variant) (hr : Rep v) (n : Nat) (as : List Act) : leaderCompleteOk (frames v n as) = true := by
  have inv := allInv_init n
  have hf : ({ views := viewsOf (init n) } : Frame).views = viewsOf (ginit n).s := rfl
  have hseen' : ∀ c ∈ (committedOf ({ views := viewsOf (init n) } : Frame) ++ []).eraseDups, CommObs (ginit n) c := by
    intro c hc
    rcases List.mem_append.mp (List.mem_eraseDups.mp hc) with h | h
    · exact commObs_of_frame inv hf h
    · cases h
  unfold leaderCompleteOk frames
  simp only [leaderCompleteGo, Bool.and_eq_true]
  exact ⟨frame_lc inv hf hseen', lc_go v hr as (ginit n) _ inv hseen'⟩

/-! ### state-machine safety -/

theorem obs_final (v : Variant) (hr : Rep v) (as : List Act) : ∀ g, AllInv g → ∀ f ∈ framesFrom v g.s as, ∀ x ∈ committedOf f,
    CommObs (grun v g as) x := by
  induction as with
  | nil => intro g _ f hf; simp [framesFrom] at hf
  | cons a as ih =>
    intro g inv f hf x hx
    have inv' := allInv_step v hr g inv a
    simp only [framesFrom, List.mem_cons] at hf
    rcases hf with hf | hf
    · have hv : f.views = viewsOf (gstep v g a).s := by rw [hf, gstep_s]; rfl
      exact (commObs_of_frame inv' hv hx).mono (gle_run v hr as _ inv')
    · exact ih (gstep v g a) inv' f (by rw [gstep_s]; exact hf) x hx

/-- entries shown committed at one index never differ -/
theorem commit_agree (v : Variant) (hr : Rep v) (n : Nat) (as : List Act) : commitAgreeOk (frames v n as) = true := by
  have inv := allInv_reach v hr n as
  have key : ∀ x ∈ ((frames v n as).flatMap committedOf).eraseDups, CommObs (grun v (ginit n) as) x := by
    intro x hx
    obtain ⟨f, hf, hxf⟩ := List.mem_flatMap.mp (List.mem_eraseDups.mp hx)
    simp only [frames, List.mem_cons] at hf
    rcases hf with hf | hf
    · have hv : f.views = viewsOf (ginit n).s := by rw [hf]; rfl
      exact (commObs_of_frame (allInv_init n) hv hxf).mono (gle_run v hr as _ (allInv_init n))
    · exact obs_final v hr as (ginit n) (allInv_init n) f hf x hxf
  unfold commitAgreeOk
  simp only [List.all_eq_true]
  intro x hx y hy
  by_cases h : x.1 = y.1
  · have := commObs_agree inv (key x hx) (key y hy) h
    simp [this]
  · simp [h]

/-- STATE-MACHINE SAFETY.  No two entries ever shown committed at one index differ, and no two nodes
    ever apply different commands at one index. -/
theorem state_machine_safety (v : Variant) (hr : Rep v) (n : Nat) (as : List Act) :
    commitAgreeOk (frames v n as) = true ∧ applyAgreeOk (frames v n as) = true :=
  ⟨commit_agree v hr n as, state_machine_safety_partial v n as (commit_agree v hr n as)⟩

/-! ### commit indices never decrease -/

theorem commits_le {n : Nat} (f g : Nat → Node) (h : ∀ j, (f j).commit ≤ (g j).commit) :
    ((commitsOf { views := (List.range n).map (fun i => viewOf (f i)) }).zip
      (commitsOf { views := (List.range n).map (fun i => viewOf (g i)) })).all (fun p => decide (p.1 ≤ p.2)) = true := by
  simp only [commitsOf, List.map_map, List.zip_map', List.all_eq_true, List.mem_map]
  rintro p ⟨j, _, rfl⟩
  exact decide_eq_true (h j)

theorem cm_go (v : Variant) (hr : Rep v) (as : List Act) : ∀ (g : GSt) (f0 : Frame), AllInv g → commitsOf f0 = commitsOf { views := viewsOf g.s } →
    commitMonotoneOk (f0 :: framesFrom v g.s as) = true := by
  induction as with
  | nil => intro g f0 _ _; rfl
  | cons a as ih =>
    intro g f0 inv hf0
    have inv' := allInv_step v hr g inv a
    obtain ⟨hsz, hle⟩ := commit_step v hr g inv a
    simp only [framesFrom, commitMonotoneOk, Bool.and_eq_true]
    constructor
    · rw [hf0]
      show ((commitsOf { views := viewsOf g.s }).zip (commitsOf { views := viewsOf (step v g.s a).1 })).all _ = true
      unfold viewsOf
      rw [hsz]
      exact commits_le _ _ hle
    · have := ih (gstep v g a) (frameOf (step v g.s a).1 (step v g.s a).2 a) inv' (by rw [gstep_s]; rfl)
      rw [gstep_s] at this; exact this

/-- COMMIT MONOTONE.  From one frame to the next no node's commit index decreases (so a committed
    entry is never truncated away: `commit ≤ len(log)` holds throughout, `clen_reachable`). -/
theorem commit_monotone (v : Variant) (hr : Rep v) (n : Nat) (as : List Act) : commitMonotoneOk (frames v n as) = true :=
  cm_go v hr as (ginit n) _ (allInv_init n) rfl

/-- A COMMITTED ENTRY IS NEVER TRUNCATED.  In every reachable state and for every next action, the
    committed prefix of each node's log is still a prefix of its log after the action. -/
theorem committed_never_truncated (v : Variant) (hr : Rep v) (n : Nat) (as : List Act) (a : Act) (j : Nat) :
    ((run v (init n) as).nodes j).log.take ((run v (init n) as).nodes j).commit
      <+: ((step v (run v (init n) as) a).1.nodes j).log := by
  have := committed_kept_step v hr (grun v (ginit n) as) (allInv_reach v hr n as) a j
  rw [grun_s] at this; exact this

end HappyModel.C11
