import HappyModel.C11.Observe
/-! Frame lemmas: which handler touches which part of a node. -/
namespace HappyModel.C11

/-- the election-relevant part of a node -/
structure EView where
  term : Nat
  votedFor : Option Nat
  role : Role
  votes : List Nat
deriving DecidableEq

def Node.ev (x : Node) : EView := ⟨x.term, x.votedFor, x.role, x.votes⟩

theorem ev_eq {x y : Node} (h : x.ev = y.ev) :
    x.term = y.term ∧ x.votedFor = y.votedFor ∧ x.role = y.role ∧ x.votes = y.votes := by
  simp only [Node.ev, EView.mk.injEq] at h; exact h

@[simp] theorem applyOne_ev (r : HR) (idx : Nat) (e : Entry) : (applyOne r idx e).node.ev = r.node.ev := by
  unfold applyOne
  simp only []
  split
  · split <;> rfl
  · rfl

@[simp] theorem applyFrom_ev (es : List Entry) : ∀ (r : HR) (idx : Nat), (applyFrom r idx es).node.ev = r.node.ev := by
  induction es with
  | nil => intro r idx; rfl
  | cons e es ih => intro r idx; simp only [applyFrom, ih, applyOne_ev]

@[simp] theorem applyOne_sends (r : HR) (idx : Nat) (e : Entry) : (applyOne r idx e).sends = r.sends := by
  unfold applyOne
  simp only []
  split
  · split <;> rfl
  · rfl

@[simp] theorem applyFrom_sends (es : List Entry) : ∀ (r : HR) (idx : Nat), (applyFrom r idx es).sends = r.sends := by
  induction es with
  | nil => intro r idx; rfl
  | cons e es ih => intro r idx; simp only [applyFrom, ih, applyOne_sends]

@[simp] theorem advanceCommit_ev (r : HR) (k : Nat) : (advanceCommit r k).node.ev = r.node.ev := by
  unfold advanceCommit
  simp only []
  split
  · rfl
  · rw [applyFrom_ev]; rfl

@[simp] theorem advanceCommit_sends (r : HR) (k : Nat) : (advanceCommit r k).sends = r.sends := by
  unfold advanceCommit
  simp only []
  split
  · rfl
  · rw [applyFrom_sends]

@[simp] theorem truncateFrom_ev (v : Variant) (x : Node) (idx : Nat) : (truncateFrom v x idx).ev = x.ev := by
  unfold truncateFrom; split <;> rfl

@[simp] theorem appendLoop_ev (v : Variant) (es : List Entry) : ∀ (x : Node) (idx : Nat), (appendLoop v x idx es).ev = x.ev := by
  induction es with
  | nil => intro x idx; rfl
  | cons e es ih =>
    intro x idx
    simp only [appendLoop]
    split
    · split
      · rw [ih]; show (truncateFrom v x idx).ev = x.ev; exact truncateFrom_ev v x idx
      · exact ih x (idx + 1)
    · rw [ih]; rfl

theorem tryAdvance_ev (n : Nat) (x : Node) (me : Nat) : (tryAdvance n x me).node.ev = x.ev := by
  unfold tryAdvance; split
  · rw [advanceCommit_ev]
  · rfl

theorem tryAdvance_sends (n : Nat) (x : Node) (me : Nat) : (tryAdvance n x me).sends = [] := by
  unfold tryAdvance; split
  · rw [advanceCommit_sends]
  · rfl

end HappyModel.C11
