import HappyProofs.C11.LogMatching
import HappyProofs.C11.CommitMono
/-! What a handler can do to a node, as eight kinds.  Every later invariant is proved kind by kind.
    The three repairs that matter here are hypotheses: `keepVote` (D1), `matchSent` (D2), `staleAck` (D3). -/
namespace HappyModel.C11

structure Rep (v : Variant) : Prop where
  kv : v.keepVote = true
  ms : v.matchSent = true
  sa : v.staleAck = true

theorem rep_repaired : Rep Variant.repaired := ⟨rfl, rfl, rfl⟩

/-- the node a successful acknowledgement `(f, m)` leaves before `_try_advance_commit` -/
def ackNode (x : Node) (f m : Nat) : Node :=
  { x with nextIndex := x.nextIndex.set f (m + 1), matchIndex := x.matchIndex.set f m }

inductive HK (v : Variant) (n : Nat) (x : Node) (me : Nat) (inp : Option Body) (r : HR) : Prop
  /-- bookkeeping only: same role and term, or stepped down -/
  | quiet (hlog : r.node.log = x.log) (hcommit : r.node.commit = x.commit) (hmi : r.node.matchIndex = x.matchIndex)
      (rt : (r.node.role = x.role ∧ r.node.term = x.term) ∨ (r.node.role = .follower ∧ x.term ≤ r.node.term))
      (vf : r.node.votedFor = none ∨ (r.node.votedFor = x.votedFor ∧ r.node.term = x.term))
      (snd : ∀ d b, (d, b) ∈ r.sends → (∃ t f, b = .vr t false f) ∨ (∃ t f m, b = .ar t false f m))
  /-- a vote is granted -/
  | grant (t c li lt src : Nat) (hin : inp = some (.rv t c li lt))
      (hlog : r.node.log = x.log) (hcommit : r.node.commit = x.commit) (hmi : r.node.matchIndex = x.matchIndex)
      (rt : (r.node.role = x.role ∧ x.term = t) ∨ (r.node.role = .follower ∧ x.term < t))
      (ht : r.node.term = t) (vf : r.node.votedFor = some c)
      (old : x.term = t → x.votedFor = none ∨ x.votedFor = some c)
      (utd : upToDate x li lt = true)
      (snd : r.sends = [(src, .vr t true me)])
  /-- `_start_election` (and, in a cluster of one, `_become_leader` right away) -/
  | campaign (hlog : r.node.log = x.log) (hcommit : r.node.commit = x.commit)
      (hnl : x.role ≠ .leader) (ht : r.node.term = x.term + 1) (vf : r.node.votedFor = some me)
      (role : r.node.role = .candidate ∨ (r.node.role = .leader ∧ r.node.matchIndex = List.replicate n 0))
      (snd : ∀ d b, (d, b) ∈ r.sends → b = .rv r.node.term me r.node.log.length (lastTerm r.node.log)
              ∨ (r.node.role = .leader ∧ ∃ p, b = aeFor r.node me p))
  /-- a candidate wins -/
  | elect (hlog : r.node.log = x.log) (hcommit : r.node.commit = x.commit)
      (hc : x.role = .candidate) (ht : r.node.term = x.term) (vf : r.node.votedFor = x.votedFor)
      (role : r.node.role = .leader) (hmi : r.node.matchIndex = List.replicate n 0)
      (snd : ∀ d b, (d, b) ∈ r.sends → ∃ p, b = aeFor r.node me p)
  /-- a leader sends AppendEntries built from its state (heartbeat, or retry after a refusal) -/
  | lsend (hlog : r.node.log = x.log) (hcommit : r.node.commit = x.commit) (hmi : r.node.matchIndex = x.matchIndex)
      (hl : x.role = .leader) (role : r.node.role = .leader) (ht : r.node.term = x.term) (vf : r.node.votedFor = x.votedFor)
      (snd : ∀ d b, (d, b) ∈ r.sends → ∃ p, b = aeFor r.node me p)
  /-- a follower accepts an AppendEntries -/
  | accept (t l pi pt : Nat) (es : List Entry) (lc src : Nat) (hin : inp = some (.ae t l pi pt es lc))
      (hle : x.term ≤ t) (hbad : aeBad (stepDown v x t) pi pt = false)
      (hnode : r.node = (aeCommit (appendLoop v (stepDown v x t) (pi + 1) es) lc).node)
      (snd : r.sends = [(src, .ar t true me (pi + es.length))])
  /-- a leader takes a successful acknowledgement of its own term -/
  | ack (f m : Nat) (hin : inp = some (.ar x.term true f m)) (hl : x.role = .leader)
      (hnode : r.node = (tryAdvance n (ackNode x f m) me).node) (snd : r.sends = [])
  /-- a leader appends a client command -/
  | append (c : Cmd) (hl : x.role = .leader) (hlog : r.node.log = x.log ++ [⟨x.term, c⟩])
      (hcommit : r.node.commit = x.commit) (hmi : r.node.matchIndex = x.matchIndex)
      (role : r.node.role = .leader) (ht : r.node.term = x.term) (vf : r.node.votedFor = x.votedFor)
      (snd : r.sends = [])

theorem hk_same {v : Variant} {n : Nat} {x : Node} {me : Nat} {inp : Option Body} {sends : List (Nat × Body)}
    (snd : ∀ d b, (d, b) ∈ sends → (∃ t f, b = .vr t false f) ∨ (∃ t f m, b = .ar t false f m)) :
    HK v n x me inp { node := x, sends := sends } :=
  .quiet rfl rfl rfl (Or.inl ⟨rfl, rfl⟩) (Or.inr ⟨rfl, rfl⟩) snd

theorem stepDown_vf (v : Variant) (hk : v.keepVote = true) (x : Node) (t : Nat) (ht : x.term ≤ t) :
    (stepDown v x t).votedFor = none ∨ ((stepDown v x t).votedFor = x.votedFor ∧ (stepDown v x t).term = x.term) := by
  by_cases h : t > x.term
  · left; simp [stepDown, h]
  · right
    have : t = x.term := by omega
    exact ⟨(stepDown_ev v hk x t ht).2.2.2 this, this⟩

theorem hk_stepDown {v : Variant} (hk : v.keepVote = true) {n : Nat} {x : Node} {me : Nat} {inp : Option Body} {t : Nat}
    (ht : x.term ≤ t) {sends : List (Nat × Body)}
    (snd : ∀ d b, (d, b) ∈ sends → (∃ t f, b = .vr t false f) ∨ (∃ t f m, b = .ar t false f m)) :
    HK v n x me inp { node := stepDown v x t, sends := sends } :=
  .quiet rfl rfl rfl (Or.inr ⟨rfl, ht⟩) (stepDown_vf v hk x t ht) snd

theorem hk_rv (v : Variant) (hr : Rep v) (n : Nat) (x : Node) (me src t c li lt : Nat) :
    HK v n x me (some (.rv t c li lt)) (handleRV v x me src t c li lt) := by
  unfold handleRV
  by_cases hgt : t > x.term
  · simp only [hgt, if_true]
    unfold rvCore
    split
    · rename_i hg
      simp only [rvGrant, Bool.and_eq_true, decide_eq_true_eq] at hg
      refine .grant t c li lt src rfl rfl rfl rfl (Or.inr ⟨rfl, hgt⟩) rfl rfl (by intro h; omega) ?_ rfl
      have := hg.2; simpa [upToDate, stepDown] using this
    · refine .quiet rfl rfl rfl (Or.inr ⟨rfl, by show x.term ≤ t; omega⟩) (Or.inl ?_) ?_
      · simp [stepDown, hgt]
      · intro d b h; simp only [List.mem_singleton, Prod.mk.injEq] at h; exact Or.inl ⟨_, _, h.2⟩
  · simp only [hgt, if_false]
    unfold rvCore
    split
    · rename_i hg
      simp only [rvGrant, Bool.and_eq_true, decide_eq_true_eq, Bool.or_eq_true, beq_iff_eq] at hg
      have hte : x.term = t := by omega
      refine .grant t c li lt src rfl rfl rfl rfl (Or.inl ⟨rfl, hte⟩) rfl rfl (fun _ => hg.1.2) hg.2 rfl
    · apply hk_same
      intro d b h; simp only [List.mem_singleton, Prod.mk.injEq] at h; exact Or.inl ⟨_, _, h.2⟩

theorem mem_rvsFor' {n : Nat} {x : Node} {me d : Nat} {b : Body} (h : (d, b) ∈ rvsFor n x me) :
    b = .rv x.term me x.log.length (lastTerm x.log) := by
  unfold rvsFor at h
  obtain ⟨p, _, hp⟩ := List.mem_map.mp h
  simp only [Prod.mk.injEq] at hp
  exact hp.2.symm

theorem mem_sendAEs' {n : Nat} {x : Node} {me d : Nat} {b : Body} (h : (d, b) ∈ sendAEs n x me) :
    ∃ p, b = aeFor x me p := by
  unfold sendAEs at h
  obtain ⟨p, _, hp⟩ := List.mem_map.mp h
  simp only [Prod.mk.injEq] at hp
  exact ⟨p, hp.2.symm⟩

theorem hk_vr (v : Variant) (hr : Rep v) (n : Nat) (x : Node) (me t : Nat) (gr : Bool) (f : Nat) :
    HK v n x me (some (.vr t gr f)) (handleVR v n x me t gr f) := by
  unfold handleVR
  split
  · exact hk_stepDown hr.kv (by omega) (by intro d b h; cases h)
  · split
    · exact hk_same (by intro d b h; cases h)
    · rename_i hc
      have hc' : x.role = .candidate := by
        apply Classical.byContradiction; intro h; exact hc (Or.inl h)
      unfold vrCount
      split
      · refine .elect rfl rfl hc' rfl rfl rfl rfl ?_
        intro d b h
        simp only [becomeLeader, List.nil_append] at h
        exact mem_sendAEs' h
      · exact .quiet rfl rfl rfl (Or.inl ⟨rfl, rfl⟩) (Or.inr ⟨rfl, rfl⟩) (by intro d b h; cases h)

theorem hk_timeout (v : Variant) (n : Nat) (x : Node) (me : Nat) : HK v n x me none (handleTimeout n x me) := by
  unfold handleTimeout
  split
  · exact hk_same (by intro d b h; cases h)
  · rename_i hnl
    split
    · refine .campaign rfl rfl hnl rfl rfl (Or.inr ⟨rfl, rfl⟩) ?_
      intro d b h
      simp only [becomeLeader, List.mem_append] at h
      rcases h with h | h
      · exact Or.inl (mem_rvsFor' h)
      · exact Or.inr ⟨rfl, mem_sendAEs' h⟩
    · refine .campaign rfl rfl hnl rfl rfl (Or.inl rfl) ?_
      intro d b h
      exact Or.inl (mem_rvsFor' h)

theorem hk_hb (v : Variant) (n : Nat) (x : Node) (me : Nat) : HK v n x me none (handleHB n x me) := by
  unfold handleHB
  split
  · exact hk_same (by intro d b h; cases h)
  · rename_i hl
    have hl' : x.role = .leader := by
      apply Classical.byContradiction; intro h; exact hl h
    exact .lsend rfl rfl rfl hl' hl' rfl rfl (fun d b h => mem_sendAEs' h)

theorem hk_submit (v : Variant) (n : Nat) (x : Node) (me f : Nat) (c : Cmd) : HK v n x me none (handleSubmit x f c) := by
  unfold handleSubmit
  split
  · exact hk_same (by intro d b h; cases h)
  · rename_i hl
    have hl' : x.role = .leader := by
      apply Classical.byContradiction; intro h; exact hl h
    exact .append c hl' rfl rfl rfl hl' rfl rfl rfl

theorem hk_ae (v : Variant) (hr : Rep v) (n : Nat) (x : Node) (me src t l pi pt : Nat) (es : List Entry) (lc : Nat) :
    HK v n x me (some (.ae t l pi pt es lc)) (handleAE v x me src t pi pt es lc) := by
  unfold handleAE
  split
  · apply hk_same
    intro d b h; simp only [List.mem_singleton, Prod.mk.injEq] at h; exact Or.inr ⟨_, _, _, h.2⟩
  · rename_i hlt
    split
    · apply hk_stepDown hr.kv (by omega)
      intro d b h; simp only [List.mem_singleton, Prod.mk.injEq] at h; exact Or.inr ⟨_, _, _, h.2⟩
    · rename_i hbad
      refine .accept t l pi pt es lc src rfl (by omega) (by simpa using hbad) rfl ?_
      have hterm : (aeCommit (appendLoop v (stepDown v x t) (pi + 1) es) lc).node.term = t := by
        have := (ev_eq (aeCommit_ev (appendLoop v (stepDown v x t) (pi + 1) es) lc)).1
        rw [this, appendLoop_log_pending]; rfl
      simp only [aeAccept, hr.ms, if_true, hterm]

theorem hk_ar (v : Variant) (hr : Rep v) (n : Nat) (x : Node) (me t : Nat) (s : Bool) (f m : Nat) :
    HK v n x me (some (.ar t s f m)) (handleAR v n x me t s f m) := by
  unfold handleAR
  split
  · exact hk_stepDown hr.kv (by omega) (by intro d b h; cases h)
  · rename_i hgt
    split
    · exact hk_same (by intro d b h; cases h)
    · rename_i hlt
      have hte : t = x.term := by
        have : ¬ t < x.term := by intro h; exact hlt ⟨hr.sa, h⟩
        omega
      split
      · exact hk_same (by intro d b h; cases h)
      · rename_i hl
        have hl' : x.role = .leader := by
          apply Classical.byContradiction; intro h; exact hl h
        split
        · rename_i hs
          subst hs; subst hte
          exact .ack f m rfl hl' rfl (tryAdvance_sends ..)
        · split
          · refine .lsend rfl rfl rfl hl' hl' rfl rfl ?_
            intro d b h
            simp only [List.mem_singleton, Prod.mk.injEq] at h
            exact ⟨f, h.2⟩
          · exact .lsend rfl rfl rfl hl' hl' rfl rfl (by intro d b h; cases h)

theorem hk_msg (v : Variant) (hr : Rep v) (n : Nat) (x : Node) (e : Env) :
    HK v n x e.dst (some e.body) (handleMsg v n x e) := by
  unfold handleMsg
  split
  · rename_i hb; rw [hb]; exact hk_rv v hr n x ..
  · rename_i hb; rw [hb]; exact hk_vr v hr n x ..
  · rename_i hb; rw [hb]; exact hk_ae v hr n x ..
  · rename_i hb; rw [hb]; exact hk_ar v hr n x ..

end HappyModel.C11
