import HappyProofs.C11.ProgObs
/-! "… and applied by every node": a follower in sync with the stable leader that is handed an
    AppendEntries of the leader's term reaching index `k` with a leader commit `≥ k` (`toldRun`)
    applies index `k`; by State-Machine Safety what it applies there is the submitted command. -/
namespace HappyModel.C11
open Spec

/-- an AppendEntries of term `t` that reaches index `k` and announces a commit index `≥ k` -/
def commits (t k : Nat) : Body → Bool
  | .ae t' _ pi _ es lc => t' == t && decide (k ≤ pi + es.length) && decide (k ≤ lc)
  | _ => false

def toldNow (s : St) (L t k p : Nat) : Act → Bool
  | .deliver m =>
    match findMsg s m with
    | some e => canDeliver s e && e.src == L && e.dst == p && commits t k e.body
    | none => false
  | _ => false

/-- FAIRNESS for the commit notice: some step of the run hands `p` such a message from `L` -/
def toldRun (v : Variant) (L t k p : Nat) : St → List Act → Bool
  | _, [] => false
  | s, a :: as => toldNow s L t k p a || toldRun v L t k p (step v s a).1 as

theorem aeCommit_ge (z : Node) (lc : Nat) : min lc z.log.length ≤ (aeCommit z lc).node.commit := by
  unfold aeCommit
  split
  · unfold advanceCommit
    simp only []
    split
    · rename_i h; exact h
    · rw [applyFrom_commit]; show _ ≤ min (min lc z.log.length) z.log.length; omega
  · show _ ≤ z.commit; omega

/-- the step that hands a follower in sync the commit notice makes it apply index `k` -/
theorem told_step (v : Variant) (hr : Rep v) (g : GSt) (inv : PInv g) {L t p k m0 : Nat} {e : Env}
    (hs : Sync g.s L t p) (hf : findMsg g.s m0 = some e) (hc : canDeliver g.s e = true) (hdst : e.dst = p)
    (hcom : commits t k e.body = true) : k ≤ ((step v g.s (.deliver m0)).1.nodes p).lastApplied := by
  have hmem := findMsg_mem hf
  cases hb : e.body with
  | rv _ _ _ _ => rw [hb] at hcom; cases hcom
  | vr _ _ _ => rw [hb] at hcom; cases hcom
  | ar _ _ _ _ => rw [hb] at hcom; cases hcom
  | ae t' l pi pt es lc =>
    rw [hb] at hcom
    simp only [commits, Bool.and_eq_true, beq_iff_eq, decide_eq_true_eq] at hcom
    obtain ⟨⟨ht', hreach⟩, hlc⟩ := hcom
    subst ht'
    have hsy := hs.ae e hmem hdst l pi pt es lc hb
    have hbad := sync_not_bad hs v hsy
    have hstep := step_deliver (v := v) hf hc
    rw [hdst] at hstep
    have hh : handleMsg v g.s.n (g.s.nodes p) e = aeAccept v (stepDown v (g.s.nodes p) t') p e.src pi es lc := by
      unfold handleMsg; simp only [hb]
      unfold handleAE
      rw [if_neg (by rw [hs.pterm]; omega), hbad]
      simp [hdst]
    rw [hh] at hstep
    obtain ⟨_, _, _, X, _, hlen, hpre, _⟩ := accept_facts v hr inv.all.li inv.all.hi (g.s.nodes p) (inv.all.li.b p) (inv.all.hi.n_cl p)
      (inv.all.hi.n_cn p) (inv.all.hi.m_ae e hmem t' l pi pt es lc hb) (by rw [hs.pterm]; exact Nat.le_refl _) hbad _ rfl
    have hcl' := (step_apps v g.s (.deliver m0) inv.cl).1 p
    rw [hstep] at hcl' ⊢
    simp only [applyHR, upd_same] at hcl' ⊢
    have hge := aeCommit_ge (appendLoop v (stepDown v (g.s.nodes p) t') (pi + 1) es) lc
    have hlen' := hpre.length_le
    rw [aeCommit_log] at hlen'
    have : (aeAccept v (stepDown v (g.s.nodes p) t') p e.src pi es lc).node.commit
        = (aeCommit (appendLoop v (stepDown v (g.s.nodes p) t') (pi + 1) es) lc).node.commit := rfl
    omega

theorem la_mono_run (v : Variant) (as : List Act) : ∀ s, CL s → ∀ j, (s.nodes j).lastApplied ≤ ((run v s as).nodes j).lastApplied := by
  induction as with
  | nil => intro s _ j; exact Nat.le_refl _
  | cons a as ih =>
    intro s h j
    obtain ⟨h', hj⟩ := step_apps v s a h
    exact Nat.le_trans (hj j).1 (ih _ h' j)

theorem told_applies (v : Variant) (hr : Rep v) {L t k p : Nat} : ∀ (as : List Act) (g : GSt), PInv g → Est g.s L t →
    Sync g.s L t p → stableRun v t [L, p] g.s as = true → toldRun v L t k p g.s as = true →
    k ≤ ((run v g.s as).nodes p).lastApplied := by
  intro as
  induction as with
  | nil => intro g _ _ _ _ h; cases h
  | cons a as ih =>
    intro g inv hest hs hst htold
    simp only [toldRun, Bool.or_eq_true] at htold
    have hst' := stableRun_cons hst
    rcases htold with h | h
    · cases a with
      | deliver m0 =>
        simp only [toldNow] at h
        cases hf : findMsg g.s m0 with
        | none => rw [hf] at h; cases h
        | some e =>
          rw [hf] at h
          simp only [Bool.and_eq_true, beq_iff_eq] at h
          have := told_step v hr g inv hs hf h.1.1.1 h.1.2 h.2
          simp only [run]
          exact Nat.le_trans this (la_mono_run v as _ (step_apps v g.s _ inv.cl).1 p)
      | _ => cases h
    · have hleL := termsLe_mem (stableRun_here hst') (i := L) (by simp)
      have hleP := termsLe_mem (stableRun_here hst') (i := p) (by simp)
      have := ih (gstep v g a) (pinv_step v hr g inv a) (by rw [gstep_s]; exact est_step v hr g inv a hest hleL)
        (by rw [gstep_s]; exact sync_step v hr g inv a hest hs hleL hleP) (by rw [gstep_s]; exact hst') (by rw [gstep_s]; exact h)
      rw [gstep_s] at this
      exact this

/-! ### what `last_applied ≥ k` means for an observer -/

theorem run_apps_idx (v : Variant) (as : List Act) : ∀ s, CL s → ∀ j,
    (appsOf (framesFrom v s as) j).map (·.1)
      = List.range' ((s.nodes j).lastApplied + 1) (((run v s as).nodes j).lastApplied - (s.nodes j).lastApplied) := by
  induction as with
  | nil => intro s _ j; simp [framesFrom, appsOf, run]
  | cons a as ih =>
    intro s hcl j
    obtain ⟨hcl', hj⟩ := step_apps v s a hcl
    obtain ⟨hmono, hidx⟩ := hj j
    have hmono2 := la_mono_run v as _ hcl' j
    simp only [framesFrom, run]
    rw [appsOf_cons, List.map_append]
    change (frameApps _ j).map (·.1) ++ _ = _
    rw [hidx, ih _ hcl' j]
    have hsplit := @List.range'_append ((s.nodes j).lastApplied + 1) (((step v s a).1.nodes j).lastApplied - (s.nodes j).lastApplied)
      (((run v (step v s a).1 as).nodes j).lastApplied - ((step v s a).1.nodes j).lastApplied) 1
    simp only [Nat.one_mul] at hsplit
    have e1 : (s.nodes j).lastApplied + 1 + (((step v s a).1.nodes j).lastApplied - (s.nodes j).lastApplied)
        = ((step v s a).1.nodes j).lastApplied + 1 := by omega
    have e2 : ((step v s a).1.nodes j).lastApplied - (s.nodes j).lastApplied
        + (((run v (step v s a).1 as).nodes j).lastApplied - ((step v s a).1.nodes j).lastApplied)
        = ((run v (step v s a).1 as).nodes j).lastApplied - (s.nodes j).lastApplied := by omega
    rw [e1, e2] at hsplit
    exact hsplit

theorem appsOf_mem {tr : List Frame} {i : Nat} {q : Nat × Nat} (h : q ∈ appsOf tr i) : ∃ fr ∈ tr, (i, q.1, q.2) ∈ fr.apps := by
  unfold appsOf at h
  rw [List.mem_flatMap] at h
  obtain ⟨fr, hfr, hq⟩ := h
  rw [List.mem_filterMap] at hq
  obtain ⟨a, ha, hq⟩ := hq
  split at hq
  · rename_i hi
    simp only [Option.some.injEq] at hq
    refine ⟨fr, hfr, ?_⟩
    rw [← hq, ← hi]; exact ha
  · cases hq

/-- a node whose `last_applied` reached `k` has reported an application at index `k` -/
theorem applied_reported (v : Variant) (n : Nat) (as : List Act) (j k : Nat) (hk1 : 1 ≤ k)
    (hk : k ≤ ((run v (init n) as).nodes j).lastApplied) : ∃ x, (j, k, x) ∈ allApps (frames v n as) := by
  have h := run_apps_idx v as (init n) (cl_init n) j
  have h0 : ((init n).nodes j).lastApplied = 0 := by simp [init, initNode]
  rw [h0] at h
  have hmem : k ∈ (appsOf (framesFrom v (init n) as) j).map (·.1) := by
    rw [h, List.mem_range'_1]; omega
  obtain ⟨q, hq, hqk⟩ := List.mem_map.mp hmem
  obtain ⟨fr, hfr, hin⟩ := appsOf_mem hq
  refine ⟨q.2, ?_⟩
  unfold allApps frames
  rw [List.mem_flatMap]
  exact ⟨fr, List.mem_cons_of_mem _ hfr, by rw [← hqk]; exact hin⟩

/-- BOUNDED PROGRESS, EVERY NODE.  Under the hypotheses of `stable_leader_commits`, every follower `p` of a set `F`
    that is in sync, sees no term above `t`, and is handed the commit notice (`toldRun`) applies index `k`; and every
    node whose `last_applied` is `≥ k` at the end has reported exactly the submitted command at `k`. -/
theorem stable_all_apply (v : Variant) (hr : Rep v) (n : Nat) (pre : List Act) (L t f : Nat) (c : Cmd) (Q F : List Nat)
    (as : List Act) (h : StableFair v n pre L t f c Q as)
    (hFsync : ∀ p ∈ F, inSync (run v (init n) pre) L t p = true)
    (hFstable : ∀ p ∈ F, stableRun v t [L, p] (run v (init n) pre) (.submit L f c :: as) = true)
    (hFtold : ∀ p ∈ F, toldRun v L t (nextIdx (run v (init n) pre) L) p (run v (init n) pre) (.submit L f c :: as) = true) :
    (∀ p ∈ L :: F, nextIdx (run v (init n) pre) L ≤ ((run v (init n) (pre ++ .submit L f c :: as)).nodes p).lastApplied)
    ∧ ∀ j, nextIdx (run v (init n) pre) L ≤ ((run v (init n) (pre ++ .submit L f c :: as)).nodes j).lastApplied →
        (j, nextIdx (run v (init n) pre) L, c.id) ∈ allApps (frames v n (pre ++ .submit L f c :: as)) := by
  obtain ⟨_, _, _, hlaL, _⟩ := stable_leader_commits v hr n pre L t f c Q as h.est h.qnd h.qne h.qq h.sync h.stable h.fair h.nr
  obtain ⟨_, _, hagree⟩ := stable_leader_commits_obs v hr n pre L t f c Q as h
  have inv0 := pinv_reach v hr n pre
  have hs0 : (grun v (ginit n) pre).s = run v (init n) pre := grun_s v pre (ginit n)
  refine ⟨?_, ?_⟩
  · intro p hp
    rw [run_append]
    simp only [List.mem_cons] at hp
    rcases hp with hp | hp
    · rw [hp]; exact hlaL
    · have := told_applies v hr (.submit L f c :: as) (grun v (ginit n) pre) inv0 (by rw [hs0]; exact established_iff.mp h.est)
        (by rw [hs0]; exact sync_of_inSync (hFsync p hp)) (by rw [hs0]; exact hFstable p hp) (by rw [hs0]; exact hFtold p hp)
      rw [hs0] at this; exact this
  · intro j hj
    obtain ⟨x, hx⟩ := applied_reported v n _ j _ (by unfold nextIdx; omega) hj
    have := hagree _ hx rfl
    simp only at this
    rw [← this]; exact hx

end HappyModel.C11
