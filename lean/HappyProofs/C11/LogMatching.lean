import HappyProofs.C11.LogStep2
/-! Log Matching in the form the Spec judges. -/
namespace HappyModel.C11
open Spec

def oe (e : Entry) : OEntry := (e.term, e.cmd.id)

theorem logsMatch_of {C : List (List Entry)} (hu : Uniq C) {l1 l2 : List Entry} (h1 : Rec C l1) (h2 : Rec C l2) :
    logsMatch (l1.map oe) (l2.map oe) = true := by
  unfold logsMatch
  simp only [List.all_eq_true, List.mem_range, List.length_map]
  intro k hk
  have hk1 : k < l1.length := by omega
  have hk2 : k < l2.length := by omega
  simp only [List.getElem?_map, List.getElem?_eq_getElem hk1, List.getElem?_eq_getElem hk2, Option.map_some]
  by_cases ht : l1[k].term = l2[k].term
  · have : l1.take (k + 1) = l2.take (k + 1) := by
      apply hu _ (h1 k hk1) _ (h2 k hk2)
      · simp [List.length_take]; omega
      · rw [lastTerm_take hk1, lastTerm_take hk2]; exact ht
    simp [oe, ht, ← List.map_take, this]
  · simp [oe, ht]

theorem frameLogMatching_of {g : GSt} (linv : LInv g) {f : Frame} (hf : f.views = viewsOf g.s) :
    frameLogMatching f = true := by
  unfold frameLogMatching
  simp only [List.all_eq_true]
  intro a ha b hb
  rw [hf] at ha hb
  unfold viewsOf at ha hb
  obtain ⟨i, _, hi⟩ := List.mem_map.mp ha
  obtain ⟨j, _, hj⟩ := List.mem_map.mp hb
  rw [← hi, ← hj]
  exact logsMatch_of linv.g1 (linv.b i) (linv.b j)

theorem frames_logMatching (v : Variant) (hk : v.keepVote = true) (as : List Act) :
    ∀ g, EInv g → LInv g → ∀ f ∈ framesFrom v g.s as, frameLogMatching f = true := by
  induction as with
  | nil => intro g _ _ f hf; simp [framesFrom] at hf
  | cons a as ih =>
    intro g einv linv f hf
    have einv' := einv_step v hk g einv a
    have linv' := linv_step v hk g einv linv a
    simp only [framesFrom, List.mem_cons] at hf
    rcases hf with hf | hf
    · apply frameLogMatching_of linv'
      rw [hf, gstep_s]; rfl
    · exact ih (gstep v g a) einv' linv' f (by rw [gstep_s]; exact hf)

/-- LOG MATCHING.  For every cluster size and action list, in every state the run passes through,
    any two logs that hold entries of the same term at the same index are identical up to that index. -/
theorem log_matching (v : Variant) (hk : v.keepVote = true) (n : Nat) (as : List Act) :
    logMatchingOk (frames v n as) = true := by
  unfold logMatchingOk
  simp only [List.all_eq_true]
  intro f hf
  simp only [frames, List.mem_cons] at hf
  rcases hf with hf | hf
  · exact frameLogMatching_of (linv_init n) (by rw [hf]; rfl)
  · exact frames_logMatching v hk as (ginit n) (einv_init n) (linv_init n) f hf

end HappyModel.C11
