import HappyProofs.C11.ProgFifoRun
/-! Per-link FIFO for the back-off variant: `stable_leader_commits_conv` with `fifoRun` in place of
    `noRegressRun`.  The invariant `KF` is started without the in-sync premise: acknowledgements in
    flight never name more than the leader's log holds (`ARM`, part of the safety invariant), and
    `match_index ≤ len(log)` (`n_ms`); for the AppendEntries in flight the same bound is the
    decidable start-state hypothesis `aeBounded` (`prev_log_index + len(entries) ≤ len(L's log)` —
    true of every message the leader builds from a `next_index ≤ len(log) + 1`; that `next_index`
    never overshoots is not part of the proved invariants, hence the hypothesis). -/
namespace HappyModel.C11
open Spec

/-- no AppendEntries of term `t` in flight from `L` to `f` reaches beyond `L`'s log -/
def aeBounded (s : St) (L t f : Nat) : Bool :=
  s.msgs.all (fun e => match e.body with
    | .ae t' _ pi _ es _ => !(t' == t && e.src == L && e.dst == f) || decide (pi + es.length ≤ (s.nodes L).log.length)
    | _ => true)

theorem kf_start_conv {g : GSt} (inv : PInv g) {L t f k : Nat} (hest : Est g.s L t) (hb : aeBounded g.s L t f = true)
    (hk : (g.s.nodes L).log.length < k) {s' : St} (hm : s'.msgs = g.s.msgs) (hmi : (s'.nodes L).matchIndex = (g.s.nodes L).matchIndex) :
    KF s' [] L t k f := by
  have hae : ∀ e ∈ g.s.msgs, ∀ pl, AEof L t f e pl → pl ≤ (g.s.nodes L).log.length := by
    intro e he pl ⟨hsrc, hdst, l, pi, pt, es, lc, hbody, hp⟩
    simp only [aeBounded, List.all_eq_true] at hb
    have := hb e he
    simp only [hbody, hsrc, hdst, beq_self_eq_true, Bool.and_self, Bool.not_true, Bool.false_or, decide_eq_true_eq] at this
    omega
  have hack : ∀ e ∈ g.s.msgs, ∀ m, ACKof t f e m → m ≤ (g.s.nodes L).log.length := by
    intro e he m hbody
    rcases inv.all.hi.m_ar e he t f m hbody with h | ⟨X, _, hX, hle, _⟩
    · omega
    · have hXL : X <+: (g.s.nodes L).log := leaderLog_prefix inv.all hest.role (by rw [hest.term]; exact hX)
      have := hXL.length_le; omega
  have hmatch : (g.s.nodes L).matchIndex.getD f 0 ≤ (g.s.nodes L).log.length := by
    rcases inv.all.hi.n_ms L hest.role f with h | ⟨h, _⟩
    · omega
    · exact h
  refine ⟨?_, ?_, Or.inr ⟨?_, ?_⟩, ?_⟩
  · intro e _ e' he' pl pl' _ hae' _ hge
    rw [hm] at he'; have := hae e' he' pl' hae'; omega
  · intro e _ e' he' m m' _ hb' _ hge
    rw [hm] at he'; have := hack e' he' m' hb'; omega
  · intro e he m hb'; rw [hm] at he; have := hack e he m hb'; omega
  · rw [hmi]; omega
  · intro h; rw [hmi] at h; omega

/-- BOUNDED PROGRESS, BACK-OFF INCLUDED, UNDER PER-LINK FIFO. -/
theorem stable_leader_commits_conv_fifo (v : Variant) (hr : Rep v) (n : Nat) (pre : List Act) (L t f : Nat) (c : Cmd) (Q : List Nat)
    (as : List Act)
    (hest : established (run v (init n) pre) L t = true)
    (hQnd : Q.Nodup) (hQne : Q ≠ []) (hQq : quorum n ≤ Q.length + 1) (hbasic : ∀ p ∈ Q, p < n ∧ p ≠ L)
    (hbound : ∀ p ∈ Q, aeBounded (run v (init n) pre) L t p = true)
    (hstable : stableRun v t (L :: Q) (run v (init n) pre) (.submit L f c :: as) = true)
    (hconv : ∀ p ∈ Q, convRun v L t (nextIdx (run v (init n) pre) L) p (run v (init n) pre) (.submit L f c :: as) = true)
    (hfifo : fifoRun v [] (run v (init n) pre) (.submit L f c :: as) = true) :
    getE ((run v (run v (init n) pre) (.submit L f c :: as)).nodes L).log (nextIdx (run v (init n) pre) L) = some ⟨t, c⟩
    ∧ (∀ p ∈ Q, getE ((run v (run v (init n) pre) (.submit L f c :: as)).nodes p).log (nextIdx (run v (init n) pre) L) = some ⟨t, c⟩)
    ∧ nextIdx (run v (init n) pre) L ≤ ((run v (run v (init n) pre) (.submit L f c :: as)).nodes L).commit
    ∧ nextIdx (run v (init n) pre) L ≤ ((run v (run v (init n) pre) (.submit L f c :: as)).nodes L).lastApplied
    ∧ Hit (outs v (run v (init n) pre) (.submit L f c :: as)) L (nextIdx (run v (init n) pre) L) f c := by
  refine stable_leader_commits_conv v hr n pre L t f c Q as ⟨hest, hQnd, hQne, hQq, hbasic, hstable, hconv, ?_⟩
  have inv0 := pinv_reach v hr n pre
  have hs0 : (grun v (ginit n) pre).s = run v (init n) pre := grun_s v pre (ginit n)
  have har0 : ArSrc (run v (init n) pre) := arSrc_run v hr pre _ (arSrc_init n)
  generalize hg0 : grun v (ginit n) pre = g0 at inv0 hs0
  rw [← hs0] at hest hbound hstable hfifo har0 ⊢
  have est0 := established_iff.mp hest
  have hleL : ((step v g0.s (.submit L f c)).1.nodes L).term ≤ t :=
    termsLe_mem (stableRun_here (stableRun_cons hstable)) (by simp)
  have hstep : step v g0.s (.submit L f c) = applyHR g0.s L { node := submitNode (g0.s.nodes L) f c } := by
    simp only [step, est0.lt, decide_true, if_true]
    rw [leader_submit _ _ _ est0.role]
  have hnodeL : (step v g0.s (.submit L f c)).1.nodes L = submitNode (g0.s.nodes L) f c := by
    rw [hstep]; simp only [applyHR, upd_same]
  have hmsgs : (step v g0.s (.submit L f c)).1.msgs = g0.s.msgs := by rw [hstep]; simp [applyHR, mkEnvs]
  have hdel : delivered g0.s (.submit L f c) = none := rfl
  simp only [fifoRun, hdel] at hfifo
  simp only [noRegressRun, Bool.and_eq_true, Bool.not_eq_true']
  refine ⟨rfl, ?_⟩
  have := noRegress_of_fifo v hr (k := nextIdx g0.s L) (Q := Q) as (gstep v g0 (.submit L f c)) [] (pinv_step v hr g0 inv0 _)
    (by rw [gstep_s]; exact est_step v hr g0 inv0 _ est0 hleL) (by rw [gstep_s]; exact arSrc_step v hr g0.s _ har0)
    (by rw [gstep_s, hnodeL]; show _ ≤ ((g0.s.nodes L).log ++ [_]).length; simp [nextIdx])
    (by rw [gstep_s]; exact stableRun_cons hstable) (by rw [gstep_s]; exact hfifo)
    (by intro p hp; rw [gstep_s]
        exact kf_start_conv inv0 est0 (hbound p hp) (by unfold nextIdx; omega) hmsgs (by rw [hnodeL]; rfl))
  rw [gstep_s] at this; exact this

end HappyModel.C11
