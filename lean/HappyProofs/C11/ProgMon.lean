import HappyProofs.C11.ProgCommit
/-! The fairness side of the bounded-progress theorem, as decidable predicates over the action list:

* `ackedRun v L t k p s as`  the run contains, in this order, the delivery to follower `p` of an
                             AppendEntries of term `t` from `L` that carries index `k`, and the
                             delivery to `L` of the reply `p` sent to exactly that message
* `noRegressRun …`           no acknowledgement of fewer than `k` entries from a follower of `Q` is
                             delivered to `L` once `match_index` for that follower has reached `k`
                             (an older reply does not overtake a newer one)

and the one step that needs the model's handlers unfolded: a follower in sync accepts such an
AppendEntries and answers with a successful acknowledgement of at least `k` entries (`accept_step`). -/
namespace HappyModel.C11
open Spec

/-- an AppendEntries of term `t` whose entries cover index `k` -/
def carries (t k : Nat) : Body → Bool
  | .ae t' _ pi _ es _ => t' == t && decide (pi < k) && decide (k ≤ pi + es.length)
  | _ => false

/-- where follower `p` stands: waiting for the entry, entry accepted (reply has id `rid`), reply handled by the leader -/
inductive Ph
  | waitAE
  | waitAR (rid : Nat)
  | done
deriving DecidableEq, Repr

def phStep (s : St) (L t k p : Nat) : Ph → Act → Ph
  | .waitAE, .deliver m =>
    match findMsg s m with
    | some e => if canDeliver s e && e.src == L && e.dst == p && carries t k e.body then .waitAR s.nextId else .waitAE
    | none => .waitAE
  | .waitAR rid, .deliver m =>
    if m = rid then
      match findMsg s m with
      | some e => if canDeliver s e then .done else .waitAR rid
      | none => .waitAR rid
    else .waitAR rid
  | ph, _ => ph

def phRun (v : Variant) (L t k p : Nat) : Ph → St → List Act → Ph
  | ph, _, [] => ph
  | ph, s, a :: as => phRun v L t k p (phStep s L t k p ph a) (step v s a).1 as

/-- FAIRNESS for follower `p`: the entry at `k` reaches `p` and `p`'s reply reaches `L` -/
def ackedRun (v : Variant) (L t k p : Nat) (s : St) (as : List Act) : Bool :=
  decide (phRun v L t k p .waitAE s as = .done)

/-- the action hands `L` an acknowledgement `< k` from a follower of `Q` whose `match_index` is already `≥ k` -/
def regress (s : St) (L t k : Nat) (Q : List Nat) : Act → Bool
  | .deliver m =>
    match findMsg s m with
    | some e =>
      canDeliver s e && e.dst == L &&
        (match e.body with
         | .ar t' true f mi => t' == t && Q.contains f && decide (mi < k) && decide (k ≤ (s.nodes L).matchIndex.getD f 0)
         | _ => false)
    | none => false
  | _ => false

def noRegressRun (v : Variant) (L t k : Nat) (Q : List Nat) : St → List Act → Bool
  | _, [] => true
  | s, a :: as => !regress s L t k Q a && noRegressRun v L t k Q (step v s a).1 as

theorem phStep_done (s : St) (L t k p : Nat) (a : Act) : phStep s L t k p .done a = .done := by
  cases a <;> rfl

/-- a phase only moves forward -/
theorem phStep_cases (s : St) (L t k p : Nat) (ph : Ph) (a : Act) :
    phStep s L t k p ph a = ph
    ∨ (ph = .waitAE ∧ phStep s L t k p ph a = .waitAR s.nextId ∧
        ∃ m e, a = .deliver m ∧ findMsg s m = some e ∧ canDeliver s e = true ∧ e.src = L ∧ e.dst = p ∧ carries t k e.body = true)
    ∨ (∃ rid e, ph = .waitAR rid ∧ phStep s L t k p ph a = .done ∧ a = .deliver rid ∧ findMsg s rid = some e ∧ canDeliver s e = true) := by
  cases ph with
  | done => left; exact phStep_done s L t k p a
  | waitAE =>
    cases a with
    | deliver m =>
      cases hf : findMsg s m with
      | none => left; simp [phStep, hf]
      | some e =>
        by_cases hc : (canDeliver s e && e.src == L && e.dst == p && carries t k e.body) = true
        · right; left
          have hc' := hc
          simp only [Bool.and_eq_true, beq_iff_eq] at hc'
          exact ⟨rfl, by simp only [phStep, hf, hc, if_true], m, e, rfl, hf, hc'.1.1.1, hc'.1.1.2, hc'.1.2, hc'.2⟩
        · left; simp only [phStep, hf, hc]; rfl
    | _ => left; rfl
  | waitAR rid =>
    cases a with
    | deliver m =>
      by_cases hm : m = rid
      · subst hm
        cases hf : findMsg s m with
        | none => left; simp [phStep, hf]
        | some e =>
          by_cases hc : canDeliver s e = true
          · right; right
            exact ⟨m, e, rfl, by simp only [phStep, hf, hc, if_true], rfl, hf, hc⟩
          · left; simp only [phStep, hf, hc, if_true]; rfl
      · left; simp only [phStep, hm, if_false]
    | _ => left; rfl

/-! ### small facts -/

theorem getE_prefix {l l' : List Entry} {k : Nat} {e : Entry} (h : getE l k = some e) (hp : l <+: l') : getE l' k = some e := by
  unfold getE at h ⊢
  split at h
  · cases h
  · rename_i hk
    rw [if_neg hk]
    obtain ⟨t, rfl⟩ := hp
    obtain ⟨hlt, _⟩ := List.getElem?_eq_some_iff.mp h
    rw [List.getElem?_append_left hlt]; exact h

theorem getE_le {l : List Entry} {k : Nat} {e : Entry} (h : getE l k = some e) : 1 ≤ k ∧ k ≤ l.length := by
  unfold getE at h
  split at h
  · cases h
  · have := (List.getElem?_eq_some_iff.mp h).1; omega

theorem getPending_set {p : List (Nat × Nat)} {idx k f : Nat} (h : idx ≠ k) : getPending (setPending p idx f) k = getPending p k := by
  rw [← getPending_pop (p := p) h]
  unfold getPending setPending
  rw [List.find?_append]
  have : List.find? (fun q : Nat × Nat => q.1 == k) [(idx, f)] = none := by simp [h]
  rw [this, Option.or_none]

theorem step_deliver {v : Variant} {s : St} {m : Nat} {e : Env} (hf : findMsg s m = some e) (hc : canDeliver s e = true) :
    step v s (.deliver m) = applyHR s e.dst (handleMsg v s.n (s.nodes e.dst) e) := by
  simp only [step, hf, hc, if_true]

/-! ### a follower in sync accepts the entry -/

theorem sync_not_bad {s : St} {L t p : Nat} (hs : Sync s L t p) (v : Variant) {pi pt : Nat}
    (h : Agree (s.nodes L).log (s.nodes p).log pi ∧ pt = (if pi > 0 then termAt (s.nodes L).log pi else 0)) :
    aeBad (stepDown v (s.nodes p) t) pi pt = false := by
  obtain ⟨hag, hpt⟩ := h
  unfold aeBad
  by_cases hpi : pi > 0
  · have hlen : pi - 1 < (s.nodes L).log.length := by have := hag.1; omega
    have hget : getE (s.nodes L).log pi = some (s.nodes L).log[pi - 1] := by
      unfold getE; rw [if_neg (by omega), List.getElem?_eq_getElem hlen]
    have hget' := hag.entry (Nat.le_refl _) hget
    rw [stepDown_log, hget']
    rw [if_pos hpi] at hpt
    have : termAt (s.nodes L).log pi = ((s.nodes L).log[pi - 1]).term := by unfold termAt; rw [hget]
    simp [hpt, this]
  · simp [hpi]

theorem accept_step (v : Variant) (hr : Rep v) (g : GSt) (inv : PInv g) {L t p k m0 : Nat} {e : Env} (hest : Est g.s L t)
    (hs : Sync g.s L t p) (hf : findMsg g.s m0 = some e) (hc : canDeliver g.s e = true) (hdst : e.dst = p)
    (hcar : carries t k e.body = true) :
    ∃ m, k ≤ m ∧ (step v g.s (.deliver m0)).1.msgs = ⟨g.s.nextId, p, e.src, .ar t true p m⟩ :: g.s.msgs
      ∧ Agree ((step v g.s (.deliver m0)).1.nodes L).log ((step v g.s (.deliver m0)).1.nodes p).log k := by
  have hmem := findMsg_mem hf
  cases hb : e.body with
  | rv _ _ _ _ => rw [hb] at hcar; cases hcar
  | vr _ _ _ => rw [hb] at hcar; cases hcar
  | ar _ _ _ _ => rw [hb] at hcar; cases hcar
  | ae t' l pi pt es lc =>
    rw [hb] at hcar
    simp only [carries, Bool.and_eq_true, beq_iff_eq, decide_eq_true_eq] at hcar
    obtain ⟨⟨ht', hpik⟩, hkle⟩ := hcar
    subst ht'
    have hsy := hs.ae e hmem hdst l pi pt es lc hb
    have hbad := sync_not_bad hs v hsy
    have hstep := step_deliver (v := v) hf hc
    rw [hdst] at hstep
    have hh : handleMsg v g.s.n (g.s.nodes p) e = aeAccept v (stepDown v (g.s.nodes p) t') p e.src pi es lc := by
      unfold handleMsg; simp only [hb]
      unfold handleAE
      rw [if_neg (by rw [hs.pterm]; omega), hbad]
      simp [hdst]
    rw [hh] at hstep
    have hterm : (aeCommit (appendLoop v (stepDown v (g.s.nodes p) t') (pi + 1) es) lc).node.term = t' := by
      have : (aeCommit (appendLoop v (stepDown v (g.s.nodes p) t') (pi + 1) es) lc).node.ev = (stepDown v (g.s.nodes p) t').ev := by
        rw [aeCommit_ev, appendLoop_ev]
      exact (ev_eq this).1
    refine ⟨pi + es.length, hkle, ?_, ?_⟩
    · rw [hstep]
      simp only [applyHR, aeAccept, hr.ms, if_true, mkEnvs, List.reverse_cons, List.reverse_nil, List.nil_append, List.singleton_append]
      rw [hterm]
    · obtain ⟨_, _, _, X, hX, hlen, hpre, _⟩ := accept_facts v hr inv.all.li inv.all.hi (g.s.nodes p) (inv.all.li.b p) (inv.all.hi.n_cl p)
        (inv.all.hi.n_cn p) (inv.all.hi.m_ae e hmem t' l pi pt es lc hb) (by rw [hs.pterm]; exact Nat.le_refl _) hbad _ rfl
      have hXL : X <+: (g.s.nodes L).log := leaderLog_prefix inv.all hest.role (by rw [hest.term]; exact hX)
      rw [hstep]
      simp only [applyHR, upd_same]
      rw [upd_other _ _ _ _ (fun h => hs.pne h.symm)]
      show Agree (g.s.nodes L).log (aeCommit (appendLoop v (stepDown v (g.s.nodes p) t') (pi + 1) es) lc).node.log k
      refine ⟨by have := hXL.length_le; omega, ?_⟩
      rw [take_eq_of_prefix hXL (by omega)]
      exact (List.take_prefix _ _).trans hpre

end HappyModel.C11
