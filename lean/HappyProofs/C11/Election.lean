import HappyProofs.C11.ElectStep2
/-! `EInv` along every run, and election safety in the form the Spec judges. -/
namespace HappyModel.C11
open Spec

theorem voteOk_msg {g : GSt} (inv : EInv g) (v : Variant) (hk : v.keepVote = true) (e : Env) (he : e ∈ g.s.msgs) :
    VoteOk g e.dst (handleMsg v g.s.n (g.s.nodes e.dst) e) := by
  unfold handleMsg
  split
  · rename_i t c li lt hb
    have := inv.m0 e he t c li lt hb
    rw [this]; exact voteOk_rv inv v hk e.dst e.src t li lt
  · rename_i t gr f hb
    apply voteOk_vr inv v hk
    intro hg; rw [hg] at hb
    exact inv.m1 e he t f hb
  · exact voteOk_ae inv v hk ..
  · exact voteOk_ar inv v hk ..

theorem einv_idle {g : GSt} (inv : EInv g) (s' : St) (hn : s'.nodes = g.s.nodes) (hm : ∀ e ∈ s'.msgs, e ∈ g.s.msgs)
    (hsz : s'.n = g.s.n) : EInv { g with s := s' } := by
  refine ⟨?_, ?_, ?_, inv.v3, ?_, ?_, ?_, ?_, ?_, ?_, ?_, ?_⟩
  · intro j c h; simp only [hn] at h ⊢; exact inv.v0 j c h
  · intro v t c h; simp only [hn]; exact inv.v1 v t c h
  · intro v t c h ht; simp only [hn] at ht ⊢; exact inv.v2 v t c h ht
  · intro v t c h; simp only [hsz]; exact inv.vlt v t c h
  · intro e he; exact inv.m0 e (hm e he)
  · intro e he; exact inv.m1 e (hm e he)
  · intro c h; simp only [hn] at h ⊢; exact inv.c1 c h
  · intro c; simp only [hn]; exact inv.c2 c
  · intro i h; simp only [hn] at h ⊢; exact inv.l0 i h
  · intro t c h; simp only [hsz]; exact inv.l1 t c h
  · intro t i h; simp only [hn]; exact inv.l2 t i h

theorem einv_step (v : Variant) (hk : v.keepVote = true) (g : GSt) (inv : EInv g) (a : Act) : EInv (gstep v g a) := by
  rcases step_case v g.s a with ⟨hn, hm, hsz, ht, _, _⟩ | ⟨e, _, he, hi, _, _, ht, hs⟩ | ⟨i, _, hi, ht, hs⟩ | ⟨i, _, hi, ht, hs⟩ | ⟨i, f, c, _, hi, ht, hs⟩
  · rw [gstep_idle ht]; exact einv_idle inv _ hn hm hsz
  · rw [gstep_handler ht hs]; exact einv_handler inv hi (voteOk_msg inv v hk e he) _
  · rw [gstep_handler ht hs]; exact einv_handler inv hi (voteOk_timeout inv i) _
  · rw [gstep_handler ht hs]; exact einv_handler inv hi (voteOk_hb inv i) _
  · rw [gstep_handler ht hs]; exact einv_handler inv hi (voteOk_submit inv i f c) _

theorem einv_run (v : Variant) (hk : v.keepVote = true) (as : List Act) : ∀ g, EInv g → EInv (grun v g as) := by
  induction as with
  | nil => intro g h; exact h
  | cons a as ih => intro g h; exact ih _ (einv_step v hk g h a)

/-- the ledger only grows -/
theorem leaders_mono_step (v : Variant) (g : GSt) (a : Act) : ∀ x ∈ g.leaders, x ∈ (gstep v g a).leaders := by
  intro x hx
  unfold gstep; split
  · exact List.mem_append_right _ hx
  · exact hx

theorem leaders_mono_run (v : Variant) (as : List Act) : ∀ g, ∀ x ∈ g.leaders, x ∈ (grun v g as).leaders := by
  induction as with
  | nil => intro g x hx; exact hx
  | cons a as ih => intro g x hx; exact ih _ x (leaders_mono_step v g a x hx)

theorem getElem?_viewsOf {s : St} {i : Nat} {w : NodeView} (h : (viewsOf s)[i]? = some w) :
    i < s.n ∧ w = viewOf (s.nodes i) := by
  unfold viewsOf at h
  rw [List.getElem?_map] at h
  by_cases hi : i < s.n
  · rw [List.getElem?_range hi] at h
    simp only [Option.map_some, Option.some.injEq] at h
    exact ⟨hi, h.symm⟩
  · have : (List.range s.n)[i]? = none := by
      apply List.getElem?_eq_none; simp; omega
    rw [this] at h; simp at h

theorem leaderObs_viewsOf {s : St} {f : Frame} (hf : f.views = viewsOf s) {t i : Nat} (h : (t, i) ∈ leaderObs f) :
    (s.nodes i).role = .leader ∧ (s.nodes i).term = t := by
  unfold leaderObs at h
  obtain ⟨⟨w, k⟩, hmem, hsome⟩ := List.mem_filterMap.mp h
  have hget := List.mem_zipIdx_iff_getElem?.mp hmem
  simp only at hget hsome
  rw [hf] at hget
  obtain ⟨_, hw⟩ := getElem?_viewsOf hget
  split at hsome
  · rename_i hl
    simp only [Option.some.injEq, Prod.mk.injEq] at hsome
    obtain ⟨h1, h2⟩ := hsome
    subst h2
    rw [hw] at hl h1
    exact ⟨hl, h1⟩
  · cases hsome

theorem frameOf_views (s' : St) (o : StepOut) (a : Act) : (frameOf s' o a).views = viewsOf s' := rfl

/-- every leader observation of a run is in the ledger at the end of the run -/
theorem obs_in_ledger (v : Variant) (hk : v.keepVote = true) (as : List Act) :
    ∀ g, EInv g → ∀ f ∈ framesFrom v g.s as, ∀ p ∈ leaderObs f, p ∈ (grun v g as).leaders := by
  induction as with
  | nil => intro g _ f hf; simp [framesFrom] at hf
  | cons a as ih =>
    intro g inv f hf p hp
    have inv' := einv_step v hk g inv a
    simp only [framesFrom, List.mem_cons] at hf
    rcases hf with hf | hf
    · obtain ⟨t, i⟩ := p
      have hv : f.views = viewsOf (gstep v g a).s := by rw [hf, gstep_s]; rfl
      obtain ⟨hr, ht⟩ := leaderObs_viewsOf hv hp
      have := inv'.l0 i hr
      rw [ht] at this
      exact leaders_mono_run v as _ _ this
    · have := ih (gstep v g a) inv' f (by rw [gstep_s]; exact hf) p hp
      exact this

theorem initObs (n : Nat) : leaderObs { views := viewsOf (init n) } = [] := by
  apply List.eq_nil_iff_forall_not_mem.mpr
  intro p hp
  obtain ⟨t, i⟩ := p
  have := (leaderObs_viewsOf (s := init n) rfl hp).1
  simp [init, initNode] at this

/-- ELECTION SAFETY.  For every cluster size, every action list (deliveries in any order, with
    duplication and loss, timeouts and heartbeats at any moment, client commands, crashes and
    restarts) and every repair variant that keeps a vote within its term: all leader observations of
    the run that carry the same term name the same node. -/
theorem election_safety (v : Variant) (hk : v.keepVote = true) (n : Nat) (as : List Act) :
    electionOk (frames v n as) = true := by
  have inv := einv_run v hk as (ginit n) (einv_init n)
  unfold electionOk
  simp only [List.all_eq_true]
  intro a ha b hb
  have key : ∀ p ∈ (frames v n as).flatMap leaderObs, p ∈ (grun v (ginit n) as).leaders := by
    intro p hp
    obtain ⟨f, hf, hpf⟩ := List.mem_flatMap.mp hp
    simp only [frames, List.mem_cons] at hf
    rcases hf with hf | hf
    · rw [hf, initObs] at hpf; cases hpf
    · exact obs_in_ledger v hk as (ginit n) (einv_init n) f hf p hpf
  obtain ⟨t1, c1⟩ := a
  obtain ⟨t2, c2⟩ := b
  by_cases ht : t1 = t2
  · subst ht
    have := leaders_unique inv (key _ ha) (key _ hb)
    simp [this]
  · simp [ht]

end HappyModel.C11
