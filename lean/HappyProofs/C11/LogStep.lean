import HappyProofs.C11.LogInv
/-! One lemma preserves `LInv` across any handler step, given what the handler did to the log. -/
namespace HappyModel.C11

structure LogOk (g : GSt) (i : Nat) (r : HR) (cr : List (List Entry)) : Prop where
  shape : (r.node.log = (g.s.nodes i).log ∧ cr = [])
        ∨ (∃ c, r.node.log = (g.s.nodes i).log ++ [⟨(g.s.nodes i).term, c⟩] ∧ (g.s.nodes i).role = .leader
              ∧ r.node.role = .leader ∧ r.node.term = (g.s.nodes i).term ∧ cr = [r.node.log])
        ∨ (r.node.role ≠ .leader ∧ Rec g.created r.node.log ∧ cr = [])
  lead : r.node.role = .leader →
        ((g.s.nodes i).role = .leader ∧ r.node.term = (g.s.nodes i).term)
        ∨ ((g.s.nodes i).role ≠ .leader ∧ ((g.s.nodes i).term < r.node.term
              ∨ (r.node.term = (g.s.nodes i).term ∧ (g.s.nodes i).role = .candidate)))
  sends : ∀ d t l pi pt es lc, (d, Body.ae t l pi pt es lc) ∈ r.sends → AEok (cr ++ g.created) pi pt es

theorem linv_handler {g : GSt} {i : Nat} {r : HR} {cr : List (List Entry)}
    (einv : EInv g) (einv' : EInv (gApply g i r cr)) (linv : LInv g) (ok : LogOk g i r cr) :
    LInv (gApply g i r cr) := by
  have hmonoC : ∀ L ∈ g.created, L ∈ cr ++ g.created := fun L h => List.mem_append_right _ h
  -- the only possible new record
  have hnew : ∀ L ∈ cr, ∃ c, L = (g.s.nodes i).log ++ [⟨(g.s.nodes i).term, c⟩] ∧ (g.s.nodes i).role = .leader
      ∧ r.node.log = L ∧ r.node.role = .leader ∧ r.node.term = (g.s.nodes i).term := by
    intro L hL
    rcases ok.shape with ⟨_, h⟩ | ⟨c, h1, h2, h3, h4, h5⟩ | ⟨_, _, h⟩
    · rw [h] at hL; cases hL
    · rw [h5] at hL; simp only [List.mem_singleton] at hL
      exact ⟨c, by rw [hL, h1], h2, hL.symm, h3, h4⟩
    · rw [h] at hL; cases hL
  refine ⟨?_, ?_, ?_, ?_, ?_, ?_⟩
  · -- g0
    intro L hL
    simp only [gApply_created] at hL
    rcases List.mem_append.mp hL with h | h
    · obtain ⟨c, hc, _⟩ := hnew L h; rw [hc]; simp
    · exact linv.g0 L h
  · -- g1
    intro L hL L' hL' hlen hterm
    simp only [gApply_created] at hL hL'
    have clash : ∀ N ∈ cr, ∀ M ∈ g.created, N.length = M.length → lastTerm N = lastTerm M → False := by
      intro N hN M hM hl ht
      obtain ⟨c, hc, hlead, _⟩ := hnew N hN
      have := linv.g2 i hlead M hM (by rw [← ht, hc, lastTerm_concat])
      rw [hc] at hl; simp at hl; omega
    rcases List.mem_append.mp hL with h | h <;> rcases List.mem_append.mp hL' with h' | h'
    · obtain ⟨c, hc, _, hl, _⟩ := hnew L h
      obtain ⟨c', hc', _, hl', _⟩ := hnew L' h'
      rw [← hl, ← hl']
    · exact absurd (clash L h L' h' hlen hterm) id
    · exact absurd (clash L' h' L h hlen.symm hterm.symm) id
    · exact linv.g1 L h L' h' hlen hterm
  · -- g2
    intro j hrole L hL hterm
    simp only [gApply_nodes, gApply_created] at hrole hL hterm ⊢
    by_cases hj : j = i
    · rw [hj] at hrole hterm ⊢; simp only [upd_same] at hrole hterm ⊢
      rcases ok.lead hrole with ⟨hl, ht⟩ | ⟨hnl, hcase⟩
      · rcases List.mem_append.mp hL with h | h
        · obtain ⟨c, _, _, hlog, _⟩ := hnew L h
          rw [hlog]; exact ⟨Nat.le_refl _, List.take_length⟩
        · have hold := linv.g2 i hl L h (by rw [hterm, ht])
          rcases ok.shape with ⟨h1, _⟩ | ⟨c, h1, _⟩ | ⟨h1, _⟩
          · rw [h1]; exact hold
          · rw [h1]; refine ⟨by simp; omega, ?_⟩
            rw [List.take_append_of_le_length hold.1]; exact hold.2
          · exact absurd hrole h1
      · -- newly leader: no record of this term exists yet
        exfalso
        have hLold : L ∈ g.created := by
          rcases List.mem_append.mp hL with h | h
          · obtain ⟨_, _, hl, _⟩ := hnew L h; exact absurd hl hnl
          · exact h
        obtain ⟨c, hc⟩ := linv.g3 L hLold
        have h1 : (r.node.term, i) ∈ (gApply g i r cr).leaders := by
          have := einv'.l0 i (by simp only [gApply_nodes, upd_same]; exact hrole)
          simpa only [gApply_nodes, upd_same] using this
        have h2 : (r.node.term, c) ∈ (gApply g i r cr).leaders := by
          rw [← hterm]; exact List.mem_append_right _ hc
        have hci := leaders_unique einv' h2 h1
        rw [hci, hterm] at hc
        obtain ⟨hle, hnc⟩ := einv.l2 _ _ hc
        rcases hcase with hlt | ⟨heq, hcand⟩
        · omega
        · exact hnc heq hcand
    · rw [upd_other _ _ _ _ hj] at hrole hterm ⊢
      rcases List.mem_append.mp hL with h | h
      · exfalso
        obtain ⟨c, hc, hlead, _⟩ := hnew L h
        have h1 := einv.l0 j hrole
        have h2 := einv.l0 i hlead
        rw [hc, lastTerm_concat] at hterm
        rw [← hterm] at h1
        exact hj (leaders_unique einv h1 h2)
      · exact linv.g2 j hrole L h hterm
  · -- g3
    intro L hL
    simp only [gApply_created, gApply_leaders] at hL ⊢
    rcases List.mem_append.mp hL with h | h
    · obtain ⟨c, hc, hlead, _⟩ := hnew L h
      refine ⟨i, List.mem_append_right _ ?_⟩
      rw [hc, lastTerm_concat]; exact einv.l0 i hlead
    · obtain ⟨c, hc⟩ := linv.g3 L h
      exact ⟨c, List.mem_append_right _ hc⟩
  · -- b
    intro j
    simp only [gApply_nodes, gApply_created]
    by_cases hj : j = i
    · rw [hj]; simp only [upd_same]
      rcases ok.shape with ⟨h1, _⟩ | ⟨c, h1, _, _, _, h5⟩ | ⟨_, h2, _⟩
      · rw [h1]; exact (linv.b i).mono hmonoC
      · rw [h1]; apply Rec.concat ((linv.b i).mono hmonoC)
        rw [h5, h1]; simp
      · exact h2.mono hmonoC
    · rw [upd_other _ _ _ _ hj]; exact (linv.b j).mono hmonoC
  · -- m
    intro e he t l pi pt es lc hb
    simp only [gApply_created]
    rcases gApply_msgs he with h | ⟨_, hmem⟩
    · exact (linv.m e h t l pi pt es lc hb).mono hmonoC
    · rw [hb] at hmem; exact ok.sends _ _ _ _ _ _ _ hmem

end HappyModel.C11
