import HappyProofs.C11.HStepC
/-! `HInv` across a handler step, part D: the message clauses; then every step and every run. -/
namespace HappyModel.C11

theorem AEM.mono {g g' : GSt} (h : GLe g g') {t pi pt : Nat} {es : List Entry} {lc : Nat} (a : AEM g t pi pt es lc) :
    AEM g' t pi pt es lc := by
  obtain ⟨X, h1, h2, h3, h4, h5⟩ := a
  exact ⟨X, h1.mono h, h2, h3, h4, h5.mono h (Nat.le_refl _)⟩

theorem ARM.mono {g g' : GSt} (h : GLe g g') {t f m : Nat} (a : ARM g t f m) : ARM g' t f m := by
  rcases a with a | ⟨X, L, h1, h2, h3, h4⟩
  · exact Or.inl a
  · exact Or.inr ⟨X, L, h1.mono h, h2, h.seen _ h3, h4⟩

namespace Ctx
variable {v : Variant} {g : GSt} {i : Nat} {inp : Option Body} {r : HR} {cr : List (List Entry)}

/-- every AppendEntries a handler sends is built by a leader from the state it is left in -/
theorem ae_sent (c : Ctx v g i inp r cr) {d : Nat} {b : Body} (hb : ∃ t l pi pt es lc, b = .ae t l pi pt es lc) (h : (d, b) ∈ r.sends) :
    r.node.role = .leader ∧ ∃ p, b = aeFor r.node i p := by
  obtain ⟨t, l, pi, pt, es, lc, hb⟩ := hb
  rcases c.hk with ⟨_, _, _, _, _, snd⟩ | ⟨_, _, _, _, _, _, _, _, _, _, _, _, _, _, snd⟩ | ⟨_, _, _, _, _, _, snd⟩
    | ⟨_, _, _, _, _, role, _, snd⟩ | ⟨_, _, _, _, role, _, _, snd⟩ | ⟨_, _, _, _, _, _, _, _, _, _, _, snd⟩
    | ⟨_, _, _, _, _, snd⟩ | ⟨_, _, _, _, _, _, _, _, snd⟩
  · rcases snd _ _ h with ⟨_, _, h'⟩ | ⟨_, _, _, h'⟩ <;> rw [hb] at h' <;> cases h'
  · rw [snd, hb] at h; simp at h
  · rcases snd _ _ h with h' | h'
    · rw [hb] at h'; cases h'
    · exact h'
  · exact ⟨role, snd _ _ h⟩
  · exact ⟨role, snd _ _ h⟩
  · rw [snd, hb] at h; simp at h
  · rw [snd] at h; cases h
  · rw [snd] at h; cases h

/-- the only successful acknowledgement a handler sends is that of an accepted AppendEntries -/
theorem ar_sent (c : Ctx v g i inp r cr) {d t f m : Nat} (h : (d, Body.ar t true f m) ∈ r.sends) :
    f = i ∧ r.node.term = t ∧ ∃ X, LeaderLog g t X ∧ m = X.length ∧ X <+: r.node.log := by
  rcases c.hk with ⟨_, _, _, _, _, snd⟩ | ⟨_, _, _, _, _, _, _, _, _, _, _, _, _, _, snd⟩ | ⟨_, _, _, _, _, _, snd⟩
    | ⟨_, _, _, _, _, _, _, snd⟩ | ⟨_, _, _, _, _, _, _, snd⟩ | ⟨t', l, pi, pt, es, lc, src, hin, hle, hbad, hnode, snd⟩
    | ⟨_, _, _, _, _, snd⟩ | ⟨_, _, _, _, _, _, _, _, snd⟩
  · rcases snd _ _ h with ⟨_, _, h'⟩ | ⟨_, _, _, h'⟩ <;> cases h'
  · rw [snd] at h; simp at h
  · rcases snd _ _ h with h' | ⟨_, p, h'⟩
    · cases h'
    · obtain ⟨_, _, _, _, _, _, hae⟩ := aeFor_isAE r.node i p
      rw [hae] at h'; cases h'
  · obtain ⟨p, h'⟩ := snd _ _ h
    obtain ⟨_, _, _, _, _, _, hae⟩ := aeFor_isAE r.node i p
    rw [hae] at h'; cases h'
  · obtain ⟨p, h'⟩ := snd _ _ h
    obtain ⟨_, _, _, _, _, _, hae⟩ := aeFor_isAE r.node i p
    rw [hae] at h'; cases h'
  · rw [snd] at h
    simp only [List.mem_singleton, Prod.mk.injEq, Body.ar.injEq, true_and] at h
    obtain ⟨_, e1, e2, e3⟩ := h
    obtain ⟨f1, _, _, X, hX, hlen, hpre, _⟩ := c.accept hin hle hbad hnode
    exact ⟨e2, by rw [f1, e1], X, by rw [e1]; exact hX, by rw [e3, hlen], hpre⟩
  · rw [snd] at h; cases h
  · rw [snd] at h; cases h

theorem m_ae' (c : Ctx v g i inp r cr) : ∀ e ∈ (gApply g i r cr).s.msgs, ∀ t l pi pt es lc, e.body = .ae t l pi pt es lc →
    AEM (gApply g i r cr) t pi pt es lc := by
  intro e he t l pi pt es lc hb
  rcases gApply_msgs he with h | ⟨_, hmem⟩
  · exact (c.hi.m_ae e h t l pi pt es lc hb).mono c.gle
  · obtain ⟨hrole, p, hp⟩ := c.ae_sent ⟨t, l, pi, pt, es, lc, hb⟩ hmem
    rw [hb] at hp
    unfold aeFor at hp
    simp only [Body.ae.injEq] at hp
    obtain ⟨e1, _, e3, e4, e5, e6⟩ := hp
    have hl := c.n_ldr' i (by rw [c.node_self]; exact hrole)
    have hc := c.n_cn' i
    have hcl := c.cl' i
    rw [c.node_self] at hl hc hcl
    exact ⟨r.node.log, by rw [e1]; exact hl, by rw [e5, e3], by rw [e4, e3], by rw [e6]; exact hcl, by rw [e6, e1]; exact hc⟩

theorem m_ar' (c : Ctx v g i inp r cr) : ∀ e ∈ (gApply g i r cr).s.msgs, ∀ t f m, e.body = .ar t true f m →
    ARM (gApply g i r cr) t f m := by
  intro e he t f m hb
  rcases gApply_msgs he with h | ⟨_, hmem⟩
  · exact (c.hi.m_ar e h t f m hb).mono c.gle
  · rw [hb] at hmem
    obtain ⟨e1, e2, X, hX, hm, hpre⟩ := c.ar_sent hmem
    right
    refine ⟨X, r.node.log, hX.mono c.gle, by omega, ?_, ?_⟩
    · simp only [gApply_seen, e1, e2]; simp
    · rw [hm, List.take_length]; exact hpre

theorem hinv (c : Ctx v g i inp r cr) : HInv (gApply g i r cr) :=
  ⟨c.r_mono', c.r_same', c.r_ll', c.r_closed', c.ll_led', c.ll_uniq', c.ll_rec', c.ll_lt', c.ll_q', c.s_term', c.s_rec',
   c.k0', c.k1', c.k2', c.kvt', c.vm', c.n_lt', c.n_ldr', c.n_ms', c.n_seen', c.n_cn', c.cl', c.n_a1', c.m_rv', c.m_ae', c.m_ar'⟩

end Ctx

/-- steps that run no handler (drop, crash, restart, undeliverable) keep `HInv` -/
theorem hinv_idle {g : GSt} (hi : HInv g) (s' : St) (hn : s'.nodes = g.s.nodes) (hm : ∀ e ∈ s'.msgs, e ∈ g.s.msgs)
    (hsz : s'.n = g.s.n) : HInv { g with s := s' } := by
  obtain ⟨n', nodes', cr', msgs', nid'⟩ := s'
  simp only at hn hm hsz
  subst hn hsz
  exact ⟨hi.r_mono, hi.r_same, hi.r_ll, hi.r_closed, hi.ll_led, hi.ll_uniq, hi.ll_rec, hi.ll_lt, hi.ll_q, hi.s_term, hi.s_rec,
    hi.k0, hi.k1, hi.k2, hi.kvt, hi.vm, hi.n_lt, hi.n_ldr, hi.n_ms, hi.n_seen, hi.n_cn, hi.n_cl, hi.n_a1,
    fun e he => hi.m_rv e (hm e he), fun e he => hi.m_ae e (hm e he), fun e he => hi.m_ar e (hm e he)⟩

/-- all invariants of the safety proof together -/
structure AllInv (g : GSt) : Prop where
  ei : EInv g
  li : LInv g
  hi : HInv g

theorem allInv_init (n : Nat) : AllInv (ginit n) := ⟨einv_init n, linv_init n, hinv_init n⟩

/-- a step of the ghost system: no handler ran, or one did — in the setting `Ctx` -/
inductive GStepCase (v : Variant) (g : GSt) (a : Act) : Prop
  | idle (hn : (step v g.s a).1.nodes = g.s.nodes) (hm : ∀ e ∈ (step v g.s a).1.msgs, e ∈ g.s.msgs)
      (hsz : (step v g.s a).1.n = g.s.n) (hg : gstep v g a = { g with s := (step v g.s a).1 })
  | handler (i : Nat) (inp : Option Body) (r : HR) (cr : List (List Entry)) (hg : gstep v g a = gApply g i r cr)
      (hs : step v g.s a = applyHR g.s i r) (c : Ctx v g i inp r cr)

theorem gstep_case (v : Variant) (hr : Rep v) (g : GSt) (inv : AllInv g) (a : Act) : GStepCase v g a := by
  have ei' := einv_step v hr.kv g inv.ei a
  have li' := linv_step v hr.kv g inv.ei inv.li a
  have cl : CLen g.s := inv.hi.n_cl
  have cl' : CLen (gstep v g a).s := by rw [gstep_s]; exact (commit_monotone_partial v g.s a cl).1
  rcases step_case v g.s a with ⟨hn, hm, hsz, ht, _, _⟩ | ⟨e, hcr, he, hi, _, _, ht, hs⟩ | ⟨i, hcr, hi, ht, hs⟩ | ⟨i, hcr, hi, ht, hs⟩
    | ⟨i, f, k, ha, hi, ht, hs⟩
  · exact .idle hn hm hsz (gstep_idle ht)
  · have hg := gstep_handler ht hs
    rw [hcr.1] at hg
    rw [hg] at ei' li' cl'
    exact .handler e.dst (some e.body) _ [] hg hs (Ctx.mk hr inv.ei inv.li inv.hi cl ei' li' cl' hi (logOk_msg inv.li v e he)
      (hk_msg v hr g.s.n (g.s.nodes e.dst) e) (fun b hb => ⟨e, he, (Option.some.inj hb)⟩))
  · have hg := gstep_handler ht hs
    rw [hcr.1] at hg
    rw [hg] at ei' li' cl'
    exact .handler i none _ [] hg hs (Ctx.mk hr inv.ei inv.li inv.hi cl ei' li' cl' hi (logOk_timeout inv.li i)
      (hk_timeout v g.s.n (g.s.nodes i) i) (fun b hb => by cases hb))
  · have hg := gstep_handler ht hs
    rw [hcr.1] at hg
    rw [hg] at ei' li' cl'
    exact .handler i none _ [] hg hs (Ctx.mk hr inv.ei inv.li inv.hi cl ei' li' cl' hi (logOk_hb inv.li i)
      (hk_hb v g.s.n (g.s.nodes i) i) (fun b hb => by cases hb))
  · subst ha
    have hg := gstep_handler ht hs
    rw [hg] at ei' li' cl'
    exact .handler i none _ _ hg hs (Ctx.mk hr inv.ei inv.li inv.hi cl ei' li' cl' hi (logOk_submit inv.li i f k hi)
      (hk_submit v g.s.n (g.s.nodes i) i f k) (fun b hb => by cases hb))

theorem allInv_step (v : Variant) (hr : Rep v) (g : GSt) (inv : AllInv g) (a : Act) : AllInv (gstep v g a) := by
  refine ⟨einv_step v hr.kv g inv.ei a, linv_step v hr.kv g inv.ei inv.li a, ?_⟩
  rcases gstep_case v hr g inv a with ⟨hn, hm, hsz, hg⟩ | ⟨i, inp, r, cr, hg, _, c⟩
  · rw [hg]; exact hinv_idle inv.hi _ hn hm hsz
  · rw [hg]; exact c.hinv

theorem allInv_run (v : Variant) (hr : Rep v) (as : List Act) : ∀ g, AllInv g → AllInv (grun v g as) := by
  induction as with
  | nil => intro g h; exact h
  | cons a as ih => intro g h; exact ih _ (allInv_step v hr g h a)

theorem gle_step (v : Variant) (hr : Rep v) (g : GSt) (inv : AllInv g) (a : Act) : GLe g (gstep v g a) := by
  rcases gstep_case v hr g inv a with ⟨_, _, hsz, hg⟩ | ⟨i, inp, r, cr, hg, _, c⟩
  · rw [hg]; exact gle_idle g _ hsz
  · rw [hg]; exact c.gle

theorem GLe.trans {g1 g2 g3 : GSt} (h1 : GLe g1 g2) (h2 : GLe g2 g3) : GLe g1 g3 :=
  ⟨by rw [h2.n, h1.n], fun x h => h2.seen x (h1.seen x h), fun x h => h2.llogs x (h1.llogs x h),
   fun x h => h2.created x (h1.created x h), fun x h => h2.cands x (h1.cands x h), fun x h => h2.voted x (h1.voted x h)⟩

theorem gle_run (v : Variant) (hr : Rep v) (as : List Act) : ∀ g, AllInv g → GLe g (grun v g as) := by
  induction as with
  | nil => intro g _; exact ⟨rfl, fun _ h => h, fun _ h => h, fun _ h => h, fun _ h => h, fun _ h => h⟩
  | cons a as ih => intro g h; exact (gle_step v hr g h a).trans (ih _ (allInv_step v hr g h a))

end HappyModel.C11
