import HappyProofs.C11.Accept
import HappyProofs.C11.Completeness
/-! The setting of one handler step (`Ctx`) and the kind-independent facts read off `HK`. -/
namespace HappyModel.C11

structure Ctx (v : Variant) (g : GSt) (i : Nat) (inp : Option Body) (r : HR) (cr : List (List Entry)) : Prop where
  rep : Rep v
  ei : EInv g
  li : LInv g
  hi : HInv g
  cl : CLen g.s
  ei' : EInv (gApply g i r cr)
  li' : LInv (gApply g i r cr)
  cl' : CLen (gApply g i r cr).s
  hlt : i < g.s.n
  lok : LogOk g i r cr
  hk : HK v g.s.n (g.s.nodes i) i inp r
  hin : ∀ b, inp = some b → ∃ e ∈ g.s.msgs, e.body = b

@[simp] theorem applyOne_mi (r : HR) (idx : Nat) (e : Entry) : (applyOne r idx e).node.matchIndex = r.node.matchIndex := by
  unfold applyOne
  simp only []
  split
  · split <;> rfl
  · rfl

@[simp] theorem applyFrom_mi (es : List Entry) : ∀ (r : HR) (idx : Nat), (applyFrom r idx es).node.matchIndex = r.node.matchIndex := by
  induction es with
  | nil => intro r idx; rfl
  | cons e es ih => intro r idx; simp only [applyFrom, ih, applyOne_mi]

theorem tryAdvance_mi (n : Nat) (x : Node) (me : Nat) : (tryAdvance n x me).node.matchIndex = x.matchIndex := by
  unfold tryAdvance; split
  · unfold advanceCommit; simp only []; split
    · rfl
    · rw [applyFrom_mi]
  · rfl

/-- what a successful acknowledgement leaves -/
theorem ack_facts (n : Nat) (x : Node) (me f m : Nat) (hcl : x.commit ≤ x.log.length) (y : Node)
    (hy : y = (tryAdvance n (ackNode x f m) me).node) :
    y.term = x.term ∧ y.role = x.role ∧ y.votedFor = x.votedFor ∧ y.log = x.log ∧ y.matchIndex = x.matchIndex.set f m ∧
    (y.commit = x.commit ∨ ∃ N, x.commit < N ∧ N ≤ x.log.length ∧ termAt x.log N = x.term
        ∧ quorum n ≤ countMatch n (ackNode x f m) me N ∧ y.commit = N) := by
  have hev := ev_eq (tryAdvance_ev n (ackNode x f m) me)
  refine ⟨by rw [hy, hev.1]; rfl, by rw [hy, hev.2.2.1]; rfl, by rw [hy, hev.2.1]; rfl,
    by rw [hy, tryAdvance_log]; rfl, by rw [hy, tryAdvance_mi]; rfl, ?_⟩
  by_cases hc : (tryAdvance n (ackNode x f m) me).node.commit = (ackNode x f m).commit
  · left; rw [hy, hc]; rfl
  · right
    obtain ⟨N, h1, h2, h3, h4, h5⟩ := leader_completeness_partial n (ackNode x f m) me hcl hc
    exact ⟨N, h1, h2, h3, h4, by rw [hy, h5]⟩

namespace Ctx
variable {v : Variant} {g : GSt} {i : Nat} {inp : Option Body} {r : HR} {cr : List (List Entry)}

theorem gle (_ : Ctx v g i inp r cr) : GLe g (gApply g i r cr) := gle_apply g i r cr

theorem node_self (_ : Ctx v g i inp r cr) : (gApply g i r cr).s.nodes i = r.node := by simp
theorem node_other (_ : Ctx v g i inp r cr) {j : Nat} (h : j ≠ i) : (gApply g i r cr).s.nodes j = g.s.nodes j := by
  simp [upd_other _ _ _ _ h]

/-- the digest of the `accept` kind -/
theorem accept (c : Ctx v g i inp r cr) {t l pi pt : Nat} {es : List Entry} {lc : Nat} (hin : inp = some (.ae t l pi pt es lc))
    (hle : (g.s.nodes i).term ≤ t) (hbad : aeBad (stepDown v (g.s.nodes i) t) pi pt = false)
    (hnode : r.node = (aeCommit (appendLoop v (stepDown v (g.s.nodes i) t) (pi + 1) es) lc).node) :
    r.node.term = t ∧ r.node.role = .follower ∧ (r.node.votedFor = none ∨ (r.node.votedFor = (g.s.nodes i).votedFor ∧ r.node.term = (g.s.nodes i).term)) ∧
    ∃ X, LeaderLog g t X ∧ pi + es.length = X.length ∧ X <+: r.node.log ∧
      (r.node.log = (g.s.nodes i).log ∨ (r.node.log = X ∧ ¬ X <+: (g.s.nodes i).log)) ∧
      (g.s.nodes i).commit ≤ r.node.commit ∧ r.node.commit ≤ r.node.log.length ∧
      (r.node.log.take r.node.commit = (g.s.nodes i).log.take (g.s.nodes i).commit
        ∨ (r.node.log.take r.node.commit = X.take lc ∧ CommB g (X.take lc) t)) := by
  obtain ⟨e, he, hb⟩ := c.hin _ hin
  exact accept_facts v c.rep c.li c.hi (g.s.nodes i) (c.li.b i) (c.cl i) (c.hi.n_cn i)
    (c.hi.m_ae e he t l pi pt es lc hb) hle hbad r.node hnode

theorem term_le (c : Ctx v g i inp r cr) : (g.s.nodes i).term ≤ r.node.term := by
  rcases c.hk with ⟨_, _, _, rt, _, _⟩ | ⟨t, _, _, _, _, _, _, _, _, rt, ht, _, _, _, _⟩ | ⟨_, _, _, ht, _, _, _⟩
    | ⟨_, _, _, ht, _, _, _, _⟩ | ⟨_, _, _, _, _, ht, _, _⟩ | ⟨t, l, pi, pt, es, lc, src, hin, hle, hbad, hnode, _⟩
    | ⟨f, m, _, _, hnode, _⟩ | ⟨_, _, _, _, _, _, ht, _, _⟩
  · rcases rt with h | h <;> omega
  · rcases rt with h | h <;> omega
  · omega
  · omega
  · omega
  · rw [(c.accept hin hle hbad hnode).1]; exact hle
  · rw [(ack_facts _ _ _ _ _ (c.cl i) _ hnode).1]; exact Nat.le_refl _
  · omega

/-- only `campaign` (cluster of one) and `elect` make a leader -/
theorem newleader (c : Ctx v g i inp r cr) (h1 : r.node.role = .leader) (h2 : (g.s.nodes i).role ≠ .leader) :
    r.node.log = (g.s.nodes i).log ∧ r.node.commit = (g.s.nodes i).commit ∧ r.node.matchIndex = List.replicate g.s.n 0 ∧
    (((g.s.nodes i).role = .candidate ∧ r.node.term = (g.s.nodes i).term) ∨ r.node.term = (g.s.nodes i).term + 1) := by
  rcases c.hk with ⟨_, _, _, rt, _, _⟩ | ⟨t, _, _, _, _, _, _, _, _, rt, ht, _, _, _, _⟩ | ⟨hlog, hcommit, _, ht, _, role, _⟩
    | ⟨hlog, hcommit, hc, ht, _, _, hmi, _⟩ | ⟨_, _, _, hl, _, _, _, _⟩ | ⟨t, l, pi, pt, es, lc, src, hin, hle, hbad, hnode, _⟩
    | ⟨f, m, _, hl, hnode, _⟩ | ⟨_, hl, _, _, _, _, _, _, _⟩
  · rcases rt with h | h
    · rw [h.1] at h1; exact absurd h1 h2
    · rw [h.1] at h1; cases h1
  · rcases rt with h | h
    · rw [h.1] at h1; exact absurd h1 h2
    · rw [h.1] at h1; cases h1
  · rcases role with h | h
    · rw [h] at h1; cases h1
    · exact ⟨hlog, hcommit, h.2, Or.inr ht⟩
  · exact ⟨hlog, hcommit, hmi, Or.inl ⟨hc, ht⟩⟩
  · exact absurd hl h2
  · rw [(c.accept hin hle hbad hnode).2.1] at h1; cases h1
  · exact absurd hl h2
  · exact absurd hl h2

theorem mem_llogDiff {x x' : Node} {i t c : Nat} {L : List Entry} (h : (t, c, L) ∈ llogDiff x x' i) :
    t = x'.term ∧ c = i ∧ L = x'.log ∧ x'.role = .leader ∧ x.role ≠ .leader := by
  unfold llogDiff at h
  split at h
  · rename_i hc
    simp only [List.mem_singleton, Prod.mk.injEq] at h
    exact ⟨h.1, h.2.1, h.2.2, hc.1, hc.2⟩
  · cases h

/-- only `campaign` records a candidacy -/
theorem mem_candDiff (c : Ctx v g i inp r cr) {U k : Nat} {Lc : List Entry} (h : (U, k, Lc) ∈ candDiff (g.s.nodes i) r.node i) :
    U = (g.s.nodes i).term + 1 ∧ k = i ∧ Lc = (g.s.nodes i).log ∧ r.node.term = U ∧ r.node.log = (g.s.nodes i).log
    ∧ (g.s.nodes i).role ≠ .leader ∧ r.node.votedFor = some i := by
  unfold candDiff at h
  split at h
  · rename_i hc
    simp only [List.mem_singleton, Prod.mk.injEq] at h
    obtain ⟨e1, e2, e3⟩ := h
    rcases c.hk with ⟨_, _, _, rt, _, _⟩ | ⟨t, _, _, _, _, _, _, _, _, rt, ht, _, _, _, _⟩ | ⟨hlog, _, hnl, ht, vf, _, _⟩
      | ⟨_, _, _, ht, _, _, _, _⟩ | ⟨_, _, _, _, _, ht, _, _⟩ | ⟨t, l, pi, pt, es, lc, src, hin, hle, hbad, hnode, _⟩
      | ⟨f, m, _, _, hnode, _⟩ | ⟨_, _, _, _, _, _, ht, _, _⟩
    · rcases rt with h | h
      · omega
      · exact absurd h.1 hc.2
    · rcases rt with h | h
      · omega
      · exact absurd h.1 hc.2
    · exact ⟨by omega, e2, by rw [e3, hlog], by omega, hlog, hnl, vf⟩
    · omega
    · omega
    · exact absurd (c.accept hin hle hbad hnode).2.1 hc.2
    · have := (ack_facts _ _ _ _ _ (c.cl i) _ hnode).1; omega
    · omega
  · cases h

/-- acceptance after the step was acceptance before, or is read off the node just left -/
theorem accepted_post (_ : Ctx v g i inp r cr) {f T : Nat} {K : List Entry} (a : Accepted (gApply g i r cr) f T K) :
    Accepted g f T K ∨ (f = i ∧ T = r.node.term ∧ K <+: r.node.log) := by
  obtain ⟨h1, h2, L, h3, h4⟩ := a
  simp only [gApply_seen, List.mem_cons, Prod.mk.injEq] at h3
  rcases h3 with ⟨e1, e2, e3⟩ | h3
  · right; exact ⟨e1, e2, by rw [← e3]; exact h4⟩
  · left; exact ⟨h1, h2, L, h3, h4⟩

theorem term_post (c : Ctx v g i inp r cr) (j : Nat) : (g.s.nodes j).term ≤ ((gApply g i r cr).s.nodes j).term := by
  by_cases hj : j = i
  · rw [hj, c.node_self]; exact c.term_le
  · rw [c.node_other hj]; exact Nat.le_refl _

end Ctx
end HappyModel.C11
