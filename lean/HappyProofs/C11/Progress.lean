import HappyProofs.C11.ProgRun
/-! BOUNDED PROGRESS under a stable leader (`stable_leader_commits`).

From any reachable state in which `L` is the established leader of term `t` and the followers of a
set `Q` (with `L` a quorum) are in sync with it: if along the run no node of `L :: Q` ever sees a term
above `t` (`stableRun`), and for every `p ∈ Q` the run contains the delivery to `p` of an
AppendEntries carrying the new entry and the delivery to `L` of `p`'s reply to it (`ackedRun`), and
no older acknowledgement overtakes a newer one (`noRegressRun`), then a command submitted to `L`
is appended at index `k = len(log) + 1`, replicated on `Q`, committed and applied by `L` at `k`
exactly once, and its future is resolved with `k` and the result of that application — for every
cluster size, every prefix, every interleaving of other actions (further submits, heartbeats,
duplicated or stale deliveries, drops, crashes of other nodes, …). -/
namespace HappyModel.C11
open Spec

/-- what each step of a run shows -/
def outs (v : Variant) : St → List Act → List StepOut
  | _, [] => []
  | s, a :: as => (step v s a).2 :: outs v (step v s a).1 as

/-- some step of the run applied `c` at index `k` on `L` and resolved future `f` with `k` and that result -/
def Hit (os : List StepOut) (L k f : Nat) (c : Cmd) : Prop :=
  ∃ o ∈ os, o.target = some L ∧ ∃ res, (k, c, res) ∈ o.apps ∧ (f, k, res) ∈ o.ress

theorem prog_run (v : Variant) (hr : Rep v) {L t k f : Nat} {c : Cmd} {Q : List Nat} (hnd : Q.Nodup) :
    ∀ (as : List Act) (g : GSt) (ph : Nat → Ph), Prog g L t k f c Q ph → quorum g.s.n ≤ Q.length + 1 →
      stableRun v t (L :: Q) g.s as = true → noRegressRun v L t k Q g.s as = true →
      Prog (grun v g as) L t k f c Q (fun p => phRun v L t k p (ph p) g.s as)
      ∧ ((g.s.nodes L).lastApplied < k → k ≤ ((grun v g as).s.nodes L).lastApplied → Hit (outs v g.s as) L k f c) := by
  intro as
  induction as with
  | nil => intro g ph P _ _ _; exact ⟨P, fun h1 h2 => by simp only [grun] at h2; omega⟩
  | cons a as ih =>
    intro g ph P hq hst hnr
    have hst' := stableRun_cons hst
    simp only [noRegressRun, Bool.and_eq_true, Bool.not_eq_true'] at hnr
    obtain ⟨P1, w1⟩ := prog_step v hr P hnd hq a (stableRun_here hst') hnr.1
    have hq' : quorum (gstep v g a).s.n ≤ Q.length + 1 := by rw [gstep_s, step_n]; exact hq
    obtain ⟨P2, w2⟩ := ih (gstep v g a) _ P1 hq' (by rw [gstep_s]; exact hst') (by rw [gstep_s]; exact hnr.2)
    refine ⟨?_, ?_⟩
    · have : (fun p => phRun v L t k p (ph p) g.s (a :: as))
          = (fun p => phRun v L t k p (phStep g.s L t k p (ph p) a) (gstep v g a).s as) := by
        funext p; simp only [phRun, gstep_s]
      rw [this]; exact P2
    · intro h1 h2
      simp only [outs]
      by_cases hk : k ≤ ((step v g.s a).1.nodes L).lastApplied
      · obtain ⟨ht, res, r1, r2⟩ := w1 h1 hk
        exact ⟨_, List.mem_cons_self, ht, res, r1, r2⟩
      · obtain ⟨o, ho, h⟩ := w2 (by rw [gstep_s]; omega) h2
        rw [gstep_s] at ho
        exact ⟨o, List.mem_cons_of_mem _ ho, h⟩

theorem getPending_set_same (p : List (Nat × Nat)) (idx f : Nat) : getPending (setPending p idx f) idx = some f := by
  unfold getPending setPending
  rw [List.find?_append]
  have h1 : List.find? (fun q : Nat × Nat => q.1 == idx) (popPending p idx) = none := by
    rw [List.find?_eq_none]
    intro q hq
    have := (List.mem_filter.mp hq).2
    simpa using this
  rw [h1]; simp

/-- index of the entry a `submit` to `L` creates -/
def nextIdx (s : St) (L : Nat) : Nat := (s.nodes L).log.length + 1

/-- BOUNDED PROGRESS.  See the header of this file. -/
theorem stable_leader_commits (v : Variant) (hr : Rep v) (n : Nat) (pre : List Act) (L t f : Nat) (c : Cmd) (Q : List Nat)
    (as : List Act)
    (hest : established (run v (init n) pre) L t = true)
    (hQnd : Q.Nodup) (hQne : Q ≠ []) (hQq : quorum n ≤ Q.length + 1)
    (hsync : ∀ p ∈ Q, inSync (run v (init n) pre) L t p = true)
    (hstable : stableRun v t (L :: Q) (run v (init n) pre) (.submit L f c :: as) = true)
    (hfair : ∀ p ∈ Q, ackedRun v L t (nextIdx (run v (init n) pre) L) p (run v (init n) pre) (.submit L f c :: as) = true)
    (hnr : noRegressRun v L t (nextIdx (run v (init n) pre) L) Q (run v (init n) pre) (.submit L f c :: as) = true) :
    getE ((run v (run v (init n) pre) (.submit L f c :: as)).nodes L).log (nextIdx (run v (init n) pre) L) = some ⟨t, c⟩
    ∧ (∀ p ∈ Q, getE ((run v (run v (init n) pre) (.submit L f c :: as)).nodes p).log (nextIdx (run v (init n) pre) L) = some ⟨t, c⟩)
    ∧ nextIdx (run v (init n) pre) L ≤ ((run v (run v (init n) pre) (.submit L f c :: as)).nodes L).commit
    ∧ nextIdx (run v (init n) pre) L ≤ ((run v (run v (init n) pre) (.submit L f c :: as)).nodes L).lastApplied
    ∧ Hit (outs v (run v (init n) pre) (.submit L f c :: as)) L (nextIdx (run v (init n) pre) L) f c := by
  -- the reachable ghost state
  have inv0 := pinv_reach v hr n pre
  have hs0 : (grun v (ginit n) pre).s = run v (init n) pre := grun_s v pre (ginit n)
  generalize hg0 : grun v (ginit n) pre = g0 at inv0 hs0
  rw [← hs0] at hest hsync hstable hfair hnr ⊢
  have hn0 : g0.s.n = n := by rw [hs0, run_n]; rfl
  have est0 := established_iff.mp hest
  generalize hk : nextIdx g0.s L = k at hfair hnr ⊢
  -- the submit step
  have hleL : ((step v g0.s (.submit L f c)).1.nodes L).term ≤ t :=
    termsLe_mem (stableRun_here (stableRun_cons hstable)) (by simp)
  have hleP : ∀ p ∈ Q, ((step v g0.s (.submit L f c)).1.nodes p).term ≤ t :=
    fun p hp => termsLe_mem (stableRun_here (stableRun_cons hstable)) (List.mem_cons_of_mem _ hp)
  have hstep : step v g0.s (.submit L f c) = applyHR g0.s L { node := submitNode (g0.s.nodes L) f c } := by
    simp only [step, est0.lt, decide_true, if_true]
    rw [leader_submit _ _ _ est0.role]
  have hnodeL : (step v g0.s (.submit L f c)).1.nodes L = submitNode (g0.s.nodes L) f c := by
    rw [hstep]; simp only [applyHR, upd_same]
  have hkdef : k = (g0.s.nodes L).log.length + 1 := by rw [← hk]; rfl
  have P1 : Prog (gstep v g0 (.submit L f c)) L t k f c Q (fun _ => Ph.waitAE) := by
    refine ⟨pinv_step v hr g0 inv0 _, by rw [gstep_s]; exact est_step v hr g0 inv0 _ est0 hleL, ?_, ?_, ?_, ?_, ?_, ?_, ?_⟩
    · intro p hp; rw [gstep_s]
      exact sync_step v hr g0 inv0 _ est0 (sync_of_inSync (hsync p hp)) hleL (hleP p hp)
    · rw [gstep_s, hnodeL, hkdef]
      show getE ((g0.s.nodes L).log ++ [⟨(g0.s.nodes L).term, c⟩]) _ = _
      rw [getE_succ, est0.term]; simp
    · intro _
      rw [gstep_s, hnodeL, hkdef]
      exact getPending_set_same _ _ _
    · intro p _ rid h; cases h
    · intro p _ h; exact absurd rfl h
    · intro p _ h; cases h
    · intro hall
      obtain ⟨p, hp⟩ := List.exists_mem_of_ne_nil Q hQne
      have := hall p hp; cases this
  have hla1 : ((gstep v g0 (.submit L f c)).s.nodes L).lastApplied < k := by
    rw [gstep_s, hnodeL, hkdef]
    show (g0.s.nodes L).lastApplied < _
    have h1 := inv0.la L
    have h2 := inv0.all.hi.n_cl L
    omega
  have hstable' := stableRun_cons hstable
  have hnr' : noRegressRun v L t k Q (step v g0.s (.submit L f c)).1 as = true := by
    simp only [noRegressRun, Bool.and_eq_true] at hnr; exact hnr.2
  obtain ⟨PE, wE⟩ := prog_run v hr hQnd as (gstep v g0 (.submit L f c)) _ P1 (by rw [gstep_s, step_n, hn0]; exact hQq)
    (by rw [gstep_s]; exact hstable') (by rw [gstep_s]; exact hnr')
  have hsE : (grun v (gstep v g0 (.submit L f c)) as).s = run v g0.s (.submit L f c :: as) := by
    rw [grun_s, gstep_s]; rfl
  have hdone : ∀ p ∈ Q, phRun v L t k p Ph.waitAE (gstep v g0 (.submit L f c)).s as = .done := by
    intro p hp
    have := hfair p hp
    simp only [ackedRun, phRun] at this
    rw [gstep_s]
    exact of_decide_eq_true this
  have hlaE := PE.alld hdone
  rw [hsE] at hlaE
  refine ⟨by rw [← hsE]; exact PE.entry, ?_, ?_, hlaE, ?_⟩
  · intro p hp
    rw [← hsE]
    exact (PE.rep p hp (by rw [hdone p hp]; intro h; cases h)).entry (Nat.le_refl _) PE.entry
  · have := PE.inv.la L; rw [hsE] at this; omega
  · have := wE hla1 (by rw [hsE]; exact hlaE)
    rw [gstep_s] at this
    obtain ⟨o, ho, h⟩ := this
    exact ⟨o, by simp only [outs]; exact List.mem_cons_of_mem _ ho, h⟩

end HappyModel.C11
