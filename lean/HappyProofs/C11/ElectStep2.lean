import HappyProofs.C11.ElectStep
/-! `VoteOk` for the three handlers that touch votes, and preservation of `EInv` by every step. -/
namespace HappyModel.C11

/-- `rvCore` on a node `x1` that is either the node itself or the node stepped down to the
    request's (higher) term -/
theorem voteOk_rvCore {g : GSt} (inv : EInv g) (i src t li lt : Nat) (x1 : Node)
    (hle : (g.s.nodes i).term ≤ x1.term) (hvotes : x1.votes = (g.s.nodes i).votes)
    (hcase : (x1.role = .follower ∧ (g.s.nodes i).term < x1.term ∧ x1.term = t) ∨ (x1 = g.s.nodes i ∧ t ≤ (g.s.nodes i).term)) :
    VoteOk g i (rvCore x1 i src t src li lt) := by
  unfold rvCore
  cases hgr : rvGrant x1 t src li lt with
  | true =>
    simp only [if_true]
    have hgr2 := hgr
    simp only [rvGrant, Bool.and_eq_true, decide_eq_true_eq, Bool.or_eq_true, beq_iff_eq] at hgr2
    refine ⟨?_, ?_, ?_, ?_, ?_, ?_⟩
    · show (g.s.nodes i).term ≤ t; omega
    · intro heq c hc
      change t = (g.s.nodes i).term at heq
      show some src = some c
      rcases hcase with ⟨_, hlt, _⟩ | ⟨hx, _⟩
      · omega
      · rw [hx] at hgr2
        rcases hgr2.1.2 with h | h
        · rw [h] at hc; cases hc
        · rw [← hc]; exact h.symm
    · intro d t' f hm
      simp only [List.mem_singleton, Prod.mk.injEq, Body.vr.injEq] at hm
      obtain ⟨hd, ht', _, hf⟩ := hm
      exact ⟨hf, ht', by rw [hd]⟩
    · intro d t' c a b hm
      simp only [List.mem_singleton, Prod.mk.injEq] at hm
      exact absurd hm.2 (by simp)
    · rcases hcase with ⟨hf, _, _⟩ | ⟨hx, hle2⟩
      · exact Or.inl hf
      · refine Or.inr (Or.inl ⟨by rw [hx], by rw [hx], ?_⟩)
        show t = (g.s.nodes i).term
        rw [hx] at hgr2; have := hgr2.1.1
        omega
    · show x1.votes.Nodup; rw [hvotes]; exact inv.c2 i
  | false =>
    simp only [Bool.false_eq_true, if_false]
    refine ⟨hle, ?_, ?_, ?_, ?_, ?_⟩
    · intro heq c hc
      have heq' : x1.term = (g.s.nodes i).term := heq
      rcases hcase with ⟨_, hlt, _⟩ | ⟨hx, _⟩
      · omega
      · show x1.votedFor = some c; rw [hx]; exact hc
    · intro d t' f hm
      simp only [List.mem_singleton, Prod.mk.injEq, Body.vr.injEq] at hm
      exact absurd hm.2.2.1 (by simp)
    · intro d t' c a b hm
      simp only [List.mem_singleton, Prod.mk.injEq] at hm
      exact absurd hm.2 (by simp)
    · rcases hcase with ⟨hf, _, _⟩ | ⟨hx, _⟩
      · exact Or.inl hf
      · exact Or.inr (Or.inl ⟨by rw [hx], by rw [hx], by rw [hx]⟩)
    · rw [hvotes]; exact inv.c2 i

theorem voteOk_rv {g : GSt} (inv : EInv g) (v : Variant) (hk : v.keepVote = true) (i src t li lt : Nat) :
    VoteOk g i (handleRV v (g.s.nodes i) i src t src li lt) := by
  unfold handleRV
  split
  · rename_i hgt
    obtain ⟨s1, s2, s3, _⟩ := stepDown_ev v hk (g.s.nodes i) t (by omega)
    exact voteOk_rvCore inv i src t li lt _ (by rw [s1]; omega) s3 (Or.inl ⟨s2, by rw [s1]; omega, s1⟩)
  · rename_i hgt
    exact voteOk_rvCore inv i src t li lt _ (Nat.le_refl _) rfl (Or.inr ⟨rfl, by omega⟩)

theorem insertVote_nodup {l : List Nat} (f : Nat) (h : l.Nodup) : (insertVote l f).Nodup := by
  unfold insertVote; split
  · exact h
  · exact List.nodup_cons.mpr ⟨by assumption, h⟩

theorem mem_insertVote {l : List Nat} {f x : Nat} (h : x ∈ insertVote l f) : x = f ∨ x ∈ l := by
  unfold insertVote at h; split at h
  · exact Or.inr h
  · simpa using h

theorem voteOk_vr {g : GSt} (inv : EInv g) (v : Variant) (hk : v.keepVote = true) (i t : Nat) (gr : Bool) (f : Nat)
    (hm : gr = true → (f, t, i) ∈ g.voted) : VoteOk g i (handleVR v g.s.n (g.s.nodes i) i t gr f) := by
  unfold handleVR
  split
  · apply voteOk_of_stepDown inv v hk t (by omega) rfl
    intro d b h; simp at h
  · split
    · exact voteOk_of_same inv rfl (by intro d b h; simp at h)
    · rename_i hnt hc
      have hc' : (g.s.nodes i).role = .candidate ∧ t = (g.s.nodes i).term := by
        constructor
        · apply Classical.byContradiction; intro h; exact hc (Or.inl h)
        · apply Classical.byContradiction; intro h; exact hc (Or.inr h)
      have hvotes : ∀ x ∈ (addVote (g.s.nodes i) gr f).votes, (x, (g.s.nodes i).term, i) ∈ g.voted := by
        intro x hx
        have hold : ∀ y ∈ (g.s.nodes i).votes, (y, (g.s.nodes i).term, i) ∈ g.voted :=
          inv.c1 i (by rw [hc'.1]; decide)
        simp only [addVote] at hx
        split at hx
        · rename_i hg
          rcases mem_insertVote hx with h | h
          · rw [h, ← hc'.2]; exact hm hg
          · exact hold x h
        · exact hold x hx
      have hnd : (addVote (g.s.nodes i) gr f).votes.Nodup := by
        simp only [addVote]
        split
        · exact insertVote_nodup f (inv.c2 i)
        · exact inv.c2 i
      unfold vrCount
      split
      · rename_i hq
        obtain ⟨b1, b2, b3, b4⟩ := becomeLeader_ev g.s.n (addVote (g.s.nodes i) gr f) i []
        refine ⟨by rw [b1]; exact Nat.le_refl _, ?_, ?_, ?_, Or.inr (Or.inr ⟨?_, ?_, ?_, ?_⟩), ?_⟩
        · intro _ c hcv; rw [b2]; exact hcv
        · intro d t' f' hmem
          rcases mem_becomeLeader_sends hmem with h | ⟨_, _, _, _, _, _, h⟩
          · simp at h
          · cases h
        · intro d t' c a b hmem
          rcases mem_becomeLeader_sends hmem with h | ⟨_, _, _, _, _, _, h⟩
          · simp at h
          · cases h
        · intro x hx; rw [b4] at hx; rw [b1]
          exact List.mem_append_right _ (hvotes x hx)
        · rw [hc'.1]; decide
        · intro h; rw [b3] at h; cases h
        · intro _; rw [b4]; exact hq
        · rw [b4]; exact hnd
      · refine ⟨Nat.le_refl _, ?_, ?_, ?_, Or.inr (Or.inr ⟨?_, ?_, ?_, ?_⟩), hnd⟩
        · intro _ c hcv; exact hcv
        · intro d t' f' hmem; simp at hmem
        · intro d t' c a b hmem; simp at hmem
        · intro x hx; exact List.mem_append_right _ (hvotes x hx)
        · rw [hc'.1]; decide
        · intro _; exact Or.inr ⟨rfl, hc'.1⟩
        · intro h; rw [show (addVote (g.s.nodes i) gr f).role = (g.s.nodes i).role from rfl, hc'.1] at h; cases h

theorem mem_rvsFor {n : Nat} {x : Node} {me d : Nat} {b : Body} (h : (d, b) ∈ rvsFor n x me) :
    b = Body.rv x.term me x.log.length (lastTerm x.log) := by
  unfold rvsFor at h
  obtain ⟨p, _, hp⟩ := List.mem_map.mp h
  simp only [Prod.mk.injEq] at hp
  exact hp.2.symm

theorem voteOk_timeout {g : GSt} (inv : EInv g) (i : Nat) : VoteOk g i (handleTimeout g.s.n (g.s.nodes i) i) := by
  unfold handleTimeout
  split
  · exact voteOk_of_same inv rfl (by intro d b h; simp at h)
  · rename_i hnl
    split
    · rename_i hq
      obtain ⟨b1, b2, b3, b4⟩ := becomeLeader_ev g.s.n (startElection (g.s.nodes i) i) i
        (rvsFor g.s.n (startElection (g.s.nodes i) i) i)
      refine ⟨by rw [b1]; show (g.s.nodes i).term ≤ (g.s.nodes i).term + 1; omega, ?_, ?_, ?_, Or.inr (Or.inr ⟨?_, hnl, ?_, ?_⟩), ?_⟩
      · intro heq; rw [b1] at heq; change (g.s.nodes i).term + 1 = (g.s.nodes i).term at heq; omega
      · intro d t' f' hmem
        rcases mem_becomeLeader_sends hmem with h | ⟨_, _, _, _, _, _, h⟩
        · have := mem_rvsFor h; cases this
        · cases h
      · intro d t' c a b hmem
        rcases mem_becomeLeader_sends hmem with h | ⟨_, _, _, _, _, _, h⟩
        · have := mem_rvsFor h; cases this; rfl
        · cases h
      · intro x hx; rw [b4] at hx
        simp only [startElection, List.mem_singleton] at hx
        rw [hx]
        exact List.mem_append_left _ (voteDiff_mem (by rw [b2]; rfl))
      · intro h; rw [b3] at h; cases h
      · intro _; rw [b4]; exact hq
      · rw [b4]; simp [startElection]
    · refine ⟨by show (g.s.nodes i).term ≤ (g.s.nodes i).term + 1; omega, ?_, ?_, ?_, Or.inr (Or.inr ⟨?_, hnl, ?_, ?_⟩), by simp [startElection]⟩
      · intro heq; change (g.s.nodes i).term + 1 = (g.s.nodes i).term at heq; omega
      · intro d t' f' hmem; have := mem_rvsFor hmem; cases this
      · intro d t' c a b hmem; have := mem_rvsFor hmem; cases this; rfl
      · intro x hx
        simp only [startElection, List.mem_singleton] at hx
        rw [hx]
        exact List.mem_append_left _ (voteDiff_mem rfl)
      · intro _; exact Or.inl (by show (g.s.nodes i).term < (g.s.nodes i).term + 1; omega)
      · intro h; cases h

end HappyModel.C11
