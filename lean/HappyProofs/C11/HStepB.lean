import HappyProofs.C11.HStepA
/-! `HInv` across a handler step, part B: votes.  A vote for a candidate comes with the promise
    `VmProp` (the up-to-date check is what makes it true), and a new leader's vote quorum carries it. -/
namespace HappyModel.C11

/-- THE UP-TO-DATE CHECK.  Voter `x` holds `K` (accepted in term `T`); the candidate's log `Lc` passes
    `upToDate`.  Then `Lc` holds `K` too — or the leader of the term of `Lc`'s last entry, a term strictly
    between `T` and the election term `U`, did not. -/
theorem utd_arg {g : GSt} (hi : HInv g) {x : Node} (hrec : Rec g.created x.log) {T U : Nat} {K Lc : List Entry}
    (hK : K <+: x.log) (hne : K ≠ []) (hKt : lastTerm K = T) (hLc : lastTerm Lc < U) (hLrec : Rec g.created Lc)
    (hutd : upToDate x Lc.length (lastTerm Lc) = true) :
    K <+: Lc ∨ ∃ t' c' L', (t', c', L') ∈ g.llogs ∧ T < t' ∧ t' < U ∧ ¬ K <+: L' := by
  have hlog : x.log ≠ [] := by
    intro h0; rw [h0] at hK; exact hne (List.prefix_nil.mp hK)
  have hxm := hrec.mem_self hlog
  have hmono := hi.r_mono _ hxm K hK hne
  simp only [upToDate, Bool.or_eq_true, Bool.and_eq_true, decide_eq_true_eq, beq_iff_eq] at hutd
  rcases hutd with hgt | ⟨heq, hlen⟩
  · have hLne : Lc ≠ [] := by
      intro h0; rw [h0, lastTerm_nil] at hgt; omega
    obtain ⟨c', L', h1, h2⟩ := hi.r_ll Lc (hLrec.mem_self hLne)
    by_cases hp : K <+: L'
    · exact Or.inl (hp.trans h2)
    · exact Or.inr ⟨lastTerm Lc, c', L', h1, by omega, hLc, hp⟩
  · have hpos : 0 < x.log.length := List.length_pos_iff.mpr hlog
    have hLne : Lc ≠ [] := by
      intro h0; rw [h0] at hlen; simp only [List.length_nil] at hlen; omega
    exact Or.inl (hK.trans (hi.r_same _ hxm _ (hLrec.mem_self hLne) heq.symm hlen))

namespace Ctx
variable {v : Variant} {g : GSt} {i : Nat} {inp : Option Body} {r : HR} {cr : List (List Entry)}

/-- where a vote held after the step comes from -/
theorem vote_cases (c : Ctx v g i inp r cr) {k : Nat} (h : r.node.votedFor = some k) :
    (i, r.node.term, k) ∈ g.voted
    ∨ (∃ li lt, inp = some (.rv r.node.term k li lt) ∧ r.node.log = (g.s.nodes i).log ∧ upToDate (g.s.nodes i) li lt = true
        ∧ candDiff (g.s.nodes i) r.node i = [] ∧ llogDiff (g.s.nodes i) r.node i = [])
    ∨ (k = i ∧ r.node.term = (g.s.nodes i).term + 1 ∧ r.node.log = (g.s.nodes i).log ∧ (g.s.nodes i).role ≠ .leader) := by
  have same : r.node.votedFor = (g.s.nodes i).votedFor → r.node.term = (g.s.nodes i).term → (i, r.node.term, k) ∈ g.voted := by
    intro h1 h2
    rw [h2]; exact c.ei.v0 i k (by rw [← h1]; exact h)
  rcases c.hk with ⟨_, _, _, _, vf, _⟩ | ⟨t, k', li, lt, _, hin, hlog, _, _, rt, ht, vf, _, utd, _⟩ | ⟨hlog, _, hnl, ht, vf, _, _⟩
    | ⟨_, _, _, ht, vf, _, _, _⟩ | ⟨_, _, _, _, _, ht, vf, _⟩ | ⟨t, l, pi, pt, es, lc, src, hin, hle, hbad, hnode, _⟩
    | ⟨f, m, _, _, hnode, _⟩ | ⟨_, _, _, _, _, _, ht, vf, _⟩
  · rcases vf with vf | vf
    · rw [vf] at h; cases h
    · exact Or.inl (same vf.1 vf.2)
  · right; left
    rw [vf] at h; cases h
    refine ⟨li, lt, by rw [ht]; exact hin, hlog, utd, ?_, ?_⟩
    · unfold candDiff
      rcases rt with h | h
      · rw [if_neg (by omega)]
      · rw [if_neg (by intro hc; exact hc.2 h.1)]
    · unfold llogDiff
      rcases rt with h | h
      · rw [if_neg (by rw [h.1]; intro hc; exact hc.2 hc.1)]
      · rw [if_neg (by rw [h.1]; intro hc; cases hc.1)]
  · right; right
    rw [vf] at h; cases h
    exact ⟨rfl, ht, hlog, hnl⟩
  · exact Or.inl (same vf ht)
  · exact Or.inl (same vf ht)
  · rcases (c.accept hin hle hbad hnode).2.2.1 with vf | vf
    · rw [vf] at h; cases h
    · exact Or.inl (same vf.1 vf.2)
  · have hf := ack_facts _ _ _ _ _ (c.cl i) _ hnode
    exact Or.inl (same hf.2.2.1 hf.1)
  · exact Or.inl (same vf ht)

theorem vmProp_post (c : Ctx v g i inp r cr) {f U : Nat} {L : List Entry} (hU : U ≤ (g.s.nodes f).term) (h : VmProp g f U L) :
    VmProp (gApply g i r cr) f U L := by
  intro T K hT hacc
  rcases c.accepted_post hacc with ha | ⟨e1, e2, _⟩
  · rcases h T K hT ha with h | ⟨t', c', L', h1, h2, h3, h4⟩
    · exact Or.inl h
    · exact Or.inr ⟨t', c', L', c.gle.llogs _ h1, h2, h3, h4⟩
  · exfalso
    rw [e1] at hU
    have := c.term_le
    omega

/-- a node that starts an election (term `U = term + 1`) promises itself `VmProp` for its own log -/
theorem vmProp_self (c : Ctx v g i inp r cr) {U : Nat} (hU : U = (g.s.nodes i).term + 1) (ht : r.node.term = U) :
    VmProp (gApply g i r cr) i U (g.s.nodes i).log := by
  intro T K hT hacc
  rcases c.accepted_post hacc with ha | ⟨_, e2, _⟩
  · rcases c.hi.n_a1 i T K ha with h | ⟨t', c', L', h1, h2, h3, h4⟩
    · exact Or.inl h
    · exact Or.inr ⟨t', c', L', c.gle.llogs _ h1, h2, by omega, h4⟩
  · omega

theorem k1' (c : Ctx v g i inp r cr) : ∀ k, ((gApply g i r cr).s.nodes k).role = .candidate →
    (((gApply g i r cr).s.nodes k).term, k, ((gApply g i r cr).s.nodes k).log) ∈ (gApply g i r cr).cands := by
  intro k hrole
  by_cases hk : k = i
  · rw [hk] at hrole ⊢
    rw [c.node_self] at hrole ⊢
    have same : r.node.role = (g.s.nodes i).role → r.node.term = (g.s.nodes i).term → r.node.log = (g.s.nodes i).log →
        (r.node.term, i, r.node.log) ∈ (gApply g i r cr).cands := by
      intro h1 h2 h3
      rw [h2, h3]; exact c.gle.cands _ (c.hi.k1 i (by rw [← h1]; exact hrole))
    rcases c.hk with ⟨hlog, _, _, rt, _, _⟩ | ⟨t, _, _, _, _, _, hlog, _, _, rt, ht, _, _, _, _⟩ | ⟨hlog, _, hnl, ht, vf, role, _⟩
      | ⟨_, _, _, _, _, role, _, _⟩ | ⟨_, _, _, _, role, _, _, _⟩ | ⟨t, l, pi, pt, es, lc, src, hin, hle, hbad, hnode, _⟩
      | ⟨f, m, _, hl, hnode, _⟩ | ⟨_, _, _, _, _, role, _, _, _⟩
    · rcases rt with h | h
      · exact same h.1 h.2 hlog
      · rw [h.1] at hrole; cases hrole
    · rcases rt with h | h
      · exact same h.1 (by omega) hlog
      · rw [h.1] at hrole; cases hrole
    · simp only [gApply_cands]
      apply List.mem_append_left
      unfold candDiff
      rw [if_pos ⟨by omega, by rw [hrole]; decide⟩]; simp
    · rw [role] at hrole; cases hrole
    · rw [role] at hrole; cases hrole
    · rw [(c.accept hin hle hbad hnode).2.1] at hrole; cases hrole
    · rw [(ack_facts _ _ _ _ _ (c.cl i) _ hnode).2.1, hl] at hrole; cases hrole
    · rw [role] at hrole; cases hrole
  · rw [c.node_other hk] at hrole ⊢
    exact c.gle.cands _ (c.hi.k1 k hrole)

theorem kvt' (c : Ctx v g i inp r cr) : ∀ f U k, (f, U, k) ∈ (gApply g i r cr).voted → U ≤ ((gApply g i r cr).s.nodes k).term := by
  intro f U k h
  have old : (f, U, k) ∈ g.voted → U ≤ ((gApply g i r cr).s.nodes k).term :=
    fun h => Nat.le_trans (c.hi.kvt f U k h) (c.term_post k)
  simp only [gApply_voted] at h
  rcases List.mem_append.mp h with h | h
  · obtain ⟨e1, e2, e3⟩ := mem_voteDiff h
    rcases c.vote_cases e3 with hv0 | ⟨li, lt, hin, _⟩ | ⟨hk, _⟩
    · subst e1; subst e2; exact old hv0
    · obtain ⟨e, he, hb⟩ := c.hin _ hin
      rw [e2]
      exact Nat.le_trans (c.hi.m_rv e he _ _ _ _ hb).1 (c.term_post k)
    · rw [hk, c.node_self, e2]; exact Nat.le_refl _
  · exact old h

theorem vm' (c : Ctx v g i inp r cr) : ∀ f U k, (f, U, k) ∈ (gApply g i r cr).voted → ∀ Lc, (U, k, Lc) ∈ (gApply g i r cr).cands →
    (∃ c' L', (U, c', L') ∈ (gApply g i r cr).llogs) ∨ VmProp (gApply g i r cr) f U Lc := by
  intro f U k h Lc hLc
  have old : (f, U, k) ∈ g.voted → (∃ c' L', (U, c', L') ∈ (gApply g i r cr).llogs) ∨ VmProp (gApply g i r cr) f U Lc := by
    intro h
    simp only [gApply_cands] at hLc
    rcases List.mem_append.mp hLc with hLc | hLc
    · obtain ⟨e1, e2, _⟩ := c.mem_candDiff hLc
      have := c.hi.kvt f U k h
      rw [e2] at this; omega
    · rcases c.hi.vm f U k h Lc hLc with ⟨c', L', h1⟩ | h1
      · exact Or.inl ⟨c', L', c.gle.llogs _ h1⟩
      · exact Or.inr (c.vmProp_post (c.ei.v1 f U k h) h1)
  simp only [gApply_voted] at h
  rcases List.mem_append.mp h with h | h
  · obtain ⟨e1, e2, e3⟩ := mem_voteDiff h
    rcases c.vote_cases e3 with h | ⟨li, lt, hin, hlog, hutd, hcd, hld⟩ | ⟨hk, ht, hlog, _⟩
    · rw [e1, e2]; rw [e1, e2] at old; exact old h
    · -- a vote granted now
      obtain ⟨e, he, hb⟩ := c.hin _ hin
      simp only [gApply_cands, hcd, List.nil_append] at hLc
      rw [← e2] at hb
      obtain ⟨hlen, hlt⟩ := (c.hi.m_rv e he _ _ _ _ hb).2 Lc hLc
      by_cases hex : ∃ c' L', (U, c', L') ∈ g.llogs
      · obtain ⟨c', L', h1⟩ := hex
        exact Or.inl ⟨c', L', c.gle.llogs _ h1⟩
      · right
        intro T K hT hacc
        rw [e1] at hacc
        rcases c.accepted_post hacc with ha | ⟨_, e2', _⟩
        · have widen : (∃ t' c' L', (t', c', L') ∈ g.llogs ∧ T < t' ∧ t' < U ∧ ¬ K <+: L') →
              ∃ t' c' L', (t', c', L') ∈ (gApply g i r cr).llogs ∧ T < t' ∧ t' < U ∧ ¬ K <+: L' := by
            rintro ⟨t', c', L', h1, h2⟩
            exact ⟨t', c', L', c.gle.llogs _ h1, h2⟩
          rcases c.hi.n_a1 i T K ha with hp | ⟨t', c', L', h1, h2, h3, h4⟩
          · have hk2 := c.hi.k2 U k Lc hLc
            rw [hlen, hlt] at hutd
            rcases utd_arg c.hi (c.li.b i) hp ha.1 ha.2.1 hk2.1 hk2.2 hutd with h | h
            · exact Or.inl h
            · exact Or.inr (widen h)
          · have hle := c.term_le
            by_cases htU : t' = U
            · exact absurd ⟨c', L', by rw [← htU]; exact h1⟩ hex
            · exact Or.inr (widen ⟨t', c', L', h1, h2, by omega, h4⟩)
        · omega
    · -- the vote a node gives itself when it starts an election
      right
      rw [e1]
      simp only [gApply_cands] at hLc
      rcases List.mem_append.mp hLc with hLc | hLc
      · obtain ⟨_, _, e3', _⟩ := c.mem_candDiff hLc
        rw [e3']; exact c.vmProp_self (by omega) (by omega)
      · have := c.hi.k0 U k Lc hLc
        rw [hk] at this; omega
  · exact old h

theorem ll_q' (c : Ctx v g i inp r cr) : ∀ U k L, (U, k, L) ∈ (gApply g i r cr).llogs → ∃ S : List Nat, S.Nodup ∧
    quorum (gApply g i r cr).s.n ≤ S.length ∧
    ∀ f ∈ S, f < (gApply g i r cr).s.n ∧ U ≤ ((gApply g i r cr).s.nodes f).term ∧ VmProp (gApply g i r cr) f U L := by
  intro U k L h
  simp only [gApply_llogs] at h
  rcases List.mem_append.mp h with h | h
  · obtain ⟨e1, e2, e3, e4, e5⟩ := mem_llogDiff h
    obtain ⟨hlog, _, _, hcase⟩ := c.newleader e4 e5
    have hled := c.ei'.l0 i (by rw [c.node_self]; exact e4)
    rw [c.node_self] at hled
    obtain ⟨S, hS1, hS2, hS3⟩ := c.ei'.l1 _ _ hled
    refine ⟨S, hS1, hS3, ?_⟩
    intro f hf
    have hv := hS2 f hf
    refine ⟨c.ei'.vlt _ _ _ hv, by rw [e1]; exact c.ei'.v1 _ _ _ hv, ?_⟩
    rw [e1, e3, hlog]
    have old : (f, r.node.term, i) ∈ g.voted → VmProp (gApply g i r cr) f r.node.term (g.s.nodes i).log := by
      intro hv
      rcases hcase with ⟨hc, ht⟩ | ht
      · have hcand := c.hi.k1 i hc
        rw [← ht] at hcand
        rcases c.hi.vm f _ i hv _ hcand with ⟨c', L', h1⟩ | h1
        · exact absurd h1 (c.no_old_leader e4 e5 c' L')
        · exact c.vmProp_post (c.ei.v1 _ _ _ hv) h1
      · have := c.hi.kvt _ _ _ hv; omega
    simp only [gApply_voted] at hv
    rcases List.mem_append.mp hv with hv | hv
    · obtain ⟨e1', _, e3'⟩ := mem_voteDiff hv
      rcases c.vote_cases e3' with h | ⟨_, _, _, _, _, _, hld⟩ | ⟨_, ht, _, _⟩
      · rw [e1']; rw [e1'] at old; exact old h
      · rw [hld] at h; cases h
      · rw [e1']; exact c.vmProp_self ht rfl
    · exact old hv
  · obtain ⟨S, hS1, hS2, hS3⟩ := c.hi.ll_q U k L h
    refine ⟨S, hS1, hS2, ?_⟩
    intro f hf
    obtain ⟨h1, h2, h3⟩ := hS3 f hf
    exact ⟨h1, Nat.le_trans h2 (c.term_post f), c.vmProp_post h2 h3⟩

/-- the only RequestVotes a handler sends are those of a starting election -/
theorem rv_sent (c : Ctx v g i inp r cr) {d U k li lt : Nat} (h : (d, Body.rv U k li lt) ∈ r.sends) :
    U = r.node.term ∧ k = i ∧ li = r.node.log.length ∧ lt = lastTerm r.node.log
    ∧ r.node.term = (g.s.nodes i).term + 1 ∧ r.node.log = (g.s.nodes i).log := by
  rcases c.hk with ⟨_, _, _, _, _, snd⟩ | ⟨t, _, _, _, _, _, _, _, _, _, _, _, _, _, snd⟩ | ⟨hlog, _, _, ht, _, _, snd⟩
    | ⟨_, _, _, _, _, _, _, snd⟩ | ⟨_, _, _, _, _, _, _, snd⟩ | ⟨t, l, pi, pt, es, lc, src, _, _, _, _, snd⟩
    | ⟨f, m, _, _, _, snd⟩ | ⟨_, _, _, _, _, _, _, _, snd⟩
  · rcases snd _ _ h with ⟨_, _, h⟩ | ⟨_, _, _, h⟩ <;> cases h
  · rw [snd] at h; simp at h
  · rcases snd _ _ h with h' | ⟨_, p, h'⟩
    · simp only [Body.rv.injEq] at h'
      exact ⟨h'.1, h'.2.1, h'.2.2.1, h'.2.2.2, ht, hlog⟩
    · obtain ⟨_, _, _, _, _, _, hae⟩ := aeFor_isAE r.node i p
      rw [hae] at h'; cases h'
  · obtain ⟨p, h'⟩ := snd _ _ h
    obtain ⟨_, _, _, _, _, _, hae⟩ := aeFor_isAE r.node i p
    rw [hae] at h'; cases h'
  · obtain ⟨p, h'⟩ := snd _ _ h
    obtain ⟨_, _, _, _, _, _, hae⟩ := aeFor_isAE r.node i p
    rw [hae] at h'; cases h'
  · rw [snd] at h; simp at h
  · rw [snd] at h; cases h
  · rw [snd] at h; cases h

theorem m_rv' (c : Ctx v g i inp r cr) : ∀ e ∈ (gApply g i r cr).s.msgs, ∀ U k li lt, e.body = .rv U k li lt →
    U ≤ ((gApply g i r cr).s.nodes k).term ∧ ∀ Lc, (U, k, Lc) ∈ (gApply g i r cr).cands → li = Lc.length ∧ lt = lastTerm Lc := by
  intro e he U k li lt hb
  rcases gApply_msgs he with h | ⟨_, hmem⟩
  · obtain ⟨h1, h2⟩ := c.hi.m_rv e h U k li lt hb
    refine ⟨Nat.le_trans h1 (c.term_post k), ?_⟩
    intro Lc hLc
    simp only [gApply_cands] at hLc
    rcases List.mem_append.mp hLc with hLc | hLc
    · obtain ⟨e1, e2, _⟩ := c.mem_candDiff hLc
      rw [e2] at h1; omega
    · exact h2 Lc hLc
  · rw [hb] at hmem
    obtain ⟨e1, e2, e3, e4, e5, e6⟩ := c.rv_sent hmem
    refine ⟨by rw [e2, c.node_self, e1]; exact Nat.le_refl _, ?_⟩
    intro Lc hLc
    simp only [gApply_cands] at hLc
    rcases List.mem_append.mp hLc with hLc | hLc
    · obtain ⟨_, _, e3', _⟩ := c.mem_candDiff hLc
      rw [e3, e4, e6, e3']; exact ⟨rfl, rfl⟩
    · have := c.hi.k0 U k Lc hLc
      rw [e2] at this; omega

end Ctx
end HappyModel.C11
