import HappyProofs.C11.ProgFifoInv
/-! `noRegress_of_fifo`: along a stable run, per-link FIFO delivery implies `noRegressRun`;
    `stable_leader_commits_fifo`: bounded progress with the FIFO hypothesis in place of `noRegressRun`. -/
namespace HappyModel.C11
open Spec

theorem noRegress_of_fifo (v : Variant) (hr : Rep v) {L t k : Nat} {Q : List Nat} : ∀ (as : List Act) (g : GSt) (del : List Env),
    PInv g → Est g.s L t → ArSrc g.s → k ≤ (g.s.nodes L).log.length → stableRun v t (L :: Q) g.s as = true →
    fifoRun v del g.s as = true → (∀ f ∈ Q, KF g.s del L t k f) → noRegressRun v L t k Q g.s as = true := by
  intro as
  induction as with
  | nil => intro g del _ _ _ _ _ _ _; rfl
  | cons a as ih =>
    intro g del inv hest har hkl hst hfifo K
    have hst' := stableRun_cons hst
    have hleL : ((step v g.s a).1.nodes L).term ≤ t := termsLe_mem (stableRun_here hst') (by simp)
    have hpost := lpost_of_lstep inv.all.hi.n_cl (lstep v hr g inv a hest hleL)
    have hkl' : k ≤ ((step v g.s a).1.nodes L).log.length := Nat.le_trans hkl hpost.log.length_le
    have inv' := pinv_step v hr g inv a
    have est' := est_step v hr g inv a hest hleL
    have har' := arSrc_step v hr g.s a har
    simp only [noRegressRun, Bool.and_eq_true, Bool.not_eq_true']
    cases hd : delivered g.s a with
    | none =>
      simp only [fifoRun, hd] at hfifo
      have hf0 : ∀ e0, delivered g.s a = some e0 → fifoOk del e0 = true := by intro e0 h; rw [hd] at h; cases h
      refine ⟨regress_of_fifo har K a hf0, ?_⟩
      have K' : ∀ f ∈ Q, KF (gstep v g a).s del L t k f := by
        intro f hf; rw [gstep_s]
        exact kf_step v hr g inv a hest hleL har hkl' (K f hf) hf0 (fun d h => h) (by intro e0 h; rw [hd] at h; cases h)
      have := ih (gstep v g a) del inv' (by rw [gstep_s]; exact est') (by rw [gstep_s]; exact har') (by rw [gstep_s]; exact hkl')
        (by rw [gstep_s]; exact hst') (by rw [gstep_s]; exact hfifo) K'
      rw [gstep_s] at this; exact this
    | some e0 =>
      simp only [fifoRun, hd, Bool.and_eq_true] at hfifo
      have hf0 : ∀ e1, delivered g.s a = some e1 → fifoOk del e1 = true := by
        intro e1 h; rw [hd] at h; cases h; exact hfifo.1
      refine ⟨regress_of_fifo har K a hf0, ?_⟩
      have K' : ∀ f ∈ Q, KF (gstep v g a).s (e0 :: del) L t k f := by
        intro f hf; rw [gstep_s]
        exact kf_step v hr g inv a hest hleL har hkl' (K f hf) hf0 (fun d h => List.mem_cons_of_mem _ h)
          (by intro e1 h; rw [hd] at h; cases h; exact List.mem_cons_self)
      have := ih (gstep v g a) (e0 :: del) inv' (by rw [gstep_s]; exact est') (by rw [gstep_s]; exact har') (by rw [gstep_s]; exact hkl')
        (by rw [gstep_s]; exact hst') (by rw [gstep_s]; exact hfifo.2) K'
      rw [gstep_s] at this; exact this

/-- a follower in sync: nothing in flight between it and the leader reaches beyond the leader's log -/
theorem kf_start {g : GSt} (inv : PInv g) {L t f k : Nat} (hest : Est g.s L t) (hs : Sync g.s L t f)
    (hk : (g.s.nodes L).log.length < k) {s' : St} (hm : s'.msgs = g.s.msgs) (hmi : (s'.nodes L).matchIndex = (g.s.nodes L).matchIndex) :
    KF s' [] L t k f := by
  have hae : ∀ e ∈ g.s.msgs, ∀ pl, AEof L t f e pl → pl ≤ (g.s.nodes L).log.length := by
    intro e he pl ⟨_, hdst, l, pi, pt, es, lc, hb, hp⟩
    have h1 := (hs.ae e he hdst l pi pt es lc hb).1.1
    obtain ⟨X, hX, hes, _⟩ := inv.all.hi.m_ae e he t l pi pt es lc hb
    have hXL : X <+: (g.s.nodes L).log := leaderLog_prefix inv.all hest.role (by rw [hest.term]; exact hX)
    have := hXL.length_le
    rw [hp, hes, List.length_drop]; omega
  have hack : ∀ e ∈ g.s.msgs, ∀ m, ACKof t f e m → m ≤ (g.s.nodes L).log.length := fun e he m hb => (hs.ar e he m hb).1
  have hmatch : (g.s.nodes L).matchIndex.getD f 0 ≤ (g.s.nodes L).log.length := by
    rcases inv.all.hi.n_ms L hest.role f with h | ⟨h, _⟩
    · omega
    · exact h
  refine ⟨?_, ?_, Or.inr ⟨?_, ?_⟩, ?_⟩
  · intro e _ e' he' pl pl' _ hae' _ hge
    rw [hm] at he'; have := hae e' he' pl' hae'; omega
  · intro e _ e' he' m m' _ hb' _ hge
    rw [hm] at he'; have := hack e' he' m' hb'; omega
  · intro e he m hb; rw [hm] at he; have := hack e he m hb; omega
  · rw [hmi]; omega
  · intro h; rw [hmi] at h; omega

/-- BOUNDED PROGRESS UNDER PER-LINK FIFO.  `stable_leader_commits` with `noRegressRun` replaced by `fifoRun`: on every
    (src, dst) link messages are delivered in the order they were sent. -/
theorem stable_leader_commits_fifo (v : Variant) (hr : Rep v) (n : Nat) (pre : List Act) (L t f : Nat) (c : Cmd) (Q : List Nat)
    (as : List Act)
    (hest : established (run v (init n) pre) L t = true)
    (hQnd : Q.Nodup) (hQne : Q ≠ []) (hQq : quorum n ≤ Q.length + 1)
    (hsync : ∀ p ∈ Q, inSync (run v (init n) pre) L t p = true)
    (hstable : stableRun v t (L :: Q) (run v (init n) pre) (.submit L f c :: as) = true)
    (hfair : ∀ p ∈ Q, ackedRun v L t (nextIdx (run v (init n) pre) L) p (run v (init n) pre) (.submit L f c :: as) = true)
    (hfifo : fifoRun v [] (run v (init n) pre) (.submit L f c :: as) = true) :
    getE ((run v (run v (init n) pre) (.submit L f c :: as)).nodes L).log (nextIdx (run v (init n) pre) L) = some ⟨t, c⟩
    ∧ (∀ p ∈ Q, getE ((run v (run v (init n) pre) (.submit L f c :: as)).nodes p).log (nextIdx (run v (init n) pre) L) = some ⟨t, c⟩)
    ∧ nextIdx (run v (init n) pre) L ≤ ((run v (run v (init n) pre) (.submit L f c :: as)).nodes L).commit
    ∧ nextIdx (run v (init n) pre) L ≤ ((run v (run v (init n) pre) (.submit L f c :: as)).nodes L).lastApplied
    ∧ Hit (outs v (run v (init n) pre) (.submit L f c :: as)) L (nextIdx (run v (init n) pre) L) f c := by
  apply stable_leader_commits v hr n pre L t f c Q as hest hQnd hQne hQq hsync hstable hfair
  have inv0 := pinv_reach v hr n pre
  have hs0 : (grun v (ginit n) pre).s = run v (init n) pre := grun_s v pre (ginit n)
  have har0 : ArSrc (run v (init n) pre) := arSrc_run v hr pre _ (arSrc_init n)
  generalize hg0 : grun v (ginit n) pre = g0 at inv0 hs0
  rw [← hs0] at hest hsync hstable hfifo har0 ⊢
  have est0 := established_iff.mp hest
  have hleL : ((step v g0.s (.submit L f c)).1.nodes L).term ≤ t :=
    termsLe_mem (stableRun_here (stableRun_cons hstable)) (by simp)
  have hstep : step v g0.s (.submit L f c) = applyHR g0.s L { node := submitNode (g0.s.nodes L) f c } := by
    simp only [step, est0.lt, decide_true, if_true]
    rw [leader_submit _ _ _ est0.role]
  have hnodeL : (step v g0.s (.submit L f c)).1.nodes L = submitNode (g0.s.nodes L) f c := by
    rw [hstep]; simp only [applyHR, upd_same]
  have hmsgs : (step v g0.s (.submit L f c)).1.msgs = g0.s.msgs := by rw [hstep]; simp [applyHR, mkEnvs]
  have hdel : delivered g0.s (.submit L f c) = none := rfl
  simp only [fifoRun, hdel] at hfifo
  simp only [noRegressRun, Bool.and_eq_true, Bool.not_eq_true']
  refine ⟨rfl, ?_⟩
  have := noRegress_of_fifo v hr (k := nextIdx g0.s L) (Q := Q) as (gstep v g0 (.submit L f c)) [] (pinv_step v hr g0 inv0 _)
    (by rw [gstep_s]; exact est_step v hr g0 inv0 _ est0 hleL) (by rw [gstep_s]; exact arSrc_step v hr g0.s _ har0)
    (by rw [gstep_s, hnodeL]; show _ ≤ ((g0.s.nodes L).log ++ [_]).length; simp [nextIdx])
    (by rw [gstep_s]; exact stableRun_cons hstable) (by rw [gstep_s]; exact hfifo)
    (by intro p hp; rw [gstep_s]
        exact kf_start inv0 est0 (sync_of_inSync (hsync p hp)) (by unfold nextIdx; omega) hmsgs (by rw [hnodeL]; rfl))
  rw [gstep_s] at this; exact this

end HappyModel.C11
