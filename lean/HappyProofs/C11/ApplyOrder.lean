import HappyProofs.C11.ApplyInv
/-! `applyOrderOk` for every run of the model (every variant). -/
namespace HappyModel.C11
open Spec

theorem consecutive_append : ∀ (l1 l2 : List (Nat × Nat)) (k m : Nat), l1.map (·.1) = List.range' k m →
    consecutiveFrom k (l1 ++ l2) = consecutiveFrom (k + m) l2 := by
  intro l1
  induction l1 with
  | nil =>
    intro l2 k m h
    cases m with
    | zero => simp
    | succ m => simp [List.range'] at h
  | cons a l1 ih =>
    intro l2 k m h
    cases m with
    | zero => simp [List.range'] at h
    | succ m =>
      simp only [List.map_cons, List.range', List.cons.injEq] at h
      simp only [List.cons_append, consecutiveFrom, h.1, beq_self_eq_true, Bool.true_and]
      rw [ih l2 (k + 1) m h.2]
      congr 1; omega

def CL (s : St) : Prop := ∀ j, (s.nodes j).commit ≤ (s.nodes j).lastApplied

theorem appsOf_cons (f : Frame) (fs : List Frame) (i : Nat) :
    appsOf (f :: fs) i = f.apps.filterMap (fun a => if a.1 = i then some a.2 else none) ++ appsOf fs i := by
  simp [appsOf]

/-- the applications a frame attributes to node `i` -/
def frameApps (f : Frame) (i : Nat) : List (Nat × Nat) := f.apps.filterMap (fun a => if a.1 = i then some a.2 else none)

theorem frameApps_handler (s' : St) (a : Act) (i j : Nat) (r : HR) (sent : List Env) :
    (frameApps (frameOf s' { target := some i, sent := sent, apps := r.apps, ress := r.ress } a) j).map (·.1)
      = if i = j then r.apps.map (·.1) else [] := by
  unfold frameApps frameOf tgt
  simp only [Option.getD_some]
  split
  · rename_i h; subst h
    induction r.apps with
    | nil => simp
    | cons p ps ih =>
      simp only [List.map_cons, List.filterMap_cons, if_true]
      simp only [List.map_cons, ih]
  · rename_i h
    induction r.apps with
    | nil => simp
    | cons p ps ih =>
      simp only [List.map_cons, List.filterMap_cons, h, if_false]
      exact ih

/-- one step: the invariant is kept and node `j`'s reported applications continue its sequence -/
theorem step_apps (v : Variant) (s : St) (a : Act) (hcl : CL s) :
    CL (step v s a).1 ∧ ∀ j, (s.nodes j).lastApplied ≤ ((step v s a).1.nodes j).lastApplied ∧
      (frameApps (frameOf (step v s a).1 (step v s a).2 a) j).map (·.1)
        = List.range' ((s.nodes j).lastApplied + 1) (((step v s a).1.nodes j).lastApplied - (s.nodes j).lastApplied) := by
  have handler : ∀ (i : Nat) (r : HR), ApOk (s.nodes i) r → step v s a = applyHR s i r →
      CL (step v s a).1 ∧ ∀ j, (s.nodes j).lastApplied ≤ ((step v s a).1.nodes j).lastApplied ∧
      (frameApps (frameOf (step v s a).1 (step v s a).2 a) j).map (·.1)
        = List.range' ((s.nodes j).lastApplied + 1) (((step v s a).1.nodes j).lastApplied - (s.nodes j).lastApplied) := by
    intro i r ok hs
    rw [hs]
    constructor
    · intro j
      simp only [applyHR]
      by_cases hj : j = i
      · subst hj; simp only [upd_same]; exact ok.cle
      · rw [upd_other _ _ _ _ hj]; exact hcl j
    · intro j
      simp only [applyHR]
      rw [frameApps_handler]
      by_cases hj : j = i
      · subst hj; simp only [upd_same, if_true]; exact ⟨ok.mono, ok.idx⟩
      · rw [upd_other _ _ _ _ hj]
        have : ¬ i = j := fun h => hj h.symm
        simp [this]
  rcases step_case v s a with ⟨hn, _, _, _, ha, _⟩ | ⟨e, _, _, _, _, _, _, hs⟩ | ⟨i, _, _, _, hs⟩ | ⟨i, _, _, _, hs⟩ | ⟨i, f, c, _, _, _, hs⟩
  · constructor
    · intro j; rw [hn]; exact hcl j
    · intro j; rw [hn]
      refine ⟨Nat.le_refl _, ?_⟩
      simp [frameApps, frameOf, ha]
  · exact handler _ _ (apOk_msg v s.n _ e (hcl _)) hs
  · exact handler _ _ (apOk_timeout s.n _ i (hcl _)) hs
  · exact handler _ _ (apOk_hb s.n _ i (hcl _)) hs
  · exact handler _ _ (apOk_submit _ f c (hcl _)) hs

theorem run_apps (v : Variant) (as : List Act) : ∀ s, CL s → ∀ j,
    consecutiveFrom ((s.nodes j).lastApplied + 1) (appsOf (framesFrom v s as) j) = true := by
  induction as with
  | nil => intro s _ j; simp [framesFrom, appsOf, consecutiveFrom]
  | cons a as ih =>
    intro s hcl j
    obtain ⟨hcl', hj⟩ := step_apps v s a hcl
    obtain ⟨hmono, hidx⟩ := hj j
    simp only [framesFrom]
    rw [appsOf_cons]
    change consecutiveFrom _ (frameApps _ j ++ _) = true
    rw [consecutive_append _ _ _ _ hidx]
    have : (s.nodes j).lastApplied + 1 + (((step v s a).1.nodes j).lastApplied - (s.nodes j).lastApplied)
        = ((step v s a).1.nodes j).lastApplied + 1 := by omega
    rw [this]
    exact ih _ hcl' j

/-- APPLY IN ORDER, NO GAPS.  For every variant, cluster size and action list: the indices each
    node reports to its state machine are 1, 2, 3, … -/
theorem apply_in_order_no_gaps (v : Variant) (n : Nat) (as : List Act) : applyOrderOk (frames v n as) = true := by
  unfold applyOrderOk
  simp only [List.all_eq_true]
  intro i _
  simp only [frames]
  rw [appsOf_cons]
  simp only [List.filterMap_nil, List.nil_append]
  have := run_apps v as (init n) (by intro j; simp [init, initNode]) i
  simpa [init, initNode] using this

end HappyModel.C11
