import HappyProofs.C11.Ghost
/-! List facts about logs, and the heart of Log Matching: what the append loop of
    `_handle_append_entries` does to a log all of whose prefixes are *recorded*. -/
namespace HappyModel.C11

theorem lastTerm_concat (l : List Entry) (e : Entry) : lastTerm (l ++ [e]) = e.term := by
  simp [lastTerm, List.getLast?_concat]

theorem lastTerm_take {l : List Entry} {k : Nat} (h : k < l.length) : lastTerm (l.take (k + 1)) = l[k].term := by
  rw [List.take_succ_eq_append_getElem h, lastTerm_concat]

theorem getE_succ (l : List Entry) (k : Nat) : getE l (k + 1) = l[k]? := by
  simp [getE]

theorem getE_some {l : List Entry} {k : Nat} {e : Entry} (h : getE l (k + 1) = some e) :
    ∃ hk : k < l.length, l[k] = e := by
  rw [getE_succ] at h
  obtain ⟨hk, he⟩ := List.getElem?_eq_some_iff.mp h
  exact ⟨hk, he⟩

theorem getE_none {l : List Entry} {k : Nat} (h : getE l (k + 1) = none) : l.length ≤ k := by
  rw [getE_succ] at h
  exact List.getElem?_eq_none_iff.mp h

/-- every non-empty prefix of `l` is recorded in `C` -/
def Rec (C : List (List Entry)) (l : List Entry) : Prop := ∀ k, k < l.length → l.take (k + 1) ∈ C

theorem Rec.concat {C : List (List Entry)} {l : List Entry} {e : Entry} (h : Rec C l) (he : l ++ [e] ∈ C) : Rec C (l ++ [e]) := by
  intro k hk
  simp only [List.length_append, List.length_singleton] at hk
  by_cases hk' : k < l.length
  · rw [List.take_append_of_le_length (by omega)]; exact h k hk'
  · have : k + 1 = (l ++ [e]).length := by simp; omega
    rw [this, List.take_length]; exact he

theorem Rec.take {C : List (List Entry)} {l : List Entry} (h : Rec C l) (m : Nat) : Rec C (l.take m) := by
  intro k hk
  rw [List.length_take] at hk
  rw [List.take_take]
  have : min (k + 1) m = k + 1 := by omega
  rw [this]; exact h k (by omega)

theorem Rec.mono {C C' : List (List Entry)} {l : List Entry} (h : Rec C l) (hs : ∀ L ∈ C, L ∈ C') : Rec C' l :=
  fun k hk => hs _ (h k hk)

/-- records are determined by their length and the term of their last entry -/
def Uniq (C : List (List Entry)) : Prop :=
  ∀ L ∈ C, ∀ L' ∈ C, L.length = L'.length → lastTerm L = lastTerm L' → L = L'

theorem appendLoop_log_pending (v : Variant) (es : List Entry) : ∀ (x : Node) (idx : Nat),
    (appendLoop v x idx es).term = x.term := by
  intro x idx
  have := appendLoop_ev v es x idx
  exact (ev_eq this).1

/-- THE LOOP.  `x`'s log is recorded and starts with `Q`; the entries `es` continue `Q` in a
    recorded way.  Then the log after the loop is recorded (and still starts with `Q ++ es`). -/
theorem appendLoop_rec (v : Variant) (C : List (List Entry)) (hu : Uniq C) (es : List Entry) :
    ∀ (x : Node) (Q : List Entry), Rec C x.log → Q.length ≤ x.log.length → x.log.take Q.length = Q →
      (∀ j, j < es.length → Q ++ es.take (j + 1) ∈ C) →
      Rec C (appendLoop v x (Q.length + 1) es).log := by
  induction es with
  | nil => intro x Q hr _ _ _; exact hr
  | cons e es ih =>
    intro x Q hr hlen hQ hes
    have hQe : Q ++ [e] ∈ C := by have := hes 0 (by simp); simpa using this
    have hes' : ∀ j, j < es.length → (Q ++ [e]) ++ es.take (j + 1) ∈ C := by
      intro j hj
      have := hes (j + 1) (by simp; omega)
      simpa [List.take_succ_cons] using this
    have hlenQ : (Q ++ [e]).length = Q.length + 1 := by simp
    simp only [appendLoop]
    split
    · rename_i ex hex
      obtain ⟨hk, hexk⟩ := getE_some hex
      split
      · -- conflict: truncate, then append
        rename_i hne
        have htr : (truncateFrom v x (Q.length + 1)).log = x.log.take Q.length := by
          unfold truncateFrom
          have : ¬ (Q.length + 1 < 1 ∨ Q.length + 1 > x.log.length) := by omega
          rw [if_neg this]; simp
        have hnew : (truncateFrom v x (Q.length + 1)).log ++ [e] = Q ++ [e] := by rw [htr, hQ]
        have := ih { truncateFrom v x (Q.length + 1) with log := (truncateFrom v x (Q.length + 1)).log ++ [e] } (Q ++ [e])
          (by show Rec C ((truncateFrom v x (Q.length + 1)).log ++ [e])
              rw [htr]; exact Rec.concat (hr.take _) (by rw [hQ]; exact hQe))
          (by show (Q ++ [e]).length ≤ ((truncateFrom v x (Q.length + 1)).log ++ [e]).length; rw [hnew]; exact Nat.le_refl _)
          (by show ((truncateFrom v x (Q.length + 1)).log ++ [e]).take (Q ++ [e]).length = Q ++ [e]
              rw [hnew, List.take_length])
          hes'
        rw [hlenQ] at this; exact this
      · -- same term: the existing prefix is the recorded one
        rename_i heq
        have heq' : ex.term = e.term := by
          apply Classical.byContradiction; intro h; exact heq h
        have hpre : x.log.take (Q.length + 1) = Q ++ [e] := by
          apply hu _ (hr Q.length hk) _ hQe
          · rw [List.length_take, hlenQ]; omega
          · rw [lastTerm_take hk, lastTerm_concat, hexk]; exact heq'
        have := ih x (Q ++ [e]) hr (by rw [hlenQ]; omega) (by rw [hlenQ]; exact hpre) hes'
        rw [hlenQ] at this; exact this
    · -- no entry there: append
      rename_i hnone
      have hle := getE_none hnone
      have hxl : x.log = Q := by
        have : x.log.length = Q.length := by omega
        rw [← hQ, ← this, List.take_length]
      have := ih { x with log := x.log ++ [e] } (Q ++ [e])
        (by show Rec C (x.log ++ [e]); exact Rec.concat hr (by rw [hxl]; exact hQe))
        (by show (Q ++ [e]).length ≤ (x.log ++ [e]).length; rw [hxl]; exact Nat.le_refl _)
        (by show (x.log ++ [e]).take (Q ++ [e]).length = Q ++ [e]; rw [hxl, List.take_length])
        hes'
      rw [hlenQ] at this; exact this

end HappyModel.C11
