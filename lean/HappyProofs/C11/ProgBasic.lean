import HappyProofs.C11.Safety
import HappyProofs.C11.LeaderInit
/-! Groundwork for the bounded-progress theorem: runs split at any point, message ids are unique
    (`IdsOk`), and under the repairs `last_applied` never runs ahead of `commit_index` (`LaOk`), so an
    entry appended at `len(log) + 1` has not been applied yet. -/
namespace HappyModel.C11
open Spec

/-! ### splitting runs -/

theorem run_append (v : Variant) (as bs : List Act) : ∀ s, run v s (as ++ bs) = run v (run v s as) bs := by
  induction as with
  | nil => intro s; rfl
  | cons a as ih => intro s; simp only [List.cons_append, run, ih]

theorem grun_append (v : Variant) (as bs : List Act) : ∀ g, grun v g (as ++ bs) = grun v (grun v g as) bs := by
  induction as with
  | nil => intro g; rfl
  | cons a as ih => intro g; simp only [List.cons_append, grun, ih]

theorem framesFrom_append (v : Variant) (as bs : List Act) : ∀ s,
    framesFrom v s (as ++ bs) = framesFrom v s as ++ framesFrom v (run v s as) bs := by
  induction as with
  | nil => intro s; rfl
  | cons a as ih => intro s; simp only [List.cons_append, framesFrom, run, ih]

theorem frames_append (v : Variant) (n : Nat) (as bs : List Act) :
    frames v n (as ++ bs) = frames v n as ++ framesFrom v (run v (init n) as) bs := by
  simp only [frames, framesFrom_append, List.cons_append]

/-! ### message ids -/

/-- every message in the soup was numbered below the next free id -/
def IdsOk (s : St) : Prop := ∀ e ∈ s.msgs, e.id < s.nextId

theorem mem_mkEnvs_id {i : Nat} {l : List (Nat × Body)} : ∀ {k : Nat} {e : Env}, e ∈ mkEnvs i k l → k ≤ e.id ∧ e.id < k + l.length := by
  induction l with
  | nil => intro k e h; simp [mkEnvs] at h
  | cons p r ih =>
    intro k e h
    obtain ⟨d, b⟩ := p
    simp only [mkEnvs, List.mem_cons] at h
    rcases h with h | h
    · subst h; simp
    · have := ih h; simp only [List.length_cons]; omega

theorem applyHR_nextId (s : St) (i : Nat) (r : HR) : (applyHR s i r).1.nextId = s.nextId + r.sends.length := rfl

theorem applyHR_msgs {s : St} {i : Nat} {r : HR} {e : Env} (he : e ∈ (applyHR s i r).1.msgs) :
    e ∈ s.msgs ∨ (e ∈ mkEnvs i s.nextId r.sends) := by
  simp only [applyHR, List.mem_append, List.mem_reverse] at he
  rcases he with he | he
  · exact Or.inr he
  · exact Or.inl he

/-- a step keeps old messages' ids and numbers new ones from `nextId` on -/
theorem step_ids (v : Variant) (s : St) (a : Act) :
    s.nextId ≤ (step v s a).1.nextId ∧
    ∀ e ∈ (step v s a).1.msgs, e ∈ s.msgs ∨ (s.nextId ≤ e.id ∧ e.id < (step v s a).1.nextId) := by
  have hr : ∀ (i : Nat) (r : HR), s.nextId ≤ (applyHR s i r).1.nextId ∧
      ∀ e ∈ (applyHR s i r).1.msgs, e ∈ s.msgs ∨ (s.nextId ≤ e.id ∧ e.id < (applyHR s i r).1.nextId) := by
    intro i r
    refine ⟨by rw [applyHR_nextId]; omega, fun e he => ?_⟩
    rcases applyHR_msgs he with h | h
    · exact Or.inl h
    · right; rw [applyHR_nextId]; exact mem_mkEnvs_id h
  have hid : s.nextId ≤ s.nextId ∧ ∀ e ∈ s.msgs, e ∈ s.msgs ∨ (s.nextId ≤ e.id ∧ e.id < s.nextId) :=
    ⟨Nat.le_refl _, fun e he => Or.inl he⟩
  cases a with
  | deliver m =>
    simp only [step]
    split
    · split
      · exact hr _ _
      · exact hid
    · exact hid
  | timeout i => simp only [step]; split; exact hr _ _; exact hid
  | heartbeat i => simp only [step]; split; exact hr _ _; exact hid
  | submit i f c => simp only [step]; split; exact hr _ _; exact hid
  | drop m =>
    simp only [step]
    exact ⟨Nat.le_refl _, fun e he => Or.inl (List.mem_filter.mp he).1⟩
  | crash i => exact hid
  | restart i => exact hid

theorem idsOk_step (v : Variant) (s : St) (a : Act) (h : IdsOk s) : IdsOk (step v s a).1 := by
  intro e he
  obtain ⟨h1, h2⟩ := step_ids v s a
  rcases h2 e he with h3 | h3
  · have := h e h3; omega
  · exact h3.2

theorem idsOk_run (v : Variant) (as : List Act) : ∀ s, IdsOk s → IdsOk (run v s as) := by
  induction as with
  | nil => intro s h; exact h
  | cons a as ih => intro s h; exact ih _ (idsOk_step v s a h)

theorem idsOk_init (n : Nat) : IdsOk (init n) := by intro e he; simp [init] at he

theorem findMsg_id {s : St} {m : Nat} {e : Env} (h : findMsg s m = some e) : e.id = m := by
  have := List.find?_some h
  simpa using this

/-! ### `last_applied ≤ commit_index` -/

/-- a handler leaves `last_applied` alone or moves it to the new commit index at most -/
def LaLe (x : Node) (r : HR) : Prop := r.node.lastApplied = x.lastApplied ∨ r.node.lastApplied ≤ r.node.commit

theorem laLe_advance (x : Node) (new : Nat) (h : x.commit ≤ x.lastApplied) : LaLe x (advanceCommit { node := x } new) := by
  unfold LaLe advanceCommit
  simp only []
  split
  · exact Or.inl rfl
  · rename_i hnew
    have hlen : ((x.log.take (min new x.log.length)).drop x.commit).length = min new x.log.length - x.commit := by
      rw [List.length_drop, List.length_take]; omega
    obtain ⟨a1, a2, _⟩ := applyFrom_la ((x.log.take (min new x.log.length)).drop x.commit)
      { node := { x with commit := min new x.log.length } } (x.commit + 1) (by show x.commit + 1 ≤ x.lastApplied + 1; omega)
    rw [hlen] at a1
    change _ = max x.lastApplied _ at a1
    change _ = min new x.log.length at a2
    rw [a1, a2]
    omega

theorem laLe_same {x : Node} {r : HR} (hl : r.node.lastApplied = x.lastApplied) : LaLe x r := Or.inl hl

theorem laLe_trans {x y : Node} {r : HR} (hy : y.lastApplied = x.lastApplied) (h : LaLe y r) : LaLe x r := by
  unfold LaLe at h ⊢; rw [← hy]; exact h

theorem laLe_aeCommit (x : Node) (lc : Nat) (h : x.commit ≤ x.lastApplied) : LaLe x (aeCommit x lc) := by
  unfold aeCommit; split
  · exact laLe_advance x _ h
  · exact laLe_same rfl

theorem laLe_tryAdvance (n : Nat) (x : Node) (me : Nat) (h : x.commit ≤ x.lastApplied) : LaLe x (tryAdvance n x me) := by
  unfold tryAdvance; split
  · exact laLe_advance x _ h
  · exact laLe_same rfl

theorem laLe_msg (v : Variant) (n : Nat) (x : Node) (e : Env) (h : x.commit ≤ x.lastApplied) : LaLe x (handleMsg v n x e) := by
  unfold handleMsg
  split
  · unfold handleRV rvCore; split <;> split <;> exact laLe_same rfl
  · unfold handleVR
    split
    · exact laLe_same rfl
    · split
      · exact laLe_same rfl
      · unfold vrCount; split <;> exact laLe_same rfl
  · rename_i t l pi pt es lc _
    unfold handleAE
    split
    · exact laLe_same rfl
    · split
      · exact laLe_same rfl
      · obtain ⟨c1, c2⟩ := appendLoop_cl v es (stepDown v x t) (pi + 1)
        have hc : (appendLoop v (stepDown v x t) (pi + 1) es).commit ≤ (appendLoop v (stepDown v x t) (pi + 1) es).lastApplied := by
          rw [c2]; exact Nat.le_trans c1 h
        have := laLe_aeCommit (appendLoop v (stepDown v x t) (pi + 1) es) lc hc
        unfold LaLe at this ⊢
        rw [c2] at this
        exact this
  · rename_i t s f mi _
    unfold handleAR
    split
    · exact laLe_same rfl
    · split
      · exact laLe_same rfl
      · split
        · exact laLe_same rfl
        · split
          · exact laLe_trans (y := { x with nextIndex := x.nextIndex.set f (mi + 1), matchIndex := x.matchIndex.set f mi }) rfl
              (laLe_tryAdvance n _ e.dst h)
          · split <;> exact laLe_same rfl

theorem laLe_timeout (n : Nat) (x : Node) (me : Nat) : LaLe x (handleTimeout n x me) := by
  unfold handleTimeout
  split
  · exact laLe_same rfl
  · split <;> exact laLe_same rfl

theorem laLe_hb (n : Nat) (x : Node) (me : Nat) : LaLe x (handleHB n x me) := by
  unfold handleHB; split <;> exact laLe_same rfl

theorem laLe_submit (x : Node) (f : Nat) (c : Cmd) : LaLe x (handleSubmit x f c) := by
  unfold handleSubmit; split <;> exact laLe_same rfl

/-- in every state: `last_applied ≤ commit_index` (the other half, `commit ≤ last_applied`, is `CL`) -/
def LaOk (s : St) : Prop := ∀ j, (s.nodes j).lastApplied ≤ (s.nodes j).commit

theorem laOk_step (v : Variant) (hr : Rep v) (g : GSt) (inv : AllInv g) (hcl : CL g.s) (h : LaOk g.s) (a : Act) :
    LaOk (step v g.s a).1 := by
  obtain ⟨_, hmono⟩ := commit_step v hr g inv a
  have handler : ∀ (i : Nat) (r : HR), LaLe (g.s.nodes i) r → step v g.s a = applyHR g.s i r → LaOk (step v g.s a).1 := by
    intro i r hl hs j
    have hm := hmono j
    rw [hs] at hm ⊢
    simp only [applyHR] at hm ⊢
    by_cases hj : j = i
    · subst hj
      rw [upd_same] at hm ⊢
      rcases hl with hl | hl
      · rw [hl]; exact Nat.le_trans (h j) hm
      · exact hl
    · rw [upd_other _ _ _ _ hj]; exact h j
  rcases step_case v g.s a with ⟨hn, _, _, _, _, _⟩ | ⟨e, _, _, _, _, _, _, hs⟩ | ⟨i, _, _, _, hs⟩ | ⟨i, _, _, _, hs⟩ | ⟨i, f, c, _, _, _, hs⟩
  · intro j; rw [hn]; exact h j
  · exact handler _ _ (laLe_msg v g.s.n _ e (hcl _)) hs
  · exact handler _ _ (laLe_timeout g.s.n _ i) hs
  · exact handler _ _ (laLe_hb g.s.n _ i) hs
  · exact handler _ _ (laLe_submit _ f c) hs

theorem cl_run (v : Variant) (as : List Act) : ∀ s, CL s → CL (run v s as) := by
  induction as with
  | nil => intro s h; exact h
  | cons a as ih => intro s h; exact ih _ (step_apps v s a h).1

theorem cl_init (n : Nat) : CL (init n) := by intro j; simp [init, initNode]

theorem laOk_grun (v : Variant) (hr : Rep v) (as : List Act) : ∀ g, AllInv g → CL g.s → LaOk g.s → LaOk (grun v g as).s := by
  induction as with
  | nil => intro g _ _ h; exact h
  | cons a as ih =>
    intro g inv hcl h
    have h' := laOk_step v hr g inv hcl h a
    have hcl' := (step_apps v g.s a hcl).1
    rw [← gstep_s] at h' hcl'
    exact ih _ (allInv_step v hr g inv a) hcl' h'

theorem laOk_reach (v : Variant) (hr : Rep v) (n : Nat) (as : List Act) : LaOk (run v (init n) as) := by
  have := laOk_grun v hr as (ginit n) (allInv_init n) (cl_init n) (by intro j; simp [ginit, init, initNode])
  rw [grun_s] at this; exact this

/-! ### the `match_index` table always has one slot per node -/

/-- a handler keeps the length of `match_index` or rebuilds the table with `n` slots -/
def MiKeep (n : Nat) (x : Node) (r : HR) : Prop := r.node.matchIndex.length = x.matchIndex.length ∨ r.node.matchIndex.length = n

theorem truncateFrom_mi (v : Variant) (x : Node) (idx : Nat) : (truncateFrom v x idx).matchIndex = x.matchIndex := by
  unfold truncateFrom; split <;> rfl

theorem appendLoop_mi (v : Variant) (es : List Entry) : ∀ (x : Node) (idx : Nat), (appendLoop v x idx es).matchIndex = x.matchIndex := by
  induction es with
  | nil => intro x idx; rfl
  | cons e es ih =>
    intro x idx
    simp only [appendLoop]
    split
    · split
      · rw [ih]; exact truncateFrom_mi v x idx
      · exact ih x (idx + 1)
    · rw [ih]

theorem applyOne_mi' (r : HR) (idx : Nat) (e : Entry) : (applyOne r idx e).node.matchIndex = r.node.matchIndex := by
  unfold applyOne
  simp only []
  split
  · split <;> rfl
  · rfl

theorem applyFrom_mi' (es : List Entry) : ∀ (r : HR) (idx : Nat), (applyFrom r idx es).node.matchIndex = r.node.matchIndex := by
  induction es with
  | nil => intro r idx; rfl
  | cons e es ih => intro r idx; simp only [applyFrom, ih, applyOne_mi']

theorem advanceCommit_mi (r : HR) (k : Nat) : (advanceCommit r k).node.matchIndex = r.node.matchIndex := by
  unfold advanceCommit
  simp only []
  split
  · rfl
  · rw [applyFrom_mi']

theorem miKeep_msg (v : Variant) (n : Nat) (x : Node) (e : Env) : MiKeep n x (handleMsg v n x e) := by
  unfold handleMsg
  split
  · unfold handleRV rvCore; split <;> split <;> exact Or.inl rfl
  · unfold handleVR
    split
    · exact Or.inl rfl
    · split
      · exact Or.inl rfl
      · unfold vrCount; split
        · right; simp [becomeLeader, leaderInit]
        · exact Or.inl rfl
  · rename_i t l pi pt es lc _
    unfold handleAE
    split
    · exact Or.inl rfl
    · split
      · exact Or.inl rfl
      · left
        show (aeCommit (appendLoop v (stepDown v x t) (pi + 1) es) lc).node.matchIndex.length = _
        unfold aeCommit
        split
        · rw [advanceCommit_mi, appendLoop_mi]; rfl
        · rw [appendLoop_mi]; rfl
  · rename_i t s f mi _
    unfold handleAR
    split
    · exact Or.inl rfl
    · split
      · exact Or.inl rfl
      · split
        · exact Or.inl rfl
        · split
          · left
            unfold tryAdvance
            split
            · rw [advanceCommit_mi]; simp
            · simp
          · split <;> exact Or.inl rfl

theorem miKeep_timeout (n : Nat) (x : Node) (me : Nat) : MiKeep n x (handleTimeout n x me) := by
  unfold handleTimeout
  split
  · exact Or.inl rfl
  · split
    · right; simp [becomeLeader, leaderInit]
    · exact Or.inl rfl

theorem miKeep_hb (n : Nat) (x : Node) (me : Nat) : MiKeep n x (handleHB n x me) := by
  unfold handleHB; split <;> exact Or.inl rfl

theorem miKeep_submit (n : Nat) (x : Node) (f : Nat) (c : Cmd) : MiKeep n x (handleSubmit x f c) := by
  unfold handleSubmit; split <;> exact Or.inl rfl

def MiLen (s : St) : Prop := ∀ j, (s.nodes j).matchIndex.length = s.n

theorem miLen_step (v : Variant) (s : St) (a : Act) (h : MiLen s) : MiLen (step v s a).1 := by
  have handler : ∀ (i : Nat) (r : HR), MiKeep s.n (s.nodes i) r → step v s a = applyHR s i r → MiLen (step v s a).1 := by
    intro i r hk hs j
    rw [hs]
    simp only [applyHR]
    by_cases hj : j = i
    · subst hj
      rw [upd_same]
      rcases hk with hk | hk
      · rw [hk]; exact h j
      · exact hk
    · rw [upd_other _ _ _ _ hj]; exact h j
  rcases step_case v s a with ⟨hn, _, hsz, _, _, _⟩ | ⟨e, _, _, _, _, _, _, hs⟩ | ⟨i, _, _, _, hs⟩ | ⟨i, _, _, _, hs⟩ | ⟨i, f, c, _, _, _, hs⟩
  · intro j; rw [hn, hsz]; exact h j
  · exact handler _ _ (miKeep_msg v s.n _ e) hs
  · exact handler _ _ (miKeep_timeout s.n _ i) hs
  · exact handler _ _ (miKeep_hb s.n _ i) hs
  · exact handler _ _ (miKeep_submit s.n _ f c) hs

theorem miLen_init (n : Nat) : MiLen (init n) := by intro j; simp [init, initNode]

end HappyModel.C11
