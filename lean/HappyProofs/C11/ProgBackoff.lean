import HappyProofs.C11.ProgJudgeOk
/-! The log back-off is finite: a leader whose `next_index[p]` is `N` gets an AppendEntries accepted
    by follower `p` after at most `N - 1` refusals — every refusal lowers `next_index[p]` by one
    (`nack_decrements`) and an AppendEntries with `prev_log_index = 0` is never refused
    (`prev0_not_refused`).  `backoff_bound` is the statement for the two handlers iterated against
    each other (the follower's log does not change on a refusal). -/
namespace HappyModel.C11
open Spec

/-- the leader's node after `j` refusals from `p` -/
def nackIter (x : Node) (p : Nat) : Nat → Node
  | 0 => x
  | j + 1 => nackIter (nackNode x p) p j

/-- `prev_log_index` / `prev_log_term` of the AppendEntries node `z` builds for `p` -/
def aePrev (z : Node) (p : Nat) : Nat := z.nextIndex.getD p 1 - 1
def aePt (z : Node) (p : Nat) : Nat := if aePrev z p > 0 then termAt z.log (aePrev z p) else 0

theorem aeFor_prev (z : Node) (me p : Nat) : aeFor z me p = .ae z.term me (aePrev z p) (aePt z p) (z.log.drop (aePrev z p)) z.commit := rfl

theorem nackNode_len (x : Node) (p : Nat) : (nackNode x p).nextIndex.length = x.nextIndex.length := by
  simp [nackNode]

theorem nackNode_prev (x : Node) (p : Nat) (hp : p < x.nextIndex.length) : aePrev (nackNode x p) p = aePrev x p - 1 := by
  unfold aePrev
  rw [nack_decrements x p hp]
  omega

/-- BACK-OFF IS BOUNDED.  Against a follower `y` (whose log a refusal leaves alone), the leader's `j`-th retry is accepted
    for some `j ≤ next_index[p] - 1`, all earlier ones being refused. -/
theorem backoff_bound (v : Variant) (t : Nat) (y : Node) (p : Nat) : ∀ (d : Nat) (x : Node), p < x.nextIndex.length → aePrev x p = d →
    ∃ j, j ≤ d ∧ aeBad (stepDown v y t) (aePrev (nackIter x p j) p) (aePt (nackIter x p j) p) = false
      ∧ ∀ i, i < j → aeBad (stepDown v y t) (aePrev (nackIter x p i) p) (aePt (nackIter x p i) p) = true := by
  intro d
  induction d with
  | zero =>
    intro x _ hd
    refine ⟨0, Nat.le_refl _, ?_, fun i hi => absurd hi (Nat.not_lt_zero _)⟩
    simp only [nackIter, hd]
    exact prev0_not_refused _ _
  | succ d ih =>
    intro x hp hd
    cases hb : aeBad (stepDown v y t) (aePrev x p) (aePt x p) with
    | false => exact ⟨0, Nat.zero_le _, hb, fun i hi => absurd hi (Nat.not_lt_zero _)⟩
    | true =>
      obtain ⟨j, hj, hacc, hprev⟩ := ih (nackNode x p) (by rw [nackNode_len]; exact hp) (by rw [nackNode_prev x p hp, hd]; rfl)
      refine ⟨j + 1, by omega, hacc, ?_⟩
      intro i hi
      cases i with
      | zero => exact hb
      | succ i => exact hprev i (by omega)

end HappyModel.C11
