import HappyProofs.C11.LogLemmas
import HappyProofs.C11.Election
/-! The Log Matching invariant: every prefix of every log (and of every AppendEntries in
    flight) is a *recorded* log, and records are unique per (length, last term). -/
namespace HappyModel.C11

@[simp] theorem applyOne_log (r : HR) (idx : Nat) (e : Entry) : (applyOne r idx e).node.log = r.node.log := by
  unfold applyOne
  simp only []
  split
  · split <;> rfl
  · rfl

@[simp] theorem applyFrom_log (es : List Entry) : ∀ (r : HR) (idx : Nat), (applyFrom r idx es).node.log = r.node.log := by
  induction es with
  | nil => intro r idx; rfl
  | cons e es ih => intro r idx; simp only [applyFrom, ih, applyOne_log]

@[simp] theorem advanceCommit_log (r : HR) (k : Nat) : (advanceCommit r k).node.log = r.node.log := by
  unfold advanceCommit
  simp only []
  split
  · rfl
  · rw [applyFrom_log]

@[simp] theorem aeCommit_log (x : Node) (lc : Nat) : (aeCommit x lc).node.log = x.log := by
  unfold aeCommit; split
  · rw [advanceCommit_log]
  · rfl

theorem tryAdvance_log (n : Nat) (x : Node) (me : Nat) : (tryAdvance n x me).node.log = x.log := by
  unfold tryAdvance; split
  · rw [advanceCommit_log]
  · rfl

/-- an AppendEntries payload continues a recorded prefix in a recorded way -/
def AEok (C : List (List Entry)) (pi pt : Nat) (es : List Entry) : Prop :=
  es = [] ∨ ∃ P : List Entry, P.length = pi ∧ (pi > 0 → lastTerm P = pt ∧ P ∈ C) ∧
    ∀ j, j < es.length → P ++ es.take (j + 1) ∈ C

theorem AEok.mono {C C' : List (List Entry)} {pi pt : Nat} {es : List Entry} (h : AEok C pi pt es)
    (hs : ∀ L ∈ C, L ∈ C') : AEok C' pi pt es := by
  rcases h with h | ⟨P, h1, h2, h3⟩
  · exact Or.inl h
  · exact Or.inr ⟨P, h1, fun hp => ⟨(h2 hp).1, hs _ (h2 hp).2⟩, fun j hj => hs _ (h3 j hj)⟩

theorem aeFor_ok {C : List (List Entry)} {x : Node} (hr : Rec C x.log) (me p : Nat) {t l pi pt lc : Nat} {es : List Entry}
    (h : aeFor x me p = .ae t l pi pt es lc) : AEok C pi pt es := by
  unfold aeFor at h
  simp only [Body.ae.injEq] at h
  obtain ⟨_, _, hpi, hpt, hes, _⟩ := h
  subst hpi
  generalize x.nextIndex.getD p 1 - 1 = pi at *
  by_cases hnil : es = []
  · exact Or.inl hnil
  · right
    have hlt : pi < x.log.length := by
      apply Classical.byContradiction; intro hge
      apply hnil; rw [← hes]; exact List.drop_eq_nil_of_le (by omega)
    refine ⟨x.log.take pi, by rw [List.length_take]; omega, ?_, ?_⟩
    · intro hpos
      obtain ⟨k, hk⟩ : ∃ k, pi = k + 1 := ⟨pi - 1, by omega⟩
      have hkl : k < x.log.length := by omega
      constructor
      · rw [← hpt, if_pos hpos, hk, lastTerm_take hkl]
        simp [termAt, getE, List.getElem?_eq_getElem hkl]
      · rw [hk]; exact hr k hkl
    · intro j hj
      have : x.log.take pi ++ es.take (j + 1) = x.log.take (pi + (j + 1)) := by
        rw [← hes]; exact (List.take_add).symm
      rw [this]
      rw [← hes, List.length_drop] at hj
      exact hr (pi + j) (by omega)

/-- the follower side: after an accepted AppendEntries the log is still recorded -/
theorem aeAccept_rec (v : Variant) {C : List (List Entry)} (hu : Uniq C) {x : Node} (hr : Rec C x.log)
    {pi pt : Nat} {es : List Entry} (hok : AEok C pi pt es) (hbad : aeBad x pi pt = false) (me src lc : Nat) :
    Rec C (aeAccept v x me src pi es lc).node.log := by
  show Rec C (aeCommit (appendLoop v x (pi + 1) es) lc).node.log
  rw [aeCommit_log]
  rcases hok with hnil | ⟨P, hP, hprev, hes⟩
  · rw [hnil]; exact hr
  · -- the follower's prefix of length `pi` is the recorded `P`
    have hpre : pi ≤ x.log.length ∧ x.log.take pi = P := by
      by_cases hpos : pi > 0
      · obtain ⟨k, hk⟩ : ∃ k, pi = k + 1 := ⟨pi - 1, by omega⟩
        unfold aeBad at hbad
        simp only [hpos, decide_true, Bool.true_and] at hbad
        split at hbad
        · cases hbad
        · rename_i ex hex
          rw [hk] at hex
          obtain ⟨hkl, hexk⟩ := getE_some hex
          have hterm : ex.term = pt := by simpa using hbad
          refine ⟨by omega, ?_⟩
          rw [hk]
          apply hu _ (hr k hkl) _ (hprev hpos).2
          · rw [List.length_take, hP]; omega
          · rw [lastTerm_take hkl, (hprev hpos).1, hexk]; exact hterm
      · have h0 : pi = 0 := by omega
        refine ⟨by omega, ?_⟩
        rw [h0] at hP ⊢
        simp only [List.take_zero]
        exact (List.eq_nil_of_length_eq_zero hP).symm
    have := appendLoop_rec v C hu es x P hr (by rw [hP]; exact hpre.1) (by rw [hP]; exact hpre.2) hes
    rw [hP] at this; exact this

structure LInv (g : GSt) : Prop where
  g0 : ∀ L ∈ g.created, L ≠ []
  g1 : Uniq g.created
  g2 : ∀ i, (g.s.nodes i).role = .leader → ∀ L ∈ g.created, lastTerm L = (g.s.nodes i).term →
        L.length ≤ (g.s.nodes i).log.length ∧ (g.s.nodes i).log.take L.length = L
  g3 : ∀ L ∈ g.created, ∃ c, (lastTerm L, c) ∈ g.leaders
  b : ∀ i, Rec g.created (g.s.nodes i).log
  m : ∀ e ∈ g.s.msgs, ∀ t l pi pt es lc, e.body = .ae t l pi pt es lc → AEok g.created pi pt es

theorem linv_init (n : Nat) : LInv (ginit n) := by
  refine ⟨?_, ?_, ?_, ?_, ?_, ?_⟩ <;> simp [ginit, init, initNode, Uniq, Rec]

end HappyModel.C11
