import HappyProofs.C11.ProgConv
/-! Bounded progress with log back-off, over whole runs: `cprog_run` iterates `cprog_step`;
    `stable_leader_commits_conv` is the theorem, `stable_leader_commits_conv_obs` its observed form. -/
namespace HappyModel.C11
open Spec

theorem cprog_run (v : Variant) (hr : Rep v) {L t k f : Nat} {c : Cmd} {Q : List Nat} (hnd : Q.Nodup) :
    ∀ (as : List Act) (g : GSt) (cv : Nat → Cv), CProg g L t k f c Q cv → quorum g.s.n ≤ Q.length + 1 →
      stableRun v t (L :: Q) g.s as = true → noRegressRun v L t k Q g.s as = true →
      CProg (grun v g as) L t k f c Q (fun p => cvRun v L t k p (cv p) g.s as)
      ∧ ((g.s.nodes L).lastApplied < k → k ≤ ((grun v g as).s.nodes L).lastApplied → Hit (outs v g.s as) L k f c) := by
  intro as
  induction as with
  | nil => intro g cv P _ _ _; exact ⟨P, fun h1 h2 => by simp only [grun] at h2; omega⟩
  | cons a as ih =>
    intro g cv P hq hst hnr
    have hst' := stableRun_cons hst
    simp only [noRegressRun, Bool.and_eq_true, Bool.not_eq_true'] at hnr
    obtain ⟨P1, w1⟩ := cprog_step v hr P hnd hq a (stableRun_here hst) (stableRun_here hst') hnr.1
    have hq' : quorum (gstep v g a).s.n ≤ Q.length + 1 := by rw [gstep_s, step_n]; exact hq
    obtain ⟨P2, w2⟩ := ih (gstep v g a) _ P1 hq' (by rw [gstep_s]; exact hst') (by rw [gstep_s]; exact hnr.2)
    refine ⟨?_, ?_⟩
    · have : (fun p => cvRun v L t k p (cv p) g.s (a :: as))
          = (fun p => cvRun v L t k p (cvStep g.s L t k p (cv p) a) (gstep v g a).s as) := by
        funext p; simp only [cvRun, gstep_s]
      rw [this]; exact P2
    · intro h1 h2
      simp only [outs]
      by_cases hk : k ≤ ((step v g.s a).1.nodes L).lastApplied
      · obtain ⟨ht, res, r1, r2⟩ := w1 h1 hk
        exact ⟨_, List.mem_cons_self, ht, res, r1, r2⟩
      · obtain ⟨o, ho, h⟩ := w2 (by rw [gstep_s]; omega) h2
        rw [gstep_s] at ho
        exact ⟨o, List.mem_cons_of_mem _ ho, h⟩

/-- the hypotheses of `stable_leader_commits_conv`, bundled (all decidable) -/
structure StableConv (v : Variant) (n : Nat) (pre : List Act) (L t f : Nat) (c : Cmd) (Q : List Nat) (as : List Act) : Prop where
  est : established (run v (init n) pre) L t = true
  qnd : Q.Nodup
  qne : Q ≠ []
  qq : quorum n ≤ Q.length + 1
  basic : ∀ p ∈ Q, p < n ∧ p ≠ L
  stable : stableRun v t (L :: Q) (run v (init n) pre) (.submit L f c :: as) = true
  conv : ∀ p ∈ Q, convRun v L t (nextIdx (run v (init n) pre) L) p (run v (init n) pre) (.submit L f c :: as) = true
  nr : noRegressRun v L t (nextIdx (run v (init n) pre) L) Q (run v (init n) pre) (.submit L f c :: as) = true

instance (v : Variant) (n : Nat) (pre : List Act) (L t f : Nat) (c : Cmd) (Q : List Nat) (as : List Act) :
    Decidable (StableConv v n pre L t f c Q as) :=
  decidable_of_iff (established (run v (init n) pre) L t = true ∧ Q.Nodup ∧ Q ≠ [] ∧ quorum n ≤ Q.length + 1
      ∧ (∀ p ∈ Q, p < n ∧ p ≠ L)
      ∧ stableRun v t (L :: Q) (run v (init n) pre) (.submit L f c :: as) = true
      ∧ (∀ p ∈ Q, convRun v L t (nextIdx (run v (init n) pre) L) p (run v (init n) pre) (.submit L f c :: as) = true)
      ∧ noRegressRun v L t (nextIdx (run v (init n) pre) L) Q (run v (init n) pre) (.submit L f c :: as) = true)
    ⟨fun ⟨a, b, c, d, e, f, g, h⟩ => ⟨a, b, c, d, e, f, g, h⟩, fun h => ⟨h.est, h.qnd, h.qne, h.qq, h.basic, h.stable, h.conv, h.nr⟩⟩

/-- BOUNDED PROGRESS, BACK-OFF INCLUDED.  From any reachable state with an established leader `L` of term `t`, whatever the
    followers' logs and `next_index` are: along a run in which no node of `L :: Q` sees a term above `t`, each follower of `Q`
    (with `L` a quorum) has its AppendEntries conversation carried through to a successful acknowledgement (`convRun`), and no
    older acknowledgement overtakes a newer one, the command submitted to `L` is appended at `k = len(log) + 1`, replicated on
    `Q`, committed and applied by `L` at `k`, and its future resolved with `k` and the result of that application. -/
theorem stable_leader_commits_conv (v : Variant) (hr : Rep v) (n : Nat) (pre : List Act) (L t f : Nat) (c : Cmd) (Q : List Nat)
    (as : List Act) (h : StableConv v n pre L t f c Q as) :
    getE ((run v (run v (init n) pre) (.submit L f c :: as)).nodes L).log (nextIdx (run v (init n) pre) L) = some ⟨t, c⟩
    ∧ (∀ p ∈ Q, getE ((run v (run v (init n) pre) (.submit L f c :: as)).nodes p).log (nextIdx (run v (init n) pre) L) = some ⟨t, c⟩)
    ∧ nextIdx (run v (init n) pre) L ≤ ((run v (run v (init n) pre) (.submit L f c :: as)).nodes L).commit
    ∧ nextIdx (run v (init n) pre) L ≤ ((run v (run v (init n) pre) (.submit L f c :: as)).nodes L).lastApplied
    ∧ Hit (outs v (run v (init n) pre) (.submit L f c :: as)) L (nextIdx (run v (init n) pre) L) f c := by
  obtain ⟨hest, hQnd, hQne, hQq, hbasic, hstable, hconv, hnr⟩ := h
  have inv0 := pinv_reach v hr n pre
  have hs0 : (grun v (ginit n) pre).s = run v (init n) pre := grun_s v pre (ginit n)
  generalize hg0 : grun v (ginit n) pre = g0 at inv0 hs0
  rw [← hs0] at hest hstable hconv hnr ⊢
  have hn0 : g0.s.n = n := by rw [hs0, run_n]; rfl
  have est0 := established_iff.mp hest
  generalize hk : nextIdx g0.s L = k at hconv hnr ⊢
  have hleL : ((step v g0.s (.submit L f c)).1.nodes L).term ≤ t :=
    termsLe_mem (stableRun_here (stableRun_cons hstable)) (by simp)
  have hstep : step v g0.s (.submit L f c) = applyHR g0.s L { node := submitNode (g0.s.nodes L) f c } := by
    simp only [step, est0.lt, decide_true, if_true]
    rw [leader_submit _ _ _ est0.role]
  have hnodeL : (step v g0.s (.submit L f c)).1.nodes L = submitNode (g0.s.nodes L) f c := by
    rw [hstep]; simp only [applyHR, upd_same]
  have hkdef : k = (g0.s.nodes L).log.length + 1 := by rw [← hk]; rfl
  have P1 : CProg (gstep v g0 (.submit L f c)) L t k f c Q (fun _ => Cv.idle) := by
    refine ⟨pinv_step v hr g0 inv0 _, by rw [gstep_s]; exact est_step v hr g0 inv0 _ est0 hleL, ?_, ?_, ?_, ?_, ?_⟩
    · rw [gstep_s, step_n, hn0]; exact hbasic
    · rw [gstep_s, hnodeL, hkdef]
      show getE ((g0.s.nodes L).log ++ [⟨(g0.s.nodes L).term, c⟩]) _ = _
      rw [getE_succ, est0.term]; simp
    · intro _
      rw [gstep_s, hnodeL, hkdef]
      exact getPending_set_same _ _ _
    · intro p _; trivial
    · intro hall
      obtain ⟨p, hp⟩ := List.exists_mem_of_ne_nil Q hQne
      have := hall p hp; cases this
  have hla1 : ((gstep v g0 (.submit L f c)).s.nodes L).lastApplied < k := by
    rw [gstep_s, hnodeL, hkdef]
    show (g0.s.nodes L).lastApplied < _
    have h1 := inv0.la L
    have h2 := inv0.all.hi.n_cl L
    omega
  have hstable' := stableRun_cons hstable
  have hnr' : noRegressRun v L t k Q (step v g0.s (.submit L f c)).1 as = true := by
    simp only [noRegressRun, Bool.and_eq_true] at hnr; exact hnr.2
  obtain ⟨PE, wE⟩ := cprog_run v hr hQnd as (gstep v g0 (.submit L f c)) _ P1 (by rw [gstep_s, step_n, hn0]; exact hQq)
    (by rw [gstep_s]; exact hstable') (by rw [gstep_s]; exact hnr')
  have hsE : (grun v (gstep v g0 (.submit L f c)) as).s = run v g0.s (.submit L f c :: as) := by
    rw [grun_s, gstep_s]; rfl
  have hdone : ∀ p ∈ Q, cvRun v L t k p Cv.idle (gstep v g0 (.submit L f c)).s as = .done := by
    intro p hp
    have := hconv p hp
    simp only [convRun, cvRun] at this
    rw [gstep_s]
    exact of_decide_eq_true this
  have hlaE := PE.alld hdone
  rw [hsE] at hlaE
  refine ⟨by rw [← hsE]; exact PE.entry, ?_, ?_, hlaE, ?_⟩
  · intro p hp
    rw [← hsE]
    have hok := PE.ok p hp
    simp only [hdone p hp] at hok
    exact hok.2.2.entry (Nat.le_refl _) PE.entry
  · have := PE.inv.la L; rw [hsE] at this; omega
  · have := wE hla1 (by rw [hsE]; exact hlaE)
    rw [gstep_s] at this
    obtain ⟨o, ho, h⟩ := this
    exact ⟨o, by simp only [outs]; exact List.mem_cons_of_mem _ ho, h⟩

/-- … and as observed: exactly one application at `k` on `L`, the future resolved with `k`, no other command at `k` anywhere -/
theorem stable_leader_commits_conv_obs (v : Variant) (hr : Rep v) (n : Nat) (pre : List Act) (L t f : Nat) (c : Cmd) (Q : List Nat)
    (as : List Act) (h : StableConv v n pre L t f c Q as) :
    (appsOf (framesFrom v (run v (init n) pre) (.submit L f c :: as)) L).filter (fun q => q.1 == nextIdx (run v (init n) pre) L)
        = [(nextIdx (run v (init n) pre) L, c.id)]
    ∧ (L, f, nextIdx (run v (init n) pre) L) ∈ (framesFrom v (run v (init n) pre) (.submit L f c :: as)).flatMap (·.ress)
    ∧ ∀ x ∈ allApps (frames v n (pre ++ .submit L f c :: as)), x.2.1 = nextIdx (run v (init n) pre) L → x.2.2 = c.id :=
  obs_of_hit v hr n pre L f _ c _ (stable_leader_commits_conv v hr n pre L t f c Q as h).2.2.2.2

end HappyModel.C11
