import HappyProofs.C11.ApplyLog
import HappyProofs.C11.LogMatching
/-! Trace level: applied = committed log content; state-machine safety reduced to agreement of
    committed entries. -/
namespace HappyModel.C11
open Spec

theorem getElem?_viewsOf_lt {s : St} {i : Nat} (h : i < s.n) : (viewsOf s)[i]? = some (viewOf (s.nodes i)) := by
  unfold viewsOf
  rw [List.getElem?_map, List.getElem?_range h]; rfl

/-- every application a frame reports is, in that frame, a committed entry of the reporting node -/
def AppCommitted (f : Frame) : Prop :=
  ∀ a ∈ f.apps, ∃ v, f.views[a.1]? = some v ∧ 1 ≤ a.2.1 ∧ a.2.1 ≤ v.commit ∧ ∃ t, v.log[a.2.1 - 1]? = some (t, a.2.2)

theorem step_appCommitted (v : Variant) (s : St) (a : Act) : AppCommitted (frameOf (step v s a).1 (step v s a).2 a) := by
  rcases step_afl v s a with h | ⟨i, r, hi, hs, hafl⟩
  · intro x hx; simp [frameOf, h] at hx
  · rw [hs]
    intro x hx
    simp only [frameOf, applyHR, tgt, Option.getD_some, List.mem_map] at hx
    obtain ⟨p, hp, hpx⟩ := hx
    obtain ⟨h1, h2, e, he, hcmd⟩ := hafl p hp
    refine ⟨viewOf r.node, ?_, ?_, ?_, ?_⟩
    · rw [← hpx]
      show (viewsOf _)[i]? = _
      rw [getElem?_viewsOf_lt (by exact hi)]
      simp [applyHR]
    · rw [← hpx]; exact h1
    · rw [← hpx]; exact h2
    · refine ⟨e.term, ?_⟩
      rw [← hpx]
      obtain ⟨k, hk⟩ : ∃ k, p.1 = k + 1 := ⟨p.1 - 1, by omega⟩
      simp only [hk, Nat.add_sub_cancel] at he ⊢
      rw [getE_succ] at he
      simp only [viewOf, List.getElem?_map, he, Option.map_some, hcmd]

theorem frames_appCommitted (v : Variant) (n : Nat) (as : List Act) : ∀ f ∈ frames v n as, AppCommitted f := by
  intro f hf
  simp only [frames, List.mem_cons] at hf
  rcases hf with hf | hf
  · rw [hf]; intro a ha; cases ha
  · have : ∀ (as : List Act) (s : St), ∀ f ∈ framesFrom v s as, AppCommitted f := by
      intro as
      induction as with
      | nil => intro s f hf; simp [framesFrom] at hf
      | cons a as ih =>
        intro s f hf
        simp only [framesFrom, List.mem_cons] at hf
        rcases hf with hf | hf
        · rw [hf]; exact step_appCommitted v s a
        · exact ih _ f hf
    exact this as (init n) f hf

/-- APPLIED = LOG ENTRY.  What a node hands to its state machine as command `k` is entry `k` of its
    own log at that moment (every variant). -/
theorem apply_from_log (v : Variant) (n : Nat) (as : List Act) : applyFromLogOk (frames v n as) = true := by
  unfold applyFromLogOk
  simp only [List.all_eq_true]
  intro f hf
  unfold frameAppliesLog
  simp only [List.all_eq_true]
  intro a ha
  obtain ⟨w, hw, h1, _, t, ht⟩ := frames_appCommitted v n as f hf a ha
  simp [hw, ht, h1]

theorem mem_committedOf {f : Frame} {i : Nat} {w : NodeView} (hw : f.views[i]? = some w) {k : Nat} {e : OEntry}
    (hk : k + 1 ≤ w.commit) (he : w.log[k]? = some e) : (k + 1, e, w.term) ∈ committedOf f := by
  unfold committedOf
  apply List.mem_flatMap.mpr
  refine ⟨w, List.mem_of_getElem? hw, ?_⟩
  apply List.mem_map.mpr
  refine ⟨(e, k), ?_, rfl⟩
  apply List.mem_zipIdx_iff_getElem?.mpr
  simp only
  rw [List.getElem?_take_of_lt (by omega)]
  exact he

/-- STATE-MACHINE SAFETY, reduced: on a run of the model, if no two entries ever shown as committed
    at one index differ (`commitAgreeOk` — the part that needs Leader Completeness), then no two nodes
    ever apply different commands at one index. -/
theorem state_machine_safety_partial (v : Variant) (n : Nat) (as : List Act)
    (hc : commitAgreeOk (frames v n as) = true) : applyAgreeOk (frames v n as) = true := by
  unfold applyAgreeOk
  simp only [List.all_eq_true]
  intro x hx y hy
  unfold commitAgreeOk at hc
  simp only [List.all_eq_true] at hc
  have key : ∀ z ∈ allApps (frames v n as), ∃ t T, (z.2.1, (t, z.2.2), T) ∈ ((frames v n as).flatMap committedOf).eraseDups := by
    intro z hz
    obtain ⟨f, hf, hzf⟩ := List.mem_flatMap.mp hz
    obtain ⟨w, hw, h1, h2, t, ht⟩ := frames_appCommitted v n as f hf z hzf
    obtain ⟨k, hk⟩ : ∃ k, z.2.1 = k + 1 := ⟨z.2.1 - 1, by omega⟩
    refine ⟨t, w.term, ?_⟩
    apply List.mem_eraseDups.mpr
    apply List.mem_flatMap.mpr
    refine ⟨f, hf, ?_⟩
    rw [hk]
    apply mem_committedOf hw (by omega)
    rw [hk] at ht; simpa using ht
  obtain ⟨t1, T1, m1⟩ := key x hx
  obtain ⟨t2, T2, m2⟩ := key y hy
  have := hc _ m1 _ m2
  by_cases hidx : x.2.1 = y.2.1
  · simp only [hidx, bne_self_eq_false, Bool.false_or, beq_iff_eq, Prod.mk.injEq] at this
    simp [this.2]
  · simp [hidx]

end HappyModel.C11
