import HappyProofs.C11.Ghost
/-! Each node applies indices 1, 2, 3, … in order, without gaps — for every variant. -/
namespace HappyModel.C11
open Spec

/-- what a handler does to `lastApplied`, `commit` and the applications it reports -/
structure ApOk (x : Node) (r : HR) : Prop where
  mono : x.lastApplied ≤ r.node.lastApplied
  cle : r.node.commit ≤ r.node.lastApplied
  idx : r.apps.map (·.1) = List.range' (x.lastApplied + 1) (r.node.lastApplied - x.lastApplied)

theorem applyOne_la (r : HR) (idx : Nat) (e : Entry) (h : idx ≤ r.node.lastApplied + 1) :
    (applyOne r idx e).node.lastApplied = max r.node.lastApplied idx
    ∧ (applyOne r idx e).node.commit = r.node.commit
    ∧ (applyOne r idx e).apps.map (·.1) = r.apps.map (·.1) ++ List.range' (r.node.lastApplied + 1) (max r.node.lastApplied idx - r.node.lastApplied) := by
  unfold applyOne
  simp only []
  split
  · rename_i hgt
    have hidx : idx = r.node.lastApplied + 1 := by omega
    have hmax : max r.node.lastApplied idx = idx := by omega
    split
    · refine ⟨by simp only []; omega, rfl, ?_⟩
      simp only [List.map_append, List.map_cons, List.map_nil]
      rw [hmax, hidx]; simp [List.range']
    · refine ⟨by simp only []; omega, rfl, ?_⟩
      simp only [List.map_append, List.map_cons, List.map_nil]
      rw [hmax, hidx]; simp [List.range']
  · rename_i hle
    have hmax : max r.node.lastApplied idx = r.node.lastApplied := by omega
    refine ⟨by omega, rfl, ?_⟩
    rw [hmax]; simp

theorem applyFrom_la (es : List Entry) : ∀ (r : HR) (idx : Nat), idx ≤ r.node.lastApplied + 1 →
    (applyFrom r idx es).node.lastApplied = max r.node.lastApplied (idx + es.length - 1)
    ∧ (applyFrom r idx es).node.commit = r.node.commit
    ∧ (applyFrom r idx es).apps.map (·.1) = r.apps.map (·.1) ++
        List.range' (r.node.lastApplied + 1) (max r.node.lastApplied (idx + es.length - 1) - r.node.lastApplied) := by
  induction es with
  | nil =>
    intro r idx h
    have : max r.node.lastApplied (idx + 0 - 1) = r.node.lastApplied := by omega
    simp only [applyFrom, List.length_nil, this]
    simp
  | cons e es ih =>
    intro r idx h
    obtain ⟨a1, a2, a3⟩ := applyOne_la r idx e h
    obtain ⟨b1, b2, b3⟩ := ih (applyOne r idx e) (idx + 1) (by rw [a1]; omega)
    simp only [applyFrom, List.length_cons]
    refine ⟨?_, by rw [b2, a2], ?_⟩
    · rw [b1, a1]; omega
    · rw [b3, a3, a1, List.append_assoc]
      congr 1
      have e1 : max (max r.node.lastApplied idx) (idx + 1 + es.length - 1) = max r.node.lastApplied (idx + (es.length + 1) - 1) := by omega
      rw [e1]
      have hsplit := @List.range'_append (r.node.lastApplied + 1) (max r.node.lastApplied idx - r.node.lastApplied)
        (max r.node.lastApplied (idx + (es.length + 1) - 1) - max r.node.lastApplied idx) 1
      simp only [Nat.one_mul] at hsplit
      have e2 : r.node.lastApplied + 1 + (max r.node.lastApplied idx - r.node.lastApplied) = max r.node.lastApplied idx + 1 := by omega
      have e3 : max r.node.lastApplied idx - r.node.lastApplied + (max r.node.lastApplied (idx + (es.length + 1) - 1) - max r.node.lastApplied idx)
          = max r.node.lastApplied (idx + (es.length + 1) - 1) - r.node.lastApplied := by omega
      rw [e2, e3] at hsplit
      exact hsplit

theorem apOk_advance (x : Node) (new : Nat) (h : x.commit ≤ x.lastApplied) : ApOk x (advanceCommit { node := x } new) := by
  unfold advanceCommit
  simp only []
  split
  · exact ⟨Nat.le_refl _, h, by simp⟩
  · rename_i hnew
    have hlen : ((x.log.take (min new x.log.length)).drop x.commit).length = min new x.log.length - x.commit := by
      rw [List.length_drop, List.length_take]; omega
    obtain ⟨a1, a2, a3⟩ := applyFrom_la ((x.log.take (min new x.log.length)).drop x.commit)
      { node := { x with commit := min new x.log.length } } (x.commit + 1) (by show x.commit + 1 ≤ x.lastApplied + 1; omega)
    rw [hlen] at a1 a3
    change _ = max x.lastApplied _ at a1
    refine ⟨by rw [a1]; omega, ?_, ?_⟩
    · rw [a2, a1]; show min new x.log.length ≤ _; omega
    · rw [a3, a1]; simp

theorem truncateFrom_cl (v : Variant) (x : Node) (idx : Nat) :
    (truncateFrom v x idx).commit ≤ x.commit ∧ (truncateFrom v x idx).lastApplied = x.lastApplied := by
  unfold truncateFrom; split
  · exact ⟨Nat.le_refl _, rfl⟩
  · refine ⟨?_, rfl⟩
    simp only []; split <;> omega

theorem appendLoop_cl (v : Variant) (es : List Entry) : ∀ (x : Node) (idx : Nat),
    (appendLoop v x idx es).commit ≤ x.commit ∧ (appendLoop v x idx es).lastApplied = x.lastApplied := by
  induction es with
  | nil => intro x idx; exact ⟨Nat.le_refl _, rfl⟩
  | cons e es ih =>
    intro x idx
    simp only [appendLoop]
    split
    · split
      · obtain ⟨h1, h2⟩ := ih { truncateFrom v x idx with log := (truncateFrom v x idx).log ++ [e] } (idx + 1)
        obtain ⟨t1, t2⟩ := truncateFrom_cl v x idx
        exact ⟨Nat.le_trans h1 t1, by rw [h2]; exact t2⟩
      · exact ih x (idx + 1)
    · obtain ⟨h1, h2⟩ := ih { x with log := x.log ++ [e] } (idx + 1)
      exact ⟨h1, h2⟩

theorem apOk_same {x : Node} {r : HR} (h : x.commit ≤ x.lastApplied) (hc : r.node.commit ≤ x.commit)
    (hl : r.node.lastApplied = x.lastApplied) (ha : r.apps = []) : ApOk x r :=
  ⟨by omega, by omega, by rw [ha, hl]; simp⟩

theorem apOk_trans {x y : Node} {r : HR} (hy : y.lastApplied = x.lastApplied) (h : ApOk y r) : ApOk x r :=
  ⟨by rw [← hy]; exact h.mono, h.cle, by rw [← hy]; exact h.idx⟩

theorem aeAccept_apps (v : Variant) (x : Node) (me src pi : Nat) (es : List Entry) (lc : Nat) :
    (aeAccept v x me src pi es lc).node = (aeCommit (appendLoop v x (pi + 1) es) lc).node
    ∧ (aeAccept v x me src pi es lc).apps = (aeCommit (appendLoop v x (pi + 1) es) lc).apps := ⟨rfl, rfl⟩

theorem apOk_aeCommit (x : Node) (lc : Nat) (h : x.commit ≤ x.lastApplied) : ApOk x (aeCommit x lc) := by
  unfold aeCommit; split
  · exact apOk_advance x _ h
  · exact apOk_same h (Nat.le_refl _) rfl rfl

theorem apOk_ae (v : Variant) (x : Node) (me src t pi pt : Nat) (es : List Entry) (lc : Nat)
    (h : x.commit ≤ x.lastApplied) : ApOk x (handleAE v x me src t pi pt es lc) := by
  unfold handleAE
  split
  · exact apOk_same h (Nat.le_refl _) rfl rfl
  · split
    · exact apOk_same h (Nat.le_refl _) rfl rfl
    · obtain ⟨c1, c2⟩ := appendLoop_cl v es (stepDown v x t) (pi + 1)
      have hc : (appendLoop v (stepDown v x t) (pi + 1) es).commit ≤ (appendLoop v (stepDown v x t) (pi + 1) es).lastApplied := by
        rw [c2]; exact Nat.le_trans c1 h
      have := apOk_aeCommit (appendLoop v (stepDown v x t) (pi + 1) es) lc hc
      obtain ⟨e1, e2⟩ := aeAccept_apps v (stepDown v x t) me src pi es lc
      refine ⟨?_, ?_, ?_⟩
      · rw [e1]; have := this.mono; rw [c2] at this; exact this
      · rw [e1]; exact this.cle
      · rw [e1, e2]; have := this.idx; rw [c2] at this; exact this

theorem apOk_tryAdvance (n : Nat) (x : Node) (me : Nat) (h : x.commit ≤ x.lastApplied) : ApOk x (tryAdvance n x me) := by
  unfold tryAdvance; split
  · exact apOk_advance x _ h
  · exact apOk_same h (Nat.le_refl _) rfl rfl

theorem apOk_ar (v : Variant) (n : Nat) (x : Node) (me t : Nat) (s : Bool) (f mi : Nat)
    (h : x.commit ≤ x.lastApplied) : ApOk x (handleAR v n x me t s f mi) := by
  unfold handleAR
  split
  · exact apOk_same h (Nat.le_refl _) rfl rfl
  · split
    · exact apOk_same h (Nat.le_refl _) rfl rfl
    · split
      · exact apOk_same h (Nat.le_refl _) rfl rfl
      · split
        · exact apOk_trans (y := { x with nextIndex := x.nextIndex.set f (mi + 1), matchIndex := x.matchIndex.set f mi }) rfl
            (apOk_tryAdvance n _ me h)
        · split
          · exact apOk_same h (Nat.le_refl _) rfl rfl
          · exact apOk_same h (Nat.le_refl _) rfl rfl

theorem apOk_rv (v : Variant) (x : Node) (me src t c li lt : Nat) (h : x.commit ≤ x.lastApplied) :
    ApOk x (handleRV v x me src t c li lt) := by
  unfold handleRV rvCore
  split <;> split <;> exact apOk_same h (Nat.le_refl _) rfl rfl

theorem apOk_vr (v : Variant) (n : Nat) (x : Node) (me t : Nat) (gr : Bool) (f : Nat) (h : x.commit ≤ x.lastApplied) :
    ApOk x (handleVR v n x me t gr f) := by
  unfold handleVR
  split
  · exact apOk_same h (Nat.le_refl _) rfl rfl
  · split
    · exact apOk_same h (Nat.le_refl _) rfl rfl
    · unfold vrCount; split <;> exact apOk_same h (Nat.le_refl _) rfl rfl

theorem apOk_msg (v : Variant) (n : Nat) (x : Node) (e : Env) (h : x.commit ≤ x.lastApplied) :
    ApOk x (handleMsg v n x e) := by
  unfold handleMsg
  split
  · exact apOk_rv v x _ _ _ _ _ _ h
  · exact apOk_vr v n x _ _ _ _ h
  · exact apOk_ae v x _ _ _ _ _ _ _ h
  · exact apOk_ar v n x _ _ _ _ _ h

theorem apOk_timeout (n : Nat) (x : Node) (me : Nat) (h : x.commit ≤ x.lastApplied) : ApOk x (handleTimeout n x me) := by
  unfold handleTimeout
  split
  · exact apOk_same h (Nat.le_refl _) rfl rfl
  · split <;> exact apOk_same h (Nat.le_refl _) rfl rfl

theorem apOk_hb (n : Nat) (x : Node) (me : Nat) (h : x.commit ≤ x.lastApplied) : ApOk x (handleHB n x me) := by
  unfold handleHB; split <;> exact apOk_same h (Nat.le_refl _) rfl rfl

theorem apOk_submit (x : Node) (f : Nat) (c : Cmd) (h : x.commit ≤ x.lastApplied) : ApOk x (handleSubmit x f c) := by
  unfold handleSubmit; split <;> exact apOk_same h (Nat.le_refl _) rfl rfl

end HappyModel.C11
