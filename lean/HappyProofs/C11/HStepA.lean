import HappyProofs.C11.HCtx
/-! `HInv` across a handler step, part A: the clauses about the history lists alone
    (records, election-time logs, seen states, candidacies). -/
namespace HappyModel.C11
namespace Ctx
variable {v : Variant} {g : GSt} {i : Nat} {inp : Option Body} {r : HR} {cr : List (List Entry)}

/-- the only possible new record: the leader's log after an append -/
theorem new_rec (c : Ctx v g i inp r cr) : ∀ L ∈ cr, ∃ k, L = (g.s.nodes i).log ++ [⟨(g.s.nodes i).term, k⟩] ∧ (g.s.nodes i).role = .leader
    ∧ r.node.log = L ∧ r.node.role = .leader ∧ r.node.term = (g.s.nodes i).term := by
  intro L hL
  rcases c.lok.shape with ⟨_, h⟩ | ⟨k, h1, h2, h3, h4, h5⟩ | ⟨_, _, h⟩
  · rw [h] at hL; cases hL
  · rw [h5] at hL; simp only [List.mem_singleton] at hL
    exact ⟨k, by rw [hL, h1], h2, hL.symm, h3, h4⟩
  · rw [h] at hL; cases hL

theorem g2_prefix (c : Ctx v g i inp r cr) (hl : (g.s.nodes i).role = .leader) {R : List Entry} (hR : R ∈ g.created)
    (ht : lastTerm R = (g.s.nodes i).term) : R <+: (g.s.nodes i).log := by
  have := c.li.g2 i hl R hR ht
  rw [List.prefix_iff_eq_take]; exact this.2.symm

theorem log_mem_created (c : Ctx v g i inp r cr) (j : Nat) (h : (g.s.nodes j).log ≠ []) : (g.s.nodes j).log ∈ g.created :=
  (c.li.b j).mem_self h

theorem r_mono' (c : Ctx v g i inp r cr) : ∀ R ∈ (gApply g i r cr).created, ∀ K, K <+: R → K ≠ [] → lastTerm K ≤ lastTerm R := by
  intro R hR K hK hne
  simp only [gApply_created] at hR
  rcases List.mem_append.mp hR with h | h
  · obtain ⟨k, hk, _, _⟩ := c.new_rec R h
    rw [hk] at hK ⊢
    rw [lastTerm_concat]
    rcases List.prefix_concat_iff.mp hK with h1 | h1
    · rw [h1, lastTerm_concat]; exact Nat.le_refl _
    · have hlog : (g.s.nodes i).log ≠ [] := by
        intro h0; rw [h0] at h1; exact hne (List.prefix_nil.mp h1)
      have := c.hi.r_mono _ (c.log_mem_created i hlog) K h1 hne
      have := c.hi.n_lt i
      show lastTerm K ≤ (g.s.nodes i).term
      omega
  · exact c.hi.r_mono R h K hK hne

theorem r_same' (c : Ctx v g i inp r cr) : ∀ R ∈ (gApply g i r cr).created, ∀ R' ∈ (gApply g i r cr).created,
    lastTerm R = lastTerm R' → R.length ≤ R'.length → R <+: R' := by
  intro R hR R' hR' ht hlen
  simp only [gApply_created] at hR hR'
  rcases List.mem_append.mp hR with h | h <;> rcases List.mem_append.mp hR' with h' | h'
  · obtain ⟨_, _, _, e1, _⟩ := c.new_rec R h
    obtain ⟨_, _, _, e2, _⟩ := c.new_rec R' h'
    rw [← e1, ← e2]; exact List.prefix_rfl
  · exfalso
    obtain ⟨k, hk, hl, _⟩ := c.new_rec R h
    have := (c.g2_prefix hl h' (by rw [← ht, hk, lastTerm_concat])).length_le
    rw [hk] at hlen; simp at hlen; omega
  · obtain ⟨k, hk, hl, _⟩ := c.new_rec R' h'
    rw [hk]
    exact (c.g2_prefix hl h (by rw [ht, hk, lastTerm_concat])).trans (List.prefix_append _ _)
  · exact c.hi.r_same R h R' h' ht hlen

theorem r_ll' (c : Ctx v g i inp r cr) : ∀ R ∈ (gApply g i r cr).created, ∃ k L, (lastTerm R, k, L) ∈ (gApply g i r cr).llogs ∧ L <+: R := by
  intro R hR
  simp only [gApply_created] at hR
  rcases List.mem_append.mp hR with h | h
  · obtain ⟨k, hk, hl, _⟩ := c.new_rec R h
    obtain ⟨k', L, h1, h2, _⟩ := c.hi.n_ldr i hl
    refine ⟨k', L, c.gle.llogs _ ?_, ?_⟩
    · rw [hk, lastTerm_concat]; exact h1
    · rw [hk]; exact h2.trans (List.prefix_append _ _)
  · obtain ⟨k, L, h1, h2⟩ := c.hi.r_ll R h
    exact ⟨k, L, c.gle.llogs _ h1, h2⟩

theorem r_closed' (c : Ctx v g i inp r cr) : ∀ R ∈ (gApply g i r cr).created, Rec (gApply g i r cr).created R := by
  intro R hR
  simp only [gApply_created] at hR
  rcases List.mem_append.mp hR with h | h
  · obtain ⟨_, _, _, e1, _⟩ := c.new_rec R h
    have := c.li'.b i
    rw [c.node_self, e1] at this; exact this
  · exact (c.hi.r_closed R h).mono c.gle.created

theorem ll_led' (c : Ctx v g i inp r cr) : ∀ t k L, (t, k, L) ∈ (gApply g i r cr).llogs → (t, k) ∈ (gApply g i r cr).leaders := by
  intro t k L h
  simp only [gApply_llogs] at h
  rcases List.mem_append.mp h with h | h
  · obtain ⟨e1, e2, _, e4, _⟩ := mem_llogDiff h
    have := c.ei'.l0 i (by rw [c.node_self]; exact e4)
    rw [c.node_self] at this
    rw [e1, e2]; exact this
  · exact List.mem_append_right _ (c.hi.ll_led t k L h)

/-- a node that becomes leader now is the first leader of its term -/
theorem no_old_leader (c : Ctx v g i inp r cr) (h1 : r.node.role = .leader) (h2 : (g.s.nodes i).role ≠ .leader) :
    ∀ k L, (r.node.term, k, L) ∉ g.llogs := by
  intro k L h
  have hk := c.hi.ll_led _ k L h
  have hk' : (r.node.term, k) ∈ (gApply g i r cr).leaders := List.mem_append_right _ hk
  have hi' := c.ei'.l0 i (by rw [c.node_self]; exact h1)
  rw [c.node_self] at hi'
  have := leaders_unique c.ei' hk' hi'
  rw [this] at hk
  obtain ⟨hle, hnc⟩ := c.ei.l2 _ _ hk
  rcases (c.newleader h1 h2).2.2.2 with ⟨hc, ht⟩ | ht
  · exact hnc ht hc
  · omega

theorem ll_uniq' (c : Ctx v g i inp r cr) : ∀ t k L k' L', (t, k, L) ∈ (gApply g i r cr).llogs → (t, k', L') ∈ (gApply g i r cr).llogs → L = L' := by
  intro t k L k' L' h h'
  simp only [gApply_llogs] at h h'
  rcases List.mem_append.mp h with h | h <;> rcases List.mem_append.mp h' with h' | h'
  · rw [(mem_llogDiff h).2.2.1, (mem_llogDiff h').2.2.1]
  · obtain ⟨e1, _, _, e4, e5⟩ := mem_llogDiff h
    rw [e1] at h'; exact absurd h' (c.no_old_leader e4 e5 k' L')
  · obtain ⟨e1, _, _, e4, e5⟩ := mem_llogDiff h'
    rw [e1] at h; exact absurd h (c.no_old_leader e4 e5 k L)
  · exact c.hi.ll_uniq t k L k' L' h h'

theorem ll_rec' (c : Ctx v g i inp r cr) : ∀ t k L, (t, k, L) ∈ (gApply g i r cr).llogs → Rec (gApply g i r cr).created L := by
  intro t k L h
  simp only [gApply_llogs] at h
  rcases List.mem_append.mp h with h | h
  · have := c.li'.b i
    rw [c.node_self] at this
    rw [(mem_llogDiff h).2.2.1]; exact this
  · exact (c.hi.ll_rec t k L h).mono c.gle.created

theorem ll_lt' (c : Ctx v g i inp r cr) : ∀ t k L, (t, k, L) ∈ (gApply g i r cr).llogs → lastTerm L < t := by
  intro t k L h
  simp only [gApply_llogs] at h
  rcases List.mem_append.mp h with h | h
  · obtain ⟨e1, _, e3, e4, e5⟩ := mem_llogDiff h
    obtain ⟨hlog, _, _, hcase⟩ := c.newleader e4 e5
    rw [e1, e3, hlog]
    rcases hcase with ⟨hc, ht⟩ | ht
    · rw [ht]; exact (c.hi.k2 _ _ _ (c.hi.k1 i hc)).1
    · have := c.hi.n_lt i; omega
  · exact c.hi.ll_lt t k L h

theorem s_term' (c : Ctx v g i inp r cr) : ∀ j T L, (j, T, L) ∈ (gApply g i r cr).seen → T ≤ ((gApply g i r cr).s.nodes j).term := by
  intro j T L h
  simp only [gApply_seen, List.mem_cons, Prod.mk.injEq] at h
  rcases h with ⟨e1, e2, _⟩ | h
  · rw [e1, c.node_self, e2]; exact Nat.le_refl _
  · exact Nat.le_trans (c.hi.s_term j T L h) (c.term_post j)

theorem s_rec' (c : Ctx v g i inp r cr) : ∀ j T L, (j, T, L) ∈ (gApply g i r cr).seen → Rec (gApply g i r cr).created L := by
  intro j T L h
  simp only [gApply_seen, List.mem_cons, Prod.mk.injEq] at h
  rcases h with ⟨_, _, e3⟩ | h
  · have := c.li'.b i
    rw [c.node_self] at this
    rw [e3]; exact this
  · exact (c.hi.s_rec j T L h).mono c.gle.created

theorem k0' (c : Ctx v g i inp r cr) : ∀ U k Lc, (U, k, Lc) ∈ (gApply g i r cr).cands → U ≤ ((gApply g i r cr).s.nodes k).term := by
  intro U k Lc h
  simp only [gApply_cands] at h
  rcases List.mem_append.mp h with h | h
  · obtain ⟨_, e2, _, e4, _⟩ := c.mem_candDiff h
    rw [e2, c.node_self, e4]; exact Nat.le_refl _
  · exact Nat.le_trans (c.hi.k0 U k Lc h) (c.term_post k)

theorem k2' (c : Ctx v g i inp r cr) : ∀ U k Lc, (U, k, Lc) ∈ (gApply g i r cr).cands → lastTerm Lc < U ∧ Rec (gApply g i r cr).created Lc := by
  intro U k Lc h
  simp only [gApply_cands] at h
  rcases List.mem_append.mp h with h | h
  · obtain ⟨e1, _, e3, _⟩ := c.mem_candDiff h
    have := c.hi.n_lt i
    exact ⟨by rw [e1, e3]; omega, by rw [e3]; exact (c.li.b i).mono c.gle.created⟩
  · exact ⟨(c.hi.k2 U k Lc h).1, (c.hi.k2 U k Lc h).2.mono c.gle.created⟩

end Ctx
end HappyModel.C11
