import HappyProofs.C11.ProgMon
/-! The induction behind the bounded-progress theorem: the invariant `Prog` (leader established,
    followers of `Q` in sync, the entry at `k` in the leader's log with its future pending, and what
    each follower's phase guarantees) is kept by every step of a stable run (`prog_step`), and the
    step at which the leader's `last_applied` passes `k` reports the application and the resolution. -/
namespace HappyModel.C11
open Spec

/-! ### the leader's side of one step -/

theorem applyOne_gt (r : HR) (idx : Nat) (e : Entry) (h : idx > r.node.lastApplied) :
    (applyOne r idx e).node.lastApplied = idx ∧ (applyOne r idx e).node.pending = popPending r.node.pending idx := by
  unfold applyOne
  simp only []
  rw [if_pos h]
  split <;> exact ⟨rfl, rfl⟩

theorem applyOne_le (r : HR) (idx : Nat) (e : Entry) (h : ¬ idx > r.node.lastApplied) : applyOne r idx e = r := by
  unfold applyOne
  simp only []
  rw [if_neg h]

theorem applyFrom_pend {k : Nat} (es : List Entry) : ∀ (r : HR) (idx : Nat), (applyFrom r idx es).node.lastApplied < k →
    getPending (applyFrom r idx es).node.pending k = getPending r.node.pending k := by
  induction es with
  | nil => intro r idx _; rfl
  | cons e es ih =>
    intro r idx h
    simp only [applyFrom] at h ⊢
    rw [ih (applyOne r idx e) (idx + 1) h]
    have hmono := (applyFrom_mono es (applyOne r idx e) (idx + 1)).2.2
    by_cases hgt : idx > r.node.lastApplied
    · obtain ⟨h1, h2⟩ := applyOne_gt r idx e hgt
      rw [h2]
      exact getPending_pop (by omega)
    · rw [applyOne_le r idx e hgt]

theorem advance_commit_le (x : Node) (N : Nat) : (advanceCommit { node := x } N).node.commit ≤ max x.commit N := by
  unfold advanceCommit
  simp only []
  split
  · exact Nat.le_max_left _ _
  · rw [applyFrom_commit]; show min N x.log.length ≤ _; omega

theorem tryAdvance_pend (n : Nat) (y : Node) (me k : Nat) (h : (tryAdvance n y me).node.lastApplied < k) :
    getPending (tryAdvance n y me).node.pending k = getPending y.pending k := by
  unfold tryAdvance at h ⊢
  split
  · rename_i N hN
    rw [hN] at h
    unfold advanceCommit at h ⊢
    simp only [] at h ⊢
    split
    · rfl
    · rename_i hnew
      rw [if_neg hnew] at h
      exact applyFrom_pend _ _ _ h
  · rfl

/-- if `_try_advance_commit` takes `last_applied` past `k`, it applied the entry at `k` and resolved its future -/
theorem tryAdvance_hit (n : Nat) (y : Node) (me k f : Nat) (e : Entry) (hcl : y.commit ≤ y.lastApplied) (hla : y.lastApplied < k)
    (he : getE y.log k = some e) (hp : getPending y.pending k = some f) (hk : k ≤ (tryAdvance n y me).node.lastApplied) :
    ∃ res, (k, e.cmd, res) ∈ (tryAdvance n y me).apps ∧ (f, k, res) ∈ (tryAdvance n y me).ress := by
  unfold tryAdvance at hk ⊢
  cases hN : findCommit n y me y.log.length with
  | none => rw [hN] at hk; simp only [] at hk; omega
  | some N =>
    rw [hN] at hk
    simp only [] at hk ⊢
    have hNle := (findCommit_spec n y me _ N hN).1
    have hkN : k ≤ N := by
      rcases laLe_advance y N hcl with h | h
      · rw [h] at hk; omega
      · have := advance_commit_le y N; omega
    obtain ⟨res, r1, r2, _⟩ := advance_hits y N k f e hcl hla hkN hNle he hp
    exact ⟨res, r1, r2⟩

/-- a successful acknowledgement of term `t` delivered to the leader `L` of `t` runs `_try_advance_commit` -/
theorem ack_deliver (v : Variant) {s : St} {L t m0 f' m : Nat} {e : Env} (hest : Est s L t) (hf : findMsg s m0 = some e)
    (hc : canDeliver s e = true) (hd : e.dst = L) (hb : e.body = .ar t true f' m) :
    step v s (.deliver m0) = applyHR s L (tryAdvance s.n (ackNode (s.nodes L) f' m) L) := by
  rw [step_deliver hf hc, hd]
  congr 1
  unfold handleMsg; simp only [hb]
  unfold handleAR
  rw [if_neg (by rw [hest.term]; omega), if_neg (by rw [hest.term]; intro h; omega), if_neg (by rw [hest.role]; simp)]
  simp only [if_true, hd]
  rfl

/-- what the step does to the leader's `last_applied`, pending future for `k` and `match_index` -/
@[reducible] def LFacts (v : Variant) (g : GSt) (a : Act) (L t k f : Nat) (c : Cmd) : Prop :=
    (((step v g.s a).1.nodes L).lastApplied < k → getPending ((step v g.s a).1.nodes L).pending k = some f)
    ∧ ((g.s.nodes L).lastApplied < k → k ≤ ((step v g.s a).1.nodes L).lastApplied →
        (step v g.s a).2.target = some L ∧ ∃ res, (k, c, res) ∈ (step v g.s a).2.apps ∧ (f, k, res) ∈ (step v g.s a).2.ress)
    ∧ (g.s.nodes L).lastApplied ≤ ((step v g.s a).1.nodes L).lastApplied
    ∧ (((step v g.s a).1.nodes L).matchIndex = (g.s.nodes L).matchIndex
        ∨ ∃ m0 e f' m, a = .deliver m0 ∧ findMsg g.s m0 = some e ∧ canDeliver g.s e = true ∧ e.dst = L ∧ e.body = .ar t true f' m
            ∧ ((step v g.s a).1.nodes L).matchIndex = (g.s.nodes L).matchIndex.set f' m)

theorem lfacts (v : Variant) (hr : Rep v) (g : GSt) (inv : PInv g) (a : Act) {L t k f : Nat} {c : Cmd} (hest : Est g.s L t)
    (hleL : ((step v g.s a).1.nodes L).term ≤ t) (hentry : getE (g.s.nodes L).log k = some ⟨t, c⟩)
    (hpend : (g.s.nodes L).lastApplied < k → getPending (g.s.nodes L).pending k = some f) : LFacts v g a L t k f c := by
  have nodeL : ∀ r, step v g.s a = applyHR g.s L r → (step v g.s a).1.nodes L = r.node := by
    intro r hs; rw [hs]; simp only [applyHR, upd_same]
  have hmono : (g.s.nodes L).lastApplied ≤ ((step v g.s a).1.nodes L).lastApplied := ((step_apps v g.s a inv.cl).2 L).1
  have same : ((step v g.s a).1.nodes L).lastApplied = (g.s.nodes L).lastApplied →
      ((step v g.s a).1.nodes L).pending = (g.s.nodes L).pending ∨
        (∃ f2, ((step v g.s a).1.nodes L).pending = setPending (g.s.nodes L).pending ((g.s.nodes L).log.length + 1) f2) →
      ((step v g.s a).1.nodes L).matchIndex = (g.s.nodes L).matchIndex →
      LFacts v g a L t k f c := by
    intro hla hp hmi
    refine ⟨?_, ?_, hmono, Or.inl hmi⟩
    · intro h
      rw [hla] at h
      rcases hp with hp | ⟨f2, hp⟩
      · rw [hp]; exact hpend h
      · rw [hp, getPending_set (by have := (getE_le hentry).2; omega)]; exact hpend h
    · intro h1 h2; omega
  rcases lstep v hr g inv a hest hleL with ⟨hn, _, _⟩ | ⟨r, hs, h⟩ | hs | ⟨f2, c2, _, hs⟩ | ⟨m0, e, ha, hf, hc, _, hd, f', m, hb, hs⟩ | ⟨e', _, _, f', m, _, r, hs, hn, _, _, _⟩
  · exact same (by rw [hn]) (Or.inl (by rw [hn])) (by rw [hn])
  · obtain ⟨_, _, _, _, _, h6, h7, h8⟩ := lsame_node h
    exact same (by rw [nodeL _ hs, h7]) (Or.inl (by rw [nodeL _ hs, h8])) (by rw [nodeL _ hs, h6])
  · exact same (by rw [nodeL _ hs]) (Or.inl (by rw [nodeL _ hs])) (by rw [nodeL _ hs])
  · exact same (by rw [nodeL _ hs]; rfl) (Or.inr ⟨f2, by rw [nodeL _ hs]; rfl⟩) (by rw [nodeL _ hs]; rfl)
  · rw [hest.term] at hb
    refine ⟨?_, ?_, hmono, Or.inr ⟨m0, e, f', m, ha, hf, hc, hd, hb, by rw [nodeL _ hs, tryAdvance_mi]; rfl⟩⟩
    · intro h
      rw [nodeL _ hs] at h ⊢
      rw [tryAdvance_pend _ _ _ _ h]
      exact hpend (by have := hmono; rw [nodeL _ hs] at this; omega)
    · intro h1 h2
      rw [nodeL _ hs] at h2
      obtain ⟨res, r1, r2⟩ := tryAdvance_hit g.s.n (ackNode (g.s.nodes L) f' m) L k f ⟨t, c⟩ (inv.cl L) h1 hentry (hpend h1) h2
      rw [hs]
      exact ⟨rfl, res, r1, r2⟩
  · exact same (by rw [nodeL _ hs, hn]; rfl) (Or.inl (by rw [nodeL _ hs, hn]; rfl)) (by rw [nodeL _ hs, hn]; rfl)

/-! ### the invariant of the progress argument -/

structure Prog (g : GSt) (L t k f : Nat) (c : Cmd) (Q : List Nat) (ph : Nat → Ph) : Prop where
  inv : PInv g
  est : Est g.s L t
  sync : ∀ p ∈ Q, Sync g.s L t p
  entry : getE (g.s.nodes L).log k = some ⟨t, c⟩
  pend : (g.s.nodes L).lastApplied < k → getPending (g.s.nodes L).pending k = some f
  war : ∀ p ∈ Q, ∀ rid, ph p = .waitAR rid →
          rid < g.s.nextId ∧ ∀ e ∈ g.s.msgs, e.id = rid → ∃ m, k ≤ m ∧ e = ⟨rid, p, L, .ar t true p m⟩
  rep : ∀ p ∈ Q, ph p ≠ .waitAE → Agree (g.s.nodes L).log (g.s.nodes p).log k
  dn : ∀ p ∈ Q, ph p = .done → k ≤ (g.s.nodes L).matchIndex.getD p 0
  alld : (∀ p ∈ Q, ph p = .done) → k ≤ (g.s.nodes L).lastApplied

theorem regress_false {s : St} {L t k m0 f' m : Nat} {Q : List Nat} {e : Env} (h : regress s L t k Q (.deliver m0) = false)
    (hf : findMsg s m0 = some e) (hc : canDeliver s e = true) (hd : e.dst = L) (hb : e.body = .ar t true f' m) (hQ : f' ∈ Q)
    (hk : k ≤ (s.nodes L).matchIndex.getD f' 0) : k ≤ m := by
  simp only [regress, hf, hc, hd, hb, beq_self_eq_true, Bool.true_and, Bool.and_eq_false_iff, decide_eq_false_iff_not] at h
  have hQ' : Q.contains f' = true := by simpa using hQ
  rcases h with (h | h) | h
  · rw [hQ'] at h; cases h
  · omega
  · omega

theorem prog_step (v : Variant) (hr : Rep v) {g : GSt} {L t k f : Nat} {c : Cmd} {Q : List Nat} {ph : Nat → Ph}
    (P : Prog g L t k f c Q ph) (hnd : Q.Nodup) (hq : quorum g.s.n ≤ Q.length + 1) (a : Act)
    (hst : termsLe (step v g.s a).1 t (L :: Q) = true) (hnr : regress g.s L t k Q a = false) :
    Prog (gstep v g a) L t k f c Q (fun p => phStep g.s L t k p (ph p) a)
    ∧ ((g.s.nodes L).lastApplied < k → k ≤ ((step v g.s a).1.nodes L).lastApplied →
        (step v g.s a).2.target = some L ∧ ∃ res, (k, c, res) ∈ (step v g.s a).2.apps ∧ (f, k, res) ∈ (step v g.s a).2.ress) := by
  have hleL : ((step v g.s a).1.nodes L).term ≤ t := termsLe_mem hst (by simp)
  have hleP : ∀ p ∈ Q, ((step v g.s a).1.nodes p).term ≤ t := fun p hp => termsLe_mem hst (List.mem_cons_of_mem _ hp)
  have inv' := pinv_step v hr g P.inv a
  have est' := est_step v hr g P.inv a P.est hleL
  have sync' : ∀ p ∈ Q, Sync (step v g.s a).1 L t p := fun p hp => sync_step v hr g P.inv a P.est (P.sync p hp) hleL (hleP p hp)
  have hpost := lpost_of_lstep P.inv.all.hi.n_cl (lstep v hr g P.inv a P.est hleL)
  obtain ⟨lf1, lf2, lf3, lf4⟩ := lfacts v hr g P.inv a P.est hleL P.entry P.pend
  have keep : ∀ p ∈ Q, Agree (g.s.nodes L).log (g.s.nodes p).log k →
      Agree ((step v g.s a).1.nodes L).log ((step v g.s a).1.nodes p).log k :=
    fun p hp h => agree_step v hr g P.inv a P.est (P.sync p hp).pne (P.sync p hp).pterm hleL (hleP p hp) h
  obtain ⟨hid1, hid2⟩ := step_ids v g.s a
  -- a follower whose reply is delivered now: the step is that acknowledgement
  have fin : ∀ p ∈ Q, ∀ rid e, ph p = .waitAR rid → a = .deliver rid → findMsg g.s rid = some e → canDeliver g.s e = true →
      ∃ m, k ≤ m ∧ e = ⟨rid, p, L, .ar t true p m⟩ ∧ ((step v g.s a).1.nodes L).matchIndex = (g.s.nodes L).matchIndex.set p m
        ∧ step v g.s a = applyHR g.s L (tryAdvance g.s.n (ackNode (g.s.nodes L) p m) L) := by
    intro p hp rid e hph ha hf hc
    obtain ⟨m, hkm, he⟩ := (P.war p hp rid hph).2 e (findMsg_mem hf) (findMsg_id hf)
    have hd : e.dst = L := by rw [he]
    have hb : e.body = .ar t true p m := by rw [he]
    have hs := ack_deliver v P.est hf hc hd hb
    rw [← ha] at hs
    refine ⟨m, hkm, he, ?_, hs⟩
    rw [hs]; simp only [applyHR, upd_same]; rw [tryAdvance_mi]; rfl
  have dn' : ∀ p ∈ Q, phStep g.s L t k p (ph p) a = .done → k ≤ ((step v g.s a).1.nodes L).matchIndex.getD p 0 := by
    intro p hp hdone
    rcases phStep_cases g.s L t k p (ph p) a with h | ⟨_, h, _⟩ | ⟨rid, e, hph, _, ha, hf, hc⟩
    · rw [h] at hdone
      have hold := P.dn p hp hdone
      rcases lf4 with h4 | ⟨m0, e, f', m, ha, hf, hc, hd, hb, h4⟩
      · rw [h4]; exact hold
      · rw [h4, getD_set_nat]
        split
        · rename_i hc'
          rw [ha] at hnr
          have hf'Q : f' ∈ Q := by rw [← hc'.1]; exact hp
          exact regress_false hnr hf hc hd hb hf'Q (by rw [← hc'.1]; exact hold)
        · exact hold
    · rw [h] at hdone; cases hdone
    · obtain ⟨m, hkm, _, hmi, _⟩ := fin p hp rid e hph ha hf hc
      rw [hmi, getD_set_nat, if_pos ⟨rfl, by rw [P.inv.ml L]; exact (P.sync p hp).pn⟩]; exact hkm
  refine ⟨⟨inv', by rw [gstep_s]; exact est', by rw [gstep_s]; exact sync', by rw [gstep_s]; exact getE_prefix P.entry hpost.log,
    by rw [gstep_s]; exact lf1, ?_, ?_, by rw [gstep_s]; exact dn', ?_⟩, lf2⟩
  · -- war
    intro p hp rid hph
    rw [gstep_s]
    rcases phStep_cases g.s L t k p (ph p) a with h | ⟨_, h, m0, e, ha, hf, hc, hsrc, hdst, hcar⟩ | ⟨_, _, _, h, _⟩
    · rw [h] at hph
      obtain ⟨w1, w2⟩ := P.war p hp rid hph
      refine ⟨by omega, fun e he hid => ?_⟩
      rcases hid2 e he with h' | h'
      · exact w2 e h' hid
      · omega
    · rw [h] at hph
      have hrid : rid = g.s.nextId := by cases hph; rfl
      subst hrid
      obtain ⟨m, hkm, hmsgs, _⟩ := accept_step v hr g P.inv (k := k) P.est (P.sync p hp) hf hc hdst hcar
      rw [ha, hmsgs, hsrc]
      have hnew : (⟨g.s.nextId, p, L, .ar t true p m⟩ : Env) ∈ (step v g.s a).1.msgs := by rw [ha, hmsgs, hsrc]; simp
      refine ⟨by have := idsOk_step v g.s a P.inv.ids _ hnew; rw [ha] at this; exact this, fun e' he' hid => ?_⟩
      simp only [List.mem_cons] at he'
      rcases he' with he' | he'
      · exact ⟨m, hkm, he'⟩
      · have := P.inv.ids e' he'; omega
    · rw [h] at hph; cases hph
  · -- rep
    intro p hp hne
    rw [gstep_s]
    rcases phStep_cases g.s L t k p (ph p) a with h | ⟨_, _, m0, e, ha, hf, hc, _, hdst, hcar⟩ | ⟨rid, _, hph, _, _, _, _⟩
    · rw [h] at hne; exact keep p hp (P.rep p hp hne)
    · obtain ⟨_, _, _, hag⟩ := accept_step v hr g P.inv (k := k) P.est (P.sync p hp) hf hc hdst hcar
      rw [ha]; exact hag
    · exact keep p hp (P.rep p hp (by rw [hph]; intro h; cases h))
  · -- all done: the last acknowledgement completes the quorum
    intro hall
    rw [gstep_s]
    by_cases hold : ∀ p ∈ Q, ph p = .done
    · exact Nat.le_trans (P.alld hold) lf3
    · obtain ⟨p0, hp0, hp0n⟩ : ∃ p0 ∈ Q, ph p0 ≠ .done := by
        apply Classical.byContradiction
        intro hc
        apply hold
        intro p hp
        apply Classical.byContradiction
        intro hpn
        exact hc ⟨p, hp, hpn⟩
      rcases phStep_cases g.s L t k p0 (ph p0) a with h | ⟨_, h, _⟩ | ⟨rid, e, hph, _, ha, hf, hc⟩
      · rw [← h] at hp0n; exact absurd (hall p0 hp0) hp0n
      · have := hall p0 hp0; rw [h] at this; cases this
      · obtain ⟨m, hkm, he, _, hs⟩ := fin p0 hp0 rid e hph ha hf hc
        by_cases hla : (g.s.nodes L).lastApplied < k
        · have hcount : Q.length + 1 ≤ countMatch g.s.n (ackNode (g.s.nodes L) p0 m) L k := by
            apply countMatch_ge _ _ _ _ _ hnd
            intro p hp
            refine ⟨(P.sync p hp).pn, (P.sync p hp).pne, ?_⟩
            show k ≤ ((g.s.nodes L).matchIndex.set p0 m).getD p 0
            rw [getD_set_nat]
            split
            · exact hkm
            · rename_i hne
              have hpne : p ≠ p0 := fun h => hne ⟨h, by rw [P.inv.ml L]; exact (P.sync p0 hp0).pn⟩
              rcases phStep_cases g.s L t k p (ph p) a with h | ⟨_, h, _⟩ | ⟨rid', e', hph', _, ha', hf', hc'⟩
              · exact P.dn p hp (by rw [← h]; exact hall p hp)
              · have := hall p hp; rw [h] at this; cases this
              · exfalso
                have hrr : rid' = rid := by rw [ha] at ha'; cases ha'; rfl
                subst hrr
                rw [hf] at hf'
                cases hf'
                obtain ⟨m', _, he', _, _⟩ := fin p hp rid' e hph' ha hf hc
                rw [he] at he'
                cases he'
                exact hpne rfl
          obtain ⟨_, _, _, hk', _⟩ := ack_commits g.s.n (g.s.nodes L) L p0 m k f ⟨t, c⟩ (P.inv.cl L) hla P.entry
            (by rw [P.est.term]) (P.pend hla) (by omega)
          rw [hs]; simp only [applyHR, upd_same]; exact hk'
        · exact Nat.le_trans (by omega) lf3

end HappyModel.C11
