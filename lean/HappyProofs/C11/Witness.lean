import HappyModel.C11.Observe
/-! Concrete runs of the model: the pinned rules (`Variant.current`) falsify the property. -/
namespace HappyModel.C11
open Spec

/-- corpus/C11/d1-vote-twice.json as recorded on the real nodes (message ids = send order) -/
def witnessD1 : List Act :=
  [ .timeout 0, .timeout 3,
    .deliver 0, .deliver 1, .deliver 8, .deliver 9,     -- 1 and 2 grant, 0 leads term 1
    .deliver 7,                                          -- 4 grants to 3
    .deliver 10, .deliver 11,                            -- 0's AppendEntries(term 1) at 1 and 2: votes forgotten
    .deliver 5, .deliver 6,                              -- 3's RequestVote(term 1) granted again by 1 and 2
    .deliver 14, .deliver 17 ]                           -- 3 leads term 1 as well


/-- election safety is false of the pinned code: nodes 0 and 3 are both leader in term 1 -/
theorem election_safety_current_false :
    electionOk (frames Variant.current 5 witnessD1) = false := by decide

/-- the same schedule is harmless under the repaired `_step_down` -/
example : electionOk (frames Variant.repaired 5 witnessD1) = true := by decide

/-- corpus/C11/d2-match-inflation.json as recorded on the real nodes -/
def witnessD2 : List Act :=
  [ .timeout 0, .deliver 0, .deliver 1, .deliver 4, .deliver 5, .submit 0 0 ⟨1, 0, 0, 1, none⟩,
    .submit 0 1 ⟨2, 0, 1, 2, none⟩, .heartbeat 0, .deliver 10, .timeout 4, .timeout 4, .deliver 21,
    .deliver 22, .deliver 23, .deliver 24, .deliver 26, .deliver 29, .submit 4 2 ⟨3, 0, 0, 7, none⟩,
    .submit 4 3 ⟨4, 0, 1, 7, none⟩, .heartbeat 4, .deliver 32, .deliver 34, .timeout 1, .deliver 35,
    .deliver 37, .deliver 39, .deliver 40 ]

/-- pinned acknowledgement rule (`match_index = last_index`): entries committed by node 4 in term 2
    are missing from the log of node 1, leader of term 3 -/
theorem leader_completeness_current_false :
    leaderCompleteOk (frames Variant.current 5 witnessD2) = false := by decide

example : leaderCompleteOk (frames Variant.repaired 5 witnessD2) = true := by decide

/-- corpus/C11/d4-stale-future.json as recorded on the real nodes -/
def witnessD4 : List Act :=
  [ .timeout 0, .deliver 0, .deliver 2, .submit 0 0 ⟨1, 0, 0, 1, none⟩, .timeout 2, .timeout 2,
    .deliver 8, .deliver 9, .submit 2 1 ⟨2, 0, 0, 7, none⟩, .heartbeat 2, .deliver 13, .deliver 12,
    .deliver 14, .heartbeat 2, .deliver 16 ]

/-- pinned truncation rule: the future of command 1 resolves with index 1, where command 2 was applied -/
theorem submit_resolves_own_command_current_false :
    submitOk (frames Variant.current 3 witnessD4) = false := by decide

example : submitOk (frames Variant.repaired 3 witnessD4) = true := by decide

end HappyModel.C11
