import HappyModel.C11.Observe
/-! Concrete runs of the model: the pinned rules (`Variant.current`) falsify the property. -/
namespace HappyModel.C11
open Spec

/-- corpus/C11/d1-vote-twice.json as recorded on the real nodes (message ids = send order) -/
def witnessD1 : List Act :=
  [ .timeout 0, .timeout 3,
    .deliver 0, .deliver 1, .deliver 8, .deliver 9,     -- 1 and 2 grant, 0 leads term 1
    .deliver 7,                                          -- 4 grants to 3
    .deliver 10, .deliver 11,                            -- 0's AppendEntries(term 1) at 1 and 2: votes forgotten
    .deliver 5, .deliver 6,                              -- 3's RequestVote(term 1) granted again by 1 and 2
    .deliver 14, .deliver 17 ]                           -- 3 leads term 1 as well


/-- election safety is false of the pinned code: nodes 0 and 3 are both leader in term 1 -/
theorem election_safety_current_false :
    electionOk (frames Variant.current 5 witnessD1) = false := by decide

/-- the same schedule is harmless under the repaired `_step_down` -/
example : electionOk (frames Variant.repaired 5 witnessD1) = true := by decide

end HappyModel.C11
