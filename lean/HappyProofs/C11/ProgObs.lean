import HappyProofs.C11.Progress
/-! Bounded progress as an observer sees it (`Spec.Frame`s): the leader reports the command at its
    index exactly once, the future is reported resolved with that index, and — by State-Machine
    Safety — no node ever reports another command at that index. -/
namespace HappyModel.C11
open Spec

theorem hit_frames (v : Variant) {L k f : Nat} {c : Cmd} : ∀ (as : List Act) (s : St), Hit (outs v s as) L k f c →
    ∃ fr ∈ framesFrom v s as, (L, k, c.id) ∈ fr.apps ∧ (L, f, k) ∈ fr.ress := by
  intro as
  induction as with
  | nil => intro s h; obtain ⟨o, ho, _⟩ := h; simp [outs] at ho
  | cons a as ih =>
    intro s h
    obtain ⟨o, ho, ht, res, r1, r2⟩ := h
    simp only [outs, List.mem_cons] at ho
    rcases ho with ho | ho
    · refine ⟨frameOf (step v s a).1 (step v s a).2 a, by simp [framesFrom], ?_, ?_⟩
      · simp only [frameOf, List.mem_map]
        refine ⟨(k, c, res), by rw [← ho]; exact r1, ?_⟩
        simp [tgt, ← ho, ht]
      · simp only [frameOf, List.mem_map]
        refine ⟨(f, k, res), by rw [← ho]; exact r2, ?_⟩
        simp [tgt, ← ho, ht]
    · obtain ⟨fr, hfr, h1, h2⟩ := ih (step v s a).1 ⟨o, ho, ht, res, r1, r2⟩
      exact ⟨fr, by simp only [framesFrom]; exact List.mem_cons_of_mem _ hfr, h1, h2⟩

theorem mem_appsOf {tr : List Frame} {fr : Frame} (hfr : fr ∈ tr) {i k x : Nat} (h : (i, k, x) ∈ fr.apps) : (k, x) ∈ appsOf tr i := by
  unfold appsOf
  rw [List.mem_flatMap]
  refine ⟨fr, hfr, ?_⟩
  rw [List.mem_filterMap]
  exact ⟨(i, k, x), h, by simp⟩

theorem consec_ge : ∀ (l : List (Nat × Nat)) (m : Nat), consecutiveFrom m l = true → ∀ q ∈ l, m ≤ q.1 := by
  intro l
  induction l with
  | nil => intro m _ q hq; cases hq
  | cons a r ih =>
    intro m h q hq
    simp only [consecutiveFrom, Bool.and_eq_true, beq_iff_eq] at h
    simp only [List.mem_cons] at hq
    rcases hq with hq | hq
    · rw [hq]; omega
    · have := ih (m + 1) h.2 q hq; omega

/-- in a sequence of applications with indices m, m+1, m+2, … an index occurs at most once -/
theorem consec_filter {k : Nat} : ∀ (l : List (Nat × Nat)) (m : Nat), consecutiveFrom m l = true → ∀ x, (k, x) ∈ l →
    l.filter (fun q => q.1 == k) = [(k, x)] := by
  intro l
  induction l with
  | nil => intro m _ x hx; cases hx
  | cons a r ih =>
    intro m h x hx
    simp only [consecutiveFrom, Bool.and_eq_true, beq_iff_eq] at h
    simp only [List.mem_cons] at hx
    rcases hx with hx | hx
    · have hnone : r.filter (fun q => q.1 == k) = [] := by
        rw [List.filter_eq_nil_iff]
        intro q hq
        have := consec_ge r (m + 1) h.2 q hq
        have hk : k = m := by rw [← hx] at h; exact h.1
        simp; omega
      rw [List.filter_cons_of_pos (by rw [← hx]; simp), hnone, hx]
    · have hge := consec_ge r (m + 1) h.2 (k, x) hx
      rw [List.filter_cons_of_neg (by simp; omega)]
      exact ih (m + 1) h.2 x hx

/-- the hypotheses of `stable_leader_commits`, bundled (all decidable) -/
structure StableFair (v : Variant) (n : Nat) (pre : List Act) (L t f : Nat) (c : Cmd) (Q : List Nat) (as : List Act) : Prop where
  est : established (run v (init n) pre) L t = true
  qnd : Q.Nodup
  qne : Q ≠ []
  qq : quorum n ≤ Q.length + 1
  sync : ∀ p ∈ Q, inSync (run v (init n) pre) L t p = true
  stable : stableRun v t (L :: Q) (run v (init n) pre) (.submit L f c :: as) = true
  fair : ∀ p ∈ Q, ackedRun v L t (nextIdx (run v (init n) pre) L) p (run v (init n) pre) (.submit L f c :: as) = true
  nr : noRegressRun v L t (nextIdx (run v (init n) pre) L) Q (run v (init n) pre) (.submit L f c :: as) = true

instance (v : Variant) (n : Nat) (pre : List Act) (L t f : Nat) (c : Cmd) (Q : List Nat) (as : List Act) :
    Decidable (StableFair v n pre L t f c Q as) :=
  decidable_of_iff (established (run v (init n) pre) L t = true ∧ Q.Nodup ∧ Q ≠ [] ∧ quorum n ≤ Q.length + 1
      ∧ (∀ p ∈ Q, inSync (run v (init n) pre) L t p = true)
      ∧ stableRun v t (L :: Q) (run v (init n) pre) (.submit L f c :: as) = true
      ∧ (∀ p ∈ Q, ackedRun v L t (nextIdx (run v (init n) pre) L) p (run v (init n) pre) (.submit L f c :: as) = true)
      ∧ noRegressRun v L t (nextIdx (run v (init n) pre) L) Q (run v (init n) pre) (.submit L f c :: as) = true)
    ⟨fun ⟨a, b, c, d, e, f, g, h⟩ => ⟨a, b, c, d, e, f, g, h⟩, fun h => ⟨h.est, h.qnd, h.qne, h.qq, h.sync, h.stable, h.fair, h.nr⟩⟩

/-- what an observer sees of a run in which some step applied `c` at `k` on `L` and resolved `f` with it -/
theorem obs_of_hit (v : Variant) (hr : Rep v) (n : Nat) (pre : List Act) (L f k : Nat) (c : Cmd) (as : List Act)
    (hhit : Hit (outs v (run v (init n) pre) as) L k f c) :
    (appsOf (framesFrom v (run v (init n) pre) as) L).filter (fun q => q.1 == k) = [(k, c.id)]
    ∧ (L, f, k) ∈ (framesFrom v (run v (init n) pre) as).flatMap (·.ress)
    ∧ ∀ x ∈ allApps (frames v n (pre ++ as)), x.2.1 = k → x.2.2 = c.id := by
  obtain ⟨fr, hfr, h1, h2⟩ := hit_frames v _ _ hhit
  have hcl : CL (run v (init n) pre) := cl_run v pre _ (cl_init n)
  refine ⟨?_, ?_, ?_⟩
  · exact consec_filter _ _ (run_apps v _ _ hcl L) _ (mem_appsOf hfr h1)
  · rw [List.mem_flatMap]; exact ⟨fr, hfr, h2⟩
  · intro x hx hxk
    have hmem : (L, k, c.id) ∈ allApps (frames v n (pre ++ as)) := by
      unfold allApps
      rw [frames_append, List.flatMap_append, List.mem_append]
      exact Or.inr (List.mem_flatMap.mpr ⟨fr, hfr, h1⟩)
    have hagree := (state_machine_safety v hr n (pre ++ as)).2
    unfold applyAgreeOk at hagree
    simp only [List.all_eq_true] at hagree
    have := hagree x hx _ hmem
    simp only [Bool.or_eq_true, bne_iff_ne, ne_eq, beq_iff_eq] at this
    rcases this with h' | h'
    · exact absurd hxk h'
    · exact h'

/-- BOUNDED PROGRESS, OBSERVED.  Under the hypotheses of `stable_leader_commits`: in the frames after the
    submit the leader reports exactly one application at index `k`, that of the submitted command; the
    future is reported resolved with `k`; and in the frames of the whole run no node reports any other
    command at `k`. -/
theorem stable_leader_commits_obs (v : Variant) (hr : Rep v) (n : Nat) (pre : List Act) (L t f : Nat) (c : Cmd) (Q : List Nat)
    (as : List Act) (h : StableFair v n pre L t f c Q as) :
    (appsOf (framesFrom v (run v (init n) pre) (.submit L f c :: as)) L).filter (fun q => q.1 == nextIdx (run v (init n) pre) L)
        = [(nextIdx (run v (init n) pre) L, c.id)]
    ∧ (L, f, nextIdx (run v (init n) pre) L) ∈ (framesFrom v (run v (init n) pre) (.submit L f c :: as)).flatMap (·.ress)
    ∧ ∀ x ∈ allApps (frames v n (pre ++ .submit L f c :: as)), x.2.1 = nextIdx (run v (init n) pre) L → x.2.2 = c.id :=
  obs_of_hit v hr n pre L f _ c _
    (stable_leader_commits v hr n pre L t f c Q as h.est h.qnd h.qne h.qq h.sync h.stable h.fair h.nr).2.2.2.2

end HappyModel.C11
