import HappyProofs.C11.Witness
import HappyProofs.C11.Election
import HappyProofs.C11.ApplyOrder
import HappyProofs.C11.LogMatching
import HappyProofs.C11.ApplyAgree
import HappyProofs.C11.SubmitRun
import HappyProofs.C11.Completeness
import HappyProofs.C11.Safety
import HappyProofs.C11.LeaderInit
import HappyProofs.C11.ProgJudgeOk
import HappyProofs.C11.ProgConvFair
import HappyProofs.C11.ProgFifoRun
import HappyProofs.C11.ProgFifoConv
/-! C11 — property theorems: statements about the `Spec` predicates on the frames of model runs.

General theorems live next to their invariants (quantified over the repair flags they need):

* `election_safety`            (Election.lean)     needs `keepVote`   (repair D1)
* `log_matching`               (LogMatching.lean)  needs `keepVote`
* `apply_in_order_no_gaps`     (ApplyOrder.lean)   every variant
* `apply_from_log`             (ApplyAgree.lean)   every variant
* `submit_resolves_own_command`(SubmitRun.lean)    needs `dropPending` (repair D4), fresh futures
* `match_sound`                (Safety.lean)       needs `keepVote`, `matchSent`, `staleAck` (repairs D1–D3, `Rep v`)
* `leader_completeness`        (Safety.lean)       needs `Rep v`
* `state_machine_safety`       (Safety.lean)       needs `Rep v`
* `commit_monotone`            (Safety.lean)       needs `Rep v`
* `new_leader_progress_reset`  (LeaderInit.lean)   every variant: a node that becomes leader starts with
                               `match_index = 0`, `next_index = last_index + 1` (nothing survives from an earlier leadership)
* `stable_leader_commits`      (Progress.lean)     needs `Rep v`: BOUNDED PROGRESS under a stable leader — from any reachable state
                               with an established leader `L` of term `t` and a quorum `L :: Q` of followers in sync (`inSync`), along any
                               run in which no node of `L :: Q` sees a term above `t` (`stableRun`), every follower of `Q` is handed an
                               AppendEntries carrying the entry and `L` is handed the reply to it (`ackedRun`), and no older
                               acknowledgement overtakes a newer one (`noRegressRun`): the submitted command is appended at
                               `k = len(log)+1`, replicated on `Q`, committed and applied by `L` at `k`, its future resolved with
                               `k` and that application's result (`Hit`); `stable_leader_commits_obs` (ProgObs.lean): exactly one
                               application at `k` in `L`'s frames, and no node ever reports another command at `k`;
                               `stable_all_apply` (ProgAll.lean): every follower in sync that is handed the commit notice
                               (`toldRun`) applies `k` too, and whoever applied `k` applied that command.
                               `stable_leader_commits_conv` (ProgConvRun.lean): the same conclusion WITHOUT the in-sync premise, when each
                               follower's AppendEntries conversation — refusals and the retries with decremented `next_index`
                               included — is carried through to a successful acknowledgement (`convRun`).
                               `stableOk_settled` (ProgJudgeOk.lean): the judge's clause `Spec.stableOk` accepts the frames of every
                               model run in which only `L` is seen leading and at whose end every `last_applied` equals the length
                               of `L`'s log; `stableOk_of_progress`: that follows from the schedule predicates for a one-command run.
                               Ingredients: `est_step` (a leader is not demoted while no term rises), `sync_step` (a follower in
                               sync stays in sync), `accept_step`, `ack_commits`, `laOk_reach` (`last_applied ≤ commit_index`).
* `commit_monotone_partial`, `state_machine_safety_partial`, `leader_completeness_partial`: the earlier
  per-step / conditional forms (every variant), now lemmas of the full theorems

The proof of the last four is one invariant (`HInv`, HInv.lean) over the run extended with history
(`seen`, `llogs`, `cands`, Ghost.lean), preserved by every handler kind (HKind.lean, HStepA–D.lean);
Leader Completeness at the level of records is `lc_main` (HInv.lean).

Here they are instantiated for the repaired code and shown non-vacuous; the witnesses for the
pinned code are in Witness.lean. -/
namespace HappyModel.C11
open Spec

/-- at most one leader per term — repaired code, all cluster sizes, all action lists -/
theorem election_safety_repaired (n : Nat) (as : List Act) : electionOk (frames Variant.repaired n as) = true :=
  election_safety Variant.repaired rfl n as

/-- non-vacuity: in a 3-node run node 0 really becomes leader of term 1 -/
example : ((frames Variant.repaired 3 [.timeout 0, .deliver 0, .deliver 2]).flatMap leaderObs) = [(1, 0)] := by decide

/-- equal (index, term) ⇒ equal prefixes — repaired code -/
theorem log_matching_repaired (n : Nat) (as : List Act) : logMatchingOk (frames Variant.repaired n as) = true :=
  log_matching Variant.repaired rfl n as

/-- a run in which logs really diverge and are repaired: leader 0 (term 1) takes c1 alone, leader 2
    (term 2) takes c2 and replicates it over 0's conflicting entry; c2 commits and is applied -/
def divergeRun : List Act :=
  [ .timeout 0, .deliver 0, .deliver 2,                       -- 0 leads term 1 (vote of 1)
    .submit 0 0 ⟨1, 0, 0, 1, none⟩,                           -- c1 at index 1 of node 0
    .timeout 2, .timeout 2, .deliver 8, .deliver 9,           -- 2 leads term 2 (vote of 1)
    .submit 2 1 ⟨2, 0, 0, 7, none⟩,                           -- c2 at index 1 of node 2
    .heartbeat 2, .deliver 12, .deliver 14 ]                  -- AppendEntries(c2) reaches node 0; its ack commits c2

example : ((frames Variant.repaired 3 divergeRun).map (fun f => f.views.map (·.log))).getLast? =
    some [[(2, 2)], [], [(2, 2)]] := by decide

/-- each node applies indices 1, 2, 3, … — repaired code (holds for every variant) -/
theorem apply_in_order_no_gaps_repaired (n : Nat) (as : List Act) : applyOrderOk (frames Variant.repaired n as) = true :=
  apply_in_order_no_gaps Variant.repaired n as

theorem apply_from_log_repaired (n : Nat) (as : List Act) : applyFromLogOk (frames Variant.repaired n as) = true :=
  apply_from_log Variant.repaired n as

/-- non-vacuity: in `divergeRun` node 2 applies command 2 at index 1 and resolves future 1 with it -/
example : (allApps (frames Variant.repaired 3 divergeRun), (frames Variant.repaired 3 divergeRun).flatMap (·.ress))
    = ([(2, 1, 2)], [(2, 1, 1)]) := by decide

/-- submit futures resolve only with their own command's index — repaired code -/
theorem submit_resolves_own_command_repaired (n : Nat) (as : List Act) (hf : FreshFutures as) :
    submitOk (frames Variant.repaired n as) = true :=
  submit_resolves_own_command Variant.repaired rfl n as hf

example : FreshFutures divergeRun := by unfold FreshFutures; decide

/-! ### the safety core in full -/

/-- `match_index[j] = m ≠ 0` at a leader: node `j` held the leader's first `m` entries in the leader's term -/
theorem match_sound_repaired (n : Nat) (as : List Act) (i j : Nat)
    (hl : ((run Variant.repaired (init n) as).nodes i).role = .leader)
    (hm : ((run Variant.repaired (init n) as).nodes i).matchIndex.getD j 0 ≠ 0) :
    ((run Variant.repaired (init n) as).nodes i).matchIndex.getD j 0 ≤ ((run Variant.repaired (init n) as).nodes i).log.length ∧
    ∃ k, k ≤ as.length ∧ ((run Variant.repaired (init n) (as.take k)).nodes j).term = ((run Variant.repaired (init n) as).nodes i).term ∧
      ((run Variant.repaired (init n) as).nodes i).log.take (((run Variant.repaired (init n) as).nodes i).matchIndex.getD j 0)
        <+: ((run Variant.repaired (init n) (as.take k)).nodes j).log :=
  match_sound Variant.repaired rep_repaired n as i j hl hm

/-- non-vacuity: at the end of `divergeRun` leader 2 has `match_index[0] = 1` -/
example : ((run Variant.repaired (init 3) divergeRun).nodes 2).role = .leader
    ∧ ((run Variant.repaired (init 3) divergeRun).nodes 2).matchIndex.getD 0 0 = 1 := by decide

/-- committed entries are in the log of every later leader — repaired code -/
theorem leader_completeness_repaired (n : Nat) (as : List Act) : leaderCompleteOk (frames Variant.repaired n as) = true :=
  leader_completeness Variant.repaired rep_repaired n as

theorem leader_completeness_full_holds : leader_completeness_full := leader_completeness_repaired

/-- `divergeRun`, then node 0 (which holds the committed c2) wins term 3 with the vote of node 1 -/
def laterLeaderRun : List Act := divergeRun ++ [.timeout 0, .deliver 15, .deliver 17]

/-- non-vacuity: an entry committed in term 2 is seen, and a leader of term 3 exists afterwards (and holds it) -/
example : (((frames Variant.repaired 3 laterLeaderRun).flatMap committedOf).eraseDups,
    ((frames Variant.repaired 3 laterLeaderRun).getLast?.map leaderObs),
    ((frames Variant.repaired 3 laterLeaderRun).getLast?.map (fun f => f.views.map (·.log))))
    = ([(1, (2, 2), 2)], some [(3, 0), (2, 2)], some [[(2, 2)], [], [(2, 2)]]) := by decide

/-- no two committed entries at one index differ; no two nodes apply different commands at one index — repaired code -/
theorem state_machine_safety_repaired (n : Nat) (as : List Act) :
    commitAgreeOk (frames Variant.repaired n as) = true ∧ applyAgreeOk (frames Variant.repaired n as) = true :=
  state_machine_safety Variant.repaired rep_repaired n as

theorem state_machine_safety_full_holds : state_machine_safety_full := state_machine_safety_repaired

/-- no node's commit index ever decreases — repaired code -/
theorem commit_monotone_repaired (n : Nat) (as : List Act) : commitMonotoneOk (frames Variant.repaired n as) = true :=
  commit_monotone Variant.repaired rep_repaired n as

theorem commit_monotone_full_holds : commit_monotone_full := commit_monotone_repaired

/-- no action removes or replaces an entry at or below a node's commit index — repaired code -/
theorem committed_never_truncated_repaired (n : Nat) (as : List Act) (a : Act) (j : Nat) :
    ((run Variant.repaired (init n) as).nodes j).log.take ((run Variant.repaired (init n) as).nodes j).commit
      <+: ((step Variant.repaired (run Variant.repaired (init n) as) a).1.nodes j).log :=
  committed_never_truncated Variant.repaired rep_repaired n as a j

/-- non-vacuity: commit indices do move in `divergeRun` -/
example : ((frames Variant.repaired 3 divergeRun).getLast?.map commitsOf) = some [0, 0, 1] := by decide

/-- state-machine safety for the repaired code, reduced to agreement of committed entries -/
theorem state_machine_safety_partial_repaired (n : Nat) (as : List Act)
    (hc : commitAgreeOk (frames Variant.repaired n as) = true) : applyAgreeOk (frames Variant.repaired n as) = true :=
  state_machine_safety_partial Variant.repaired n as hc

example : commitAgreeOk (frames Variant.repaired 3 divergeRun) = true := by decide

/-- the hypothesis of `commit_monotone_partial` is not vacuous: no delivery of `divergeRun` conflicts
    with a committed entry, although one of them truncates node 0's log -/
example : ¬ conflictBelowCommit (run Variant.repaired (init 3) (divergeRun.take 10)) (.deliver 12) := by
  have hm : findMsg (run Variant.repaired (init 3) (divergeRun.take 10)) 12
      = some ⟨12, 2, 0, .ae 2 2 0 0 [⟨2, ⟨2, 0, 0, 7, none⟩⟩] 0⟩ := by decide
  have hc : ((run Variant.repaired (init 3) (divergeRun.take 10)).nodes 0).commit = 0 := by decide
  simp only [conflictBelowCommit, hm]
  intro h; apply h
  intro j _ hle
  rw [hc] at hle; omega

/-! ### bounded progress under a stable leader -/

/-- bounded progress — repaired code -/
theorem stable_leader_commits_repaired (n : Nat) (pre : List Act) (L t f : Nat) (c : Cmd) (Q : List Nat) (as : List Act)
    (h : StableFair Variant.repaired n pre L t f c Q as) :
    getE ((run Variant.repaired (run Variant.repaired (init n) pre) (.submit L f c :: as)).nodes L).log
        (nextIdx (run Variant.repaired (init n) pre) L) = some ⟨t, c⟩
    ∧ (∀ p ∈ Q, getE ((run Variant.repaired (run Variant.repaired (init n) pre) (.submit L f c :: as)).nodes p).log
        (nextIdx (run Variant.repaired (init n) pre) L) = some ⟨t, c⟩)
    ∧ nextIdx (run Variant.repaired (init n) pre) L
        ≤ ((run Variant.repaired (run Variant.repaired (init n) pre) (.submit L f c :: as)).nodes L).commit
    ∧ nextIdx (run Variant.repaired (init n) pre) L
        ≤ ((run Variant.repaired (run Variant.repaired (init n) pre) (.submit L f c :: as)).nodes L).lastApplied
    ∧ Hit (outs Variant.repaired (run Variant.repaired (init n) pre) (.submit L f c :: as)) L
        (nextIdx (run Variant.repaired (init n) pre) L) f c :=
  stable_leader_commits Variant.repaired rep_repaired n pre L t f c Q as h.est h.qnd h.qne h.qq h.sync h.stable h.fair h.nr

/-- node 0 wins term 1 with the vote of node 1; its first (empty) AppendEntries reach both followers and their replies reach it -/
def stablePre : List Act := [.timeout 0, .deliver 0, .deliver 2, .deliver 3, .deliver 4, .deliver 5, .deliver 6]
def cmdA : Cmd := ⟨1, 0, 0, 7, none⟩
def cmdB : Cmd := ⟨2, 0, 1, 3, none⟩

/-- after `submit 0 7 cmdA`: a heartbeat, a duplicated old acknowledgement, a second command, the AppendEntries 7/8 carrying
    cmdA reach nodes 1/2 (with a dropped old message in between), their replies 9/10 reach node 0 -/
def stableTail : List Act := [.heartbeat 0, .deliver 5, .submit 0 8 cmdB, .deliver 7, .drop 3, .deliver 8, .deliver 9, .deliver 10]

/-- non-vacuity: a concrete 3-node stable run satisfies every hypothesis of `stable_leader_commits` (quorum `0 :: [1, 2]`) -/
theorem stableFair_example : StableFair Variant.repaired 3 stablePre 0 1 7 cmdA [1, 2] stableTail := by decide

/-- … and the conclusion is what the run shows: cmdA applied at index 1 with result `val 7`, future 7 resolved with it, commit index 1 -/
example : (outs Variant.repaired (run Variant.repaired (init 3) stablePre) (.submit 0 7 cmdA :: stableTail)).flatMap (·.apps)
      = [(1, cmdA, Res.val 7)]
    ∧ (outs Variant.repaired (run Variant.repaired (init 3) stablePre) (.submit 0 7 cmdA :: stableTail)).flatMap (·.ress)
      = [(7, 1, Res.val 7)]
    ∧ ((run Variant.repaired (run Variant.repaired (init 3) stablePre) (.submit 0 7 cmdA :: stableTail)).nodes 0).commit = 1 := by decide

/-- FAIRNESS IS NEEDED.  The same start, stable, in sync, without regress — the AppendEntries carrying cmdA even reach both
    followers — but their replies are never delivered: the fairness hypothesis fails and nothing is committed or applied. -/
theorem progress_needs_fairness :
    established (run Variant.repaired (init 3) stablePre) 0 1 = true
    ∧ (∀ p ∈ [1, 2], inSync (run Variant.repaired (init 3) stablePre) 0 1 p = true)
    ∧ stableRun Variant.repaired 1 [0, 1, 2] (run Variant.repaired (init 3) stablePre)
        [.submit 0 7 cmdA, .heartbeat 0, .deliver 7, .deliver 8, .heartbeat 0] = true
    ∧ noRegressRun Variant.repaired 0 1 1 [1, 2] (run Variant.repaired (init 3) stablePre)
        [.submit 0 7 cmdA, .heartbeat 0, .deliver 7, .deliver 8, .heartbeat 0] = true
    ∧ (∀ p ∈ [1, 2], ackedRun Variant.repaired 0 1 1 p (run Variant.repaired (init 3) stablePre)
        [.submit 0 7 cmdA, .heartbeat 0, .deliver 7, .deliver 8, .heartbeat 0] = false)
    ∧ ((run Variant.repaired (run Variant.repaired (init 3) stablePre)
        [.submit 0 7 cmdA, .heartbeat 0, .deliver 7, .deliver 8, .heartbeat 0]).nodes 0).commit = 0
    ∧ ((run Variant.repaired (run Variant.repaired (init 3) stablePre)
        [.submit 0 7 cmdA, .heartbeat 0, .deliver 7, .deliver 8, .heartbeat 0]).nodes 0).lastApplied = 0 := by decide

/-- STABILITY IS NEEDED.  Node 2 times out (term 2) and its RequestVote reaches the leader: the leader steps down,
    `stableRun` fails, the next heartbeat tick sends nothing, and cmdA is not committed. -/
theorem progress_needs_stability :
    stableRun Variant.repaired 1 [0, 1, 2] (run Variant.repaired (init 3) stablePre)
        [.submit 0 7 cmdA, .timeout 2, .deliver 7, .heartbeat 0] = false
    ∧ ((run Variant.repaired (run Variant.repaired (init 3) stablePre)
        [.submit 0 7 cmdA, .timeout 2, .deliver 7, .heartbeat 0]).nodes 0).commit = 0 := by decide

/-- bounded progress as observed, and for every node — repaired code -/
theorem stable_leader_commits_obs_repaired (n : Nat) (pre : List Act) (L t f : Nat) (c : Cmd) (Q : List Nat) (as : List Act)
    (h : StableFair Variant.repaired n pre L t f c Q as) :
    (appsOf (framesFrom Variant.repaired (run Variant.repaired (init n) pre) (.submit L f c :: as)) L).filter
        (fun q => q.1 == nextIdx (run Variant.repaired (init n) pre) L) = [(nextIdx (run Variant.repaired (init n) pre) L, c.id)]
    ∧ (L, f, nextIdx (run Variant.repaired (init n) pre) L)
        ∈ (framesFrom Variant.repaired (run Variant.repaired (init n) pre) (.submit L f c :: as)).flatMap (·.ress)
    ∧ ∀ x ∈ allApps (frames Variant.repaired n (pre ++ .submit L f c :: as)),
        x.2.1 = nextIdx (run Variant.repaired (init n) pre) L → x.2.2 = c.id :=
  stable_leader_commits_obs Variant.repaired rep_repaired n pre L t f c Q as h

/-- non-vacuity of `stable_all_apply`: after the commit a heartbeat tells both followers, and they apply cmdA as well -/
def stableTail2 : List Act := stableTail ++ [.heartbeat 0, .deliver 11, .deliver 12]

example : StableFair Variant.repaired 3 stablePre 0 1 7 cmdA [1, 2] stableTail2
    ∧ (∀ p ∈ [1, 2], toldRun Variant.repaired 0 1 1 p (run Variant.repaired (init 3) stablePre) (.submit 0 7 cmdA :: stableTail2) = true)
    ∧ (allApps (frames Variant.repaired 3 (stablePre ++ .submit 0 7 cmdA :: stableTail2))).filter (fun x => x.2.1 == 1)
        = [(0, 1, 1), (1, 1, 1), (2, 1, 1)] := by decide

/-! ### … with log back-off -/

theorem stable_leader_commits_conv_repaired (n : Nat) (pre : List Act) (L t f : Nat) (c : Cmd) (Q : List Nat) (as : List Act)
    (h : StableConv Variant.repaired n pre L t f c Q as) :
    getE ((run Variant.repaired (run Variant.repaired (init n) pre) (.submit L f c :: as)).nodes L).log
        (nextIdx (run Variant.repaired (init n) pre) L) = some ⟨t, c⟩
    ∧ (∀ p ∈ Q, getE ((run Variant.repaired (run Variant.repaired (init n) pre) (.submit L f c :: as)).nodes p).log
        (nextIdx (run Variant.repaired (init n) pre) L) = some ⟨t, c⟩)
    ∧ nextIdx (run Variant.repaired (init n) pre) L
        ≤ ((run Variant.repaired (run Variant.repaired (init n) pre) (.submit L f c :: as)).nodes L).commit
    ∧ nextIdx (run Variant.repaired (init n) pre) L
        ≤ ((run Variant.repaired (run Variant.repaired (init n) pre) (.submit L f c :: as)).nodes L).lastApplied
    ∧ Hit (outs Variant.repaired (run Variant.repaired (init n) pre) (.submit L f c :: as)) L
        (nextIdx (run Variant.repaired (init n) pre) L) f c :=
  stable_leader_commits_conv Variant.repaired rep_repaired n pre L t f c Q as h

/-- node 0 leads term 1, takes cmdA and replicates it to node 1 only (node 2 hears nothing); node 1 then wins term 2 with
    node 0's vote: its `next_index` for node 2 is 2 although node 2's log is empty -/
def backoffPre : List Act :=
  [.timeout 0, .deliver 0, .deliver 2, .submit 0 5 cmdA, .heartbeat 0, .deliver 5, .deliver 7, .timeout 1, .deliver 8, .deliver 10]

/-- the heartbeat's AppendEntries (prev = 1) is refused by node 2; the refusal reaches node 1, which retries with prev = 0; node 2
    accepts both entries; its acknowledgement reaches node 1 -/
def backoffTail : List Act := [.heartbeat 1, .deliver 14, .deliver 15, .deliver 16, .deliver 17]

/-- non-vacuity with a real back-off round: node 2 is NOT in sync with leader 1, yet the hypotheses of
    `stable_leader_commits_conv` hold (quorum `1 :: [2]`), and cmdB is committed at index 2 -/
theorem stableConv_example :
    StableConv Variant.repaired 3 backoffPre 1 2 9 cmdB [2] backoffTail
    ∧ inSync (run Variant.repaired (init 3) backoffPre) 1 2 2 = false
    ∧ ((run Variant.repaired (init 3) (backoffPre ++ .submit 1 9 cmdB :: backoffTail)).nodes 1).commit = 2
    ∧ (outs Variant.repaired (run Variant.repaired (init 3) backoffPre) (.submit 1 9 cmdB :: backoffTail)).flatMap (·.ress)
        = [(9, 2, Res.val 3)] := by decide

/-- non-vacuity of `conv_exists` / `backoff_bound`: in the back-off example the conversation-only schedule is exactly the
    four deliveries (refusal, retry, acceptance, acknowledgement), well within the bound `2 · (next_index[2] + 2) = 8` -/
theorem conv_exists_example :
    convActs Variant.repaired 4 (run Variant.repaired (init 3) (backoffPre ++ [.submit 1 9 cmdB, .heartbeat 1])) 14
      = [.deliver 14, .deliver 15, .deliver 16, .deliver 17]
    ∧ convRun Variant.repaired 1 2 2 2 (run Variant.repaired (init 3) (backoffPre ++ [.submit 1 9 cmdB, .heartbeat 1]))
        [.deliver 14, .deliver 15, .deliver 16, .deliver 17] = true
    ∧ ((run Variant.repaired (init 3) (backoffPre ++ [.submit 1 9 cmdB, .heartbeat 1])).nodes 1).nextIndex.getD 2 1 = 2 := by decide

/-- non-vacuity of `stable_leader_commits_fifo`: the noisy stable run delivers in send order on every link
    (the re-delivered old acknowledgement 5 comes before the newer acknowledgement 9 on the link 1 → 0) -/
theorem fifo_example :
    fifoRun Variant.repaired [] (run Variant.repaired (init 3) stablePre) (.submit 0 7 cmdA :: stableTail) = true
    ∧ fifoRun Variant.repaired [] (run Variant.repaired (init 3) stablePre)
        [.submit 0 7 cmdA, .heartbeat 0, .deliver 7, .deliver 9, .deliver 5] = false := by decide

/-- non-vacuity of `stable_leader_commits_conv_fifo`: the back-off example is FIFO on every link and nothing in flight
    to node 2 reaches beyond the leader's log -/
theorem fifo_conv_example :
    fifoRun Variant.repaired [] (run Variant.repaired (init 3) backoffPre) (.submit 1 9 cmdB :: backoffTail) = true
    ∧ aeBounded (run Variant.repaired (init 3) backoffPre) 1 2 2 = true := by decide

/-! ### the judge's bounded-progress clause on the model's own transcript -/

theorem stableOk_settled_repaired (n : Nat) (as : List Act) (L : Nat) (hL : L < n)
    (h1 : onlyLeader L (frames Variant.repaired n as) = true) (h2 : settledAt (run Variant.repaired (init n) as) L = true) :
    stableOk (frames Variant.repaired n as) = true :=
  stableOk_settled Variant.repaired rep_repaired n as L hL h1 h2

/-- the entry reaches both followers, their replies reach the leader, the next heartbeat carries the commit notice to both -/
def settledTail : List Act :=
  [.heartbeat 0, .deliver 7, .deliver 8, .deliver 9, .deliver 10, .heartbeat 0, .deliver 11, .deliver 12]

/-- non-vacuity of `stableOk_of_progress`: its hypotheses hold of a concrete 3-node run -/
theorem stableOk_example_hyps :
    StableFair Variant.repaired 3 stablePre 0 1 7 cmdA (peers 3 0) settledTail
    ∧ (∀ p ∈ peers 3 0, toldRun Variant.repaired 0 1 (nextIdx (run Variant.repaired (init 3) stablePre) 0) p
          (run Variant.repaired (init 3) stablePre) (.submit 0 7 cmdA :: settledTail) = true)
    ∧ onlyLeader 0 (frames Variant.repaired 3 (stablePre ++ .submit 0 7 cmdA :: settledTail)) = true
    ∧ ((run Variant.repaired (init 3) (stablePre ++ .submit 0 7 cmdA :: settledTail)).nodes 0).log.length
        = nextIdx (run Variant.repaired (init 3) stablePre) 0 := by decide

/-- … and there the clause is not vacuous: one command accepted, every node applied it -/
example : acceptedCmds (frames Variant.repaired 3 (stablePre ++ .submit 0 7 cmdA :: settledTail)) = [1]
    ∧ (List.range 3).map (fun i => (appsOf (frames Variant.repaired 3 (stablePre ++ .submit 0 7 cmdA :: settledTail)) i).map (·.2))
        = [[1], [1], [1]] := by decide

/-- the judge rejects the unfair run: the accepted command is applied nowhere -/
example : stableOk (frames Variant.repaired 3 (stablePre ++ [.submit 0 7 cmdA, .heartbeat 0, .deliver 7, .deliver 8, .heartbeat 0])) = false := by
  decide

end HappyModel.C11
