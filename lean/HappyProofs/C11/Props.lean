import HappyProofs.C11.Witness
import HappyProofs.C11.Election
import HappyProofs.C11.ApplyOrder
import HappyProofs.C11.LogMatching
import HappyProofs.C11.ApplyAgree
import HappyProofs.C11.SubmitRun
import HappyProofs.C11.Completeness
/-! C11 — property theorems: statements about the `Spec` predicates on the frames of model runs.

General theorems live next to their invariants (quantified over the repair flags they need):

* `election_safety`            (Election.lean)     needs `keepVote`   (repair D1)
* `log_matching`               (LogMatching.lean)  needs `keepVote`
* `apply_in_order_no_gaps`     (ApplyOrder.lean)   every variant
* `apply_from_log`             (ApplyAgree.lean)   every variant
* `submit_resolves_own_command`(SubmitRun.lean)    needs `dropPending` (repair D4), fresh futures
* `commit_monotone_partial`    (CommitMono.lean)   every variant, per step, modulo committed conflicts
* `state_machine_safety_partial` (ApplyAgree.lean) every variant, modulo `commitAgreeOk`
* `leader_completeness_partial`  (Completeness.lean) the commit rule

Here they are instantiated for the repaired code and shown non-vacuous; the witnesses for the
pinned code are in Witness.lean. -/
namespace HappyModel.C11
open Spec

/-- at most one leader per term — repaired code, all cluster sizes, all action lists -/
theorem election_safety_repaired (n : Nat) (as : List Act) : electionOk (frames Variant.repaired n as) = true :=
  election_safety Variant.repaired rfl n as

/-- non-vacuity: in a 3-node run node 0 really becomes leader of term 1 -/
example : ((frames Variant.repaired 3 [.timeout 0, .deliver 0, .deliver 2]).flatMap leaderObs) = [(1, 0)] := by decide

/-- equal (index, term) ⇒ equal prefixes — repaired code -/
theorem log_matching_repaired (n : Nat) (as : List Act) : logMatchingOk (frames Variant.repaired n as) = true :=
  log_matching Variant.repaired rfl n as

/-- a run in which logs really diverge and are repaired: leader 0 (term 1) takes c1 alone, leader 2
    (term 2) takes c2 and replicates it over 0's conflicting entry; c2 commits and is applied -/
def divergeRun : List Act :=
  [ .timeout 0, .deliver 0, .deliver 2,                       -- 0 leads term 1 (vote of 1)
    .submit 0 0 ⟨1, 0, 0, 1, none⟩,                           -- c1 at index 1 of node 0
    .timeout 2, .timeout 2, .deliver 8, .deliver 9,           -- 2 leads term 2 (vote of 1)
    .submit 2 1 ⟨2, 0, 0, 7, none⟩,                           -- c2 at index 1 of node 2
    .heartbeat 2, .deliver 12, .deliver 14 ]                  -- AppendEntries(c2) reaches node 0; its ack commits c2

example : ((frames Variant.repaired 3 divergeRun).map (fun f => f.views.map (·.log))).getLast? =
    some [[(2, 2)], [], [(2, 2)]] := by decide

/-- each node applies indices 1, 2, 3, … — repaired code (holds for every variant) -/
theorem apply_in_order_no_gaps_repaired (n : Nat) (as : List Act) : applyOrderOk (frames Variant.repaired n as) = true :=
  apply_in_order_no_gaps Variant.repaired n as

theorem apply_from_log_repaired (n : Nat) (as : List Act) : applyFromLogOk (frames Variant.repaired n as) = true :=
  apply_from_log Variant.repaired n as

/-- non-vacuity: in `divergeRun` node 2 applies command 2 at index 1 and resolves future 1 with it -/
example : (allApps (frames Variant.repaired 3 divergeRun), (frames Variant.repaired 3 divergeRun).flatMap (·.ress))
    = ([(2, 1, 2)], [(2, 1, 1)]) := by decide

/-- submit futures resolve only with their own command's index — repaired code -/
theorem submit_resolves_own_command_repaired (n : Nat) (as : List Act) (hf : FreshFutures as) :
    submitOk (frames Variant.repaired n as) = true :=
  submit_resolves_own_command Variant.repaired rfl n as hf

example : FreshFutures divergeRun := by unfold FreshFutures; decide

/-- state-machine safety for the repaired code, reduced to agreement of committed entries -/
theorem state_machine_safety_partial_repaired (n : Nat) (as : List Act)
    (hc : commitAgreeOk (frames Variant.repaired n as) = true) : applyAgreeOk (frames Variant.repaired n as) = true :=
  state_machine_safety_partial Variant.repaired n as hc

example : commitAgreeOk (frames Variant.repaired 3 divergeRun) = true := by decide

/-- the hypothesis of `commit_monotone_partial` is not vacuous: no delivery of `divergeRun` conflicts
    with a committed entry, although one of them truncates node 0's log -/
example : ¬ conflictBelowCommit (run Variant.repaired (init 3) (divergeRun.take 10)) (.deliver 12) := by
  have hm : findMsg (run Variant.repaired (init 3) (divergeRun.take 10)) 12
      = some ⟨12, 2, 0, .ae 2 2 0 0 [⟨2, ⟨2, 0, 0, 7, none⟩⟩] 0⟩ := by decide
  have hc : ((run Variant.repaired (init 3) (divergeRun.take 10)).nodes 0).commit = 0 := by decide
  simp only [conflictBelowCommit, hm]
  intro h; apply h
  intro j _ hle
  rw [hc] at hle; omega

end HappyModel.C11
