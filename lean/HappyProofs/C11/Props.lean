import HappyProofs.C11.Witness
import HappyProofs.C11.Election
import HappyProofs.C11.ApplyOrder
import HappyProofs.C11.LogMatching
import HappyProofs.C11.ApplyAgree
import HappyProofs.C11.SubmitRun
import HappyProofs.C11.Completeness
import HappyProofs.C11.Safety
import HappyProofs.C11.LeaderInit
/-! C11 — property theorems: statements about the `Spec` predicates on the frames of model runs.

General theorems live next to their invariants (quantified over the repair flags they need):

* `election_safety`            (Election.lean)     needs `keepVote`   (repair D1)
* `log_matching`               (LogMatching.lean)  needs `keepVote`
* `apply_in_order_no_gaps`     (ApplyOrder.lean)   every variant
* `apply_from_log`             (ApplyAgree.lean)   every variant
* `submit_resolves_own_command`(SubmitRun.lean)    needs `dropPending` (repair D4), fresh futures
* `match_sound`                (Safety.lean)       needs `keepVote`, `matchSent`, `staleAck` (repairs D1–D3, `Rep v`)
* `leader_completeness`        (Safety.lean)       needs `Rep v`
* `state_machine_safety`       (Safety.lean)       needs `Rep v`
* `commit_monotone`            (Safety.lean)       needs `Rep v`
* `new_leader_progress_reset`  (LeaderInit.lean)   every variant: a node that becomes leader starts with
                               `match_index = 0`, `next_index = last_index + 1` (nothing survives from an earlier leadership)
* `commit_monotone_partial`, `state_machine_safety_partial`, `leader_completeness_partial`: the earlier
  per-step / conditional forms (every variant), now lemmas of the full theorems

The proof of the last four is one invariant (`HInv`, HInv.lean) over the run extended with history
(`seen`, `llogs`, `cands`, Ghost.lean), preserved by every handler kind (HKind.lean, HStepA–D.lean);
Leader Completeness at the level of records is `lc_main` (HInv.lean).

Here they are instantiated for the repaired code and shown non-vacuous; the witnesses for the
pinned code are in Witness.lean. -/
namespace HappyModel.C11
open Spec

/-- at most one leader per term — repaired code, all cluster sizes, all action lists -/
theorem election_safety_repaired (n : Nat) (as : List Act) : electionOk (frames Variant.repaired n as) = true :=
  election_safety Variant.repaired rfl n as

/-- non-vacuity: in a 3-node run node 0 really becomes leader of term 1 -/
example : ((frames Variant.repaired 3 [.timeout 0, .deliver 0, .deliver 2]).flatMap leaderObs) = [(1, 0)] := by decide

/-- equal (index, term) ⇒ equal prefixes — repaired code -/
theorem log_matching_repaired (n : Nat) (as : List Act) : logMatchingOk (frames Variant.repaired n as) = true :=
  log_matching Variant.repaired rfl n as

/-- a run in which logs really diverge and are repaired: leader 0 (term 1) takes c1 alone, leader 2
    (term 2) takes c2 and replicates it over 0's conflicting entry; c2 commits and is applied -/
def divergeRun : List Act :=
  [ .timeout 0, .deliver 0, .deliver 2,                       -- 0 leads term 1 (vote of 1)
    .submit 0 0 ⟨1, 0, 0, 1, none⟩,                           -- c1 at index 1 of node 0
    .timeout 2, .timeout 2, .deliver 8, .deliver 9,           -- 2 leads term 2 (vote of 1)
    .submit 2 1 ⟨2, 0, 0, 7, none⟩,                           -- c2 at index 1 of node 2
    .heartbeat 2, .deliver 12, .deliver 14 ]                  -- AppendEntries(c2) reaches node 0; its ack commits c2

example : ((frames Variant.repaired 3 divergeRun).map (fun f => f.views.map (·.log))).getLast? =
    some [[(2, 2)], [], [(2, 2)]] := by decide

/-- each node applies indices 1, 2, 3, … — repaired code (holds for every variant) -/
theorem apply_in_order_no_gaps_repaired (n : Nat) (as : List Act) : applyOrderOk (frames Variant.repaired n as) = true :=
  apply_in_order_no_gaps Variant.repaired n as

theorem apply_from_log_repaired (n : Nat) (as : List Act) : applyFromLogOk (frames Variant.repaired n as) = true :=
  apply_from_log Variant.repaired n as

/-- non-vacuity: in `divergeRun` node 2 applies command 2 at index 1 and resolves future 1 with it -/
example : (allApps (frames Variant.repaired 3 divergeRun), (frames Variant.repaired 3 divergeRun).flatMap (·.ress))
    = ([(2, 1, 2)], [(2, 1, 1)]) := by decide

/-- submit futures resolve only with their own command's index — repaired code -/
theorem submit_resolves_own_command_repaired (n : Nat) (as : List Act) (hf : FreshFutures as) :
    submitOk (frames Variant.repaired n as) = true :=
  submit_resolves_own_command Variant.repaired rfl n as hf

example : FreshFutures divergeRun := by unfold FreshFutures; decide

/-! ### the safety core in full -/

/-- `match_index[j] = m ≠ 0` at a leader: node `j` held the leader's first `m` entries in the leader's term -/
theorem match_sound_repaired (n : Nat) (as : List Act) (i j : Nat)
    (hl : ((run Variant.repaired (init n) as).nodes i).role = .leader)
    (hm : ((run Variant.repaired (init n) as).nodes i).matchIndex.getD j 0 ≠ 0) :
    ((run Variant.repaired (init n) as).nodes i).matchIndex.getD j 0 ≤ ((run Variant.repaired (init n) as).nodes i).log.length ∧
    ∃ k, k ≤ as.length ∧ ((run Variant.repaired (init n) (as.take k)).nodes j).term = ((run Variant.repaired (init n) as).nodes i).term ∧
      ((run Variant.repaired (init n) as).nodes i).log.take (((run Variant.repaired (init n) as).nodes i).matchIndex.getD j 0)
        <+: ((run Variant.repaired (init n) (as.take k)).nodes j).log :=
  match_sound Variant.repaired rep_repaired n as i j hl hm

/-- non-vacuity: at the end of `divergeRun` leader 2 has `match_index[0] = 1` -/
example : ((run Variant.repaired (init 3) divergeRun).nodes 2).role = .leader
    ∧ ((run Variant.repaired (init 3) divergeRun).nodes 2).matchIndex.getD 0 0 = 1 := by decide

/-- committed entries are in the log of every later leader — repaired code -/
theorem leader_completeness_repaired (n : Nat) (as : List Act) : leaderCompleteOk (frames Variant.repaired n as) = true :=
  leader_completeness Variant.repaired rep_repaired n as

theorem leader_completeness_full_holds : leader_completeness_full := leader_completeness_repaired

/-- `divergeRun`, then node 0 (which holds the committed c2) wins term 3 with the vote of node 1 -/
def laterLeaderRun : List Act := divergeRun ++ [.timeout 0, .deliver 15, .deliver 17]

/-- non-vacuity: an entry committed in term 2 is seen, and a leader of term 3 exists afterwards (and holds it) -/
example : (((frames Variant.repaired 3 laterLeaderRun).flatMap committedOf).eraseDups,
    ((frames Variant.repaired 3 laterLeaderRun).getLast?.map leaderObs),
    ((frames Variant.repaired 3 laterLeaderRun).getLast?.map (fun f => f.views.map (·.log))))
    = ([(1, (2, 2), 2)], some [(3, 0), (2, 2)], some [[(2, 2)], [], [(2, 2)]]) := by decide

/-- no two committed entries at one index differ; no two nodes apply different commands at one index — repaired code -/
theorem state_machine_safety_repaired (n : Nat) (as : List Act) :
    commitAgreeOk (frames Variant.repaired n as) = true ∧ applyAgreeOk (frames Variant.repaired n as) = true :=
  state_machine_safety Variant.repaired rep_repaired n as

theorem state_machine_safety_full_holds : state_machine_safety_full := state_machine_safety_repaired

/-- no node's commit index ever decreases — repaired code -/
theorem commit_monotone_repaired (n : Nat) (as : List Act) : commitMonotoneOk (frames Variant.repaired n as) = true :=
  commit_monotone Variant.repaired rep_repaired n as

theorem commit_monotone_full_holds : commit_monotone_full := commit_monotone_repaired

/-- no action removes or replaces an entry at or below a node's commit index — repaired code -/
theorem committed_never_truncated_repaired (n : Nat) (as : List Act) (a : Act) (j : Nat) :
    ((run Variant.repaired (init n) as).nodes j).log.take ((run Variant.repaired (init n) as).nodes j).commit
      <+: ((step Variant.repaired (run Variant.repaired (init n) as) a).1.nodes j).log :=
  committed_never_truncated Variant.repaired rep_repaired n as a j

/-- non-vacuity: commit indices do move in `divergeRun` -/
example : ((frames Variant.repaired 3 divergeRun).getLast?.map commitsOf) = some [0, 0, 1] := by decide

/-- state-machine safety for the repaired code, reduced to agreement of committed entries -/
theorem state_machine_safety_partial_repaired (n : Nat) (as : List Act)
    (hc : commitAgreeOk (frames Variant.repaired n as) = true) : applyAgreeOk (frames Variant.repaired n as) = true :=
  state_machine_safety_partial Variant.repaired n as hc

example : commitAgreeOk (frames Variant.repaired 3 divergeRun) = true := by decide

/-- the hypothesis of `commit_monotone_partial` is not vacuous: no delivery of `divergeRun` conflicts
    with a committed entry, although one of them truncates node 0's log -/
example : ¬ conflictBelowCommit (run Variant.repaired (init 3) (divergeRun.take 10)) (.deliver 12) := by
  have hm : findMsg (run Variant.repaired (init 3) (divergeRun.take 10)) 12
      = some ⟨12, 2, 0, .ae 2 2 0 0 [⟨2, ⟨2, 0, 0, 7, none⟩⟩] 0⟩ := by decide
  have hc : ((run Variant.repaired (init 3) (divergeRun.take 10)).nodes 0).commit = 0 := by decide
  simp only [conflictBelowCommit, hm]
  intro h; apply h
  intro j _ hle
  rw [hc] at hle; omega

end HappyModel.C11
