import HappyProofs.C11.Witness
import HappyProofs.C11.Election
import HappyProofs.C11.ApplyOrder
import HappyProofs.C11.LogMatching
/-! C11 — property theorems: statements about the `Spec` predicates on the frames of model runs.
    The general theorems (`election_safety`, `log_matching`, `apply_in_order_no_gaps`) live next to
    their invariants; here they are instantiated for the repaired code and shown non-vacuous. -/
namespace HappyModel.C11
open Spec

/-- at most one leader per term — repaired code, all cluster sizes, all action lists -/
theorem election_safety_repaired (n : Nat) (as : List Act) : electionOk (frames Variant.repaired n as) = true :=
  election_safety Variant.repaired rfl n as

/-- non-vacuity: in a 3-node run node 0 really becomes leader of term 1 -/
example : ((frames Variant.repaired 3 [.timeout 0, .deliver 0, .deliver 2]).flatMap leaderObs) = [(1, 0)] := by decide

/-- equal (index, term) ⇒ equal prefixes — repaired code -/
theorem log_matching_repaired (n : Nat) (as : List Act) : logMatchingOk (frames Variant.repaired n as) = true :=
  log_matching Variant.repaired rfl n as

/-- a run in which logs really diverge and are repaired: leader 0 (term 1) takes c1 alone, leader 2
    (term 2) takes c2 and replicates it over 0's conflicting entry -/
def divergeRun : List Act :=
  [ .timeout 0, .deliver 0, .deliver 2,                       -- 0 leads term 1 (vote of 1)
    .submit 0 0 ⟨1, 0, 0, 1, none⟩,                           -- c1 at index 1 of node 0
    .timeout 2, .timeout 2, .deliver 8, .deliver 9,           -- 2 leads term 2 (vote of 1)
    .submit 2 1 ⟨2, 0, 0, 7, none⟩,                           -- c2 at index 1 of node 2
    .heartbeat 2, .deliver 12 ]                               -- AppendEntries(c2) reaches node 0

example : ((frames Variant.repaired 3 divergeRun).map (fun f => f.views.map (·.log))).getLast? =
    some [[(2, 2)], [], [(2, 2)]] := by decide

/-- each node applies indices 1, 2, 3, … — every variant -/
theorem apply_in_order_no_gaps_repaired (n : Nat) (as : List Act) : applyOrderOk (frames Variant.repaired n as) = true :=
  apply_in_order_no_gaps Variant.repaired n as

end HappyModel.C11
