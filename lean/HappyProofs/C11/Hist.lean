import HappyProofs.C11.HKind
/-! Vocabulary of the Leader Completeness proof: what a node *accepted* in a term (read off the
    history `seen`), quorum-accepted records, the logs a leader of a term can have, committed
    prefixes — all monotone in the history — and an exact description of the append loop. -/
namespace HappyModel.C11

/-- node `f`, while in term `T`, held a log starting with `K`, whose last entry is of term `T` -/
def Accepted (g : GSt) (f T : Nat) (K : List Entry) : Prop :=
  K ≠ [] ∧ lastTerm K = T ∧ ∃ L, (f, T, L) ∈ g.seen ∧ K <+: L

/-- a quorum accepted `K` in term `T` -/
def QA (g : GSt) (K : List Entry) (T : Nat) : Prop :=
  ∃ Q : List Nat, Q.Nodup ∧ (∀ f ∈ Q, f < g.s.n ∧ Accepted g f T K) ∧ quorum g.s.n ≤ Q.length

/-- `X` is a log the leader of term `t` had at some moment: its log at election, or a record of its term -/
def LeaderLog (g : GSt) (t : Nat) (X : List Entry) : Prop :=
  ∃ c L, (t, c, L) ∈ g.llogs ∧ L <+: X ∧ (X = L ∨ (X ∈ g.created ∧ lastTerm X = t))

/-- `K` is a prefix of a record that a quorum accepted in some term `≤ b` -/
def CommB (g : GSt) (K : List Entry) (b : Nat) : Prop :=
  K = [] ∨ ∃ T K', T ≤ b ∧ QA g K' T ∧ K <+: K'

/-- the history only grew -/
structure GLe (g g' : GSt) : Prop where
  n : g'.s.n = g.s.n
  seen : ∀ x ∈ g.seen, x ∈ g'.seen
  llogs : ∀ x ∈ g.llogs, x ∈ g'.llogs
  created : ∀ x ∈ g.created, x ∈ g'.created
  cands : ∀ x ∈ g.cands, x ∈ g'.cands
  voted : ∀ x ∈ g.voted, x ∈ g'.voted

theorem gle_apply (g : GSt) (i : Nat) (r : HR) (cr) : GLe g (gApply g i r cr) :=
  ⟨rfl, fun _ h => List.mem_cons_of_mem _ h, fun _ h => List.mem_append_right _ h, fun _ h => List.mem_append_right _ h,
   fun _ h => List.mem_append_right _ h, fun _ h => List.mem_append_right _ h⟩

theorem gle_idle (g : GSt) (s' : St) (hsz : s'.n = g.s.n) : GLe g { g with s := s' } :=
  ⟨hsz, fun _ h => h, fun _ h => h, fun _ h => h, fun _ h => h, fun _ h => h⟩

theorem Accepted.mono {g g' : GSt} (h : GLe g g') {f T : Nat} {K : List Entry} (a : Accepted g f T K) : Accepted g' f T K := by
  obtain ⟨h1, h2, L, h3, h4⟩ := a
  exact ⟨h1, h2, L, h.seen _ h3, h4⟩

theorem QA.mono {g g' : GSt} (h : GLe g g') {K : List Entry} {T : Nat} (q : QA g K T) : QA g' K T := by
  obtain ⟨Q, h1, h2, h3⟩ := q
  refine ⟨Q, h1, fun f hf => ⟨by rw [h.n]; exact (h2 f hf).1, (h2 f hf).2.mono h⟩, by rw [h.n]; exact h3⟩

theorem LeaderLog.mono {g g' : GSt} (h : GLe g g') {t : Nat} {X : List Entry} (l : LeaderLog g t X) : LeaderLog g' t X := by
  obtain ⟨c, L, h1, h2, h3⟩ := l
  refine ⟨c, L, h.llogs _ h1, h2, ?_⟩
  rcases h3 with h3 | ⟨h3, h4⟩
  · exact Or.inl h3
  · exact Or.inr ⟨h.created _ h3, h4⟩

theorem CommB.mono {g g' : GSt} (h : GLe g g') {K : List Entry} {b b' : Nat} (hb : b ≤ b') (c : CommB g K b) : CommB g' K b' := by
  rcases c with c | ⟨T, K', h1, h2, h3⟩
  · exact Or.inl c
  · exact Or.inr ⟨T, K', by omega, h2.mono h, h3⟩

theorem CommB.prefix {g : GSt} {K K0 : List Entry} {b : Nat} (c : CommB g K b) (hp : K0 <+: K) : CommB g K0 b := by
  rcases c with c | ⟨T, K', h1, h2, h3⟩
  · left; rw [c] at hp; exact List.prefix_nil.mp hp
  · exact Or.inr ⟨T, K', h1, h2, hp.trans h3⟩

/-! ### lists -/

theorem lastTerm_nil : lastTerm [] = 0 := rfl

theorem prefix_take_eq {α} {K L : List α} (h : K <+: L) : L.take K.length = K :=
  (List.prefix_iff_eq_take.mp h).symm

theorem take_eq_of_prefix {α} {X L : List α} (h : X <+: L) {m : Nat} (hm : m ≤ X.length) : L.take m = X.take m := by
  obtain ⟨t, rfl⟩ := h
  exact List.take_append_of_le_length hm

theorem termAt_eq_lastTerm_take {l : List Entry} {N : Nat} (h1 : 1 ≤ N) (h2 : N ≤ l.length) :
    lastTerm (l.take N) = termAt l N := by
  obtain ⟨k, rfl⟩ : ∃ k, N = k + 1 := ⟨N - 1, by omega⟩
  have hk : k < l.length := by omega
  rw [lastTerm_take hk]
  simp [termAt, getE, List.getElem?_eq_getElem hk]

/-- in recorded logs an (index, term) pair determines the prefix -/
theorem rec_det {C : List (List Entry)} (hu : Uniq C) {l1 l2 : List Entry} (h1 : Rec C l1) (h2 : Rec C l2) {k : Nat}
    (hk1 : k < l1.length) (hk2 : k < l2.length) (ht : l1[k].term = l2[k].term) : l1.take (k + 1) = l2.take (k + 1) := by
  apply hu _ (h1 k hk1) _ (h2 k hk2)
  · simp [List.length_take]; omega
  · rw [lastTerm_take hk1, lastTerm_take hk2]; exact ht

theorem rec_det_elem {C : List (List Entry)} (hu : Uniq C) {l1 l2 : List Entry} (h1 : Rec C l1) (h2 : Rec C l2) {k : Nat}
    (hk1 : k < l1.length) (hk2 : k < l2.length) (ht : l1[k].term = l2[k].term) : l1[k] = l2[k] := by
  have h := rec_det hu h1 h2 hk1 hk2 ht
  have e1 : (l1.take (k + 1))[k]? = some l1[k] := by
    rw [List.getElem?_take_of_lt (by omega), List.getElem?_eq_getElem hk1]
  have e2 : (l2.take (k + 1))[k]? = some l2[k] := by
    rw [List.getElem?_take_of_lt (by omega), List.getElem?_eq_getElem hk2]
  rw [h, e2] at e1
  exact (Option.some.inj e1).symm

theorem Rec.mem_self {C : List (List Entry)} {l : List Entry} (h : Rec C l) (hne : l ≠ []) : l ∈ C := by
  have hpos : 0 < l.length := List.length_pos_iff.mpr hne
  have := h (l.length - 1) (by omega)
  rwa [show l.length - 1 + 1 = l.length by omega, List.take_length] at this

theorem Rec.mem_prefix {C : List (List Entry)} {l K : List Entry} (h : Rec C l) (hp : K <+: l) (hne : K ≠ []) : K ∈ C := by
  have hpos : 0 < K.length := List.length_pos_iff.mpr hne
  have hle := hp.length_le
  have := h (K.length - 1) (by omega)
  rwa [show K.length - 1 + 1 = K.length by omega, prefix_take_eq hp] at this

theorem Rec.of_prefix {C : List (List Entry)} {l K : List Entry} (h : Rec C l) (hp : K <+: l) : Rec C K := by
  rw [← prefix_take_eq hp]; exact h.take _

/-! ### the append loop, exactly -/

/-- `x`'s log starts with `Q`; wherever it continues with an entry of the same term as the payload it
    continues with the same entry.  Then the loop leaves `x` alone if `Q ++ es` is already there, and
    otherwise leaves exactly `Q ++ es`. -/
theorem appendLoop_char (v : Variant) (es : List Entry) : ∀ (x : Node) (Q : List Entry),
    x.log.take Q.length = Q → Q.length ≤ x.log.length →
    (∀ j k ex, k = Q.length + j → ∀ hj : j < es.length, x.log[k]? = some ex → ex.term = es[j].term → ex = es[j]) →
    (Q ++ es <+: x.log → appendLoop v x (Q.length + 1) es = x)
    ∧ (¬ Q ++ es <+: x.log → (appendLoop v x (Q.length + 1) es).log = Q ++ es) := by
  induction es with
  | nil =>
    intro x Q hQ _ _
    refine ⟨fun _ => rfl, fun h => ?_⟩
    exfalso; apply h; rw [List.append_nil, ← hQ]; exact List.take_prefix _ _
  | cons e es ih =>
    intro x Q hQ hlen hdet
    have hlenQ : (Q ++ [e]).length = Q.length + 1 := by simp
    have happ : Q ++ e :: es = (Q ++ [e]) ++ es := by simp
    -- after a truncation or an append the log is exactly `Q ++ [e]`, and the rest is appended
    have fresh : ∀ y : Node, y.log = Q ++ [e] → (appendLoop v y (Q.length + 1 + 1) es).log = Q ++ e :: es := by
      intro y hy
      have h := ih y (Q ++ [e]) (by rw [hy, List.take_length]) (by rw [hy]; exact Nat.le_refl _)
        (by intro j k ex hk hj hget _
            exfalso
            rw [hy] at hget
            have : (Q ++ [e])[k]? = none := by apply List.getElem?_eq_none; rw [hk]; omega
            rw [this] at hget; cases hget)
      rw [hlenQ] at h
      rw [happ]
      by_cases hp : (Q ++ [e]) ++ es <+: y.log
      · have hes : es = [] := by
          have := hp.length_le
          rw [hy] at this; simp at this
          exact this
        rw [h.1 hp, hy, hes, List.append_nil]
      · exact h.2 hp
    simp only [appendLoop]
    split
    · rename_i ex hex
      obtain ⟨hk, hexk⟩ := getE_some hex
      split
      · rename_i hne
        have htr : (truncateFrom v x (Q.length + 1)).log = x.log.take Q.length := by
          unfold truncateFrom
          have : ¬ (Q.length + 1 < 1 ∨ Q.length + 1 > x.log.length) := by omega
          rw [if_neg this]; simp
        constructor
        · intro hp; exfalso
          have := hp.getElem (i := Q.length) (by simp)
          simp at this
          rw [this, hexk] at hne; exact hne rfl
        · intro _
          apply fresh
          show (truncateFrom v x (Q.length + 1)).log ++ [e] = Q ++ [e]
          rw [htr, hQ]
      · rename_i heq
        have heq' : ex.term = e.term := by
          apply Classical.byContradiction; intro h; exact heq h
        have hexe : ex = e := hdet 0 Q.length ex rfl (by simp) (by rw [List.getElem?_eq_getElem hk, hexk]) heq'
        have hpre : x.log.take (Q.length + 1) = Q ++ [e] := by
          rw [List.take_succ_eq_append_getElem hk, hQ, hexk, hexe]
        have h := ih x (Q ++ [e]) (by rw [hlenQ]; exact hpre) (by rw [hlenQ]; omega)
          (by intro j k ex' hk' hj hget ht
              rw [hlenQ] at hk'
              have := hdet (j + 1) k ex' (by omega) (by simp; omega) hget (by simpa using ht)
              simpa using this)
        rw [hlenQ] at h; rw [happ]; exact h
    · rename_i hnone
      have hle := getE_none hnone
      have hxl : x.log = Q := by
        have : x.log.length = Q.length := by omega
        rw [← hQ, ← this, List.take_length]
      constructor
      · intro hp; exfalso
        have := hp.length_le
        rw [hxl] at this; simp at this; omega
      · intro _
        apply fresh
        show x.log ++ [e] = Q ++ [e]
        rw [hxl]

end HappyModel.C11
