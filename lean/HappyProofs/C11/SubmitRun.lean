import HappyProofs.C11.SubmitStep
/-! `submitOk` on every run of the repaired model whose submits carry pairwise distinct future ids. -/
namespace HappyModel.C11
open Spec

def fidOf (z : Nat × Nat × Nat) : Nat := z.2.1

def nextSubs (S : Subs) (a : Act) : Subs :=
  match submitOf a with
  | some z => z :: S
  | none => S

theorem nextSubs_mono (S : Subs) (a : Act) : ∀ z ∈ S, z ∈ nextSubs S a := by
  intro z hz; unfold nextSubs; split
  · exact List.mem_cons_of_mem _ hz
  · exact hz

theorem nodup_map_inj {α β : Type} (f : α → β) : ∀ (l : List α), (l.map f).Nodup → ∀ a ∈ l, ∀ b ∈ l, f a = f b → a = b := by
  intro l
  induction l with
  | nil => intro _ a ha; cases ha
  | cons x xs ih =>
    intro hnd a ha b hb hab
    simp only [List.map_cons, List.nodup_cons, List.mem_map, not_exists, not_and] at hnd
    simp only [List.mem_cons] at ha hb
    rcases ha with ha | ha <;> rcases hb with hb | hb
    · rw [ha, hb]
    · exfalso; rw [ha] at hab; exact hnd.1 b hb hab.symm
    · exfalso; rw [hb] at hab; exact hnd.1 a ha hab
    · exact ih hnd.2 a ha b hb hab

/-- one step: pending futures stay truthful, and every resolution the frame shows is backed by a
    submit of that very command on that node and by an application in the same frame -/
theorem step_sub (v : Variant) (hd : v.dropPending = true) (s : St) (a : Act) (S : Subs)
    (hp : ∀ j, PendOk S j (s.nodes j)) :
    (∀ j, PendOk (nextSubs S a) j ((step v s a).1.nodes j)) ∧
    ∀ q ∈ (frameOf (step v s a).1 (step v s a).2 a).ress,
      ∃ cid, (q.1, q.2.1, cid) ∈ nextSubs S a ∧ (q.1, q.2.2, cid) ∈ (frameOf (step v s a).1 (step v s a).2 a).apps := by
  have hp' : ∀ j, PendOk (nextSubs S a) j (s.nodes j) := fun j => (hp j).mono (nextSubs_mono S a)
  have handler : ∀ (i : Nat) (r : HR) (S' : Subs), (∀ j, PendOk S' j (s.nodes j)) → S' = nextSubs S a →
      PendOk S' i r.node ∧ ResOk S' i r → step v s a = applyHR s i r →
      (∀ j, PendOk (nextSubs S a) j ((step v s a).1.nodes j)) ∧
      ∀ q ∈ (frameOf (step v s a).1 (step v s a).2 a).ress,
        ∃ cid, (q.1, q.2.1, cid) ∈ nextSubs S a ∧ (q.1, q.2.2, cid) ∈ (frameOf (step v s a).1 (step v s a).2 a).apps := by
    intro i r S' hall hS' ⟨h1, h2⟩ hs
    rw [hs, ← hS']
    constructor
    · intro j
      simp only [applyHR]
      by_cases hj : j = i
      · subst hj; simp only [upd_same]; exact h1
      · rw [upd_other _ _ _ _ hj]; exact hall j
    · intro q hq
      simp only [frameOf, applyHR, tgt, Option.getD_some, List.mem_map] at hq ⊢
      obtain ⟨p, hpm, hpq⟩ := hq
      obtain ⟨e, he1, he2⟩ := h2 p hpm
      refine ⟨e.cmd.id, ?_, ?_⟩
      · rw [← hpq]; exact he1
      · rw [← hpq]; exact ⟨_, he2, rfl⟩
  rcases step_case v s a with ⟨hn, _, _, _, _, hr⟩ | ⟨e, hcr, _, _, _, _, ht, hs⟩ | ⟨i, hcr, _, ht, hs⟩ | ⟨i, hcr, _, ht, hs⟩ | ⟨i, f, c, ha, _, _, hs⟩
  · constructor
    · intro j; rw [hn]; exact hp' j
    · intro q hq; simp [frameOf, hr] at hq
  · have hS : nextSubs S a = S := by unfold nextSubs; rw [hcr.2]
    exact handler _ _ S hp hS.symm (sub_msg v hd S s.n _ e (hp _)) hs
  · have hS : nextSubs S a = S := by unfold nextSubs; rw [hcr.2]
    exact handler _ _ S hp hS.symm (sub_timeout S i s.n _ (hp _)) hs
  · have hS : nextSubs S a = S := by unfold nextSubs; rw [hcr.2]
    exact handler _ _ S hp hS.symm (sub_hb S i s.n _ (hp _)) hs
  · subst ha
    have hS : nextSubs S (.submit i f c) = (i, f, c.id) :: S := rfl
    have hall : ∀ j, PendOk ((i, f, c.id) :: S) j (s.nodes j) :=
      fun j => (hp j).mono (fun z hz => List.mem_cons_of_mem _ hz)
    exact handler i _ ((i, f, c.id) :: S) hall hS.symm (sub_submit S i _ f c (hp i)) hs

/-- the future ids of the submits of an action list are pairwise distinct (a fresh `SimFuture` per call) -/
def FreshFutures (as : List Act) : Prop := ((as.filterMap submitOf).map fidOf).Nodup

theorem run_sub (v : Variant) (hd : v.dropPending = true) (as : List Act) :
    ∀ (s : St) (S : Subs) (A : List (Nat × Nat × Nat)), (∀ j, PendOk S j (s.nodes j)) →
      ((S.reverse ++ as.filterMap submitOf).map fidOf).Nodup →
      submitGo S A (framesFrom v s as) = true := by
  induction as with
  | nil => intro s S A _ _; simp [framesFrom, submitGo]
  | cons a as ih =>
    intro s S A hp hnd
    obtain ⟨hp', hres⟩ := step_sub v hd s a S hp
    have hsub : (frameOf (step v s a).1 (step v s a).2 a).submit = submitOf a := rfl
    have hnd' : (((nextSubs S a).reverse ++ as.filterMap submitOf).map fidOf).Nodup := by
      unfold nextSubs
      cases hso : submitOf a with
      | none => simpa [List.filterMap_cons, hso] using hnd
      | some z => simpa [List.filterMap_cons, hso, List.append_assoc] using hnd
    have huniq : ((nextSubs S a).map fidOf).Nodup := by
      have h1 : (((nextSubs S a).reverse).map fidOf).Nodup := by
        rw [List.map_append] at hnd'
        exact (List.nodup_append.mp hnd').1
      exact (((List.reverse_perm (nextSubs S a)).map fidOf).nodup_iff).mp h1
    simp only [framesFrom, submitGo, Bool.and_eq_true, List.all_eq_true]
    have hgoal : ∀ S', S' = nextSubs S a →
        (∀ q ∈ (frameOf (step v s a).1 (step v s a).2 a).ress,
          (match S'.find? (fun z => z.1 == q.1 && z.2.1 == q.2.1) with
            | some z => ((frameOf (step v s a).1 (step v s a).2 a).apps ++ A).contains (q.1, q.2.2, z.2.2)
            | none => false) = true) ∧
        submitGo S' ((frameOf (step v s a).1 (step v s a).2 a).apps ++ A) (framesFrom v (step v s a).1 as) = true := by
      intro S' hSe
      rw [hSe]
      constructor
      · intro q hq
        obtain ⟨cid, hc1, hc2⟩ := hres q hq
        cases hfind : (nextSubs S a).find? (fun z => z.1 == q.1 && z.2.1 == q.2.1) with
        | none =>
          exfalso
          have := List.find?_eq_none.mp hfind _ hc1
          simp at this
        | some z =>
          have hzm := List.mem_of_find?_eq_some hfind
          have hzp := List.find?_some hfind
          simp only [Bool.and_eq_true, beq_iff_eq] at hzp
          have : z = (q.1, q.2.1, cid) := nodup_map_inj fidOf _ huniq z hzm _ hc1 (by simp [fidOf, hzp.2])
          simp only [this]
          apply List.contains_iff_mem.mpr
          exact List.mem_append_left _ hc2
      · exact ih _ _ _ hp' hnd'
    apply hgoal
    rw [hsub]
    unfold nextSubs
    cases submitOf a <;> rfl

/-- SUBMIT RESOLVES OWN COMMAND.  Repaired truncation rule (D4), every cluster size, every action
    list whose submits carry pairwise distinct futures: whenever a future resolves with index `k`, the
    node it was submitted to has applied exactly that submit's command at index `k`. -/
theorem submit_resolves_own_command (v : Variant) (hd : v.dropPending = true) (n : Nat) (as : List Act)
    (hf : FreshFutures as) : submitOk (frames v n as) = true := by
  unfold submitOk frames
  simp only [submitGo, List.all_nil, Bool.true_and, List.nil_append]
  apply run_sub v hd as (init n) [] []
  · intro j p hp; simp [init, initNode] at hp
  · simpa [FreshFutures] using hf

end HappyModel.C11
