import HappyProofs.C11.ProgFollow
/-! The commit step: when the acknowledgements of a quorum for index `k` (an entry of the leader's
    own term) are in, `_try_advance_commit` commits at least up to `k`, `_apply_committed` hands the
    entry at `k` to the state machine and resolves the future registered for `k` — in that same step. -/
namespace HappyModel.C11
open Spec

/-! ### the commit search finds an index `≥ k` -/

theorem findCommit_ge (n : Nat) (x : Node) (me k : Nat) (hk : x.commit < k)
    (ht : termAt x.log k = x.term) (hs : (getE x.log k).isSome = true) (hq : quorum n ≤ countMatch n x me k) :
    ∀ K, k ≤ K → ∃ N, findCommit n x me K = some N ∧ k ≤ N := by
  intro K
  induction K with
  | zero => intro h; omega
  | succ K ih =>
    intro hK
    simp only [findCommit]
    rw [if_neg (by omega)]
    split
    · exact ⟨K + 1, rfl, hK⟩
    · rename_i hc
      by_cases he : k = K + 1
      · exact absurd ⟨by rw [← he]; exact ht, by rw [← he]; exact hs, by rw [← he]; exact hq⟩ hc
      · exact ih (by omega)

/-! ### `_apply_committed` reaches index `k` -/

theorem getPending_pop {p : List (Nat × Nat)} {idx k : Nat} (h : idx ≠ k) : getPending (popPending p idx) k = getPending p k := by
  unfold getPending popPending
  induction p with
  | nil => rfl
  | cons a l ih =>
    by_cases ha : a.1 = idx
    · have hak : (a.1 == k) = false := by simp; omega
      have hf : (a.1 != idx) = false := by simp [ha]
      rw [List.filter_cons_of_neg (by simp [hf]), List.find?_cons, hak]
      exact ih
    · have hf : (a.1 != idx) = true := by simp [ha]
      have hfl : List.filter (fun q : Nat × Nat => q.1 != idx) (a :: l) = a :: List.filter (fun q => q.1 != idx) l := by
        simp [List.filter_cons, hf]
      rw [hfl, List.find?_cons, List.find?_cons]
      cases hk : (a.1 == k) with
      | true => rfl
      | false => exact ih

theorem applyOne_mono (r : HR) (idx : Nat) (e : Entry) :
    (∀ a ∈ r.apps, a ∈ (applyOne r idx e).apps) ∧ (∀ a ∈ r.ress, a ∈ (applyOne r idx e).ress)
    ∧ r.node.lastApplied ≤ (applyOne r idx e).node.lastApplied := by
  unfold applyOne
  simp only []
  split
  · split
    · exact ⟨fun a h => List.mem_append_left _ h, fun a h => List.mem_append_left _ h, by simp only []; omega⟩
    · exact ⟨fun a h => List.mem_append_left _ h, fun a h => h, by simp only []; omega⟩
  · exact ⟨fun a h => h, fun a h => h, Nat.le_refl _⟩

theorem applyFrom_mono (es : List Entry) : ∀ (r : HR) (idx : Nat),
    (∀ a ∈ r.apps, a ∈ (applyFrom r idx es).apps) ∧ (∀ a ∈ r.ress, a ∈ (applyFrom r idx es).ress)
    ∧ r.node.lastApplied ≤ (applyFrom r idx es).node.lastApplied := by
  induction es with
  | nil => intro r idx; exact ⟨fun a h => h, fun a h => h, Nat.le_refl _⟩
  | cons e es ih =>
    intro r idx
    obtain ⟨a1, a2, a3⟩ := applyOne_mono r idx e
    obtain ⟨b1, b2, b3⟩ := ih (applyOne r idx e) (idx + 1)
    simp only [applyFrom]
    exact ⟨fun a h => b1 a (a1 a h), fun a h => b2 a (a2 a h), Nat.le_trans a3 b3⟩

theorem applyFrom_hits {k f : Nat} {e : Entry} (es : List Entry) : ∀ (r : HR) (idx : Nat),
    idx ≤ r.node.lastApplied + 1 → r.node.lastApplied < k → idx ≤ k → es[k - idx]? = some e →
    getPending r.node.pending k = some f →
    ∃ res, (k, e.cmd, res) ∈ (applyFrom r idx es).apps ∧ (f, k, res) ∈ (applyFrom r idx es).ress
      ∧ k ≤ (applyFrom r idx es).node.lastApplied := by
  induction es with
  | nil => intro r idx _ _ _ h; simp at h
  | cons e0 es ih =>
    intro r idx h1 h2 h3 h4 h5
    simp only [applyFrom]
    by_cases hk : idx = k
    · subst hk
      simp only [Nat.sub_self, List.getElem?_cons_zero, Option.some.injEq] at h4
      subst h4
      obtain ⟨b1, b2, b3⟩ := applyFrom_mono es (applyOne r idx e0) (idx + 1)
      have hone : (idx, e0.cmd, (kvApply r.node.kv e0.cmd).2) ∈ (applyOne r idx e0).apps
          ∧ (f, idx, (kvApply r.node.kv e0.cmd).2) ∈ (applyOne r idx e0).ress ∧ idx ≤ (applyOne r idx e0).node.lastApplied := by
        unfold applyOne
        simp only []
        rw [if_pos h2, h5]
        simp
      exact ⟨_, b1 _ hone.1, b2 _ hone.2.1, Nat.le_trans hone.2.2 b3⟩
    · obtain ⟨a1, _, _⟩ := applyOne_la r idx e0 h1
      have hp : getPending (applyOne r idx e0).node.pending k = some f := by
        unfold applyOne
        simp only []
        split
        · split
          · simp only []; rw [getPending_pop hk]; exact h5
          · simp only []; rw [getPending_pop hk]; exact h5
        · exact h5
      have h4' : es[k - (idx + 1)]? = some e := by
        have : k - idx = (k - (idx + 1)) + 1 := by omega
        rw [this, List.getElem?_cons_succ] at h4; exact h4
      exact ih (applyOne r idx e0) (idx + 1) (by rw [a1]; omega) (by rw [a1]; omega) (by omega) h4' hp

/-- `advance_commit(N)` with `N ≥ k`, `k` not applied yet: the entry at `k` is applied and its future resolved -/
theorem advance_hits (x : Node) (N k f : Nat) (e : Entry) (hcl : x.commit ≤ x.lastApplied) (hla : x.lastApplied < k)
    (hkN : k ≤ N) (hN : N ≤ x.log.length) (he : getE x.log k = some e) (hp : getPending x.pending k = some f) :
    ∃ res, (k, e.cmd, res) ∈ (advanceCommit { node := x } N).apps ∧ (f, k, res) ∈ (advanceCommit { node := x } N).ress
      ∧ k ≤ (advanceCommit { node := x } N).node.lastApplied ∧ k ≤ (advanceCommit { node := x } N).node.commit := by
  unfold advanceCommit
  simp only []
  rw [if_neg (by omega)]
  have hk1 : 1 ≤ k := by
    unfold getE at he; split at he
    · cases he
    · omega
  have hmin : min N x.log.length = N := by omega
  rw [hmin]
  have hget : ((x.log.take N).drop x.commit)[k - (x.commit + 1)]? = some e := by
    rw [List.getElem?_drop, List.getElem?_take_of_lt (by omega)]
    have : x.commit + (k - (x.commit + 1)) = k - 1 := by omega
    rw [this]
    unfold getE at he; rw [if_neg (by omega)] at he; exact he
  obtain ⟨res, r1, r2, r3⟩ := applyFrom_hits ((x.log.take N).drop x.commit) { node := { x with commit := N } } (x.commit + 1)
    (by show x.commit + 1 ≤ x.lastApplied + 1; omega) hla (by omega) hget hp
  refine ⟨res, r1, r2, r3, ?_⟩
  rw [applyFrom_commit]; exact hkN

/-! ### counting the quorum -/

theorem nodup_subset_length {l1 l2 : List Nat} (h1 : l1.Nodup) (hs : ∀ x ∈ l1, x ∈ l2) : l1.length ≤ l2.length := by
  induction l1 generalizing l2 with
  | nil => simp
  | cons a l ih =>
    have ha : a ∈ l2 := hs a (by simp)
    have hnd := List.nodup_cons.mp h1
    have := ih hnd.2 (l2 := l2.erase a) (by
      intro x hx
      have hne : x ≠ a := fun h => hnd.1 (h ▸ hx)
      exact (List.mem_erase_of_ne hne).mpr (hs x (List.mem_cons_of_mem _ hx)))
    rw [List.length_erase_of_mem ha] at this
    have hpos : 0 < l2.length := List.length_pos_of_mem ha
    simp only [List.length_cons]; omega

theorem mem_peers_of {n me j : Nat} (h1 : j < n) (h2 : j ≠ me) : j ∈ peers n me := by
  unfold peers
  exact List.mem_filter.mpr ⟨List.mem_range.mpr h1, by simpa using h2⟩

/-- the peers of `Q` (distinct, none of them `me`) all have `match_index ≥ k`: with `me` that is `|Q| + 1` nodes -/
theorem countMatch_ge (n : Nat) (x : Node) (me k : Nat) (Q : List Nat) (hnd : Q.Nodup)
    (hQ : ∀ p ∈ Q, p < n ∧ p ≠ me ∧ k ≤ x.matchIndex.getD p 0) : Q.length + 1 ≤ countMatch n x me k := by
  unfold countMatch
  have := nodup_subset_length hnd (l2 := (peers n me).filter (fun j => decide (x.matchIndex.getD j 0 ≥ k))) (by
    intro p hp
    obtain ⟨h1, h2, h3⟩ := hQ p hp
    exact List.mem_filter.mpr ⟨mem_peers_of h1 h2, by simpa using h3⟩)
  omega

/-- THE COMMIT STEP.  A leader whose entry at `k` is of its own term and not yet applied takes an
    acknowledgement that completes a quorum for `k`: the step applies the entry and resolves its future. -/
theorem ack_commits (n : Nat) (x : Node) (me f' m k f : Nat) (e : Entry)
    (hcl : x.commit ≤ x.lastApplied) (hla : x.lastApplied < k)
    (he : getE x.log k = some e) (het : e.term = x.term) (hp : getPending x.pending k = some f)
    (hq : quorum n ≤ countMatch n (ackNode x f' m) me k) :
    ∃ res, (k, e.cmd, res) ∈ (tryAdvance n (ackNode x f' m) me).apps ∧ (f, k, res) ∈ (tryAdvance n (ackNode x f' m) me).ress
      ∧ k ≤ (tryAdvance n (ackNode x f' m) me).node.lastApplied ∧ k ≤ (tryAdvance n (ackNode x f' m) me).node.commit := by
  have hklen : k ≤ x.log.length := by
    unfold getE at he; split at he
    · cases he
    · have := (List.getElem?_eq_some_iff.mp he).1; omega
  obtain ⟨N, hN, hkN⟩ := findCommit_ge n (ackNode x f' m) me k (by show x.commit < k; omega)
    (by show termAt x.log k = x.term; unfold termAt; rw [he]; exact het) (by show (getE x.log k).isSome = true; rw [he]; rfl) hq
    (ackNode x f' m).log.length hklen
  have hNle := (findCommit_spec n (ackNode x f' m) me _ N hN).1
  unfold tryAdvance
  rw [hN]
  exact advance_hits (ackNode x f' m) N k f e hcl hla hkN hNle he hp

end HappyModel.C11
