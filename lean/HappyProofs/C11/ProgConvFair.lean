import HappyProofs.C11.ProgBackoff
/-! The fairness predicate `convRun` can always be met, and within a bounded number of deliveries:
    from every reachable state with an established leader `L`, a live follower `p` of a term `≤ t`
    and an AppendEntries of `L`'s term in flight to `p` that reaches index `k`, the schedule
    `convActs` — deliver that message, deliver the reply, deliver the retry, … (nothing else) —
    of at most `2 · (next_index[p] + 2)` deliveries carries the conversation through to a successful
    acknowledgement (`conv_exists`).  This is the finiteness of the log back-off as a statement
    about runs: each refusal lowers `next_index[p]`, and `prev_log_index = 0` is never refused. -/
namespace HappyModel.C11
open Spec

/-- the conversation and nothing else: deliver the AppendEntries `aid`, the reply, and — while `L` answers with a retry — go on -/
def convActs (v : Variant) : Nat → St → Nat → List Act
  | 0, _, _ => []
  | fuel + 1, s, aid =>
    .deliver aid :: .deliver s.nextId ::
      (if (step v (step v s (.deliver aid)).1 (.deliver s.nextId)).1.nextId = (step v s (.deliver aid)).1.nextId then []
       else convActs v fuel (step v (step v s (.deliver aid)).1 (.deliver s.nextId)).1 (step v s (.deliver aid)).1.nextId)

theorem convActs_length (v : Variant) : ∀ (fuel : Nat) (s : St) (aid : Nat), (convActs v fuel s aid).length ≤ 2 * fuel := by
  intro fuel
  induction fuel with
  | zero => intro s aid; simp [convActs]
  | succ fuel ih =>
    intro s aid
    simp only [convActs, List.length_cons]
    split
    · simp; omega
    · have := ih (step v (step v s (.deliver aid)).1 (.deliver s.nextId)).1 (step v s (.deliver aid)).1.nextId
      omega

theorem cvRun_done (v : Variant) (L t k p : Nat) : ∀ (as : List Act) (s : St), cvRun v L t k p .done s as = .done := by
  intro as
  induction as with
  | nil => intro s; rfl
  | cons a as ih => intro s; simp only [cvRun]; rw [show cvStep s L t k p .done a = .done by cases a <;> rfl]; exact ih _

/-- the follower's half of a round -/
theorem follower_round (v : Variant) (hr : Rep v) {s : St} {t p aid : Nat} {e : Env} {l pi pt lc : Nat} {es : List Entry}
    (hpt : (s.nodes p).term ≤ t) (hf : findMsg s aid = some e) (hc : canDeliver s e = true) (hdst : e.dst = p)
    (hb : e.body = .ae t l pi pt es lc) :
    ∃ r : HR, step v s (.deliver aid) = applyHR s p r ∧ r.node.term = t ∧
      ((aeBad (stepDown v (s.nodes p) t) pi pt = true ∧ r.sends = [(e.src, .ar t false p 0)])
       ∨ (aeBad (stepDown v (s.nodes p) t) pi pt = false ∧ r.sends = [(e.src, .ar t true p (pi + es.length))])) := by
  have hstep := step_deliver (v := v) hf hc
  rw [hdst] at hstep
  have hh : handleMsg v s.n (s.nodes p) e = handleAE v (s.nodes p) p e.src t pi pt es lc := by
    unfold handleMsg; simp only [hb, hdst]
  rw [hh] at hstep
  refine ⟨_, hstep, handleAE_term v _ _ _ _ _ _ _ _ hpt, ?_⟩
  unfold handleAE
  rw [if_neg (by omega)]
  cases hbad : aeBad (stepDown v (s.nodes p) t) pi pt with
  | true => left; simp
  | false =>
    right
    have hterm : (aeCommit (appendLoop v (stepDown v (s.nodes p) t) (pi + 1) es) lc).node.term = t := by
      have : (aeCommit (appendLoop v (stepDown v (s.nodes p) t) (pi + 1) es) lc).node.ev = (stepDown v (s.nodes p) t).ev := by
        rw [aeCommit_ev, appendLoop_ev]
      exact (ev_eq this).1
    simp [aeAccept, hr.ms, hterm]

/-- what both halves of a round need to know about a state -/
structure CvSt (g : GSt) (L t k p : Nat) : Prop where
  inv : PInv g
  est : Est g.s L t
  pn : p < g.s.n
  pne : p ≠ L
  pt : (g.s.nodes p).term ≤ t
  ap : alive g.s p = true
  aL : alive g.s L = true
  kl : k ≤ (g.s.nodes L).log.length

theorem nackNode_prev_le (x : Node) (p : Nat) : aePrev (nackNode x p) p ≤ aePrev x p - 1 := by
  by_cases hp : p < x.nextIndex.length
  · rw [nackNode_prev x p hp]; exact Nat.le_refl _
  · have h1 : (nackNode x p).nextIndex.getD p 1 = 1 := by
      rw [List.getD_eq_getElem?_getD, List.getElem?_eq_none (by rw [nackNode_len]; omega)]; rfl
    unfold aePrev; rw [h1]; omega

theorem findMsg_head (s : St) (e : Env) (rest : List Env) (hm : s.msgs = e :: rest) : findMsg s e.id = some e := by
  unfold findMsg; rw [hm]; simp

theorem alive_applyHR {s : St} {i j : Nat} {r : HR} (h : alive s j = true) : alive (applyHR s i r).1 j = true := h

/-- FINITENESS OF THE BACK-OFF, ON RUNS.  The conversation-only schedule reaches a successful acknowledgement:
    with `fuel ≥ next_index[p]` rounds when the AppendEntries in flight is the one `L` would build now, `+ 1` otherwise. -/
theorem conv_rounds (v : Variant) (hr : Rep v) {L t k p : Nat} : ∀ (fuel : Nat) (g : GSt) (c : Cv) (aid : Nat) (e : Env)
    (l pi pt lc : Nat) (es : List Entry), CvSt g L t k p → (c = .idle ∨ c = .waitAE aid) →
    findMsg g.s aid = some e → e = ⟨aid, L, p, .ae t l pi pt es lc⟩ → k ≤ pi + es.length →
    ((pi = aePrev (g.s.nodes L) p ∧ aePrev (g.s.nodes L) p + 1 ≤ fuel) ∨ aePrev (g.s.nodes L) p + 2 ≤ fuel) →
    cvRun v L t k p c g.s (convActs v fuel g.s aid) = .done := by
  intro fuel
  induction fuel with
  | zero => intro g c aid e l pi pt lc es _ _ _ _ _ hm; rcases hm with ⟨_, h⟩ | h <;> omega
  | succ fuel ih =>
    intro g c aid e l pi pt lc es S hc hf he hk hm
    have hsrc : e.src = L := by rw [he]
    have hdst : e.dst = p := by rw [he]
    have hb : e.body = .ae t l pi pt es lc := by rw [he]
    have hcd : canDeliver g.s e = true := by
      simp only [canDeliver, Bool.and_eq_true, decide_eq_true_eq]
      rw [hsrc, hdst]; exact ⟨⟨S.ap, S.est.lt⟩, fun h => S.pne h.symm⟩
    -- first half: p handles the AppendEntries
    obtain ⟨r1, hs1, hterm1, hcase⟩ := follower_round v hr S.pt hf hcd hdst hb
    have hreach : reaches t k e.body = true := by rw [hb]; simp [reaches, hk]
    have hcv1 : cvStep g.s L t k p c (.deliver aid) = .waitAR g.s.nextId := by
      rcases hc with hc | hc
      · rw [hc]; simp [cvStep, hf, hcd, hsrc, hdst, hreach]
      · rw [hc]; simp [cvStep, hf, hcd]
    generalize hs1def : (step v g.s (.deliver aid)).1 = s1 at *
    have hs1' : s1 = (applyHR g.s p r1).1 := by rw [← hs1def, hs1]
    have inv1 : PInv (gstep v g (.deliver aid)) := pinv_step v hr g S.inv _
    have hg1 : (gstep v g (.deliver aid)).s = s1 := by rw [gstep_s, hs1def]
    have hL1 : s1.nodes L = g.s.nodes L := by rw [hs1']; simp only [applyHR]; exact upd_other _ _ _ _ (fun h => S.pne h.symm)
    have hp1 : s1.nodes p = r1.node := by rw [hs1']; simp only [applyHR, upd_same]
    have est1 : Est s1 L t := ⟨by rw [hs1']; exact S.est.lt, by rw [hL1]; exact S.est.role, by rw [hL1]; exact S.est.term⟩
    -- the reply is the newest message
    obtain ⟨b, hbm, hbcase⟩ : ∃ b, s1.msgs = ⟨g.s.nextId, p, L, b⟩ :: g.s.msgs ∧
        ((aeBad (stepDown v (g.s.nodes p) t) pi pt = true ∧ b = .ar t false p 0)
         ∨ (aeBad (stepDown v (g.s.nodes p) t) pi pt = false ∧ b = .ar t true p (pi + es.length))) := by
      rcases hcase with ⟨hbad, hsend⟩ | ⟨hbad, hsend⟩
      · exact ⟨_, by rw [hs1']; simp [applyHR, hsend, mkEnvs, hsrc], Or.inl ⟨hbad, rfl⟩⟩
      · exact ⟨_, by rw [hs1']; simp [applyHR, hsend, mkEnvs, hsrc], Or.inr ⟨hbad, rfl⟩⟩
    have hf2 : findMsg s1 g.s.nextId = some ⟨g.s.nextId, p, L, b⟩ := findMsg_head s1 ⟨g.s.nextId, p, L, b⟩ _ hbm
    have hcd2 : canDeliver s1 ⟨g.s.nextId, p, L, b⟩ = true := by
      simp only [canDeliver, Bool.and_eq_true, decide_eq_true_eq]
      refine ⟨⟨by rw [hs1']; exact S.aL, by rw [hs1']; exact S.pn⟩, S.pne⟩
    simp only [convActs, cvRun, hcv1]
    rw [hs1def]
    rcases hbcase with ⟨hbad, hbb⟩ | ⟨_, hbb⟩
    · -- refused: L retries
      subst hbb
      have hs2 := nack_deliver v hr est1 hf2 hcd2 rfl rfl (by rw [hs1']; exact S.pn) S.pne
      have hcv2 : cvStep s1 L t k p (.waitAR g.s.nextId) (.deliver g.s.nextId) = .waitAE s1.nextId := by
        simp [cvStep, hf2, hcd2, isAck]
      rw [hcv2]
      generalize hs2def : (step v s1 (.deliver g.s.nextId)).1 = s2 at *
      have hs2' : s2 = (applyHR s1 L { node := nackNode (s1.nodes L) p, sends := [(p, aeFor (nackNode (s1.nodes L) p) L p)] }).1 := by
        rw [← hs2def, hs2]
      have hne : ¬ s2.nextId = s1.nextId := by rw [hs2']; simp [applyHR]
      rw [if_neg hne]
      have hL2 : s2.nodes L = nackNode (g.s.nodes L) p := by rw [hs2']; simp only [applyHR, upd_same]; rw [hL1]
      have hp2 : s2.nodes p = r1.node := by
        rw [hs2']; simp only [applyHR]; rw [upd_other _ _ _ _ S.pne]; exact hp1
      have hm2 : s2.msgs = ⟨s1.nextId, L, p, aeFor (nackNode (g.s.nodes L) p) L p⟩ :: s1.msgs := by
        rw [hs2']; simp [applyHR, mkEnvs, hL1]
      have hpi : pi ≠ 0 := by intro h0; rw [h0, prev0_not_refused] at hbad; cases hbad
      have S2 : CvSt (gstep v (gstep v g (.deliver aid)) (.deliver g.s.nextId)) L t k p := by
        have hgs : (gstep v (gstep v g (.deliver aid)) (.deliver g.s.nextId)).s = s2 := by rw [gstep_s, hg1, hs2def]
        refine ⟨pinv_step v hr _ inv1 _, ?_, ?_, S.pne, ?_, ?_, ?_, ?_⟩
        · rw [hgs]; exact ⟨by rw [hs2', hs1']; exact S.est.lt, by rw [hL2]; exact S.est.role, by rw [hL2]; exact S.est.term⟩
        · rw [hgs, hs2', hs1']; exact S.pn
        · rw [hgs, hp2, hterm1]; exact Nat.le_refl _
        · rw [hgs, hs2', hs1']; exact S.ap
        · rw [hgs, hs2', hs1']; exact S.aL
        · rw [hgs, hL2]; exact S.kl
      have hgs : (gstep v (gstep v g (.deliver aid)) (.deliver g.s.nextId)).s = s2 := by rw [gstep_s, hg1, hs2def]
      have := ih (gstep v (gstep v g (.deliver aid)) (.deliver g.s.nextId)) (.waitAE s1.nextId) s1.nextId
        ⟨s1.nextId, L, p, aeFor (nackNode (g.s.nodes L) p) L p⟩ L (aePrev (nackNode (g.s.nodes L) p) p) (aePt (nackNode (g.s.nodes L) p) p)
        (nackNode (g.s.nodes L) p).commit ((nackNode (g.s.nodes L) p).log.drop (aePrev (nackNode (g.s.nodes L) p) p))
        S2 (Or.inr rfl)
        (by rw [hgs]; exact findMsg_head s2 ⟨s1.nextId, L, p, aeFor (nackNode (g.s.nodes L) p) L p⟩ _ hm2)
        (by rw [aeFor_prev]; have : (nackNode (g.s.nodes L) p).term = t := S.est.term; rw [this])
        (by rw [List.length_drop]; have : (nackNode (g.s.nodes L) p).log.length = (g.s.nodes L).log.length := rfl
            have := S.kl; omega)
        (by rw [hgs, hL2]
            left
            refine ⟨rfl, ?_⟩
            have hle := nackNode_prev_le (g.s.nodes L) p
            rcases hm with ⟨h1, h2⟩ | h2
            · omega
            · omega)
      rw [hgs] at this
      exact this
    · -- accepted: the acknowledgement ends the conversation
      subst hbb
      have hs2 := ack_deliver v est1 hf2 hcd2 rfl rfl
      have hcv2 : cvStep s1 L t k p (.waitAR g.s.nextId) (.deliver g.s.nextId) = .done := by
        simp [cvStep, hf2, hcd2, isAck]
      rw [hcv2]
      exact cvRun_done v L t k p _ _

/-- `convRun` CAN BE MET.  From a reachable state with leader `L` of term `t`, a live follower `p` (term `≤ t`) and an AppendEntries
    of term `t` from `L` to `p` in flight that reaches `k`: the conversation-only schedule of `next_index[p] + 2` rounds
    (at most `2 · (next_index[p] + 2)` deliveries) satisfies `convRun`. -/
theorem conv_exists (v : Variant) (hr : Rep v) (n : Nat) (pre : List Act) (L t k p aid : Nat) (e : Env) (l pi pt lc : Nat) (es : List Entry)
    (hest : established (run v (init n) pre) L t = true) (hpn : p < n) (hpne : p ≠ L)
    (hpt : ((run v (init n) pre).nodes p).term ≤ t) (hap : alive (run v (init n) pre) p = true) (haL : alive (run v (init n) pre) L = true)
    (hkl : k ≤ ((run v (init n) pre).nodes L).log.length)
    (hf : findMsg (run v (init n) pre) aid = some e) (he : e = ⟨aid, L, p, .ae t l pi pt es lc⟩) (hk : k ≤ pi + es.length) :
    convRun v L t k p (run v (init n) pre) (convActs v (((run v (init n) pre).nodes L).nextIndex.getD p 1 + 2) (run v (init n) pre) aid) = true
    ∧ (convActs v (((run v (init n) pre).nodes L).nextIndex.getD p 1 + 2) (run v (init n) pre) aid).length
        ≤ 2 * (((run v (init n) pre).nodes L).nextIndex.getD p 1 + 2) := by
  refine ⟨?_, convActs_length v _ _ _⟩
  have inv0 := pinv_reach v hr n pre
  have hs0 : (grun v (ginit n) pre).s = run v (init n) pre := grun_s v pre (ginit n)
  have hn0 : (run v (init n) pre).n = n := by rw [run_n]; rfl
  have S : CvSt (grun v (ginit n) pre) L t k p := by
    refine ⟨inv0, by rw [hs0]; exact established_iff.mp hest, by rw [hs0, hn0]; exact hpn, hpne, by rw [hs0]; exact hpt,
      by rw [hs0]; exact hap, by rw [hs0]; exact haL, by rw [hs0]; exact hkl⟩
  have := conv_rounds v hr (((run v (init n) pre).nodes L).nextIndex.getD p 1 + 2) (grun v (ginit n) pre) .idle aid e l pi pt lc es S
    (Or.inl rfl) (by rw [hs0]; exact hf) he hk (by rw [hs0]; right; unfold aePrev; omega)
  rw [hs0] at this
  unfold convRun
  exact decide_eq_true this

end HappyModel.C11
