import HappyProofs.C11.SubmitInv
/-! `PendOk`/`ResOk` for every handler, and `submitOk` for every run with fresh future ids. -/
namespace HappyModel.C11
open Spec

theorem subOk_same {S : Subs} {i : Nat} {x : Node} {r : HR} (hp : PendOk S i x)
    (hl : r.node.log = x.log) (hpn : r.node.pending = x.pending) (hr : r.ress = []) :
    PendOk S i r.node ∧ ResOk S i r := by
  constructor
  · intro p hp'; rw [hpn] at hp'; rw [hl]; exact hp p hp'
  · intro q hq; rw [hr] at hq; cases hq

theorem aeCommit_sub (S : Subs) (i : Nat) (x : Node) (lc : Nat) (hp : PendOk S i x) :
    PendOk S i (aeCommit x lc).node ∧ ResOk S i (aeCommit x lc) := by
  unfold aeCommit; split
  · exact advance_sub S i x _ hp
  · exact ⟨hp, by intro q hq; cases hq⟩

theorem sub_ae (v : Variant) (hd : v.dropPending = true) (S : Subs) (i : Nat) (x : Node) (src t pi pt : Nat)
    (es : List Entry) (lc : Nat) (hp : PendOk S i x) :
    PendOk S i (handleAE v x i src t pi pt es lc).node ∧ ResOk S i (handleAE v x i src t pi pt es lc) := by
  unfold handleAE
  split
  · exact subOk_same hp rfl rfl rfl
  · split
    · exact subOk_same hp rfl rfl rfl
    · have h1 : PendOk S i (stepDown v x t) := hp
      have h2 := appendLoop_sub v hd S i es (stepDown v x t) (pi + 1) h1
      exact aeCommit_sub S i _ lc h2

theorem tryAdvance_sub (S : Subs) (i n : Nat) (x : Node) (hp : PendOk S i x) :
    PendOk S i (tryAdvance n x i).node ∧ ResOk S i (tryAdvance n x i) := by
  unfold tryAdvance; split
  · exact advance_sub S i x _ hp
  · exact ⟨hp, by intro q hq; cases hq⟩

theorem sub_ar (v : Variant) (S : Subs) (i n : Nat) (x : Node) (t : Nat) (s : Bool) (f mi : Nat) (hp : PendOk S i x) :
    PendOk S i (handleAR v n x i t s f mi).node ∧ ResOk S i (handleAR v n x i t s f mi) := by
  unfold handleAR
  split
  · exact subOk_same hp rfl rfl rfl
  · split
    · exact subOk_same hp rfl rfl rfl
    · split
      · exact subOk_same hp rfl rfl rfl
      · split
        · exact tryAdvance_sub S i n _ hp
        · split <;> exact subOk_same hp rfl rfl rfl

theorem sub_msg (v : Variant) (hd : v.dropPending = true) (S : Subs) (n : Nat) (x : Node) (e : Env) (hp : PendOk S e.dst x) :
    PendOk S e.dst (handleMsg v n x e).node ∧ ResOk S e.dst (handleMsg v n x e) := by
  unfold handleMsg
  split
  · unfold handleRV rvCore; split <;> split <;> exact subOk_same hp rfl rfl rfl
  · unfold handleVR; split
    · exact subOk_same hp rfl rfl rfl
    · split
      · exact subOk_same hp rfl rfl rfl
      · unfold vrCount; split <;> exact subOk_same hp rfl rfl rfl
  · exact sub_ae v hd S e.dst x _ _ _ _ _ _ hp
  · exact sub_ar v S e.dst n x _ _ _ _ hp

theorem sub_timeout (S : Subs) (i n : Nat) (x : Node) (hp : PendOk S i x) :
    PendOk S i (handleTimeout n x i).node ∧ ResOk S i (handleTimeout n x i) := by
  unfold handleTimeout; split
  · exact subOk_same hp rfl rfl rfl
  · split <;> exact subOk_same hp rfl rfl rfl

theorem sub_hb (S : Subs) (i n : Nat) (x : Node) (hp : PendOk S i x) :
    PendOk S i (handleHB n x i).node ∧ ResOk S i (handleHB n x i) := by
  unfold handleHB; split <;> exact subOk_same hp rfl rfl rfl

theorem PendOk.mono {S S' : Subs} {i : Nat} {x : Node} (h : PendOk S i x) (hs : ∀ z ∈ S, z ∈ S') : PendOk S' i x := by
  intro p hp
  obtain ⟨e, he, hm⟩ := h p hp
  exact ⟨e, he, hs _ hm⟩

theorem sub_submit (S : Subs) (i : Nat) (x : Node) (f : Nat) (c : Cmd) (hp : PendOk S i x) :
    PendOk ((i, f, c.id) :: S) i (handleSubmit x f c).node ∧ ResOk ((i, f, c.id) :: S) i (handleSubmit x f c) := by
  have hp' : PendOk ((i, f, c.id) :: S) i x := hp.mono (fun z hz => List.mem_cons_of_mem _ hz)
  unfold handleSubmit
  split
  · exact subOk_same hp' rfl rfl rfl
  · refine ⟨?_, by intro q hq; cases hq⟩
    intro p hpm
    simp only [setPending, List.mem_append, List.mem_singleton] at hpm
    rcases hpm with h | h
    · obtain ⟨e, he, hm⟩ := hp' p (mem_popPending h)
      exact ⟨e, getE_append_left _ he, hm⟩
    · rw [h]
      refine ⟨⟨x.term, c⟩, ?_, by simp⟩
      show getE (x.log ++ [⟨x.term, c⟩]) (x.log.length + 1) = _
      rw [getE_succ]; simp

end HappyModel.C11
