import HappyProofs.C11.ElectInv
/-! Every handler respects the vote ledger (`VoteOk`), provided `_step_down` keeps the vote
    within a term (`v.keepVote`, repair D1). -/
namespace HappyModel.C11

theorem aeFor_isAE (x : Node) (me p : Nat) : ∃ t l pi pt es lc, aeFor x me p = .ae t l pi pt es lc := by
  unfold aeFor; exact ⟨_, _, _, _, _, _, rfl⟩

theorem mem_sendAEs {n : Nat} {x : Node} {me d : Nat} {b : Body} (h : (d, b) ∈ sendAEs n x me) :
    ∃ t l pi pt es lc, b = .ae t l pi pt es lc := by
  unfold sendAEs at h
  obtain ⟨p, _, hp⟩ := List.mem_map.mp h
  simp only [Prod.mk.injEq] at hp
  obtain ⟨t, l, pi, pt, es, lc, hae⟩ := aeFor_isAE x me p
  exact ⟨t, l, pi, pt, es, lc, by rw [← hp.2, hae]⟩

theorem becomeLeader_ev (n : Nat) (x : Node) (me : Nat) (pre) :
    (becomeLeader n x me pre).node.term = x.term ∧ (becomeLeader n x me pre).node.votedFor = x.votedFor
    ∧ (becomeLeader n x me pre).node.role = .leader ∧ (becomeLeader n x me pre).node.votes = x.votes := by
  simp [becomeLeader, leaderInit]

theorem mem_becomeLeader_sends {n : Nat} {x : Node} {me : Nat} {pre : List (Nat × Body)} {d : Nat} {b : Body}
    (h : (d, b) ∈ (becomeLeader n x me pre).sends) : (d, b) ∈ pre ∨ ∃ t l pi pt es lc, b = .ae t l pi pt es lc := by
  simp only [becomeLeader, List.mem_append] at h
  rcases h with h | h
  · exact Or.inl h
  · exact Or.inr (mem_sendAEs h)

theorem stepDown_ev (v : Variant) (hk : v.keepVote = true) (x : Node) (t : Nat) (ht : x.term ≤ t) :
    (stepDown v x t).term = t ∧ (stepDown v x t).role = .follower ∧ (stepDown v x t).votes = x.votes
    ∧ (t = x.term → (stepDown v x t).votedFor = x.votedFor) := by
  refine ⟨rfl, rfl, rfl, ?_⟩
  intro h
  simp only [stepDown, hk, Bool.true_and]
  have : ¬ t > x.term := by omega
  simp [this]

/-- a handler result whose election view is that of a node stepped down to `t ≥ term` -/
theorem voteOk_of_stepDown {g : GSt} (inv : EInv g) {i : Nat} {r : HR} (v : Variant) (hk : v.keepVote = true) (t : Nat)
    (ht : (g.s.nodes i).term ≤ t) (hev : r.node.ev = (stepDown v (g.s.nodes i) t).ev)
    (hs : ∀ d b, (d, b) ∈ r.sends → (∃ t s f mi, b = .ar t s f mi) ∨ ∃ t l pi pt es lc, b = .ae t l pi pt es lc) :
    VoteOk g i r := by
  obtain ⟨e1, e2, e3, e4⟩ := ev_eq hev
  obtain ⟨s1, s2, s3, s4⟩ := stepDown_ev v hk (g.s.nodes i) t ht
  refine ⟨by omega, ?_, ?_, ?_, Or.inl (by rw [e3, s2]), by rw [e4, s3]; exact inv.c2 i⟩
  · intro heq c hc
    rw [e2, s4 (by omega)]; exact hc
  · intro d t' f hm
    rcases hs _ _ hm with ⟨_, _, _, _, h⟩ | ⟨_, _, _, _, _, _, h⟩ <;> cases h
  · intro d t' c a b hm
    rcases hs _ _ hm with ⟨_, _, _, _, h⟩ | ⟨_, _, _, _, _, _, h⟩ <;> cases h

/-- a handler result whose election view is unchanged -/
theorem voteOk_of_same {g : GSt} (inv : EInv g) {i : Nat} {r : HR} (hev : r.node.ev = (g.s.nodes i).ev)
    (hs : ∀ d b, (d, b) ∈ r.sends → (∃ t s f mi, b = .ar t s f mi) ∨ ∃ t l pi pt es lc, b = .ae t l pi pt es lc) :
    VoteOk g i r := by
  obtain ⟨e1, e2, e3, e4⟩ := ev_eq hev
  refine ⟨by omega, ?_, ?_, ?_, Or.inr (Or.inl ⟨e3, e4, e1⟩), by rw [e4]; exact inv.c2 i⟩
  · intro _ c hc; rw [e2]; exact hc
  · intro d t' f hm
    rcases hs _ _ hm with ⟨_, _, _, _, h⟩ | ⟨_, _, _, _, _, _, h⟩ <;> cases h
  · intro d t' c a b hm
    rcases hs _ _ hm with ⟨_, _, _, _, h⟩ | ⟨_, _, _, _, _, _, h⟩ <;> cases h

theorem voteOk_hb {g : GSt} (inv : EInv g) (i : Nat) : VoteOk g i (handleHB g.s.n (g.s.nodes i) i) := by
  apply voteOk_of_same inv
  · unfold handleHB; split <;> rfl
  · intro d b h
    unfold handleHB at h; split at h
    · simp at h
    · exact Or.inr (mem_sendAEs h)

theorem voteOk_submit {g : GSt} (inv : EInv g) (i f : Nat) (c : Cmd) : VoteOk g i (handleSubmit (g.s.nodes i) f c) := by
  apply voteOk_of_same inv
  · unfold handleSubmit; split <;> rfl
  · intro d b h
    unfold handleSubmit at h; split at h <;> simp at h

@[simp] theorem aeCommit_ev (x : Node) (lc : Nat) : (aeCommit x lc).node.ev = x.ev := by
  unfold aeCommit; split
  · rw [advanceCommit_ev]
  · rfl

@[simp] theorem aeAccept_ev (v : Variant) (x : Node) (me src pi : Nat) (es : List Entry) (lc : Nat) :
    (aeAccept v x me src pi es lc).node.ev = x.ev := by
  simp only [aeAccept, aeCommit_ev, appendLoop_ev]

theorem aeAccept_sends (v : Variant) (x : Node) (me src pi : Nat) (es : List Entry) (lc : Nat) :
    ∃ t mi, (aeAccept v x me src pi es lc).sends = [(src, .ar t true me mi)] := ⟨_, _, rfl⟩

theorem voteOk_ae {g : GSt} (inv : EInv g) (v : Variant) (hk : v.keepVote = true) (i src t pi pt : Nat)
    (es : List Entry) (lc : Nat) : VoteOk g i (handleAE v (g.s.nodes i) i src t pi pt es lc) := by
  unfold handleAE
  split
  · apply voteOk_of_same inv rfl
    intro d b h
    simp only [List.mem_singleton, Prod.mk.injEq] at h
    exact Or.inl ⟨_, _, _, _, h.2⟩
  · split
    · apply voteOk_of_stepDown inv v hk t (by omega) rfl
      intro d b h
      simp only [List.mem_singleton, Prod.mk.injEq] at h
      exact Or.inl ⟨_, _, _, _, h.2⟩
    · apply voteOk_of_stepDown inv v hk t (by omega) (aeAccept_ev ..)
      intro d b h
      obtain ⟨t', mi, hs⟩ := aeAccept_sends v (stepDown v (g.s.nodes i) t) i src pi es lc
      rw [hs] at h
      simp only [List.mem_singleton, Prod.mk.injEq] at h
      exact Or.inl ⟨_, _, _, _, h.2⟩

theorem voteOk_ar {g : GSt} (inv : EInv g) (v : Variant) (hk : v.keepVote = true) (i t : Nat) (s : Bool) (f mi : Nat) :
    VoteOk g i (handleAR v g.s.n (g.s.nodes i) i t s f mi) := by
  unfold handleAR
  split
  · apply voteOk_of_stepDown inv v hk t (by omega) rfl
    intro d b h; simp at h
  · split
    · exact voteOk_of_same inv rfl (by intro d b h; simp at h)
    · split
      · exact voteOk_of_same inv rfl (by intro d b h; simp at h)
      · split
        · apply voteOk_of_same inv
          · rw [tryAdvance_ev]; rfl
          · intro d b h; rw [tryAdvance_sends] at h; simp at h
        · split
          · apply voteOk_of_same inv rfl
            intro d b h
            simp only [List.mem_singleton, Prod.mk.injEq] at h
            obtain ⟨t, l, pi, pt, es, lc, hae⟩ := aeFor_isAE
              { g.s.nodes i with nextIndex := (g.s.nodes i).nextIndex.set f (max 1 ((g.s.nodes i).nextIndex.getD f 1 - 1)) } i f
            exact Or.inr ⟨t, l, pi, pt, es, lc, by rw [h.2, hae]⟩
          · exact voteOk_of_same inv rfl (by intro d b h; simp at h)

end HappyModel.C11
