import HappyProofs.C11.ProgStep
/-! A follower in sync with a stable leader stays in sync (`sync_step`): its log only ever changes
    to a longer prefix of the leader's log, the leader's `next_index` for it never overshoots, and
    every AppendEntries / acknowledgement exchanged between them refers to a prefix it holds. -/
namespace HappyModel.C11
open Spec

theorem mem_sendAEs_dst {n : Nat} {x : Node} {me d : Nat} {b : Body} (h : (d, b) ∈ sendAEs n x me) : b = aeFor x me d := by
  unfold sendAEs at h
  obtain ⟨p, _, hp⟩ := List.mem_map.mp h
  simp only [Prod.mk.injEq] at hp
  rw [← hp.1, ← hp.2]

theorem step_post (v : Variant) (g : GSt) (a : Act) : (step v g.s a).1 = (gstep v g a).s := (gstep_s v g a).symm

/-- the follower's term and log after a step -/
theorem fstep_log (v : Variant) (hr : Rep v) (g : GSt) (inv : PInv g) (a : Act) {L t p : Nat} (hest : Est g.s L t)
    (hpne : p ≠ L) (hpt : (g.s.nodes p).term = t) (hle : ((step v g.s a).1.nodes p).term ≤ t) :
    ((step v g.s a).1.nodes p).term = t ∧
    (((step v g.s a).1.nodes p).log = (g.s.nodes p).log
      ∨ ∃ X, LeaderLog g t X ∧ ((step v g.s a).1.nodes p).log = X ∧ ¬ X <+: (g.s.nodes p).log) := by
  rcases gstep_case v hr g inv.all a with ⟨hn, _, _, _⟩ | ⟨i, inp, r, cr, _, hs, c⟩
  · rw [hn]; exact ⟨hpt, Or.inl rfl⟩
  · rw [hs] at hle ⊢
    simp only [applyHR] at hle ⊢
    by_cases hi : p = i
    · subst hi
      rw [upd_same] at hle ⊢
      have hterm : r.node.term = t := by have := c.term_le; omega
      refine ⟨hterm, ?_⟩
      rcases c.log_cases with h | ⟨k, _, hl, _⟩ | ⟨X, hX, h1, h2⟩
      · exact Or.inl h
      · exfalso
        have h1 := inv.all.ei.l0 p hl
        have h2 := inv.all.ei.l0 L hest.role
        rw [hpt] at h1; rw [hest.term] at h2
        exact hpne (leaders_unique inv.all.ei h1 h2)
      · exact Or.inr ⟨X, by rw [← hterm]; exact hX, h1, h2⟩
    · rw [upd_other _ _ _ _ hi]; exact ⟨hpt, Or.inl rfl⟩

/-- agreement with the leader's first `k` entries survives a step -/
theorem agree_step (v : Variant) (hr : Rep v) (g : GSt) (inv : PInv g) (a : Act) {L t p : Nat} (hest : Est g.s L t)
    (hpne : p ≠ L) (hpt : (g.s.nodes p).term = t)
    (hleL : ((step v g.s a).1.nodes L).term ≤ t) (hleP : ((step v g.s a).1.nodes p).term ≤ t) {k : Nat}
    (h : Agree (g.s.nodes L).log (g.s.nodes p).log k) :
    Agree ((step v g.s a).1.nodes L).log ((step v g.s a).1.nodes p).log k := by
  have hp := lpost_of_lstep inv.all.hi.n_cl (lstep v hr g inv a hest hleL)
  obtain ⟨_, hlog⟩ := fstep_log v hr g inv a hest hpne hpt hleP
  rcases hlog with h1 | ⟨X, hX, h1, h2⟩
  · rw [h1]; exact h.left hp.log
  · rw [h1]
    have hXL : X <+: (g.s.nodes L).log := leaderLog_prefix inv.all hest.role (by rw [hest.term]; exact hX)
    exact (h.replace hXL h2).left hp.log

/-- a new successful acknowledgement from `p` names a prefix of the leader's log that `p` holds -/
theorem new_ar_sync (v : Variant) (hr : Rep v) (g : GSt) (inv : PInv g) (a : Act) {L t p : Nat} (hest : Est g.s L t)
    (hpne : p ≠ L) {e : Env} (he : e ∈ (step v g.s a).1.msgs) (hnew : e ∉ g.s.msgs) {m : Nat} (hb : e.body = .ar t true p m) :
    Agree ((step v g.s a).1.nodes L).log ((step v g.s a).1.nodes p).log m := by
  rcases gstep_case v hr g inv.all a with ⟨_, hm, _, _⟩ | ⟨i, inp, r, cr, hg, hs, c⟩
  · exact absurd (hm e he) hnew
  · have hpost : (step v g.s a).1 = (gApply g i r cr).s := by rw [step_post, hg]
    rw [hpost] at he ⊢
    rcases gApply_msgs he with h0 | ⟨_, hsend⟩
    · exact absurd h0 hnew
    · rw [hb] at hsend
      obtain ⟨hf, _, X, hX, hm, hpre⟩ := c.ar_sent hsend
      subst hf
      rw [c.node_self, c.node_other (fun h => hpne h.symm)]
      have hXL : X <+: (g.s.nodes L).log := leaderLog_prefix inv.all hest.role (by rw [hest.term]; exact hX)
      refine ⟨by rw [hm]; exact hXL.length_le, ?_⟩
      rw [hm, prefix_take_eq hXL]; exact hpre

/-- a new AppendEntries of term `t` comes from `L` and is built from its `next_index` -/
theorem new_ae_sync (v : Variant) (hr : Rep v) (g : GSt) (inv : PInv g) (a : Act) {L t : Nat} (hest : Est g.s L t)
    (hleL : ((step v g.s a).1.nodes L).term ≤ t)
    {e : Env} (he : e ∈ (step v g.s a).1.msgs) (hnew : e ∉ g.s.msgs) {l pi pt lc : Nat} {es : List Entry}
    (hb : e.body = .ae t l pi pt es lc) :
    e.src = L ∧ e.body = aeFor ((step v g.s a).1.nodes L) L e.dst := by
  have inv' := pinv_step v hr g inv a
  have hest' := est_step v hr g inv a hest hleL
  rw [step_post] at hest' he
  have hsrc : e.src = L := by
    have h1 := inv'.src e he t l pi pt es lc hb
    have h2 := inv'.all.ei.l0 L hest'.role
    rw [hest'.term] at h2
    exact leaders_unique inv'.all.ei h1 h2
  refine ⟨hsrc, ?_⟩
  rw [← step_post] at he
  have fromL : ∀ r, step v g.s a = applyHR g.s L r → (e.dst, e.body) ∈ r.sends := by
    intro r hs
    rw [hs] at he
    rcases applyHR_msgs he with h | h
    · exact absurd h hnew
    · exact (mem_mkEnvs h).2
  have nodeL : ∀ r, step v g.s a = applyHR g.s L r → (step v g.s a).1.nodes L = r.node := by
    intro r hs; rw [hs]; simp only [applyHR, upd_same]
  rcases lstep v hr g inv a hest hleL with ⟨_, hs, _⟩ | ⟨r, hs, h⟩ | hs | ⟨f, c, _, hs⟩ | ⟨_, e', _, _, _, _, _, f, m, _, hs⟩ | ⟨e', _, _, f, m, _, r, hs, hn, snd, _, _⟩
  · rcases hs e he with h | h
    · exact absurd h hnew
    · exact absurd hsrc h
  · exfalso
    rcases h.snd _ _ (fromL _ hs) with ⟨_, _, _, h'⟩ | ⟨_, _, _, h'⟩ <;> rw [hb] at h' <;> cases h'
  · rw [nodeL _ hs]
    exact mem_sendAEs_dst (fromL _ hs)
  · have := fromL _ hs; simp at this
  · have := fromL _ hs
    rw [tryAdvance_sends] at this; cases this
  · rw [nodeL _ hs, hn]
    have := fromL _ hs
    rcases snd with snd | snd
    · rw [snd] at this
      simp only [List.mem_singleton, Prod.mk.injEq] at this
      rw [this.2, this.1]
    · rw [snd] at this; cases this

/-- what `next_index[p]` is after the step -/
theorem nx_step (v : Variant) (hr : Rep v) (g : GSt) (inv : PInv g) (a : Act) {L t p : Nat} (hest : Est g.s L t)
    (hleL : ((step v g.s a).1.nodes L).term ≤ t) :
    ((step v g.s a).1.nodes L).nextIndex.getD p 1 - 1 ≤ (g.s.nodes L).nextIndex.getD p 1 - 1
    ∨ ∃ e ∈ g.s.msgs, ∃ m, e.body = .ar t true p m ∧ ((step v g.s a).1.nodes L).nextIndex.getD p 1 - 1 = m := by
  have nodeL : ∀ r, step v g.s a = applyHR g.s L r → (step v g.s a).1.nodes L = r.node := by
    intro r hs; rw [hs]; simp only [applyHR, upd_same]
  have getD_set : ∀ (l : List Nat) (f m' : Nat), (l.set f m').getD p 1 = if p = f ∧ f < l.length then m' else l.getD p 1 := by
    intro l f m'
    simp only [List.getD_eq_getElem?_getD, List.getElem?_set]
    by_cases h : f = p
    · subst h
      by_cases h2 : f < l.length
      · simp [h2]
      · have : l[f]? = none := List.getElem?_eq_none (by omega)
        simp [h2, this]
    · have : ¬ p = f := fun e => h e.symm
      simp [h, this]
  rcases lstep v hr g inv a hest hleL with ⟨hn, _, _⟩ | ⟨r, hs, h⟩ | hs | ⟨f, c, _, hs⟩ | ⟨_, e', _, _, _, he', _, f, m, hb, hs⟩ | ⟨e', _, _, f, m, _, r, hs, hn, _, _, _⟩
  · rw [hn]; exact Or.inl (Nat.le_refl _)
  · rw [nodeL _ hs, (lsame_node h).2.2.2.2.1]; exact Or.inl (Nat.le_refl _)
  · rw [nodeL _ hs]; exact Or.inl (Nat.le_refl _)
  · rw [nodeL _ hs]; exact Or.inl (Nat.le_refl _)
  · have hni : ((step v g.s a).1.nodes L).nextIndex = (g.s.nodes L).nextIndex.set f (m + 1) := by
      rw [nodeL _ hs, tryAdvance_ni]; rfl
    rw [hni, getD_set]
    split
    · rename_i hc
      right
      rw [hest.term, ← hc.1] at hb
      exact ⟨e', he', m, hb, by omega⟩
    · exact Or.inl (Nat.le_refl _)
  · have hni : ((step v g.s a).1.nodes L).nextIndex
        = (g.s.nodes L).nextIndex.set f (max 1 ((g.s.nodes L).nextIndex.getD f 1 - 1)) := by
      rw [nodeL _ hs, hn]; rfl
    rw [hni, getD_set]
    left
    split
    · rename_i hc; rw [← hc.1]; omega
    · exact Nat.le_refl _

/-- SYNC IS KEPT.  Under a stable leader a follower in sync stays in sync across any step. -/
theorem sync_step (v : Variant) (hr : Rep v) (g : GSt) (inv : PInv g) (a : Act) {L t p : Nat} (hest : Est g.s L t)
    (hs : Sync g.s L t p)
    (hleL : ((step v g.s a).1.nodes L).term ≤ t) (hleP : ((step v g.s a).1.nodes p).term ≤ t) :
    Sync (step v g.s a).1 L t p := by
  have keep : ∀ {k : Nat}, Agree (g.s.nodes L).log (g.s.nodes p).log k →
      Agree ((step v g.s a).1.nodes L).log ((step v g.s a).1.nodes p).log k :=
    fun h => agree_step v hr g inv a hest hs.pne hs.pterm hleL hleP h
  have hp := lpost_of_lstep inv.all.hi.n_cl (lstep v hr g inv a hest hleL)
  have hnx : Agree ((step v g.s a).1.nodes L).log ((step v g.s a).1.nodes p).log
      (((step v g.s a).1.nodes L).nextIndex.getD p 1 - 1) := by
    rcases nx_step v hr g inv a (p := p) hest hleL with h | ⟨e, he, m, hb, hm⟩
    · exact (keep hs.nx).le h
    · rw [hm]; exact keep (hs.ar e he m hb)
  refine ⟨by rw [step_n]; exact hs.pn, hs.pne, (fstep_log v hr g inv a hest hs.pne hs.pterm hleP).1, hnx, ?_, ?_⟩
  · intro e he hd l pi pt es lc hb
    by_cases hold : e ∈ g.s.msgs
    · obtain ⟨h1, h2⟩ := hs.ae e hold hd l pi pt es lc hb
      refine ⟨keep h1, ?_⟩
      rw [h2]
      by_cases hpi : pi > 0
      · simp only [hpi, if_true]
        unfold termAt
        have : getE ((step v g.s a).1.nodes L).log pi = getE (g.s.nodes L).log pi := by
          unfold getE
          rw [if_neg (by omega), if_neg (by omega)]
          obtain ⟨t', ht'⟩ := hp.log
          rw [← ht', List.getElem?_append_left (by have := h1.1; omega)]
        rw [this]
      · simp [hpi]
    · obtain ⟨_, hbody⟩ := new_ae_sync v hr g inv a hest hleL he hold hb
      rw [hd, hb] at hbody
      unfold aeFor at hbody
      simp only [Body.ae.injEq] at hbody
      obtain ⟨_, _, e3, e4, _, _⟩ := hbody
      rw [e3]
      exact ⟨hnx, by rw [e4, ← e3]⟩
  · intro e he m hb
    by_cases hold : e ∈ g.s.msgs
    · exact keep (hs.ar e hold m hb)
    · exact new_ar_sync v hr g inv a hest hs.pne he hold hb

end HappyModel.C11
