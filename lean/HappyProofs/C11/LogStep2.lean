import HappyProofs.C11.LogStep
/-! `LogOk` for every handler; `LInv` along every run; Log Matching in the form the Spec judges. -/
namespace HappyModel.C11
open Spec

theorem sendAEs_ok {C : List (List Entry)} {n : Nat} {x : Node} (hr : Rec C x.log) {me d : Nat} {t l pi pt lc : Nat} {es : List Entry}
    (h : (d, Body.ae t l pi pt es lc) ∈ sendAEs n x me) : AEok C pi pt es := by
  unfold sendAEs at h
  obtain ⟨p, _, hp⟩ := List.mem_map.mp h
  simp only [Prod.mk.injEq] at hp
  exact aeFor_ok hr me p hp.2

/-- a result that leaves log, role and term alone and sends AppendEntries built from the node's own log -/
theorem logOk_same {g : GSt} (linv : LInv g) {i : Nat} {r : HR} (hl : r.node.log = (g.s.nodes i).log)
    (hrole : r.node.role = .leader → (g.s.nodes i).role = .leader ∧ r.node.term = (g.s.nodes i).term)
    (hs : ∀ d t l pi pt es lc, (d, Body.ae t l pi pt es lc) ∈ r.sends → AEok g.created pi pt es) :
    LogOk g i r [] :=
  ⟨Or.inl ⟨hl, rfl⟩, fun h => Or.inl (hrole h), by simpa using hs⟩

theorem logOk_rv {g : GSt} (linv : LInv g) (v : Variant) (i src t c li lt : Nat) :
    LogOk g i (handleRV v (g.s.nodes i) i src t c li lt) [] := by
  unfold handleRV rvCore
  split
  · rename_i hgt
    split
    · exact logOk_same linv rfl (by intro h; cases h) (by intro d t' l pi pt es lc h; simp at h)
    · exact logOk_same linv rfl (by intro h; cases h) (by intro d t' l pi pt es lc h; simp at h)
  · rename_i hgt
    split
    · rename_i hg
      simp only [rvGrant, Bool.and_eq_true, decide_eq_true_eq] at hg
      exact logOk_same linv rfl (by intro h; exact ⟨h, by show t = _; omega⟩) (by intro d t' l pi pt es lc h; simp at h)
    · exact logOk_same linv rfl (by intro h; exact ⟨h, rfl⟩) (by intro d t' l pi pt es lc h; simp at h)

theorem becomeLeader_sends_ok {C : List (List Entry)} {n : Nat} {x : Node} (hr : Rec C x.log) {me : Nat}
    {pre : List (Nat × Body)} (hpre : ∀ d t l pi pt es lc, (d, Body.ae t l pi pt es lc) ∉ pre)
    {d t l pi pt lc : Nat} {es : List Entry} (h : (d, Body.ae t l pi pt es lc) ∈ (becomeLeader n x me pre).sends) :
    AEok C pi pt es := by
  simp only [becomeLeader, List.mem_append] at h
  rcases h with h | h
  · exact absurd h (hpre _ _ _ _ _ _ _)
  · exact sendAEs_ok (x := leaderInit n x) (by exact hr) h

theorem logOk_vr {g : GSt} (linv : LInv g) (v : Variant) (i t : Nat) (gr : Bool) (f : Nat) :
    LogOk g i (handleVR v g.s.n (g.s.nodes i) i t gr f) [] := by
  unfold handleVR
  split
  · exact logOk_same linv rfl (by intro h; cases h) (by intro d t' l pi pt es lc h; simp at h)
  · split
    · exact logOk_same linv rfl (by intro h; exact ⟨h, rfl⟩) (by intro d t' l pi pt es lc h; simp at h)
    · rename_i hnt hc
      have hc' : (g.s.nodes i).role = .candidate := by
        apply Classical.byContradiction; intro h; exact hc (Or.inl h)
      unfold vrCount
      split
      · refine ⟨Or.inl ⟨rfl, rfl⟩, ?_, ?_⟩
        · intro _; exact Or.inr ⟨by rw [hc']; decide, Or.inr ⟨rfl, hc'⟩⟩
        · intro d t' l pi pt es lc h
          simp only [List.nil_append]
          exact becomeLeader_sends_ok (x := addVote (g.s.nodes i) gr f) (linv.b i) (by intro _ _ _ _ _ _ _ h; cases h) h
      · exact logOk_same linv rfl (by intro h; rw [show (addVote (g.s.nodes i) gr f).role = (g.s.nodes i).role from rfl, hc'] at h; cases h)
          (by intro d t' l pi pt es lc h; simp at h)

theorem logOk_timeout {g : GSt} (linv : LInv g) (i : Nat) : LogOk g i (handleTimeout g.s.n (g.s.nodes i) i) [] := by
  unfold handleTimeout
  split
  · exact logOk_same linv rfl (by intro h; exact ⟨h, rfl⟩) (by intro d t' l pi pt es lc h; simp at h)
  · rename_i hnl
    split
    · refine ⟨Or.inl ⟨rfl, rfl⟩, ?_, ?_⟩
      · intro _; exact Or.inr ⟨hnl, Or.inl (by show (g.s.nodes i).term < (g.s.nodes i).term + 1; omega)⟩
      · intro d t' l pi pt es lc h
        simp only [List.nil_append]
        refine becomeLeader_sends_ok (x := startElection (g.s.nodes i) i) (linv.b i) ?_ h
        intro d t l pi pt es lc hm
        have := mem_rvsFor hm; cases this
    · exact logOk_same linv rfl (by intro h; cases h)
        (by intro d t' l pi pt es lc h; have := mem_rvsFor h; cases this)

theorem logOk_hb {g : GSt} (linv : LInv g) (i : Nat) : LogOk g i (handleHB g.s.n (g.s.nodes i) i) [] := by
  unfold handleHB
  split
  · exact logOk_same linv rfl (by intro h; exact ⟨h, rfl⟩) (by intro d t' l pi pt es lc h; simp at h)
  · exact logOk_same linv rfl (by intro h; exact ⟨h, rfl⟩) (by intro d t' l pi pt es lc h; exact sendAEs_ok (linv.b i) h)

theorem tryAdvance_role (n : Nat) (x : Node) (me : Nat) : (tryAdvance n x me).node.role = x.role :=
  (ev_eq (tryAdvance_ev n x me)).2.2.1

theorem tryAdvance_term (n : Nat) (x : Node) (me : Nat) : (tryAdvance n x me).node.term = x.term :=
  (ev_eq (tryAdvance_ev n x me)).1

theorem logOk_ar {g : GSt} (linv : LInv g) (v : Variant) (i t : Nat) (s : Bool) (f mi : Nat) :
    LogOk g i (handleAR v g.s.n (g.s.nodes i) i t s f mi) [] := by
  unfold handleAR
  split
  · exact logOk_same linv rfl (by intro h; cases h) (by intro d t' l pi pt es lc h; simp at h)
  · split
    · exact logOk_same linv rfl (by intro h; exact ⟨h, rfl⟩) (by intro d t' l pi pt es lc h; simp at h)
    · split
      · exact logOk_same linv rfl (by intro h; exact ⟨h, rfl⟩) (by intro d t' l pi pt es lc h; simp at h)
      · split
        · apply logOk_same linv
          · rw [tryAdvance_log]
          · intro h
            rw [tryAdvance_role] at h
            exact ⟨h, by rw [tryAdvance_term]⟩
          · intro d t' l pi pt es lc h; rw [tryAdvance_sends] at h; cases h
        · split
          · apply logOk_same linv rfl (by intro h; exact ⟨h, rfl⟩)
            intro d t' l pi pt es lc h
            simp only [List.mem_singleton, Prod.mk.injEq] at h
            exact aeFor_ok (x := { g.s.nodes i with nextIndex := (g.s.nodes i).nextIndex.set f (max 1 ((g.s.nodes i).nextIndex.getD f 1 - 1)) })
              (linv.b i) i f h.2.symm
          · exact logOk_same linv rfl (by intro h; exact ⟨h, rfl⟩) (by intro d t' l pi pt es lc h; simp at h)

theorem logOk_ae {g : GSt} (linv : LInv g) (v : Variant) (i src t pi pt : Nat) (es : List Entry) (lc : Nat)
    (hok : AEok g.created pi pt es) : LogOk g i (handleAE v (g.s.nodes i) i src t pi pt es lc) [] := by
  unfold handleAE
  split
  · exact logOk_same linv rfl (by intro h; exact ⟨h, rfl⟩) (by intro d t' l pi' pt' es' lc' h; simp at h)
  · split
    · exact logOk_same linv rfl (by intro h; cases h) (by intro d t' l pi' pt' es' lc' h; simp at h)
    · rename_i hbad
      have hbad' : aeBad (stepDown v (g.s.nodes i) t) pi pt = false := by simpa using hbad
      have hrole : (aeAccept v (stepDown v (g.s.nodes i) t) i src pi es lc).node.role = .follower :=
        (ev_eq (aeAccept_ev v (stepDown v (g.s.nodes i) t) i src pi es lc)).2.2.1
      refine ⟨Or.inr (Or.inr ⟨by rw [hrole]; decide, ?_, rfl⟩), (by intro h; rw [hrole] at h; cases h), ?_⟩
      · exact aeAccept_rec v linv.g1 (x := stepDown v (g.s.nodes i) t) (linv.b i) hok hbad' i src lc
      · intro d t' l pi' pt' es' lc' h
        obtain ⟨t2, mi, hs⟩ := aeAccept_sends v (stepDown v (g.s.nodes i) t) i src pi es lc
        rw [hs] at h; simp at h

theorem logOk_msg {g : GSt} (linv : LInv g) (v : Variant) (e : Env) (he : e ∈ g.s.msgs) :
    LogOk g e.dst (handleMsg v g.s.n (g.s.nodes e.dst) e) [] := by
  unfold handleMsg
  split
  · exact logOk_rv linv v ..
  · exact logOk_vr linv v ..
  · rename_i t l pi pt es lc hb
    exact logOk_ae linv v _ _ _ _ _ _ _ (linv.m e he t l pi pt es lc hb)
  · exact logOk_ar linv v ..

theorem logOk_submit {g : GSt} (linv : LInv g) (i f : Nat) (c : Cmd) (hi : i < g.s.n) :
    LogOk g i (handleSubmit (g.s.nodes i) f c) (createdDiff g.s (.submit i f c)) := by
  unfold handleSubmit
  simp only [createdDiff]
  split
  · rename_i hnl
    have : ¬ (i < g.s.n ∧ (g.s.nodes i).role = .leader) := fun h => hnl h.2
    rw [if_neg this]
    exact logOk_same linv rfl (by intro h; exact ⟨h, rfl⟩) (by intro d t' l pi pt es lc h; simp at h)
  · rename_i hl
    have hl' : (g.s.nodes i).role = .leader := by
      apply Classical.byContradiction; intro h; exact hl h
    rw [if_pos ⟨hi, hl'⟩]
    refine ⟨Or.inr (Or.inl ⟨c, rfl, hl', hl', rfl, rfl⟩), fun _ => Or.inl ⟨hl', rfl⟩, ?_⟩
    intro d t' l pi pt es lc h; simp at h

theorem linv_idle {g : GSt} (linv : LInv g) (s' : St) (hn : s'.nodes = g.s.nodes) (hm : ∀ e ∈ s'.msgs, e ∈ g.s.msgs) :
    LInv { g with s := s' } := by
  refine ⟨linv.g0, linv.g1, ?_, linv.g3, ?_, ?_⟩
  · intro i h; simp only [hn] at h ⊢; exact linv.g2 i h
  · intro i; simp only [hn]; exact linv.b i
  · intro e he; exact linv.m e (hm e he)

theorem linv_step (v : Variant) (hk : v.keepVote = true) (g : GSt) (einv : EInv g) (linv : LInv g) (a : Act) :
    LInv (gstep v g a) := by
  have einv' := einv_step v hk g einv a
  rcases step_case v g.s a with ⟨hn, hm, _, ht, _, _⟩ | ⟨e, hcr, he, _, _, _, ht, hs⟩ | ⟨i, hcr, _, ht, hs⟩ | ⟨i, hcr, _, ht, hs⟩ | ⟨i, f, c, ha, hi, ht, hs⟩
  · rw [gstep_idle ht]; exact linv_idle linv _ hn hm
  · rw [gstep_handler ht hs] at einv' ⊢; rw [hcr.1] at einv' ⊢
    exact linv_handler einv einv' linv (logOk_msg linv v e he)
  · rw [gstep_handler ht hs] at einv' ⊢; rw [hcr.1] at einv' ⊢
    exact linv_handler einv einv' linv (logOk_timeout linv i)
  · rw [gstep_handler ht hs] at einv' ⊢; rw [hcr.1] at einv' ⊢
    exact linv_handler einv einv' linv (logOk_hb linv i)
  · rw [gstep_handler ht hs] at einv' ⊢; rw [ha] at einv' ⊢
    exact linv_handler einv einv' linv (logOk_submit linv i f c hi)

theorem inv_run (v : Variant) (hk : v.keepVote = true) (as : List Act) :
    ∀ g, EInv g → LInv g → EInv (grun v g as) ∧ LInv (grun v g as) := by
  induction as with
  | nil => intro g h1 h2; exact ⟨h1, h2⟩
  | cons a as ih => intro g h1 h2; exact ih _ (einv_step v hk g h1 a) (linv_step v hk g h1 h2 a)

end HappyModel.C11
