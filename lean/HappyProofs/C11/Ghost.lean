import HappyProofs.C11.Basic
import HappyProofs.C11.Quorum
/-! Proof state: the executable state plus history the code does not keep.

`voted`   every (voter, term, candidate) for which a node's `voted_for` was ever seen set
`leaders` every (term, node) at the moment a node became leader
`created` every log a leader had right after it appended a client command
`seen`    every (node, term, log) a node was left in by a handler
`llogs`   every (term, node, log) at the moment a node became leader
`cands`   every (term, node, log) at the moment a node started an election

`(gstep v g a).s = (step v g.s a).1` by definition, so statements about `GSt` runs are
statements about what the driver executes. -/
namespace HappyModel.C11

structure GSt where
  s : St
  voted : List (Nat × Nat × Nat) := []
  leaders : List (Nat × Nat) := []
  created : List (List Entry) := []
  seen : List (Nat × Nat × List Entry) := []
  llogs : List (Nat × Nat × List Entry) := []
  cands : List (Nat × Nat × List Entry) := []

def voteDiff (x' : Node) (i : Nat) : List (Nat × Nat × Nat) :=
  match x'.votedFor with
  | some c => [(i, x'.term, c)]
  | none => []

def leadDiff (x x' : Node) (i : Nat) : List (Nat × Nat) :=
  if x'.role = .leader ∧ x.role ≠ .leader then [(x'.term, i)] else []

def llogDiff (x x' : Node) (i : Nat) : List (Nat × Nat × List Entry) :=
  if x'.role = .leader ∧ x.role ≠ .leader then [(x'.term, i, x'.log)] else []

/-- only `_start_election` raises the term without stepping down -/
def candDiff (x x' : Node) (i : Nat) : List (Nat × Nat × List Entry) :=
  if x.term < x'.term ∧ x'.role ≠ .follower then [(x'.term, i, x'.log)] else []

def createdDiff (s : St) : Act → List (List Entry)
  | .submit i _ c => if i < s.n ∧ (s.nodes i).role = .leader then [(s.nodes i).log ++ [⟨(s.nodes i).term, c⟩]] else []
  | _ => []

/-- the node an action is aimed at, when it reaches a handler -/
def actTarget (s : St) : Act → Option Nat
  | .deliver m =>
    match findMsg s m with
    | some e => if canDeliver s e then some e.dst else none
    | none => none
  | .timeout i => if alive s i then some i else none
  | .heartbeat i => if alive s i then some i else none
  | .submit i _ _ => if decide (i < s.n) then some i else none
  | _ => none

def gstep (v : Variant) (g : GSt) (a : Act) : GSt :=
  let s' := (step v g.s a).1
  match actTarget g.s a with
  | some i =>
    { s := s',
      voted := voteDiff (s'.nodes i) i ++ g.voted,
      leaders := leadDiff (g.s.nodes i) (s'.nodes i) i ++ g.leaders,
      created := createdDiff g.s a ++ g.created,
      seen := (i, (s'.nodes i).term, (s'.nodes i).log) :: g.seen,
      llogs := llogDiff (g.s.nodes i) (s'.nodes i) i ++ g.llogs,
      cands := candDiff (g.s.nodes i) (s'.nodes i) i ++ g.cands }
  | none => { g with s := s' }

def grun (v : Variant) (g : GSt) : List Act → GSt
  | [] => g
  | a :: as => grun v (gstep v g a) as

def ginit (n : Nat) : GSt := { s := init n }

@[simp] theorem gstep_s (v : Variant) (g : GSt) (a : Act) : (gstep v g a).s = (step v g.s a).1 := by
  unfold gstep; split <;> rfl

theorem grun_s (v : Variant) (as : List Act) : ∀ g : GSt, (grun v g as).s = run v g.s as := by
  induction as with
  | nil => intro g; rfl
  | cons a as ih => intro g; simp only [grun, run, ih, gstep_s]

/-! ### how a step changes the executable state -/

theorem mem_mkEnvs {i : Nat} {l : List (Nat × Body)} : ∀ {k : Nat} {e : Env}, e ∈ mkEnvs i k l → e.src = i ∧ (e.dst, e.body) ∈ l := by
  induction l with
  | nil => intro k e h; simp [mkEnvs] at h
  | cons p r ih =>
    intro k e h
    obtain ⟨d, b⟩ := p
    simp only [mkEnvs, List.mem_cons] at h
    rcases h with h | h
    · subst h; exact ⟨rfl, by simp⟩
    · have := ih h; exact ⟨this.1, List.mem_cons_of_mem _ this.2⟩

theorem alive_lt {s : St} {i : Nat} (h : alive s i = true) : i < s.n := by
  simp only [alive, Bool.and_eq_true, decide_eq_true_eq] at h; exact h.1

theorem findMsg_mem {s : St} {m : Nat} {e : Env} (h : findMsg s m = some e) : e ∈ s.msgs :=
  List.mem_of_find?_eq_some h

/-- a step either leaves the nodes alone (and can only lose messages) or runs one handler -/
inductive StepCase (v : Variant) (s : St) (a : Act) : Prop
  | idle (hn : (step v s a).1.nodes = s.nodes) (hm : ∀ e ∈ (step v s a).1.msgs, e ∈ s.msgs)
      (hsz : (step v s a).1.n = s.n) (ht : actTarget s a = none)
      (ha : (step v s a).2.apps = []) (hr : (step v s a).2.ress = [])
  | msg (e : Env) (hcr : createdDiff s a = [] ∧ submitOf a = none) (he : e ∈ s.msgs) (hi : e.dst < s.n) (hsrc : e.src < s.n) (hne : e.src ≠ e.dst)
      (ht : actTarget s a = some e.dst)
      (hs : step v s a = applyHR s e.dst (handleMsg v s.n (s.nodes e.dst) e))
  | timeout (i : Nat) (hcr : createdDiff s a = [] ∧ submitOf a = none) (hi : i < s.n) (ht : actTarget s a = some i)
      (hs : step v s a = applyHR s i (handleTimeout s.n (s.nodes i) i))
  | hb (i : Nat) (hcr : createdDiff s a = [] ∧ submitOf a = none) (hi : i < s.n) (ht : actTarget s a = some i)
      (hs : step v s a = applyHR s i (handleHB s.n (s.nodes i) i))
  | submit (i f : Nat) (c : Cmd) (ha : a = .submit i f c) (hi : i < s.n) (ht : actTarget s a = some i)
      (hs : step v s a = applyHR s i (handleSubmit (s.nodes i) f c))

theorem step_case (v : Variant) (s : St) (a : Act) : StepCase v s a := by
  cases a with
  | deliver m =>
    cases hf : findMsg s m with
    | none => exact .idle (by simp [step, hf]) (by simp [step, hf]) (by simp [step, hf]) (by simp [actTarget, hf]) (by simp [step, hf]) (by simp [step, hf])
    | some e =>
      cases hg : canDeliver s e with
      | true =>
        have hg' := hg
        simp only [canDeliver, Bool.and_eq_true, decide_eq_true_eq] at hg'
        exact .msg e ⟨rfl, rfl⟩ (findMsg_mem hf) (alive_lt hg'.1.1) hg'.1.2 hg'.2 (by simp [actTarget, hf, hg])
          (by simp only [step, hf, hg, if_true])
      | false =>
        exact .idle (by simp [step, hf, hg]) (by simp [step, hf, hg]) (by simp [step, hf, hg]) (by simp [actTarget, hf, hg]) (by simp [step, hf, hg]) (by simp [step, hf, hg])
  | timeout i =>
    by_cases hg : alive s i = true
    · exact .timeout i ⟨rfl, rfl⟩ (alive_lt hg) (by simp [actTarget, hg]) (by simp [step, hg])
    · exact .idle (by simp [step, hg]) (by simp [step, hg]) (by simp [step, hg]) (by simp [actTarget, hg]) (by simp [step, hg]) (by simp [step, hg])
  | heartbeat i =>
    by_cases hg : alive s i = true
    · exact .hb i ⟨rfl, rfl⟩ (alive_lt hg) (by simp [actTarget, hg]) (by simp [step, hg])
    · exact .idle (by simp [step, hg]) (by simp [step, hg]) (by simp [step, hg]) (by simp [actTarget, hg]) (by simp [step, hg]) (by simp [step, hg])
  | submit i f c =>
    by_cases hg : i < s.n
    · exact .submit i f c rfl hg (by simp [actTarget, hg]) (by simp [step, hg])
    · exact .idle (by simp [step, hg]) (by simp [step, hg]) (by simp [step, hg]) (by simp [actTarget, hg]) (by simp [step, hg]) (by simp [step, hg])
  | drop m =>
    exact .idle (by simp [step]) (by intro e he; simp only [step] at he; exact (List.mem_filter.mp he).1) (by simp [step]) (by simp [actTarget]) (by simp [step]) (by simp [step])
  | crash i => exact .idle (by simp [step]) (by simp [step]) (by simp [step]) (by simp [actTarget]) (by simp [step]) (by simp [step])
  | restart i => exact .idle (by simp [step]) (by simp [step]) (by simp [step]) (by simp [actTarget]) (by simp [step]) (by simp [step])

end HappyModel.C11
