import HappyProofs.C11.ProgJudge
/-! `Spec.stableOk` on the model's own transcript: `stableOk_settled` (single leader, everything applied
    everywhere) and `stableOk_of_progress` (the same from the schedule predicates, for a one-command run). -/
namespace HappyModel.C11
open Spec

/-- a list of (index, value) pairs with indices 1 … m whose values are read off `ids` is `ids` -/
theorem snd_of_idx (l : List (Nat × Nat)) (ids : List Nat) (h1 : l.map (·.1) = List.range' 1 ids.length)
    (h2 : ∀ q ∈ l, ids[q.1 - 1]? = some q.2) : l.map (·.2) = ids := by
  have hlen : l.length = ids.length := by
    have := congrArg List.length h1
    simpa using this
  apply List.ext_getElem?
  intro r
  by_cases hr : r < l.length
  · have hq : l[r] ∈ l := List.getElem_mem hr
    have hfst : (l[r]).1 = 1 + r := by
      have h3 : (l.map (·.1))[r]? = some (l[r]).1 := by rw [List.getElem?_map, List.getElem?_eq_getElem hr]; rfl
      rw [h1, List.getElem?_range' (by omega)] at h3
      simp only [Nat.one_mul, Option.some.injEq] at h3
      exact h3.symm
    have := h2 _ hq
    rw [hfst] at this
    rw [List.getElem?_map, List.getElem?_eq_getElem hr]
    simp only [Option.map_some]
    rw [← this]; congr 1; omega
  · rw [List.getElem?_eq_none (by rw [List.length_map]; omega), List.getElem?_eq_none (by omega)]

/-- THE JUDGE ACCEPTS A SETTLED STABLE RUN.  For every run of the model in which only `L` is ever seen leading and
    at whose end every node's `last_applied` equals the length of `L`'s log, `Spec.stableOk` holds of the run's frames:
    every node has applied exactly the accepted commands, in submission order. -/
theorem stableOk_settled (v : Variant) (hr : Rep v) (n : Nat) (as : List Act) (L : Nat) (hL : L < n)
    (h1 : onlyLeader L (frames v n as) = true) (h2 : settledAt (run v (init n) as) L = true) :
    stableOk (frames v n as) = true := by
  have hn : (run v (init n) as).n = n := by rw [run_n]; rfl
  simp only [frames, onlyLeader, List.all_cons, Bool.and_eq_true] at h1
  obtain ⟨ids, hlog, hacc, hfr⟩ := acc_run v hr as (ginit n) (pinv_init n) hL (by intro e he; simp [ginit, init] at he)
    (by show onlyLeader L (framesFrom v (init n) as) = true; exact h1.2)
  change ((run v (init n) as).nodes L).log = ((init n).nodes L).log ++ ids at hlog
  change acceptedCmds (framesFrom v (init n) as) = _ at hacc
  change ∀ fr ∈ framesFrom v (init n) as, ∀ w, fr.views[L]? = some w →
    ∃ K, K <+: ((run v (init n) as).nodes L).log ∧ w.log = K.map oe at hfr
  have hlog' : ((run v (init n) as).nodes L).log = ids := by rw [hlog]; simp [init, initNode]
  have hset : ∀ i, i < n → ((run v (init n) as).nodes i).lastApplied = ids.length := by
    intro i hi
    simp only [settledAt, List.all_eq_true, beq_iff_eq, List.mem_range] at h2
    rw [h2 i (by rw [hn]; exact hi), hlog']
  have hsafe := (state_machine_safety v hr n as).2
  unfold applyAgreeOk at hsafe
  simp only [List.all_eq_true] at hsafe
  have hfromlog := apply_from_log v n as
  unfold applyFromLogOk at hfromlog
  simp only [List.all_eq_true] at hfromlog
  unfold stableOk
  simp only [List.all_eq_true, beq_iff_eq, List.mem_range]
  intro i hi
  have hin : i < n := by simpa [nNodes, frames, viewsOf, init] using hi
  have hacc' : acceptedCmds (frames v n as) = ids.map (·.cmd.id) := by
    unfold frames; rw [acceptedCmds_cons, hacc]; rfl
  rw [hacc']
  have happs : appsOf (frames v n as) i = appsOf (framesFrom v (init n) as) i := by
    unfold frames; rw [appsOf_cons]; rfl
  rw [happs]
  apply snd_of_idx
  · have := run_apps_idx v as (init n) (cl_init n) i
    rw [hset i hin] at this
    simpa [init, initNode] using this
  · intro q hq
    -- the index is within 1 … m
    have hqi : q.1 ∈ (appsOf (framesFrom v (init n) as) i).map (·.1) := List.mem_map.mpr ⟨q, hq, rfl⟩
    have hidx := run_apps_idx v as (init n) (cl_init n) i
    rw [hset i hin] at hidx
    rw [hidx, List.mem_range'_1] at hqi
    have h0 : ((init n).nodes i).lastApplied = 0 := by simp [init, initNode]
    rw [h0] at hqi
    -- node i's report, and L's report for the same index
    obtain ⟨fr, hfr0, hin0⟩ := appsOf_mem hq
    have hmem_i : (i, q.1, q.2) ∈ allApps (frames v n as) := by
      unfold allApps frames
      exact List.mem_flatMap.mpr ⟨fr, List.mem_cons_of_mem _ hfr0, hin0⟩
    obtain ⟨y, hy⟩ := applied_reported v n as L q.1 (by omega) (by rw [hset L hL]; omega)
    have hagree := hsafe _ hmem_i _ hy
    simp only [bne_self_eq_false, Bool.false_or, beq_iff_eq] at hagree
    -- L's report is entry q.1 of the log it showed then, a prefix of its final log
    unfold allApps at hy
    obtain ⟨fr', hfr', hin'⟩ := List.mem_flatMap.mp hy
    have hal := hfromlog fr' hfr'
    unfold frameAppliesLog at hal
    simp only [List.all_eq_true] at hal
    have hal' := hal _ hin'
    simp only [frames, List.mem_cons] at hfr'
    rcases hfr' with hfr' | hfr'
    · rw [hfr'] at hin'; cases hin'
    · cases hv : fr'.views[L]? with
      | none => rw [hv] at hal'; cases hal'
      | some w =>
        rw [hv] at hal'
        simp only [Bool.and_eq_true, beq_iff_eq, decide_eq_true_eq] at hal'
        obtain ⟨K, hK, hwK⟩ := hfr fr' hfr' w hv
        rw [hwK, List.getElem?_map] at hal'
        cases hKe : K[q.1 - 1]? with
        | none => rw [hKe] at hal'; simp at hal'
        | some e =>
          rw [hKe] at hal'
          simp only [Option.map_some, oe, Option.some.injEq] at hal'
          have hLe : ids[q.1 - 1]? = some e := by
            rw [← hlog']
            obtain ⟨t', ht'⟩ := hK
            rw [← ht', List.getElem?_append_left (List.getElem?_eq_some_iff.mp hKe).1]
            exact hKe
          rw [List.getElem?_map, hLe]
          simp only [Option.map_some, Option.some.injEq]
          rw [hagree]; exact hal'.1

/-! ### from the schedule predicates to the judge's clause -/

theorem stableRun_sub {v : Variant} {t : Nat} {ns ms : List Nat} (hsub : ∀ i ∈ ms, i ∈ ns) : ∀ (as : List Act) (s : St),
    stableRun v t ns s as = true → stableRun v t ms s as = true := by
  have here : ∀ s, termsLe s t ns = true → termsLe s t ms = true := by
    intro s h
    simp only [termsLe, List.all_eq_true, decide_eq_true_eq] at h ⊢
    exact fun i hi => h i (hsub i hi)
  intro as
  induction as with
  | nil => intro s h; exact here s h
  | cons a as ih =>
    intro s h
    simp only [stableRun, Bool.and_eq_true] at h ⊢
    exact ⟨here s h.1, ih _ h.2⟩

theorem stableRun_end {v : Variant} {t : Nat} {ns : List Nat} : ∀ (as : List Act) (s : St),
    stableRun v t ns s as = true → termsLe (run v s as) t ns = true := by
  intro as
  induction as with
  | nil => intro s h; exact h
  | cons a as ih => intro s h; exact ih _ (stableRun_cons h)

theorem est_run (v : Variant) (hr : Rep v) {L t : Nat} : ∀ (as : List Act) (g : GSt), PInv g → Est g.s L t →
    stableRun v t [L] g.s as = true → Est (run v g.s as) L t := by
  intro as
  induction as with
  | nil => intro g _ h _; exact h
  | cons a as ih =>
    intro g inv hest hst
    have hst' := stableRun_cons hst
    have := ih (gstep v g a) (pinv_step v hr g inv a)
      (by rw [gstep_s]; exact est_step v hr g inv a hest (termsLe_mem (stableRun_here hst') (by simp))) (by rw [gstep_s]; exact hst')
    rw [gstep_s] at this; exact this

/-- what a node of a term `≤ t` has committed is in the log of the leader of `t` -/
theorem commit_le_leader {g : GSt} (inv : AllInv g) {L i : Nat} (hl : (g.s.nodes L).role = .leader)
    (hle : (g.s.nodes i).term ≤ (g.s.nodes L).term) : (g.s.nodes i).commit ≤ (g.s.nodes L).log.length := by
  have hpre : (g.s.nodes i).log.take (g.s.nodes i).commit <+: (g.s.nodes L).log := by
    rcases inv.hi.n_cn i with h | ⟨T, K', hT, hqa, hK⟩
    · rw [h]; exact List.nil_prefix
    · refine hK.trans ?_
      obtain ⟨hK', hKt⟩ := hqa.mem_created inv.hi
      by_cases hTt : T = (g.s.nodes L).term
      · have := inv.li.g2 L hl K' hK' (by rw [hKt, hTt])
        rw [List.prefix_iff_eq_take]; exact this.2.symm
      · obtain ⟨c0, L0, hmem, hpre0, _⟩ := inv.hi.n_ldr L hl
        exact (lc_main inv.hi _ K' T hqa c0 L0 hmem (by omega)).trans hpre0
  have := hpre.length_le
  rw [List.length_take] at this
  have := inv.hi.n_cl i
  omega

/-- FROM THE SCHEDULE TO THE JUDGE.  A run in which only `L` is ever seen leading, one command is submitted to `L` once it is
    established with every other node in sync, no node ever sees a higher term, every other node is handed the entry
    and the commit notice and `L` their replies (`StableFair` and `toldRun` for all peers), and `L` accepts nothing after
    it: the judge's bounded-progress clause holds of the run's transcript. -/
theorem stableOk_of_progress (v : Variant) (hr : Rep v) (n : Nat) (pre : List Act) (L t f : Nat) (c : Cmd) (as : List Act)
    (h : StableFair v n pre L t f c (peers n L) as)
    (htold : ∀ p ∈ peers n L, toldRun v L t (nextIdx (run v (init n) pre) L) p (run v (init n) pre) (.submit L f c :: as) = true)
    (hone : onlyLeader L (frames v n (pre ++ .submit L f c :: as)) = true)
    (hlast : ((run v (init n) (pre ++ .submit L f c :: as)).nodes L).log.length = nextIdx (run v (init n) pre) L) :
    stableOk (frames v n (pre ++ .submit L f c :: as)) = true := by
  have est0 := established_iff.mp h.est
  have hn0 : (run v (init n) pre).n = n := by rw [run_n]; rfl
  have hLn : L < n := by rw [← hn0]; exact est0.lt
  apply stableOk_settled v hr n _ L hLn hone
  obtain ⟨hge, _⟩ := stable_all_apply v hr n pre L t f c (peers n L) (peers n L) as h h.sync
    (fun p hp => stableRun_sub (by intro i hi; simp only [List.mem_cons, List.not_mem_nil, or_false] at hi ⊢
                                   rcases hi with hi | hi
                                   · exact Or.inl hi
                                   · exact Or.inr (hi ▸ hp)) _ _ h.stable) htold
  -- the final state
  have inv0 := pinv_reach v hr n pre
  have hs0 : (grun v (ginit n) pre).s = run v (init n) pre := grun_s v pre (ginit n)
  have invE := pinv_reach v hr n (pre ++ .submit L f c :: as)
  have hsE : (grun v (ginit n) (pre ++ .submit L f c :: as)).s = run v (init n) (pre ++ .submit L f c :: as) := grun_s v _ (ginit n)
  have estE : Est (run v (init n) (pre ++ .submit L f c :: as)) L t := by
    rw [run_append]
    have := est_run v hr (.submit L f c :: as) (grun v (ginit n) pre) inv0 (by rw [hs0]; exact est0)
      (by rw [hs0]; exact stableRun_sub (by intro i hi; simp only [List.mem_singleton] at hi; rw [hi]; simp) _ _ h.stable)
    rw [hs0] at this; exact this
  have htE := stableRun_end _ _ h.stable
  rw [← run_append] at htE
  simp only [settledAt, List.all_eq_true, beq_iff_eq, List.mem_range]
  intro i hi
  rw [run_n] at hi
  change i < n at hi
  have hiL : i ∈ L :: peers n L := by
    by_cases hc : i = L
    · rw [hc]; simp
    · exact List.mem_cons_of_mem _ (mem_peers_of hi hc)
  have h1 := hge i hiL
  have h2 : ((run v (init n) (pre ++ .submit L f c :: as)).nodes i).lastApplied ≤ ((run v (init n) (pre ++ .submit L f c :: as)).nodes L).log.length := by
    have hla := invE.la i
    have hcm := commit_le_leader invE.all (L := L) (i := i) (by rw [hsE]; exact estE.role)
      (by rw [hsE, estE.term]; exact termsLe_mem htE hiL)
    rw [hsE] at hla hcm
    omega
  omega

end HappyModel.C11
