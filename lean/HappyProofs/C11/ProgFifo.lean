import HappyProofs.C11.ProgConvFair
/-! Per-link FIFO implies `noRegressRun`.

`fifoRun v del s as`: along the run, every message handed to a live destination has a larger id
than every message delivered before on the same (src, dst) link (`del` = the envelopes delivered
so far) — deliveries on each link happen in send order, which is what the real `Network` gives
with a constant latency per link.  This file: what new messages a step can add (raw handler
facts), acknowledgements carry their sender (`ArSrc`), and the per-follower invariant `KF`. -/
namespace HappyModel.C11
open Spec

def fifoOk (del : List Env) (e : Env) : Bool :=
  del.all (fun d => !(d.src == e.src && d.dst == e.dst) || decide (d.id < e.id))

/-- the message an action hands to a live destination -/
def delivered (s : St) : Act → Option Env
  | .deliver m => match findMsg s m with
    | some e => if canDeliver s e then some e else none
    | none => none
  | _ => none

def fifoRun (v : Variant) : List Env → St → List Act → Bool
  | _, _, [] => true
  | del, s, a :: as =>
    match delivered s a with
    | some e => fifoOk del e && fifoRun v (e :: del) (step v s a).1 as
    | none => fifoRun v del (step v s a).1 as

theorem fifoOk_lt {del : List Env} {e d : Env} (h : fifoOk del e = true) (hd : d ∈ del) (hs : d.src = e.src) (hdst : d.dst = e.dst) :
    d.id < e.id := by
  simp only [fifoOk, List.all_eq_true] at h
  have := h d hd
  simpa [hs, hdst] using this

/-! ### which handler can send a successful acknowledgement -/

theorem handleMsg_ack (v : Variant) (hms : v.matchSent = true) (n : Nat) (x : Node) (e : Env) {d t f m : Nat}
    (h : (d, Body.ar t true f m) ∈ (handleMsg v n x e).sends) :
    ∃ l pi pt es lc, e.body = .ae t l pi pt es lc ∧ m = pi + es.length ∧ f = e.dst := by
  unfold handleMsg at h
  split at h
  · unfold handleRV rvCore at h
    split at h <;> split at h <;> simp at h
  · unfold handleVR at h
    split at h
    · simp at h
    · split at h
      · simp at h
      · unfold vrCount at h
        split at h
        · rcases mem_becomeLeader_sends h with h' | ⟨_, _, _, _, _, _, h'⟩
          · cases h'
          · cases h'
        · simp at h
  · rename_i t' l pi pt es lc hb
    unfold handleAE at h
    split at h
    · simp at h
    · split at h
      · simp at h
      · have hterm : (aeCommit (appendLoop v (stepDown v x t') (pi + 1) es) lc).node.term = t' := by
          have : (aeCommit (appendLoop v (stepDown v x t') (pi + 1) es) lc).node.ev = (stepDown v x t').ev := by
            rw [aeCommit_ev, appendLoop_ev]
          exact (ev_eq this).1
        simp only [aeAccept, hms, if_true, List.mem_singleton, Prod.mk.injEq, Body.ar.injEq, true_and] at h
        obtain ⟨_, h1, h2, h3⟩ := h
        rw [hterm] at h1
        exact ⟨l, pi, pt, es, lc, by rw [hb, h1], h3, h2⟩
  · unfold handleAR at h
    split at h
    · simp at h
    · split at h
      · simp at h
      · split at h
        · simp at h
        · split at h
          · rw [tryAdvance_sends] at h; cases h
          · split at h
            · simp only [List.mem_singleton, Prod.mk.injEq] at h
              obtain ⟨_, _, _, _, _, _, hae⟩ := aeFor_isAE (nackNode x _) e.dst _
              have := h.2
              unfold nackNode at hae
              rw [hae] at this; cases this
            · simp at h

theorem handleTimeout_noack (n : Nat) (x : Node) (me : Nat) {d t f m : Nat} (h : (d, Body.ar t true f m) ∈ (handleTimeout n x me).sends) : False := by
  unfold handleTimeout at h
  split at h
  · simp at h
  · split at h
    · rcases mem_becomeLeader_sends h with h' | ⟨_, _, _, _, _, _, h'⟩
      · have := mem_rvsFor h'; cases this
      · cases h'
    · have := mem_rvsFor h; cases this

theorem handleHB_noack (n : Nat) (x : Node) (me : Nat) {d t f m : Nat} (h : (d, Body.ar t true f m) ∈ (handleHB n x me).sends) : False := by
  unfold handleHB at h
  split at h
  · simp at h
  · obtain ⟨_, _, _, _, _, _, h'⟩ := mem_sendAEs h; cases h'

theorem handleSubmit_noack (x : Node) (f' : Nat) (c : Cmd) {d t f m : Nat} (h : (d, Body.ar t true f m) ∈ (handleSubmit x f' c).sends) : False := by
  unfold handleSubmit at h
  split at h <;> simp at h

/-- a new successful acknowledgement `(t, f, m)` answers the AppendEntries of term `t` delivered to `f` in this very step,
    and `m` is what that message reaches -/
theorem new_ack (v : Variant) (hr : Rep v) (s : St) (a : Act) {e : Env} (he : e ∈ (step v s a).1.msgs) (hnew : e ∉ s.msgs)
    {t f m : Nat} (hb : e.body = .ar t true f m) :
    e.src = f ∧ ∃ e0 l pi pt es lc, delivered s a = some e0 ∧ e0 ∈ s.msgs ∧ e0.dst = f ∧ e0.body = .ae t l pi pt es lc ∧ m = pi + es.length := by
  have fromH : ∀ (i : Nat) (r : HR), step v s a = applyHR s i r → e.src = i ∧ (e.dst, e.body) ∈ r.sends := by
    intro i r hs
    rw [hs] at he
    rcases applyHR_msgs he with h | h
    · exact absurd h hnew
    · exact mem_mkEnvs h
  rcases step_case2 v s a with ⟨_, hm, _, _⟩ | ⟨m0, e0, ha, hf, hc, hs⟩ | ⟨i, hs⟩ | ⟨i, hs⟩ | ⟨i, f', c, _, hs⟩
  · exact absurd (hm e he) hnew
  · obtain ⟨hsrc, hsend⟩ := fromH _ _ hs
    rw [hb] at hsend
    obtain ⟨l, pi, pt, es, lc, h1, h2, h3⟩ := handleMsg_ack v hr.ms _ _ _ hsend
    refine ⟨by rw [hsrc, h3], e0, l, pi, pt, es, lc, ?_, findMsg_mem hf, h3.symm, h1, h2⟩
    rw [ha]; simp [delivered, hf, hc]
  · obtain ⟨_, hsend⟩ := fromH _ _ hs; rw [hb] at hsend; exact absurd hsend (fun h => handleTimeout_noack _ _ _ h)
  · obtain ⟨_, hsend⟩ := fromH _ _ hs; rw [hb] at hsend; exact absurd hsend (fun h => handleHB_noack _ _ _ h)
  · obtain ⟨_, hsend⟩ := fromH _ _ hs; rw [hb] at hsend; exact absurd hsend (fun h => handleSubmit_noack _ _ _ h)

/-- every successful acknowledgement in flight names its sender -/
def ArSrc (s : St) : Prop := ∀ e ∈ s.msgs, ∀ t f m, e.body = .ar t true f m → e.src = f

theorem arSrc_step (v : Variant) (hr : Rep v) (s : St) (a : Act) (h : ArSrc s) : ArSrc (step v s a).1 := by
  intro e he t f m hb
  by_cases hold : e ∈ s.msgs
  · exact h e hold t f m hb
  · exact (new_ack v hr s a he hold hb).1

theorem arSrc_run (v : Variant) (hr : Rep v) (as : List Act) : ∀ s, ArSrc s → ArSrc (run v s as) := by
  induction as with
  | nil => intro s h; exact h
  | cons a as ih => intro s h; exact ih _ (arSrc_step v hr s a h)

theorem arSrc_init (n : Nat) : ArSrc (init n) := by intro e he; simp [init] at he

/-- the leader's `match_index[f]` after a step: unchanged, or set by the acknowledgement delivered in this step -/
theorem mi_step (v : Variant) (hr : Rep v) (g : GSt) (inv : PInv g) (a : Act) {L t : Nat} (hest : Est g.s L t)
    (hleL : ((step v g.s a).1.nodes L).term ≤ t) (f : Nat) :
    ((step v g.s a).1.nodes L).matchIndex.getD f 0 = (g.s.nodes L).matchIndex.getD f 0
    ∨ ∃ e m, delivered g.s a = some e ∧ e ∈ g.s.msgs ∧ e.dst = L ∧ e.body = .ar t true f m
        ∧ ((step v g.s a).1.nodes L).matchIndex.getD f 0 = m := by
  have nodeL : ∀ r, step v g.s a = applyHR g.s L r → (step v g.s a).1.nodes L = r.node := by
    intro r hs; rw [hs]; simp only [applyHR, upd_same]
  rcases lstep v hr g inv a hest hleL with ⟨hn, _, _⟩ | ⟨r, hs, h⟩ | hs | ⟨f2, c2, _, hs⟩ | ⟨m0, e, ha, hf, hc, he, hd, f', m, hb, hs⟩ | ⟨e', _, _, f', m, _, r, hs, hn, _, _, _⟩
  · left; rw [hn]
  · left; rw [nodeL _ hs, (lsame_node h).2.2.2.2.2.1]
  · left; rw [nodeL _ hs]
  · left; rw [nodeL _ hs]; rfl
  · have hmi : ((step v g.s a).1.nodes L).matchIndex = (g.s.nodes L).matchIndex.set f' m := by
      rw [nodeL _ hs, tryAdvance_mi]; rfl
    rw [hmi, getD_set_nat]
    split
    · rename_i hc'
      right
      rw [hest.term, ← hc'.1] at hb
      exact ⟨e, m, by rw [ha]; simp [delivered, hf, hc], he, hd, hb, rfl⟩
    · left; rfl
  · left; rw [nodeL _ hs, hn]; rfl

end HappyModel.C11
