import HappyProofs.C11.ProgBasic
/-! A stable leader: as long as no term in the cluster exceeds the leader's, the leader keeps its
    role and term, and each of its handler runs is one of five kinds (`LK`).

    The one thing that could demote it without raising a term is an AppendEntries of its own term;
    `AeSrc` (every AppendEntries in flight was sent by a node recorded as leader of its term) and
    Election Safety exclude that. -/
namespace HappyModel.C11
open Spec

/-- every AppendEntries in flight was sent by a node that is in the ledger as leader of its term -/
def AeSrc (g : GSt) : Prop :=
  ∀ e ∈ g.s.msgs, ∀ t l pi pt es lc, e.body = .ae t l pi pt es lc → (t, e.src) ∈ g.leaders

theorem aeFor_term (x : Node) (me p : Nat) : ∃ l pi pt es lc, aeFor x me p = .ae x.term l pi pt es lc :=
  ⟨_, _, _, _, _, rfl⟩

theorem aeSrc_step (v : Variant) (hr : Rep v) (g : GSt) (inv : AllInv g) (h : AeSrc g) (a : Act) : AeSrc (gstep v g a) := by
  rcases gstep_case v hr g inv a with ⟨_, hm, _, hg⟩ | ⟨i, inp, r, cr, hg, _, c⟩
  · rw [hg]; intro e he; exact h e (hm e he)
  · rw [hg]
    intro e he t l pi pt es lc hb
    rcases gApply_msgs he with h0 | ⟨hsrc, hsend⟩
    · rw [gApply_leaders]; exact List.mem_append_right _ (h e h0 t l pi pt es lc hb)
    · obtain ⟨hrole, p, hp⟩ := c.ae_sent ⟨t, l, pi, pt, es, lc, hb⟩ hsend
      obtain ⟨l', pi', pt', es', lc', hf⟩ := aeFor_term r.node i p
      rw [hb, hf] at hp
      have ht : t = r.node.term := by cases hp; rfl
      have := c.ei'.l0 i (by rw [c.node_self]; exact hrole)
      rw [c.node_self] at this
      rw [hsrc, ht]; exact this

/-- everything the progress proof keeps about a reachable state -/
structure PInv (g : GSt) : Prop where
  all : AllInv g
  src : AeSrc g
  ids : IdsOk g.s
  cl : CL g.s
  la : LaOk g.s
  ml : MiLen g.s

theorem pinv_init (n : Nat) : PInv (ginit n) :=
  ⟨allInv_init n, by intro e he; simp [ginit, init] at he, idsOk_init n, cl_init n, by intro j; simp [ginit, init, initNode], miLen_init n⟩

theorem pinv_step (v : Variant) (hr : Rep v) (g : GSt) (inv : PInv g) (a : Act) : PInv (gstep v g a) := by
  refine ⟨allInv_step v hr g inv.all a, aeSrc_step v hr g inv.all inv.src a, ?_, ?_, ?_, ?_⟩
  · rw [gstep_s]; exact idsOk_step v g.s a inv.ids
  · rw [gstep_s]; exact (step_apps v g.s a inv.cl).1
  · rw [gstep_s]; exact laOk_step v hr g inv.all inv.cl inv.la a
  · rw [gstep_s]; exact miLen_step v g.s a inv.ml

theorem pinv_run (v : Variant) (hr : Rep v) (as : List Act) : ∀ g, PInv g → PInv (grun v g as) := by
  induction as with
  | nil => intro g h; exact h
  | cons a as ih => intro g h; exact ih _ (pinv_step v hr g h a)

theorem pinv_reach (v : Variant) (hr : Rep v) (n : Nat) (as : List Act) : PInv (grun v (ginit n) as) :=
  pinv_run v hr as _ (pinv_init n)

/-! ### what a leader's handlers do when no term rises -/

/-- bookkeeping only -/
structure LSame (x : Node) (r : HR) : Prop where
  node : r.node = x ∨ ∃ c, r.node = { x with votedFor := some c }
  snd : ∀ d b, (d, b) ∈ r.sends → (∃ t g f, b = .vr t g f) ∨ ∃ t f m, b = .ar t false f m
  apps : r.apps = []
  ress : r.ress = []

/-- the node a refused AppendEntries leaves at the leader -/
def nackNode (x : Node) (f : Nat) : Node := { x with nextIndex := x.nextIndex.set f (max 1 (x.nextIndex.getD f 1 - 1)) }

/-- a message handled by a leader whose term does not rise (and that is not an AppendEntries of its own term) -/
inductive LK (v : Variant) (n : Nat) (x : Node) (e : Env) (r : HR) : Prop
  | same (h : LSame x r)
  | ack (f m : Nat) (hb : e.body = .ar x.term true f m) (hr : r = tryAdvance n (ackNode x f m) e.dst)
  | nack (f m : Nat) (hb : e.body = .ar x.term false f m) (hn : r.node = nackNode x f)
      (snd : r.sends = [(f, aeFor (nackNode x f) e.dst f)] ∨ r.sends = []) (apps : r.apps = []) (ress : r.ress = [])

theorem lsame_refl (x : Node) (sends : List (Nat × Body))
    (snd : ∀ d b, (d, b) ∈ sends → (∃ t g f, b = .vr t g f) ∨ ∃ t f m, b = .ar t false f m) :
    LSame x { node := x, sends := sends } := ⟨Or.inl rfl, snd, rfl, rfl⟩

theorem handleAE_term (v : Variant) (x : Node) (me src t pi pt : Nat) (es : List Entry) (lc : Nat) (h : x.term ≤ t) :
    (handleAE v x me src t pi pt es lc).node.term = t := by
  unfold handleAE
  rw [if_neg (by omega)]
  split
  · rfl
  · have : (aeAccept v (stepDown v x t) me src pi es lc).node.ev = (stepDown v x t).ev := by
      show (aeCommit (appendLoop v (stepDown v x t) (pi + 1) es) lc).node.ev = _
      rw [aeCommit_ev, appendLoop_ev]
    exact (ev_eq this).1

theorem leader_msg (v : Variant) (hsa : v.staleAck = true) (n : Nat) (x : Node) (e : Env) (hl : x.role = .leader)
    (hle : (handleMsg v n x e).node.term ≤ x.term)
    (hnae : ∀ t l pi pt es lc, e.body = .ae t l pi pt es lc → t < x.term) : LK v n x e (handleMsg v n x e) := by
  unfold handleMsg at hle ⊢
  split at hle
  · -- RequestVote
    rename_i t c li lt hb
    unfold handleRV at hle ⊢
    by_cases ht : t > x.term
    · exfalso
      rw [if_pos ht] at hle
      unfold rvCore at hle
      split at hle
      · simp only [] at hle; omega
      · simp only [stepDown] at hle; omega
    · rw [if_neg ht]
      unfold rvCore
      split
      · rename_i hg
        have hte : t = x.term := by
          unfold rvGrant at hg
          simp only [Bool.and_eq_true, decide_eq_true_eq] at hg
          omega
        refine .same ⟨Or.inr ⟨c, ?_⟩, ?_, rfl, rfl⟩
        · simp only [hte]
        · intro d b hdb
          simp only [List.mem_singleton, Prod.mk.injEq] at hdb
          exact Or.inl ⟨_, _, _, hdb.2⟩
      · refine .same (lsame_refl x _ ?_)
        intro d b hdb
        simp only [List.mem_singleton, Prod.mk.injEq] at hdb
        exact Or.inl ⟨_, _, _, hdb.2⟩
  · -- VoteResponse
    rename_i t gr f hb
    unfold handleVR at hle ⊢
    by_cases ht : t > x.term
    · exfalso; rw [if_pos ht] at hle; simp only [stepDown] at hle; omega
    · rw [if_neg ht]
      rw [if_pos (Or.inl (by rw [hl]; decide))]
      exact .same (lsame_refl x [] (by intro d b h; cases h))
  · -- AppendEntries
    rename_i t l pi pt es lc hb
    have hlt := hnae t l pi pt es lc hb
    unfold handleAE
    rw [if_pos hlt]
    refine .same (lsame_refl x _ ?_)
    intro d b hdb
    simp only [List.mem_singleton, Prod.mk.injEq] at hdb
    exact Or.inr ⟨_, _, _, hdb.2⟩
  · -- AppendEntriesResponse
    rename_i t s f mi hb
    unfold handleAR at hle ⊢
    by_cases ht : t > x.term
    · exfalso; rw [if_pos ht] at hle; simp only [stepDown] at hle; omega
    · rw [if_neg ht]
      by_cases hst : t < x.term
      · rw [if_pos ⟨hsa, hst⟩]
        exact .same (lsame_refl x [] (by intro d b h; cases h))
      · rw [if_neg (fun h => hst h.2)]
        rw [if_neg (by rw [hl]; simp)]
        have hte : t = x.term := by omega
        subst hte
        cases s with
        | true =>
          simp only [if_true]
          exact .ack f mi hb rfl
        | false =>
          simp only [Bool.false_eq_true, if_false]
          split
          · exact .nack f mi hb rfl (Or.inl rfl) rfl rfl
          · exact .nack f mi hb rfl (Or.inr rfl) rfl rfl

theorem leader_timeout (n : Nat) (x : Node) (me : Nat) (hl : x.role = .leader) : handleTimeout n x me = { node := x } := by
  unfold handleTimeout; rw [if_pos hl]

theorem leader_hb (n : Nat) (x : Node) (me : Nat) (hl : x.role = .leader) :
    handleHB n x me = { node := x, sends := sendAEs n x me } := by
  unfold handleHB; rw [if_neg (by rw [hl]; simp)]

/-- the node `submit` leaves at a leader -/
def submitNode (x : Node) (f : Nat) (c : Cmd) : Node :=
  { x with log := x.log ++ [⟨x.term, c⟩], pending := setPending x.pending (x.log.length + 1) f }

theorem leader_submit (x : Node) (f : Nat) (c : Cmd) (hl : x.role = .leader) :
    handleSubmit x f c = { node := submitNode x f c } := by
  unfold handleSubmit submitNode; rw [if_neg (by rw [hl]; simp)]

end HappyModel.C11
