import HappyProofs.C11.HStepB
/-! `HInv` across a handler step, part C: the clauses about node states
    (`match_sound` is `n_ms'`; the commit rule becomes quorum acceptance in `n_cn'`). -/
namespace HappyModel.C11

theorem getD_set_nat (l : List Nat) (f m j : Nat) :
    (l.set f m).getD j 0 = if j = f ∧ f < l.length then m else l.getD j 0 := by
  simp only [List.getD_eq_getElem?_getD, List.getElem?_set]
  by_cases h : f = j
  · subst h
    by_cases h2 : f < l.length
    · simp [h2]
    · have : l[f]? = none := List.getElem?_eq_none (by omega)
      simp [h2, this]
  · have : ¬ j = f := fun e => h e.symm
    simp [h, this]

theorem peers_nodup (n me : Nat) : (peers n me).Nodup := by
  unfold peers
  exact (List.nodup_range).sublist List.filter_sublist

theorem mem_peers {n me j : Nat} (h : j ∈ peers n me) : j < n ∧ j ≠ me := by
  unfold peers at h
  obtain ⟨h1, h2⟩ := List.mem_filter.mp h
  exact ⟨List.mem_range.mp h1, by simpa using h2⟩

namespace Ctx
variable {v : Variant} {g : GSt} {i : Nat} {inp : Option Body} {r : HR} {cr : List (List Entry)}

/-- the log after the step: unchanged, one own-term entry appended by a leader, or replaced by the
    log `X` an accepted AppendEntries was cut from -/
theorem log_cases (c : Ctx v g i inp r cr) :
    r.node.log = (g.s.nodes i).log
    ∨ (∃ k, r.node.log = (g.s.nodes i).log ++ [⟨(g.s.nodes i).term, k⟩] ∧ (g.s.nodes i).role = .leader ∧ r.node.role = .leader
        ∧ r.node.term = (g.s.nodes i).term ∧ r.node.commit = (g.s.nodes i).commit ∧ r.node.matchIndex = (g.s.nodes i).matchIndex)
    ∨ (∃ X, LeaderLog g r.node.term X ∧ r.node.log = X ∧ ¬ X <+: (g.s.nodes i).log) := by
  rcases c.hk with ⟨hlog, _, _, _, _, _⟩ | ⟨t, _, _, _, _, _, hlog, _, _, _, _, _, _, _, _⟩ | ⟨hlog, _, _, _, _, _, _⟩
    | ⟨hlog, _, _, _, _, _, _, _⟩ | ⟨hlog, _, _, _, _, _, _, _⟩ | ⟨t, l, pi, pt, es, lc, src, hin, hle, hbad, hnode, _⟩
    | ⟨f, m, _, _, hnode, _⟩ | ⟨k, hl, hlog, hcommit, hmi, role, ht, _, _⟩
  · exact Or.inl hlog
  · exact Or.inl hlog
  · exact Or.inl hlog
  · exact Or.inl hlog
  · exact Or.inl hlog
  · obtain ⟨e1, _, _, X, hX, _, _, hcase, _⟩ := c.accept hin hle hbad hnode
    rcases hcase with h | ⟨h1, h2⟩
    · exact Or.inl h
    · exact Or.inr (Or.inr ⟨X, by rw [e1]; exact hX, h1, h2⟩)
  · exact Or.inl (ack_facts _ _ _ _ _ (c.cl i) _ hnode).2.2.2.1
  · exact Or.inr (Or.inl ⟨k, hlog, hl, role, ht, hcommit, hmi⟩)

/-- a leader that stays leader: same term; log, commit and match indices change only by `append` / `ack` -/
theorem oldleader (c : Ctx v g i inp r cr) (h1 : (g.s.nodes i).role = .leader) (h2 : r.node.role = .leader) :
    r.node.term = (g.s.nodes i).term ∧
    ((r.node.log = (g.s.nodes i).log ∧ r.node.commit = (g.s.nodes i).commit ∧ r.node.matchIndex = (g.s.nodes i).matchIndex)
     ∨ (∃ k, r.node.log = (g.s.nodes i).log ++ [⟨(g.s.nodes i).term, k⟩] ∧ r.node.commit = (g.s.nodes i).commit
          ∧ r.node.matchIndex = (g.s.nodes i).matchIndex)
     ∨ (∃ f m, inp = some (.ar (g.s.nodes i).term true f m) ∧ r.node = (tryAdvance g.s.n (ackNode (g.s.nodes i) f m) i).node)) := by
  rcases c.hk with ⟨hlog, hcommit, hmi, rt, _, _⟩ | ⟨t, _, _, _, _, _, hlog, hcommit, hmi, rt, ht, _, _, _, _⟩ | ⟨_, _, hnl, _, _, _, _⟩
    | ⟨_, _, hc, _, _, _, _, _⟩ | ⟨hlog, hcommit, hmi, _, _, ht, _, _⟩ | ⟨t, l, pi, pt, es, lc, src, hin, hle, hbad, hnode, _⟩
    | ⟨f, m, hin, _, hnode, _⟩ | ⟨k, _, hlog, hcommit, hmi, _, ht, _, _⟩
  · rcases rt with h | h
    · exact ⟨h.2, Or.inl ⟨hlog, hcommit, hmi⟩⟩
    · rw [h.1] at h2; cases h2
  · rcases rt with h | h
    · exact ⟨by omega, Or.inl ⟨hlog, hcommit, hmi⟩⟩
    · rw [h.1] at h2; cases h2
  · exact absurd h1 hnl
  · rw [hc] at h1; cases h1
  · exact ⟨ht, Or.inl ⟨hlog, hcommit, hmi⟩⟩
  · rw [(c.accept hin hle hbad hnode).2.1] at h2; cases h2
  · exact ⟨(ack_facts _ _ _ _ _ (c.cl i) _ hnode).1, Or.inr (Or.inr ⟨f, m, hin, hnode⟩)⟩
  · exact ⟨ht, Or.inr (Or.inl ⟨k, hlog, hcommit, hmi⟩)⟩

/-- the log of the leader of a term extends every log of that leader -/
theorem leader_max (c : Ctx v g i inp r cr) {j : Nat} (hl : (g.s.nodes j).role = .leader) {X : List Entry}
    (hX : LeaderLog g (g.s.nodes j).term X) : X <+: (g.s.nodes j).log := by
  obtain ⟨k, L, h1, _, h3⟩ := hX
  rcases h3 with h3 | ⟨h3, h4⟩
  · obtain ⟨k', L', h1', h2', _⟩ := c.hi.n_ldr j hl
    rw [h3, c.hi.ll_uniq _ k L k' L' h1 h1']; exact h2'
  · have := c.li.g2 j hl X h3 h4
    rw [List.prefix_iff_eq_take]; exact this.2.symm

theorem n_lt' (c : Ctx v g i inp r cr) : ∀ j, lastTerm ((gApply g i r cr).s.nodes j).log ≤ ((gApply g i r cr).s.nodes j).term := by
  intro j
  by_cases hj : j = i
  · rw [hj, c.node_self]
    rcases c.log_cases with h | ⟨k, h, _, _, ht, _⟩ | ⟨X, hX, h, _⟩
    · rw [h]; exact Nat.le_trans (c.hi.n_lt i) c.term_le
    · rw [h, lastTerm_concat, ht]; exact Nat.le_refl _
    · rw [h]; exact hX.lastTerm_le c.hi
  · rw [c.node_other hj]; exact c.hi.n_lt j

theorem n_ldr' (c : Ctx v g i inp r cr) : ∀ j, ((gApply g i r cr).s.nodes j).role = .leader →
    LeaderLog (gApply g i r cr) ((gApply g i r cr).s.nodes j).term ((gApply g i r cr).s.nodes j).log := by
  intro j hrole
  by_cases hj : j = i
  · rw [hj] at hrole ⊢
    rw [c.node_self] at hrole ⊢
    by_cases hold : (g.s.nodes i).role = .leader
    · obtain ⟨ht, hcase⟩ := c.oldleader hold hrole
      have hpre := c.hi.n_ldr i hold
      rw [ht]
      have hlogsame : r.node.log = (g.s.nodes i).log → LeaderLog (gApply g i r cr) (g.s.nodes i).term r.node.log := by
        intro h; rw [h]; exact hpre.mono c.gle
      rcases hcase with ⟨h, _⟩ | ⟨k, h, _⟩ | ⟨f, m, _, hnode⟩
      · exact hlogsame h
      · obtain ⟨k', L, e1, e2, _⟩ := hpre
        refine ⟨k', L, c.gle.llogs _ e1, by rw [h]; exact e2.trans (List.prefix_append _ _), Or.inr ⟨?_, by rw [h, lastTerm_concat]⟩⟩
        have := c.li'.b i
        rw [c.node_self] at this
        exact this.mem_self (by rw [h]; simp)
      · exact hlogsame (ack_facts _ _ _ _ _ (c.cl i) _ hnode).2.2.2.1
    · refine ⟨i, r.node.log, ?_, List.prefix_rfl, Or.inl rfl⟩
      simp only [gApply_llogs]
      apply List.mem_append_left
      unfold llogDiff; rw [if_pos ⟨hrole, hold⟩]; simp
  · rw [c.node_other hj] at hrole ⊢
    exact (c.hi.n_ldr j hrole).mono c.gle

/-- MATCH SOUND.  At a leader of term `T`, `match_index[j] = m > 0` means: node `j`, while in term `T`,
    held a log that starts with the leader's first `m` entries. -/
theorem n_ms' (c : Ctx v g i inp r cr) : ∀ k, ((gApply g i r cr).s.nodes k).role = .leader → ∀ j,
    ((gApply g i r cr).s.nodes k).matchIndex.getD j 0 = 0 ∨
    (((gApply g i r cr).s.nodes k).matchIndex.getD j 0 ≤ ((gApply g i r cr).s.nodes k).log.length ∧
      ∃ L, (j, ((gApply g i r cr).s.nodes k).term, L) ∈ (gApply g i r cr).seen ∧
        ((gApply g i r cr).s.nodes k).log.take (((gApply g i r cr).s.nodes k).matchIndex.getD j 0) <+: L) := by
  intro k hrole j
  have lift : ∀ (y : Node), (y.matchIndex.getD j 0 = 0 ∨ (y.matchIndex.getD j 0 ≤ y.log.length ∧
        ∃ L, (j, y.term, L) ∈ g.seen ∧ y.log.take (y.matchIndex.getD j 0) <+: L)) →
      (y.matchIndex.getD j 0 = 0 ∨ (y.matchIndex.getD j 0 ≤ y.log.length ∧
        ∃ L, (j, y.term, L) ∈ (gApply g i r cr).seen ∧ y.log.take (y.matchIndex.getD j 0) <+: L)) := by
    intro y h
    rcases h with h | ⟨h1, L, h2, h3⟩
    · exact Or.inl h
    · exact Or.inr ⟨h1, L, c.gle.seen _ h2, h3⟩
  by_cases hk : k = i
  · rw [hk] at hrole ⊢
    rw [c.node_self] at hrole ⊢
    by_cases hold : (g.s.nodes i).role = .leader
    · obtain ⟨ht, hcase⟩ := c.oldleader hold hrole
      have hpre := c.hi.n_ms i hold j
      rcases hcase with ⟨h1, _, h3⟩ | ⟨k', h1, _, h3⟩ | ⟨f, m, hin, hnode⟩
      · rw [ht, h1, h3]; exact lift _ hpre
      · rw [ht, h3]
        rcases lift _ hpre with h | ⟨e1, L, e2, e3⟩
        · exact Or.inl h
        · refine Or.inr ⟨by rw [h1]; simp only [List.length_append, List.length_singleton]; omega, L, e2, ?_⟩
          rw [h1, List.take_append_of_le_length e1]; exact e3
      · obtain ⟨f1, _, _, f4, f5, _⟩ := ack_facts _ _ _ _ _ (c.cl i) _ hnode
        rw [f1, f4, f5, getD_set_nat]
        split
        · rename_i hjf
          obtain ⟨e, he, hb⟩ := c.hin _ hin
          rcases c.hi.m_ar e he _ _ _ hb with h | ⟨X, L, hX, h1, h2, h3⟩
          · exact Or.inl h
          · have hmax := c.leader_max hold hX
            refine Or.inr ⟨Nat.le_trans h1 hmax.length_le, L, ?_, ?_⟩
            · rw [hjf.1]; exact c.gle.seen _ h2
            · rw [take_eq_of_prefix hmax h1]; exact h3
        · exact lift _ hpre
    · rw [(c.newleader hrole hold).2.2.1]
      left
      rw [List.getD_eq_getElem?_getD, List.getElem?_replicate]
      split <;> rfl
  · rw [c.node_other hk] at hrole ⊢
    exact lift _ (c.hi.n_ms k hrole j)

theorem n_seen' (c : Ctx v g i inp r cr) : ∀ j, ((gApply g i r cr).s.nodes j).log = [] ∨
    (j, ((gApply g i r cr).s.nodes j).term, ((gApply g i r cr).s.nodes j).log) ∈ (gApply g i r cr).seen := by
  intro j
  by_cases hj : j = i
  · right; rw [hj, c.node_self]; simp
  · rw [c.node_other hj]
    rcases c.hi.n_seen j with h | h
    · exact Or.inl h
    · exact Or.inr (c.gle.seen _ h)

/-- THE COMMIT RULE MEANS QUORUM ACCEPTANCE.  When `_try_advance_commit` moves the commit index to `N`,
    the leader's first `N` entries are accepted, in its term, by itself and by every peer it counted. -/
theorem ack_qa (c : Ctx v g i inp r cr) {f m N : Nat} (hl : (g.s.nodes i).role = .leader)
    (hnode : r.node = (tryAdvance g.s.n (ackNode (g.s.nodes i) f m) i).node)
    (h1 : 1 ≤ N) (h2 : N ≤ (g.s.nodes i).log.length) (h3 : termAt (g.s.nodes i).log N = (g.s.nodes i).term)
    (h4 : quorum g.s.n ≤ countMatch g.s.n (ackNode (g.s.nodes i) f m) i N) :
    QA (gApply g i r cr) ((g.s.nodes i).log.take N) (g.s.nodes i).term := by
  obtain ⟨f1, f2, _, f4, f5, _⟩ := ack_facts _ _ _ _ _ (c.cl i) _ hnode
  have hKne : (g.s.nodes i).log.take N ≠ [] := by
    intro h0
    have := congrArg List.length h0
    simp only [List.length_take, List.length_nil] at this; omega
  have hKt : lastTerm ((g.s.nodes i).log.take N) = (g.s.nodes i).term := by
    rw [termAt_eq_lastTerm_take h1 h2]; exact h3
  refine ⟨i :: (peers g.s.n i).filter (fun j => decide ((ackNode (g.s.nodes i) f m).matchIndex.getD j 0 ≥ N)), ?_, ?_, ?_⟩
  · apply List.nodup_cons.mpr
    refine ⟨fun h => (mem_peers (List.mem_filter.mp h).1).2 rfl, (peers_nodup _ _).sublist List.filter_sublist⟩
  · intro j hj
    simp only [List.mem_cons] at hj
    rcases hj with hj | hj
    · rw [hj]
      refine ⟨c.hlt, hKne, hKt, (g.s.nodes i).log, ?_, List.take_prefix _ _⟩
      simp only [gApply_seen, f1, f4]; simp
    · obtain ⟨hj1, hj2⟩ := List.mem_filter.mp hj
      have hge : (ackNode (g.s.nodes i) f m).matchIndex.getD j 0 ≥ N := by simpa using hj2
      have hms := c.n_ms' i (by rw [c.node_self, f2]; exact hl) j
      rw [c.node_self, f5, f1, f4] at hms
      change ((g.s.nodes i).matchIndex.set f m).getD j 0 ≥ N at hge
      refine ⟨(mem_peers hj1).1, hKne, hKt, ?_⟩
      rcases hms with h | ⟨_, L, e2, e3⟩
      · omega
      · refine ⟨L, e2, List.IsPrefix.trans ?_ e3⟩
        rw [List.prefix_take_iff]
        exact ⟨List.take_prefix _ _, by rw [List.length_take]; omega⟩
  · show quorum g.s.n ≤ _
    simp only [List.length_cons]
    unfold countMatch at h4
    omega

theorem n_cn' (c : Ctx v g i inp r cr) : ∀ j, CommB (gApply g i r cr)
    (((gApply g i r cr).s.nodes j).log.take ((gApply g i r cr).s.nodes j).commit) ((gApply g i r cr).s.nodes j).term := by
  intro j
  by_cases hj : j = i
  · rw [hj, c.node_self]
    have hpre := c.hi.n_cn i
    have same : r.node.log.take r.node.commit = (g.s.nodes i).log.take (g.s.nodes i).commit →
        CommB (gApply g i r cr) (r.node.log.take r.node.commit) r.node.term := by
      intro h; rw [h]; exact hpre.mono c.gle c.term_le
    rcases c.hk with ⟨hlog, hcommit, _, _, _, _⟩ | ⟨t, _, _, _, _, _, hlog, hcommit, _, _, _, _, _, _, _⟩ | ⟨hlog, hcommit, _, _, _, _, _⟩
      | ⟨hlog, hcommit, _, _, _, _, _, _⟩ | ⟨hlog, hcommit, _, _, _, _, _, _⟩ | ⟨t, l, pi, pt, es, lc, src, hin, hle, hbad, hnode, _⟩
      | ⟨f, m, _, hl, hnode, _⟩ | ⟨k, _, hlog, hcommit, _, _, _, _, _⟩
    · exact same (by rw [hlog, hcommit])
    · exact same (by rw [hlog, hcommit])
    · exact same (by rw [hlog, hcommit])
    · exact same (by rw [hlog, hcommit])
    · exact same (by rw [hlog, hcommit])
    · obtain ⟨e1, _, _, X, _, _, _, _, _, _, hcase⟩ := c.accept hin hle hbad hnode
      rcases hcase with h | ⟨h1, h2⟩
      · exact same h
      · rw [h1, e1]; exact h2.mono c.gle (Nat.le_refl _)
    · obtain ⟨f1, _, _, f4, _, f6⟩ := ack_facts _ _ _ _ _ (c.cl i) _ hnode
      rcases f6 with h | ⟨N, h1, h2, h3, h4, h5⟩
      · exact same (by rw [f4, h])
      · rw [f4, h5, f1]
        exact Or.inr ⟨_, _, Nat.le_refl _, c.ack_qa hl hnode (by omega) h2 h3 h4, List.prefix_rfl⟩
    · apply same
      rw [hlog, hcommit, List.take_append_of_le_length (c.cl i)]
  · rw [c.node_other hj]; exact (c.hi.n_cn j).mono c.gle (Nat.le_refl _)

theorem n_a1' (c : Ctx v g i inp r cr) : ∀ f T K, Accepted (gApply g i r cr) f T K → K <+: ((gApply g i r cr).s.nodes f).log ∨
    ∃ t' c' L', (t', c', L') ∈ (gApply g i r cr).llogs ∧ T < t' ∧ t' ≤ ((gApply g i r cr).s.nodes f).term ∧ ¬ K <+: L' := by
  intro f T K hacc
  rcases c.accepted_post hacc with ha | ⟨e1, _, e3⟩
  · rcases c.hi.n_a1 f T K ha with hp | ⟨t', c', L', h1, h2, h3, h4⟩
    · by_cases hf : f = i
      · rw [hf] at ha hp ⊢
        rw [c.node_self]
        rcases c.log_cases with h | ⟨k, h, _⟩ | ⟨X, hX, h, hnp⟩
        · rw [h]; exact Or.inl hp
        · rw [h]; exact Or.inl (hp.trans (List.prefix_append _ _))
        · rw [h]
          by_cases hKX : K <+: X
          · exact Or.inl hKX
          · right
            obtain ⟨L0, hs, _⟩ := ha.2.2
            have hTle := Nat.le_trans (c.hi.s_term i T L0 hs) c.term_le
            have hTne : T ≠ r.node.term := by
              intro hT
              rcases hX.comparable c.hi (ha.mem_created c.hi) (by rw [ha.2.1, hT]) with h' | h'
              · exact hKX h'
              · exact hnp (h'.trans hp)
            obtain ⟨c', L', hL, hLX, _⟩ := hX
            exact ⟨r.node.term, c', L', c.gle.llogs _ hL, by omega, Nat.le_refl _, fun h' => hKX (h'.trans hLX)⟩
      · rw [c.node_other hf]; exact Or.inl hp
    · exact Or.inr ⟨t', c', L', c.gle.llogs _ h1, h2, Nat.le_trans h3 (c.term_post f), h4⟩
  · rw [e1, c.node_self]; exact Or.inl e3

end Ctx
end HappyModel.C11
