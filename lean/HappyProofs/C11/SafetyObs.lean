import HappyProofs.C11.HStepD
/-! From the invariant to what an observer sees: committed entries shown by frames are entries of
    committed prefixes (`CommObs`); these agree with each other and with every later leader's log. -/
namespace HappyModel.C11
open Spec

/-- the observed committed entry `x = (index, entry, term of the node showing it)` is entry `index`
    of a prefix committed in a term `≤` that term -/
def CommObs (g : GSt) (x : Nat × OEntry × Nat) : Prop :=
  ∃ K e, CommB g K x.2.2 ∧ 1 ≤ x.1 ∧ K[x.1 - 1]? = some e ∧ oe e = x.2.1

theorem CommObs.mono {g g' : GSt} (h : GLe g g') {x : Nat × OEntry × Nat} (c : CommObs g x) : CommObs g' x := by
  obtain ⟨K, e, h1, h2, h3, h4⟩ := c
  exact ⟨K, e, h1.mono h (Nat.le_refl _), h2, h3, h4⟩

theorem mem_viewsOf {s : St} {w : NodeView} (h : w ∈ viewsOf s) : ∃ j, j < s.n ∧ w = viewOf (s.nodes j) := by
  unfold viewsOf at h
  obtain ⟨j, hj, hw⟩ := List.mem_map.mp h
  exact ⟨j, List.mem_range.mp hj, hw.symm⟩

theorem viewOf_log (x : Node) : (viewOf x).log = x.log.map oe := rfl

/-- what a frame shows as committed is read off a node's committed prefix -/
theorem mem_committedOf_views {s : St} {f : Frame} (hf : f.views = viewsOf s) {x : Nat × OEntry × Nat} (hx : x ∈ committedOf f) :
    ∃ j e, j < s.n ∧ 1 ≤ x.1 ∧ ((s.nodes j).log.take (s.nodes j).commit)[x.1 - 1]? = some e ∧ oe e = x.2.1
      ∧ x.2.2 = (s.nodes j).term := by
  unfold committedOf at hx
  obtain ⟨w, hw, hxw⟩ := List.mem_flatMap.mp hx
  rw [hf] at hw
  obtain ⟨j, hj, rfl⟩ := mem_viewsOf hw
  obtain ⟨⟨e', p⟩, hmem, hxe⟩ := List.mem_map.mp hxw
  have hget := List.mem_zipIdx_iff_getElem?.mp hmem
  simp only at hget hxe
  rw [viewOf_log, ← List.map_take, List.getElem?_map] at hget
  obtain ⟨e, he1, he2⟩ := Option.map_eq_some_iff.mp hget
  refine ⟨j, e, hj, ?_, ?_, ?_, ?_⟩
  · rw [← hxe]; simp
  · rw [← hxe]
    have : (viewOf (s.nodes j)).commit = (s.nodes j).commit := rfl
    rw [this] at he1
    simpa using he1
  · rw [← hxe]; exact he2
  · rw [← hxe]; rfl

theorem commObs_of_frame {g : GSt} (inv : AllInv g) {f : Frame} (hf : f.views = viewsOf g.s) {x : Nat × OEntry × Nat}
    (hx : x ∈ committedOf f) : CommObs g x := by
  obtain ⟨j, e, _, h1, h2, h3, h4⟩ := mem_committedOf_views hf hx
  exact ⟨_, e, by rw [h4]; exact inv.hi.n_cn j, h1, h2, h3⟩

/-- two observed committed entries at one index are the same entry -/
theorem commObs_agree {g : GSt} (inv : AllInv g) {x y : Nat × OEntry × Nat} (hx : CommObs g x) (hy : CommObs g y)
    (h : x.1 = y.1) : x.2.1 = y.2.1 := by
  obtain ⟨K1, e1, c1, _, g1, o1⟩ := hx
  obtain ⟨K2, e2, c2, _, g2, o2⟩ := hy
  rw [← h] at g2
  have key : ∀ {Ka Kb : List Entry} {ea eb : Entry}, Ka <+: Kb → Ka[x.1 - 1]? = some ea → Kb[x.1 - 1]? = some eb → ea = eb := by
    intro Ka Kb ea eb hp ha hb
    obtain ⟨t, rfl⟩ := hp
    have hlt : x.1 - 1 < Ka.length := (List.getElem?_eq_some_iff.mp ha).1
    rw [List.getElem?_append_left hlt, ha] at hb
    exact Option.some.inj hb
  rcases c1.comparable inv.hi c2 with hp | hp
  · rw [← o1, ← o2, key hp g1 g2]
  · rw [← o1, ← o2, key hp g2 g1]

/-- an observed committed entry is in the log of every leader of a later term -/
theorem commObs_leader {g : GSt} (inv : AllInv g) {x : Nat × OEntry × Nat} (hx : CommObs g x) {i : Nat}
    (hl : (g.s.nodes i).role = .leader) (hlt : x.2.2 < (g.s.nodes i).term) :
    ((g.s.nodes i).log.map oe)[x.1 - 1]? = some x.2.1 := by
  obtain ⟨K, e, c, _, hg, ho⟩ := hx
  obtain ⟨k, L, h1, h2, _⟩ := inv.hi.n_ldr i hl
  obtain ⟨t, ht⟩ := (c.in_leader inv.hi h1 hlt).trans h2
  have hlen : x.1 - 1 < K.length := (List.getElem?_eq_some_iff.mp hg).1
  rw [List.getElem?_map, ← ht, List.getElem?_append_left hlen, hg, ← ho]; rfl

/-! ### per step: the commit index does not move backwards -/

theorem Ctx.commit_le {v : Variant} {g : GSt} {i : Nat} {inp : Option Body} {r : HR} {cr : List (List Entry)}
    (c : Ctx v g i inp r cr) : (g.s.nodes i).commit ≤ r.node.commit := by
  rcases c.hk with ⟨_, hc, _, _, _, _⟩ | ⟨_, _, _, _, _, _, _, hc, _, _, _, _, _, _, _⟩ | ⟨_, hc, _, _, _, _, _⟩
    | ⟨_, hc, _, _, _, _, _, _⟩ | ⟨_, hc, _, _, _, _, _, _⟩ | ⟨t, l, pi, pt, es, lc, src, hin, hle, hbad, hnode, _⟩
    | ⟨f, m, _, _, hnode, _⟩ | ⟨_, _, _, hc, _, _, _, _, _⟩
  · omega
  · omega
  · omega
  · omega
  · omega
  · obtain ⟨_, _, _, X, _, _, _, _, h, _⟩ := c.accept hin hle hbad hnode
    exact h
  · rcases (ack_facts _ _ _ _ _ (c.cl i) _ hnode).2.2.2.2.2 with h | ⟨N, h1, _, _, _, h5⟩ <;> omega
  · omega

theorem commit_step (v : Variant) (hr : Rep v) (g : GSt) (inv : AllInv g) (a : Act) :
    (step v g.s a).1.n = g.s.n ∧ ∀ j, (g.s.nodes j).commit ≤ ((step v g.s a).1.nodes j).commit := by
  rcases gstep_case v hr g inv a with ⟨hn, _, hsz, _⟩ | ⟨i, inp, r, cr, _, hs, c⟩
  · exact ⟨hsz, fun j => by rw [hn]; exact Nat.le_refl _⟩
  · rw [hs]
    refine ⟨rfl, fun j => ?_⟩
    simp only [applyHR]
    by_cases hj : j = i
    · rw [hj, upd_same]; exact c.commit_le
    · rw [upd_other _ _ _ _ hj]; exact Nat.le_refl _

/-- no step removes or replaces an entry at or below the commit index of the node it touches -/
theorem committed_kept_step (v : Variant) (hr : Rep v) (g : GSt) (inv : AllInv g) (a : Act) (j : Nat) :
    (g.s.nodes j).log.take (g.s.nodes j).commit <+: ((step v g.s a).1.nodes j).log := by
  rcases gstep_case v hr g inv a with ⟨hn, _, _, _⟩ | ⟨i, inp, r, cr, _, hs, c⟩
  · rw [hn]; exact List.take_prefix _ _
  · rw [hs]
    simp only [applyHR]
    by_cases hj : j = i
    · rw [hj, upd_same]
      rcases c.log_cases with h | ⟨k, h, _⟩ | ⟨X, hX, h, hnp⟩
      · rw [h]; exact List.take_prefix _ _
      · rw [h]; exact (List.take_prefix _ _).trans (List.prefix_append _ _)
      · rw [h]
        rcases (c.hi.n_cn i).vs_leaderLog c.hi hX c.term_le with h' | h'
        · exact h'
        · exact absurd (h'.trans (List.take_prefix _ _)) hnp
    · rw [upd_other _ _ _ _ hj]; exact List.take_prefix _ _

/-! ### the history `seen` is made of states the run went through -/

theorem seen_run (v : Variant) (as : List Act) : ∀ (g : GSt), ∀ x ∈ (grun v g as).seen,
    x ∈ g.seen ∨ ∃ k, k ≤ as.length ∧ ((run v g.s (as.take k)).nodes x.1).term = x.2.1
      ∧ ((run v g.s (as.take k)).nodes x.1).log = x.2.2 := by
  induction as with
  | nil => intro g x hx; exact Or.inl hx
  | cons a as ih =>
    intro g x hx
    rcases ih (gstep v g a) x hx with h | ⟨k, hk, h1, h2⟩
    · unfold gstep at h
      split at h
      · simp only [List.mem_cons] at h
        rcases h with h | h
        · right
          refine ⟨1, by simp, ?_, ?_⟩ <;> rw [h] <;> simp [run]
        · exact Or.inl h
      · exact Or.inl h
    · right
      refine ⟨k + 1, by simp; omega, ?_, ?_⟩
      · rw [List.take_succ_cons]; simp only [run]; rw [← gstep_s]; exact h1
      · rw [List.take_succ_cons]; simp only [run]; rw [← gstep_s]; exact h2

end HappyModel.C11
