import HappyProofs.C11.ProgConvRun
/-! The judge's bounded-progress clause (`Spec.stableOk`) accepts the model's own transcript of a
    settled stable run: if only `L` is ever seen leading (`onlyLeader`) and at the end every node's
    `last_applied` equals the length of `L`'s log (`settledAt`, which `stable_leader_commits` and
    `stable_all_apply` establish index by index under the schedule predicates), then every node has
    applied exactly the accepted commands, in submission order. -/
namespace HappyModel.C11
open Spec

/-- only `L` is ever seen in the leader role -/
def onlyLeader (L : Nat) (tr : List Frame) : Bool := tr.all (fun fr => (leaderObs fr).all (fun p => p.2 == L))

/-- every node has applied as many entries as `L`'s log holds -/
def settledAt (s : St) (L : Nat) : Bool := (List.range s.n).all (fun i => (s.nodes i).lastApplied == (s.nodes L).log.length)

theorem leaderObs_mem {s : St} {fr : Frame} (hf : fr.views = viewsOf s) {i : Nat} (hi : i < s.n) (hl : (s.nodes i).role = .leader) :
    ((s.nodes i).term, i) ∈ leaderObs fr := by
  unfold leaderObs
  rw [List.mem_filterMap]
  refine ⟨(viewOf (s.nodes i), i), ?_, ?_⟩
  · rw [List.mem_zipIdx_iff_getElem?, hf]; exact getElem?_viewsOf_lt hi
  · have : (viewOf (s.nodes i)).role = .leader := hl
    simp only [this, if_true]; rfl

/-- in a state whose frame shows only `L` leading, a leader is `L` -/
theorem only_L {s : St} {fr : Frame} {L : Nat} (hf : fr.views = viewsOf s) (ho : (leaderObs fr).all (fun p => p.2 == L) = true)
    {i : Nat} (hi : i < s.n) (hl : (s.nodes i).role = .leader) : i = L := by
  have := leaderObs_mem hf hi hl
  simp only [List.all_eq_true, beq_iff_eq] at ho
  exact ho _ this

/-! ### handlers that leave the log alone -/

theorem handleMsg_log_nonae (v : Variant) (n : Nat) (x : Node) (e : Env)
    (h : ∀ t l pi pt es lc, e.body ≠ .ae t l pi pt es lc) : (handleMsg v n x e).node.log = x.log := by
  unfold handleMsg
  split
  · unfold handleRV rvCore; split <;> split <;> rfl
  · unfold handleVR
    split
    · rfl
    · split
      · rfl
      · unfold vrCount; split <;> rfl
  · rename_i t l pi pt es lc hb; exact absurd hb (h t l pi pt es lc)
  · unfold handleAR
    split
    · rfl
    · split
      · rfl
      · split
        · rfl
        · split
          · rw [tryAdvance_log]
          · split <;> rfl

theorem handleTimeout_log (n : Nat) (x : Node) (me : Nat) : (handleTimeout n x me).node.log = x.log := by
  unfold handleTimeout
  split
  · rfl
  · split <;> rfl

theorem handleHB_log (n : Nat) (x : Node) (me : Nat) : (handleHB n x me).node.log = x.log := by
  unfold handleHB; split <;> rfl

theorem handleSubmit_role (x : Node) (f : Nat) (c : Cmd) : (handleSubmit x f c).node.role = x.role := by
  unfold handleSubmit; split <;> rfl

/-! ### all AppendEntries come from `L` -/

def AeL (g : GSt) (L : Nat) : Prop := ∀ e ∈ g.s.msgs, ∀ t l pi pt es lc, e.body = .ae t l pi pt es lc → e.src = L

theorem aeL_step (v : Variant) (hr : Rep v) (g : GSt) (inv : PInv g) {L : Nat} (h : AeL g L) (a : Act)
    (ho : (leaderObs (frameOf (step v g.s a).1 (step v g.s a).2 a)).all (fun p => p.2 == L) = true) : AeL (gstep v g a) L := by
  rcases gstep_case v hr g inv.all a with ⟨_, hm, _, hg⟩ | ⟨i, inp, r, cr, hg, hs, c⟩
  · rw [hg]; intro e he; exact h e (hm e he)
  · rw [hg]
    intro e he t l pi pt es lc hb
    rcases gApply_msgs he with h0 | ⟨hsrc, hsend⟩
    · exact h e h0 t l pi pt es lc hb
    · obtain ⟨hrole, _⟩ := c.ae_sent ⟨t, l, pi, pt, es, lc, hb⟩ hsend
      rw [hsrc]
      have hn : ((step v g.s a).1.nodes i) = r.node := by rw [hs]; simp only [applyHR, upd_same]
      exact only_L (s := (step v g.s a).1) rfl ho (by rw [step_n]; exact c.hlt) (by rw [hn]; exact hrole)

/-! ### the accepted commands are `L`'s log -/

/-- what a frame contributes to `acceptedCmds` -/
def accOf (f : Frame) : List Nat :=
  match f.submit with
  | some (i, _, c) => match f.views[i]? with
    | some w => if w.role = .leader then [c] else []
    | none => []
  | none => []

theorem acceptedCmds_cons (f : Frame) (tr : List Frame) : acceptedCmds (f :: tr) = accOf f ++ acceptedCmds tr := by
  unfold acceptedCmds accOf
  rw [List.filterMap_cons]
  cases hs : f.submit with
  | none => simp
  | some p =>
    obtain ⟨i, f', c⟩ := p
    simp only []
    cases hv : f.views[i]? with
    | none => simp
    | some w =>
      by_cases hw : w.role = .leader <;> simp [hw]

/-- one step, seen by `L`'s log and by `acceptedCmds` -/
theorem acc_step (v : Variant) (g : GSt) {L : Nat} (hL : L < g.s.n) (h : AeL g L) (a : Act)
    (ho : (leaderObs (frameOf (step v g.s a).1 (step v g.s a).2 a)).all (fun p => p.2 == L) = true) :
    ∃ ids : List Entry, ((step v g.s a).1.nodes L).log = (g.s.nodes L).log ++ ids
      ∧ accOf (frameOf (step v g.s a).1 (step v g.s a).2 a) = ids.map (·.cmd.id) := by
  have nosub : submitOf a = none → accOf (frameOf (step v g.s a).1 (step v g.s a).2 a) = [] := by
    intro h; simp [accOf, frameOf, h]
  have other : ∀ (i : Nat) (r : HR), step v g.s a = applyHR g.s i r → i ≠ L → ((step v g.s a).1.nodes L).log = (g.s.nodes L).log := by
    intro i r hs hi; rw [hs]; simp only [applyHR]; rw [upd_other _ _ _ _ (fun h => hi h.symm)]
  have self : ∀ (r : HR), step v g.s a = applyHR g.s L r → ((step v g.s a).1.nodes L).log = r.node.log := by
    intro r hs; rw [hs]; simp only [applyHR, upd_same]
  cases hsub : submitOf a with
  | none =>
    refine ⟨[], ?_, by rw [nosub hsub]; rfl⟩
    rw [List.append_nil]
    rcases step_case2 v g.s a with ⟨hn, _, _, _⟩ | ⟨m0, e, ha, hf, hc, hs⟩ | ⟨i, hs⟩ | ⟨i, hs⟩ | ⟨i, f, c, ha, hs⟩
    · rw [hn]
    · by_cases hd : e.dst = L
      · rw [hd] at hs
        rw [self _ hs, handleMsg_log_nonae]
        intro t l pi pt es lc hb
        have hsrc := h e (findMsg_mem hf) t l pi pt es lc hb
        simp only [canDeliver, Bool.and_eq_true, decide_eq_true_eq] at hc
        exact hc.2 (by rw [hsrc, hd])
      · exact other _ _ hs hd
    · by_cases hi : i = L
      · subst hi; rw [self _ hs, handleTimeout_log]
      · exact other _ _ hs hi
    · by_cases hi : i = L
      · subst hi; rw [self _ hs, handleHB_log]
      · exact other _ _ hs hi
    · rw [ha] at hsub; cases hsub
  | some q =>
    cases a with
    | submit i f c =>
      by_cases hin : i < g.s.n
      · have hs : step v g.s (.submit i f c) = applyHR g.s i (handleSubmit (g.s.nodes i) f c) := by simp [step, hin]
        have hview : (viewsOf (step v g.s (.submit i f c)).1)[i]? = some (viewOf ((step v g.s (.submit i f c)).1.nodes i)) :=
          getElem?_viewsOf_lt (by rw [step_n]; exact hin)
        have hnode : (step v g.s (.submit i f c)).1.nodes i = (handleSubmit (g.s.nodes i) f c).node := by
          rw [hs]; simp only [applyHR, upd_same]
        by_cases hl : (g.s.nodes i).role = .leader
        · have hl' : ((step v g.s (.submit i f c)).1.nodes i).role = .leader := by rw [hnode, handleSubmit_role]; exact hl
          have hiL : i = L := only_L (s := (step v g.s (.submit i f c)).1) rfl ho (by rw [step_n]; exact hin) hl'
          subst hiL
          refine ⟨[⟨(g.s.nodes i).term, c⟩], ?_, ?_⟩
          · rw [hnode, leader_submit _ _ _ hl]; rfl
          · have : (viewOf ((step v g.s (.submit i f c)).1.nodes i)).role = .leader := hl'
            simp [accOf, frameOf, submitOf, hview, this]
        · have hl' : ((step v g.s (.submit i f c)).1.nodes i).role ≠ .leader := by rw [hnode, handleSubmit_role]; exact hl
          refine ⟨[], ?_, ?_⟩
          · rw [List.append_nil]
            by_cases hi : i = L
            · subst hi
              rw [hnode]; unfold handleSubmit; rw [if_pos hl]
            · exact other _ _ hs hi
          · have : ¬ (viewOf ((step v g.s (.submit i f c)).1.nodes i)).role = .leader := hl'
            simp [accOf, frameOf, submitOf, hview, this]
      · have hst : (step v g.s (.submit i f c)).1 = g.s := by simp [step, hin]
        have hv : (viewsOf (step v g.s (.submit i f c)).1)[i]? = none := by
          unfold viewsOf
          rw [List.getElem?_eq_none]
          rw [List.length_map, List.length_range, step_n]; omega
        exact ⟨[], by rw [hst]; simp, by simp [accOf, frameOf, submitOf, hv]⟩
    | _ => simp [submitOf] at hsub

/-- along a run on which only `L` is seen leading: `L`'s log only grows, by exactly the accepted commands, and every
    frame shows a prefix of its final log -/
theorem acc_run (v : Variant) (hr : Rep v) {L : Nat} : ∀ (as : List Act) (g : GSt), PInv g → L < g.s.n → AeL g L →
    onlyLeader L (framesFrom v g.s as) = true →
    ∃ ids : List Entry, ((run v g.s as).nodes L).log = (g.s.nodes L).log ++ ids
      ∧ acceptedCmds (framesFrom v g.s as) = ids.map (·.cmd.id)
      ∧ ∀ fr ∈ framesFrom v g.s as, ∀ w, fr.views[L]? = some w → ∃ K, K <+: ((run v g.s as).nodes L).log ∧ w.log = K.map oe := by
  intro as
  induction as with
  | nil =>
    intro g _ _ _ _
    exact ⟨[], by simp [run], by simp [framesFrom, acceptedCmds], by intro fr hfr; simp [framesFrom] at hfr⟩
  | cons a as ih =>
    intro g inv hL hae ho
    simp only [framesFrom, onlyLeader, List.all_cons, Bool.and_eq_true] at ho
    obtain ⟨ids0, hlog0, hacc0⟩ := acc_step v g hL hae a ho.1
    obtain ⟨ids1, hlog1, hacc1, hfr1⟩ := ih (gstep v g a) (pinv_step v hr g inv a) (by rw [gstep_s, step_n]; exact hL)
      (aeL_step v hr g inv hae a ho.1) (by rw [gstep_s]; exact ho.2)
    rw [gstep_s] at hlog1 hacc1 hfr1
    refine ⟨ids0 ++ ids1, ?_, ?_, ?_⟩
    · simp only [run]; rw [hlog1, hlog0, List.append_assoc]
    · simp only [framesFrom]; rw [acceptedCmds_cons, hacc0, hacc1, List.map_append]
    · intro fr hfr w hw
      simp only [framesFrom, List.mem_cons] at hfr
      rcases hfr with hfr | hfr
      · rw [hfr] at hw
        have : (viewsOf (step v g.s a).1)[L]? = some (viewOf ((step v g.s a).1.nodes L)) :=
          getElem?_viewsOf_lt (by rw [step_n]; exact hL)
        rw [show (frameOf (step v g.s a).1 (step v g.s a).2 a).views = viewsOf (step v g.s a).1 from rfl, this] at hw
        simp only [Option.some.injEq] at hw
        refine ⟨((step v g.s a).1.nodes L).log, ?_, by rw [← hw]; rfl⟩
        simp only [run]; rw [hlog1]; exact List.prefix_append _ _
      · simp only [run]; exact hfr1 fr hfr w hw

end HappyModel.C11
