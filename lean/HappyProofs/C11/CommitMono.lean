import HappyProofs.C11.ApplyLog
/-! The commit index of a node is bounded by its log and never moves backwards — except through
    `Log.truncate_from` when an AppendEntries conflicts with an entry at or below the commit index
    (which Leader Completeness rules out; that part is not proved here). -/
namespace HappyModel.C11
open Spec

theorem advance_commit (x : Node) (new : Nat) (hlen : x.commit ≤ x.log.length) :
    (advanceCommit { node := x } new).node.commit ≤ (advanceCommit { node := x } new).node.log.length
    ∧ x.commit ≤ (advanceCommit { node := x } new).node.commit := by
  unfold advanceCommit
  simp only []
  split
  · exact ⟨hlen, Nat.le_refl _⟩
  · rw [applyFrom_log, applyFrom_commit]
    show min new x.log.length ≤ x.log.length ∧ x.commit ≤ min new x.log.length
    omega

theorem truncate_clen (v : Variant) (x : Node) (idx : Nat) (hlen : x.commit ≤ x.log.length) :
    (truncateFrom v x idx).commit ≤ (truncateFrom v x idx).log.length := by
  unfold truncateFrom; split
  · exact hlen
  · simp only [List.length_take]; split <;> omega

theorem appendLoop_clen (v : Variant) (es : List Entry) : ∀ (x : Node) (idx : Nat), x.commit ≤ x.log.length →
    (appendLoop v x idx es).commit ≤ (appendLoop v x idx es).log.length := by
  induction es with
  | nil => intro x idx h; exact h
  | cons e es ih =>
    intro x idx h
    simp only [appendLoop]
    split
    · split
      · apply ih
        have := truncate_clen v x idx h
        simp only [List.length_append, List.length_singleton]; omega
      · exact ih x (idx + 1) h
    · apply ih; simp only [List.length_append, List.length_singleton]; omega

/-- no entry of `es` (placed from index `idx` on) conflicts with an entry of `x` at or below its commit index -/
def NoConflict (x : Node) (idx : Nat) (es : List Entry) : Prop :=
  ∀ j, ∀ hj : j < es.length, idx + j ≤ x.commit → ∀ ex, getE x.log (idx + j) = some ex → ex.term = es[j].term

theorem appendLoop_commit (v : Variant) (es : List Entry) : ∀ (x : Node) (idx : Nat), 1 ≤ idx → NoConflict x idx es →
    (appendLoop v x idx es).commit = x.commit := by
  induction es with
  | nil => intro x idx _ _; rfl
  | cons e es ih =>
    intro x idx hidx hnc
    simp only [appendLoop]
    split
    · rename_i ex hex
      split
      · rename_i hne
        have hgt : x.commit < idx := by
          apply Classical.byContradiction; intro hle
          exact hne (hnc 0 (by simp) (by omega) ex (by simpa using hex))
        obtain ⟨k, hk⟩ : ∃ k, idx = k + 1 := ⟨idx - 1, by omega⟩
        have hkl : k < x.log.length := by rw [hk] at hex; exact (getE_some hex).1
        have htc : (truncateFrom v x idx).commit = x.commit := by
          unfold truncateFrom
          rw [if_neg (by omega)]
          simp only []; rw [if_neg (by omega)]
        rw [ih _ (idx + 1) (by omega)]
        · exact htc
        · intro j hj hle; exfalso
          have : ({ truncateFrom v x idx with log := (truncateFrom v x idx).log ++ [e] } : Node).commit = x.commit := htc
          rw [this] at hle; omega
      · apply ih x (idx + 1) (by omega)
        intro j hj hle ex' hex'
        have := hnc (j + 1) (by simp; omega) (by omega) ex' (by rw [show idx + (j + 1) = idx + 1 + j by omega]; exact hex')
        simpa using this
    · rename_i hnone
      obtain ⟨k, hk⟩ : ∃ k, idx = k + 1 := ⟨idx - 1, by omega⟩
      have hkl : x.log.length ≤ k := by rw [hk] at hnone; exact getE_none hnone
      rw [ih _ (idx + 1) (by omega)]
      intro j hj hle ex' hex'
      exfalso
      have hl : (x.log ++ [e]).length ≤ idx + 1 + j - 1 := by simp; omega
      have : getE (x.log ++ [e]) (idx + 1 + j) = none := by
        rw [show idx + 1 + j = (idx + j) + 1 by omega, getE_succ]
        apply List.getElem?_eq_none; simp; omega
      rw [this] at hex'; cases hex'

theorem aeCommit_commit (x : Node) (lc : Nat) (hlen : x.commit ≤ x.log.length) :
    (aeCommit x lc).node.commit ≤ (aeCommit x lc).node.log.length ∧ x.commit ≤ (aeCommit x lc).node.commit := by
  unfold aeCommit; split
  · exact advance_commit x _ hlen
  · exact ⟨hlen, Nat.le_refl _⟩

/-- `commit ≤ len(log)` is kept by `_handle_append_entries`; the commit index does not decrease when
    the entries do not conflict with the committed prefix -/
theorem ae_commit (v : Variant) (x : Node) (me src t pi pt : Nat) (es : List Entry) (lc : Nat)
    (hlen : x.commit ≤ x.log.length) :
    (handleAE v x me src t pi pt es lc).node.commit ≤ (handleAE v x me src t pi pt es lc).node.log.length
    ∧ (NoConflict x (pi + 1) es → x.commit ≤ (handleAE v x me src t pi pt es lc).node.commit) := by
  unfold handleAE
  split
  · exact ⟨hlen, fun _ => Nat.le_refl _⟩
  · split
    · exact ⟨hlen, fun _ => Nat.le_refl _⟩
    · have h1 := appendLoop_clen v es (stepDown v x t) (pi + 1) hlen
      obtain ⟨a1, a2⟩ := aeCommit_commit _ lc h1
      refine ⟨a1, ?_⟩
      intro hnc
      have := appendLoop_commit v es (stepDown v x t) (pi + 1) (by omega) hnc
      show x.commit ≤ (aeCommit (appendLoop v (stepDown v x t) (pi + 1) es) lc).node.commit
      rw [this] at a2; exact a2

theorem tryAdvance_commit (n : Nat) (x : Node) (me : Nat) (hlen : x.commit ≤ x.log.length) :
    (tryAdvance n x me).node.commit ≤ (tryAdvance n x me).node.log.length ∧ x.commit ≤ (tryAdvance n x me).node.commit := by
  unfold tryAdvance; split
  · exact advance_commit x _ hlen
  · exact ⟨hlen, Nat.le_refl _⟩

theorem ar_commit (v : Variant) (n : Nat) (x : Node) (me t : Nat) (s : Bool) (f mi : Nat) (hlen : x.commit ≤ x.log.length) :
    (handleAR v n x me t s f mi).node.commit ≤ (handleAR v n x me t s f mi).node.log.length
    ∧ x.commit ≤ (handleAR v n x me t s f mi).node.commit := by
  unfold handleAR
  split
  · exact ⟨hlen, Nat.le_refl _⟩
  · split
    · exact ⟨hlen, Nat.le_refl _⟩
    · split
      · exact ⟨hlen, Nat.le_refl _⟩
      · split
        · exact tryAdvance_commit n _ me hlen
        · split <;> exact ⟨hlen, Nat.le_refl _⟩

/-- the delivered message is an AppendEntries that conflicts with a committed entry of its destination -/
def conflictBelowCommit (s : St) : Act → Prop
  | .deliver m =>
    match findMsg s m with
    | some e =>
      match e.body with
      | .ae _ _ pi _ es _ => ¬ NoConflict (s.nodes e.dst) (pi + 1) es
      | _ => False
    | none => False
  | _ => False

def CLen (s : St) : Prop := ∀ j, (s.nodes j).commit ≤ (s.nodes j).log.length

theorem msg_commit (v : Variant) (n : Nat) (x : Node) (e : Env) (hlen : x.commit ≤ x.log.length) :
    (handleMsg v n x e).node.commit ≤ (handleMsg v n x e).node.log.length
    ∧ ((∀ t l pi pt es lc, e.body = .ae t l pi pt es lc → NoConflict x (pi + 1) es) → x.commit ≤ (handleMsg v n x e).node.commit) := by
  unfold handleMsg
  split
  · unfold handleRV rvCore; split <;> split <;> exact ⟨hlen, fun _ => Nat.le_refl _⟩
  · unfold handleVR; split
    · exact ⟨hlen, fun _ => Nat.le_refl _⟩
    · split
      · exact ⟨hlen, fun _ => Nat.le_refl _⟩
      · unfold vrCount; split <;> exact ⟨hlen, fun _ => Nat.le_refl _⟩
  · rename_i t l pi pt es lc hb
    obtain ⟨a1, a2⟩ := ae_commit v x e.dst e.src t pi pt es lc hlen
    exact ⟨a1, fun h => a2 (h t l pi pt es lc hb)⟩
  · obtain ⟨a1, a2⟩ := ar_commit v n x e.dst _ _ _ _ hlen
    exact ⟨a1, fun _ => a2⟩

/-- COMMIT MONOTONE (partial).  Every step keeps `commit ≤ len(log)` at every node, and no step
    lowers any node's commit index unless it delivers an AppendEntries whose entries conflict with an
    entry at or below the destination's commit index. -/
theorem commit_monotone_partial (v : Variant) (s : St) (a : Act) (hlen : CLen s) :
    CLen (step v s a).1 ∧ (¬ conflictBelowCommit s a → ∀ j, (s.nodes j).commit ≤ ((step v s a).1.nodes j).commit) := by
  have handler : ∀ (i : Nat) (r : HR), step v s a = applyHR s i r → r.node.commit ≤ r.node.log.length →
      (¬ conflictBelowCommit s a → (s.nodes i).commit ≤ r.node.commit) →
      CLen (step v s a).1 ∧ (¬ conflictBelowCommit s a → ∀ j, (s.nodes j).commit ≤ ((step v s a).1.nodes j).commit) := by
    intro i r hs h1 h2
    rw [hs]
    constructor
    · intro j; simp only [applyHR]
      by_cases hj : j = i
      · subst hj; simp only [upd_same]; exact h1
      · rw [upd_other _ _ _ _ hj]; exact hlen j
    · intro hnc j; simp only [applyHR]
      by_cases hj : j = i
      · subst hj; simp only [upd_same]; exact h2 hnc
      · rw [upd_other _ _ _ _ hj]; exact Nat.le_refl _
  cases a with
  | deliver m =>
    cases hf : findMsg s m with
    | none => simp only [step, hf]; exact ⟨hlen, fun _ _ => Nat.le_refl _⟩
    | some e =>
      cases hg : canDeliver s e with
      | false => simp only [step, hf, hg]; exact ⟨hlen, fun _ _ => Nat.le_refl _⟩
      | true =>
        obtain ⟨a1, a2⟩ := msg_commit v s.n (s.nodes e.dst) e (hlen e.dst)
        apply handler e.dst (handleMsg v s.n (s.nodes e.dst) e) (by simp only [step, hf, hg, if_true]) a1
        intro hnc
        apply a2
        intro t l pi pt es lc hb
        apply Classical.byContradiction; intro hcon
        apply hnc
        simp only [conflictBelowCommit, hf, hb]; exact hcon
  | timeout i =>
    cases hg : alive s i with
    | false => simp only [step, hg]; exact ⟨hlen, fun _ _ => Nat.le_refl _⟩
    | true =>
      apply handler i (handleTimeout s.n (s.nodes i) i) (by simp only [step, hg, if_true])
      · unfold handleTimeout; split
        · exact hlen i
        · split <;> exact hlen i
      · intro _; unfold handleTimeout; split
        · exact Nat.le_refl _
        · split <;> exact Nat.le_refl _
  | heartbeat i =>
    cases hg : alive s i with
    | false => simp only [step, hg]; exact ⟨hlen, fun _ _ => Nat.le_refl _⟩
    | true =>
      apply handler i (handleHB s.n (s.nodes i) i) (by simp only [step, hg, if_true])
      · unfold handleHB; split <;> exact hlen i
      · intro _; unfold handleHB; split <;> exact Nat.le_refl _
  | submit i f c =>
    by_cases hg : i < s.n
    · apply handler i (handleSubmit (s.nodes i) f c) (by simp [step, hg])
      · unfold handleSubmit; split
        · exact hlen i
        · have := hlen i; simp only [List.length_append, List.length_singleton]; omega
      · intro _; unfold handleSubmit; split <;> exact Nat.le_refl _
    · simp only [step, hg, decide_false]; exact ⟨hlen, fun _ _ => Nat.le_refl _⟩
  | drop m => exact ⟨hlen, fun _ _ => Nat.le_refl _⟩
  | crash i => exact ⟨hlen, fun _ _ => Nat.le_refl _⟩
  | restart i => exact ⟨hlen, fun _ _ => Nat.le_refl _⟩

theorem clen_run (v : Variant) (as : List Act) : ∀ s, CLen s → CLen (run v s as) := by
  induction as with
  | nil => intro s h; exact h
  | cons a as ih => intro s h; exact ih _ (commit_monotone_partial v s a h).1

/-- the premise of `commit_monotone_partial` holds in every reachable state -/
theorem clen_reachable (v : Variant) (n : Nat) (as : List Act) : CLen (run v (init n) as) :=
  clen_run v as (init n) (by intro j; simp [init, initNode])

end HappyModel.C11
