import HappyProofs.C11.HInv
/-! What accepting an AppendEntries does to a follower, given the invariant: the log becomes (or
    already contains) the leader's log `X` the message was cut from, nothing committed is touched,
    and the new commit index is again a committed prefix. -/
namespace HappyModel.C11

theorem aeCommit_commit_eq (y : Node) (lc : Nat) :
    (aeCommit y lc).node.commit = y.commit
    ∨ (y.commit < min lc y.log.length ∧ (aeCommit y lc).node.commit = min lc y.log.length) := by
  unfold aeCommit
  split
  · unfold advanceCommit
    simp only []
    split
    · exact Or.inl rfl
    · right
      rw [applyFrom_commit]
      show y.commit < min lc y.log.length ∧ min (min lc y.log.length) y.log.length = min lc y.log.length
      omega
  · exact Or.inl rfl

/-- the consistency check passed: the follower's first `pi` entries are the leader's -/
theorem prev_agree {g : GSt} (li : LInv g) (hi : HInv g) {l X : List Entry} (hl : Rec g.created l) (hX : Rec g.created X)
    {x : Node} (hxl : x.log = l) {pi pt : Nat} (hpt : pt = (if pi > 0 then termAt X pi else 0))
    (hbad : aeBad x pi pt = false) : pi ≤ X.length ∧ pi ≤ l.length ∧ l.take pi = X.take pi := by
  by_cases hpos : pi > 0
  · obtain ⟨k, rfl⟩ : ∃ k, pi = k + 1 := ⟨pi - 1, by omega⟩
    unfold aeBad at hbad
    simp only [hpos, decide_true, Bool.true_and] at hbad
    split at hbad
    · cases hbad
    · rename_i ex hex
      rw [hxl] at hex
      obtain ⟨hkl, hexk⟩ := getE_some hex
      have hterm : ex.term = pt := by simpa using hbad
      rw [if_pos hpos] at hpt
      by_cases hkX : k < X.length
      · have hta : termAt X (k + 1) = X[k].term := by simp [termAt, getE, List.getElem?_eq_getElem hkX]
        refine ⟨by omega, by omega, rec_det li.g1 hl hX hkl hkX ?_⟩
        rw [hexk, hterm, hpt, hta]
      · exfalso
        have hta : termAt X (k + 1) = 0 := by
          have : X[k]? = none := List.getElem?_eq_none (by omega)
          simp [termAt, getE, this]
        have hmem := hl k hkl
        obtain ⟨c, L, hL, _⟩ := hi.r_ll _ hmem
        have := hi.ll_lt _ c L hL
        rw [lastTerm_take hkl, hexk, hterm, hpt, hta] at this
        omega
  · have : pi = 0 := by omega
    subst this
    exact ⟨by omega, by omega, by simp⟩

theorem stepDown_log (v : Variant) (x : Node) (t : Nat) : (stepDown v x t).log = x.log := rfl
theorem stepDown_commit (v : Variant) (x : Node) (t : Nat) : (stepDown v x t).commit = x.commit := rfl

/-- the append loop under the invariant -/
theorem loop_facts {g : GSt} (v : Variant) (li : LInv g) (hi : HInv g) {x : Node} (hrec : Rec g.created x.log)
    (hcl : x.commit ≤ x.log.length) {b : Nat} (hcn : CommB g (x.log.take x.commit) b) {t : Nat} (hbt : b ≤ t)
    {X : List Entry} (hX : LeaderLog g t X) {pi : Nat} (hpi : pi ≤ X.length) (hpl : pi ≤ x.log.length)
    (hpre : x.log.take pi = X.take pi) :
    X <+: (appendLoop v x (pi + 1) (X.drop pi)).log
    ∧ ((appendLoop v x (pi + 1) (X.drop pi)).log = x.log ∨ ((appendLoop v x (pi + 1) (X.drop pi)).log = X ∧ ¬ X <+: x.log))
    ∧ (appendLoop v x (pi + 1) (X.drop pi)).commit = x.commit
    ∧ (appendLoop v x (pi + 1) (X.drop pi)).log.take x.commit = x.log.take x.commit := by
  have hXrec := hX.rec hi
  have hQlen : (X.take pi).length = pi := by rw [List.length_take]; omega
  have hQes : X.take pi ++ X.drop pi = X := List.take_append_drop pi X
  have hchar := appendLoop_char v (X.drop pi) x (X.take pi) (by rw [hQlen]; exact hpre) (by rw [hQlen]; exact hpl)
    (by intro j k ex hk hj hget hterm
        rw [hQlen] at hk
        rw [List.length_drop] at hj
        obtain ⟨hkl, hexk⟩ := List.getElem?_eq_some_iff.mp hget
        have hkX : k < X.length := by omega
        have he : (X.drop pi)[j] = X[k] := by rw [List.getElem_drop]; congr 1; omega
        rw [he] at hterm ⊢
        rw [← hexk] at hterm ⊢
        exact rec_det_elem li.g1 hrec hXrec hkl hkX hterm)
  rw [hQlen, hQes] at hchar
  by_cases hp : X <+: x.log
  · rw [hchar.1 hp]
    exact ⟨hp, Or.inl rfl, rfl, rfl⟩
  · have hlog := hchar.2 hp
    -- the committed prefix is inside `X`
    have hKX : x.log.take x.commit <+: X := by
      rcases hcn.vs_leaderLog hi hX hbt with h | h
      · exact h
      · exact absurd (h.trans (List.take_prefix _ _)) hp
    have hKlen : (x.log.take x.commit).length = x.commit := by rw [List.length_take]; omega
    have hnc : NoConflict x (pi + 1) (X.drop pi) := by
      intro j hj hle ex hex
      rw [List.length_drop] at hj
      rw [show pi + 1 + j = (pi + j) + 1 by omega] at hex
      obtain ⟨hkl, hexk⟩ := getE_some hex
      have hkK : pi + j < (x.log.take x.commit).length := by rw [hKlen]; omega
      have h1 : (x.log.take x.commit)[pi + j] = x.log[pi + j] := by rw [List.getElem_take]
      have h2 := hKX.getElem hkK
      have h3 : (X.drop pi)[j] = X[pi + j] := by rw [List.getElem_drop]
      rw [h3, ← h2, h1, hexk]
    have hcom := appendLoop_commit v (X.drop pi) x (pi + 1) (by omega) hnc
    refine ⟨by rw [hlog]; exact List.prefix_rfl, Or.inr ⟨hlog, hp⟩, hcom, ?_⟩
    rw [hlog]
    have := prefix_take_eq hKX
    rw [hKlen] at this; exact this

/-- ACCEPT.  Everything later proofs need to know about the node an accepted AppendEntries leaves. -/
theorem accept_facts {g : GSt} (v : Variant) (hr : Rep v) (li : LInv g) (hi : HInv g) (x : Node)
    (hrec : Rec g.created x.log) (hcl : x.commit ≤ x.log.length) (hcn : CommB g (x.log.take x.commit) x.term)
    {t pi pt : Nat} {es : List Entry} {lc : Nat} (haem : AEM g t pi pt es lc) (hle : x.term ≤ t)
    (hbad : aeBad (stepDown v x t) pi pt = false) (y : Node)
    (hy : y = (aeCommit (appendLoop v (stepDown v x t) (pi + 1) es) lc).node) :
    y.term = t ∧ y.role = .follower ∧ (y.votedFor = none ∨ (y.votedFor = x.votedFor ∧ y.term = x.term)) ∧
    ∃ X, LeaderLog g t X ∧ pi + es.length = X.length ∧ X <+: y.log ∧ (y.log = x.log ∨ (y.log = X ∧ ¬ X <+: x.log)) ∧
      x.commit ≤ y.commit ∧ y.commit ≤ y.log.length ∧
      (y.log.take y.commit = x.log.take x.commit ∨ (y.log.take y.commit = X.take lc ∧ CommB g (X.take lc) t)) := by
  obtain ⟨X, hX, hes, hpt, hlc, hcomm⟩ := haem
  subst hes
  have hev : y.ev = (stepDown v x t).ev := by
    rw [hy, aeCommit_ev, appendLoop_ev]
  obtain ⟨e1, e2, e3, _⟩ := ev_eq hev
  obtain ⟨hpiX, hpil, hpre⟩ := prev_agree li hi hrec (hX.rec hi) (stepDown_log v x t) hpt hbad
  obtain ⟨f1, f2, f3, f4⟩ := loop_facts v li hi (x := stepDown v x t) hrec hcl hcn hle hX hpiX hpil hpre
  rw [stepDown_log] at f2 f4
  rw [stepDown_commit] at f3 f4
  refine ⟨e1, e3, ?_, X, hX, by rw [List.length_drop]; omega, ?_⟩
  · rw [e1, e2]
    rcases stepDown_vf v hr.kv x t hle with h | h
    · exact Or.inl h
    · exact Or.inr h
  · generalize hz : appendLoop v (stepDown v x t) (pi + 1) (X.drop pi) = z at *
    have hylog : y.log = z.log := by rw [hy, aeCommit_log]
    have hzlen : x.commit ≤ z.log.length := by
      rcases f2 with h | ⟨h, _⟩
      · rw [h]; exact hcl
      · have := f1.length_le
        have h2 : (z.log.take x.commit).length = (x.log.take x.commit).length := by rw [f4]
        simp only [List.length_take] at h2; omega
    refine ⟨by rw [hylog]; exact f1, by rw [hylog]; exact f2, ?_⟩
    rcases aeCommit_commit_eq z lc with h | ⟨h1, h2⟩
    · refine ⟨by rw [hy, h, f3]; exact Nat.le_refl _, by rw [hylog, hy, h, f3]; exact hzlen, Or.inl ?_⟩
      rw [hylog, hy, h, f3]; exact f4
    · have hXz := f1.length_le
      have hmin : min lc z.log.length = lc := by omega
      rw [hmin] at h1 h2
      refine ⟨by rw [hy, h2]; omega, by rw [hylog, hy, h2]; omega, Or.inr ⟨?_, hcomm⟩⟩
      rw [hylog, hy, h2]
      exact take_eq_of_prefix f1 hlc

end HappyModel.C11
