import HappyProofs.C11.CommitMono
import HappyProofs.C11.ApplyAgree
/-! Leader Completeness, State-Machine Safety and Commit Monotonicity: the full statements (proved in
    `Safety.lean`, instantiated in `Props.lean` as `*_full_holds`), and the commit rule they rest on.
    The inductive argument "an entry acknowledged by a quorum in term T is in the log of every
    candidate that wins a later term" is `lc_main` (HInv.lean); the invariant `match_sound`
    (`match_index[f] ≥ N` at a leader of term T implies that f's log agreed with the leader's up to N
    when f acknowledged in term T — true only with repairs D2 and D3) is clause `n_ms` of `HInv`. -/
namespace HappyModel.C11
open Spec

/-- FULL STATEMENT (`leader_completeness_full_holds`): committed entries are in the log of every later leader -/
def leader_completeness_full : Prop :=
  ∀ (n : Nat) (as : List Act), leaderCompleteOk (frames Variant.repaired n as) = true

/-- FULL STATEMENT (`state_machine_safety_full_holds`): entries shown committed at one index never differ, hence no two
    nodes apply different commands at one index -/
def state_machine_safety_full : Prop :=
  ∀ (n : Nat) (as : List Act),
    commitAgreeOk (frames Variant.repaired n as) = true ∧ applyAgreeOk (frames Variant.repaired n as) = true

/-- FULL STATEMENT (`commit_monotone_full_holds`): no node's commit index ever decreases -/
def commit_monotone_full : Prop :=
  ∀ (n : Nat) (as : List Act), commitMonotoneOk (frames Variant.repaired n as) = true

theorem findCommit_spec (n : Nat) (x : Node) (me : Nat) : ∀ (k N : Nat), findCommit n x me k = some N →
    N ≤ k ∧ x.commit < N ∧ termAt x.log N = x.term ∧ (getE x.log N).isSome = true ∧ quorum n ≤ countMatch n x me N := by
  intro k
  induction k with
  | zero => intro N h; simp [findCommit] at h
  | succ k ih =>
    intro N h
    simp only [findCommit] at h
    split at h
    · cases h
    · split at h
      · rename_i hle hc
        simp only [Option.some.injEq] at h
        subst h
        exact ⟨Nat.le_refl _, by omega, hc.1, hc.2.1, hc.2.2⟩
      · obtain ⟨h1, h2⟩ := ih N h
        exact ⟨by omega, h2⟩

/-- THE COMMIT RULE (the earlier partial form of Leader Completeness; used by the full proof).  A leader moves its commit index only to an index
    `N` that holds an entry of its *current* term and that a quorum (itself and the peers with
    `match_index ≥ N`) is recorded to hold; and then the new commit index is exactly `N`. -/
theorem leader_completeness_partial (n : Nat) (x : Node) (me : Nat) (hlen : x.commit ≤ x.log.length)
    (hchg : (tryAdvance n x me).node.commit ≠ x.commit) :
    ∃ N, x.commit < N ∧ N ≤ x.log.length ∧ termAt x.log N = x.term ∧ quorum n ≤ countMatch n x me N
      ∧ (tryAdvance n x me).node.commit = N := by
  unfold tryAdvance at hchg ⊢
  cases hf : findCommit n x me x.log.length with
  | none => simp [hf] at hchg
  | some N =>
    obtain ⟨h1, h2, h3, _, h5⟩ := findCommit_spec n x me _ N hf
    refine ⟨N, h2, h1, h3, h5, ?_⟩
    simp only []
    unfold advanceCommit
    simp only []
    rw [if_neg (by omega), applyFrom_commit]
    show min N x.log.length = N
    omega

/-- non-vacuity of the commit rule: a 3-node leader with one acknowledged entry does commit it -/
def commitRuleNode : Node :=
  { term := 1, role := .leader, log := [⟨1, ⟨1, 0, 0, 1, none⟩⟩], nextIndex := [1, 2, 1], matchIndex := [0, 1, 0] }

example : (tryAdvance 3 commitRuleNode 0).node.commit = 1 := by decide

end HappyModel.C11
