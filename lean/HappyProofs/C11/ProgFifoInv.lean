import HappyProofs.C11.ProgFifo
/-! The per-follower invariant behind "FIFO implies no regress" (`KF`), kept by every step of a run
    under a stable leader whose log already holds index `k` (`kf_step`), and what it gives for the
    step at hand (`regress_of_fifo`).

With `pl = prev_log_index + len(entries)` for an AppendEntries and `m` for an acknowledgement, call
a message *late* when that number is `≥ k`:  early AppendEntries on the link `L → f` were sent
before late ones (`i1`), early acknowledgements of `f` before late ones (`i2`); once `f` has been
handed a late AppendEntries, FIFO on `L → f` only lets late ones follow, so `f` only sends late
acknowledgements from then on (`i3`); and once `match_index[f] ≥ k`, the acknowledgement that
set it was delivered on `f → L` after which FIFO lets no early one through (`i4`). -/
namespace HappyModel.C11
open Spec

def AEof (L t f : Nat) (e : Env) (pl : Nat) : Prop :=
  e.src = L ∧ e.dst = f ∧ ∃ l pi pt es lc, e.body = .ae t l pi pt es lc ∧ pl = pi + es.length

def ACKof (t f : Nat) (e : Env) (m : Nat) : Prop := e.body = .ar t true f m

structure KF (s : St) (del : List Env) (L t k f : Nat) : Prop where
  i1 : ∀ e ∈ s.msgs, ∀ e' ∈ s.msgs, ∀ pl pl', AEof L t f e pl → AEof L t f e' pl' → pl < k → k ≤ pl' → e.id < e'.id
  i2 : ∀ e ∈ s.msgs, ∀ e' ∈ s.msgs, ∀ m m', ACKof t f e m → ACKof t f e' m' → m < k → k ≤ m' → e.id < e'.id
  i3 : (∃ H ∈ del, H.src = L ∧ H.dst = f ∧ ∀ e ∈ s.msgs, ∀ pl, AEof L t f e pl → H.id < e.id → k ≤ pl)
       ∨ ((∀ e ∈ s.msgs, ∀ m, ACKof t f e m → m < k) ∧ (s.nodes L).matchIndex.getD f 0 < k)
  i4 : k ≤ (s.nodes L).matchIndex.getD f 0 →
        ∃ d ∈ del, d.src = f ∧ d.dst = L ∧ ∀ e ∈ s.msgs, ∀ m, ACKof t f e m → m < k → e.id < d.id

theorem AEof.pl_eq {L t f : Nat} {e : Env} {pl pl' : Nat} (h : AEof L t f e pl) (h' : AEof L t f e pl') : pl = pl' := by
  obtain ⟨_, _, l, pi, pt, es, lc, hb, hp⟩ := h
  obtain ⟨_, _, l', pi', pt', es', lc', hb', hp'⟩ := h'
  rw [hb] at hb'; cases hb'; rw [hp, hp']

/-- the step at hand does not hand `L` an early acknowledgement of `f` once `match_index[f] ≥ k` -/
theorem regress_of_fifo {s : St} {del : List Env} {L t k : Nat} {Q : List Nat} (har : ArSrc s) (K : ∀ f ∈ Q, KF s del L t k f) (a : Act)
    (hfifo : ∀ e0, delivered s a = some e0 → fifoOk del e0 = true) : regress s L t k Q a = false := by
  cases a with
  | deliver m0 =>
    cases hf : findMsg s m0 with
    | none => simp [regress, hf]
    | some e =>
      apply Bool.eq_false_iff.mpr
      intro hall
      simp only [regress, hf, Bool.and_eq_true, beq_iff_eq] at hall
      obtain ⟨⟨hc, hd⟩, hbody⟩ := hall
      have hdel : delivered s (.deliver m0) = some e := by simp [delivered, hf, hc]
      have hfo := hfifo e hdel
      cases hb : e.body with
      | ar t' su f mi =>
        rw [hb] at hbody
        cases su with
        | false => simp at hbody
        | true =>
          simp only [Bool.and_eq_true, beq_iff_eq, decide_eq_true_eq, List.contains_eq_mem, decide_eq_true_eq] at hbody
          obtain ⟨⟨⟨ht', hfQ⟩, hmi⟩, hk⟩ := hbody
          subst ht'
          obtain ⟨d, hd1, hd2, hd3, hd4⟩ := (K f hfQ).i4 hk
          have hsrc := har e (findMsg_mem hf) _ _ _ hb
          have h1 := hd4 e (findMsg_mem hf) mi hb hmi
          have h2 := fifoOk_lt hfo hd1 (by rw [hd2, hsrc]) (by rw [hd3, hd])
          omega
      | rv _ _ _ _ => rw [hb] at hbody; simp at hbody
      | vr _ _ _ => rw [hb] at hbody; simp at hbody
      | ae _ _ _ _ _ _ => rw [hb] at hbody; simp at hbody
  | _ => rfl

theorem delivered_mem {s : St} {a : Act} {e : Env} (h : delivered s a = some e) : e ∈ s.msgs := by
  cases a with
  | deliver m =>
    simp only [delivered] at h
    cases hf : findMsg s m with
    | none => rw [hf] at h; cases h
    | some e' =>
      rw [hf] at h
      simp only [] at h
      split at h
      · cases h; exact findMsg_mem hf
      · cases h
  | _ => cases h

/-- `KF` IS KEPT by a step of a run under the stable leader `L` whose log holds index `k` -/
theorem kf_step (v : Variant) (hr : Rep v) (g : GSt) (inv : PInv g) (a : Act) {L t k f : Nat} {del del' : List Env}
    (hest : Est g.s L t) (hleL : ((step v g.s a).1.nodes L).term ≤ t) (har : ArSrc g.s)
    (hkl : k ≤ ((step v g.s a).1.nodes L).log.length) (K : KF g.s del L t k f)
    (hfifo : ∀ e0, delivered g.s a = some e0 → fifoOk del e0 = true)
    (hsub : ∀ d ∈ del, d ∈ del') (hdeliv : ∀ e0, delivered g.s a = some e0 → e0 ∈ del') :
    KF (step v g.s a).1 del' L t k f := by
  obtain ⟨_, hid2⟩ := step_ids v g.s a
  have hold : ∀ e ∈ g.s.msgs, e.id < g.s.nextId := inv.ids
  have hnew_id : ∀ e ∈ (step v g.s a).1.msgs, e ∉ g.s.msgs → g.s.nextId ≤ e.id := by
    intro e he hn
    rcases hid2 e he with h | h
    · exact absurd h hn
    · exact h.1
  have hnewAE : ∀ e ∈ (step v g.s a).1.msgs, e ∉ g.s.msgs → ∀ pl, AEof L t f e pl → k ≤ pl := by
    intro e he hn pl ⟨_, _, l, pi, pt, es, lc, hb, hp⟩
    obtain ⟨_, hbody⟩ := new_ae_sync v hr g inv a hest hleL he hn hb
    obtain ⟨l', pi', pt', es', lc', hae, hlen⟩ := aeFor_reaches ((step v g.s a).1.nodes L) L e.dst
    rw [hb, hae] at hbody
    cases hbody
    omega
  have hnewACK : ∀ e ∈ (step v g.s a).1.msgs, e ∉ g.s.msgs → ∀ m, ACKof t f e m →
      ∃ e0, delivered g.s a = some e0 ∧ e0 ∈ g.s.msgs ∧ AEof L t f e0 m := by
    intro e he hn m hb
    obtain ⟨_, e0, l, pi, pt, es, lc, h1, h2, h3, h4, h5⟩ := new_ack v hr g.s a he hn hb
    refine ⟨e0, h1, h2, ?_, h3, l, pi, pt, es, lc, h4, h5⟩
    have a1 := inv.src e0 h2 t l pi pt es lc h4
    have a2 := inv.all.ei.l0 L hest.role
    rw [hest.term] at a2
    exact leaders_unique inv.all.ei a1 a2
  -- under `Fl`, what `f` is handed on the link `L → f` is late
  have lateFl : (∃ H ∈ del, H.src = L ∧ H.dst = f ∧ ∀ e ∈ g.s.msgs, ∀ pl, AEof L t f e pl → H.id < e.id → k ≤ pl) →
      ∀ e0 pl0, delivered g.s a = some e0 → e0 ∈ g.s.msgs → AEof L t f e0 pl0 → k ≤ pl0 := by
    intro ⟨H, hH, h1, h2, h3⟩ e0 pl0 hd he0 hae
    have := fifoOk_lt (hfifo e0 hd) hH (by rw [h1, hae.1]) (by rw [h2, hae.2.1])
    exact h3 e0 he0 pl0 hae this
  -- a new early acknowledgement can only appear while `Fl` does not hold yet
  have earlyNew : ∀ e ∈ (step v g.s a).1.msgs, e ∉ g.s.msgs → ∀ m, ACKof t f e m → m < k →
      (∀ e ∈ g.s.msgs, ∀ m, ACKof t f e m → m < k) ∧ (g.s.nodes L).matchIndex.getD f 0 < k := by
    intro e he hn m hb hm
    rcases K.i3 with hFl | hA
    · obtain ⟨e0, hd, he0, hae⟩ := hnewACK e he hn m hb
      have := lateFl hFl e0 m hd he0 hae
      omega
    · exact hA
  refine ⟨?_, ?_, ?_, ?_⟩
  · -- i1
    intro e he e' he' pl pl' hae hae' hlt hge
    by_cases ho : e ∈ g.s.msgs
    · by_cases ho' : e' ∈ g.s.msgs
      · exact K.i1 e ho e' ho' pl pl' hae hae' hlt hge
      · have := hold e ho; have := hnew_id e' he' ho'; omega
    · have := hnewAE e he ho pl hae; omega
  · -- i2
    intro e he e' he' m m' hb hb' hlt hge
    by_cases ho : e ∈ g.s.msgs
    · by_cases ho' : e' ∈ g.s.msgs
      · exact K.i2 e ho e' ho' m m' hb hb' hlt hge
      · have := hold e ho; have := hnew_id e' he' ho'; omega
    · exfalso
      obtain ⟨hnoLate, _⟩ := earlyNew e he ho m hb hlt
      by_cases ho' : e' ∈ g.s.msgs
      · have := hnoLate e' ho' m' hb'; omega
      · obtain ⟨e0, hd, _, hae⟩ := hnewACK e he ho m hb
        obtain ⟨e0', hd', _, hae'⟩ := hnewACK e' he' ho' m' hb'
        rw [hd] at hd'; cases hd'
        have := hae.pl_eq hae'; omega
  · -- i3
    rcases K.i3 with ⟨H, hH, h1, h2, h3⟩ | ⟨hnoLate, hmi⟩
    · left
      refine ⟨H, hsub H hH, h1, h2, ?_⟩
      intro e he pl hae hlt
      by_cases ho : e ∈ g.s.msgs
      · exact h3 e ho pl hae hlt
      · exact hnewAE e he ho pl hae
    · by_cases hlate : ∃ e ∈ (step v g.s a).1.msgs, e ∉ g.s.msgs ∧ ∃ m, ACKof t f e m ∧ k ≤ m
      · left
        obtain ⟨e, he, hn, m, hb, hkm⟩ := hlate
        obtain ⟨e0, hd, he0, hae⟩ := hnewACK e he hn m hb
        refine ⟨e0, hdeliv e0 hd, hae.1, hae.2.1, ?_⟩
        intro e' he' pl hae' hlt
        by_cases ho : e' ∈ g.s.msgs
        · apply Classical.byContradiction
          intro hnk
          have := K.i1 e' ho e0 he0 pl m hae' hae (by omega) hkm
          omega
        · exact hnewAE e' he' ho pl hae'
      · right
        refine ⟨?_, ?_⟩
        · intro e he m hb
          by_cases ho : e ∈ g.s.msgs
          · exact hnoLate e ho m hb
          · apply Classical.byContradiction
            intro hnk
            exact hlate ⟨e, he, ho, m, hb, by omega⟩
        · rcases mi_step v hr g inv a hest hleL f with h | ⟨e, m, _, he, _, hb, h⟩
          · rw [h]; exact hmi
          · rw [h]; exact hnoLate e he m hb
  · -- i4
    intro hk
    rcases mi_step v hr g inv a hest hleL f with h | ⟨ea, m, hda, hea, hdst, hba, h⟩
    · rw [h] at hk
      obtain ⟨d, hd1, hd2, hd3, hd4⟩ := K.i4 hk
      refine ⟨d, hsub d hd1, hd2, hd3, ?_⟩
      intro e he m hb hm
      by_cases ho : e ∈ g.s.msgs
      · exact hd4 e ho m hb hm
      · have := (earlyNew e he ho m hb hm).2; omega
    · rw [h] at hk
      refine ⟨ea, hdeliv ea hda, har ea hea _ _ _ hba, hdst, ?_⟩
      intro e he m' hb hm
      by_cases ho : e ∈ g.s.msgs
      · exact K.i2 e ho ea hea m' m hb hba hm hk
      · exfalso
        obtain ⟨e0, hd0, _, hae⟩ := hnewACK e he ho m' hb
        rw [hda] at hd0; cases hd0
        obtain ⟨_, _, _, _, _, _, _, hb0, _⟩ := hae
        rw [hba] at hb0; cases hb0

end HappyModel.C11
