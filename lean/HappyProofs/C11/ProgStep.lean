import HappyProofs.C11.ProgSync
/-! One step of a run under a stable leader `L` of term `t`: what it does at the leader (`LStep`),
    and that `L` stays the established leader (`est_step`). -/
namespace HappyModel.C11
open Spec

theorem applyHR_inj {s : St} {i j : Nat} {r r' : HR} (h : applyHR s i r = applyHR s j r') :
    i = j ∧ r.node = r'.node ∧ r.apps = r'.apps ∧ r.ress = r'.ress := by
  have h2 := congrArg (·.2) h
  have h1 := congrArg (·.1.nodes) h
  simp only [applyHR] at h1 h2
  have ht : i = j := by have := congrArg (·.target) h2; simpa using this
  subst ht
  refine ⟨rfl, ?_, by have := congrArg (·.apps) h2; simpa using this, by have := congrArg (·.ress) h2; simpa using this⟩
  have := congrFun h1 i
  simpa using this

/-- `step_case` with the delivered message tied to the action -/
inductive StepCase2 (v : Variant) (s : St) (a : Act) : Prop
  | idle (hn : (step v s a).1.nodes = s.nodes) (hm : ∀ e ∈ (step v s a).1.msgs, e ∈ s.msgs)
      (ha : (step v s a).2.apps = []) (hr : (step v s a).2.ress = [])
  | msg (m0 : Nat) (e : Env) (ha : a = .deliver m0) (hf : findMsg s m0 = some e) (hc : canDeliver s e = true)
      (hs : step v s a = applyHR s e.dst (handleMsg v s.n (s.nodes e.dst) e))
  | timeout (i : Nat) (hs : step v s a = applyHR s i (handleTimeout s.n (s.nodes i) i))
  | hb (i : Nat) (hs : step v s a = applyHR s i (handleHB s.n (s.nodes i) i))
  | submit (i f : Nat) (c : Cmd) (ha : a = .submit i f c) (hs : step v s a = applyHR s i (handleSubmit (s.nodes i) f c))

theorem step_case2 (v : Variant) (s : St) (a : Act) : StepCase2 v s a := by
  cases a with
  | deliver m =>
    cases hf : findMsg s m with
    | none => exact .idle (by simp [step, hf]) (by simp [step, hf]) (by simp [step, hf]) (by simp [step, hf])
    | some e =>
      cases hg : canDeliver s e with
      | true => exact .msg m e rfl hf hg (by simp only [step, hf, hg, if_true])
      | false => exact .idle (by simp [step, hf, hg]) (by simp [step, hf, hg]) (by simp [step, hf, hg]) (by simp [step, hf, hg])
  | timeout i =>
    by_cases hg : alive s i = true
    · exact .timeout i (by simp [step, hg])
    · exact .idle (by simp [step, hg]) (by simp [step, hg]) (by simp [step, hg]) (by simp [step, hg])
  | heartbeat i =>
    by_cases hg : alive s i = true
    · exact .hb i (by simp [step, hg])
    · exact .idle (by simp [step, hg]) (by simp [step, hg]) (by simp [step, hg]) (by simp [step, hg])
  | submit i f c =>
    by_cases hg : i < s.n
    · exact .submit i f c rfl (by simp [step, hg])
    · exact .idle (by simp [step, hg]) (by simp [step, hg]) (by simp [step, hg]) (by simp [step, hg])
  | drop m =>
    exact .idle (by simp [step]) (by intro e he; simp only [step] at he; exact (List.mem_filter.mp he).1) (by simp [step]) (by simp [step])
  | crash i => exact .idle (by simp [step]) (by simp [step]) (by simp [step]) (by simp [step])
  | restart i => exact .idle (by simp [step]) (by simp [step]) (by simp [step]) (by simp [step])

/-- what a step does at node `L` -/
inductive LStep (v : Variant) (s : St) (a : Act) (L : Nat) : Prop
  /-- nothing: no handler ran, or another node's did -/
  | away (hn : (step v s a).1.nodes L = s.nodes L) (hsrc : ∀ e ∈ (step v s a).1.msgs, e ∈ s.msgs ∨ e.src ≠ L)
      (htgt : (step v s a).2.target ≠ some L ∨ ((step v s a).2.apps = [] ∧ (step v s a).2.ress = []))
  | same (r : HR) (hs : step v s a = applyHR s L r) (h : LSame (s.nodes L) r)
  | hb (hs : step v s a = applyHR s L { node := s.nodes L, sends := sendAEs s.n (s.nodes L) L })
  | submit (f : Nat) (c : Cmd) (ha : a = .submit L f c)
      (hs : step v s a = applyHR s L { node := submitNode (s.nodes L) f c })
  | ack (m0 : Nat) (e : Env) (ha : a = .deliver m0) (hf : findMsg s m0 = some e) (hc : canDeliver s e = true)
      (he : e ∈ s.msgs) (hd : e.dst = L) (f m : Nat) (hb : e.body = .ar (s.nodes L).term true f m)
      (hs : step v s a = applyHR s L (tryAdvance s.n (ackNode (s.nodes L) f m) L))
  | nack (e : Env) (he : e ∈ s.msgs) (hd : e.dst = L) (f m : Nat) (hb : e.body = .ar (s.nodes L).term false f m) (r : HR)
      (hs : step v s a = applyHR s L r) (hn : r.node = nackNode (s.nodes L) f)
      (snd : r.sends = [(f, aeFor (nackNode (s.nodes L) f) L f)] ∨ r.sends = []) (apps : r.apps = []) (ress : r.ress = [])

theorem away_of_other {v : Variant} {s : St} {a : Act} {L i : Nat} {r : HR} (hs : step v s a = applyHR s i r) (hi : i ≠ L) :
    LStep v s a L := by
  refine .away ?_ ?_ ?_
  · rw [hs]; simp only [applyHR]; exact upd_other _ _ _ _ (fun h => hi h.symm)
  · intro e he
    rw [hs] at he
    rcases applyHR_msgs he with h | h
    · exact Or.inl h
    · right; rw [(mem_mkEnvs h).1]; exact hi
  · left; rw [hs]; simp only [applyHR]; intro h; exact hi (Option.some.inj h)

theorem lstep (v : Variant) (hr : Rep v) (g : GSt) (inv : PInv g) (a : Act) {L t : Nat} (hest : Est g.s L t)
    (hle : ((step v g.s a).1.nodes L).term ≤ t) : LStep v g.s a L := by
  rcases step_case2 v g.s a with ⟨hn, hm, ha, hre⟩ | ⟨m0, e, ha0, hf, hc, hs⟩ | ⟨i, hs⟩ | ⟨i, hs⟩ | ⟨i, f, c, ha, hs⟩
  · exact .away (by rw [hn]) (fun e he => Or.inl (hm e he)) (Or.inr ⟨ha, hre⟩)
  · have he := findMsg_mem hf
    have hne : e.src ≠ e.dst := by
      simp only [canDeliver, Bool.and_eq_true, decide_eq_true_eq] at hc; exact hc.2
    by_cases hd : e.dst = L
    · rw [hd] at hs
      have hnode : (step v g.s a).1.nodes L = (handleMsg v g.s.n (g.s.nodes L) e).node := by
        rw [hs]; simp only [applyHR, upd_same]
      rw [hnode] at hle
      have hnae : ∀ t' l pi pt es lc, e.body = .ae t' l pi pt es lc → t' < (g.s.nodes L).term := by
        intro t' l pi pt es lc hb
        apply Classical.byContradiction
        intro hge
        have hterm : (handleMsg v g.s.n (g.s.nodes L) e).node.term = t' := by
          unfold handleMsg; simp only [hb]
          exact handleAE_term v _ _ _ _ _ _ _ _ (by omega)
        rw [hterm] at hle
        have hte : t' = (g.s.nodes L).term := by rw [hest.term]; rw [hest.term] at hge; omega
        have h1 := inv.src e he t' l pi pt es lc hb
        have h2 := inv.all.ei.l0 L hest.role
        rw [← hte] at h2
        have := leaders_unique inv.all.ei h1 h2
        exact hne (by rw [this, hd])
      rcases leader_msg v hr.sa g.s.n (g.s.nodes L) e hest.role (by rw [hest.term]; exact hle) hnae with h | ⟨f, m, hb, hr'⟩ | ⟨f, m, hb, hn, snd, ha, hre⟩
      · exact .same _ hs h
      · rw [hd] at hr'; rw [hr'] at hs; exact .ack m0 e ha0 hf hc he hd f m hb hs
      · rw [hd] at snd; exact .nack e he hd f m hb _ hs hn snd ha hre
    · exact away_of_other hs hd
  · by_cases hi : i = L
    · subst hi
      rw [leader_timeout _ _ _ hest.role] at hs
      exact .same _ hs ⟨Or.inl rfl, (fun d b h => by cases h), rfl, rfl⟩
    · exact away_of_other hs hi
  · by_cases hi : i = L
    · subst hi
      rw [leader_hb _ _ _ hest.role] at hs
      exact .hb hs
    · exact away_of_other hs hi
  · by_cases hi : i = L
    · subst hi
      rw [leader_submit _ _ _ hest.role] at hs
      exact .submit f c ha hs
    · exact away_of_other hs hi

/-! ### frame facts of `tryAdvance` -/

@[simp] theorem applyOne_ni (r : HR) (idx : Nat) (e : Entry) : (applyOne r idx e).node.nextIndex = r.node.nextIndex := by
  unfold applyOne
  simp only []
  split
  · split <;> rfl
  · rfl

@[simp] theorem applyFrom_ni (es : List Entry) : ∀ (r : HR) (idx : Nat), (applyFrom r idx es).node.nextIndex = r.node.nextIndex := by
  induction es with
  | nil => intro r idx; rfl
  | cons e es ih => intro r idx; simp only [applyFrom, ih, applyOne_ni]

theorem tryAdvance_ni (n : Nat) (x : Node) (me : Nat) : (tryAdvance n x me).node.nextIndex = x.nextIndex := by
  unfold tryAdvance; split
  · unfold advanceCommit; simp only []; split
    · rfl
    · rw [applyFrom_ni]
  · rfl

/-- the leader's node after the step, in the terms the progress proof needs -/
structure LPost (x x' : Node) : Prop where
  role : x'.role = x.role
  term : x'.term = x.term
  log : x.log <+: x'.log
  commit : x.commit ≤ x'.commit

theorem lsame_node {x : Node} {r : HR} (h : LSame x r) :
    r.node.role = x.role ∧ r.node.term = x.term ∧ r.node.log = x.log ∧ r.node.commit = x.commit ∧ r.node.nextIndex = x.nextIndex
    ∧ r.node.matchIndex = x.matchIndex ∧ r.node.lastApplied = x.lastApplied ∧ r.node.pending = x.pending := by
  rcases h.node with h | ⟨c, h⟩ <;> rw [h] <;> exact ⟨rfl, rfl, rfl, rfl, rfl, rfl, rfl, rfl⟩

theorem lpost_of_lstep {v : Variant} {s : St} {a : Act} {L : Nat} (hcl : CLen s) (h : LStep v s a L) :
    LPost (s.nodes L) ((step v s a).1.nodes L) := by
  have nodeL : ∀ r, step v s a = applyHR s L r → (step v s a).1.nodes L = r.node := by
    intro r hs; rw [hs]; simp only [applyHR, upd_same]
  rcases h with ⟨hn, _, _⟩ | ⟨r, hs, h⟩ | hs | ⟨f, c, _, hs⟩ | ⟨_, e, _, _, _, _, _, f, m, _, hs⟩ | ⟨e, _, _, f, m, _, r, hs, hn, _, _, _⟩
  · rw [hn]; exact ⟨rfl, rfl, List.prefix_rfl, Nat.le_refl _⟩
  · rw [nodeL _ hs]
    obtain ⟨h1, h2, h3, h4, _⟩ := lsame_node h
    exact ⟨h1, h2, by rw [h3]; exact List.prefix_rfl, by rw [h4]; exact Nat.le_refl _⟩
  · rw [nodeL _ hs]; exact ⟨rfl, rfl, List.prefix_rfl, Nat.le_refl _⟩
  · rw [nodeL _ hs]; exact ⟨rfl, rfl, List.prefix_append _ _, Nat.le_refl _⟩
  · rw [nodeL _ hs]
    obtain ⟨f1, f2, _, f4, _, f6⟩ := ack_facts s.n (s.nodes L) L f m (hcl L) _ rfl
    refine ⟨f2, f1, by rw [f4]; exact List.prefix_rfl, ?_⟩
    rcases f6 with h | ⟨N, h1, _, _, _, h5⟩ <;> omega
  · rw [nodeL _ hs, hn]; exact ⟨rfl, rfl, List.prefix_rfl, Nat.le_refl _⟩

theorem est_step (v : Variant) (hr : Rep v) (g : GSt) (inv : PInv g) (a : Act) {L t : Nat} (hest : Est g.s L t)
    (hle : ((step v g.s a).1.nodes L).term ≤ t) : Est (step v g.s a).1 L t := by
  have hp := lpost_of_lstep inv.all.hi.n_cl (lstep v hr g inv a hest hle)
  exact ⟨by rw [step_n]; exact hest.lt, by rw [hp.role]; exact hest.role, by rw [hp.term]; exact hest.term⟩

end HappyModel.C11
