import HappyModel.C11.Model
/-! Two quorums of an `n`-node cluster intersect (core Lean only, no Finset). -/
namespace HappyModel.C11

theorem nodup_length_le : ∀ (n : Nat) (l : List Nat), l.Nodup → (∀ x ∈ l, x < n) → l.length ≤ n := by
  intro n
  induction n with
  | zero =>
    intro l _ hb
    match l with
    | [] => simp
    | x :: _ => exact absurd (hb x (by simp)) (by omega)
  | succ n ih =>
    intro l hnd hb
    have h1 : (l.erase n).Nodup := hnd.erase n
    have h2 : ∀ x ∈ l.erase n, x < n := by
      intro x hx
      have hx' := (List.Nodup.mem_erase_iff hnd).mp hx
      have := hb x hx'.2
      omega
    have h3 := ih (l.erase n) h1 h2
    have h4 : l.length ≤ (l.erase n).length + 1 := by
      rw [List.length_erase]; split <;> omega
    omega

theorem quorum_lists_meet (n : Nat) (S1 S2 : List Nat) (h1 : S1.Nodup) (h2 : S2.Nodup)
    (b1 : ∀ f ∈ S1, f < n) (b2 : ∀ f ∈ S2, f < n)
    (q1 : quorum n ≤ S1.length) (q2 : quorum n ≤ S2.length) : ∃ f, f ∈ S1 ∧ f ∈ S2 := by
  apply Classical.byContradiction
  intro hne
  have hdisj : ∀ a ∈ S1, ∀ b ∈ S2, a ≠ b := by
    intro a ha b hb hab
    exact hne ⟨a, ha, hab ▸ hb⟩
  have hnd : (S1 ++ S2).Nodup := List.nodup_append.mpr ⟨h1, h2, hdisj⟩
  have hb : ∀ x ∈ S1 ++ S2, x < n := by
    intro x hx
    rcases List.mem_append.mp hx with h | h
    · exact b1 x h
    · exact b2 x h
  have := nodup_length_le n (S1 ++ S2) hnd hb
  rw [List.length_append] at this
  unfold quorum at q1 q2
  omega

end HappyModel.C11
