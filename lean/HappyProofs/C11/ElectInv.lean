import HappyProofs.C11.Ghost
/-! The vote-ledger invariant and the one lemma that preserves it across any handler. -/
namespace HappyModel.C11

structure EInv (g : GSt) : Prop where
  v0 : ∀ j c, (g.s.nodes j).votedFor = some c → (j, (g.s.nodes j).term, c) ∈ g.voted
  v1 : ∀ v t c, (v, t, c) ∈ g.voted → t ≤ (g.s.nodes v).term
  v2 : ∀ v t c, (v, t, c) ∈ g.voted → t = (g.s.nodes v).term → (g.s.nodes v).votedFor = some c
  v3 : ∀ v t c1 c2, (v, t, c1) ∈ g.voted → (v, t, c2) ∈ g.voted → c1 = c2
  vlt : ∀ v t c, (v, t, c) ∈ g.voted → v < g.s.n
  m0 : ∀ e ∈ g.s.msgs, ∀ t c a b, e.body = .rv t c a b → c = e.src
  m1 : ∀ e ∈ g.s.msgs, ∀ t f, e.body = .vr t true f → (f, t, e.dst) ∈ g.voted
  c1 : ∀ c, (g.s.nodes c).role ≠ .follower → ∀ f ∈ (g.s.nodes c).votes, (f, (g.s.nodes c).term, c) ∈ g.voted
  c2 : ∀ c, (g.s.nodes c).votes.Nodup
  l0 : ∀ i, (g.s.nodes i).role = .leader → ((g.s.nodes i).term, i) ∈ g.leaders
  l1 : ∀ t c, (t, c) ∈ g.leaders →
        ∃ S : List Nat, S.Nodup ∧ (∀ f ∈ S, (f, t, c) ∈ g.voted) ∧ quorum g.s.n ≤ S.length
  l2 : ∀ t i, (t, i) ∈ g.leaders →
        t ≤ (g.s.nodes i).term ∧ (t = (g.s.nodes i).term → (g.s.nodes i).role ≠ .candidate)

theorem einv_init (n : Nat) : EInv (ginit n) := by
  refine ⟨?_, ?_, ?_, ?_, ?_, ?_, ?_, ?_, ?_, ?_, ?_, ?_⟩ <;> simp [ginit, init, initNode]

/-- two ledger entries for one term name one node: the quorums behind them share a voter -/
theorem leaders_unique {g : GSt} (inv : EInv g) {t c1 c2 : Nat}
    (h1 : (t, c1) ∈ g.leaders) (h2 : (t, c2) ∈ g.leaders) : c1 = c2 := by
  obtain ⟨S1, n1, v1, q1⟩ := inv.l1 t c1 h1
  obtain ⟨S2, n2, v2, q2⟩ := inv.l1 t c2 h2
  obtain ⟨f, hf1, hf2⟩ := quorum_lists_meet g.s.n S1 S2 n1 n2
    (fun f hf => inv.vlt f t c1 (v1 f hf)) (fun f hf => inv.vlt f t c2 (v2 f hf)) q1 q2
  exact inv.v3 f t c1 c2 (v1 f hf1) (v2 f hf2)

/-- the post-state of a handler step -/
def gApply (g : GSt) (i : Nat) (r : HR) (cr : List (List Entry)) : GSt :=
  { s := (applyHR g.s i r).1,
    voted := voteDiff r.node i ++ g.voted,
    leaders := leadDiff (g.s.nodes i) r.node i ++ g.leaders,
    created := cr ++ g.created,
    seen := (i, r.node.term, r.node.log) :: g.seen,
    llogs := llogDiff (g.s.nodes i) r.node i ++ g.llogs,
    cands := candDiff (g.s.nodes i) r.node i ++ g.cands }

theorem gstep_handler {v : Variant} {g : GSt} {a : Act} {i : Nat} {r : HR}
    (ht : actTarget g.s a = some i) (hs : step v g.s a = applyHR g.s i r) :
    gstep v g a = gApply g i r (createdDiff g.s a) := by
  unfold gstep gApply
  simp only [ht, hs]
  simp [applyHR]

theorem gstep_idle {v : Variant} {g : GSt} {a : Act} (ht : actTarget g.s a = none) :
    gstep v g a = { g with s := (step v g.s a).1 } := by
  unfold gstep; simp only [ht]

@[simp] theorem gApply_nodes (g : GSt) (i : Nat) (r : HR) (cr) : (gApply g i r cr).s.nodes = upd g.s.nodes i r.node := rfl
@[simp] theorem gApply_n (g : GSt) (i : Nat) (r : HR) (cr) : (gApply g i r cr).s.n = g.s.n := rfl
@[simp] theorem gApply_voted (g : GSt) (i : Nat) (r : HR) (cr) : (gApply g i r cr).voted = voteDiff r.node i ++ g.voted := rfl
@[simp] theorem gApply_leaders (g : GSt) (i : Nat) (r : HR) (cr) :
    (gApply g i r cr).leaders = leadDiff (g.s.nodes i) r.node i ++ g.leaders := rfl
@[simp] theorem gApply_created (g : GSt) (i : Nat) (r : HR) (cr) : (gApply g i r cr).created = cr ++ g.created := rfl
@[simp] theorem gApply_seen (g : GSt) (i : Nat) (r : HR) (cr) : (gApply g i r cr).seen = (i, r.node.term, r.node.log) :: g.seen := rfl
@[simp] theorem gApply_llogs (g : GSt) (i : Nat) (r : HR) (cr) :
    (gApply g i r cr).llogs = llogDiff (g.s.nodes i) r.node i ++ g.llogs := rfl
@[simp] theorem gApply_cands (g : GSt) (i : Nat) (r : HR) (cr) :
    (gApply g i r cr).cands = candDiff (g.s.nodes i) r.node i ++ g.cands := rfl

theorem gApply_msgs {g : GSt} {i : Nat} {r : HR} {cr} {e : Env} (h : e ∈ (gApply g i r cr).s.msgs) :
    e ∈ g.s.msgs ∨ (e.src = i ∧ (e.dst, e.body) ∈ r.sends) := by
  simp only [gApply, applyHR, List.mem_append, List.mem_reverse] at h
  rcases h with h | h
  · exact Or.inr (mem_mkEnvs h)
  · exact Or.inl h

theorem mem_voteDiff {x : Node} {i v t c : Nat} (h : (v, t, c) ∈ voteDiff x i) :
    v = i ∧ t = x.term ∧ x.votedFor = some c := by
  unfold voteDiff at h
  split at h
  · simp only [List.mem_singleton, Prod.mk.injEq] at h
    obtain ⟨h1, h2, h3⟩ := h
    subst h1 h2 h3; exact ⟨rfl, rfl, by assumption⟩
  · simp at h

theorem voteDiff_mem {x : Node} {i c : Nat} (h : x.votedFor = some c) : (i, x.term, c) ∈ voteDiff x i := by
  unfold voteDiff; simp [h]

/-- what a handler must respect for the ledger to stay truthful -/
structure VoteOk (g : GSt) (i : Nat) (r : HR) : Prop where
  h1 : (g.s.nodes i).term ≤ r.node.term
  h2 : r.node.term = (g.s.nodes i).term → ∀ c, (g.s.nodes i).votedFor = some c → r.node.votedFor = some c
  h3 : ∀ d t f, (d, Body.vr t true f) ∈ r.sends → f = i ∧ t = r.node.term ∧ r.node.votedFor = some d
  h4 : ∀ d t c a b, (d, Body.rv t c a b) ∈ r.sends → c = i
  h5 : r.node.role = .follower
       ∨ (r.node.role = (g.s.nodes i).role ∧ r.node.votes = (g.s.nodes i).votes ∧ r.node.term = (g.s.nodes i).term)
       ∨ ((∀ f ∈ r.node.votes, (f, r.node.term, i) ∈ voteDiff r.node i ++ g.voted)
          ∧ (g.s.nodes i).role ≠ .leader
          ∧ (r.node.role = .candidate → (g.s.nodes i).term < r.node.term ∨ (r.node.term = (g.s.nodes i).term ∧ (g.s.nodes i).role = .candidate))
          ∧ (r.node.role = .leader → quorum g.s.n ≤ r.node.votes.length))
  h6 : r.node.votes.Nodup

theorem einv_handler {g : GSt} (inv : EInv g) {i : Nat} (hi : i < g.s.n) {r : HR} (ok : VoteOk g i r)
    (cr : List (List Entry)) : EInv (gApply g i r cr) := by
  have hv1 : ∀ v t c, (v, t, c) ∈ voteDiff r.node i ++ g.voted → t ≤ (upd g.s.nodes i r.node v).term := by
    intro v t c h0
    rcases List.mem_append.mp h0 with h | h
    · obtain ⟨hv, ht, _⟩ := mem_voteDiff h
      subst hv; subst ht; simp
    · by_cases hv : v = i
      · rw [hv]; simp only [upd_same]; rw [hv] at h; exact Nat.le_trans (inv.v1 i t c h) ok.h1
      · rw [upd_other _ _ _ _ hv]; exact inv.v1 v t c h
  have hv2 : ∀ v t c, (v, t, c) ∈ voteDiff r.node i ++ g.voted → t = (upd g.s.nodes i r.node v).term →
      (upd g.s.nodes i r.node v).votedFor = some c := by
    intro v t c h0 ht
    rcases List.mem_append.mp h0 with h | h
    · obtain ⟨hv, _, hc⟩ := mem_voteDiff h
      rw [hv]; simp only [upd_same]; exact hc
    · by_cases hv : v = i
      · rw [hv] at ht h ⊢
        simp only [upd_same] at ht ⊢
        have hle := inv.v1 i t c h
        have heq : r.node.term = (g.s.nodes i).term := by have := ok.h1; omega
        exact ok.h2 heq c (inv.v2 i t c h (by omega))
      · rw [upd_other _ _ _ _ hv] at ht ⊢; exact inv.v2 v t c h ht
  refine ⟨?_, hv1, hv2, ?_, ?_, ?_, ?_, ?_, ?_, ?_, ?_, ?_⟩
  · -- v0
    intro j c h
    simp only [gApply_nodes, gApply_voted] at h ⊢
    by_cases hj : j = i
    · subst hj; simp only [upd_same] at h ⊢
      exact List.mem_append_left _ (voteDiff_mem h)
    · rw [upd_other _ _ _ _ hj] at h ⊢
      exact List.mem_append_right _ (inv.v0 j c h)
  · -- v3
    intro v t c1 c2 ha hb
    simp only [gApply_voted] at ha hb
    by_cases ht : t = (upd g.s.nodes i r.node v).term
    · have e1 := hv2 v t c1 ha ht
      have e2 := hv2 v t c2 hb ht
      rw [e1] at e2; exact Option.some.inj e2
    · rcases List.mem_append.mp ha with ha | ha
      · obtain ⟨hv, htt, _⟩ := mem_voteDiff ha
        subst hv; simp at ht; exact absurd htt ht
      · rcases List.mem_append.mp hb with hb | hb
        · obtain ⟨hv, htt, _⟩ := mem_voteDiff hb
          subst hv; simp at ht; exact absurd htt ht
        · exact inv.v3 v t c1 c2 ha hb
  · -- vlt
    intro v t c h
    simp only [gApply_voted, gApply_n] at h ⊢
    rcases List.mem_append.mp h with h | h
    · obtain ⟨hv, _, _⟩ := mem_voteDiff h; omega
    · exact inv.vlt v t c h
  · -- m0
    intro e he t c a b hb
    rcases gApply_msgs he with h | ⟨hsrc, hmem⟩
    · exact inv.m0 e h t c a b hb
    · rw [hb] at hmem; rw [hsrc]; exact ok.h4 _ _ _ _ _ hmem
  · -- m1
    intro e he t f hb
    simp only [gApply_voted]
    rcases gApply_msgs he with h | ⟨_, hmem⟩
    · exact List.mem_append_right _ (inv.m1 e h t f hb)
    · rw [hb] at hmem
      obtain ⟨hf, ht, hvf⟩ := ok.h3 _ _ _ hmem
      subst hf; subst ht
      exact List.mem_append_left _ (voteDiff_mem hvf)
  · -- c1
    intro c hrole f hf
    simp only [gApply_nodes, gApply_voted] at hrole hf ⊢
    by_cases hc : c = i
    · subst hc; simp only [upd_same] at hrole hf ⊢
      rcases ok.h5 with h | ⟨h1, h2, h3⟩ | ⟨h2, _⟩
      · exact absurd h hrole
      · rw [h1] at hrole; rw [h2] at hf; rw [h3]
        exact List.mem_append_right _ (inv.c1 c hrole f hf)
      · exact h2 f hf
    · rw [upd_other _ _ _ _ hc] at hrole hf ⊢
      exact List.mem_append_right _ (inv.c1 c hrole f hf)
  · -- c2
    intro c
    simp only [gApply_nodes]
    by_cases hc : c = i
    · subst hc; simp only [upd_same]; exact ok.h6
    · rw [upd_other _ _ _ _ hc]; exact inv.c2 c
  · -- l0
    intro j hrole
    simp only [gApply_nodes, gApply_leaders] at hrole ⊢
    by_cases hj : j = i
    · rw [hj] at hrole ⊢; simp only [upd_same] at hrole ⊢
      rcases ok.h5 with h | ⟨h1, _, h3⟩ | ⟨_, h3, _⟩
      · rw [h] at hrole; exact absurd hrole (by decide)
      · rw [h1] at hrole; rw [h3]; exact List.mem_append_right _ (inv.l0 i hrole)
      · apply List.mem_append_left; unfold leadDiff; simp [hrole, h3]
    · rw [upd_other _ _ _ _ hj] at hrole ⊢
      exact List.mem_append_right _ (inv.l0 j hrole)
  · -- l1
    intro t c h
    simp only [gApply_leaders, gApply_voted, gApply_n] at h ⊢
    rcases List.mem_append.mp h with h | h
    · unfold leadDiff at h
      split at h
      · rename_i hc
        simp only [List.mem_singleton, Prod.mk.injEq] at h
        obtain ⟨ht, hci⟩ := h
        rw [ht, hci]
        rcases ok.h5 with h5 | ⟨h1, _, _⟩ | ⟨h2, _, _, h4⟩
        · rw [h5] at hc; exact absurd hc.1 (by decide)
        · rw [h1] at hc; exact absurd hc.1 hc.2
        · exact ⟨r.node.votes, ok.h6, h2, h4 hc.1⟩
      · simp at h
    · obtain ⟨S, hS, hv, hq⟩ := inv.l1 t c h
      exact ⟨S, hS, fun f hf => List.mem_append_right _ (hv f hf), hq⟩
  · -- l2
    intro t j h
    simp only [gApply_leaders, gApply_nodes] at h ⊢
    rcases List.mem_append.mp h with h | h
    · unfold leadDiff at h
      split at h
      · rename_i hc
        simp only [List.mem_singleton, Prod.mk.injEq] at h
        obtain ⟨ht, hji⟩ := h
        rw [ht, hji]; simp only [upd_same]
        exact ⟨Nat.le_refl _, fun _ => by rw [hc.1]; decide⟩
      · simp at h
    · by_cases hj : j = i
      · rw [hj] at h ⊢; simp only [upd_same]
        obtain ⟨hle, hnc⟩ := inv.l2 t i h
        refine ⟨Nat.le_trans hle ok.h1, ?_⟩
        intro ht
        have hterm : r.node.term = (g.s.nodes i).term := by have := ok.h1; omega
        rcases ok.h5 with h5 | ⟨h1, _, _⟩ | ⟨_, _, h3, _⟩
        · rw [h5]; decide
        · rw [h1]; exact hnc (by omega)
        · intro hcand
          rcases h3 hcand with hlt | ⟨_, hrc⟩
          · omega
          · exact hnc (by omega) hrc
      · rw [upd_other _ _ _ _ hj]; exact inv.l2 t j h

end HappyModel.C11
