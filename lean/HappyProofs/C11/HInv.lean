import HappyProofs.C11.Hist
/-! The invariant behind Leader Completeness (`HInv`), and Leader Completeness itself as a
    consequence of it in any single state (`lc_main`): a record accepted by a quorum in term `T` is
    a prefix of the election-time log of every leader of a later term. -/
namespace HappyModel.C11

/-- what voter `f` promises a candidate of term `U` whose log is `Lc`: everything `f` accepted before
    is in `Lc`, unless a leader of a term in between already lacked it -/
def VmProp (g : GSt) (f U : Nat) (Lc : List Entry) : Prop :=
  ∀ T K, T < U → Accepted g f T K →
    K <+: Lc ∨ ∃ t' c' L', (t', c', L') ∈ g.llogs ∧ T < t' ∧ t' < U ∧ ¬ K <+: L'

/-- an AppendEntries of term `t` is cut out of a log `X` of the leader of `t` -/
def AEM (g : GSt) (t pi pt : Nat) (es : List Entry) (lc : Nat) : Prop :=
  ∃ X, LeaderLog g t X ∧ es = X.drop pi ∧ pt = (if pi > 0 then termAt X pi else 0) ∧ lc ≤ X.length
    ∧ CommB g (X.take lc) t

/-- a successful acknowledgement `(f, m)` of term `t`: `f` held the first `m` entries of a log of the leader of `t` -/
def ARM (g : GSt) (t f m : Nat) : Prop :=
  m = 0 ∨ ∃ X L, LeaderLog g t X ∧ m ≤ X.length ∧ (f, t, L) ∈ g.seen ∧ X.take m <+: L

structure HInv (g : GSt) : Prop where
  r_mono : ∀ R ∈ g.created, ∀ K, K <+: R → K ≠ [] → lastTerm K ≤ lastTerm R
  r_same : ∀ R ∈ g.created, ∀ R' ∈ g.created, lastTerm R = lastTerm R' → R.length ≤ R'.length → R <+: R'
  r_ll : ∀ R ∈ g.created, ∃ c L, (lastTerm R, c, L) ∈ g.llogs ∧ L <+: R
  r_closed : ∀ R ∈ g.created, Rec g.created R
  ll_led : ∀ t c L, (t, c, L) ∈ g.llogs → (t, c) ∈ g.leaders
  ll_uniq : ∀ t c L c' L', (t, c, L) ∈ g.llogs → (t, c', L') ∈ g.llogs → L = L'
  ll_rec : ∀ t c L, (t, c, L) ∈ g.llogs → Rec g.created L
  ll_lt : ∀ t c L, (t, c, L) ∈ g.llogs → lastTerm L < t
  ll_q : ∀ U c L, (U, c, L) ∈ g.llogs → ∃ S : List Nat, S.Nodup ∧ quorum g.s.n ≤ S.length ∧
          ∀ f ∈ S, f < g.s.n ∧ U ≤ (g.s.nodes f).term ∧ VmProp g f U L
  s_term : ∀ j T L, (j, T, L) ∈ g.seen → T ≤ (g.s.nodes j).term
  s_rec : ∀ j T L, (j, T, L) ∈ g.seen → Rec g.created L
  k0 : ∀ U c Lc, (U, c, Lc) ∈ g.cands → U ≤ (g.s.nodes c).term
  k1 : ∀ c, (g.s.nodes c).role = .candidate → ((g.s.nodes c).term, c, (g.s.nodes c).log) ∈ g.cands
  k2 : ∀ U c Lc, (U, c, Lc) ∈ g.cands → lastTerm Lc < U ∧ Rec g.created Lc
  kvt : ∀ f U c, (f, U, c) ∈ g.voted → U ≤ (g.s.nodes c).term
  vm : ∀ f U c, (f, U, c) ∈ g.voted → ∀ Lc, (U, c, Lc) ∈ g.cands →
        (∃ c' L', (U, c', L') ∈ g.llogs) ∨ VmProp g f U Lc
  n_lt : ∀ i, lastTerm (g.s.nodes i).log ≤ (g.s.nodes i).term
  n_ldr : ∀ i, (g.s.nodes i).role = .leader → LeaderLog g (g.s.nodes i).term (g.s.nodes i).log
  n_ms : ∀ i, (g.s.nodes i).role = .leader → ∀ j, (g.s.nodes i).matchIndex.getD j 0 = 0 ∨
          ((g.s.nodes i).matchIndex.getD j 0 ≤ (g.s.nodes i).log.length ∧
           ∃ L, (j, (g.s.nodes i).term, L) ∈ g.seen ∧ (g.s.nodes i).log.take ((g.s.nodes i).matchIndex.getD j 0) <+: L)
  n_seen : ∀ i, (g.s.nodes i).log = [] ∨ (i, (g.s.nodes i).term, (g.s.nodes i).log) ∈ g.seen
  n_cn : ∀ i, CommB g ((g.s.nodes i).log.take (g.s.nodes i).commit) (g.s.nodes i).term
  n_cl : ∀ i, (g.s.nodes i).commit ≤ (g.s.nodes i).log.length
  n_a1 : ∀ f T K, Accepted g f T K → K <+: (g.s.nodes f).log ∨
          ∃ t' c' L', (t', c', L') ∈ g.llogs ∧ T < t' ∧ t' ≤ (g.s.nodes f).term ∧ ¬ K <+: L'
  m_rv : ∀ e ∈ g.s.msgs, ∀ U c li lt, e.body = .rv U c li lt → U ≤ (g.s.nodes c).term ∧
          ∀ Lc, (U, c, Lc) ∈ g.cands → li = Lc.length ∧ lt = lastTerm Lc
  m_ae : ∀ e ∈ g.s.msgs, ∀ t l pi pt es lc, e.body = .ae t l pi pt es lc → AEM g t pi pt es lc
  m_ar : ∀ e ∈ g.s.msgs, ∀ t f m, e.body = .ar t true f m → ARM g t f m

theorem hinv_init (n : Nat) : HInv (ginit n) := by
  constructor <;> simp [ginit, init, initNode, lastTerm, CommB, Accepted]

/-! ### consequences in one state -/

theorem quorum_pos (n : Nat) : 1 ≤ quorum n := by unfold quorum; omega

theorem Accepted.mem_created {g : GSt} (hi : HInv g) {f T : Nat} {K : List Entry} (a : Accepted g f T K) : K ∈ g.created := by
  obtain ⟨h1, _, L, h3, h4⟩ := a
  exact (hi.s_rec f T L h3).mem_prefix h4 h1

theorem QA.mem_created {g : GSt} (hi : HInv g) {K : List Entry} {T : Nat} (q : QA g K T) : K ∈ g.created ∧ lastTerm K = T := by
  obtain ⟨Q, _, h2, h3⟩ := q
  have := quorum_pos g.s.n
  match Q, h2, h3 with
  | [], _, h3 => simp at h3; omega
  | f :: _, h2, _ =>
    have := (h2 f (by simp)).2
    exact ⟨this.mem_created hi, this.2.1⟩

/-- LEADER COMPLETENESS, at the level of records: a record accepted by a quorum in term `T` is a prefix
    of the election-time log of every leader of a later term.  Strong induction on the later term;
    the vote quorum and the acceptance quorum share a node, and that node's vote came with `VmProp`. -/
theorem lc_main {g : GSt} (hi : HInv g) : ∀ U, ∀ K T, QA g K T → ∀ c L, (U, c, L) ∈ g.llogs → T < U → K <+: L := by
  intro U
  induction U using Nat.strongRecOn with
  | _ U ih =>
    intro K T hqa c L hL hTU
    obtain ⟨S, hSnd, hSq, hS⟩ := hi.ll_q U c L hL
    obtain ⟨Q, hQnd, hQ, hQq⟩ := hqa
    obtain ⟨f, hf1, hf2⟩ := quorum_lists_meet g.s.n S Q hSnd hQnd (fun f hf => (hS f hf).1) (fun f hf => (hQ f hf).1) hSq hQq
    rcases (hS f hf1).2.2 T K hTU (hQ f hf2).2 with h | ⟨t', c', L', h1, h2, h3, h4⟩
    · exact h
    · exact absurd (ih t' h3 K T ⟨Q, hQnd, hQ, hQq⟩ c' L' h1 h2) h4

/-- every log of the leader of `t` extends its election-time log -/
theorem LeaderLog.ext_init {g : GSt} (hi : HInv g) {t : Nat} {X : List Entry} (h : LeaderLog g t X) {c : Nat} {L : List Entry}
    (hL : (t, c, L) ∈ g.llogs) : L <+: X := by
  obtain ⟨c', L', h1, h2, _⟩ := h
  rw [hi.ll_uniq t c L c' L' hL h1]; exact h2

theorem LeaderLog.rec {g : GSt} (hi : HInv g) {t : Nat} {X : List Entry} (h : LeaderLog g t X) : Rec g.created X := by
  obtain ⟨c, L, h1, _, h3⟩ := h
  rcases h3 with h3 | ⟨h3, _⟩
  · rw [h3]; exact hi.ll_rec t c L h1
  · exact hi.r_closed X h3

theorem LeaderLog.lastTerm_le {g : GSt} (hi : HInv g) {t : Nat} {X : List Entry} (h : LeaderLog g t X) : lastTerm X ≤ t := by
  obtain ⟨c, L, h1, _, h3⟩ := h
  rcases h3 with h3 | ⟨_, h3⟩
  · rw [h3]; exact Nat.le_of_lt (hi.ll_lt t c L h1)
  · omega

/-- a record of term `t` and a log of the leader of `t` are comparable -/
theorem LeaderLog.comparable {g : GSt} (hi : HInv g) {t : Nat} {X : List Entry} (h : LeaderLog g t X) {K : List Entry}
    (hK : K ∈ g.created) (hKt : lastTerm K = t) : K <+: X ∨ X <+: K := by
  obtain ⟨c, L, h1, h2, h3⟩ := h
  rcases h3 with h3 | ⟨h3, h4⟩
  · right
    obtain ⟨c', L', h5, h6⟩ := hi.r_ll K hK
    rw [hKt] at h5
    rw [h3, hi.ll_uniq t c L c' L' h1 h5]; exact h6
  · by_cases hlen : K.length ≤ X.length
    · exact Or.inl (hi.r_same K hK X h3 (by omega) hlen)
    · exact Or.inr (hi.r_same X h3 K hK (by omega) (by omega))

/-- two logs of the leader of `t` are comparable -/
theorem LeaderLog.comparable₂ {g : GSt} (hi : HInv g) {t : Nat} {X Y : List Entry} (hX : LeaderLog g t X) (hY : LeaderLog g t Y) :
    X <+: Y ∨ Y <+: X := by
  obtain ⟨c, L, h1, h2, h3⟩ := hY
  rcases h3 with h3 | ⟨h3, h4⟩
  · right; rw [h3]; exact hX.ext_init hi h1
  · exact (hX.comparable hi h3 h4).symm

/-- a committed prefix is in the election-time log of every leader of a later term -/
theorem CommB.in_leader {g : GSt} (hi : HInv g) {K : List Entry} {b : Nat} (c : CommB g K b) {U c' : Nat} {L : List Entry}
    (hL : (U, c', L) ∈ g.llogs) (hb : b < U) : K <+: L := by
  rcases c with c | ⟨T, K', h1, h2, h3⟩
  · rw [c]; exact List.nil_prefix
  · exact h3.trans (lc_main hi U K' T h2 c' L hL (by omega))

/-- a committed prefix (bound `b`) and a log of the leader of a term `≥ b` are comparable -/
theorem CommB.vs_leaderLog {g : GSt} (hi : HInv g) {K : List Entry} {b : Nat} (c : CommB g K b) {t : Nat} {X : List Entry}
    (hX : LeaderLog g t X) (hb : b ≤ t) : K <+: X ∨ X <+: K := by
  rcases c with c | ⟨T, K', h1, h2, h3⟩
  · left; rw [c]; exact List.nil_prefix
  · obtain ⟨hK', hK't⟩ := h2.mem_created hi
    by_cases hT : T = t
    · rcases hX.comparable hi hK' (by omega) with h | h
      · exact Or.inl (h3.trans h)
      · rcases List.prefix_or_prefix_of_prefix h3 h with h' | h'
        · exact Or.inl h'
        · exact Or.inr h'
    · obtain ⟨c', L, hL, hLX, _⟩ := hX
      exact Or.inl ((h3.trans (lc_main hi t K' T h2 c' L hL (by omega))).trans hLX)

/-- any two committed prefixes are comparable -/
theorem CommB.comparable {g : GSt} (hi : HInv g) {K1 K2 : List Entry} {b1 b2 : Nat} (c1 : CommB g K1 b1) (c2 : CommB g K2 b2) :
    K1 <+: K2 ∨ K2 <+: K1 := by
  rcases c1 with c1 | ⟨T1, K1', _, q1, p1⟩
  · left; rw [c1]; exact List.nil_prefix
  rcases c2 with c2 | ⟨T2, K2', _, q2, p2⟩
  · right; rw [c2]; exact List.nil_prefix
  obtain ⟨m1, t1⟩ := q1.mem_created hi
  obtain ⟨m2, t2⟩ := q2.mem_created hi
  have key : ∀ {Ka Kb Ka' Kb' : List Entry} {Ta Tb : Nat}, QA g Ka' Ta → Kb' ∈ g.created → lastTerm Kb' = Tb → Ta < Tb →
      Ka <+: Ka' → Kb <+: Kb' → Ka <+: Kb ∨ Kb <+: Ka := by
    intro Ka Kb Ka' Kb' Ta Tb qa mb tb hlt pa pb
    obtain ⟨c, L, hL, hLK⟩ := hi.r_ll Kb' mb
    rw [tb] at hL
    have := (lc_main hi Tb Ka' Ta qa c L hL hlt).trans hLK
    exact List.prefix_or_prefix_of_prefix (pa.trans this) pb
  by_cases h : T1 = T2
  · have hc : K1' <+: K2' ∨ K2' <+: K1' := by
      by_cases hlen : K1'.length ≤ K2'.length
      · exact Or.inl (hi.r_same K1' m1 K2' m2 (by omega) hlen)
      · exact Or.inr (hi.r_same K2' m2 K1' m1 (by omega) (by omega))
    rcases hc with hc | hc
    · exact List.prefix_or_prefix_of_prefix (p1.trans hc) p2
    · exact List.prefix_or_prefix_of_prefix p1 (p2.trans hc)
  · by_cases hlt : T1 < T2
    · exact key q1 m2 t2 hlt p1 p2
    · exact (key q2 m1 t1 (by omega) p2 p1).symm

end HappyModel.C11
