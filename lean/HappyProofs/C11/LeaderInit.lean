import HappyProofs.C11.Basic
/-! A node that becomes leader starts with fresh replication bookkeeping: `_become_leader` sets
    `match_index` to 0 and `next_index` to `last_index + 1` for every peer, so nothing a node
    learnt about its followers in an earlier leadership term survives into a later one.
    Holds for every variant, every cluster size and every action list. -/
namespace HappyModel.C11

/-- the bookkeeping `_become_leader` installs -/
def FreshProgress (n : Nat) (x : Node) : Prop :=
  x.matchIndex = List.replicate n 0 ∧ x.nextIndex = List.replicate n (x.log.length + 1)

theorem leaderInit_fresh (n : Nat) (x : Node) : FreshProgress n (leaderInit n x) := ⟨rfl, rfl⟩

theorem role_of_ev {x y : Node} (h : x.ev = y.ev) : x.role = y.role := by
  have := congrArg EView.role h; exact this

theorem timeout_new_leader (n : Nat) (x : Node) (me : Nat) (h0 : x.role ≠ .leader)
    (h1 : (handleTimeout n x me).node.role = .leader) : FreshProgress n (handleTimeout n x me).node := by
  unfold handleTimeout at h1 ⊢
  simp only [h0, if_false] at h1 ⊢
  split
  · exact leaderInit_fresh n _
  · rename_i hq; simp only [hq, if_false] at h1
    simp [startElection] at h1

theorem rv_not_new_leader (v : Variant) (x : Node) (me src t c li lt : Nat) (h0 : x.role ≠ .leader) :
    (handleRV v x me src t c li lt).node.role ≠ .leader := by
  unfold handleRV rvCore
  split <;> split <;> simp_all [stepDown]

theorem vr_new_leader (v : Variant) (n : Nat) (x : Node) (me t : Nat) (g : Bool) (f : Nat) (h0 : x.role ≠ .leader)
    (h1 : (handleVR v n x me t g f).node.role = .leader) : FreshProgress n (handleVR v n x me t g f).node := by
  unfold handleVR at h1 ⊢
  split
  · rename_i ht; simp only [ht, if_true] at h1; simp [stepDown] at h1
  · rename_i ht; simp only [ht, if_false] at h1
    split
    · rename_i hc; simp only [hc, if_true] at h1; exact absurd h1 h0
    · rename_i hc; simp only [hc, if_false] at h1
      unfold vrCount at h1 ⊢
      split
      · exact leaderInit_fresh n _
      · rename_i hq; simp only [hq, if_false] at h1
        simp only [addVote] at h1; exact absurd h1 h0

theorem hb_not_new_leader (n : Nat) (x : Node) (me : Nat) (h0 : x.role ≠ .leader) :
    (handleHB n x me).node.role ≠ .leader := by
  unfold handleHB; split <;> exact h0

theorem ae_not_new_leader (v : Variant) (x : Node) (me src t pi pt : Nat) (es : List Entry) (lc : Nat)
    (h0 : x.role ≠ .leader) : (handleAE v x me src t pi pt es lc).node.role ≠ .leader := by
  unfold handleAE
  split
  · exact h0
  · split
    · simp [stepDown]
    · have h : (aeAccept v (stepDown v x t) me src pi es lc).node.ev = (stepDown v x t).ev := by
        unfold aeAccept; simp only []
        unfold aeCommit; split
        · rw [advanceCommit_ev]; exact appendLoop_ev v es _ _
        · exact appendLoop_ev v es _ _
      rw [role_of_ev h]; simp [stepDown]

theorem ar_not_new_leader (v : Variant) (n : Nat) (x : Node) (me t : Nat) (s : Bool) (f mi : Nat)
    (h0 : x.role ≠ .leader) : (handleAR v n x me t s f mi).node.role ≠ .leader := by
  unfold handleAR
  split
  · simp [stepDown]
  · split
    · exact h0
    · simp [h0]

theorem submit_not_new_leader (x : Node) (f : Nat) (c : Cmd) (h0 : x.role ≠ .leader) :
    (handleSubmit x f c).node.role ≠ .leader := by
  unfold handleSubmit; simp [h0]

theorem msg_new_leader (v : Variant) (n : Nat) (x : Node) (e : Env) (h0 : x.role ≠ .leader)
    (h1 : (handleMsg v n x e).node.role = .leader) : FreshProgress n (handleMsg v n x e).node := by
  unfold handleMsg at h1 ⊢
  split
  · rename_i hb; simp only [hb] at h1; exact absurd h1 (rv_not_new_leader v x _ _ _ _ _ _ h0)
  · rename_i hb; simp only [hb] at h1; exact vr_new_leader v n x _ _ _ _ h0 h1
  · rename_i hb; simp only [hb] at h1; exact absurd h1 (ae_not_new_leader v x _ _ _ _ _ _ _ h0)
  · rename_i hb; simp only [hb] at h1; exact absurd h1 (ar_not_new_leader v n x _ _ _ _ _ h0)

theorem applyHR_node (s : St) (i : Nat) (r : HR) (j : Nat) :
    (applyHR s i r).1.nodes j = if j = i then r.node else s.nodes j := by
  simp [applyHR, upd]

theorem step_n (v : Variant) (s : St) (a : Act) : (step v s a).1.n = s.n := by
  cases a <;> simp only [step]
  · split
    · split <;> rfl
    · rfl
  all_goals first | rfl | (split <;> rfl)

theorem run_n (v : Variant) (as : List Act) : ∀ s, (run v s as).n = s.n := by
  induction as with
  | nil => intro s; rfl
  | cons a as ih => intro s; simp only [run]; rw [ih, step_n]

/-- one step: a node that was not leader and now is has fresh `match_index` / `next_index` -/
theorem step_new_leader_fresh (v : Variant) (s : St) (a : Act) (i : Nat)
    (h0 : (s.nodes i).role ≠ .leader) (h1 : ((step v s a).1.nodes i).role = .leader) :
    FreshProgress s.n ((step v s a).1.nodes i) := by
  cases a with
  | deliver m =>
    cases he : findMsg s m with
    | none => simp only [step, he] at h1; exact absurd h1 h0
    | some e =>
      simp only [step, he] at h1 ⊢
      by_cases hc : canDeliver s e = true
      · simp only [hc, if_true] at h1 ⊢
        rw [applyHR_node] at h1 ⊢
        by_cases hj : i = e.dst
        · subst hj; simp only [if_true] at h1 ⊢; exact msg_new_leader v s.n _ e h0 h1
        · simp only [hj, if_false] at h1; exact absurd h1 h0
      · simp only [hc] at h1; exact absurd h1 h0
  | timeout j =>
    simp only [step] at h1 ⊢
    by_cases hc : alive s j = true
    · simp only [hc, if_true] at h1 ⊢
      rw [applyHR_node] at h1 ⊢
      by_cases hj : i = j
      · subst hj; simp only [if_true] at h1 ⊢; exact timeout_new_leader s.n _ i h0 h1
      · simp only [hj, if_false] at h1; exact absurd h1 h0
    · simp only [hc] at h1; exact absurd h1 h0
  | heartbeat j =>
    simp only [step] at h1
    by_cases hc : alive s j = true
    · simp only [hc, if_true] at h1
      rw [applyHR_node] at h1
      by_cases hj : i = j
      · subst hj; simp only [if_true] at h1; exact absurd h1 (hb_not_new_leader s.n _ i h0)
      · simp only [hj, if_false] at h1; exact absurd h1 h0
    · simp only [hc] at h1; exact absurd h1 h0
  | submit j f c =>
    simp only [step] at h1
    by_cases hc : j < s.n
    · simp only [hc, decide_true, if_true] at h1
      rw [applyHR_node] at h1
      by_cases hj : i = j
      · subst hj; simp only [if_true] at h1; exact absurd h1 (submit_not_new_leader _ f c h0)
      · simp only [hj, if_false] at h1; exact absurd h1 h0
    · simp only [hc, decide_false] at h1; exact absurd h1 h0
  | drop m => exact absurd h1 h0
  | crash j => exact absurd h1 h0
  | restart j => exact absurd h1 h0

/-- **fresh progress at every election win**: along any run (any variant, cluster size, action
    list), whenever an action turns a non-leader into a leader, that node's `match_index` is 0 and
    its `next_index` is `last_index + 1` for every peer — whatever it had recorded as leader of an
    earlier term is gone -/
theorem new_leader_progress_reset (v : Variant) (n : Nat) (as : List Act) (a : Act) (i : Nat)
    (h0 : ((run v (init n) as).nodes i).role ≠ .leader)
    (h1 : ((step v (run v (init n) as) a).1.nodes i).role = .leader) :
    FreshProgress n ((step v (run v (init n) as) a).1.nodes i) := by
  have h := step_new_leader_fresh v (run v (init n) as) a i h0 h1
  rwa [run_n] at h

/-- node 0 leads term 1 and learns `match_index[1] = 1`, is deposed by a RequestVote of term 2, and
    is about to win term 3 with the vote of node 1 (message 15) -/
def reelectRun : List Act :=
  [ .timeout 0, .deliver 0, .deliver 2, .submit 0 0 ⟨1, 0, 0, 1, none⟩, .heartbeat 0, .deliver 5, .deliver 7,
    .timeout 2, .timeout 2, .deliver 10, .timeout 0, .deliver 13 ]

/-- non-vacuity: before the winning vote node 0 is a candidate that still remembers `match_index[1] = 1`
    from term 1; the vote makes it leader of term 3 with `match_index = 0`, `next_index = 2` everywhere -/
example : ((run Variant.repaired (init 3) reelectRun).nodes 0).role = .candidate
    ∧ ((run Variant.repaired (init 3) reelectRun).nodes 0).matchIndex = [0, 1, 0]
    ∧ ((step Variant.repaired (run Variant.repaired (init 3) reelectRun) (.deliver 15)).1.nodes 0).role = .leader
    ∧ ((step Variant.repaired (run Variant.repaired (init 3) reelectRun) (.deliver 15)).1.nodes 0).term = 3
    ∧ ((step Variant.repaired (run Variant.repaired (init 3) reelectRun) (.deliver 15)).1.nodes 0).matchIndex = [0, 0, 0]
    ∧ ((step Variant.repaired (run Variant.repaired (init 3) reelectRun) (.deliver 15)).1.nodes 0).nextIndex = [2, 2, 2] := by
  decide

end HappyModel.C11
