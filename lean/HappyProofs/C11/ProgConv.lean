import HappyProofs.C11.ProgAll
/-! Bounded progress WITHOUT the in-sync premise (`stable_leader_commits_conv`).

The fairness predicate `convRun` follows the whole AppendEntries conversation between the leader
and a follower `p`: an AppendEntries of term `t` built from a log that already holds index `k`
is delivered to `p`; `p`'s reply is delivered to `L`; if it is a refusal, the retry `L` sends at
once (with `next_index[p]` decremented) is delivered to `p`, its reply to `L`, … until a reply
is a successful acknowledgement.  Nothing is assumed about the follower's log or about
`next_index`: the log back-off rounds are part of the conversation.  (That the conversation is
finite — at most `next_index[p]` rounds — is not proved; the predicate asks for it to be carried
through within the run.) -/
namespace HappyModel.C11
open Spec

/-- an AppendEntries of term `t` built from a log that reaches index `k` -/
def reaches (t k : Nat) : Body → Bool
  | .ae t' _ pi _ es _ => t' == t && decide (k ≤ pi + es.length)
  | _ => false

inductive Cv
  | idle
  | waitAR (rid : Nat)
  | waitAE (aid : Nat)
  | done
deriving DecidableEq, Repr

def isAck : Body → Bool
  | .ar _ true _ _ => true
  | _ => false

def cvStep (s : St) (L t k p : Nat) : Cv → Act → Cv
  | .idle, .deliver m =>
    match findMsg s m with
    | some e => if canDeliver s e && e.src == L && e.dst == p && reaches t k e.body then .waitAR s.nextId else .idle
    | none => .idle
  | .waitAE aid, .deliver m =>
    if m = aid then
      match findMsg s m with
      | some e => if canDeliver s e then .waitAR s.nextId else .waitAE aid
      | none => .waitAE aid
    else .waitAE aid
  | .waitAR rid, .deliver m =>
    if m = rid then
      match findMsg s m with
      | some e => if canDeliver s e then (if isAck e.body then .done else .waitAE s.nextId) else .waitAR rid
      | none => .waitAR rid
    else .waitAR rid
  | c, _ => c

def cvRun (v : Variant) (L t k p : Nat) : Cv → St → List Act → Cv
  | c, _, [] => c
  | c, s, a :: as => cvRun v L t k p (cvStep s L t k p c a) (step v s a).1 as

/-- FAIRNESS for follower `p`, back-off included: the conversation is carried through to a successful acknowledgement -/
def convRun (v : Variant) (L t k p : Nat) (s : St) (as : List Act) : Bool :=
  decide (cvRun v L t k p .idle s as = .done)

theorem cvStep_cases (s : St) (L t k p : Nat) (c : Cv) (a : Act) :
    cvStep s L t k p c a = c
    ∨ (c = .idle ∧ cvStep s L t k p c a = .waitAR s.nextId ∧
        ∃ m e, a = .deliver m ∧ findMsg s m = some e ∧ canDeliver s e = true ∧ e.src = L ∧ e.dst = p ∧ reaches t k e.body = true)
    ∨ (∃ aid e, c = .waitAE aid ∧ cvStep s L t k p c a = .waitAR s.nextId ∧ a = .deliver aid ∧ findMsg s aid = some e ∧ canDeliver s e = true)
    ∨ (∃ rid e, c = .waitAR rid ∧ a = .deliver rid ∧ findMsg s rid = some e ∧ canDeliver s e = true
        ∧ cvStep s L t k p c a = (if isAck e.body then .done else .waitAE s.nextId)) := by
  cases c with
  | done => left; cases a <;> rfl
  | idle =>
    cases a with
    | deliver m =>
      cases hf : findMsg s m with
      | none => left; simp [cvStep, hf]
      | some e =>
        by_cases hc : (canDeliver s e && e.src == L && e.dst == p && reaches t k e.body) = true
        · right; left
          have hc' := hc
          simp only [Bool.and_eq_true, beq_iff_eq] at hc'
          exact ⟨rfl, by simp only [cvStep, hf, hc, if_true], m, e, rfl, hf, hc'.1.1.1, hc'.1.1.2, hc'.1.2, hc'.2⟩
        · left; simp only [cvStep, hf, hc]; rfl
    | _ => left; rfl
  | waitAE aid =>
    cases a with
    | deliver m =>
      by_cases hm : m = aid
      · subst hm
        cases hf : findMsg s m with
        | none => left; simp [cvStep, hf]
        | some e =>
          by_cases hc : canDeliver s e = true
          · right; right; left
            exact ⟨m, e, rfl, by simp only [cvStep, hf, hc, if_true], rfl, hf, hc⟩
          · left; simp only [cvStep, hf, hc, if_true]; rfl
      · left; simp only [cvStep, hm, if_false]
    | _ => left; rfl
  | waitAR rid =>
    cases a with
    | deliver m =>
      by_cases hm : m = rid
      · subst hm
        cases hf : findMsg s m with
        | none => left; simp [cvStep, hf]
        | some e =>
          by_cases hc : canDeliver s e = true
          · right; right; right
            exact ⟨m, e, rfl, rfl, hf, hc, by simp only [cvStep, hf, hc, if_true]⟩
          · left; simp only [cvStep, hf, hc, if_true]; rfl
      · left; simp only [cvStep, hm, if_false]
    | _ => left; rfl

/-! ### the two handler runs of the conversation -/

/-- the follower holds the leader's first `k` entries and is in the leader's term -/
def Acc (s : St) (L t k p : Nat) : Prop := (s.nodes p).term = t ∧ Agree (s.nodes L).log (s.nodes p).log k

theorem acc_keep (v : Variant) (hr : Rep v) (g : GSt) (inv : PInv g) (a : Act) {L t k p : Nat} (hest : Est g.s L t) (hpne : p ≠ L)
    (hleL : ((step v g.s a).1.nodes L).term ≤ t) (hleP : ((step v g.s a).1.nodes p).term ≤ t) (h : Acc g.s L t k p) :
    Acc (step v g.s a).1 L t k p :=
  ⟨(fstep_log v hr g inv a hest hpne h.1 hleP).1, agree_step v hr g inv a hest hpne h.1 hleL hleP h.2⟩

/-- a follower (term `≤ t`) handles an AppendEntries of term `t` that reaches `k`: it refuses, or accepts and then holds the entry -/
theorem follower_ae (v : Variant) (hr : Rep v) (g : GSt) (inv : PInv g) {L t p k m0 : Nat} {e : Env} {l pi pt lc : Nat} {es : List Entry}
    (hest : Est g.s L t) (hpne : p ≠ L) (hpt : (g.s.nodes p).term ≤ t)
    (hf : findMsg g.s m0 = some e) (hc : canDeliver g.s e = true) (hdst : e.dst = p) (hb : e.body = .ae t l pi pt es lc)
    (hk : k ≤ pi + es.length) :
    ∃ b, (step v g.s (.deliver m0)).1.msgs = ⟨g.s.nextId, p, e.src, b⟩ :: g.s.msgs ∧
      (b = .ar t false p 0 ∨ ∃ m, k ≤ m ∧ b = .ar t true p m ∧ Acc (step v g.s (.deliver m0)).1 L t k p) := by
  have hmem := findMsg_mem hf
  have hstep := step_deliver (v := v) hf hc
  rw [hdst] at hstep
  have hh : handleMsg v g.s.n (g.s.nodes p) e = handleAE v (g.s.nodes p) p e.src t pi pt es lc := by
    unfold handleMsg; simp only [hb, hdst]
  rw [hh] at hstep
  unfold handleAE at hstep
  rw [if_neg (by omega)] at hstep
  cases hbad : aeBad (stepDown v (g.s.nodes p) t) pi pt with
  | true =>
    rw [hbad] at hstep
    simp only [if_true] at hstep
    refine ⟨.ar t false p 0, ?_, Or.inl rfl⟩
    rw [hstep]
    simp only [applyHR, mkEnvs, List.reverse_cons, List.reverse_nil, List.nil_append, List.singleton_append]
  | false =>
    rw [hbad] at hstep
    simp only [Bool.false_eq_true, if_false] at hstep
    have hterm : (aeCommit (appendLoop v (stepDown v (g.s.nodes p) t) (pi + 1) es) lc).node.term = t := by
      have : (aeCommit (appendLoop v (stepDown v (g.s.nodes p) t) (pi + 1) es) lc).node.ev = (stepDown v (g.s.nodes p) t).ev := by
        rw [aeCommit_ev, appendLoop_ev]
      exact (ev_eq this).1
    refine ⟨.ar t true p (pi + es.length), ?_, Or.inr ⟨pi + es.length, hk, rfl, ?_⟩⟩
    · rw [hstep]
      simp only [applyHR, aeAccept, hr.ms, if_true, mkEnvs, List.reverse_cons, List.reverse_nil, List.nil_append, List.singleton_append]
      rw [hterm]
    · obtain ⟨_, _, _, X, hX, hlen, hpre, _⟩ := accept_facts v hr inv.all.li inv.all.hi (g.s.nodes p) (inv.all.li.b p) (inv.all.hi.n_cl p)
        (inv.all.hi.n_cn p) (inv.all.hi.m_ae e hmem t l pi pt es lc hb) hpt hbad _ rfl
      have hXL : X <+: (g.s.nodes L).log := leaderLog_prefix inv.all hest.role (by rw [hest.term]; exact hX)
      rw [hstep]
      unfold Acc
      simp only [applyHR, upd_same]
      rw [upd_other _ _ _ _ (fun h => hpne h.symm)]
      refine ⟨hterm, ?_⟩
      show Agree (g.s.nodes L).log (aeCommit (appendLoop v (stepDown v (g.s.nodes p) t) (pi + 1) es) lc).node.log k
      refine ⟨by have := hXL.length_le; omega, ?_⟩
      rw [take_eq_of_prefix hXL (by omega)]
      exact (List.take_prefix _ _).trans hpre

/-- a refusal of term `t` delivered to the leader: `next_index` is decremented and the retry is sent at once -/
theorem nack_deliver (v : Variant) (hr : Rep v) {s : St} {L t m0 f' m : Nat} {e : Env} (hest : Est s L t) (hf : findMsg s m0 = some e)
    (hc : canDeliver s e = true) (hd : e.dst = L) (hb : e.body = .ar t false f' m) (hf' : f' < s.n) (hne : f' ≠ L) :
    step v s (.deliver m0)
      = applyHR s L { node := nackNode (s.nodes L) f', sends := [(f', aeFor (nackNode (s.nodes L) f') L f')] } := by
  rw [step_deliver hf hc, hd]
  congr 1
  unfold handleMsg; simp only [hb]
  unfold handleAR
  rw [if_neg (by rw [hest.term]; omega), if_neg (by rw [hest.term]; intro h; omega), if_neg (by rw [hest.role]; simp)]
  simp only [Bool.false_eq_true, if_false, hd]
  rw [if_pos ⟨hf', hne⟩]
  rfl

theorem aeFor_reaches (x : Node) (me p : Nat) : ∃ l pi pt es lc, aeFor x me p = .ae x.term l pi pt es lc ∧ x.log.length ≤ pi + es.length := by
  refine ⟨_, _, _, _, _, rfl, ?_⟩
  rw [List.length_drop]; omega

/-! ### why the conversation is short: every refusal lowers `next_index[p]`, and `prev = 0` is never refused -/

theorem prev0_not_refused (x : Node) (pt : Nat) : aeBad x 0 pt = false := by simp [aeBad]

theorem nack_decrements (x : Node) (p : Nat) (hp : p < x.nextIndex.length) :
    (nackNode x p).nextIndex.getD p 1 = max 1 (x.nextIndex.getD p 1 - 1) := by
  unfold nackNode
  simp only [List.getD_eq_getElem?_getD, List.getElem?_set_self hp, Option.getD_some]

/-! ### the invariant -/

def CvOk (s : St) (L t k p : Nat) : Cv → Prop
  | .idle => True
  | .waitAR rid => rid < s.nextId ∧ ∀ e ∈ s.msgs, e.id = rid →
      (∃ m, k ≤ m ∧ e = ⟨rid, p, L, .ar t true p m⟩ ∧ Acc s L t k p) ∨ e = ⟨rid, p, L, .ar t false p 0⟩
  | .waitAE aid => aid < s.nextId ∧ ∀ e ∈ s.msgs, e.id = aid →
      ∃ l pi pt es lc, e = ⟨aid, L, p, .ae t l pi pt es lc⟩ ∧ k ≤ pi + es.length
  | .done => k ≤ (s.nodes L).matchIndex.getD p 0 ∧ Acc s L t k p

structure CProg (g : GSt) (L t k f : Nat) (c : Cmd) (Q : List Nat) (cv : Nat → Cv) : Prop where
  inv : PInv g
  est : Est g.s L t
  basic : ∀ p ∈ Q, p < g.s.n ∧ p ≠ L
  entry : getE (g.s.nodes L).log k = some ⟨t, c⟩
  pend : (g.s.nodes L).lastApplied < k → getPending (g.s.nodes L).pending k = some f
  ok : ∀ p ∈ Q, CvOk g.s L t k p (cv p)
  alld : (∀ p ∈ Q, cv p = .done) → k ≤ (g.s.nodes L).lastApplied

theorem cprog_step (v : Variant) (hr : Rep v) {g : GSt} {L t k f : Nat} {c : Cmd} {Q : List Nat} {cv : Nat → Cv}
    (P : CProg g L t k f c Q cv) (hnd : Q.Nodup) (hq : quorum g.s.n ≤ Q.length + 1) (a : Act)
    (hst0 : termsLe g.s t (L :: Q) = true)
    (hst : termsLe (step v g.s a).1 t (L :: Q) = true) (hnr : regress g.s L t k Q a = false) :
    CProg (gstep v g a) L t k f c Q (fun p => cvStep g.s L t k p (cv p) a)
    ∧ ((g.s.nodes L).lastApplied < k → k ≤ ((step v g.s a).1.nodes L).lastApplied →
        (step v g.s a).2.target = some L ∧ ∃ res, (k, c, res) ∈ (step v g.s a).2.apps ∧ (f, k, res) ∈ (step v g.s a).2.ress) := by
  have hleL : ((step v g.s a).1.nodes L).term ≤ t := termsLe_mem hst (by simp)
  have hleP : ∀ p ∈ Q, ((step v g.s a).1.nodes p).term ≤ t := fun p hp => termsLe_mem hst (List.mem_cons_of_mem _ hp)
  have hle0 : ∀ p ∈ Q, (g.s.nodes p).term ≤ t := fun p hp => termsLe_mem hst0 (List.mem_cons_of_mem _ hp)
  have inv' := pinv_step v hr g P.inv a
  have est' := est_step v hr g P.inv a P.est hleL
  have hpost := lpost_of_lstep P.inv.all.hi.n_cl (lstep v hr g P.inv a P.est hleL)
  obtain ⟨lf1, lf2, lf3, lf4⟩ := lfacts v hr g P.inv a P.est hleL P.entry P.pend
  have keep : ∀ p ∈ Q, Acc g.s L t k p → Acc (step v g.s a).1 L t k p :=
    fun p hp h => acc_keep v hr g P.inv a P.est (P.basic p hp).2 hleL (hleP p hp) h
  obtain ⟨hid1, hid2⟩ := step_ids v g.s a
  have hklen : k ≤ (g.s.nodes L).log.length := (getE_le P.entry).2
  -- the step that hands `p` an AppendEntries of the conversation
  have toAE : ∀ p ∈ Q, ∀ m0 e, a = .deliver m0 → findMsg g.s m0 = some e → canDeliver g.s e = true → e.src = L → e.dst = p →
      (∃ l pi pt es lc, e.body = .ae t l pi pt es lc ∧ k ≤ pi + es.length) → CvOk (step v g.s a).1 L t k p (.waitAR g.s.nextId) := by
    intro p hp m0 e ha hf hc hsrc hdst ⟨l, pi, pt, es, lc, hb, hk⟩
    obtain ⟨b, hmsgs, hbcase⟩ := follower_ae v hr g P.inv P.est (P.basic p hp).2 (hle0 p hp) hf hc hdst hb hk
    rw [hsrc] at hmsgs
    have hnew : (⟨g.s.nextId, p, L, b⟩ : Env) ∈ (step v g.s a).1.msgs := by rw [ha, hmsgs]; simp
    refine ⟨idsOk_step v g.s a P.inv.ids _ hnew, fun e' he' hid => ?_⟩
    rw [ha, hmsgs] at he'
    simp only [List.mem_cons] at he'
    rcases he' with he' | he'
    · rcases hbcase with hbf | ⟨m, hkm, hbs, hacc⟩
      · right; rw [he', hbf]
      · left; rw [ha]; exact ⟨m, hkm, by rw [he', hbs], hacc⟩
    · have := P.inv.ids e' he'; omega
  -- the step that hands `L` the reply
  have fromAR : ∀ p ∈ Q, ∀ rid e, cv p = .waitAR rid → a = .deliver rid → findMsg g.s rid = some e → canDeliver g.s e = true →
      (∃ m, k ≤ m ∧ e = ⟨rid, p, L, .ar t true p m⟩ ∧ Acc g.s L t k p
          ∧ ((step v g.s a).1.nodes L).matchIndex = (g.s.nodes L).matchIndex.set p m
          ∧ step v g.s a = applyHR g.s L (tryAdvance g.s.n (ackNode (g.s.nodes L) p m) L))
      ∨ (e = ⟨rid, p, L, .ar t false p 0⟩ ∧ CvOk (step v g.s a).1 L t k p (.waitAE g.s.nextId)) := by
    intro p hp rid e hph ha hf hc
    have hok := P.ok p hp
    rw [hph] at hok
    rcases hok.2 e (findMsg_mem hf) (findMsg_id hf) with ⟨m, hkm, he, hacc⟩ | he
    · left
      have hd : e.dst = L := by rw [he]
      have hb : e.body = .ar t true p m := by rw [he]
      have hs := ack_deliver v P.est hf hc hd hb
      rw [← ha] at hs
      refine ⟨m, hkm, he, hacc, ?_, hs⟩
      rw [hs]; simp only [applyHR, upd_same]; rw [tryAdvance_mi]; rfl
    · right
      refine ⟨he, ?_⟩
      have hd : e.dst = L := by rw [he]
      have hb : e.body = .ar t false p 0 := by rw [he]
      have hs := nack_deliver v hr P.est hf hc hd hb (P.basic p hp).1 (P.basic p hp).2
      rw [← ha] at hs
      obtain ⟨l, pi, pt, es, lc, hae, hlen⟩ := aeFor_reaches (nackNode (g.s.nodes L) p) L p
      have hmsgs : (step v g.s a).1.msgs = ⟨g.s.nextId, L, p, aeFor (nackNode (g.s.nodes L) p) L p⟩ :: g.s.msgs := by
        rw [hs]; simp only [applyHR, mkEnvs, List.reverse_cons, List.reverse_nil, List.nil_append, List.singleton_append]
      have hnew : (⟨g.s.nextId, L, p, aeFor (nackNode (g.s.nodes L) p) L p⟩ : Env) ∈ (step v g.s a).1.msgs := by rw [hmsgs]; simp
      refine ⟨idsOk_step v g.s a P.inv.ids _ hnew, fun e' he' hid => ?_⟩
      rw [hmsgs] at he'
      simp only [List.mem_cons] at he'
      rcases he' with he' | he'
      · refine ⟨l, pi, pt, es, lc, ?_, ?_⟩
        · rw [he', hae]
          have : (nackNode (g.s.nodes L) p).term = t := P.est.term
          rw [this]
        · have : (nackNode (g.s.nodes L) p).log.length = (g.s.nodes L).log.length := rfl
          omega
      · have := P.inv.ids e' he'; omega
  -- `match_index[p] ≥ k` survives the step
  have mikeep : ∀ p ∈ Q, k ≤ (g.s.nodes L).matchIndex.getD p 0 → k ≤ ((step v g.s a).1.nodes L).matchIndex.getD p 0 := by
    intro p hp hold
    rcases lf4 with h4 | ⟨m0, e, f', m, ha, hf, hc, hd, hb, h4⟩
    · rw [h4]; exact hold
    · rw [h4, getD_set_nat]
      split
      · rename_i hc'
        rw [ha] at hnr
        have hf'Q : f' ∈ Q := by rw [← hc'.1]; exact hp
        exact regress_false hnr hf hc hd hb hf'Q (by rw [← hc'.1]; exact hold)
      · exact hold
  have ok' : ∀ p ∈ Q, CvOk (step v g.s a).1 L t k p (cvStep g.s L t k p (cv p) a) := by
    intro p hp
    have hok := P.ok p hp
    rcases cvStep_cases g.s L t k p (cv p) a with h | ⟨_, h, m0, e, ha, hf, hc, hsrc, hdst, hre⟩ | ⟨aid, e, hph, h, ha, hf, hc⟩
      | ⟨rid, e, hph, ha, hf, hc, h⟩
    · rw [h]
      cases hcv : cv p with
      | idle => trivial
      | waitAR rid =>
        rw [hcv] at hok
        refine ⟨by have := hok.1; omega, fun e he hid => ?_⟩
        rcases hid2 e he with h' | h'
        · rcases hok.2 e h' hid with ⟨m, hkm, he', hacc⟩ | he'
          · exact Or.inl ⟨m, hkm, he', keep p hp hacc⟩
          · exact Or.inr he'
        · have := hok.1; omega
      | waitAE aid =>
        rw [hcv] at hok
        refine ⟨by have := hok.1; omega, fun e he hid => ?_⟩
        rcases hid2 e he with h' | h'
        · exact hok.2 e h' hid
        · have := hok.1; omega
      | done =>
        rw [hcv] at hok
        exact ⟨mikeep p hp hok.1, keep p hp hok.2⟩
    · rw [h]
      cases hb : e.body with
      | ae t' l pi pt es lc =>
        rw [hb] at hre
        simp only [reaches, Bool.and_eq_true, beq_iff_eq, decide_eq_true_eq] at hre
        exact toAE p hp m0 e ha hf hc hsrc hdst ⟨l, pi, pt, es, lc, by rw [hb, hre.1], hre.2⟩
      | rv _ _ _ _ => rw [hb] at hre; cases hre
      | vr _ _ _ => rw [hb] at hre; cases hre
      | ar _ _ _ _ => rw [hb] at hre; cases hre
    · rw [h]
      rw [hph] at hok
      obtain ⟨l, pi, pt, es, lc, he, hk⟩ := hok.2 e (findMsg_mem hf) (findMsg_id hf)
      exact toAE p hp aid e ha hf hc (by rw [he]) (by rw [he]) ⟨l, pi, pt, es, lc, by rw [he], hk⟩
    · rw [h]
      rcases fromAR p hp rid e hph ha hf hc with ⟨m, hkm, he, hacc, hmi, _⟩ | ⟨he, hok'⟩
      · have : isAck e.body = true := by rw [he]; rfl
        rw [this]; simp only [if_true]
        refine ⟨?_, keep p hp hacc⟩
        rw [hmi, getD_set_nat, if_pos ⟨rfl, by rw [P.inv.ml L]; exact (P.basic p hp).1⟩]; exact hkm
      · have : isAck e.body = false := by rw [he]; rfl
        rw [this]; simp only [Bool.false_eq_true, if_false]
        exact hok'
  refine ⟨⟨inv', by rw [gstep_s]; exact est', by rw [gstep_s, step_n]; exact P.basic, by rw [gstep_s]; exact getE_prefix P.entry hpost.log,
    by rw [gstep_s]; exact lf1, by rw [gstep_s]; exact ok', ?_⟩, lf2⟩
  -- all done: the last acknowledgement completes the quorum
  intro hall
  rw [gstep_s]
  by_cases hold : ∀ p ∈ Q, cv p = .done
  · exact Nat.le_trans (P.alld hold) lf3
  · obtain ⟨p0, hp0, hp0n⟩ : ∃ p0 ∈ Q, cv p0 ≠ .done := by
      apply Classical.byContradiction
      intro hc
      apply hold
      intro p hp
      apply Classical.byContradiction
      intro hpn
      exact hc ⟨p, hp, hpn⟩
    have hall0 := hall p0 hp0
    rcases cvStep_cases g.s L t k p0 (cv p0) a with h | ⟨_, h, _⟩ | ⟨_, _, _, h, _⟩ | ⟨rid, e, hph, ha, hf, hc, h⟩
    · rw [h] at hall0; exact absurd hall0 hp0n
    · rw [h] at hall0; cases hall0
    · rw [h] at hall0; cases hall0
    · rcases fromAR p0 hp0 rid e hph ha hf hc with ⟨m, hkm, he, _, _, hs⟩ | ⟨he, _⟩
      · by_cases hla : (g.s.nodes L).lastApplied < k
        · have hcount : Q.length + 1 ≤ countMatch g.s.n (ackNode (g.s.nodes L) p0 m) L k := by
            apply countMatch_ge _ _ _ _ _ hnd
            intro p hp
            refine ⟨(P.basic p hp).1, (P.basic p hp).2, ?_⟩
            show k ≤ ((g.s.nodes L).matchIndex.set p0 m).getD p 0
            rw [getD_set_nat]
            split
            · exact hkm
            · rename_i hne
              have hpne : p ≠ p0 := fun h => hne ⟨h, by rw [P.inv.ml L]; exact (P.basic p0 hp0).1⟩
              have hallp := hall p hp
              have hokp := P.ok p hp
              rcases cvStep_cases g.s L t k p (cv p) a with h' | ⟨_, h', _⟩ | ⟨_, _, _, h', _⟩ | ⟨rid', e', hph', ha', hf', hc', _⟩
              · rw [h'] at hallp; rw [hallp] at hokp; exact hokp.1
              · rw [h'] at hallp; cases hallp
              · rw [h'] at hallp; cases hallp
              · exfalso
                have hrr : rid' = rid := by rw [ha] at ha'; cases ha'; rfl
                subst hrr
                rw [hf] at hf'
                cases hf'
                rcases fromAR p hp rid' e hph' ha hf hc with ⟨m', _, he', _, _, _⟩ | ⟨he', _⟩
                · rw [he] at he'; cases he'; exact hpne rfl
                · rw [he] at he'; cases he'
          obtain ⟨_, _, _, hk', _⟩ := ack_commits g.s.n (g.s.nodes L) L p0 m k f ⟨t, c⟩ (P.inv.cl L) hla P.entry
            (by rw [P.est.term]) (P.pend hla) (by omega)
          rw [hs]; simp only [applyHR, upd_same]; exact hk'
        · exact Nat.le_trans (by omega) lf3
      · have : isAck e.body = false := by rw [he]; rfl
        rw [h, this] at hall0
        simp only [Bool.false_eq_true, if_false] at hall0
        cases hall0

end HappyModel.C11
