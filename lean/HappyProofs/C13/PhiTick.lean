import HappyProofs.C13.Detect
/-! The phi path of detection: a probe tick at which the detector of `x` is not available leaves
`x` not-ALIVE. -/
set_option linter.unusedSectionVars false
set_option linter.unusedSimpArgs false
namespace HappyModel.C13
variable {D : Type} [Inhabited D] [Detector D]

theorem member_suspect_other (nd : Node D) (x y : Nat) (h : x ≠ y) :
    (suspect nd y).member x = nd.member x := by
  unfold suspect
  simp only []
  split
  · show (nd.setMember y _).member x = _
    exact member_setMember_other _ _ _ _ h
  · rfl

theorem member_phiStep_other (a now : Nat) (nd : Node D) (x y : Nat) (h : x ≠ y) :
    (phiStep a now nd y).member x = nd.member x := by
  unfold phiStep
  split
  · rfl
  · simp only []
    split
    · exact member_suspect_other _ _ _ h
    · rfl

theorem na_phiStep_self (a now x : Nat) (nd : Node D) (hxa : x ≠ a)
    (hav : Detector.avail (nd.member x).det now = false) : NA x (phiStep a now nd x) := by
  unfold phiStep
  rw [if_neg hxa]
  simp only []
  by_cases hst : (nd.member x).st = .alive
  · simp only [hst, hav, decide_true, Bool.not_false, Bool.and_self, if_true]
    exact na_suspect_self x nd
  · have : ((decide ((nd.member x).st = MState.alive)) && !Detector.avail (nd.member x).det now) = false := by
      simp [hst]
    rw [this]
    exact hst

theorem na_phiFold (a now x : Nat) (hxa : x ≠ a) (l : List Nat) (nd : Node D) (hx : x ∈ l)
    (hav : Detector.avail (nd.member x).det now = false) : NA x (l.foldl (phiStep a now) nd) := by
  induction l generalizing nd with
  | nil => simp at hx
  | cons y ys ih =>
    simp only [List.foldl_cons]
    by_cases hy : x = y
    · subst hy
      exact foldl_pred (NA x) _ (fun nd z => na_phiStep a now x nd z) _ _
        (na_phiStep_self a now x nd hxa hav)
    · have hx' : x ∈ ys := by
        rcases List.mem_cons.mp hx with h | h
        · exact absurd h hy
        · exact h
      exact ih _ hx' (by rw [member_phiStep_other _ _ _ _ _ hy]; exact hav)

/-- node level: after `_handle_probe_tick`, a member whose detector is not available is not ALIVE -/
theorem na_onTick_unavailable (c : Cfg) (a now x : Nat) (shuf : List Nat) (nd : Node D)
    (hx : x < c.n) (hxa : x ≠ a) (hav : Detector.avail (nd.member x).det now = false) :
    NA x (onTick c a now shuf nd).1 := by
  unfold onTick
  simp only []
  have h1 : NA x (phiCheck c.n a now nd) := na_phiFold a now x hxa _ nd (by simpa using hx) hav
  have h2 := na_nextTarget c.n a x _ shuf h1
  split
  · exact h2.of_mem_eq rfl
  · split <;> exact h2.of_mem_eq rfl

end HappyModel.C13
