import HappyProofs.C13.InvRun
import HappyProofs.C13.DetectFull
/-!
The detection bound in terms of the number of crashes (`Spec.detectDeadline n k` with `k` = how many
nodes are down at the end of the run — what the judge uses): on a timely run with
`2·δ < half + susp` only crashed members are ever DEAD (`Inv.clean`), so while `a` reports the crashed
`x` ALIVE, its alive-list holds `x` and every member that is up: at least `n - k` entries.
-/
set_option linter.unusedSectionVars false
set_option linter.unusedSimpArgs false
namespace HappyModel.C13
variable {D : Type} [Inhabited D] [Detector D]

/-- how many of the `n` nodes are down -/
def crashedCount (c : Cfg) (s : Sys D) : Nat := (List.range c.n).countP s.isCrashed

theorem count_live (p : Nat → Bool) (a x : Nat) (hax : a ≠ x) (hpa : p a = false) (hpx : p x = true)
    (l : List Nat) (hn : l.Nodup) :
    l.countP (fun y => y != a && (!p y || y == x)) + l.countP p + (if a ∈ l then 1 else 0)
      = l.length + (if x ∈ l then 1 else 0) := by
  induction l with
  | nil => simp
  | cons y ys ih =>
    have hn' := List.nodup_cons.mp hn
    have ih' := ih hn'.2
    rw [List.countP_cons, List.countP_cons, List.length_cons]
    by_cases hya : y = a
    · have h1 : a ∉ ys := hya ▸ hn'.1
      have e1 : (y != a && (!p y || y == x)) = false := by rw [hya]; simp
      have e2 : p y = false := by rw [hya]; exact hpa
      have e3 : a ∈ y :: ys := by rw [hya]; simp
      have e4 : x ∈ y :: ys ↔ x ∈ ys := by rw [hya]; simp [Ne.symm hax]
      rw [if_neg h1] at ih'
      rw [if_pos e3]
      simp only [e1]
      simp only [e2, e4, Bool.false_eq_true, if_false]
      omega
    · by_cases hyx : y = x
      · have h1 : x ∉ ys := hyx ▸ hn'.1
        have e1 : (y != a && (!p y || y == x)) = true := by rw [hyx]; simp [Ne.symm hax]
        have e2 : p y = true := by rw [hyx]; exact hpx
        have e3 : a ∈ y :: ys ↔ a ∈ ys := by rw [hyx]; simp [hax]
        have e4 : x ∈ y :: ys := by rw [hyx]; simp
        rw [if_neg h1] at ih'
        rw [if_pos e4]
        simp only [e1]
        simp only [e2, e3, if_true]
        omega
      · have e3 : a ∈ y :: ys ↔ a ∈ ys := by simp [Ne.symm hya]
        have e4 : x ∈ y :: ys ↔ x ∈ ys := by simp [Ne.symm hyx]
        cases hp : p y
        · have e1 : (y != a && (!false || y == x)) = true := by simp [hya]
          simp only [e1]
          simp only [e3, e4, Bool.false_eq_true, if_false, if_true]
          omega
        · have e1 : (y != a && (!true || y == x)) = false := by simp [hyx]
          simp only [e1]
          simp only [e3, e4, Bool.false_eq_true, if_false, if_true]
          omega

/-- while `a` (up) reports the crashed `x` ALIVE and nobody up is DEAD in its view, its alive-list
    has at least `n - #crashed` entries -/
theorem alive_floor (c : Cfg) (δ : Nat) (s : Sys D) (a x K : Nat) (I : Inv c δ s)
    (hO : OrdInv c.n a (s.node a)) (ha : a < c.n) (hx : x < c.n) (hax : x ≠ a)
    (hla : s.isCrashed a = false) (hxc : s.isCrashed x = true) (hv : s.view a x = .alive)
    (hK : crashedCount c s ≤ K) : c.n - K ≤ (aliveOrder c.n a (s.node a)).length := by
  have hcnt := count_live s.isCrashed a x (fun e => hax e.symm) hla hxc (List.range c.n) List.nodup_range
  simp only [List.mem_range, ha, hx, if_true, List.length_range] at hcnt
  have hsub : ((List.range c.n).filter (fun y => y != a && (!s.isCrashed y || y == x))).length ≤
      (aliveOrder c.n a (s.node a)).length := by
    apply nodup_length_le (List.Nodup.sublist List.filter_sublist List.nodup_range)
    intro y hy
    rw [List.mem_filter] at hy
    obtain ⟨hyn, hq⟩ := hy
    simp only [Bool.and_eq_true, bne_iff_ne, ne_eq, Bool.or_eq_true, Bool.not_eq_true', beq_iff_eq] at hq
    have hym : isMember c.n a y = true := by
      simp only [isMember, Bool.and_eq_true, bne_iff_ne, ne_eq, decide_eq_true_eq]
      exact ⟨hq.1, by simpa using hyn⟩
    have hnd : (s.node a).view y ≠ .dead := by
      rcases hq.2 with h | h
      · exact (I.clean a y h).1
      · rw [h]; intro hd
        have : s.view a x = .dead := hd
        rw [hv] at this; cases this
    exact (mem_aliveOrder _ _ _ _).mpr ⟨hO.all y hym hnd, hym, hnd⟩
  rw [← List.countP_eq_length_filter] at hsub
  unfold crashedCount at hK
  omega

theorem crashedCount_step (c : Cfg) (s s' : Sys D) (now : Nat) (h : Step c s now s') :
    crashedCount c s ≤ crashedCount c s' :=
  List.countP_mono_left (fun y _ hy => crashed_step c s s' now h y hy)

theorem crashedCount_run (c : Cfg) (s : Sys D) (acts : List Act) :
    crashedCount c s ≤ crashedCount c (run c s acts) := by
  induction acts generalizing s with
  | nil => exact Nat.le_refl _
  | cons act rest ih => exact Nat.le_trans (crashedCount_step c s _ _ (step_rel c s act)) (ih _)

/-- along a timely run with `2·δ < half + susp`, from a state satisfying `Inv` and `GInv` in which `x`
    is down: the floor `n - k` on the alive-list, `k` = number of nodes down at the end -/
theorem lminRun_crashes (c : Cfg) (δ : Nat) (hδ : 2 * δ < c.half + c.susp) (a x T0 : Nat) (ha : a < c.n)
    (hx : x < c.n) (hax : x ≠ a) (s : Sys D) (acts : List Act) (I : Inv c δ s) (G : GInv c a T0 s)
    (hxc : s.isCrashed x = true) (hm : monoRun c s acts = true) (ht : timelyRun c δ s acts = true)
    (hp : punctualRun c a s acts = true) (hlive : (run c s acts).isCrashed a = false) :
    LminRun c (crashedCount c (run c s acts)) a x s acts := by
  induction acts generalizing s with
  | nil => trivial
  | cons act rest ih =>
    simp only [monoRun, Bool.and_eq_true, decide_eq_true_eq] at hm
    simp only [timelyRun, Bool.and_eq_true, List.all_eq_true, decide_eq_true_eq] at ht
    simp only [punctualRun, Bool.and_eq_true] at hp
    have hst := step_rel c s act
    have I' := inv_step c δ hδ s _ act.time I (fun m hm => ht.1.1 m hm) hst ht.1.2
    have G' := ginv_step c a T0 s act G hm.1 hp.1.2
    have hxc' := crashed_step c s _ _ hst x hxc
    have hl1 : (step c s act).isCrashed a = false := live_of_run c _ rest a hlive
    refine ⟨fun hv => ?_, ih _ I' G' hxc' hm.2 ht.2 hp.2 hlive⟩
    exact alive_floor c δ _ a x _ I' G'.ord ha hx hax hl1 hxc' hv (crashedCount_run c _ rest)

end HappyModel.C13
