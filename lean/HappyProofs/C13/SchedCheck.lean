import HappyModel.C13.Driver
import HappyProofs.C13.Detection
/-!
The schedule hypothesis `dueOk` is what the correspondence driver checks on every replayed schedule of
the real engine: before each action it lists the probe ticks and timers of live nodes that are overdue
(`Driver.overdue`; any such line is a model/implementation disagreement).  No `overdue` line means
`dueOk` for every live node.
-/
set_option linter.unusedSectionVars false
namespace HappyModel.C13
variable {D : Type} [Inhabited D] [Detector D]

/-- **overdue_nil_dueOk**: if the driver reports nothing overdue at time `t`, then `dueOk c s a t` holds
    for every live node `a` of the cluster -/
theorem overdue_nil_dueOk (c : Cfg) (s : Sys D) (t a : Nat) (ha : a < c.n)
    (hl : s.isCrashed a = false) (h : Driver.overdue c.n s t = []) : dueOk c s a t = true := by
  unfold Driver.overdue at h
  rw [List.flatMap_eq_nil_iff] at h
  have h1 := h a (by simpa using ha)
  simp only [hl, Bool.false_eq_true, if_false, List.append_eq_nil_iff] at h1
  obtain ⟨h2, h3⟩ := h1
  unfold dueOk
  simp only [Bool.and_eq_true, decide_eq_true_eq, List.all_eq_true, List.mem_range]
  refine ⟨?_, fun x hx => ?_⟩
  · by_cases hlt : (s.node a).nextTick < t
    · simp [hlt] at h2
    · omega
  · rw [List.filterMap_eq_nil_iff] at h3
    have h4 := h3 x (by simpa using hx)
    cases hp : (s.node a).pendOf x with
    | none => rfl
    | some tm =>
      rw [hp] at h4
      simp only [decide_eq_true_eq]
      by_cases hlt : tm.fire < t
      · simp [hlt] at h4
      · omega

end HappyModel.C13
