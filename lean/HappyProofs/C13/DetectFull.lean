import HappyProofs.C13.Detection
import HappyModel.C13.Spec
/-!
Assembly of the detection bound: from the crash of `x` on, `PostInv` holds after every action of a
time-monotone, timely, punctual schedule; an action later than `probeBy + half` finds `x` not ALIVE
at the live observer `a`.
-/
set_option linter.unusedSectionVars false
set_option linter.unusedSimpArgs false
namespace HappyModel.C13
variable {D : Type} [Inhabited D] [Detector D]

/-- the time by which the ack timer of a probe of `x` has been armed: one interval until the first
    tick after `cx + δ`, then at most `pot ≤ 2(n-1) + (n-1)(k-1)` further ticks -/
def probeBy (c : Cfg) (k δ cx : Nat) : Nat :=
  cx + δ + c.interval + (2 * (c.n - 1) + (c.n - 1) * ((c.n - 1) - (c.n - k))) * c.interval

theorem q_establish (c : Cfg) (k a x δ cx : Nat) (ctx : Ctx c a x) (nd : Node D) (hO : OrdInv c.n a nd)
    (hn : nd.nextTick ≤ cx + δ + c.interval) : Q c k a x (probeBy c k δ cx) nd := by
  intro _
  left
  have := Nat.mul_le_mul_right c.interval (pot_le c.n k a x ctx.ha nd hO.nodup)
  unfold Ph1 probeBy
  omega

/-- after every action, while `a` reports `x` ALIVE, `n - k ≤ |alive|` in `a`'s view: at most `k - 1`
    members besides `x` are ever lost to `a` (trivial for `k = n`) -/
def LminRun (c : Cfg) (k a x : Nat) : Sys D → List Act → Prop
  | _, [] => True
  | s, act :: rest =>
    ((step c s act).view a x = .alive →
      c.n - k ≤ (aliveOrder c.n a ((step c s act).node a)).length) ∧
    LminRun c k a x (step c s act) rest

theorem lminRun_full (c : Cfg) (a x : Nat) (s : Sys D) (acts : List Act) : LminRun c c.n a x s acts := by
  induction acts generalizing s with
  | nil => trivial
  | cons act rest ih => exact ⟨fun _ => by omega, ih _⟩

structure PostInv (c : Cfg) (k a x δ cx : Nat) (s : Sys D) : Prop where
  g : GInv c a (cx + δ) s
  xc : s.isCrashed x = true
  fb : FromBound s x cx
  q : Q c k a x (probeBy c k δ cx) (s.node a)
  late : probeBy c k δ cx + c.half < s.now → NA x (s.node a)

theorem post_step (c : Cfg) (k a x δ cx : Nat) (ctx : Ctx c a x) (s : Sys D) (act : Act)
    (I : PostInv c k a x δ cx s) (hmono : s.now ≤ act.time)
    (htimely : ∀ m ∈ s.soup, act.time ≤ m.sent + δ)
    (hdue : s.isCrashed a = false → dueOk c s a act.time = true) (hsh : shufOk c s a act = true)
    (hmin : (step c s act).view a x = .alive →
      c.n - k ≤ (aliveOrder c.n a ((step c s act).node a)).length)
    (hlive : (step c s act).isCrashed a = false) : PostInv c k a x δ cx (step c s act) := by
  have hst := step_rel c s act
  have hns := nodeStep c s act a
  have hnow := step_now c s _ _ hst
  have hg := ginv_step c a (cx + δ) s act I.g hmono hsh
  have hlive0 : s.isCrashed a = false := by
    cases h : s.isCrashed a with
    | false => rfl
    | true => rw [crashed_step c s _ _ hst a h] at hlive; cases hlive
  refine ⟨hg, crashed_step c s _ _ hst x I.xc, frombound_step c s _ _ x cx hst I.xc I.fb, ?_, ?_⟩
  · by_cases hl : cx + δ < act.time
    · have hq := quiet_of_frombound δ s a x cx act.time I.g.noAlive I.fb htimely hl
      exact q_nodeStep c k a x _ act.time ctx s act _ hns I.g.noAlive hq hdue hsh I.g.ord hmin I.q
    · refine q_establish c k a x δ cx ctx _ hg.ord ?_
      have := hg.next
      rw [hnow] at this
      omega
  · intro hlate
    rw [hnow] at hlate
    have hB : cx + δ ≤ probeBy c k δ cx := by unfold probeBy; omega
    have hq := quiet_of_frombound δ s a x cx act.time I.g.noAlive I.fb htimely (by omega)
    have hd := hdue hlive0
    have hna : NA x (s.node a) := by
      apply Classical.byContradiction
      intro hna
      rcases I.q hna with h1 | ⟨f, hp, hf1, _⟩
      · have := dueOk_tick hd
        unfold Ph1 at h1
        omega
      · have := dueOk_pend hd ctx.hx _ hp
        simp only at this
        omega
    exact na_step c s _ act.time a x hst hna hq

/-- the three schedule hypotheses, and the floor on the alive-list, along a run -/
theorem post_run (c : Cfg) (k a x δ cx : Nat) (ctx : Ctx c a x) (s : Sys D) (acts : List Act)
    (I : PostInv c k a x δ cx s) (hm : monoRun c s acts = true) (ht : timelyRun c δ s acts = true)
    (hp : punctualRun c a s acts = true) (hmin : LminRun c k a x s acts)
    (hlive : (run c s acts).isCrashed a = false) : PostInv c k a x δ cx (run c s acts) := by
  induction acts generalizing s with
  | nil => exact I
  | cons act rest ih =>
    simp only [monoRun, Bool.and_eq_true, decide_eq_true_eq] at hm
    simp only [timelyRun, Bool.and_eq_true, List.all_eq_true, decide_eq_true_eq] at ht
    simp only [punctualRun, Bool.and_eq_true, Bool.or_eq_true] at hp
    have hl1 : (step c s act).isCrashed a = false := live_of_run c _ rest a hlive
    refine ih _ (post_step c k a x δ cx ctx s act I hm.1 ht.1.1 ?_ hp.1.2 hmin.1 hl1) hm.2 ht.2 hp.2 hmin.2 hlive
    intro h0
    rcases hp.1.1 with h | h
    · rw [h0] at h; cases h
    · exact h

/-- the crash itself establishes `PostInv` -/
theorem post_crash (c : Cfg) (k a x δ cx : Nat) (ctx : Ctx c a x) (s : Sys D)
    (G : GInv c a (cx + δ) s) (hnow : s.now ≤ cx) : PostInv c k a x δ cx (step c s (.crash x cx)) := by
  have hst := step_rel c s (.crash x cx)
  have hg := ginv_step c a (cx + δ) s (.crash x cx) G hnow rfl
  have hnow' : (step c s (.crash x cx)).now = cx := rfl
  refine ⟨hg, crash_crashes c s x cx, ?_, ?_, ?_⟩
  · intro m hm _
    have : m ∈ s.soup := hm
    exact Nat.le_trans (G.sentLe m this) hnow
  · refine q_establish c k a x δ cx ctx _ hg.ord ?_
    have := hg.next
    rw [hnow'] at this
    omega
  · intro h
    rw [hnow'] at h
    have hB : cx + δ ≤ probeBy c k δ cx := by unfold probeBy; omega
    omega

theorem ginv_run (c : Cfg) (a T0 : Nat) (s : Sys D) (acts : List Act) (I : GInv c a T0 s)
    (hm : monoRun c s acts = true) (hp : punctualRun c a s acts = true) : GInv c a T0 (run c s acts) := by
  induction acts generalizing s with
  | nil => exact I
  | cons act rest ih =>
    simp only [monoRun, Bool.and_eq_true, decide_eq_true_eq] at hm
    simp only [punctualRun, Bool.and_eq_true] at hp
    exact ih _ (ginv_step c a T0 s act I hm.1 hp.1.2) hm.2 hp.2

theorem punctualRun_append (c : Cfg) (a : Nat) (s : Sys D) (l1 l2 : List Act) :
    punctualRun c a s (l1 ++ l2) = (punctualRun c a s l1 && punctualRun c a (run c s l1) l2) := by
  induction l1 generalizing s with
  | nil => simp [punctualRun, run]
  | cons act rest ih => simp only [List.cons_append, punctualRun, run, ih, Bool.and_assoc]

/-- `probeBy + half` is within the deadline the judge applies (`Spec.detectDeadline n k`) -/
theorem probeBy_le_deadline (c : Cfg) (k δ cx : Nat) (hk : 1 ≤ k) :
    probeBy c k δ cx + c.half ≤ Spec.detectDeadline c.n k c.interval c.half δ cx := by
  unfold probeBy Spec.detectDeadline Spec.detectTicks
  obtain ⟨k', rfl⟩ : ∃ k', k = k' + 1 := ⟨k - 1, by omega⟩
  have h1 : (c.n - 1) * ((c.n - 1) - (c.n - (k' + 1))) ≤ (c.n - 1) * k' :=
    Nat.mul_le_mul_left _ (by omega)
  have h2 : (k' + 1 + 1) * (c.n - 1) = (c.n - 1) * k' + 2 * (c.n - 1) := by
    rw [Nat.add_mul, Nat.add_mul, Nat.mul_comm k']; omega
  have h3 : (2 * (c.n - 1) + (c.n - 1) * ((c.n - 1) - (c.n - (k' + 1))) + 1) * c.interval ≤
      ((k' + 1 + 1) * (c.n - 1) + 2) * c.interval := Nat.mul_le_mul_right _ (by omega)
  rw [Nat.add_mul, Nat.one_mul] at h3
  omega

/-- **detection, general form**: the run is `pre ++ crash x cx :: post`; `GInv` holds initially
    (`s0`); then under the schedule hypotheses a live observer does not report `x` ALIVE once an
    action later than the deadline for `k` has happened. -/
theorem detect_core (c : Cfg) (k δ : Nat) (s0 : Sys D) (pre post : List Act) (a x cx : Nat)
    (ctx : Ctx c a x) (hk : 1 ≤ k) (G : GInv c a (cx + δ) s0)
    (hm : monoRun c s0 (pre ++ .crash x cx :: post) = true)
    (ht : timelyRun c δ s0 (pre ++ .crash x cx :: post) = true)
    (hp : punctualRun c a s0 (pre ++ .crash x cx :: post) = true)
    (hmin : LminRun c k a x (run c s0 (pre ++ [.crash x cx])) post)
    (hlive : (run c s0 (pre ++ .crash x cx :: post)).isCrashed a = false)
    (hlate : Spec.detectDeadline c.n k c.interval c.half δ cx <
      (run c s0 (pre ++ .crash x cx :: post)).now) :
    (run c s0 (pre ++ .crash x cx :: post)).view a x ≠ .alive := by
  rw [monoRun_append, Bool.and_eq_true] at hm
  rw [timelyRun_append, Bool.and_eq_true] at ht
  rw [punctualRun_append, Bool.and_eq_true] at hp
  have G1 := ginv_run c a (cx + δ) s0 pre G hm.1 hp.1
  have hm2 := hm.2
  have ht2 := ht.2
  have hp2 := hp.2
  simp only [monoRun, Bool.and_eq_true, decide_eq_true_eq] at hm2
  simp only [timelyRun, Bool.and_eq_true] at ht2
  simp only [punctualRun, Bool.and_eq_true] at hp2
  have P1 := post_crash c k a x δ cx ctx (run c s0 pre) G1 hm2.1
  rw [run_append] at hlive hlate ⊢
  rw [run_append] at hmin
  have P2 := post_run c k a x δ cx ctx _ post P1 hm2.2 ht2.2 hp2.2 hmin hlive
  have hB := probeBy_le_deadline c k δ cx hk
  exact P2.late (by simp only [run] at hlate ⊢; omega)

end HappyModel.C13
