import HappyProofs.C13.Basic
/-! The initial state of a cluster (`Sys.init`), node by node. -/
set_option linter.unusedSectionVars false
namespace HappyModel.C13
variable {D : Type} [Inhabited D] [Detector D]

theorem lget_default_or_mem {α} (d : α) (l : List α) (i : Nat) : lget d l i = d ∨ lget d l i ∈ l := by
  induction l generalizing i with
  | nil => exact Or.inl (lget_nil d i)
  | cons x xs ih =>
    cases i with
    | zero => exact Or.inr (by simp [lget])
    | succ i =>
      rcases ih i with h | h
      · exact Or.inl (by simpa [lget] using h)
      · exact Or.inr (by simp [lget, h])

theorem lget_map_range {α} (d : α) (f : Nat → α) (n x : Nat) (h : x < n) :
    lget d ((List.range n).map f) x = f x := by
  have key : ∀ (l : List Nat) (i : Nat) (hi : i < l.length), lget d (l.map f) i = f (l[i]) := by
    intro l
    induction l with
    | nil => intro i hi; simp at hi
    | cons y ys ih =>
      intro i hi
      cases i with
      | zero => rfl
      | succ i => simpa [lget] using ih i (by simpa using hi)
  have := key (List.range n) x (by simpa using h)
  simpa using this

theorem init_node (c : Cfg) (det : D) (orders : List (List Nat)) (offs : List Nat) (a : Nat) :
    (∀ x, ((Sys.init c det orders offs).node a).pendOf x = none) ∧
    (∀ x, ((Sys.init c det orders offs).node a).view x = .alive) ∧
    ((Sys.init c det orders offs).node a).upds = [] := by
  unfold Sys.node Sys.init
  simp only []
  rcases lget_default_or_mem (default : Node D) ((List.range c.n).map fun a =>
      Node.init c det (lget [] orders a) (lget 0 offs a)) a with h | h
  · rw [h]
    exact ⟨fun x => lget_nil _ _, fun x => by simp [Node.view, Node.member, default, lget_nil], rfl⟩
  · obtain ⟨b, _, hb⟩ := List.mem_map.mp h
    rw [← hb]
    refine ⟨fun x => ?_, fun x => ?_, rfl⟩
    · rcases lget_default_or_mem (none : Option Timer) (List.replicate c.n none) x with h1 | h1
      · exact h1
      · exact List.eq_of_mem_replicate h1
    · unfold Node.view Node.member Node.init
      simp only []
      rcases lget_default_or_mem (default : Member D) (List.replicate c.n { det := det }) x with h1 | h1
      · rw [h1]; rfl
      · rw [List.eq_of_mem_replicate h1]

theorem init_node_eq (c : Cfg) (det : D) (orders : List (List Nat)) (offs : List Nat) (a : Nat)
    (ha : a < c.n) :
    (Sys.init c det orders offs).node a = Node.init c det (lget [] orders a) (lget 0 offs a) := by
  unfold Sys.node Sys.init
  simp only []
  exact lget_map_range _ _ _ _ ha

/-- the observed row of node `a` -/
def obsRow (n : Nat) (s : Sys D) (a : Nat) : List MState := (List.range n).map (s.view a)

end HappyModel.C13
