import HappyProofs.C13.Probe
import HappyProofs.C13.Partition
/-!
Two facts about every handler that the detection bound rests on:

* no handler ever creates an "alive" update (`NAl`), so — the initial state having none — no
  update anywhere in the system says "alive" (`SNoAlive`);
* a handler that processes no "alive" update leaves the probe order, the probe index and the time
  of the next tick alone unless it is the probe tick itself, and never takes a member out of DEAD
  (`Keep`).
-/
set_option linter.unusedSectionVars false
set_option linter.unusedSimpArgs false
namespace HappyModel.C13
variable {D : Type} [Inhabited D] [Detector D]

/-- no update of the list says "alive" -/
def NAl (us : List Update) : Prop := ∀ u ∈ us, u.kind ≠ .alive

theorem NAl.nil : NAl [] := fun _ h => by cases h

theorem NAl.append {us vs : List Update} (h1 : NAl us) (h2 : NAl vs) : NAl (us ++ vs) := by
  intro u hu
  rcases List.mem_append.mp hu with h | h
  · exact h1 u h
  · exact h2 u h

theorem NAl.not_hasAlive {us : List Update} (h : NAl us) (x : Nat) : ¬ hasAlive x us := by
  rintro ⟨u, hu, _, hk⟩
  exact h u hu hk

/-- probe order, probe index, next tick unchanged; DEAD stays DEAD -/
structure Keep (nd nd' : Node D) : Prop where
  order : nd'.order = nd.order
  pidx : nd'.pidx = nd.pidx
  tick : nd'.nextTick = nd.nextTick
  dead : ∀ y, nd.view y = .dead → nd'.view y = .dead

theorem Keep.refl (nd : Node D) : Keep nd nd := ⟨rfl, rfl, rfl, fun _ h => h⟩

theorem Keep.trans {a b c : Node D} (h1 : Keep a b) (h2 : Keep b c) : Keep a c :=
  ⟨h2.order.trans h1.order, h2.pidx.trans h1.pidx, h2.tick.trans h1.tick,
   fun y h => h2.dead y (h1.dead y h)⟩

theorem Keep.of_eq {nd nd' : Node D} (hm : nd'.mem = nd.mem) (ho : nd'.order = nd.order)
    (hp : nd'.pidx = nd.pidx) (ht : nd'.nextTick = nd.nextTick) : Keep nd nd' := by
  refine ⟨ho, hp, ht, fun y h => ?_⟩
  unfold Node.view Node.member at *
  rw [hm]; exact h

theorem Keep.setMember (nd : Node D) (x : Nat) (m : Member D)
    (h : (nd.member x).st = .dead → m.st = .dead) : Keep nd (nd.setMember x m) := by
  refine ⟨rfl, rfl, rfl, fun y hy => ?_⟩
  by_cases hyx : y = x
  · subst hyx; rw [view_def, member_setMember_same]; exact h hy
  · rw [view_def, member_setMember_other _ _ _ _ hyx]; exact hy

theorem applyToMember_dead_stays (m : Member D) (u : Update) (hu : u.kind ≠ .alive)
    (hd : m.st = .dead) : (applyToMember m u).st = .dead := by
  unfold applyToMember
  split
  · exact hd
  · cases hk : u.kind <;> simp only []
    · rw [if_neg (by rw [hd]; simp)]; exact hd
    · rw [if_neg (by simp [hd])]; exact hd
    · exact absurd hk hu

theorem keep_applyOne (n a : Nat) (nd : Node D) (u : Update) (hu : u.kind ≠ .alive) :
    Keep nd (applyOne n a nd u) := by
  unfold applyOne
  split
  · exact Keep.setMember _ _ _ (applyToMember_dead_stays _ _ hu)
  · exact Keep.refl _

theorem keep_applyUpdates (n a : Nat) (nd : Node D) (us : List Update) (hu : NAl us) :
    Keep nd (applyUpdates n a nd us) := by
  unfold applyUpdates
  induction us generalizing nd with
  | nil => exact Keep.refl _
  | cons u us ih =>
    simp only [List.foldl_cons]
    exact (keep_applyOne n a nd u (hu u (by simp))).trans
      (ih _ (fun v hv => hu v (by simp [hv])))

theorem upds_applyOne (n a : Nat) (nd : Node D) (u : Update) : (applyOne n a nd u).upds = nd.upds := by
  unfold applyOne; split <;> rfl

theorem upds_applyUpdates (n a : Nat) (nd : Node D) (us : List Update) :
    (applyUpdates n a nd us).upds = nd.upds := by
  unfold applyUpdates
  induction us generalizing nd with
  | nil => rfl
  | cons u us ih => simp only [List.foldl_cons]; rw [ih, upds_applyOne]

theorem keep_heard (nd : Node D) (x now : Nat) : Keep nd (heard nd x now) := by
  unfold heard
  refine Keep.setMember _ _ _ (fun h => ?_)
  simp only [h]
  rfl

theorem keep_suspect (nd : Node D) (x : Nat) : Keep nd (suspect nd x) := by
  unfold suspect
  simp only []
  split
  · rename_i h
    refine (Keep.setMember nd x _ (fun hd => ?_)).trans (Keep.of_eq rfl rfl rfl rfl)
    rw [hd] at h; cases h
  · exact Keep.refl _

theorem nal_suspect (nd : Node D) (x : Nat) (h : NAl nd.upds) : NAl (suspect nd x).upds := by
  unfold suspect
  simp only []
  split
  · show NAl (nd.upds ++ _)
    refine h.append ?_
    intro u hu
    simp only [List.mem_singleton] at hu
    rw [hu]; simp
  · exact h

theorem keep_phiStep (a now : Nat) (nd : Node D) (x : Nat) : Keep nd (phiStep a now nd x) := by
  unfold phiStep
  split
  · exact Keep.refl _
  · simp only []
    split
    · exact keep_suspect _ _
    · exact Keep.refl _

theorem nal_phiStep (a now : Nat) (nd : Node D) (x : Nat) (h : NAl nd.upds) :
    NAl (phiStep a now nd x).upds := by
  unfold phiStep
  split
  · exact h
  · simp only []
    split
    · exact nal_suspect _ _ h
    · exact h

theorem keep_phiCheck (n a now : Nat) (nd : Node D) : Keep nd (phiCheck n a now nd) :=
  foldl_rel Keep Keep.refl (fun _ _ _ => Keep.trans) _ (keep_phiStep a now) _ nd

theorem nal_phiCheck (n a now : Nat) (nd : Node D) (h : NAl nd.upds) :
    NAl (phiCheck n a now nd).upds :=
  foldl_pred (fun nd => NAl nd.upds) _ (fun nd y => nal_phiStep a now nd y) _ nd h

theorem upds_nextTarget (n a : Nat) (nd : Node D) (shuf : List Nat) :
    (nextTarget n a nd shuf).1.upds = nd.upds := by
  unfold nextTarget
  simp only []
  split
  · rfl
  · split <;> rfl

theorem mem_nextTarget (n a : Nat) (nd : Node D) (shuf : List Nat) :
    (nextTarget n a nd shuf).1.mem = nd.mem := by
  unfold nextTarget
  simp only []
  split
  · rfl
  · split <;> rfl

/-! ### "alive"-freedom of what a handler leaves behind and sends -/

def OutsNAl (os : List Out) : Prop := ∀ o ∈ os, NAl o.upds

theorem nal_onTick (c : Cfg) (a now : Nat) (shuf : List Nat) (nd : Node D) (h : NAl nd.upds) :
    NAl (onTick c a now shuf nd).1.upds ∧ OutsNAl (onTick c a now shuf nd).2 := by
  have h2 : NAl (nextTarget c.n a (phiCheck c.n a now nd) shuf).1.upds := by
    rw [upds_nextTarget]; exact nal_phiCheck c.n a now nd h
  unfold onTick
  simp only []
  split
  · exact ⟨h2, fun _ ho => by cases ho⟩
  · split
    · refine ⟨NAl.nil, fun o ho => ?_⟩
      simp only [List.mem_singleton] at ho
      rw [ho]; exact h2
    · exact ⟨h2, fun _ ho => by cases ho⟩

theorem nal_onPing (c : Cfg) (a now : Nat) (m : Msg) (nd : Node D) (h : NAl nd.upds) :
    NAl (onPing c a now m nd).1.upds ∧ OutsNAl (onPing c a now m nd).2 := by
  have h2 : NAl (if isMember c.n a m.src then heard (applyUpdates c.n a nd m.upds) m.src now
      else applyUpdates c.n a nd m.upds).upds := by
    split
    · show NAl (applyUpdates c.n a nd m.upds).upds
      rw [upds_applyUpdates]; exact h
    · rw [upds_applyUpdates]; exact h
  unfold onPing
  simp only []
  refine ⟨NAl.nil, fun o ho => ?_⟩
  simp only [List.mem_singleton] at ho
  rw [ho]; exact h2

theorem nal_onAck (c : Cfg) (a now : Nat) (m : Msg) (nd : Node D) (h : NAl nd.upds) :
    NAl (onAck c a now m nd).1.upds ∧ OutsNAl (onAck c a now m nd).2 := by
  unfold onAck
  simp only []
  split
  · refine ⟨?_, fun _ ho => by cases ho⟩
    show NAl (applyUpdates c.n a nd m.upds).upds
    rw [upds_applyUpdates]; exact h
  · refine ⟨?_, fun _ ho => by cases ho⟩
    rw [upds_applyUpdates]; exact h

theorem outsNAl_indirect (x : Nat) (ups : List Update) (ds : List Nat) (h : NAl ups) :
    OutsNAl (indirectOuts x ups ds) := by
  cases ds with
  | nil => intro o ho; cases ho
  | cons d ds =>
    intro o ho
    simp only [indirectOuts, List.mem_cons, List.mem_map] at ho
    rcases ho with rfl | ⟨d', _, rfl⟩
    · exact h
    · exact NAl.nil

theorem nal_onIndTimeout (c : Cfg) (a now x : Nat) (shuf : List Nat) (nd : Node D) (h : NAl nd.upds) :
    NAl (onIndTimeout c a now x shuf nd).1.upds ∧ OutsNAl (onIndTimeout c a now x shuf nd).2 := by
  unfold onIndTimeout
  simp only []
  have h0 : NAl (if c.fix then suspect nd x else nd).upds := by
    split
    · exact nal_suspect _ _ h
    · exact h
  revert h0
  generalize (if c.fix = true then suspect nd x else nd) = nd0
  intro h0
  refine ⟨?_, outsNAl_indirect _ _ _ h0⟩
  split
  · exact h0
  · exact NAl.nil

theorem nal_onSuspTimeout (x : Nat) (nd : Node D) (h : NAl nd.upds) : NAl (onSuspTimeout x nd).upds := by
  unfold onSuspTimeout
  simp only []
  split
  · show NAl (nd.upds ++ _)
    refine h.append ?_
    intro u hu
    simp only [List.mem_singleton] at hu
    rw [hu]; simp
  · exact h

/-! ### `Keep` for the handlers other than the probe tick -/

theorem keep_onPing (c : Cfg) (a now : Nat) (m : Msg) (nd : Node D) (hm : NAl m.upds) :
    Keep nd (onPing c a now m nd).1 := by
  unfold onPing
  simp only []
  have h1 := keep_applyUpdates c.n a nd m.upds hm
  have h2 : Keep nd (if isMember c.n a m.src then heard (applyUpdates c.n a nd m.upds) m.src now
      else applyUpdates c.n a nd m.upds) := by
    split
    · exact h1.trans (keep_heard _ _ _)
    · exact h1
  exact h2.trans (Keep.of_eq rfl rfl rfl rfl)

theorem keep_onAck (c : Cfg) (a now : Nat) (m : Msg) (nd : Node D) (hm : NAl m.upds) :
    Keep nd (onAck c a now m nd).1 := by
  unfold onAck
  simp only []
  have h1 := keep_applyUpdates c.n a nd m.upds hm
  split
  · exact (h1.trans (keep_heard _ _ _)).trans (Keep.of_eq rfl rfl rfl rfl)
  · exact h1

theorem keep_onIndTimeout (c : Cfg) (a now x : Nat) (shuf : List Nat) (nd : Node D) :
    Keep nd (onIndTimeout c a now x shuf nd).1 := by
  unfold onIndTimeout
  simp only []
  have h0 : Keep nd (if c.fix then suspect nd x else nd) := by
    split
    · exact keep_suspect _ _
    · exact Keep.refl _
  revert h0
  generalize (if c.fix = true then suspect nd x else nd) = nd0
  intro h0
  refine h0.trans (Keep.of_eq ?_ ?_ ?_ ?_) <;> (split <;> rfl)

theorem keep_onSuspTimeout (x : Nat) (nd : Node D) : Keep nd (onSuspTimeout x nd) := by
  unfold onSuspTimeout
  simp only []
  split
  · refine ((Keep.setMember nd x _ (fun _ => rfl)).trans
      (Keep.of_eq (nd' := { nd.setMember x _ with upds := _ }) rfl rfl rfl rfl)).trans
      (Keep.of_eq rfl rfl rfl rfl)
  · exact Keep.of_eq rfl rfl rfl rfl

theorem keep_handleMsg (c : Cfg) (a now : Nat) (m : Msg) (nd : Node D) (hm : NAl m.upds) :
    Keep nd (handleMsg c a now m nd).1 := by
  unfold handleMsg
  cases m.kind
  · exact keep_onPing c a now m nd hm
  · exact keep_onAck c a now m nd hm

theorem nal_handleMsg (c : Cfg) (a now : Nat) (m : Msg) (nd : Node D) (h : NAl nd.upds) :
    NAl (handleMsg c a now m nd).1.upds ∧ OutsNAl (handleMsg c a now m nd).2 := by
  unfold handleMsg
  cases m.kind
  · exact nal_onPing c a now m nd h
  · exact nal_onAck c a now m nd h

/-! ### system level: nobody ever says "alive" -/

structure SNoAlive (s : Sys D) : Prop where
  nodes : ∀ a, NAl (s.node a).upds
  soup : ∀ m ∈ s.soup, NAl m.upds

theorem snoalive_commit (s : Sys D) (b now : Nat) (r : Node D × List Out) (soup : List Msg)
    (I : SNoAlive s) (hsoup : ∀ w ∈ soup, w ∈ s.soup) (hr : NAl r.1.upds ∧ OutsNAl r.2) :
    SNoAlive (s.commit b now r soup) := by
  refine ⟨fun a => ?_, fun m hm => ?_⟩
  · by_cases hab : a = b
    · subst hab; rw [node_commit_same]; exact hr.1
    · rw [node_commit_other _ _ _ _ _ _ hab]; exact I.nodes a
  · have hm' : m ∈ soup ++ s.routed (stamp b now s.nextId r.2) := hm
    rcases List.mem_append.mp hm' with h | h
    · exact I.soup m (hsoup m h)
    · obtain ⟨_, _, o, ho, _, _, hu⟩ := mem_stamp _ _ _ _ _ (mem_routed s _ m h).1
      rw [hu]; exact hr.2 o ho

theorem snoalive_step (c : Cfg) (s s' : Sys D) (now : Nat) (h : Step c s now s') (I : SNoAlive s) :
    SNoAlive s' := by
  cases h with
  | idle => exact ⟨I.nodes, I.soup⟩
  | crash y => exact ⟨I.nodes, I.soup⟩
  | net cuts => exact ⟨I.nodes, I.soup⟩
  | drop m hm hc => exact ⟨I.nodes, fun w hw => I.soup w (List.mem_of_mem_erase hw)⟩
  | tick b shuf hb _ =>
    exact snoalive_commit s b now _ _ I (fun _ h => h) (nal_onTick c b now shuf _ (I.nodes b))
  | msg m hm hc =>
    exact snoalive_commit s _ now _ _ I (fun _ h => List.mem_of_mem_erase h)
      (nal_handleMsg c _ now m _ (I.nodes _))
  | ind b y shuf t hb hp hk hf =>
    exact snoalive_commit s b now _ _ I (fun _ h => h) (nal_onIndTimeout c b now y shuf _ (I.nodes b))
  | susp b y t hb hp hk hf =>
    exact snoalive_commit s b now _ _ I (fun _ h => h)
      ⟨nal_onSuspTimeout y _ (I.nodes b), fun _ ho => by cases ho⟩

end HappyModel.C13
