import HappyProofs.C13.Basic
import HappyModel.C13.Spec
/-! DEAD is left only with a strictly higher incarnation (every handler, every action). -/
set_option linter.unusedSectionVars false
namespace HappyModel.C13
variable {D : Type} [Inhabited D] [Detector D]

/-- incarnations never decrease, and a DEAD member that is no longer DEAD has a strictly higher one -/
def Rev (m m' : Member D) : Prop :=
  m.inc ≤ m'.inc ∧ (m.st = .dead → m'.st ≠ .dead → m.inc < m'.inc)

theorem Rev.refl (m : Member D) : Rev m m := ⟨Nat.le_refl _, fun h h' => absurd h h'⟩

theorem Rev.trans {a b c : Member D} (h1 : Rev a b) (h2 : Rev b c) : Rev a c := by
  refine ⟨Nat.le_trans h1.1 h2.1, fun ha hc => ?_⟩
  by_cases hb : b.st = .dead
  · exact Nat.lt_of_le_of_lt h1.1 (h2.2 hb hc)
  · exact Nat.lt_of_lt_of_le (h1.2 ha hb) h2.1

def NRev (nd nd' : Node D) : Prop := ∀ x, Rev (nd.member x) (nd'.member x)

theorem NRev.refl (nd : Node D) : NRev nd nd := fun _ => Rev.refl _
theorem NRev.trans {a b c : Node D} (h1 : NRev a b) (h2 : NRev b c) : NRev a c :=
  fun x => (h1 x).trans (h2 x)

theorem NRev.of_mem_eq {nd nd' : Node D} (h : nd'.mem = nd.mem) : NRev nd nd' := by
  intro x; simp [Node.member, h]; exact Rev.refl _

theorem NRev.setMember (nd : Node D) (x : Nat) (m : Member D) (h : Rev (nd.member x) m) :
    NRev nd (nd.setMember x m) := by
  intro y
  by_cases hy : y = x
  · subst hy; simpa using h
  · rw [member_setMember_other _ _ _ _ hy]; exact Rev.refl _

theorem rev_applyToMember (m : Member D) (u : Update) : Rev m (applyToMember m u) := by
  unfold applyToMember
  split
  · exact Rev.refl _
  · rename_i hlt
    cases hk : u.kind <;> simp only []
    · split
      · rename_i h; exact ⟨Nat.le_max_left _ _, fun hd => by simp [h] at hd⟩
      · exact Rev.refl _
    · split
      · exact ⟨Nat.le_max_left _ _, fun _ hd => absurd rfl hd⟩
      · exact Rev.refl _
    · split
      · rename_i h; exact ⟨Nat.le_of_lt h, fun _ _ => h⟩
      · exact Rev.refl _

theorem nrev_applyOne (n a : Nat) (nd : Node D) (u : Update) : NRev nd (applyOne n a nd u) := by
  unfold applyOne
  split
  · exact NRev.setMember _ _ _ (rev_applyToMember _ _)
  · exact NRev.refl _

theorem nrev_applyUpdates (n a : Nat) (nd : Node D) (us : List Update) :
    NRev nd (applyUpdates n a nd us) :=
  foldl_rel NRev NRev.refl (fun _ _ _ => NRev.trans) _ (nrev_applyOne n a) us nd

theorem nrev_heard (nd : Node D) (x now : Nat) : NRev nd (heard nd x now) := by
  unfold heard
  apply NRev.setMember
  refine ⟨Nat.le_refl _, fun hd hn => ?_⟩
  simp [hd] at hn

theorem nrev_suspect (nd : Node D) (x : Nat) : NRev nd (suspect nd x) := by
  unfold suspect
  simp only []
  split
  · rename_i h
    refine NRev.trans (NRev.setMember nd x _ ?_) (NRev.of_mem_eq rfl)
    exact ⟨Nat.le_refl _, fun hd => by simp [h] at hd⟩
  · exact NRev.refl _

theorem nrev_phiStep (a now : Nat) (nd : Node D) (x : Nat) : NRev nd (phiStep a now nd x) := by
  unfold phiStep
  split
  · exact NRev.refl _
  · simp only []
    split
    · exact nrev_suspect _ _
    · exact NRev.refl _

theorem nrev_phiCheck (n a now : Nat) (nd : Node D) : NRev nd (phiCheck n a now nd) :=
  foldl_rel NRev NRev.refl (fun _ _ _ => NRev.trans) _ (nrev_phiStep a now) _ nd

theorem nrev_nextTarget (n a : Nat) (nd : Node D) (shuf : List Nat) :
    NRev nd (nextTarget n a nd shuf).1 := by
  unfold nextTarget
  simp only []
  split
  · exact NRev.refl _
  · split <;> exact NRev.of_mem_eq rfl

theorem nrev_onTick (c : Cfg) (a now : Nat) (shuf : List Nat) (nd : Node D) :
    NRev nd (onTick c a now shuf nd).1 := by
  unfold onTick
  simp only []
  have h := NRev.trans (nrev_phiCheck c.n a now nd) (nrev_nextTarget c.n a _ shuf)
  split
  · exact NRev.trans h (NRev.of_mem_eq rfl)
  · split
    · exact NRev.trans h (NRev.of_mem_eq rfl)
    · exact NRev.trans h (NRev.of_mem_eq rfl)

theorem nrev_onPing (c : Cfg) (a now : Nat) (m : Msg) (nd : Node D) :
    NRev nd (onPing c a now m nd).1 := by
  unfold onPing
  simp only []
  refine NRev.trans (nrev_applyUpdates c.n a nd m.upds) ?_
  split
  · exact NRev.trans (nrev_heard _ _ _) (NRev.of_mem_eq rfl)
  · exact NRev.of_mem_eq rfl

theorem nrev_onAck (c : Cfg) (a now : Nat) (m : Msg) (nd : Node D) :
    NRev nd (onAck c a now m nd).1 := by
  unfold onAck
  simp only []
  split
  · exact NRev.trans (nrev_applyUpdates c.n a nd m.upds)
      (NRev.trans (nrev_heard _ _ _) (NRev.of_mem_eq rfl))
  · exact nrev_applyUpdates c.n a nd m.upds

theorem nrev_onIndTimeout (c : Cfg) (a now x : Nat) (shuf : List Nat) (nd : Node D) :
    NRev nd (onIndTimeout c a now x shuf nd).1 := by
  unfold onIndTimeout
  simp only []
  have h0 : NRev nd (if c.fix then suspect nd x else nd) := by
    split
    · exact nrev_suspect _ _
    · exact NRev.refl _
  revert h0
  generalize (if c.fix = true then suspect nd x else nd) = nd0
  intro h0
  refine NRev.trans h0 (NRev.of_mem_eq ?_)
  split <;> rfl

theorem nrev_onSuspTimeout (x : Nat) (nd : Node D) : NRev nd (onSuspTimeout x nd) := by
  unfold onSuspTimeout
  simp only []
  refine NRev.trans ?_ (NRev.of_mem_eq rfl)
  split
  · rename_i h
    refine NRev.trans (NRev.setMember nd x _ ?_) (NRev.of_mem_eq rfl)
    exact ⟨Nat.le_refl _, fun hd => by simp [h] at hd⟩
  · exact NRev.refl _

theorem nrev_handleMsg (c : Cfg) (a now : Nat) (m : Msg) (nd : Node D) :
    NRev nd (handleMsg c a now m nd).1 := by
  unfold handleMsg
  cases m.kind
  · exact nrev_onPing c a now m nd
  · exact nrev_onAck c a now m nd

/-- system level: every node's members evolve by `Rev` in one action -/
def SRev (s s' : Sys D) : Prop := ∀ a, NRev (s.node a) (s'.node a)

theorem SRev.refl (s : Sys D) : SRev s s := fun _ => NRev.refl _
theorem SRev.trans {a b c : Sys D} (h1 : SRev a b) (h2 : SRev b c) : SRev a c :=
  fun x => (h1 x).trans (h2 x)

theorem SRev.of_nodes_eq {s s' : Sys D} (h : s'.nodes = s.nodes) : SRev s s' := by
  intro a; simp [Sys.node, h]; exact NRev.refl _

theorem SRev.commit (s : Sys D) (a now : Nat) (r : Node D × List Out) (soup : List Msg)
    (h : NRev (s.node a) r.1) : SRev s (s.commit a now r soup) := by
  intro b
  by_cases hb : b = a
  · subst hb; rw [node_commit_same]; exact h
  · rw [node_commit_other _ _ _ _ _ _ hb]; exact NRev.refl _

theorem srev_step (c : Cfg) (s : Sys D) (act : Act) : SRev s (step c s act) := by
  cases act with
  | tick a now shuf =>
    simp only [step]
    split
    · exact SRev.of_nodes_eq rfl
    · exact SRev.commit _ _ _ _ _ (nrev_onTick c a now shuf _)
  | deliver id now =>
    simp only [step]
    split
    · exact SRev.of_nodes_eq rfl
    · split
      · exact SRev.of_nodes_eq rfl
      · exact SRev.commit _ _ _ _ _ (nrev_handleMsg c _ now _ _)
  | timeout a x now shuf =>
    simp only [step]
    split
    · exact SRev.of_nodes_eq rfl
    · split
      · exact SRev.of_nodes_eq rfl
      · split
        · exact SRev.of_nodes_eq rfl
        · split
          · exact SRev.commit _ _ _ _ _ (nrev_onIndTimeout c a now x shuf _)
          · exact SRev.commit _ _ _ _ _ (nrev_onSuspTimeout x _)
  | crash x now => exact SRev.of_nodes_eq rfl
  | cut h ga gb now => exact SRev.of_nodes_eq rfl
  | heal h now => exact SRev.of_nodes_eq rfl

theorem srev_run (c : Cfg) (s : Sys D) (acts : List Act) : SRev s (run c s acts) := by
  induction acts generalizing s with
  | nil => exact SRev.refl s
  | cons a as ih => exact SRev.trans (srev_step c s a) (ih _)

end HappyModel.C13
