import HappyProofs.C13.SafetySys
/-! Preservation of `Inv` by every action of a timely schedule. -/
set_option linter.unusedSectionVars false
set_option linter.unusedSimpArgs false
namespace HappyModel.C13
variable {D : Type} [Inhabited D] [Detector D]

theorem mem_erase_of_ne' {m w : Msg} {l : List Msg} (hw : w ∈ l) (hne : w ≠ m) : w ∈ l.erase m :=
  (List.mem_erase_of_ne hne).mpr hw

theorem mem_of_mem_erase' {m w : Msg} {l : List Msg} (hw : w ∈ l.erase m) : w ∈ l :=
  List.mem_of_mem_erase hw

theorem inv_idle (c : Cfg) (δ : Nat) (s : Sys D) (now : Nat) (I : Inv c δ s) :
    Inv c δ ({ s with now := now } : Sys D) := ⟨I.whole, I.pendMem, I.clean, I.soupClean, I.evid⟩

theorem inv_net (c : Cfg) (δ : Nat) (s : Sys D) (now : Nat) (cuts : List (List (Nat × Nat)))
    (I : Inv c δ s) (h : ({ s with now := now, cuts := cuts } : Sys D).whole = true) :
    Inv c δ ({ s with now := now, cuts := cuts } : Sys D) := ⟨h, I.pendMem, I.clean, I.soupClean, I.evid⟩

theorem inv_crash (c : Cfg) (δ : Nat) (s : Sys D) (now x : Nat) (I : Inv c δ s) :
    Inv c δ ({ s with now := now, crashed := lset false s.crashed x true } : Sys D) :=
  ⟨I.whole, I.pendMem, fun a y hy => I.clean a y (live_crash hy),
   fun m hm y hy => I.soupClean m hm y (live_crash hy),
   fun a y t ha hy hp => I.evid a y t (live_crash ha) (live_crash hy) hp⟩

theorem inv_drop (c : Cfg) (δ : Nat) (s : Sys D) (now : Nat) (m : Msg) (I : Inv c δ s)
    (hc : s.isCrashed m.dst = true) :
    Inv c δ ({ s with now := now, soup := s.soup.erase m } : Sys D) := by
  refine ⟨I.whole, I.pendMem, I.clean, fun w hw => I.soupClean w (mem_of_mem_erase' hw), ?_⟩
  intro a x t ha hx hp
  obtain ⟨w, hw, hcase⟩ := I.evid a x t ha hx hp
  by_cases hwm : w = m
  · subst hwm
    rcases hcase with ⟨_, _, hd, _⟩ | ⟨_, _, hd, _⟩
    · have hx' : s.isCrashed x = false := hx
      rw [hd, hx'] at hc; cases hc
    · have ha' : s.isCrashed a = false := ha
      rw [hd, ha'] at hc; cases hc
  · exact ⟨w, mem_erase_of_ne' hw hwm, hcase⟩

/-- generic part of a commit: views/updates of the acting node and the new messages are clean -/
theorem inv_commit_clean (c : Cfg) (δ : Nat) (s : Sys D) (b now : Nat) (r : Node D × List Out)
    (soup : List Msg) (I : Inv c δ s) (hsoup : ∀ w ∈ soup, w ∈ s.soup)
    (hclean : ∀ x, s.live x → Clean x r.1 ∧ OutsClean x r.2) :
    (∀ a x, (s.commit b now r soup).live x → Clean x ((s.commit b now r soup).node a)) ∧
    (∀ m ∈ (s.commit b now r soup).soup, ∀ x, (s.commit b now r soup).live x → ¬ hasDead x m.upds) := by
  refine ⟨?_, ?_⟩
  · intro a x hx
    by_cases hab : a = b
    · subst hab; rw [node_commit_same]; exact (hclean x hx).1
    · rw [node_commit_other _ _ _ _ _ _ hab]; exact I.clean a x hx
  · intro m hm x hx
    rw [soup_commit _ _ _ _ _ I.whole, List.mem_append] at hm
    rcases hm with hm | hm
    · exact I.soupClean m (hsoup m hm) x hx
    · obtain ⟨_, _, o, ho, _, _, hu⟩ := mem_stamp _ _ _ _ _ hm
      rw [hu]; exact (hclean x hx).2 o ho

theorem inv_tick (c : Cfg) (δ : Nat) (hδ : 2 * δ < c.half + c.susp) (s : Sys D) (now a : Nat)
    (shuf : List Nat) (I : Inv c δ s) :
    Inv c δ (s.commit a now (onTick c a now shuf (s.node a)) s.soup) := by
  have hcl := inv_commit_clean c δ s a now (onTick c a now shuf (s.node a)) s.soup I
    (fun _ h => h) (fun x hx => clean_onTick c a now x shuf _ (I.clean a x hx))
  refine ⟨I.whole, ?_, hcl.1, hcl.2, ?_⟩
  · intro a' x t hp
    by_cases hab : a' = a
    · subst hab
      rw [node_commit_same] at hp
      rcases onTick_pend c a' now shuf (s.node a') x with h | ⟨_, hm, _⟩
      · rw [h] at hp; exact I.pendMem a' x t hp
      · exact hm
    · rw [node_commit_other _ _ _ _ _ _ hab] at hp; exact I.pendMem a' x t hp
  · intro a' x t ha hx hp
    rw [soup_commit _ _ _ _ _ I.whole]
    by_cases hab : a' = a
    · subst hab
      rw [node_commit_same] at hp
      rcases onTick_pend c a' now shuf (s.node a') x with h | ⟨h, _, us, hout⟩
      · rw [h] at hp
        exact (I.evid a' x t ha hx hp).mono (fun m hm => List.mem_append_left _ hm)
      · rw [h] at hp
        have ht : t = ⟨.ind, now + c.half⟩ := (Option.some.inj hp).symm
        subst ht
        refine ⟨⟨s.nextId, .ping, a', x, now, none, us⟩, ?_, Or.inl ⟨rfl, rfl, rfl, ?_⟩⟩
        · rw [hout]; simp [stamp]
        · simp only [deadlineOf]; omega
    · rw [node_commit_other _ _ _ _ _ _ hab] at hp
      exact (I.evid a' x t ha hx hp).mono (fun m hm => List.mem_append_left _ hm)

theorem inv_ping (c : Cfg) (δ : Nat) (s : Sys D) (now : Nat) (m : Msg) (I : Inv c δ s)
    (hm : m ∈ s.soup) (hk : m.kind = .ping) (ht : TimelyAt δ s now) :
    Inv c δ (s.commit m.dst now (onPing c m.dst now m (s.node m.dst)) (s.soup.erase m)) := by
  have hcl := inv_commit_clean c δ s m.dst now (onPing c m.dst now m (s.node m.dst)) (s.soup.erase m) I
    (fun _ h => mem_of_mem_erase' h)
    (fun x hx => clean_onPing c m.dst now x m _ (I.clean m.dst x hx) (I.soupClean m hm x hx))
  have hpend : ∀ a x, ((s.commit m.dst now (onPing c m.dst now m (s.node m.dst)) (s.soup.erase m)).node a).pendOf x
      = (s.node a).pendOf x := by
    intro a x
    by_cases hab : a = m.dst
    · subst hab; rw [node_commit_same, pendOf_onPing]
    · rw [node_commit_other _ _ _ _ _ _ hab]
  refine ⟨I.whole, ?_, hcl.1, hcl.2, ?_⟩
  · intro a x t hp; rw [hpend] at hp; exact I.pendMem a x t hp
  · intro a x t ha hx hp
    rw [hpend] at hp
    obtain ⟨w, hw, hcase⟩ := I.evid a x t ha hx hp
    rw [soup_commit _ _ _ _ _ I.whole]
    by_cases hwm : w = m
    · subst hwm
      rcases hcase with ⟨_, hs, hd, hlt⟩ | ⟨hk', _⟩
      · -- the ping is consumed: the ack it produces is the new evidence
        have hnow := ht w hw
        obtain ⟨us, hus⟩ : ∃ us, (onPing c w.dst now w (s.node w.dst)).2 = [⟨.ack, w.src, none, us⟩] :=
          ⟨_, rfl⟩
        refine ⟨⟨s.nextId, .ack, w.dst, w.src, now, none, us⟩, ?_, Or.inr ⟨rfl, hd, hs, ?_⟩⟩
        · apply List.mem_append_right
          rw [hus]; simp [stamp]
        · show now + δ < _
          omega
      · rw [hk] at hk'; cases hk'
    · exact ⟨w, List.mem_append_left _ (mem_erase_of_ne' hw hwm), hcase⟩

theorem inv_ack (c : Cfg) (δ : Nat) (s : Sys D) (now : Nat) (m : Msg) (I : Inv c δ s)
    (hm : m ∈ s.soup) (hk : m.kind = .ack) :
    Inv c δ (s.commit m.dst now (onAck c m.dst now m (s.node m.dst)) (s.soup.erase m)) := by
  have hcl := inv_commit_clean c δ s m.dst now (onAck c m.dst now m (s.node m.dst)) (s.soup.erase m) I
    (fun _ h => mem_of_mem_erase' h)
    (fun x hx => clean_onAck c m.dst now x m _ (I.clean m.dst x hx) (I.soupClean m hm x hx))
  have hout : (onAck c m.dst now m (s.node m.dst)).2 = [] := by
    unfold onAck; simp only []; split <;> rfl
  refine ⟨I.whole, ?_, hcl.1, hcl.2, ?_⟩
  · intro a x t hp
    by_cases hab : a = m.dst
    · subst hab
      rw [node_commit_same, onAck_pend] at hp
      split at hp
      · cases hp
      · exact I.pendMem _ x t hp
    · rw [node_commit_other _ _ _ _ _ _ hab] at hp; exact I.pendMem a x t hp
  · intro a x t ha hx hp
    rw [soup_commit _ _ _ _ _ I.whole, hout]
    simp only [stamp, List.append_nil]
    by_cases hab : a = m.dst
    · subst hab
      rw [node_commit_same, onAck_pend] at hp
      split at hp
      · cases hp
      · rename_i hcond
        obtain ⟨w, hw, hcase⟩ := I.evid _ x t ha hx hp
        by_cases hwm : w = m
        · subst hwm
          rcases hcase with ⟨hk', _⟩ | ⟨_, hs, _, _⟩
          · rw [hk] at hk'; cases hk'
          · exact absurd ⟨by rw [hs]; exact I.pendMem _ x t hp, hs.symm⟩ hcond
        · exact ⟨w, mem_erase_of_ne' hw hwm, hcase⟩
    · rw [node_commit_other _ _ _ _ _ _ hab] at hp
      obtain ⟨w, hw, hcase⟩ := I.evid a x t ha hx hp
      by_cases hwm : w = m
      · subst hwm
        rcases hcase with ⟨hk', _⟩ | ⟨_, _, hd, _⟩
        · rw [hk] at hk'; cases hk'
        · exact absurd hd.symm hab
      · exact ⟨w, mem_erase_of_ne' hw hwm, hcase⟩

theorem inv_ind (c : Cfg) (δ : Nat) (s : Sys D) (now a x0 : Nat) (shuf : List Nat) (t0 : Timer)
    (I : Inv c δ s) (hp0 : (s.node a).pendOf x0 = some t0) (hk : t0.kind = .ind)
    (hf : t0.fire = now) :
    Inv c δ (s.commit a now (onIndTimeout c a now x0 shuf (s.node a)) s.soup) := by
  have hcl := inv_commit_clean c δ s a now (onIndTimeout c a now x0 shuf (s.node a)) s.soup I
    (fun _ h => h) (fun x hx => clean_onIndTimeout c a now x x0 shuf _ (I.clean a x hx))
  refine ⟨I.whole, ?_, hcl.1, hcl.2, ?_⟩
  · intro a' x t hp
    by_cases hab : a' = a
    · subst hab
      rw [node_commit_same, onIndTimeout_pend] at hp
      split at hp
      · rename_i hx; subst hx; exact I.pendMem a' x t0 hp0
      · exact I.pendMem a' x t hp
    · rw [node_commit_other _ _ _ _ _ _ hab] at hp; exact I.pendMem a' x t hp
  · intro a' x t ha hx hp
    rw [soup_commit _ _ _ _ _ I.whole]
    by_cases hab : a' = a
    · subst hab
      rw [node_commit_same, onIndTimeout_pend] at hp
      split at hp
      · rename_i hxx; subst hxx
        have ht : t = ⟨.susp, now + c.susp⟩ := (Option.some.inj hp).symm
        subst ht
        have h := I.evid a' x t0 ha hx hp0
        have hd : deadlineOf c.susp t0 = deadlineOf c.susp ⟨.susp, now + c.susp⟩ := by
          simp only [deadlineOf, hk, hf]
        rw [hd] at h
        exact h.mono (fun m hm => List.mem_append_left _ hm)
      · exact (I.evid a' x t ha hx hp).mono (fun m hm => List.mem_append_left _ hm)
    · rw [node_commit_other _ _ _ _ _ _ hab] at hp
      exact (I.evid a' x t ha hx hp).mono (fun m hm => List.mem_append_left _ hm)

theorem inv_susp (c : Cfg) (δ : Nat) (s : Sys D) (now a x0 : Nat) (t0 : Timer)
    (I : Inv c δ s) (ha0 : s.isCrashed a = false) (hp0 : (s.node a).pendOf x0 = some t0)
    (hk : t0.kind = .susp) (hf : t0.fire = now) (ht : TimelyAt δ s now) :
    Inv c δ (s.commit a now (onSuspTimeout x0 (s.node a), []) s.soup) := by
  -- the timer of a live member never fires: its evidence would be overdue
  have hdead : ¬ s.live x0 := by
    intro hx0
    obtain ⟨w, hw, hcase⟩ := I.evid a x0 t0 ha0 hx0 hp0
    have hnow := ht w hw
    have hd : deadlineOf c.susp t0 = now := by simp only [deadlineOf, hk, hf]
    rw [hd] at hcase
    rcases hcase with ⟨_, _, _, h⟩ | ⟨_, _, _, h⟩ <;> omega
  have hcl := inv_commit_clean c δ s a now (onSuspTimeout x0 (s.node a), []) s.soup I
    (fun _ h => h)
    (fun x hx => ⟨clean_onSuspTimeout x x0 _ (I.clean a x hx) (fun h => hdead (h ▸ hx)),
                  by simp [OutsClean]⟩)
  refine ⟨I.whole, ?_, hcl.1, hcl.2, ?_⟩
  · intro a' x t hp
    by_cases hab : a' = a
    · subst hab
      rw [node_commit_same] at hp
      simp only [onSuspTimeout_pend] at hp
      split at hp
      · cases hp
      · exact I.pendMem a' x t hp
    · rw [node_commit_other _ _ _ _ _ _ hab] at hp; exact I.pendMem a' x t hp
  · intro a' x t ha hx hp
    rw [soup_commit _ _ _ _ _ I.whole]
    simp only [stamp, List.append_nil]
    by_cases hab : a' = a
    · subst hab
      rw [node_commit_same] at hp
      simp only [onSuspTimeout_pend] at hp
      split at hp
      · cases hp
      · exact I.evid a' x t ha hx hp
    · rw [node_commit_other _ _ _ _ _ _ hab] at hp
      exact I.evid a' x t ha hx hp

theorem inv_step (c : Cfg) (δ : Nat) (hδ : 2 * δ < c.half + c.susp) (s s' : Sys D) (now : Nat)
    (I : Inv c δ s) (ht : TimelyAt δ s now) (h : Step c s now s') (hw : s'.whole = true) :
    Inv c δ s' := by
  cases h with
  | idle => exact inv_idle c δ s now I
  | crash x => exact inv_crash c δ s now x I
  | net cuts => exact inv_net c δ s now cuts I hw
  | drop m hm hc => exact inv_drop c δ s now m I hc
  | tick a shuf ha _ => exact inv_tick c δ hδ s now a shuf I
  | msg m hm hc =>
    unfold handleMsg
    cases hk : m.kind
    · exact inv_ping c δ s now m I hm hk ht
    · exact inv_ack c δ s now m I hm hk
  | ind a x shuf t ha hp hk hf => exact inv_ind c δ s now a x shuf t I hp hk hf
  | susp a x t ha hp hk hf => exact inv_susp c δ s now a x t I ha hp hk hf ht

end HappyModel.C13
