import HappyProofs.C13.PhiMono
/-!
Clause 5, detector level: a recorded heartbeat — at whatever time, the epoch `0` included — followed
by a long silence drives `phi` up to the level of the standardised distance `Y` (exact model, `tail`
and `nlog` as parameters): `phi` is not stuck at its "no data" value.
-/
namespace HappyModel.C13

/-- the suspicion level at standardised distance `Y` -/
def levelAt (F : PhiFns) (Y : Nat) : PV :=
  if F.tail ((Y : Int) * (F.scale : Int)) ≤ 0 then .inf
  else .fin (F.nlog (F.tail ((Y : Int) * (F.scale : Int))))

theorem PV.le_trans {a b c : PV} (h1 : PV.le a b) (h2 : PV.le b c) : PV.le a c := by
  cases a <;> cases b <;> cases c <;> simp_all [PV.le]
  omega

/-- with a recorded heartbeat at `l` and a non-empty window whose mean is at most `M` and whose
    (positive) deviation is at most `S`: after a silence of `M + Y·S` phi is at least the level of
    distance `Y` -/
theorem phi_reaches_level (F : PhiFns) (d : QDet) (H : PhiHyp F d.ivs) (l M S Y now : Nat)
    (hl : d.last = some l) (hiv : 1 ≤ d.ivs.length)
    (hmean : F.mean d.ivs ≤ (M : Int)) (hsd : F.sd d.ivs ≤ (S : Int))
    (hnow : l + M + Y * S ≤ now) : PV.le (levelAt F Y) (d.phi F now) := by
  have hsd0 := H.sd_pos
  have hy : (Y : Int) * (F.scale : Int) ≤
      (((now - l : Nat) : Int) - F.mean d.ivs) * (F.scale : Int) / F.sd d.ivs := by
    apply Int.le_ediv_of_mul_le hsd0
    have h1 : (Y : Int) * (S : Int) ≤ ((now - l : Nat) : Int) - F.mean d.ivs := by
      have : ((Y * S : Nat) : Int) = (Y : Int) * (S : Int) := by simp
      omega
    have h2 : (Y : Int) * (F.scale : Int) * F.sd d.ivs ≤ (Y : Int) * (F.scale : Int) * (S : Int) :=
      Int.mul_le_mul_of_nonneg_left hsd (Int.mul_nonneg (Int.natCast_nonneg _) (Int.natCast_nonneg _))
    have h3 : (Y : Int) * (F.scale : Int) * (S : Int) = (Y : Int) * (S : Int) * (F.scale : Int) := by
      rw [Int.mul_assoc, Int.mul_comm (F.scale : Int), ← Int.mul_assoc]
    have h4 : (Y : Int) * (S : Int) * (F.scale : Int) ≤
        (((now - l : Nat) : Int) - F.mean d.ivs) * (F.scale : Int) :=
      Int.mul_le_mul_of_nonneg_right h1 (Int.natCast_nonneg _)
    omega
  have hp := H.tail_antitone _ _ hy
  unfold QDet.phi levelAt
  rw [hl]
  simp only []
  have hn : ¬ d.ivs.length < 1 := by omega
  have hnl : ¬ now < l := by omega
  simp only [hn, hnl, if_false]
  by_cases h0 : F.tail ((Y : Int) * (F.scale : Int)) ≤ 0
  · have : F.tail ((((now - l : Nat) : Int) - F.mean d.ivs) * (F.scale : Int) / F.sd d.ivs) ≤ 0 :=
      Int.le_trans hp h0
    simp [h0, this, PV.le]
  · simp only [h0, if_false]
    split
    · simp [PV.le]
    · rename_i hp2
      simp only [PV.le]
      exact H.nlog_antitone _ _ (by omega) hp

/-- the Spec clause holds of the model: with every recorded interval bounded by `m` (so mean ≤ m and
    0 < sd ≤ max(m, min_std)) and a threshold not above the level at distance 39, every sample taken
    `silenceBound` after the last heartbeat has reached the threshold -/
theorem phi_silence_detected (F : PhiFns) (d : QDet) (H : PhiHyp F d.ivs) (l m minStd now : Nat)
    (thr : PV) (hl : d.last = some l) (hmean : F.mean d.ivs ≤ (m : Int))
    (hsd : F.sd d.ivs ≤ ((max m minStd : Nat) : Int)) (hthr : PV.le thr (levelAt F 39)) :
    Spec.detectedSample (decide (1 ≤ d.ivs.length)) m minStd l now thr (d.phi F now) = true := by
  unfold Spec.detectedSample
  by_cases hc : (decide (1 ≤ d.ivs.length) && Spec.pvLe thr Spec.phiCeil &&
      decide (l + Spec.silenceBound m minStd ≤ now)) = true
  · simp only [Bool.and_eq_true, decide_eq_true_eq] at hc
    have hnow : l + m + 39 * max m minStd ≤ now := by
      have := hc.2; unfold Spec.silenceBound at this; omega
    have := PV.le_trans hthr (phi_reaches_level F d H l m (max m minStd) 39 now hl hc.1.1 hmean hsd hnow)
    simp [Spec.pvLe, this]
  · simp only [Bool.not_eq_true] at hc
    simp [hc]

end HappyModel.C13
