import HappyProofs.C13.PhiPath
/-!
C13 clause 2 through the phi path, run level, for the concrete phi-accrual model.

* `failure_detected_by_phi` — every cluster size, probe order, shuffle, delegate choice, both code
  variants (`c.fix` is not used): the run is `pre ++ crash x cx :: post`, time-monotone, timely (`δ`),
  and no probe tick of the live observer `a` is skipped (`tickDueRun`, implied by `punctualRun`).  If
  at the crash `a`'s detector for `x` has recorded a heartbeat (`last = some l0`) and every interval in
  its (non-empty) window, as well as `cx + δ - l0`, is at most `m`, then once an action later than
  `cx + δ + m + Y·max(m, min_std) + interval` has happened `a` does not report `x` ALIVE.  The
  detector is the model `QDet` with parameters `F`: no hypothesis "the detector is not available" —
  that is derived (`phi_reaches_level`) from `PhiHyp` (tail antitone, …), `MeanSdBound` (mean ≤ max,
  clamped deviation ≤ max(max, min_std)) and `threshold ≤ level at distance Y`.
-/
set_option linter.unusedSectionVars false
set_option linter.unusedSimpArgs false
namespace HappyModel.C13

theorem lget_replicate {α} (d v : α) (n x : Nat) (h : x < n) : lget d (List.replicate n v) x = v := by
  induction n generalizing x with
  | zero => omega
  | succ n ih =>
    cases x with
    | zero => rfl
    | succ x => simpa [List.replicate, lget] using ih x (by omega)

theorem init_detOf (c : Cfg) (det : PhiDet) (orders : List (List Nat)) (offs : List Nat) (a x : Nat)
    (ha : a < c.n) (hx : x < c.n) : detOf ((Sys.init c det orders offs).node a) x = det := by
  rw [init_node_eq c det orders offs a ha]
  unfold detOf Node.member Node.init
  simp only []
  rw [lget_replicate _ _ _ _ hx]

theorem linv_init (c : Cfg) (det : PhiDet) (orders : List (List Nat)) (offs : List Nat) (a T0 : Nat)
    (ha : a < c.n) (hoff : lget 0 offs a ≤ T0) : LInv c a T0 (Sys.init c det orders offs) := by
  refine ⟨⟨fun b => ?_, fun m hm => by simp [Sys.init] at hm⟩, fun m hm => by simp [Sys.init] at hm, ?_⟩
  · rw [(init_node c det orders offs b).2.2]; exact NAl.nil
  · rw [init_node_eq c det orders offs a ha]
    show lget 0 offs a + c.interval ≤ _
    omega

/-- **failure_detected_by_phi** -/
theorem failure_detected_by_phi (c : Cfg) (δ : Nat) (F : PhiFns) (thr : PV) (q0 : QDet)
    (orders : List (List Nat)) (offs : List Nat) (pre post : List Act) (a x cx m minStd Y l0 : Nat)
    (ha : a < c.n) (hx : x < c.n) (hxa : x ≠ a)
    (hH : ∀ ivs, PhiHyp F ivs) (hMS : MeanSdBound F m minStd) (hthr : PV.le thr (levelAt F Y))
    (hq0 : 1 ≤ q0.maxN) (hoff : lget 0 offs a ≤ phiBy δ cx m minStd Y)
    (hm : monoRun c (Sys.init c (⟨q0, thr, F⟩ : PhiDet) orders offs) (pre ++ .crash x cx :: post) = true)
    (ht : timelyRun c δ (Sys.init c (⟨q0, thr, F⟩ : PhiDet) orders offs) (pre ++ .crash x cx :: post) = true)
    (hd : tickDueRun c a (Sys.init c (⟨q0, thr, F⟩ : PhiDet) orders offs) (pre ++ .crash x cx :: post) = true)
    (hlast : (detOf ((run c (Sys.init c (⟨q0, thr, F⟩ : PhiDet) orders offs)
      (pre ++ [.crash x cx])).node a) x).q.last = some l0)
    (hl0 : l0 ≤ cx)
    (hne : 1 ≤ (detOf ((run c (Sys.init c (⟨q0, thr, F⟩ : PhiDet) orders offs)
      (pre ++ [.crash x cx])).node a) x).q.ivs.length)
    (hle : ∀ v ∈ (detOf ((run c (Sys.init c (⟨q0, thr, F⟩ : PhiDet) orders offs)
      (pre ++ [.crash x cx])).node a) x).q.ivs, v ≤ m)
    (hgap : cx + δ ≤ l0 + m)
    (hlive : (run c (Sys.init c (⟨q0, thr, F⟩ : PhiDet) orders offs)
      (pre ++ .crash x cx :: post)).isCrashed a = false)
    (hlate : phiBy δ cx m minStd Y + c.interval <
      (run c (Sys.init c (⟨q0, thr, F⟩ : PhiDet) orders offs) (pre ++ .crash x cx :: post)).now) :
    (run c (Sys.init c (⟨q0, thr, F⟩ : PhiDet) orders offs) (pre ++ .crash x cx :: post)).view a x
      ≠ .alive := by
  have hsplit : pre ++ .crash x cx :: post = (pre ++ [.crash x cx]) ++ post := by simp
  rw [hsplit] at hm ht hd hlive hlate ⊢
  rw [monoRun_append, Bool.and_eq_true] at hm
  rw [timelyRun_append, Bool.and_eq_true] at ht
  rw [tickDueRun_append, Bool.and_eq_true] at hd
  rw [run_append] at hlive hlate ⊢
  generalize hs2 : run c (Sys.init c (⟨q0, thr, F⟩ : PhiDet) orders offs) (pre ++ [.crash x cx]) = s2
    at hm ht hd hlive hlate hlast hne hle ⊢
  have G2 : LInv c a (phiBy δ cx m minStd Y) s2 := by
    rw [← hs2]; exact linv_run c a _ _ _ (linv_init c _ orders offs a _ ha hoff) hm.1
  have S2 : StatInv F thr (detOf (s2.node a) x) := by
    rw [← hs2]
    apply statInv_run
    rw [init_detOf c _ orders offs a x ha hx]
    exact ⟨rfl, rfl, hq0⟩
  have hnow2 : s2.now = cx := by rw [← hs2, run_append]; rfl
  have hxc2 : s2.isCrashed x = true := by rw [← hs2, run_append]; exact crash_crashes c _ x cx
  have hBy : cx + δ ≤ phiBy δ cx m minStd Y := by unfold phiBy; omega
  have P2 : PhiPost c F thr m minStd Y l0 a x δ cx s2 := by
    refine ⟨G2, hxc2, ?_, ⟨S2.1, S2.2.1, S2.2.2, ⟨l0, hlast, Nat.le_refl _, by omega, by omega⟩, hne, hle⟩, ?_, ?_⟩
    · intro w hw _
      have := G2.sentLe w hw
      omega
    · intro _
      have := G2.next
      rw [hnow2] at this
      omega
    · intro h; rw [hnow2] at h; omega
  have P3 := phiPost_run c F thr m minStd Y l0 a x δ cx hx hxa hH hMS hthr hgap s2 post P2 hm.2 ht.2 hd.2 hlive
  exact P3.late hlate

/-! ### non-vacuity -/

/-- a toy parameter set: the tail falls linearly to 0 at distance 2, the mean is the window maximum -/
def exPhiF : PhiFns :=
  { tail := fun y => if y ≤ 0 then 100 else 100 - 50 * y, nlog := fun p => 100 - p,
    mean := fun l => ((l.foldl max 0 : Nat) : Int), sd := fun _ => 1, scale := 1 }

theorem foldl_max_le (l : List Nat) (acc m : Nat) (ha : acc ≤ m) (h : ∀ v ∈ l, v ≤ m) :
    l.foldl max acc ≤ m := by
  induction l generalizing acc with
  | nil => exact ha
  | cons v vs ih =>
    simp only [List.foldl_cons]
    exact ih _ (Nat.max_le.mpr ⟨ha, h v (by simp)⟩) (fun w hw => h w (by simp [hw]))

example : (∀ ivs, PhiHyp exPhiF ivs) ∧ MeanSdBound exPhiF 10 1 ∧ PV.le (.fin 50) (levelAt exPhiF 2) := by
  refine ⟨fun ivs => ⟨by simp [exPhiF], ?_, ?_, ?_⟩, ⟨fun ivs _ h => ?_, fun ivs _ _ => by simp [exPhiF]⟩, by decide⟩
  · intro y1 y2 h; simp only [exPhiF]; split <;> split <;> omega
  · intro p1 p2 _ h; simp only [exPhiF]; omega
  · intro y; simp only [exPhiF]; split <;> omega
  · simp only [exPhiF]
    exact Int.ofNat_le.mpr (foldl_max_le ivs 0 10 (by omega) h)

def exCP : Cfg := ⟨2, 10, 5, 50, 0, false⟩
def exSP : Sys PhiDet := Sys.init exCP ⟨{ ivs := [10] }, .fin 50, exPhiF⟩ [[1], [0]] [0, 0]
/-- node 0 probes node 1 and records its ack as a heartbeat at 12; node 1 crashes at 13 -/
def exPreP : List Act := [.tick 0 10 [], .deliver 0 11, .deliver 1 12]
/-- pinned handler (`fix = false`): the un-acked probes of 20, 30, … change nothing; the probe tick at
    30 finds the detector not available -/
def exPostP : List Act :=
  [.tick 0 20 [1], .deliver 2 21, .timeout 0 1 25 [], .tick 0 30 [1], .deliver 3 31, .timeout 0 1 35 [],
   .tick 0 40 [1], .deliver 4 41, .timeout 0 1 45 [], .tick 0 50 [1], .deliver 5 51, .timeout 0 1 55 [],
   .tick 0 60 [1]]

/-- every hypothesis of `failure_detected_by_phi` about the run holds (`m = 10`, `min_std = 1`, `Y = 2`,
    `l0 = 12`, deadline `44 + 10`), the member was ALIVE up to the tick at 30 and is SUSPECT at the end -/
example :
    monoRun exCP exSP (exPreP ++ .crash 1 13 :: exPostP) = true ∧
    timelyRun exCP 1 exSP (exPreP ++ .crash 1 13 :: exPostP) = true ∧
    tickDueRun exCP 0 exSP (exPreP ++ .crash 1 13 :: exPostP) = true ∧
    (detOf ((run exCP exSP (exPreP ++ [.crash 1 13])).node 0) 1).q.last = some 12 ∧
    (detOf ((run exCP exSP (exPreP ++ [.crash 1 13])).node 0) 1).q.ivs = [10] ∧
    13 + 1 ≤ 12 + 10 ∧
    (run exCP exSP (exPreP ++ .crash 1 13 :: exPostP)).isCrashed 0 = false ∧
    phiBy 1 13 10 1 2 + exCP.interval < (run exCP exSP (exPreP ++ .crash 1 13 :: exPostP)).now ∧
    (run exCP exSP (exPreP ++ .crash 1 13 :: exPostP.take 3)).view 0 1 = .alive ∧
    (run exCP exSP (exPreP ++ .crash 1 13 :: exPostP.take 4)).view 0 1 = .suspect ∧
    (run exCP exSP (exPreP ++ .crash 1 13 :: exPostP)).view 0 1 = .suspect := by decide

end HappyModel.C13
