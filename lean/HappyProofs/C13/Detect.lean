import HappyProofs.C13.SafetySys
/-! Once a node stops reporting a member ALIVE, only a message from that member or an "alive"
update about it can bring ALIVE back; the repaired ack-timeout handler makes the probed member
not-ALIVE. -/
set_option linter.unusedSectionVars false
set_option linter.unusedSimpArgs false
namespace HappyModel.C13
variable {D : Type} [Inhabited D] [Detector D]

def hasAlive (x : Nat) (us : List Update) : Prop := ∃ u ∈ us, u.member = x ∧ u.kind = .alive

theorem hasAlive_cons (x : Nat) (u : Update) (us : List Update) :
    hasAlive x (u :: us) ↔ (u.member = x ∧ u.kind = .alive) ∨ hasAlive x us := by
  simp [hasAlive]

/-- node `nd` does not report `x` ALIVE -/
def NA (x : Nat) (nd : Node D) : Prop := nd.view x ≠ .alive

theorem NA.of_mem_eq {x : Nat} {nd nd' : Node D} (h : NA x nd) (hm : nd'.mem = nd.mem) : NA x nd' := by
  unfold NA Node.view Node.member at *
  rw [hm]; exact h

theorem applyToMember_alive (m : Member D) (u : Update) :
    (applyToMember m u).st = .alive → m.st = .alive ∨ u.kind = .alive := by
  unfold applyToMember
  split
  · exact Or.inl
  · cases hk : u.kind <;> simp only []
    · split
      · intro h; simp at h
      · exact Or.inl
    · split
      · intro h; simp at h
      · exact Or.inl
    · intro _; exact Or.inr trivial

theorem na_applyOne (n a x : Nat) (nd : Node D) (u : Update) (h : NA x nd)
    (hu : ¬ (u.member = x ∧ u.kind = .alive)) : NA x (applyOne n a nd u) := by
  unfold applyOne
  split
  · by_cases hx : x = u.member
    · subst hx
      unfold NA
      rw [view_def, member_setMember_same]
      intro hd
      rcases applyToMember_alive _ _ hd with h1 | h1
      · exact h h1
      · exact hu ⟨rfl, h1⟩
    · unfold NA
      rw [view_def, member_setMember_other _ _ _ _ hx]; exact h
  · exact h

theorem na_applyUpdates (n a x : Nat) (nd : Node D) (us : List Update) (h : NA x nd)
    (hu : ¬ hasAlive x us) : NA x (applyUpdates n a nd us) := by
  unfold applyUpdates
  induction us generalizing nd with
  | nil => exact h
  | cons u us ih =>
    rw [hasAlive_cons] at hu
    simp only [List.foldl_cons]
    exact ih _ (na_applyOne n a x nd u h (fun h' => hu (Or.inl h'))) (fun h' => hu (Or.inr h'))

theorem na_heard (x y now : Nat) (nd : Node D) (h : NA x nd) (hxy : x ≠ y) : NA x (heard nd y now) := by
  unfold heard NA
  rw [view_def, member_setMember_other _ _ _ _ hxy]; exact h

theorem na_suspect (x y : Nat) (nd : Node D) (h : NA x nd) : NA x (suspect nd y) := by
  unfold suspect
  simp only []
  split
  · show ((nd.setMember y _).member x).st ≠ .alive
    by_cases hx : x = y
    · subst hx; rw [member_setMember_same]; simp
    · rw [member_setMember_other _ _ _ _ hx]; exact h
  · exact h

/-- `_suspect_member` makes the member not-ALIVE whatever it was -/
theorem na_suspect_self (x : Nat) (nd : Node D) : NA x (suspect nd x) := by
  unfold suspect
  simp only []
  split
  · show ((nd.setMember x _).member x).st ≠ .alive
    rw [member_setMember_same]; simp
  · rename_i h; exact h

theorem na_phiStep (a now x : Nat) (nd : Node D) (y : Nat) (h : NA x nd) : NA x (phiStep a now nd y) := by
  unfold phiStep
  split
  · exact h
  · simp only []
    split
    · exact na_suspect _ _ _ h
    · exact h

theorem na_phiCheck (n a now x : Nat) (nd : Node D) (h : NA x nd) : NA x (phiCheck n a now nd) :=
  foldl_pred (NA x) _ (fun nd y => na_phiStep a now x nd y) _ nd h

theorem na_nextTarget (n a x : Nat) (nd : Node D) (shuf : List Nat) (h : NA x nd) :
    NA x (nextTarget n a nd shuf).1 := by
  unfold nextTarget
  simp only []
  split
  · exact h
  · split <;> exact h.of_mem_eq rfl

theorem na_onTick (c : Cfg) (a now x : Nat) (shuf : List Nat) (nd : Node D) (h : NA x nd) :
    NA x (onTick c a now shuf nd).1 := by
  unfold onTick
  simp only []
  have h2 := na_nextTarget c.n a x _ shuf (na_phiCheck c.n a now x nd h)
  split
  · exact h2.of_mem_eq rfl
  · split <;> exact h2.of_mem_eq rfl

theorem na_onPing (c : Cfg) (a now x : Nat) (m : Msg) (nd : Node D) (h : NA x nd)
    (hs : m.src ≠ x) (hu : ¬ hasAlive x m.upds) : NA x (onPing c a now m nd).1 := by
  unfold onPing
  simp only []
  have h1 := na_applyUpdates c.n a x nd m.upds h hu
  have h2 : NA x (if isMember c.n a m.src then heard (applyUpdates c.n a nd m.upds) m.src now
      else applyUpdates c.n a nd m.upds) := by
    split
    · exact na_heard _ _ _ _ h1 (fun e => hs e.symm)
    · exact h1
  exact h2.of_mem_eq rfl

theorem na_onAck (c : Cfg) (a now x : Nat) (m : Msg) (nd : Node D) (h : NA x nd)
    (hs : m.src ≠ x) (hu : ¬ hasAlive x m.upds) : NA x (onAck c a now m nd).1 := by
  unfold onAck
  simp only []
  have h1 := na_applyUpdates c.n a x nd m.upds h hu
  split
  · exact (na_heard _ _ _ _ h1 (fun e => hs e.symm)).of_mem_eq rfl
  · exact h1

theorem na_onIndTimeout (c : Cfg) (a now x y : Nat) (shuf : List Nat) (nd : Node D) (h : NA x nd) :
    NA x (onIndTimeout c a now y shuf nd).1 := by
  unfold onIndTimeout
  simp only []
  have h0 : NA x (if c.fix then suspect nd y else nd) := by
    split
    · exact na_suspect _ _ _ h
    · exact h
  revert h0
  generalize (if c.fix = true then suspect nd y else nd) = nd0
  intro h0
  refine NA.of_mem_eq h0 ?_
  split <;> rfl

/-- the repaired ack-timeout handler: the probed member is not ALIVE afterwards -/
theorem na_onIndTimeout_self (c : Cfg) (hfix : c.fix = true) (a now x : Nat) (shuf : List Nat)
    (nd : Node D) : NA x (onIndTimeout c a now x shuf nd).1 := by
  unfold onIndTimeout
  simp only [hfix, if_true]
  refine NA.of_mem_eq (na_suspect_self x nd) ?_
  split <;> rfl

theorem na_onSuspTimeout (x y : Nat) (nd : Node D) (h : NA x nd) : NA x (onSuspTimeout y nd) := by
  unfold onSuspTimeout
  simp only []
  refine NA.of_mem_eq ?_ rfl
  split
  · show ((nd.setMember y _).member x).st ≠ .alive
    by_cases hx : x = y
    · subst hx; rw [member_setMember_same]; simp
    · rw [member_setMember_other _ _ _ _ hx]; exact h
  · exact h

/-- nothing addressed to `a` that is in flight comes from `x` or carries an "alive" update on `x` -/
def QuietTo (s : Sys D) (a x : Nat) : Prop :=
  ∀ m ∈ s.soup, m.dst = a → m.src ≠ x ∧ ¬ hasAlive x m.upds

theorem na_step (c : Cfg) (s s' : Sys D) (now a x : Nat) (h : Step c s now s')
    (hna : NA x (s.node a)) (hq : QuietTo s a x) : NA x (s'.node a) := by
  cases h with
  | idle => exact hna
  | crash y => exact hna
  | net cuts => exact hna
  | drop m hm hc => exact hna
  | tick b shuf hb _ =>
    by_cases hab : a = b
    · subst hab; rw [node_commit_same]; exact na_onTick c a now x shuf _ hna
    · rw [node_commit_other _ _ _ _ _ _ hab]; exact hna
  | msg m hm hc =>
    by_cases hab : a = m.dst
    · subst hab
      rw [node_commit_same]
      have hq' := hq m hm rfl
      unfold handleMsg
      cases m.kind
      · exact na_onPing c _ now x m _ hna hq'.1 hq'.2
      · exact na_onAck c _ now x m _ hna hq'.1 hq'.2
    · rw [node_commit_other _ _ _ _ _ _ hab]; exact hna
  | ind b y shuf t hb hp hk hf =>
    by_cases hab : a = b
    · subst hab; rw [node_commit_same]; exact na_onIndTimeout c a now x y shuf _ hna
    · rw [node_commit_other _ _ _ _ _ _ hab]; exact hna
  | susp b y t hb hp hk hf =>
    by_cases hab : a = b
    · subst hab; rw [node_commit_same]; exact na_onSuspTimeout x y _ hna
    · rw [node_commit_other _ _ _ _ _ _ hab]; exact hna

/-- `QuietTo` holds before every action of the run -/
def QuietRun (c : Cfg) (a x : Nat) : Sys D → List Act → Prop
  | _, [] => True
  | s, act :: rest => QuietTo s a x ∧ QuietRun c a x (step c s act) rest

theorem na_run (c : Cfg) (a x : Nat) (s : Sys D) (acts : List Act) (hna : NA x (s.node a))
    (hq : QuietRun c a x s acts) : NA x ((run c s acts).node a) := by
  induction acts generalizing s with
  | nil => exact hna
  | cons act rest ih =>
    exact ih _ (na_step c s _ act.time a x (step_rel c s act) hna hq.1) hq.2

end HappyModel.C13
