import HappyModel.C13.Spec
/-! `phi(now)` is non-decreasing in `now` while no heartbeat arrives (exact model, `tail`/`nlog`
as parameters). -/
namespace HappyModel.C13

structure PhiHyp (F : PhiFns) (ivs : List Nat) : Prop where
  sd_pos : 0 < F.sd ivs
  tail_antitone : ∀ y1 y2, y1 ≤ y2 → F.tail y2 ≤ F.tail y1
  nlog_antitone : ∀ p1 p2, 0 < p1 → p1 ≤ p2 → F.nlog p2 ≤ F.nlog p1
  nlog_nonneg : ∀ y, 0 < F.tail y → 0 ≤ F.nlog (F.tail y)

theorem PV.le_refl (a : PV) : PV.le a a := by
  cases a <;> simp [PV.le]

theorem phi_mono_core (F : PhiFns) (d : QDet) (H : PhiHyp F d.ivs) (t1 t2 : Nat) (h : t1 ≤ t2) :
    PV.le (d.phi F t1) (d.phi F t2) := by
  unfold QDet.phi
  cases hl : d.last with
  | none => simp [PV.le]
  | some l =>
    simp only []
    by_cases hn : d.ivs.length < 1
    · simp [hn, PV.le]
    · simp only [hn, if_false]
      by_cases h1 : t1 < l
      · simp only [h1, if_true]
        by_cases h2 : t2 < l
        · simp [h2, PV.le]
        · simp only [h2, if_false]
          split
          · simp [PV.le]
          · rename_i hp
            simp only [PV.le]
            exact H.nlog_nonneg _ (by omega)
      · have h2 : ¬ t2 < l := by omega
        simp only [h1, h2, if_false]
        have hy : (((t1 - l : Nat) : Int) - F.mean d.ivs) * (F.scale : Int) / F.sd d.ivs ≤
            (((t2 - l : Nat) : Int) - F.mean d.ivs) * (F.scale : Int) / F.sd d.ivs := by
          apply Int.ediv_le_ediv H.sd_pos
          apply Int.mul_le_mul_of_nonneg_right _ (Int.natCast_nonneg _)
          omega
        have hp := H.tail_antitone _ _ hy
        split
        · rename_i hp1
          have : F.tail ((((t2 - l : Nat) : Int) - F.mean d.ivs) * (F.scale : Int) / F.sd d.ivs) ≤ 0 :=
            Int.le_trans hp hp1
          simp [this, PV.le]
        · rename_i hp1
          split
          · simp [PV.le]
          · rename_i hp2
            simp only [PV.le]
            exact H.nlog_antitone _ _ (by omega) hp

/-- the Spec predicate on any increasing grid of sample times -/
theorem phi_samples_nondecreasing (F : PhiFns) (d : QDet) (H : PhiHyp F d.ivs) (ts : List Nat)
    (hs : ts.Pairwise (· ≤ ·)) :
    Spec.nondecreasing (fun a b => decide (PV.le a b)) (ts.map (d.phi F)) = true := by
  induction ts with
  | nil => rfl
  | cons t rest ih =>
    cases rest with
    | nil => rfl
    | cons u rest' =>
      have hs' := List.pairwise_cons.mp hs
      simp only [List.map_cons, Spec.nondecreasing, Bool.and_eq_true, decide_eq_true_eq]
      refine ⟨phi_mono_core F d H t u (hs'.1 u (by simp)), ?_⟩
      simpa using ih hs'.2

end HappyModel.C13
