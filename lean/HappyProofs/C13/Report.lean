import HappyProofs.C13.PropsDetect
/-!
Clause 2 for every public report of a node: the summary reports (`stats` counters, the member lists,
the counts of `repr`) that the model derives from its member table agree with the per-member states,
in every state; a member that is DEAD (or not ALIVE) in the row is not listed or counted as ALIVE; so
the detection bound holds of `alive_members` as well.
-/
set_option linter.unusedSectionVars false
namespace HappyModel.C13
variable {D : Type} [Inhabited D] [Detector D]

theorem mem_membersIn (a : Nat) (row : List MState) (st : MState) (x : Nat) :
    x ∈ Spec.membersIn a row st ↔ x < row.length ∧ x ≠ a ∧ lget MState.alive row x = st := by
  unfold Spec.membersIn
  rw [List.mem_filter]
  simp only [List.mem_range, Bool.and_eq_true, bne_iff_ne, ne_eq, beq_iff_eq]

/-- **report_agrees_with_states**: in every state of every run the model's summary reports of node `a`
    pass the judge's clause against the row `a` reports -/
theorem report_agrees_with_states (c : Cfg) (s : Sys D) (acts : List Act) (a : Nat) :
    Spec.reportOk a (obsRow c.n (run c s acts) a) (Spec.reportOf a (obsRow c.n (run c s acts) a)) = true := by
  unfold Spec.reportOk
  exact beq_self_eq_true _

/-- **report_lists_exact**: a report that passes the clause lists every member in exactly the list of
    its state, and the counters (of `stats` and of `repr`) are the lengths of the lists -/
theorem report_lists_exact (a : Nat) (row : List MState) (r : Spec.Report)
    (h : Spec.reportOk a row r = true) (x : Nat) (hx : x < row.length) (hxa : x ≠ a) :
    (x ∈ r.al ↔ lget MState.alive row x = .alive) ∧ (x ∈ r.sl ↔ lget MState.alive row x = .suspect) ∧
    (x ∈ r.dl ↔ lget MState.alive row x = .dead) ∧
    r.ac = r.al.length ∧ r.sc = r.sl.length ∧ r.dc = r.dl.length ∧
    r.ra = r.ac ∧ r.rs = r.sc ∧ r.rd = r.dc := by
  have hr : r = Spec.reportOf a row := by simpa [Spec.reportOk] using h
  subst hr
  simp only [Spec.reportOf, mem_membersIn, hx, hxa, ne_eq, not_false_eq_true, true_and, and_self]

/-- **failure_detected_report**: under the hypotheses of `failure_detected_full`, after the deadline the
    crashed member is not in `alive_members` (hence not counted ALIVE by `stats` / `repr`) of any
    report of the live observer that passes the clause -/
theorem failure_detected_report (c : Cfg) (δ : Nat) (det : D) (orders : List (List Nat)) (offs : List Nat)
    (pre post : List Act) (a x cx : Nat) (r : Spec.Report)
    (hfix : c.fix = true) (hiv : c.half < c.interval) (ha : a < c.n) (hx : x < c.n) (hax : x ≠ a)
    (ho : orderOk c.n a (lget [] orders a) = true) (hoff : lget 0 offs a ≤ cx + δ)
    (hm : monoRun c (Sys.init c det orders offs) (pre ++ .crash x cx :: post) = true)
    (ht : timelyRun c δ (Sys.init c det orders offs) (pre ++ .crash x cx :: post) = true)
    (hp : punctualRun c a (Sys.init c det orders offs) (pre ++ .crash x cx :: post) = true)
    (hlive : (run c (Sys.init c det orders offs) (pre ++ .crash x cx :: post)).isCrashed a = false)
    (hlate : Spec.detectDeadline c.n c.n c.interval c.half δ cx <
      (run c (Sys.init c det orders offs) (pre ++ .crash x cx :: post)).now)
    (hr : Spec.reportOk a (obsRow c.n (run c (Sys.init c det orders offs) (pre ++ .crash x cx :: post)) a) r
      = true) : x ∉ r.al := by
  have hlen : (obsRow c.n (run c (Sys.init c det orders offs) (pre ++ .crash x cx :: post)) a).length = c.n := by
    simp [obsRow]
  have h := (report_lists_exact a _ r hr x (by rw [hlen]; exact hx) hax).1
  rw [h]
  unfold obsRow
  rw [lget_map_range _ _ _ _ hx]
  exact failure_detected_full c δ det orders offs pre post a x cx hfix hiv ha hx hax ho hoff hm ht hp hlive hlate

/-- non-vacuity: a row with one member in each state; the agreeing report; a report whose counter is
    stale (the DEAD member still counted SUSPECT) is rejected, and so is a stale list -/
example :
    Spec.reportOf 0 [.alive, .alive, .suspect, .dead] = ⟨1, 1, 1, [1], [2], [3], 1, 1, 1⟩ ∧
    Spec.reportOk 0 [.alive, .alive, .suspect, .dead] ⟨1, 1, 1, [1], [2], [3], 1, 1, 1⟩ = true ∧
    Spec.reportOk 0 [.alive, .alive, .dead, .dead] ⟨1, 1, 1, [1], [], [2, 3], 1, 1, 1⟩ = false ∧
    Spec.reportOk 0 [.alive, .alive, .dead, .dead] ⟨1, 0, 2, [1], [2], [3], 1, 0, 2⟩ = false ∧
    Spec.reportOk 0 [.alive, .alive, .dead, .dead] ⟨1, 0, 2, [1], [], [2, 3], 1, 0, 2⟩ = true := by decide

end HappyModel.C13
