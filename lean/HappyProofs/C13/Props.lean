import HappyProofs.C13.Revive
import HappyProofs.C13.ReviveTrace
import HappyProofs.C13.Partition
import HappyProofs.C13.PhiMono
import HappyProofs.C13.PhiDetect
import HappyProofs.C13.SafetyInv
import HappyProofs.C13.Detect
import HappyProofs.C13.PhiTick
import HappyProofs.C13.NoDelegate
import HappyProofs.C13.PropsDetect
import HappyProofs.C13.PropsPhi
import HappyProofs.C13.SchedCheck
import HappyProofs.C13.Report
/-!
C13 property theorems (statements about `Spec` predicates and model runs only).

* `no_false_death` — timely schedule (`timelyRun δ`), `2·δ < half + susp` ⇒ no node reports a
  non-crashed member DEAD, after any action list (all probe orders, delays ≤ δ, crash times).
* `dead_not_revived_without_incarnation` — across any action list a cell that was DEAD is ALIVE
  again only with a strictly higher incarnation.
* `dead_never_alive_again` — the same over whole histories: along any action list (probe ticks,
  deliveries, timeouts, crashes, partitions, heals) the successive reports of a cell pass the scan
  the judge runs (`Spec.reviveTrace`), which `revive_trace_is_pairwise` shows to be the pairwise clause.
* `partition_blocks`, `partition_isolates`, `heal_only_unblocks` — the network-partition component:
  a cut blocks both directions of every pair, nothing sent across a pair that stays blocked is ever
  in flight, healing never blocks.
* `phi_inf_absorbing` — once `phi` is `+∞` it stays `+∞` until the next heartbeat.
* `phi_monotone` — with no heartbeat, `phi(now)` is non-decreasing on any increasing sample grid
  (`tail`, `nlog` parameters).
* `phi_reaches_level`, `phi_silence_detected` (`PhiDetect.lean`) — a recorded heartbeat, at whatever
  time (the epoch 0 included), followed by a silence of `mean-bound + Y·sd-bound` drives phi to the level of
  standardised distance `Y`; the judge's clause `Spec.detectedSample` holds of the model.
* `failure_detected_partial` — repaired handler: once the ack timeout of a probe of `x` fires at a
  live node `a`, `a` does not report `x` ALIVE for the rest of any run in which nothing from `x`
  (and no "alive" update about `x`) is delivered to `a`.  The bound in probe ticks after a crash is
  `failure_detected_full` (with `crash_yields_quiet_run`, `round_robin_reaches`,
  `round_robin_between`, `failure_detected_row`, `failure_detected_within_crashes`) in `PropsDetect.lean`.
* `failure_detected_by_phi` (`PropsPhi.lean`) — the phi path at run level for the concrete phi-accrual
  model (`PhiDet`): after `crash x cx`, a live observer that had recorded a heartbeat from `x` does not
  report `x` ALIVE once an action later than `cx + δ + m + Y·max(m, min_std) + interval` has happened —
  no hypothesis on the detector's answers, both code variants, independent of the probe order.
  `failure_detected_by_phi_partial` below is the one-tick lemma for an abstract `Detector`.
* `report_agrees_with_states`, `report_lists_exact`, `failure_detected_report` (`Report.lean`) — every
  public summary report (`stats` counters, member lists, `repr` counts) agrees with the per-member
  states (`Spec.reportOk`); after the deadline the crashed member is not in `alive_members` either.
* `no_delegate_detected`, `unacked_probe_dead_after_suspicion`, `lone_observer_detects`,
  `lone_observer_within_deadline` — clause 2 when nobody can relay an indirect probe (a pair,
  `indirect_probe_count = 0`, every other peer DEAD): the ack timeout sends nothing, still suspects and
  arms the suspicion timer, whose firing makes the member DEAD; a lone observer probes its only peer
  at every tick, which with the ack timeout lies inside `Spec.detectDeadline` for `n = 2`.
* `current_unacked_probe_keeps_alive` — witness for the pinned code: probe, ack timeout and
  suspicion timeout of a member that crashed before being heard from leave it ALIVE.
-/
set_option linter.unusedSectionVars false
namespace HappyModel.C13
variable {D : Type} [Inhabited D] [Detector D]

/-! ### helpers: initial state, Spec rows -/

/-! ### clause 1 -/

theorem no_false_death_view (c : Cfg) (δ : Nat) (hδ : 2 * δ < c.half + c.susp) (det : D)
    (orders : List (List Nat)) (offs : List Nat) (acts : List Act)
    (ht : timelyRun c δ (Sys.init c det orders offs) acts = true) (a x : Nat)
    (hx : (run c (Sys.init c det orders offs) acts).isCrashed x = false) :
    (run c (Sys.init c det orders offs) acts).view a x ≠ .dead :=
  ((inv_run c δ hδ _ acts (inv_init c δ det orders offs) ht).clean a x hx).1

/-- **no_false_death**: for every cluster size and configuration with `2·δ < half + susp`, every
    initial probe order and start offset, every detector, and every timely action sequence (probe
    ticks, deliveries, timeouts, crashes in any order), the Spec predicate `noDeadLive` holds of
    every node's row in the reached state. -/
theorem no_false_death (c : Cfg) (δ : Nat) (hδ : Spec.boundOk δ c.half c.susp = true) (det : D)
    (orders : List (List Nat)) (offs : List Nat) (acts : List Act)
    (ht : timelyRun c δ (Sys.init c det orders offs) acts = true) (a : Nat) :
    Spec.noDeadLive (run c (Sys.init c det orders offs) acts).crashed a
      (obsRow c.n (run c (Sys.init c det orders offs) acts) a) = true := by
  have hδ' : 2 * δ < c.half + c.susp := by simpa [Spec.boundOk] using hδ
  unfold Spec.noDeadLive obsRow
  rw [List.all_eq_true]
  intro x hx
  have hxn : x < c.n := by simpa using hx
  rw [lget_map_range _ _ _ _ hxn]
  by_cases hc : lget false (run c (Sys.init c det orders offs) acts).crashed x = true
  · simp [hc]
  · have hv := no_false_death_view c δ hδ' det orders offs acts ht a x (by simpa [Sys.isCrashed] using hc)
    simp [hv]

/-- non-vacuity: a 3-node run in which a probe, its ping and its ack happen under `δ = 2` is timely,
    the bound holds, and messages really were exchanged -/
example :
    let c : Cfg := ⟨3, 10, 5, 5, 3, true⟩
    let acts := [Act.tick 0 10 [], .tick 1 10 [], .deliver 0 11, .deliver 1 12, .deliver 2 13,
                 .deliver 3 14, .crash 2 14]
    Spec.boundOk 2 c.half c.susp = true ∧
    timelyRun c 2 (Sys.init c () [[1, 2], [0, 2], [0, 1]] [0, 0, 0]) acts = true ∧
    (run c (Sys.init c () [[1, 2], [0, 2], [0, 1]] [0, 0, 0]) acts).nextId = 4 ∧
    (run c (Sys.init c () [[1, 2], [0, 2], [0, 1]] [0, 0, 0]) acts).soup = [] := by decide

/-! ### clause 3 -/

/-- **dead_not_revived_without_incarnation**: across any action list (no hypothesis on timing) -/
theorem dead_not_revived_without_incarnation (c : Cfg) (s : Sys D) (acts : List Act) (a x : Nat) :
    Spec.reviveOk (obsCell s a x) (obsCell (run c s acts) a x) = true := by
  have h := srev_run c s acts a x
  unfold Spec.reviveOk obsCell Sys.view Node.view
  simp only [Bool.not_eq_true', Bool.and_eq_false_imp, Bool.and_eq_true, beq_iff_eq, decide_eq_false_iff_not,
    Nat.not_le, and_imp]
  intro hd ha
  exact h.2 hd (by rw [ha]; simp)

/-- non-vacuity: a DEAD cell does come back with a higher incarnation (and only then) -/
example : (applyToMember (⟨.dead, 0, ()⟩ : Member Unit) ⟨1, .alive, 1⟩).st = .alive ∧
    (applyToMember (⟨.dead, 1, ()⟩ : Member Unit) ⟨1, .alive, 1⟩).st = .dead := by decide

/-- **dead_never_alive_again**: clause 3 over whole histories.  For every configuration, state and
    action list — partitions and heals included, no hypothesis on timing — the list of successive
    reports of any cell passes `Spec.reviveTrace` (the judge's scan): after a DEAD report at
    incarnation `k`, however many SUSPECT/DEAD reports later, no ALIVE report has incarnation `≤ k`. -/
theorem dead_never_alive_again (c : Cfg) (s : Sys D) (acts : List Act) (a x : Nat) :
    Spec.reviveTrace none (cellTrace c a x s acts) = true :=
  (reviveTrace_iff_pairwise _).mpr (cellTrace_pairwise c a x s acts)

/-- **revive_trace_is_pairwise**: the scan evaluated by the judge is exactly "every earlier/later
    pair of reports satisfies `reviveOk`" -/
theorem revive_trace_is_pairwise (cs : List Spec.Cell) :
    Spec.reviveTrace none cs = true ↔ cs.Pairwise (fun p q => Spec.reviveOk p q = true) :=
  reviveTrace_iff_pairwise cs

/-- non-vacuity, and the scan sees through an intermediate SUSPECT report, which a comparison of
    consecutive reports does not -/
example : Spec.reviveTrace none [⟨.alive, 0⟩, ⟨.dead, 0⟩, ⟨.suspect, 0⟩, ⟨.alive, 0⟩] = false ∧
    Spec.reviveOk ⟨.dead, 0⟩ ⟨.suspect, 0⟩ = true ∧ Spec.reviveOk ⟨.suspect, 0⟩ ⟨.alive, 0⟩ = true ∧
    Spec.reviveTrace none [⟨.alive, 0⟩, ⟨.dead, 0⟩, ⟨.suspect, 1⟩, ⟨.alive, 1⟩] = true := by decide

/-- a history of the model in which the cell does become DEAD: node 2 is cut off from node 0, the
    probe of node 0 is refused by the network, both timers fire; a stale "suspect" update and a
    later ping from node 2 (after the heal) leave it DEAD -/
example :
    let c : Cfg := ⟨3, 10, 5, 5, 3, true⟩
    let acts := [Act.cut 0 [2] [0] 1, .tick 0 10 [], .timeout 0 2 15 [1], .timeout 0 2 20 [], .heal 0 21,
                 .tick 2 10 [], .deliver 2 22]
    (cellTrace c 0 2 (Sys.init c () [[2, 1], [0, 2], [0, 1]] [0, 0, 0]) acts).map (·.st) =
      [.alive, .alive, .alive, .suspect, .dead, .dead, .dead, .dead] := by decide

/-! ### the network-partition component -/

/-- **partition_blocks**: after `partition(ga, gb)` every pair across the two groups is blocked in
    both directions -/
theorem partition_blocks (c : Cfg) (s : Sys D) (h : Nat) (ga gb : List Nat) (now a b : Nat)
    (ha : a ∈ ga) (hb : b ∈ gb) :
    (step c s (.cut h ga gb now)).blocked a b = true ∧ (step c s (.cut h ga gb now)).blocked b a = true :=
  cut_blocks_pair c s h ga gb now a b ha hb

/-- `is_partitioned(a, b)` holds before every action of the run -/
def BlockedRun (c : Cfg) (a b : Nat) : Sys D → List Act → Prop
  | _, [] => True
  | s, act :: rest => s.blocked a b = true ∧ BlockedRun c a b (step c s act) rest

/-- **partition_isolates**: while `a → b` stays blocked, no new message from `a` to `b` is ever in
    flight — whatever is in flight at the end was in flight at the start (so nothing sent across the
    partition is ever delivered) -/
theorem partition_isolates (c : Cfg) (s : Sys D) (acts : List Act) (a b : Nat)
    (hb : BlockedRun c a b s acts) :
    ∀ m ∈ (run c s acts).soup, m.src = a → m.dst = b → m ∈ s.soup := by
  induction acts generalizing s with
  | nil => exact fun m hm _ _ => hm
  | cons act rest ih =>
    intro m hm hs hd
    have h1 := ih (step c s act) hb.2 m hm hs hd
    rcases step_soup_unblocked c s act m h1 with h | ⟨_, h⟩
    · exact h
    · rw [hs, hd, hb.1] at h; cases h

/-- **heal_only_unblocks**: `Partition.heal()` never blocks a pair that was not blocked -/
theorem heal_only_unblocks (c : Cfg) (s : Sys D) (h now a b : Nat)
    (hb : (step c s (.heal h now)).blocked a b = true) : s.blocked a b = true :=
  heal_never_blocks c s h now a b hb

/-- non-vacuity: the probe ping `0 → 2` sent during the cut never reaches the soup (it is recorded as
    refused), the pair is unblocked again after the heal, and a pair held by two handles stays blocked
    until both are healed -/
example :
    let c : Cfg := ⟨3, 10, 5, 5, 3, true⟩
    let s0 : Sys Unit := Sys.init c () [[2, 1], [0, 2], [0, 1]] [0, 0, 0]
    let s1 := run c s0 [.cut 0 [2] [0] 1, .tick 0 10 []]
    s1.soup = [] ∧ s1.lost.length = 1 ∧ s1.nextId = 1 ∧
    (step c s1 (.heal 0 11)).blocked 0 2 = false ∧ (step c s1 (.heal 0 11)).whole = true ∧
    (run c s1 [.cut 1 [0, 1] [2] 12, .heal 0 13]).blocked 2 0 = true ∧
    (run c s1 [.cut 1 [0, 1] [2] 12, .heal 0 13, .heal 1 14]).blocked 2 0 = false := by decide

example :
    let c : Cfg := ⟨3, 10, 5, 5, 3, true⟩
    let s0 : Sys Unit := Sys.init c () [[2, 1], [0, 2], [0, 1]] [0, 0, 0]
    BlockedRun c 0 2 (step c s0 (.cut 0 [2] [0] 1)) [.tick 0 10 [], .timeout 0 2 15 [1]] :=
  ⟨by decide, by decide, trivial⟩

/-! ### clause 4 -/

/-- **phi_monotone** -/
theorem phi_monotone (F : PhiFns) (d : QDet) (H : PhiHyp F d.ivs) (ts : List Nat)
    (hs : ts.Pairwise (· ≤ ·)) :
    Spec.nondecreasing (fun a b => decide (PV.le a b)) (ts.map (d.phi F)) = true :=
  phi_samples_nondecreasing F d H ts hs

/-- **phi_inf_absorbing**: once the tail probability has underflowed (`phi = +∞`) the suspicion level
    stays `+∞` for every later sample until the next heartbeat -/
theorem phi_inf_absorbing (F : PhiFns) (d : QDet) (H : PhiHyp F d.ivs) (t1 t2 : Nat) (h : t1 ≤ t2)
    (hinf : d.phi F t1 = .inf) : d.phi F t2 = .inf := by
  have hle := phi_mono_core F d H t1 t2 h
  rw [hinf] at hle
  cases h2 : d.phi F t2 with
  | inf => rfl
  | fin v => rw [h2] at hle; exact absurd hle (by simp [PV.le])

/-- the judge's reading of reported bit patterns: ordered like the doubles they encode, `+∞` on top,
    and a finite value after `+∞` is rejected by `nondecreasing` -/
example : Spec.pvOfBits 0x7FF0000000000000 = some .inf ∧
    Spec.pvOfBits 0x4074300000000000 = some (.fin 0x4074300000000000) ∧  -- 323.0
    Spec.pvOfBits 0x40733A0000000000 = some (.fin 0x40733A0000000000) ∧  -- 307.625
    Spec.nondecreasing Spec.pvLe [.fin 0x40733A0000000000, .fin 0x4074300000000000, .inf, .inf] = true ∧
    Spec.nondecreasing Spec.pvLe [.fin 0x4074300000000000, .fin 0x40733A0000000000] = false ∧
    Spec.nondecreasing Spec.pvLe [.inf, .fin 0x40733A0000000000] = false ∧
    Spec.pvOfBits 0x8000000000000000 = some (.fin 0) ∧ Spec.pvOfBits 0xBFF0000000000000 = none ∧
    Spec.pvOfBits 0x7FF8000000000000 = none := by decide

def exF : PhiFns :=
  { tail := fun y => if y ≤ 0 then 100 else 100 - y, nlog := fun p => 100 - p,
    mean := fun _ => 3, sd := fun _ => 2, scale := 10 }

/-- non-vacuity: the hypotheses are satisfiable, phi takes several values incl. `+∞` -/
example : PhiHyp exF [3] :=
  ⟨by decide,
   by intro y1 y2 h; simp only [exF]; split <;> split <;> omega,
   by intro p1 p2 _ h; simp only [exF]; omega,
   by intro y; simp only [exF]; split <;> omega⟩

example : ((({ last := some 0, ivs := [3] } : QDet).phi exF 2, ({ last := some 0, ivs := [3] } : QDet).phi exF 5,
    ({ last := some 0, ivs := [3] } : QDet).phi exF 40)) = (.fin 0, .fin 10, .inf) := by decide

/-! ### clause 5: detection at the detector level (`phi_reaches_level`, `phi_silence_detected` in
    `PhiDetect.lean`) -/

/-- non-vacuity: a single heartbeat recorded at the epoch `0` and a bootstrap interval; `PhiHyp` holds
    (above); after `silenceBound 3 2 = 120` the model's phi is `+∞`, the clause accepts it and rejects
    a level that is still `0` there (and accepts `0` one tick earlier, and before any heartbeat the
    clause is not evaluated at all) -/
example : Spec.silenceBound 3 2 = 120 ∧ levelAt exF 39 = .inf ∧
    ({ last := some 0, ivs := [3] } : QDet).phi exF 120 = .inf ∧
    Spec.detectedSample true 3 2 0 120 (.fin 50) (({ last := some 0, ivs := [3] } : QDet).phi exF 120) = true ∧
    Spec.detectedSample true 3 2 0 120 (.fin 50) (.fin 0) = false ∧
    Spec.detectedSample true 3 2 0 119 (.fin 50) (.fin 0) = true ∧
    Spec.detectedSample false 3 2 0 120 (.fin 50) (.fin 0) = true := by decide

/-! ### clause 2 -/

/-- **failure_detected_partial** (repaired handler): if the ack timeout of a probe of `x` fires at
    the live node `a` (the probe went un-acked), then after any further actions during which
    nothing from `x` and no "alive" update about `x` is delivered to `a`, node `a` does not report
    `x` ALIVE. -/
theorem failure_detected_partial (c : Cfg) (hfix : c.fix = true) (s : Sys D) (a x now : Nat)
    (shuf : List Nat) (acts : List Act) (ha : s.isCrashed a = false)
    (hp : (s.node a).pendOf x = some ⟨.ind, now⟩)
    (hq : QuietRun c a x (step c s (.timeout a x now shuf)) acts) :
    (run c s (.timeout a x now shuf :: acts)).view a x ≠ .alive := by
  have h1 : NA x ((step c s (.timeout a x now shuf)).node a) := by
    simp only [step, ha, hp, Bool.false_eq_true, if_false, bne_self_eq_false]
    rw [node_commit_same]
    exact na_onIndTimeout_self c hfix a now x shuf _
  exact na_run c a x _ acts h1 hq

/-- **failure_detected_by_phi_partial** (both variants): the phi path.  *Assuming* the detector that
    `a` keeps for `x` is not available at a probe tick of `a` (this is where "phi exceeds the
    threshold after a bounded silence" enters — a hypothesis on the `Detector` parameter), `a` does
    not report `x` ALIVE after that tick nor after any further quiet run. -/
theorem failure_detected_by_phi_partial (c : Cfg) (s : Sys D) (a x now : Nat) (shuf : List Nat)
    (acts : List Act) (ha : s.isCrashed a = false) (htick : (s.node a).nextTick = now)
    (hx : x < c.n) (hxa : x ≠ a)
    (hav : Detector.avail ((s.node a).member x).det now = false)
    (hq : QuietRun c a x (step c s (.tick a now shuf)) acts) :
    (run c s (.tick a now shuf :: acts)).view a x ≠ .alive := by
  have h1 : NA x ((step c s (.tick a now shuf)).node a) := by
    simp only [step, ha, htick, Bool.false_or, bne_self_eq_false, Bool.false_eq_true, if_false]
    rw [node_commit_same]
    exact na_onTick_unavailable c a now x shuf _ hx hxa hav
  exact na_run c a x _ acts h1 hq

/-- a detector that is unavailable from time 12 on: the tick at 20 suspects member 2 -/
instance : Detector Nat := ⟨fun d _ => d, fun d now => decide (now < d)⟩

example :
    let c : Cfg := ⟨3, 10, 5, 50, 3, false⟩
    let s := run c (Sys.init c (12 : Nat) [[1, 2], [0, 2], [0, 1]] [0, 0, 0]) [.tick 0 10 []]
    s.isCrashed 0 = false ∧ (s.node 0).nextTick = 20 ∧
    Detector.avail ((s.node 0).member 2).det 20 = false ∧ s.view 0 2 = .alive ∧
    (run c s [.tick 0 20 []]).view 0 2 = .suspect := by decide

/-- non-vacuity of `failure_detected_partial`, and the clause does real work: node 2 crashed at
    time 0, node 0 probes it at 10, the ack timeout fires at 15: SUSPECT under the repaired handler -/
example :
    let c : Cfg := ⟨3, 10, 5, 5, 3, true⟩
    let s := run c (Sys.init c () [[2, 1], [0, 2], [0, 1]] [0, 0, 0]) [.crash 2 0, .tick 0 10 []]
    s.isCrashed 0 = false ∧ (s.node 0).pendOf 2 = some ⟨.ind, 15⟩ ∧
    (run c s [.timeout 0 2 15 [1], .deliver 1 16, .timeout 0 2 20 []]).view 0 2 = .dead := by decide

/-! ### clause 2 with nobody to relay through -/

/-- **no_delegate_detected**: the ack timeout of an un-acked probe of `x` fires at the live node `a`
    and there is no delegate — `indirect_probe_count = 0`, or the candidate list is empty (a pair;
    every other peer DEAD: `delegateCands_pair`, `delegateCands_all_dead`).  Then nothing is sent, the
    suspicion timeout is armed for `now + susp`, and `a` does not report `x` ALIVE after any further
    quiet run. -/
theorem no_delegate_detected (c : Cfg) (hfix : c.fix = true) (s : Sys D) (a x now : Nat)
    (shuf : List Nat) (acts : List Act) (ha : s.isCrashed a = false)
    (hp : (s.node a).pendOf x = some ⟨.ind, now⟩) (hd : c.indirect = 0 ∨ shuf = [])
    (hq : QuietRun c a x (step c s (.timeout a x now shuf)) acts) :
    (step c s (.timeout a x now shuf)).soup = s.soup ∧
    (step c s (.timeout a x now shuf)).nextId = s.nextId ∧
    ((step c s (.timeout a x now shuf)).node a).pendOf x = some ⟨.susp, now + c.susp⟩ ∧
    (run c s (.timeout a x now shuf :: acts)).view a x ≠ .alive :=
  no_delegate_core c hfix s a x now shuf acts ha hp hd hq

/-- the candidate list handed to `random.shuffle` is empty in a pair and when all others are DEAD -/
theorem no_delegate_candidates (n a x : Nat) (nd : Node D) :
    ((n = 2 ∧ a < 2 ∧ x < 2 ∧ a ≠ x) ∨ (∀ y, y < n → y ≠ a → y ≠ x → nd.view y = .dead)) →
    delegateCands n a x nd = [] := by
  rintro (⟨hn, ha, hx, hax⟩ | h)
  · subst hn; exact delegateCands_pair a x nd ha hx hax
  · exact delegateCands_all_dead n a x nd h

/-- **unacked_probe_dead_after_suspicion**: ack timeout, then the suspicion timeout it armed (nothing
    in between at `a` about `x`): `a` reports `x` DEAD — whatever the delegates were, none included. -/
theorem unacked_probe_dead_after_suspicion (c : Cfg) (hfix : c.fix = true) (s : Sys D) (a x now : Nat)
    (shuf shuf' : List Nat) (ha : s.isCrashed a = false)
    (hp : (s.node a).pendOf x = some ⟨.ind, now⟩) :
    (run c s [.timeout a x now shuf, .timeout a x (now + c.susp) shuf']).view a x = .dead :=
  dead_after_suspicion_core c hfix s a x now shuf shuf' ha hp

/-- **lone_observer_detects**: a live node whose probe order is `[x]` (a pair; or the rest of the
    cluster is gone) with `x` not DEAD: its next probe tick and the ack timeout of that probe leave
    `x` not-ALIVE for the rest of any quiet run — one probe round, no delegate needed. -/
theorem lone_observer_detects (c : Cfg) (hfix : c.fix = true) (s : Sys D) (a x now : Nat)
    (acts : List Act) (ha : s.isCrashed a = false) (hm : isMember c.n a x = true)
    (hl : Lone x (s.node a)) (ht : (s.node a).nextTick = now)
    (hq : QuietRun c a x (run c s [.tick a now [x], .timeout a x (now + c.half) []]) acts) :
    (run c s (.tick a now [x] :: .timeout a x (now + c.half) [] :: acts)).view a x ≠ .alive :=
  lone_observer_core c hfix s a x now acts ha hm hl ht hq

/-- **lone_observer_within_deadline**: that round ends inside the deadline the judge applies to a
    pair (`Spec.detectDeadline 2 k`) whenever the tick comes at most one interval after `crash + δ` -/
theorem lone_observer_within_deadline (k interval half delta c0 now : Nat)
    (h : now ≤ c0 + delta + interval) :
    now + half ≤ Spec.detectDeadline 2 k interval half delta c0 :=
  pair_deadline k interval half delta c0 now h

/-- non-vacuity: a pair; node 1 crashes before anybody heard from it; node 0 probes it at its first
    tick, the ack timeout sends nothing (no message id is consumed), arms the suspicion timer, and
    its firing makes node 1 DEAD; the same with three nodes and `indirect_probe_count = 0` -/
example :
    let c : Cfg := ⟨2, 10, 5, 5, 3, true⟩
    let s := run c (Sys.init c () [[1], [0]] [0, 0]) [.crash 1 0]
    s.isCrashed 0 = false ∧ isMember c.n 0 1 = true ∧ (s.node 0).order = [1] ∧ s.view 0 1 ≠ .dead ∧
    (s.node 0).nextTick = 10 ∧ delegateCands 2 0 1 (s.node 0) = [] ∧
    (run c s [.tick 0 10 [1]]).nextId = 1 ∧
    (run c s [.tick 0 10 [1], .timeout 0 1 15 []]).nextId = 1 ∧
    (run c s [.tick 0 10 [1], .timeout 0 1 15 []]).view 0 1 = .suspect ∧
    (run c s [.tick 0 10 [1], .timeout 0 1 15 [], .timeout 0 1 20 []]).view 0 1 = .dead := by decide

example :
    let c : Cfg := ⟨3, 10, 5, 5, 0, true⟩
    let s := run c (Sys.init c () [[2, 1], [0, 2], [0, 1]] [0, 0, 0]) [.crash 2 0, .tick 0 10 []]
    (s.node 0).pendOf 2 = some ⟨.ind, 15⟩ ∧ (run c s [.timeout 0 2 15 [1]]).nextId = s.nextId ∧
    (run c s [.timeout 0 2 15 [1], .timeout 0 2 20 []]).view 0 2 = .dead := by decide

/-- **witness for the pinned code** (`fix = false`): the same schedule leaves the crashed member
    ALIVE — the probe went un-acked, the suspicion timer fired, nothing happened. -/
theorem current_unacked_probe_keeps_alive :
    let c : Cfg := ⟨3, 10, 5, 5, 3, false⟩
    (run c (Sys.init c () [[2, 1], [0, 2], [0, 1]] [0, 0, 0])
      [.crash 2 0, .tick 0 10 [], .timeout 0 2 15 [1], .deliver 1 16, .timeout 0 2 20 []]).view 0 2
      = .alive := by decide

end HappyModel.C13
