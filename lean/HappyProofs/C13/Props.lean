import HappyProofs.C13.Revive
import HappyProofs.C13.PhiMono
import HappyProofs.C13.SafetyInv
import HappyProofs.C13.Detect
import HappyProofs.C13.PhiTick
/-!
C13 property theorems (statements about `Spec` predicates and model runs only).

* `no_false_death` — timely schedule (`timelyRun δ`), `2·δ < half + susp` ⇒ no node reports a
  non-crashed member DEAD, after any action list (all probe orders, delays ≤ δ, crash times).
* `dead_not_revived_without_incarnation` — across any action list a cell that was DEAD is ALIVE
  again only with a strictly higher incarnation.
* `phi_monotone` — with no heartbeat, `phi(now)` is non-decreasing on any increasing sample grid
  (`tail`, `nlog` parameters).
* `failure_detected_partial` — repaired handler: once the ack timeout of a probe of `x` fires at a
  live node `a`, `a` does not report `x` ALIVE for the rest of any run in which nothing from `x`
  (and no "alive" update about `x`) is delivered to `a`.  `failure_detected_full` (the bound in
  probe ticks) is stated and left unproved.
* `current_unacked_probe_keeps_alive` — witness for the pinned code: probe, ack timeout and
  suspicion timeout of a member that crashed before being heard from leave it ALIVE.
-/
set_option linter.unusedSectionVars false
namespace HappyModel.C13
variable {D : Type} [Inhabited D] [Detector D]

/-! ### helpers: initial state, Spec rows -/

theorem lget_default_or_mem {α} (d : α) (l : List α) (i : Nat) : lget d l i = d ∨ lget d l i ∈ l := by
  induction l generalizing i with
  | nil => exact Or.inl (lget_nil d i)
  | cons x xs ih =>
    cases i with
    | zero => exact Or.inr (by simp [lget])
    | succ i =>
      rcases ih i with h | h
      · exact Or.inl (by simpa [lget] using h)
      · exact Or.inr (by simp [lget, h])

theorem lget_map_range {α} (d : α) (f : Nat → α) (n x : Nat) (h : x < n) :
    lget d ((List.range n).map f) x = f x := by
  have key : ∀ (l : List Nat) (i : Nat) (hi : i < l.length), lget d (l.map f) i = f (l[i]) := by
    intro l
    induction l with
    | nil => intro i hi; simp at hi
    | cons y ys ih =>
      intro i hi
      cases i with
      | zero => rfl
      | succ i => simpa [lget] using ih i (by simpa using hi)
  have := key (List.range n) x (by simpa using h)
  simpa using this

theorem init_node (c : Cfg) (det : D) (orders : List (List Nat)) (offs : List Nat) (a : Nat) :
    (∀ x, ((Sys.init c det orders offs).node a).pendOf x = none) ∧
    (∀ x, ((Sys.init c det orders offs).node a).view x = .alive) ∧
    ((Sys.init c det orders offs).node a).upds = [] := by
  unfold Sys.node Sys.init
  simp only []
  rcases lget_default_or_mem (default : Node D) ((List.range c.n).map fun a =>
      Node.init c det (lget [] orders a) (lget 0 offs a)) a with h | h
  · rw [h]
    exact ⟨fun x => lget_nil _ _, fun x => by simp [Node.view, Node.member, default, lget_nil], rfl⟩
  · obtain ⟨b, _, hb⟩ := List.mem_map.mp h
    rw [← hb]
    refine ⟨fun x => ?_, fun x => ?_, rfl⟩
    · rcases lget_default_or_mem (none : Option Timer) (List.replicate c.n none) x with h1 | h1
      · exact h1
      · exact List.eq_of_mem_replicate h1
    · unfold Node.view Node.member Node.init
      simp only []
      rcases lget_default_or_mem (default : Member D) (List.replicate c.n { det := det }) x with h1 | h1
      · rw [h1]; rfl
      · rw [List.eq_of_mem_replicate h1]

theorem inv_init (c : Cfg) (δ : Nat) (det : D) (orders : List (List Nat)) (offs : List Nat) :
    Inv c δ (Sys.init c det orders offs) := by
  refine ⟨?_, ?_, ?_, ?_⟩
  · intro a x t hp; rw [(init_node c det orders offs a).1 x] at hp; cases hp
  · intro a x _
    refine ⟨by rw [(init_node c det orders offs a).2.1 x]; simp, ?_⟩
    rw [(init_node c det orders offs a).2.2]; exact hasDead_nil x
  · intro m hm; simp [Sys.init] at hm
  · intro a x t _ _ hp; rw [(init_node c det orders offs a).1 x] at hp; cases hp

/-- the hypothesis on the action sequence: when an action happens at time `t`, every message still
    in flight was sent at most `δ` before `t` ("every sent message is delivered within δ") -/
def timelyRun (c : Cfg) (δ : Nat) : Sys D → List Act → Bool
  | _, [] => true
  | s, act :: rest => s.soup.all (fun m => decide (act.time ≤ m.sent + δ)) && timelyRun c δ (step c s act) rest

theorem inv_run (c : Cfg) (δ : Nat) (hδ : 2 * δ < c.half + c.susp) (s : Sys D) (acts : List Act)
    (I : Inv c δ s) (ht : timelyRun c δ s acts = true) : Inv c δ (run c s acts) := by
  induction acts generalizing s with
  | nil => exact I
  | cons act rest ih =>
    simp only [timelyRun, Bool.and_eq_true, List.all_eq_true, decide_eq_true_eq] at ht
    exact ih _ (inv_step c δ hδ s _ act.time I (fun m hm => ht.1 m hm) (step_rel c s act)) ht.2

/-! ### clause 1 -/

/-- the observed row of node `a` -/
def obsRow (n : Nat) (s : Sys D) (a : Nat) : List MState := (List.range n).map (s.view a)

theorem no_false_death_view (c : Cfg) (δ : Nat) (hδ : 2 * δ < c.half + c.susp) (det : D)
    (orders : List (List Nat)) (offs : List Nat) (acts : List Act)
    (ht : timelyRun c δ (Sys.init c det orders offs) acts = true) (a x : Nat)
    (hx : (run c (Sys.init c det orders offs) acts).isCrashed x = false) :
    (run c (Sys.init c det orders offs) acts).view a x ≠ .dead :=
  ((inv_run c δ hδ _ acts (inv_init c δ det orders offs) ht).clean a x hx).1

/-- **no_false_death**: for every cluster size and configuration with `2·δ < half + susp`, every
    initial probe order and start offset, every detector, and every timely action sequence (probe
    ticks, deliveries, timeouts, crashes in any order), the Spec predicate `noDeadLive` holds of
    every node's row in the reached state. -/
theorem no_false_death (c : Cfg) (δ : Nat) (hδ : Spec.boundOk δ c.half c.susp = true) (det : D)
    (orders : List (List Nat)) (offs : List Nat) (acts : List Act)
    (ht : timelyRun c δ (Sys.init c det orders offs) acts = true) (a : Nat) :
    Spec.noDeadLive (run c (Sys.init c det orders offs) acts).crashed a
      (obsRow c.n (run c (Sys.init c det orders offs) acts) a) = true := by
  have hδ' : 2 * δ < c.half + c.susp := by simpa [Spec.boundOk] using hδ
  unfold Spec.noDeadLive obsRow
  rw [List.all_eq_true]
  intro x hx
  have hxn : x < c.n := by simpa using hx
  rw [lget_map_range _ _ _ _ hxn]
  by_cases hc : lget false (run c (Sys.init c det orders offs) acts).crashed x = true
  · simp [hc]
  · have hv := no_false_death_view c δ hδ' det orders offs acts ht a x (by simpa [Sys.isCrashed] using hc)
    simp [hv]

instance : Detector Unit := ⟨fun _ _ => (), fun _ _ => true⟩

/-- non-vacuity: a 3-node run in which a probe, its ping and its ack happen under `δ = 2` is timely,
    the bound holds, and messages really were exchanged -/
example :
    let c : Cfg := ⟨3, 10, 5, 5, 3, true⟩
    let acts := [Act.tick 0 10 [], .tick 1 10 [], .deliver 0 11, .deliver 1 12, .deliver 2 13,
                 .deliver 3 14, .crash 2 14]
    Spec.boundOk 2 c.half c.susp = true ∧
    timelyRun c 2 (Sys.init c () [[1, 2], [0, 2], [0, 1]] [0, 0, 0]) acts = true ∧
    (run c (Sys.init c () [[1, 2], [0, 2], [0, 1]] [0, 0, 0]) acts).nextId = 4 ∧
    (run c (Sys.init c () [[1, 2], [0, 2], [0, 1]] [0, 0, 0]) acts).soup = [] := by decide

/-! ### clause 3 -/

def obsCell (s : Sys D) (a x : Nat) : Spec.Cell := ⟨s.view a x, ((s.node a).member x).inc⟩

/-- **dead_not_revived_without_incarnation**: across any action list (no hypothesis on timing) -/
theorem dead_not_revived_without_incarnation (c : Cfg) (s : Sys D) (acts : List Act) (a x : Nat) :
    Spec.reviveOk (obsCell s a x) (obsCell (run c s acts) a x) = true := by
  have h := srev_run c s acts a x
  unfold Spec.reviveOk obsCell Sys.view Node.view
  simp only [Bool.not_eq_true', Bool.and_eq_false_imp, Bool.and_eq_true, beq_iff_eq, decide_eq_false_iff_not,
    Nat.not_le, and_imp]
  intro hd ha
  exact h.2 hd (by rw [ha]; simp)

/-- non-vacuity: a DEAD cell does come back with a higher incarnation (and only then) -/
example : (applyToMember (⟨.dead, 0, ()⟩ : Member Unit) ⟨1, .alive, 1⟩).st = .alive ∧
    (applyToMember (⟨.dead, 1, ()⟩ : Member Unit) ⟨1, .alive, 1⟩).st = .dead := by decide

/-! ### clause 4 -/

/-- **phi_monotone** -/
theorem phi_monotone (F : PhiFns) (d : QDet) (H : PhiHyp F d.ivs) (ts : List Nat)
    (hs : ts.Pairwise (· ≤ ·)) :
    Spec.nondecreasing (fun a b => decide (PV.le a b)) (ts.map (d.phi F)) = true :=
  phi_samples_nondecreasing F d H ts hs

def exF : PhiFns :=
  { tail := fun y => if y ≤ 0 then 100 else 100 - y, nlog := fun p => 100 - p,
    mean := fun _ => 3, sd := fun _ => 2, scale := 10 }

/-- non-vacuity: the hypotheses are satisfiable, phi takes several values incl. `+∞` -/
example : PhiHyp exF [3] :=
  ⟨by decide,
   by intro y1 y2 h; simp only [exF]; split <;> split <;> omega,
   by intro p1 p2 _ h; simp only [exF]; omega,
   by intro y; simp only [exF]; split <;> omega⟩

example : ((({ last := some 0, ivs := [3] } : QDet).phi exF 2, ({ last := some 0, ivs := [3] } : QDet).phi exF 5,
    ({ last := some 0, ivs := [3] } : QDet).phi exF 40)) = (.fin 0, .fin 10, .inf) := by decide

/-! ### clause 2 -/

/-- **failure_detected_partial** (repaired handler): if the ack timeout of a probe of `x` fires at
    the live node `a` (the probe went un-acked), then after any further actions during which
    nothing from `x` and no "alive" update about `x` is delivered to `a`, node `a` does not report
    `x` ALIVE. -/
theorem failure_detected_partial (c : Cfg) (hfix : c.fix = true) (s : Sys D) (a x now : Nat)
    (shuf : List Nat) (acts : List Act) (ha : s.isCrashed a = false)
    (hp : (s.node a).pendOf x = some ⟨.ind, now⟩)
    (hq : QuietRun c a x (step c s (.timeout a x now shuf)) acts) :
    (run c s (.timeout a x now shuf :: acts)).view a x ≠ .alive := by
  have h1 : NA x ((step c s (.timeout a x now shuf)).node a) := by
    simp only [step, ha, hp, Bool.false_eq_true, if_false, bne_self_eq_false]
    rw [node_commit_same]
    exact na_onIndTimeout_self c hfix a now x shuf _
  exact na_run c a x _ acts h1 hq

/-- **failure_detected_by_phi_partial** (both variants): the phi path.  *Assuming* the detector that
    `a` keeps for `x` is not available at a probe tick of `a` (this is where "phi exceeds the
    threshold after a bounded silence" enters — a hypothesis on the `Detector` parameter), `a` does
    not report `x` ALIVE after that tick nor after any further quiet run. -/
theorem failure_detected_by_phi_partial (c : Cfg) (s : Sys D) (a x now : Nat) (shuf : List Nat)
    (acts : List Act) (ha : s.isCrashed a = false) (htick : (s.node a).nextTick = now)
    (hx : x < c.n) (hxa : x ≠ a)
    (hav : Detector.avail ((s.node a).member x).det now = false)
    (hq : QuietRun c a x (step c s (.tick a now shuf)) acts) :
    (run c s (.tick a now shuf :: acts)).view a x ≠ .alive := by
  have h1 : NA x ((step c s (.tick a now shuf)).node a) := by
    simp only [step, ha, htick, Bool.false_or, bne_self_eq_false, Bool.false_eq_true, if_false]
    rw [node_commit_same]
    exact na_onTick_unavailable c a now x shuf _ hx hxa hav
  exact na_run c a x _ acts h1 hq

/-- a detector that is unavailable from time 12 on: the tick at 20 suspects member 2 -/
instance : Detector Nat := ⟨fun d _ => d, fun d now => decide (now < d)⟩

example :
    let c : Cfg := ⟨3, 10, 5, 50, 3, false⟩
    let s := run c (Sys.init c (12 : Nat) [[1, 2], [0, 2], [0, 1]] [0, 0, 0]) [.tick 0 10 []]
    s.isCrashed 0 = false ∧ (s.node 0).nextTick = 20 ∧
    Detector.avail ((s.node 0).member 2).det 20 = false ∧ s.view 0 2 = .alive ∧
    (run c s [.tick 0 20 []]).view 0 2 = .suspect := by decide

/-- the full clause, not proved: a bound in probe ticks after the crash.  Missing: (i) that after
    `crash + δ` the schedule is `QuietRun` for `x` (needs the invariant "no alive update exists"),
    (ii) the round-robin argument that `a` probes `x` within `detectTicks n k` ticks. -/
def failure_detected_full : Prop :=
  ∀ (c : Cfg) (δ : Nat) (det : Unit) (orders : List (List Nat)) (offs : List Nat) (acts : List Act)
    (a x cx : Nat),
    c.fix = true → Spec.boundOk δ c.half c.susp = true →
    timelyRun c δ (Sys.init c det orders offs) acts = true →
    let s := run c (Sys.init c det orders offs) acts
    s.isCrashed a = false → s.isCrashed x = true →
    s.now > Spec.detectDeadline c.n c.n c.interval c.half δ cx → s.view a x ≠ .alive

/-- non-vacuity of `failure_detected_partial`, and the clause does real work: node 2 crashed at
    time 0, node 0 probes it at 10, the ack timeout fires at 15: SUSPECT under the repaired handler -/
example :
    let c : Cfg := ⟨3, 10, 5, 5, 3, true⟩
    let s := run c (Sys.init c () [[2, 1], [0, 2], [0, 1]] [0, 0, 0]) [.crash 2 0, .tick 0 10 []]
    s.isCrashed 0 = false ∧ (s.node 0).pendOf 2 = some ⟨.ind, 15⟩ ∧
    (run c s [.timeout 0 2 15 [1], .deliver 1 16, .timeout 0 2 20 []]).view 0 2 = .dead := by decide

/-- **witness for the pinned code** (`fix = false`): the same schedule leaves the crashed member
    ALIVE — the probe went un-acked, the suspicion timer fired, nothing happened. -/
theorem current_unacked_probe_keeps_alive :
    let c : Cfg := ⟨3, 10, 5, 5, 3, false⟩
    (run c (Sys.init c () [[2, 1], [0, 2], [0, 1]] [0, 0, 0])
      [.crash 2 0, .tick 0 10 [], .timeout 0 2 15 [1], .deliver 1 16, .timeout 0 2 20 []]).view 0 2
      = .alive := by decide

end HappyModel.C13
