import HappyProofs.C13.DetectK
/-!
C13 clause 2, full form: "if a member stops responding for good, every other live member stops
reporting it ALIVE within a bounded number of probe rounds".

Hypotheses on the action list (all decidable, all about the schedule, none about the protocol):
* `monoRun` — action times do not decrease;
* `timelyRun δ` — nothing in flight is older than `δ`, no partition is active;
* `punctualRun a` — the observer's own events are not skipped: an action at time `t` finds no probe
  tick and no armed timer of `a` due before `t`; a probe tick of `a` that starts a new pass is handed
  a permutation of the list it shuffles (any permutation);
* `orderOk` — the probe order handed to `start()` is a permutation of the other members (any).

* `crash_yields_quiet_run` — part (a): after `crash x` at `cx`, before every action later than
  `cx + δ` nothing from `x` and no "alive" update about `x` is in flight towards anybody.
* `round_robin_reaches` — part (b): at every probe tick of `a`, for every permutation the oracle may
  return, either the ack timer for `x` is armed (x is the target) or the tick budget `pot` drops by
  one; `pot ≤ 2(n-1) + (n-1)(k-1)`, and it does not grow in between (`round_robin_between`).
* `failure_detected_full` — the bound `Spec.detectDeadline n n` (no hypothesis relating `δ` to the
  timeouts); `failure_detected_within_crashes` — with `2·δ < half + susp` the bound
  `Spec.detectDeadline n k`, `k` = number of nodes down at the end of the run, which is what the judge
  applies; `failure_detected_row` — that bound as the judge's clause `Spec.detectedRow` on the
  observed row of a live node.
-/
set_option linter.unusedSectionVars false
set_option linter.unusedSimpArgs false
namespace HappyModel.C13
variable {D : Type} [Inhabited D] [Detector D]

/-- the probe order handed to `start()` is a permutation of the other members -/
def orderOk (n a : Nat) (l : List Nat) : Bool :=
  decide (l.Perm ((List.range n).filter (isMember n a)))

theorem snoalive_init (c : Cfg) (det : D) (orders : List (List Nat)) (offs : List Nat) :
    SNoAlive (Sys.init c det orders offs) := by
  refine ⟨fun b => ?_, fun m hm => ?_⟩
  · rw [(init_node c det orders offs b).2.2]; exact NAl.nil
  · simp [Sys.init] at hm

theorem ginv_init (c : Cfg) (det : D) (orders : List (List Nat)) (offs : List Nat) (a T0 : Nat)
    (ha : a < c.n) (ho : orderOk c.n a (lget [] orders a) = true) (hoff : lget 0 offs a ≤ T0) :
    GInv c a T0 (Sys.init c det orders offs) := by
  have hperm : (lget [] orders a).Perm ((List.range c.n).filter (isMember c.n a)) := by
    simpa [orderOk] using ho
  refine ⟨snoalive_init c det orders offs, fun m hm => by simp [Sys.init] at hm, ?_, ?_⟩
  · rw [init_node_eq c det orders offs a ha]
    refine ⟨?_, fun y hy _ => ?_⟩
    · exact hperm.nodup_iff.mpr (List.Nodup.sublist List.filter_sublist List.nodup_range)
    · refine hperm.mem_iff.mpr (List.mem_filter.mpr ⟨?_, hy⟩)
      simp only [isMember, Bool.and_eq_true, decide_eq_true_eq] at hy
      simpa using hy.2
  · rw [init_node_eq c det orders offs a ha]
    show lget 0 offs a + c.interval ≤ _
    omega

/-- **crash_yields_quiet_run** (part a).  For every cluster, initial probe orders and offsets, every
    action list `pre ++ crash x cx :: post` that is time-monotone up to the crash and timely: before
    every action of `post` later than `cx + δ`, no message from `x` and no "alive" update about `x`
    is in flight towards `a` (`QuietTo`) — whatever `a`; so the part of `post` later than `cx + δ` is a
    `QuietRun`, the hypothesis of `failure_detected_partial`. -/
theorem crash_yields_quiet_run (c : Cfg) (δ : Nat) (det : D) (orders : List (List Nat))
    (offs : List Nat) (pre post : List Act) (a x cx : Nat)
    (hm : monoRun c (Sys.init c det orders offs) (pre ++ [.crash x cx]) = true)
    (ht : timelyRun c δ (Sys.init c det orders offs) (pre ++ .crash x cx :: post) = true) :
    QuietAfter c a x (cx + δ) (run c (Sys.init c det orders offs) (pre ++ [.crash x cx])) post := by
  rw [monoRun_append, Bool.and_eq_true] at hm
  rw [timelyRun_append, Bool.and_eq_true] at ht
  have hN := snoalive_run c _ pre (snoalive_init c det orders offs)
  have hS := sentle_run c _ pre hm.1 (fun m hm => by simp [Sys.init] at hm)
  have hnow : (run c (Sys.init c det orders offs) pre).now ≤ cx := by
    have := hm.2
    simp only [monoRun, Bool.and_eq_true, decide_eq_true_eq] at this
    exact this.1
  rw [run_append]
  exact crash_quiet_core c δ _ post a x cx hN hS hnow ht.2

/-- the late part of such a run is a `QuietRun` -/
theorem quiet_run_after_crash (c : Cfg) (a x T : Nat) (s : Sys D) (acts : List Act)
    (hq : QuietAfter c a x T s acts) (hl : ∀ act ∈ acts, T < act.time) : QuietRun c a x s acts :=
  quietRun_of_after c a x T s acts hq hl

/-- **round_robin_reaches** (part b, the probe tick).  Node `a` of an `n`-cluster with a duplicate-free
    probe order containing every non-DEAD member; `x` a member.  For every permutation the oracle
    may return when a new pass starts: after the tick the order is again such, the next tick is one
    interval later, and if `x` is still not DEAD (and at least `n - k` members are not), either the
    ack timer of a probe of `x` is armed for `now + half`, or the budget `pot` is one smaller.  The
    budget never exceeds `2(n-1) + (n-1)((n-1) - (n-k))`. -/
theorem round_robin_reaches (c : Cfg) (k a now x : Nat) (shuf : List Nat) (nd : Node D) (ha : a < c.n)
    (hxm : isMember c.n a x = true) (hO : OrdInv c.n a nd)
    (hsh : (aliveOrder c.n a (phiCheck c.n a now nd)).length ≤ nd.pidx →
      shuf.Perm (aliveOrder c.n a (phiCheck c.n a now nd))) :
    pot c.n k a x nd ≤ 2 * (c.n - 1) + (c.n - 1) * ((c.n - 1) - (c.n - k)) ∧
    OrdInv c.n a (onTick c a now shuf nd).1 ∧
    (onTick c a now shuf nd).1.nextTick = now + c.interval ∧
    ((onTick c a now shuf nd).1.view x ≠ .dead →
      c.n - k ≤ (aliveOrder c.n a (onTick c a now shuf nd).1).length →
      ((onTick c a now shuf nd).1.pendOf x = some ⟨.ind, now + c.half⟩ ∨
        pot c.n k a x (onTick c a now shuf nd).1 + 1 ≤ pot c.n k a x nd)) :=
  ⟨pot_le c.n k a x ha nd hO.nodup, ordInv_onTick c a now shuf nd hO hsh,
   pot_onTick c k a now x shuf nd ha hxm hO hsh⟩

/-- **round_robin_between** (part b, between ticks).  A handler that keeps order, index and next tick
    and never revives a DEAD member (`Keep`: ping, ack, both timeouts, with no "alive" update in the
    message) does not increase the budget, however many members it turns DEAD. -/
theorem round_robin_between (c : Cfg) (k a x : Nat) (ha : a < c.n) {nd nd' : Node D} (hk : Keep nd nd')
    (hO : OrdInv c.n a nd) (hx : x ∈ aliveOrder c.n a nd')
    (hmin : c.n - k ≤ (aliveOrder c.n a nd').length) :
    pot c.n k a x nd' ≤ pot c.n k a x nd ∧ OrdInv c.n a nd' :=
  ⟨pot_keep c.n k a x ha hk hO hx hmin, ordInv_keep c.n a hk hO⟩

/-- **failure_detected_full**.  Repaired handler, ack timeout shorter than the probe interval.  For
    every cluster size, every initial probe order (a permutation of the other members), every start
    offset of the observer not later than `cx + δ`, every shuffle, every time-monotone, timely
    (`δ`), punctual action list in which `x` crashes at `cx`: once an action later than
    `cx + δ + ((n+1)(n-1)+2)·interval + half` has happened, a node `a` that is still up does not
    report `x` ALIVE. -/
theorem failure_detected_full (c : Cfg) (δ : Nat) (det : D) (orders : List (List Nat)) (offs : List Nat)
    (pre post : List Act) (a x cx : Nat)
    (hfix : c.fix = true) (hiv : c.half < c.interval) (ha : a < c.n) (hx : x < c.n) (hax : x ≠ a)
    (ho : orderOk c.n a (lget [] orders a) = true) (hoff : lget 0 offs a ≤ cx + δ)
    (hm : monoRun c (Sys.init c det orders offs) (pre ++ .crash x cx :: post) = true)
    (ht : timelyRun c δ (Sys.init c det orders offs) (pre ++ .crash x cx :: post) = true)
    (hp : punctualRun c a (Sys.init c det orders offs) (pre ++ .crash x cx :: post) = true)
    (hlive : (run c (Sys.init c det orders offs) (pre ++ .crash x cx :: post)).isCrashed a = false)
    (hlate : Spec.detectDeadline c.n c.n c.interval c.half δ cx <
      (run c (Sys.init c det orders offs) (pre ++ .crash x cx :: post)).now) :
    (run c (Sys.init c det orders offs) (pre ++ .crash x cx :: post)).view a x ≠ .alive :=
  detect_core c c.n δ _ pre post a x cx ⟨hfix, hiv, ha, hx, hax⟩ (by omega)
    (ginv_init c det orders offs a (cx + δ) ha ho hoff) hm ht hp (lminRun_full c a x _ post) hlive hlate

/-- **failure_detected_within_crashes**: the same with the bound the judge applies.  If moreover
    `2·δ < half + susp` (so that only crashed members are ever DEAD — `no_false_death`), the deadline
    is `cx + δ + ((k+1)(n-1)+2)·interval + half` with `k` the number of nodes that are down at the end
    of the run. -/
theorem failure_detected_within_crashes (c : Cfg) (δ : Nat) (det : D) (orders : List (List Nat))
    (offs : List Nat) (pre post : List Act) (a x cx : Nat)
    (hfix : c.fix = true) (hiv : c.half < c.interval) (ha : a < c.n) (hx : x < c.n) (hax : x ≠ a)
    (hδ : Spec.boundOk δ c.half c.susp = true)
    (ho : orderOk c.n a (lget [] orders a) = true) (hoff : lget 0 offs a ≤ cx + δ)
    (hm : monoRun c (Sys.init c det orders offs) (pre ++ .crash x cx :: post) = true)
    (ht : timelyRun c δ (Sys.init c det orders offs) (pre ++ .crash x cx :: post) = true)
    (hp : punctualRun c a (Sys.init c det orders offs) (pre ++ .crash x cx :: post) = true)
    (hlive : (run c (Sys.init c det orders offs) (pre ++ .crash x cx :: post)).isCrashed a = false)
    (hlate : Spec.detectDeadline c.n
        (crashedCount c (run c (Sys.init c det orders offs) (pre ++ .crash x cx :: post)))
        c.interval c.half δ cx <
      (run c (Sys.init c det orders offs) (pre ++ .crash x cx :: post)).now) :
    (run c (Sys.init c det orders offs) (pre ++ .crash x cx :: post)).view a x ≠ .alive := by
  have hδ' : 2 * δ < c.half + c.susp := by simpa [Spec.boundOk] using hδ
  have G0 := ginv_init c det orders offs a (cx + δ) ha ho hoff
  have hsplit : pre ++ .crash x cx :: post = (pre ++ [.crash x cx]) ++ post := by simp
  have hm' := hm
  have ht' := ht
  have hp' := hp
  rw [hsplit, monoRun_append, Bool.and_eq_true] at hm'
  rw [hsplit, timelyRun_append, Bool.and_eq_true] at ht'
  rw [hsplit, punctualRun_append, Bool.and_eq_true] at hp'
  have I1 := inv_run c δ hδ' _ (pre ++ [.crash x cx]) (inv_init c δ det orders offs) ht'.1
  have G1 := ginv_run c a (cx + δ) _ (pre ++ [.crash x cx]) G0 hm'.1 hp'.1
  have hxc : (run c (Sys.init c det orders offs) (pre ++ [.crash x cx])).isCrashed x = true := by
    rw [run_append]; exact crash_crashes c _ x cx
  have hfin : run c (Sys.init c det orders offs) (pre ++ .crash x cx :: post) =
      run c (run c (Sys.init c det orders offs) (pre ++ [.crash x cx])) post := by
    rw [hsplit, run_append]
  have hlive' := hlive
  rw [hfin] at hlive'
  have hL := lminRun_crashes c δ hδ' a x (cx + δ) ha hx hax _ post I1 G1 hxc hm'.2 ht'.2 hp'.2 hlive'
  rw [← hfin] at hL
  have hk : 1 ≤ crashedCount c (run c (Sys.init c det orders offs) (pre ++ .crash x cx :: post)) := by
    unfold crashedCount
    apply List.countP_pos_iff.mpr
    refine ⟨x, by simpa using hx, ?_⟩
    rw [hfin]
    exact crashed_run c _ post x hxc
  exact detect_core c _ δ _ pre post a x cx ⟨hfix, hiv, ha, hx, hax⟩ hk G0 hm ht hp hL hlive hlate

/-- **failure_detected_row**: clause 2 as the judge evaluates it (`Spec.detectedRow` with `k` = number
    of nodes down) on the row a live node `a` reports in the reached state: every member whose crash
    (`crashAt x = some cx`, an action `crash x cx` of the list) is older than the deadline is not
    reported ALIVE. -/
theorem failure_detected_row (c : Cfg) (δ : Nat) (det : D) (orders : List (List Nat)) (offs : List Nat)
    (acts : List Act) (a : Nat) (crashAt : List (Option Nat))
    (hfix : c.fix = true) (hiv : c.half < c.interval) (ha : a < c.n)
    (hδ : Spec.boundOk δ c.half c.susp = true)
    (ho : orderOk c.n a (lget [] orders a) = true)
    (hcr : ∀ x cx, x < c.n → lget none crashAt x = some cx →
      lget 0 offs a ≤ cx + δ ∧ ∃ pre post, acts = pre ++ .crash x cx :: post)
    (hm : monoRun c (Sys.init c det orders offs) acts = true)
    (ht : timelyRun c δ (Sys.init c det orders offs) acts = true)
    (hp : punctualRun c a (Sys.init c det orders offs) acts = true)
    (hlive : (run c (Sys.init c det orders offs) acts).isCrashed a = false) :
    Spec.detectedRow c.n (crashedCount c (run c (Sys.init c det orders offs) acts)) c.interval c.half δ
      crashAt a (run c (Sys.init c det orders offs) acts).now
      (obsRow c.n (run c (Sys.init c det orders offs) acts) a) = true := by
  unfold Spec.detectedRow
  rw [List.all_eq_true]
  intro x hx
  have hxn : x < c.n := by simpa [obsRow] using hx
  by_cases hxa : x = a
  · simp [hxa]
  · cases hc : lget none crashAt x with
    | none => simp
    | some cx =>
      simp only [Bool.or_eq_true, beq_iff_eq, hxa, false_or, decide_eq_true_eq, bne_iff_ne, ne_eq]
      by_cases hl : (run c (Sys.init c det orders offs) acts).now ≤
          Spec.detectDeadline c.n (crashedCount c (run c (Sys.init c det orders offs) acts))
            c.interval c.half δ cx
      · exact Or.inl hl
      · right
        obtain ⟨hoff, pre, post, hacts⟩ := hcr x cx hxn hc
        subst hacts
        unfold obsRow
        rw [lget_map_range _ _ _ _ hxn]
        exact failure_detected_within_crashes c δ det orders offs pre post a x cx hfix hiv ha hxn hxa
          hδ ho hoff hm ht hp hlive (by omega)

/-! ### non-vacuity -/

instance : Detector Unit := ⟨fun _ _ => (), fun _ _ => true⟩

def exC2 : Cfg := ⟨2, 10, 5, 5, 3, true⟩
/-- a pair; node 1 crashes at 0; node 0 probes it at 10, the ping is dropped at the crashed node, the
    ack timeout fires at 15, the suspicion timeout at 20; ticks up to 60 (deadline 56 for `δ = 1`) -/
def exActs2 : List Act :=
  [.tick 0 10 [1], .deliver 0 11, .timeout 0 1 15 [], .timeout 0 1 20 [], .tick 0 20 [],
   .tick 0 30 [], .tick 0 40 [], .tick 0 50 [], .tick 0 60 []]

/-- every hypothesis of `failure_detected_full` / `failure_detected_within_crashes` holds of this run
    (one node down: `k = 1`, deadline 46; `k = n = 2`: 56), and the member is indeed DEAD -/
example :
    orderOk exC2.n 0 (lget [] [[1], [0]] 0) = true ∧ Spec.boundOk 1 exC2.half exC2.susp = true ∧
    monoRun exC2 (Sys.init exC2 () [[1], [0]] [0, 0]) ([] ++ .crash 1 0 :: exActs2) = true ∧
    timelyRun exC2 1 (Sys.init exC2 () [[1], [0]] [0, 0]) ([] ++ .crash 1 0 :: exActs2) = true ∧
    punctualRun exC2 0 (Sys.init exC2 () [[1], [0]] [0, 0]) ([] ++ .crash 1 0 :: exActs2) = true ∧
    (run exC2 (Sys.init exC2 () [[1], [0]] [0, 0]) ([] ++ .crash 1 0 :: exActs2)).isCrashed 0 = false ∧
    crashedCount exC2 (run exC2 (Sys.init exC2 () [[1], [0]] [0, 0]) ([] ++ .crash 1 0 :: exActs2)) = 1 ∧
    Spec.detectDeadline exC2.n exC2.n exC2.interval exC2.half 1 0 <
      (run exC2 (Sys.init exC2 () [[1], [0]] [0, 0]) ([] ++ .crash 1 0 :: exActs2)).now ∧
    (run exC2 (Sys.init exC2 () [[1], [0]] [0, 0]) ([] ++ .crash 1 0 :: exActs2)).view 0 1 = .dead := by
  decide

def exC3 : Cfg := ⟨3, 10, 5, 5, 3, true⟩
def exS3 : Sys Unit := Sys.init exC3 () [[1, 2], [0, 2], [0, 1]] [0, 0, 0]
/-- three nodes: node 0 probes node 1 (ping, ack), then node 2 crashes at 13 -/
def exPre3 : List Act := [.tick 0 10 [], .deliver 0 11, .deliver 1 12]
/-- node 0's next tick reaches node 2 in the round-robin order: ping dropped, ack timeout with
    delegate 1 (indirect ping, ack of the delegate), suspicion timeout; the next pass is a shuffle of
    the one member left -/
def exPost3 : List Act :=
  [.tick 0 20 [], .deliver 2 21, .timeout 0 2 25 [1], .deliver 3 26, .deliver 4 27,
   .timeout 0 2 30 [], .tick 0 30 [1], .deliver 5 31, .deliver 6 32]

/-- the schedule hypotheses hold of a run with real traffic; after the crash node 0 still reports
    node 2 ALIVE until its ack timeout, then SUSPECT, then DEAD; the new probe order is `[1]` -/
example :
    orderOk exC3.n 0 (lget [] [[1, 2], [0, 2], [0, 1]] 0) = true ∧
    monoRun exC3 exS3 (exPre3 ++ .crash 2 13 :: exPost3) = true ∧
    timelyRun exC3 1 exS3 (exPre3 ++ .crash 2 13 :: exPost3) = true ∧
    punctualRun exC3 0 exS3 (exPre3 ++ .crash 2 13 :: exPost3) = true ∧
    (run exC3 exS3 (exPre3 ++ .crash 2 13 :: exPost3)).isCrashed 0 = false ∧
    (run exC3 exS3 (exPre3 ++ .crash 2 13 :: exPost3.take 2)).view 0 2 = .alive ∧
    (run exC3 exS3 (exPre3 ++ .crash 2 13 :: exPost3.take 3)).view 0 2 = .suspect ∧
    (run exC3 exS3 (exPre3 ++ .crash 2 13 :: exPost3)).view 0 2 = .dead ∧
    (run exC3 exS3 (exPre3 ++ .crash 2 13 :: exPost3)).soup = [] ∧
    ((run exC3 exS3 (exPre3 ++ .crash 2 13 :: exPost3)).node 0).order = [1] := by decide

/-- `punctualRun` is not vacuous: skipping the ack timeout (the action at 30 finds the timer of 25
    overdue), or handing the new pass something that is not a permutation, is rejected -/
example :
    punctualRun exC3 0 exS3 (exPre3 ++ [.crash 2 13, .tick 0 20 [], .deliver 2 21, .tick 0 30 []]) = false ∧
    punctualRun exC3 0 exS3 (exPre3 ++ .crash 2 13 :: (exPost3.take 6 ++ [.tick 0 30 [2]])) = false := by
  decide

/-- `round_robin_reaches` on a concrete node: order `[1, 2]`, index 1 — the budget for member 2 is 1
    tick (plus one pass per member that may still be lost), for member 1 it is a whole pass more -/
example :
    let nd : Node Unit := { Node.init exC3 () [1, 2] 0 with pidx := 1 }
    aliveOrder 3 0 nd = [1, 2] ∧ pot 3 1 0 2 nd = 1 ∧ pot 3 1 0 1 nd = 3 ∧ pot 3 3 0 2 nd = 5 ∧
    (onTick exC3 0 10 [] nd).1.pendOf 2 = some ⟨.ind, 15⟩ ∧
    pot 3 1 0 1 (onTick exC3 0 10 [] nd).1 = 2 := by decide

example : OrdInv 3 0 ({ Node.init exC3 () [1, 2] 0 with pidx := 1 } : Node Unit) := by
  refine ⟨by decide, fun y hy _ => ?_⟩
  simp only [isMember, Bool.and_eq_true, bne_iff_ne, ne_eq, decide_eq_true_eq] at hy
  have : y = 1 ∨ y = 2 := by omega
  rcases this with rfl | rfl <;> decide

end HappyModel.C13
