import HappyProofs.C13.RoundRobin
/-!
Part (b) of the detection bound, system level, and the assembly.

Schedule hypotheses for the observer `a` (`punctualRun`): no probe tick and no armed timer of `a` is
skipped (an action at time `t` finds `t ≤ nextTick` and `t ≤ fire` for every armed timer — the
engine delivers events in time order), and what the oracle returns for `random.shuffle(alive)` is a
permutation of that list.

`Q`: as long as `a` reports `x` ALIVE, either (phase 1) the next tick plus `pot` intervals lies
before `B`, or (phase 2) the ack timer of a probe of `x` is armed for a time `≤ B + half`, before the
next tick.  Preserved by every action once `x` has fallen silent; an action later than `B + half`
therefore finds `x` not ALIVE.
-/
set_option linter.unusedSectionVars false
set_option linter.unusedSimpArgs false
namespace HappyModel.C13
variable {D : Type} [Inhabited D] [Detector D]

/-! ### schedule hypotheses -/

/-- nothing of node `a` is overdue at time `t` -/
def dueOk (c : Cfg) (s : Sys D) (a t : Nat) : Bool :=
  decide (t ≤ (s.node a).nextTick) &&
  (List.range c.n).all fun x =>
    match (s.node a).pendOf x with
    | none => true
    | some tm => decide (t ≤ tm.fire)

/-- a probe tick of `a` that starts a new pass is handed a permutation of the list it shuffles -/
def shufOk (c : Cfg) (s : Sys D) (a : Nat) : Act → Bool
  | .tick b now shuf =>
    b != a || decide ((aliveOrder c.n a (phiCheck c.n a now (s.node a))).length ≤ (s.node a).pidx →
      shuf.Perm (aliveOrder c.n a (phiCheck c.n a now (s.node a))))
  | _ => true

def punctualRun (c : Cfg) (a : Nat) : Sys D → List Act → Bool
  | _, [] => true
  | s, act :: rest =>
    (s.isCrashed a || dueOk c s a act.time) && shufOk c s a act && punctualRun c a (step c s act) rest

theorem shufOk_tick {c : Cfg} {s : Sys D} {a now : Nat} {shuf : List Nat}
    (h : shufOk c s a (.tick a now shuf) = true) :
    (aliveOrder c.n a (phiCheck c.n a now (s.node a))).length ≤ (s.node a).pidx →
      shuf.Perm (aliveOrder c.n a (phiCheck c.n a now (s.node a))) := by
  intro hle
  have h' : (s.node a).pidx < (aliveOrder c.n a (phiCheck c.n a now (s.node a))).length ∨
      shuf.Perm (aliveOrder c.n a (phiCheck c.n a now (s.node a))) := by simpa [shufOk] using h
  rcases h' with h1 | h1
  · omega
  · exact h1

theorem dueOk_tick {c : Cfg} {s : Sys D} {a t : Nat} (h : dueOk c s a t = true) :
    t ≤ (s.node a).nextTick := by
  simp only [dueOk, Bool.and_eq_true, decide_eq_true_eq] at h
  exact h.1

theorem dueOk_pend {c : Cfg} {s : Sys D} {a t x : Nat} (h : dueOk c s a t = true) (hx : x < c.n)
    (tm : Timer) (hp : (s.node a).pendOf x = some tm) : t ≤ tm.fire := by
  simp only [dueOk, Bool.and_eq_true, decide_eq_true_eq, List.all_eq_true, List.mem_range] at h
  have := h.2 x hx
  rw [hp] at this
  simpa using this

/-! ### what one action does to the node of `a` -/

inductive NodeStep (c : Cfg) (s : Sys D) (a now : Nat) (act : Act) : Node D → Prop
  | same : NodeStep c s a now act (s.node a)
  | tick (shuf : List Nat) (hact : act = .tick a now shuf) (hc : s.isCrashed a = false)
      (ht : (s.node a).nextTick = now) : NodeStep c s a now act (onTick c a now shuf (s.node a)).1
  | msg (m : Msg) (hm : m ∈ s.soup) (hd : m.dst = a) :
      NodeStep c s a now act (handleMsg c a now m (s.node a)).1
  | ind (y : Nat) (shuf : List Nat) (t : Timer) (hp : (s.node a).pendOf y = some t)
      (hk : t.kind = .ind) (hf : t.fire = now) :
      NodeStep c s a now act (onIndTimeout c a now y shuf (s.node a)).1
  | susp (y : Nat) (t : Timer) (hp : (s.node a).pendOf y = some t) (hk : t.kind = .susp)
      (hf : t.fire = now) : NodeStep c s a now act (onSuspTimeout y (s.node a))

theorem nodeStep (c : Cfg) (s : Sys D) (act : Act) (a : Nat) :
    NodeStep c s a act.time act ((step c s act).node a) := by
  cases act with
  | tick b now shuf =>
    simp only [step, Act.time]
    split
    · exact NodeStep.same
    · rename_i h
      have hc : s.isCrashed b = false := by cases hc : s.isCrashed b <;> simp_all
      have ht : (s.node b).nextTick = now := by cases hc : s.isCrashed b <;> simp_all
      by_cases hab : a = b
      · subst hab; rw [node_commit_same]; exact NodeStep.tick shuf rfl hc ht
      · rw [node_commit_other _ _ _ _ _ _ hab]; exact NodeStep.same
  | deliver id now =>
    simp only [step, Act.time]
    split
    · exact NodeStep.same
    · rename_i m hfind
      have hm : m ∈ s.soup := List.mem_of_find?_eq_some hfind
      split
      · exact NodeStep.same
      · by_cases hab : a = m.dst
        · subst hab; rw [node_commit_same]; exact NodeStep.msg m hm rfl
        · rw [node_commit_other _ _ _ _ _ _ hab]; exact NodeStep.same
  | timeout b y now shuf =>
    simp only [step, Act.time]
    split
    · exact NodeStep.same
    · split
      · exact NodeStep.same
      · rename_i t hp
        split
        · exact NodeStep.same
        · rename_i hf
          have hf' : t.fire = now := by simpa using hf
          split
          · rename_i hk
            by_cases hab : a = b
            · subst hab; rw [node_commit_same]; exact NodeStep.ind y shuf t hp hk hf'
            · rw [node_commit_other _ _ _ _ _ _ hab]; exact NodeStep.same
          · rename_i hk
            by_cases hab : a = b
            · subst hab; rw [node_commit_same]; exact NodeStep.susp y t hp hk hf'
            · rw [node_commit_other _ _ _ _ _ _ hab]; exact NodeStep.same
  | crash y now => exact NodeStep.same
  | cut h ga gb now => exact NodeStep.same
  | heal h now => exact NodeStep.same

/-! ### the phase invariant -/

/-- static facts about the observer `a` and the crashed member `x` -/
structure Ctx (c : Cfg) (a x : Nat) : Prop where
  fix : c.fix = true
  hiv : c.half < c.interval
  ha : a < c.n
  hx : x < c.n
  hax : x ≠ a

theorem Ctx.mem {c : Cfg} {a x : Nat} (h : Ctx c a x) : isMember c.n a x = true := by
  simp [isMember, h.hax, h.hx]

def Ph1 (c : Cfg) (k a x B : Nat) (nd : Node D) : Prop :=
  nd.nextTick + pot c.n k a x nd * c.interval ≤ B

def Ph2 (c : Cfg) (x B : Nat) (nd : Node D) : Prop :=
  ∃ f, nd.pendOf x = some ⟨.ind, f⟩ ∧ f ≤ B + c.half ∧ f < nd.nextTick

def Q (c : Cfg) (k a x B : Nat) (nd : Node D) : Prop :=
  ¬ NA x nd → Ph1 c k a x B nd ∨ Ph2 c x B nd

theorem alive_of_not_na {x : Nat} {nd : Node D} (h : ¬ NA x nd) : nd.view x = .alive :=
  Decidable.of_not_not h

/-- handlers that leave order, index and next tick alone -/
theorem q_keep (c : Cfg) (k a x B : Nat) (ctx : Ctx c a x) {nd nd' : Node D} (hk : Keep nd nd')
    (hna : NA x nd → NA x nd')
    (hpend : ∀ f, nd.pendOf x = some ⟨.ind, f⟩ → nd'.pendOf x = some ⟨.ind, f⟩)
    (hO : OrdInv c.n a nd) (hmin : nd'.view x = .alive → c.n - k ≤ (aliveOrder c.n a nd').length)
    (hQ : Q c k a x B nd) : Q c k a x B nd' := by
  intro hna'
  have hna0 : ¬ NA x nd := fun h => hna' (hna h)
  have hv' := alive_of_not_na hna'
  have hv0 := alive_of_not_na hna0
  rcases hQ hna0 with h1 | ⟨f, hp, hf1, hf2⟩
  · left
    have hx' : x ∈ aliveOrder c.n a nd' := by
      refine (mem_aliveOrder _ _ _ _).mpr ⟨?_, ctx.mem, by rw [hv']; simp⟩
      rw [hk.order]
      exact hO.all x ctx.mem (by rw [hv0]; simp)
    have hp := pot_keep c.n k a x ctx.ha hk hO hx' (hmin hv')
    have := Nat.mul_le_mul_right c.interval hp
    unfold Ph1 at *
    rw [hk.tick]
    omega
  · right
    exact ⟨f, hpend f hp, hf1, by rw [hk.tick]; exact hf2⟩

/-- the probe tick of `a` -/
theorem q_tick (c : Cfg) (k a x B now : Nat) (shuf : List Nat) (ctx : Ctx c a x) (nd : Node D)
    (ht : nd.nextTick = now) (hdue : ∀ t, nd.pendOf x = some t → now ≤ t.fire)
    (hsh : (aliveOrder c.n a (phiCheck c.n a now nd)).length ≤ nd.pidx →
      shuf.Perm (aliveOrder c.n a (phiCheck c.n a now nd)))
    (hO : OrdInv c.n a nd)
    (hmin : (onTick c a now shuf nd).1.view x = .alive →
      c.n - k ≤ (aliveOrder c.n a (onTick c a now shuf nd).1).length)
    (hQ : Q c k a x B nd) : Q c k a x B (onTick c a now shuf nd).1 := by
  intro hna'
  have hna0 : ¬ NA x nd := fun h => hna' (na_onTick c a now x shuf nd h)
  have hv' := alive_of_not_na hna'
  rcases hQ hna0 with h1 | ⟨f, hp, hf1, hf2⟩
  · obtain ⟨hnt, hcase⟩ := pot_onTick c k a now x shuf nd ctx.ha ctx.mem hO hsh
    unfold Ph1 at h1
    rcases hcase (by rw [hv']; simp) (hmin hv') with h | h
    · right
      refine ⟨now + c.half, h, ?_, ?_⟩
      · omega
      · rw [hnt]; have := ctx.hiv; omega
    · left
      have h2 := Nat.mul_le_mul_right c.interval h
      rw [Nat.add_mul, Nat.one_mul] at h2
      unfold Ph1
      rw [hnt]
      omega
  · have := hdue _ hp
    simp only at this
    omega

/-- one action, seen from node `a`, once `x` has fallen silent towards `a` -/
theorem q_nodeStep (c : Cfg) (k a x B now : Nat) (ctx : Ctx c a x) (s : Sys D) (act : Act) (nd' : Node D)
    (h : NodeStep c s a now act nd') (hN : SNoAlive s) (hq : QuietTo s a x)
    (hdue : s.isCrashed a = false → dueOk c s a now = true) (hsh : shufOk c s a act = true)
    (hO : OrdInv c.n a (s.node a))
    (hmin : nd'.view x = .alive → c.n - k ≤ (aliveOrder c.n a nd').length)
    (hQ : Q c k a x B (s.node a)) : Q c k a x B nd' := by
  cases h with
  | same => exact hQ
  | tick shuf hact hc ht =>
    have hd := hdue hc
    subst hact
    exact q_tick c k a x B now shuf ctx _ ht (fun t hp => dueOk_pend hd ctx.hx t hp)
      (shufOk_tick hsh) hO hmin hQ
  | msg m hm hd =>
    have hq' := hq m hm hd
    have hnal := hN.soup m hm
    refine q_keep c k a x B ctx (keep_handleMsg c a now m _ hnal) ?_ ?_ hO hmin hQ
    · intro hna
      unfold handleMsg
      cases m.kind
      · exact na_onPing c a now x m _ hna hq'.1 hq'.2
      · exact na_onAck c a now x m _ hna hq'.1 hq'.2
    · intro f hp
      unfold handleMsg
      cases m.kind
      · show (onPing c a now m (s.node a)).1.pendOf x = _
        rw [pendOf_onPing]; exact hp
      · show (onAck c a now m (s.node a)).1.pendOf x = _
        rw [onAck_pend]
        have : ¬ (isMember c.n a m.src = true ∧ x = m.src) := fun h => hq'.1 h.2.symm
        simp only [this, if_false]; exact hp
  | ind y shuf t hp hk hf =>
    by_cases hyx : y = x
    · subst hyx
      intro hna'
      exact absurd (na_onIndTimeout_self c ctx.fix a now y shuf (s.node a)) hna'
    · refine q_keep c k a x B ctx (keep_onIndTimeout c a now y shuf _)
        (na_onIndTimeout c a now x y shuf _) ?_ hO hmin hQ
      intro f hp'
      rw [onIndTimeout_pend]
      have : ¬ x = y := fun e => hyx e.symm
      simp only [this, if_false]; exact hp'
  | susp y t hp hk hf =>
    refine q_keep c k a x B ctx (keep_onSuspTimeout y _) (na_onSuspTimeout x y _) ?_ hO hmin hQ
    intro f hp'
    rw [onSuspTimeout_pend]
    by_cases hxy : x = y
    · subst hxy
      rw [hp] at hp'
      injection hp' with e
      rw [e] at hk; cases hk
    · simp only [hxy, if_false]; exact hp'

/-! ### invariants of the whole run (from the initial state) -/

structure GInv (c : Cfg) (a T0 : Nat) (s : Sys D) : Prop where
  noAlive : SNoAlive s
  sentLe : SentLe s
  ord : OrdInv c.n a (s.node a)
  next : (s.node a).nextTick ≤ max s.now T0 + c.interval

theorem ordInv_nodeStep (c : Cfg) (a now : Nat) (s : Sys D) (act : Act) (nd' : Node D)
    (h : NodeStep c s a now act nd') (hN : SNoAlive s) (hsh : shufOk c s a act = true)
    (hO : OrdInv c.n a (s.node a)) : OrdInv c.n a nd' := by
  cases h with
  | same => exact hO
  | tick shuf hact hc ht =>
    subst hact
    exact ordInv_onTick c a now shuf _ hO (shufOk_tick hsh)
  | msg m hm hd => exact ordInv_keep c.n a (keep_handleMsg c a now m _ (hN.soup m hm)) hO
  | ind y shuf t hp hk hf => exact ordInv_keep c.n a (keep_onIndTimeout c a now y shuf _) hO
  | susp y t hp hk hf => exact ordInv_keep c.n a (keep_onSuspTimeout y _) hO

theorem nextTick_nodeStep (c : Cfg) (a now : Nat) (s : Sys D) (act : Act) (nd' : Node D)
    (h : NodeStep c s a now act nd') (hN : SNoAlive s) :
    nd'.nextTick = (s.node a).nextTick ∨ nd'.nextTick = now + c.interval := by
  cases h with
  | same => exact Or.inl rfl
  | tick shuf hact hc ht => exact Or.inr (onTick_shape c a now 0 shuf _).2.2.2.1
  | msg m hm hd => exact Or.inl (keep_handleMsg c a now m _ (hN.soup m hm)).tick
  | ind y shuf t hp hk hf => exact Or.inl (keep_onIndTimeout c a now y shuf _).tick
  | susp y t hp hk hf => exact Or.inl (keep_onSuspTimeout y _).tick

theorem ginv_step (c : Cfg) (a T0 : Nat) (s : Sys D) (act : Act) (I : GInv c a T0 s)
    (hmono : s.now ≤ act.time) (hsh : shufOk c s a act = true) : GInv c a T0 (step c s act) := by
  have hst := step_rel c s act
  have hns := nodeStep c s act a
  refine ⟨snoalive_step c s _ _ hst I.noAlive, sentle_step c s _ _ hst hmono I.sentLe,
    ordInv_nodeStep c a _ s act _ hns I.noAlive hsh I.ord, ?_⟩
  rw [step_now c s _ _ hst]
  have := I.next
  rcases nextTick_nodeStep c a _ s act _ hns I.noAlive with h | h
  · rw [h]; omega
  · rw [h]; omega

end HappyModel.C13
