import HappyProofs.C13.SafetyInv
import HappyProofs.C13.Init
import HappyProofs.C13.Quiet
/-! `Inv` (the invariant behind `no_false_death`) holds initially and along every timely run. -/
set_option linter.unusedSectionVars false
namespace HappyModel.C13
variable {D : Type} [Inhabited D] [Detector D]

theorem inv_init (c : Cfg) (δ : Nat) (det : D) (orders : List (List Nat)) (offs : List Nat) :
    Inv c δ (Sys.init c det orders offs) := by
  refine ⟨rfl, ?_, ?_, ?_, ?_⟩
  · intro a x t hp; rw [(init_node c det orders offs a).1 x] at hp; cases hp
  · intro a x _
    refine ⟨by rw [(init_node c det orders offs a).2.1 x]; simp, ?_⟩
    rw [(init_node c det orders offs a).2.2]; exact hasDead_nil x
  · intro m hm; simp [Sys.init] at hm
  · intro a x t _ _ hp; rw [(init_node c det orders offs a).1 x] at hp; cases hp

/- `timelyRun c δ s acts` (defined in `Quiet.lean`): when an action happens at time `t`, every message
   still in flight was sent at most `δ` before `t` ("every sent message is delivered within δ"), and no
   partition is active afterwards (the network routes every message it is handed). -/

theorem inv_run (c : Cfg) (δ : Nat) (hδ : 2 * δ < c.half + c.susp) (s : Sys D) (acts : List Act)
    (I : Inv c δ s) (ht : timelyRun c δ s acts = true) : Inv c δ (run c s acts) := by
  induction acts generalizing s with
  | nil => exact I
  | cons act rest ih =>
    simp only [timelyRun, Bool.and_eq_true, List.all_eq_true, decide_eq_true_eq] at ht
    exact ih _ (inv_step c δ hδ s _ act.time I (fun m hm => ht.1.1 m hm) (step_rel c s act) ht.1.2) ht.2

end HappyModel.C13
