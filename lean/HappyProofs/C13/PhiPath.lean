import HappyProofs.C13.DetKeep
import HappyProofs.C13.PhiDetect
import HappyProofs.C13.PhiTick
import HappyProofs.C13.Init
/-!
Clause 2 through the phi path alone, for the concrete phi-accrual model (`QDet`, with `tail`, `nlog`,
`mean`, `sd` as parameters) in place of the abstract `Detector`: a live observer that has recorded a
heartbeat from `x` stops reporting `x` ALIVE one probe interval after `cx + δ + m + Y·max(m, min_std)`,
whatever the probe order does — the first probe tick after the silence finds the detector not
available and suspects `x`, and nothing brings ALIVE back.
-/
set_option linter.unusedSectionVars false
set_option linter.unusedSimpArgs false
namespace HappyModel.C13

/-- the phi-accrual detector of the exact model as a `Detector`: state `q`, threshold, and the
    function parameters -/
structure PhiDet where
  q : QDet := {}
  thr : PV := .fin 0
  F : PhiFns := ⟨fun _ => 0, fun _ => 0, fun _ => 0, fun _ => 1, 1⟩

instance : Inhabited PhiDet := ⟨{}⟩

/-- `heartbeat`; `is_available(now)` = `phi(now) < threshold` -/
instance : Detector PhiDet where
  hb d ts := { d with q := d.q.hb ts }
  avail d now := !decide (PV.le d.thr (d.q.phi d.F now))

/-- what is assumed of the parameters `mean`, `sd`: on a non-empty window whose entries are at most
    `m`, the mean is at most `m` and the deviation (after the `min_std` clamp) at most `max m minStd` -/
structure MeanSdBound (F : PhiFns) (m minStd : Nat) : Prop where
  mean_le : ∀ ivs : List Nat, ivs ≠ [] → (∀ v ∈ ivs, v ≤ m) → F.mean ivs ≤ (m : Int)
  sd_le : ∀ ivs : List Nat, ivs ≠ [] → (∀ v ∈ ivs, v ≤ m) → F.sd ivs ≤ ((max m minStd : Nat) : Int)

/-- the detector has a heartbeat between `l0` and `T` (and not in the future), a non-empty window
    with entries at most `m`, room for at least one entry, and the given parameters -/
structure DetInv (F : PhiFns) (thr : PV) (m l0 T now : Nat) (d : PhiDet) : Prop where
  hF : d.F = F
  hthr : d.thr = thr
  maxN : 1 ≤ d.q.maxN
  last : ∃ l, d.q.last = some l ∧ l0 ≤ l ∧ l ≤ T ∧ l ≤ now
  ne : 1 ≤ d.q.ivs.length
  le : ∀ v ∈ d.q.ivs, v ≤ m

theorem DetInv.mono {F : PhiFns} {thr : PV} {m l0 T now now' : Nat} {d : PhiDet}
    (h : DetInv F thr m l0 T now d) (hn : now ≤ now') : DetInv F thr m l0 T now' d := by
  obtain ⟨l, h1, h2, h3, h4⟩ := h.last
  exact ⟨h.hF, h.hthr, h.maxN, ⟨l, h1, h2, h3, by omega⟩, h.ne, h.le⟩

/-- a heartbeat at `ts ≤ T`, not before the previous one -/
theorem DetInv.hb {F : PhiFns} {thr : PV} {m l0 T now ts : Nat} {d : PhiDet}
    (h : DetInv F thr m l0 T now d) (hn : now ≤ ts) (hT : ts ≤ T) (hgap : T ≤ l0 + m) :
    DetInv F thr m l0 T ts (Detector.hb d ts) := by
  obtain ⟨l, h1, h2, h3, h4⟩ := h.last
  show DetInv F thr m l0 T ts { d with q := d.q.hb ts }
  unfold QDet.hb
  rw [h1]
  simp only []
  by_cases hlt : l < ts
  · simp only [hlt, if_true]
    refine ⟨h.hF, h.hthr, h.maxN, ⟨ts, rfl, by omega, hT, Nat.le_refl _⟩, ?_, ?_⟩
    · show 1 ≤ (if (d.q.ivs ++ [ts - l]).length > d.q.maxN then (d.q.ivs ++ [ts - l]).drop 1
        else d.q.ivs ++ [ts - l]).length
      have := h.maxN
      split
      · rename_i hgt; simp only [List.length_drop]; omega
      · simp
    · intro v hv
      have hv' : v ∈ d.q.ivs ++ [ts - l] := by
        have hv2 : v ∈ (if (d.q.ivs ++ [ts - l]).length > d.q.maxN then (d.q.ivs ++ [ts - l]).drop 1
            else d.q.ivs ++ [ts - l]) := hv
        split at hv2
        · exact List.mem_of_mem_drop hv2
        · exact hv2
      rcases List.mem_append.mp hv' with h5 | h5
      · exact h.le v h5
      · simp only [List.mem_singleton] at h5; omega
  · simp only [hlt, if_false]
    exact ⟨h.hF, h.hthr, h.maxN, ⟨ts, rfl, by omega, hT, Nat.le_refl _⟩, h.ne, h.le⟩

/-- after a silence of `m + Y·max(m, min_std)` past `T` the detector is not available -/
theorem DetInv.unavailable {F : PhiFns} {thr : PV} {m minStd Y l0 T now t : Nat} {d : PhiDet}
    (h : DetInv F thr m l0 T now d) (hH : ∀ ivs, PhiHyp F ivs) (hMS : MeanSdBound F m minStd)
    (hthr : PV.le thr (levelAt F Y)) (ht : T + (m + Y * max m minStd) ≤ t) :
    Detector.avail d t = false := by
  obtain ⟨l, h1, _, h3, _⟩ := h.last
  have hne : d.q.ivs ≠ [] := by
    intro e; have := h.ne; rw [e] at this; simp at this
  have hlev := phi_reaches_level F d.q (hH _) l m (max m minStd) Y t h1 h.ne
    (hMS.mean_le _ hne h.le) (hMS.sd_le _ hne h.le) (by omega)
  have := PV.le_trans hthr hlev
  show (!decide (PV.le d.thr (d.q.phi d.F t))) = false
  rw [h.hF, h.hthr]
  simp [this]

/-! ### schedule: the observer's probe ticks are not skipped -/

def tickDueRun {D : Type} [Inhabited D] [Detector D] (c : Cfg) (a : Nat) : Sys D → List Act → Bool
  | _, [] => true
  | s, act :: rest =>
    (s.isCrashed a || decide (act.time ≤ (s.node a).nextTick)) && tickDueRun c a (step c s act) rest

theorem tickDueRun_of_punctual {D : Type} [Inhabited D] [Detector D] (c : Cfg) (a : Nat) (s : Sys D)
    (acts : List Act) (h : punctualRun c a s acts = true) : tickDueRun c a s acts = true := by
  induction acts generalizing s with
  | nil => rfl
  | cons act rest ih =>
    simp only [punctualRun, Bool.and_eq_true, Bool.or_eq_true] at h
    simp only [tickDueRun, Bool.and_eq_true, Bool.or_eq_true, decide_eq_true_eq]
    refine ⟨?_, ih _ h.2⟩
    rcases h.1.1 with h1 | h1
    · exact Or.inl h1
    · exact Or.inr (dueOk_tick h1)

theorem tickDueRun_append {D : Type} [Inhabited D] [Detector D] (c : Cfg) (a : Nat) (s : Sys D)
    (l1 l2 : List Act) :
    tickDueRun c a s (l1 ++ l2) = (tickDueRun c a s l1 && tickDueRun c a (run c s l1) l2) := by
  induction l1 generalizing s with
  | nil => simp [tickDueRun, run]
  | cons act rest ih => simp only [List.cons_append, tickDueRun, run, ih, Bool.and_assoc]

/-! ### invariants -/

/-- from the initial state on: nobody says "alive", nothing is in flight from the future, the
    observer's next tick is at most one interval past `max now T0` -/
structure LInv (c : Cfg) (a T0 : Nat) (s : Sys PhiDet) : Prop where
  noAlive : SNoAlive s
  sentLe : SentLe s
  next : (s.node a).nextTick ≤ max s.now T0 + c.interval

theorem linv_step (c : Cfg) (a T0 : Nat) (s : Sys PhiDet) (act : Act) (I : LInv c a T0 s)
    (hmono : s.now ≤ act.time) : LInv c a T0 (step c s act) := by
  have hst := step_rel c s act
  have hns := nodeStep c s act a
  refine ⟨snoalive_step c s _ _ hst I.noAlive, sentle_step c s _ _ hst hmono I.sentLe, ?_⟩
  rw [step_now c s _ _ hst]
  have := I.next
  rcases nextTick_nodeStep c a _ s act _ hns I.noAlive with h | h
  · rw [h]; omega
  · rw [h]; omega

theorem linv_run (c : Cfg) (a T0 : Nat) (s : Sys PhiDet) (acts : List Act) (I : LInv c a T0 s)
    (hm : monoRun c s acts = true) : LInv c a T0 (run c s acts) := by
  induction acts generalizing s with
  | nil => exact I
  | cons act rest ih =>
    simp only [monoRun, Bool.and_eq_true, decide_eq_true_eq] at hm
    exact ih _ (linv_step c a T0 s act I hm.1) hm.2

/-- the parameters and the window size of the detector `a` keeps for `x` never change -/
def StatInv (F : PhiFns) (thr : PV) (d : PhiDet) : Prop := d.F = F ∧ d.thr = thr ∧ 1 ≤ d.q.maxN

theorem statInv_hb {F : PhiFns} {thr : PV} {d : PhiDet} (h : StatInv F thr d) (ts : Nat) :
    StatInv F thr (Detector.hb d ts) := by
  refine ⟨h.1, h.2.1, ?_⟩
  show 1 ≤ (d.q.hb ts).maxN
  unfold QDet.hb
  cases d.q.last with
  | none => exact h.2.2
  | some l => simp only []; split <;> exact h.2.2

theorem statInv_run (c : Cfg) (F : PhiFns) (thr : PV) (a x : Nat) (s : Sys PhiDet) (acts : List Act)
    (h : StatInv F thr (detOf (s.node a) x)) : StatInv F thr (detOf ((run c s acts).node a) x) := by
  induction acts generalizing s with
  | nil => exact h
  | cons act rest ih =>
    refine ih _ ?_
    rcases detOf_nodeStep c a act.time x s act _ (nodeStep c s act a) with h1 | ⟨_, _, _, _, h1⟩
    · rw [h1]; exact h
    · rw [h1]; exact statInv_hb h _

/-- the deadline of the phi path, before the last probe interval -/
def phiBy (δ cx m minStd Y : Nat) : Nat := cx + δ + (m + Y * max m minStd)

structure PhiPost (c : Cfg) (F : PhiFns) (thr : PV) (m minStd Y l0 a x δ cx : Nat) (s : Sys PhiDet) :
    Prop where
  g : LInv c a (phiBy δ cx m minStd Y) s
  xc : s.isCrashed x = true
  fb : FromBound s x cx
  det : DetInv F thr m l0 (cx + δ) s.now (detOf (s.node a) x)
  tick : ¬ NA x (s.node a) → (s.node a).nextTick ≤ phiBy δ cx m minStd Y + c.interval
  late : phiBy δ cx m minStd Y + c.interval < s.now → NA x (s.node a)

/-- node level: an action later than `phiBy` that leaves `x` ALIVE at `a` is not a probe tick of `a`,
    so the next tick stays where it was -/
theorem nextTick_late_nodeStep (c : Cfg) (a now x B : Nat) (s : Sys PhiDet) (act : Act) (nd' : Node PhiDet)
    (h : NodeStep c s a now act nd') (hN : SNoAlive s) (hx : x < c.n) (hxa : x ≠ a)
    (hav : Detector.avail (detOf (s.node a) x) now = false) (hna' : ¬ NA x nd')
    (hold : (s.node a).nextTick ≤ B) : nd'.nextTick ≤ B := by
  cases h with
  | same => exact hold
  | tick shuf hact hc ht => exact absurd (na_onTick_unavailable c a now x shuf _ hx hxa hav) hna'
  | msg m hm hd => rw [(keep_handleMsg c a now m _ (hN.soup m hm)).tick]; exact hold
  | ind y shuf t hp hk hf => rw [(keep_onIndTimeout c a now y shuf _).tick]; exact hold
  | susp y t hp hk hf => rw [(keep_onSuspTimeout y _).tick]; exact hold

theorem phiPost_step (c : Cfg) (F : PhiFns) (thr : PV) (m minStd Y l0 a x δ cx : Nat)
    (hx : x < c.n) (hxa : x ≠ a) (hH : ∀ ivs, PhiHyp F ivs) (hMS : MeanSdBound F m minStd)
    (hthr : PV.le thr (levelAt F Y)) (hgap : cx + δ ≤ l0 + m)
    (s : Sys PhiDet) (act : Act) (I : PhiPost c F thr m minStd Y l0 a x δ cx s)
    (hmono : s.now ≤ act.time) (htimely : ∀ w ∈ s.soup, act.time ≤ w.sent + δ)
    (hdue : s.isCrashed a = false → act.time ≤ (s.node a).nextTick)
    (hlive : (step c s act).isCrashed a = false) :
    PhiPost c F thr m minStd Y l0 a x δ cx (step c s act) := by
  have hst := step_rel c s act
  have hns := nodeStep c s act a
  have hnow := step_now c s _ _ hst
  have hg := linv_step c a _ s act I.g hmono
  have hlive0 : s.isCrashed a = false := by
    cases h : s.isCrashed a with
    | false => rfl
    | true => rw [crashed_step c s _ _ hst a h] at hlive; cases hlive
  have hquiet : cx + δ < act.time → QuietTo s a x :=
    fun hl => quiet_of_frombound δ s a x cx act.time I.g.noAlive I.fb htimely hl
  have hBy : cx + δ ≤ phiBy δ cx m minStd Y := by unfold phiBy; omega
  refine ⟨hg, crashed_step c s _ _ hst x I.xc, frombound_step c s _ _ x cx hst I.xc I.fb, ?_, ?_, ?_⟩
  · rw [hnow]
    rcases detOf_nodeStep c a act.time x s act _ hns with h1 | ⟨w, hw, _, hsrc, h1⟩
    · rw [h1]; exact I.det.mono hmono
    · rw [h1]
      have h2 := I.fb w hw hsrc
      have h3 := htimely w hw
      exact I.det.hb hmono (by omega) hgap
  · intro hna'
    by_cases hl : act.time ≤ phiBy δ cx m minStd Y
    · have := hg.next
      rw [hnow] at this
      omega
    · have hq := hquiet (by omega)
      have hna0 : ¬ NA x (s.node a) := fun h => hna' (na_step c s _ act.time a x hst h hq)
      have hav := I.det.unavailable (t := act.time) hH hMS hthr (by unfold phiBy at hl; omega)
      exact nextTick_late_nodeStep c a act.time x _ s act _ hns I.g.noAlive hx hxa hav hna' (I.tick hna0)
  · intro hlate
    rw [hnow] at hlate
    have hq := hquiet (by omega)
    have hna : NA x (s.node a) := by
      apply Classical.byContradiction
      intro hna
      have h1 := I.tick hna
      have h2 := hdue hlive0
      omega
    exact na_step c s _ act.time a x hst hna hq

theorem phiPost_run (c : Cfg) (F : PhiFns) (thr : PV) (m minStd Y l0 a x δ cx : Nat)
    (hx : x < c.n) (hxa : x ≠ a) (hH : ∀ ivs, PhiHyp F ivs) (hMS : MeanSdBound F m minStd)
    (hthr : PV.le thr (levelAt F Y)) (hgap : cx + δ ≤ l0 + m)
    (s : Sys PhiDet) (acts : List Act) (I : PhiPost c F thr m minStd Y l0 a x δ cx s)
    (hm : monoRun c s acts = true) (ht : timelyRun c δ s acts = true)
    (hd : tickDueRun c a s acts = true) (hlive : (run c s acts).isCrashed a = false) :
    PhiPost c F thr m minStd Y l0 a x δ cx (run c s acts) := by
  induction acts generalizing s with
  | nil => exact I
  | cons act rest ih =>
    simp only [monoRun, Bool.and_eq_true, decide_eq_true_eq] at hm
    simp only [timelyRun, Bool.and_eq_true, List.all_eq_true, decide_eq_true_eq] at ht
    simp only [tickDueRun, Bool.and_eq_true, Bool.or_eq_true, decide_eq_true_eq] at hd
    have hl1 : (step c s act).isCrashed a = false := live_of_run c _ rest a hlive
    refine ih _ (phiPost_step c F thr m minStd Y l0 a x δ cx hx hxa hH hMS hthr hgap s act I hm.1
      ht.1.1 ?_ hl1) hm.2 ht.2 hd.2 hlive
    intro h0
    rcases hd.1 with h | h
    · rw [h0] at h; cases h
    · exact h

end HappyModel.C13
