import HappyProofs.C13.Detect
/-!
Round-robin probing, combinatorial part: positions in the list `alive` of `_next_probe_target`, the
potential that bounds the number of probe ticks until a given member is the target, and its
behaviour when members turn DEAD between two ticks (the list shrinks to a sublist).
-/
set_option linter.unusedSectionVars false
set_option linter.unusedSimpArgs false
namespace HappyModel.C13

/-- position of `x` in `l` (only used when `x ∈ l`) -/
def pos (x : Nat) : List Nat → Nat
  | [] => 0
  | y :: ys => if y = x then 0 else pos x ys + 1

theorem pos_lt (x : Nat) (l : List Nat) (h : x ∈ l) : pos x l < l.length := by
  induction l with
  | nil => cases h
  | cons y ys ih =>
    simp only [pos]
    split
    · simp
    · rename_i hy
      have : x ∈ ys := by
        rcases List.mem_cons.mp h with h | h
        · exact absurd h.symm hy
        · exact h
      have := ih this
      simp; omega

theorem lget_pos (x : Nat) (l : List Nat) (h : x ∈ l) : lget 0 l (pos x l) = x := by
  induction l with
  | nil => cases h
  | cons y ys ih =>
    simp only [pos]
    split
    · rename_i hy; simpa [lget] using hy
    · rename_i hy
      have : x ∈ ys := by
        rcases List.mem_cons.mp h with h | h
        · exact absurd h.symm hy
        · exact h
      simpa [lget] using ih this

/-- in a sublist the position of `x` does not grow, and it drops by at most the number of removed
    elements -/
theorem pos_sublist (x : Nat) {l' l : List Nat} (hs : l'.Sublist l) (hx : x ∈ l') (hn : l.Nodup) :
    pos x l' ≤ pos x l ∧ pos x l + l'.length ≤ pos x l' + l.length := by
  induction hs with
  | slnil => cases hx
  | cons a hs ih =>
    rename_i l1 l2
    have hn' := (List.nodup_cons.mp hn)
    have hxl : x ∈ l2 := hs.subset hx
    have hax : a ≠ x := fun e => hn'.1 (e ▸ hxl)
    have := ih hx hn'.2
    simp only [pos, hax, if_false, List.length_cons]
    omega
  | cons_cons a hs ih =>
    rename_i l1 l2
    have hn' := (List.nodup_cons.mp hn)
    by_cases hax : a = x
    · simp only [pos, hax, if_true, List.length_cons]
      have := hs.length_le
      omega
    · have hx1 : x ∈ l1 := by
        rcases List.mem_cons.mp hx with h | h
        · exact absurd h.symm hax
        · exact h
      have := ih hx1 hn'.2
      simp only [pos, hax, if_false, List.length_cons]
      omega

theorem filter_sublist_of_imp (p q : Nat → Bool) (h : ∀ y, p y = true → q y = true) (l : List Nat) :
    (l.filter p).Sublist (l.filter q) := by
  induction l with
  | nil => exact List.Sublist.slnil
  | cons y ys ih =>
    simp only [List.filter_cons]
    by_cases hp : p y = true
    · simp only [hp, h y hp, if_true]; exact ih.cons_cons y
    · simp only [hp, if_false]
      by_cases hq : q y = true
      · simp only [hq, if_true]; exact ih.cons y
      · simp only [hq, if_false]; exact ih

/-- pigeonhole: a duplicate-free list inside `m` is no longer than `m` -/
theorem nodup_length_le {l m : List Nat} (hn : l.Nodup) (hs : ∀ y ∈ l, y ∈ m) : l.length ≤ m.length := by
  induction l generalizing m with
  | nil => simp
  | cons y ys ih =>
    have hn' := List.nodup_cons.mp hn
    have hy : y ∈ m := hs y (by simp)
    have h1 : ys.length ≤ (m.erase y).length := by
      apply ih hn'.2
      intro z hz
      have hzy : z ≠ y := fun e => hn'.1 (e ▸ hz)
      exact (List.mem_erase_of_ne hzy).mpr (hs z (by simp [hz]))
    rw [List.length_erase_of_mem hy] at h1
    have : 0 < m.length := List.length_pos_of_mem hy
    simp only [List.length_cons]; omega

/-- a duplicate-free list of members of node `a` in an `n`-cluster has at most `n - 1` entries -/
theorem members_length_le (n a : Nat) (ha : a < n) (l : List Nat) (hn : l.Nodup)
    (hm : ∀ y ∈ l, isMember n a y = true) : l.length ≤ n - 1 := by
  have h := nodup_length_le (m := (List.range n).erase a) hn (by
    intro y hy
    have := hm y hy
    simp only [isMember, Bool.and_eq_true, bne_iff_ne, ne_eq, decide_eq_true_eq] at this
    exact (List.mem_erase_of_ne this.1).mpr (by simpa using this.2))
  rw [List.length_erase_of_mem (by simpa using ha)] at h
  simpa using h

/-! ### the potential -/

/-- ticks until `x` (at position `i` of an alive-list of length `L`, next index `p`) is the target,
    if nobody turns DEAD in between: `x` still ahead in this pass, or the rest of this pass plus one
    more pass -/
def phiPot (L p i : Nat) : Nat := if p ≤ i then L - p else (L - p) + L

/-- every member that turns DEAD can cost one more pass of at most `N` ticks -/
def psiPot (N Lmin L p i : Nat) : Nat := phiPot L p i + N * (L - Lmin)

theorem phiPot_le (L p i : Nat) : phiPot L p i ≤ 2 * L := by
  unfold phiPot; split <;> omega

/-- the alive-list shrinks to a sublist (length `L'`, position `i'`), order and index unchanged -/
theorem psi_shrink (N Lmin L L' p i i' : Nat) (hL : L' ≤ L) (hi : i' ≤ i) (hj : i + L' ≤ i' + L)
    (hiL : i' < L') (hLN : L' ≤ N) (hmin : Lmin ≤ L') :
    psiPot N Lmin L' p i' ≤ psiPot N Lmin L p i := by
  have h1 : N * (L - Lmin) = N * (L' - Lmin) + N * (L - L') := by
    rw [← Nat.mul_add]; congr 1; omega
  have h2 : 1 ≤ L - L' → N ≤ N * (L - L') := fun h => Nat.le_mul_of_pos_right N h
  unfold psiPot phiPot
  rw [h1]
  generalize N * (L' - Lmin) = A at *
  generalize N * (L - L') = B at *
  by_cases hA : p ≤ i <;> by_cases hB : p ≤ i' <;> simp only [hA, hB, if_true, if_false]
  · omega
  · have := h2 (by omega); omega
  · omega
  · omega

/-- a tick inside a pass that does not hit `x` -/
theorem phi_advance (L p i : Nat) (hp : p < L) (hne : p ≠ i) :
    phiPot L (p + 1) i + 1 ≤ phiPot L p i := by
  unfold phiPot
  by_cases hA : p ≤ i
  · have : p + 1 ≤ i := by omega
    simp only [hA, this, if_true]; omega
  · have : ¬ p + 1 ≤ i := by omega
    simp only [hA, this, if_false]; omega

/-- the tick that starts a new pass (`p ≥ L`) and does not hit `x` (`1 ≤ i'`) -/
theorem phi_restart (L p i i' : Nat) (hp : L ≤ p) (hi : i < L) (hi' : 1 ≤ i') :
    phiPot L 1 i' + 1 ≤ phiPot L p i := by
  unfold phiPot
  have hA : ¬ p ≤ i := by omega
  simp only [hA, hi', if_true, if_false]; omega

end HappyModel.C13
