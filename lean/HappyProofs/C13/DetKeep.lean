import HappyProofs.C13.Detection
/-!
The failure detector a node keeps for a member changes only when the node hears from that member
(`heartbeat` in the ping and ack handlers); every other handler leaves it alone.
-/
set_option linter.unusedSectionVars false
set_option linter.unusedSimpArgs false
namespace HappyModel.C13
variable {D : Type} [Inhabited D] [Detector D]

/-- the detector node `nd` keeps for member `x` -/
def detOf (nd : Node D) (x : Nat) : D := (nd.member x).det

theorem detOf_of_mem_eq {nd nd' : Node D} (h : nd'.mem = nd.mem) (x : Nat) : detOf nd' x = detOf nd x := by
  unfold detOf Node.member; rw [h]

theorem det_applyToMember (m : Member D) (u : Update) : (applyToMember m u).det = m.det := by
  unfold applyToMember
  split
  · rfl
  · cases u.kind <;> simp only [] <;> split <;> rfl

theorem detOf_setMember (nd : Node D) (y : Nat) (m : Member D) (x : Nat)
    (h : m.det = (nd.member y).det) : detOf (nd.setMember y m) x = detOf nd x := by
  unfold detOf
  by_cases hxy : x = y
  · subst hxy; rw [member_setMember_same]; exact h
  · rw [member_setMember_other _ _ _ _ hxy]

theorem detOf_applyOne (n a : Nat) (nd : Node D) (u : Update) (x : Nat) :
    detOf (applyOne n a nd u) x = detOf nd x := by
  unfold applyOne
  split
  · exact detOf_setMember _ _ _ _ (det_applyToMember _ _)
  · rfl

theorem detOf_applyUpdates (n a : Nat) (nd : Node D) (us : List Update) (x : Nat) :
    detOf (applyUpdates n a nd us) x = detOf nd x := by
  unfold applyUpdates
  induction us generalizing nd with
  | nil => rfl
  | cons u us ih => simp only [List.foldl_cons]; rw [ih, detOf_applyOne]

theorem detOf_heard_other (nd : Node D) (y now x : Nat) (h : x ≠ y) :
    detOf (heard nd y now) x = detOf nd x := by
  unfold heard detOf
  exact congrArg Member.det (member_setMember_other _ _ _ _ h)

theorem detOf_heard_same (nd : Node D) (x now : Nat) :
    detOf (heard nd x now) x = Detector.hb (detOf nd x) now := by
  unfold heard detOf
  rw [member_setMember_same]

theorem detOf_suspect (nd : Node D) (y x : Nat) : detOf (suspect nd y) x = detOf nd x := by
  unfold suspect
  simp only []
  split
  · show detOf (nd.setMember y _) x = _
    exact detOf_setMember _ _ _ _ rfl
  · rfl

theorem detOf_phiStep (a now : Nat) (nd : Node D) (y x : Nat) :
    detOf (phiStep a now nd y) x = detOf nd x := by
  unfold phiStep
  split
  · rfl
  · simp only []
    split
    · exact detOf_suspect _ _ _
    · rfl

theorem detOf_phiCheck (n a now : Nat) (nd : Node D) (x : Nat) :
    detOf (phiCheck n a now nd) x = detOf nd x := by
  unfold phiCheck
  generalize List.range n = l
  induction l generalizing nd with
  | nil => rfl
  | cons y ys ih => simp only [List.foldl_cons]; rw [ih, detOf_phiStep]

theorem detOf_onTick (c : Cfg) (a now : Nat) (shuf : List Nat) (nd : Node D) (x : Nat) :
    detOf (onTick c a now shuf nd).1 x = detOf nd x := by
  rw [detOf_of_mem_eq ((onTick_shape c a now 0 shuf nd).1.trans (mem_nextTarget _ _ _ _)), detOf_phiCheck]

theorem detOf_onIndTimeout (c : Cfg) (a now y : Nat) (shuf : List Nat) (nd : Node D) (x : Nat) :
    detOf (onIndTimeout c a now y shuf nd).1 x = detOf nd x := by
  unfold onIndTimeout
  simp only []
  have h0 : detOf (if c.fix then suspect nd y else nd) x = detOf nd x := by
    split
    · exact detOf_suspect _ _ _
    · rfl
  revert h0
  generalize (if c.fix = true then suspect nd y else nd) = nd0
  intro h0
  rw [← h0]
  apply detOf_of_mem_eq
  split <;> rfl

theorem detOf_onSuspTimeout (y : Nat) (nd : Node D) (x : Nat) :
    detOf (onSuspTimeout y nd) x = detOf nd x := by
  unfold onSuspTimeout
  simp only []
  split
  · exact (detOf_of_mem_eq (nd := nd.setMember y ⟨.dead, (nd.member y).inc, (nd.member y).det⟩) rfl x).trans
      (detOf_setMember _ _ _ _ rfl)
  · exact detOf_of_mem_eq rfl x

/-- a ping or an ack: the detector of the sender takes a heartbeat, the others are untouched -/
theorem detOf_handleMsg (c : Cfg) (a now : Nat) (m : Msg) (nd : Node D) (x : Nat) :
    detOf (handleMsg c a now m nd).1 x =
      if isMember c.n a m.src = true ∧ x = m.src then Detector.hb (detOf nd x) now else detOf nd x := by
  unfold handleMsg
  cases m.kind <;> simp only []
  · unfold onPing
    simp only []
    refine (detOf_of_mem_eq (nd := if isMember c.n a m.src then heard (applyUpdates c.n a nd m.upds) m.src now
      else applyUpdates c.n a nd m.upds) rfl x).trans ?_
    by_cases hm : isMember c.n a m.src = true
    · simp only [hm, if_true, true_and]
      by_cases hx : x = m.src
      · subst hx; simp only [if_true]; rw [detOf_heard_same, detOf_applyUpdates]
      · simp only [hx, if_false]; rw [detOf_heard_other _ _ _ _ hx, detOf_applyUpdates]
    · simp only [hm, false_and, if_false, Bool.false_eq_true]
      exact detOf_applyUpdates _ _ _ _ _
  · unfold onAck
    simp only []
    by_cases hm : isMember c.n a m.src = true
    · simp only [hm, if_true, true_and]
      refine (detOf_of_mem_eq (nd := heard (applyUpdates c.n a nd m.upds) m.src now) rfl x).trans ?_
      by_cases hx : x = m.src
      · subst hx; simp only [if_true]; rw [detOf_heard_same, detOf_applyUpdates]
      · simp only [hx, if_false]; rw [detOf_heard_other _ _ _ _ hx, detOf_applyUpdates]
    · simp only [hm, false_and, if_false, Bool.false_eq_true]
      exact detOf_applyUpdates _ _ _ _ _

/-- one action, seen from node `a`: the detector for `x` is unchanged, or a message from `x` was
    delivered to `a` and it took a heartbeat at the time of the action -/
theorem detOf_nodeStep (c : Cfg) (a now x : Nat) (s : Sys D) (act : Act) (nd' : Node D)
    (h : NodeStep c s a now act nd') :
    detOf nd' x = detOf (s.node a) x ∨
    (∃ m ∈ s.soup, m.dst = a ∧ m.src = x ∧ detOf nd' x = Detector.hb (detOf (s.node a) x) now) := by
  cases h with
  | same => exact Or.inl rfl
  | tick shuf hact hc ht => exact Or.inl (detOf_onTick c a now shuf _ x)
  | msg m hm hd =>
    rw [detOf_handleMsg]
    by_cases hc : isMember c.n a m.src = true ∧ x = m.src
    · rw [if_pos hc]
      exact Or.inr ⟨m, hm, hd, hc.2.symm, rfl⟩
    · rw [if_neg hc]; exact Or.inl rfl
  | ind y shuf t hp hk hf => exact Or.inl (detOf_onIndTimeout c a now y shuf _ x)
  | susp y t hp hk hf => exact Or.inl (detOf_onSuspTimeout y _ x)

end HappyModel.C13
