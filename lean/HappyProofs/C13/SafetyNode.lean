import HappyProofs.C13.Basic
/-! Node-level facts for `no_false_death`: no handler creates a DEAD view or a "dead" update for a
member `x` unless it is the suspicion timeout of `x` itself or a "dead" update for `x` came in. -/
set_option linter.unusedSectionVars false
namespace HappyModel.C13
variable {D : Type} [Inhabited D] [Detector D]

def hasDead (x : Nat) (us : List Update) : Prop := ∃ u ∈ us, u.member = x ∧ u.kind = .dead

theorem hasDead_nil (x : Nat) : ¬ hasDead x [] := by simp [hasDead]

theorem hasDead_cons (x : Nat) (u : Update) (us : List Update) :
    hasDead x (u :: us) ↔ (u.member = x ∧ u.kind = .dead) ∨ hasDead x us := by
  simp [hasDead]

theorem hasDead_append (x : Nat) (us vs : List Update) :
    hasDead x (us ++ vs) ↔ hasDead x us ∨ hasDead x vs := by
  simp [hasDead, or_and_right, exists_or]

/-- node `nd` neither sees `x` DEAD nor has a pending "dead" update about `x` -/
def Clean (x : Nat) (nd : Node D) : Prop := nd.view x ≠ .dead ∧ ¬ hasDead x nd.upds

theorem Clean.of_eq {x : Nat} {nd nd' : Node D} (h : Clean x nd) (hm : nd'.mem = nd.mem)
    (hu : nd'.upds = nd.upds) : Clean x nd' := by
  unfold Clean Node.view Node.member at *
  rw [hm, hu]; exact h

theorem Clean.drain {x : Nat} {nd nd' : Node D} (h : Clean x nd) (hm : nd'.mem = nd.mem)
    (hu : nd'.upds = []) : Clean x nd' := by
  unfold Clean Node.view Node.member at *
  rw [hm, hu]; exact ⟨h.1, hasDead_nil x⟩

theorem foldl_pred {α β} (P : α → Prop) (f : α → β → α) (hf : ∀ a b, P a → P (f a b))
    (l : List β) (a : α) (h : P a) : P (l.foldl f a) := by
  induction l generalizing a with
  | nil => exact h
  | cons b bs ih => exact ih _ (hf a b h)

theorem applyToMember_dead (m : Member D) (u : Update) :
    (applyToMember m u).st = .dead → m.st = .dead ∨ u.kind = .dead := by
  unfold applyToMember
  split
  · exact Or.inl
  · cases hk : u.kind <;> simp only []
    · split
      · intro h; simp at h
      · exact Or.inl
    · intro _; exact Or.inr trivial
    · split
      · intro h; simp at h
      · exact Or.inl

theorem clean_applyOne (n a x : Nat) (nd : Node D) (u : Update) (h : Clean x nd)
    (hu : ¬ (u.member = x ∧ u.kind = .dead)) : Clean x (applyOne n a nd u) := by
  unfold applyOne
  split
  · refine ⟨?_, by simpa using h.2⟩
    by_cases hx : x = u.member
    · subst hx
      rw [view_def, member_setMember_same]
      intro hd
      rcases applyToMember_dead _ _ hd with h1 | h1
      · exact h.1 h1
      · exact hu ⟨rfl, h1⟩
    · rw [view_def, member_setMember_other _ _ _ _ hx]; exact h.1
  · exact h

theorem clean_applyUpdates (n a x : Nat) (nd : Node D) (us : List Update) (h : Clean x nd)
    (hu : ¬ hasDead x us) : Clean x (applyUpdates n a nd us) := by
  unfold applyUpdates
  induction us generalizing nd with
  | nil => exact h
  | cons u us ih =>
    rw [hasDead_cons] at hu
    simp only [List.foldl_cons]
    exact ih _ (clean_applyOne n a x nd u h (fun h' => hu (Or.inl h'))) (fun h' => hu (Or.inr h'))

theorem clean_heard (x y now : Nat) (nd : Node D) (h : Clean x nd) : Clean x (heard nd y now) := by
  unfold heard
  refine ⟨?_, by simpa using h.2⟩
  by_cases hx : x = y
  · subst hx
    rw [view_def, member_setMember_same]
    simp only []
    split
    · simp
    · exact h.1
  · rw [view_def, member_setMember_other _ _ _ _ hx]; exact h.1

theorem clean_suspect (x y : Nat) (nd : Node D) (h : Clean x nd) : Clean x (suspect nd y) := by
  unfold suspect
  simp only []
  split
  · refine ⟨?_, ?_⟩
    · show ((nd.setMember y _).member x).st ≠ .dead
      by_cases hx : x = y
      · subst hx; rw [member_setMember_same]; simp
      · rw [member_setMember_other _ _ _ _ hx]; exact h.1
    · show ¬ hasDead x (nd.upds ++ _)
      rw [hasDead_append]
      rintro (h1 | h1)
      · exact h.2 h1
      · simp [hasDead] at h1
  · exact h

theorem clean_phiStep (a now x : Nat) (nd : Node D) (y : Nat) (h : Clean x nd) :
    Clean x (phiStep a now nd y) := by
  unfold phiStep
  split
  · exact h
  · simp only []
    split
    · exact clean_suspect _ _ _ h
    · exact h

theorem clean_phiCheck (n a now x : Nat) (nd : Node D) (h : Clean x nd) :
    Clean x (phiCheck n a now nd) :=
  foldl_pred (Clean x) _ (fun nd y => clean_phiStep a now x nd y) _ nd h

theorem clean_nextTarget (n a x : Nat) (nd : Node D) (shuf : List Nat) (h : Clean x nd) :
    Clean x (nextTarget n a nd shuf).1 := by
  unfold nextTarget
  simp only []
  split
  · exact h
  · split <;> exact h.of_eq rfl rfl

/-- outputs carry no "dead" update about `x` -/
def OutsClean (x : Nat) (os : List Out) : Prop := ∀ o ∈ os, ¬ hasDead x o.upds

theorem clean_onTick (c : Cfg) (a now x : Nat) (shuf : List Nat) (nd : Node D) (h : Clean x nd) :
    Clean x (onTick c a now shuf nd).1 ∧ OutsClean x (onTick c a now shuf nd).2 := by
  unfold onTick
  simp only []
  have h2 := clean_nextTarget c.n a x _ shuf (clean_phiCheck c.n a now x nd h)
  split
  · exact ⟨h2.of_eq rfl rfl, by simp [OutsClean]⟩
  · split
    · exact ⟨h2.drain rfl rfl, by simpa [OutsClean] using h2.2⟩
    · exact ⟨h2.of_eq rfl rfl, by simp [OutsClean]⟩

theorem clean_onPing (c : Cfg) (a now x : Nat) (m : Msg) (nd : Node D) (h : Clean x nd)
    (hm : ¬ hasDead x m.upds) :
    Clean x (onPing c a now m nd).1 ∧ OutsClean x (onPing c a now m nd).2 := by
  unfold onPing
  simp only []
  have h1 := clean_applyUpdates c.n a x nd m.upds h hm
  have h2 : Clean x (if isMember c.n a m.src then heard (applyUpdates c.n a nd m.upds) m.src now
      else applyUpdates c.n a nd m.upds) := by
    split
    · exact clean_heard _ _ _ _ h1
    · exact h1
  exact ⟨h2.drain rfl rfl, by simpa [OutsClean] using h2.2⟩

theorem clean_onAck (c : Cfg) (a now x : Nat) (m : Msg) (nd : Node D) (h : Clean x nd)
    (hm : ¬ hasDead x m.upds) :
    Clean x (onAck c a now m nd).1 ∧ OutsClean x (onAck c a now m nd).2 := by
  unfold onAck
  simp only []
  have h1 := clean_applyUpdates c.n a x nd m.upds h hm
  split
  · exact ⟨(clean_heard _ _ _ _ h1).of_eq rfl rfl, by simp [OutsClean]⟩
  · exact ⟨h1, by simp [OutsClean]⟩

theorem outsClean_indirect (x y : Nat) (ups : List Update) (ds : List Nat) (h : ¬ hasDead x ups) :
    OutsClean x (indirectOuts y ups ds) := by
  cases ds with
  | nil => simp [indirectOuts, OutsClean]
  | cons d ds =>
    intro o ho
    simp only [indirectOuts, List.mem_cons, List.mem_map] at ho
    rcases ho with rfl | ⟨d', _, rfl⟩
    · exact h
    · exact hasDead_nil x

theorem clean_onIndTimeout (c : Cfg) (a now x y : Nat) (shuf : List Nat) (nd : Node D)
    (h : Clean x nd) :
    Clean x (onIndTimeout c a now y shuf nd).1 ∧ OutsClean x (onIndTimeout c a now y shuf nd).2 := by
  unfold onIndTimeout
  simp only []
  have h0 : Clean x (if c.fix then suspect nd y else nd) := by
    split
    · exact clean_suspect _ _ _ h
    · exact h
  revert h0
  generalize (if c.fix = true then suspect nd y else nd) = nd0
  intro h0
  refine ⟨?_, outsClean_indirect _ _ _ _ h0.2⟩
  split
  · exact h0.of_eq rfl rfl
  · exact h0.drain rfl rfl

theorem clean_onSuspTimeout (x y : Nat) (nd : Node D) (h : Clean x nd) (hxy : x ≠ y) :
    Clean x (onSuspTimeout y nd) := by
  unfold onSuspTimeout
  simp only []
  split
  · refine ⟨?_, ?_⟩
    · show ((nd.setMember y _).member x).st ≠ .dead
      rw [member_setMember_other _ _ _ _ hxy]; exact h.1
    · show ¬ hasDead x (nd.upds ++ _)
      rw [hasDead_append]
      rintro (h1 | h1)
      · exact h.2 h1
      · simp [hasDead] at h1; exact hxy h1.symm
  · exact h.of_eq rfl rfl

/-- a suspicion timeout on a member that is not SUSPECT changes neither views nor updates -/
theorem clean_onSuspTimeout_notSuspect (x y : Nat) (nd : Node D) (h : Clean x nd)
    (hs : nd.view y ≠ .suspect) : Clean x (onSuspTimeout y nd) := by
  unfold onSuspTimeout
  simp only []
  rw [if_neg (by simpa [Node.view] using hs)]
  exact h.of_eq rfl rfl

/-! ### `_pending_acks` bookkeeping -/

theorem pendOf_applyOne (n a : Nat) (nd : Node D) (u : Update) (y : Nat) :
    (applyOne n a nd u).pendOf y = nd.pendOf y := by
  unfold applyOne; split <;> rfl

theorem pendOf_applyUpdates (n a : Nat) (nd : Node D) (us : List Update) (y : Nat) :
    (applyUpdates n a nd us).pendOf y = nd.pendOf y := by
  unfold applyUpdates
  induction us generalizing nd with
  | nil => rfl
  | cons u us ih => simp only [List.foldl_cons]; rw [ih, pendOf_applyOne]

theorem pendOf_heard (nd : Node D) (x now y : Nat) : (heard nd x now).pendOf y = nd.pendOf y := rfl

theorem pendOf_suspect (nd : Node D) (x y : Nat) : (suspect nd x).pendOf y = nd.pendOf y := by
  unfold suspect; simp only []; split <;> rfl

theorem pendOf_phiStep (a now : Nat) (nd : Node D) (x y : Nat) :
    (phiStep a now nd x).pendOf y = nd.pendOf y := by
  unfold phiStep
  split
  · rfl
  · simp only []
    split
    · exact pendOf_suspect _ _ _
    · rfl

theorem pendOf_phiCheck (n a now : Nat) (nd : Node D) (y : Nat) :
    (phiCheck n a now nd).pendOf y = nd.pendOf y := by
  unfold phiCheck
  generalize List.range n = l
  induction l generalizing nd with
  | nil => rfl
  | cons x xs ih => simp only [List.foldl_cons]; rw [ih, pendOf_phiStep]

theorem pendOf_nextTarget (n a : Nat) (nd : Node D) (shuf : List Nat) (y : Nat) :
    (nextTarget n a nd shuf).1.pendOf y = nd.pendOf y := by
  unfold nextTarget
  simp only []
  split
  · rfl
  · split <;> rfl

theorem pendOf_onPing (c : Cfg) (a now : Nat) (m : Msg) (nd : Node D) (y : Nat) :
    (onPing c a now m nd).1.pendOf y = nd.pendOf y := by
  unfold onPing
  simp only []
  show Node.pendOf (if isMember c.n a m.src then heard (applyUpdates c.n a nd m.upds) m.src now
      else applyUpdates c.n a nd m.upds) y = _
  split
  · rw [pendOf_heard, pendOf_applyUpdates]
  · rw [pendOf_applyUpdates]

end HappyModel.C13
