import HappyProofs.C13.SafetySys
/-! The network-partition component of the model: `Network.partition` / `Partition.heal` /
`is_partitioned`, and what a commit does with messages sent across an active partition. -/
set_option linter.unusedSectionVars false
namespace HappyModel.C13
variable {D : Type} [Inhabited D] [Detector D]

theorem pairIn_symm (ps : List (Nat × Nat)) (a b : Nat) : pairIn ps a b = pairIn ps b a := by
  unfold pairIn
  induction ps with
  | nil => rfl
  | cons p ps ih => simp only [List.any_cons, ih, Bool.or_comm]

theorem blocked_symm' (s : Sys D) (a b : Nat) : s.blocked a b = s.blocked b a := by
  unfold Sys.blocked
  congr 1
  funext ps
  exact pairIn_symm ps a b

theorem pairIn_cutPairs (ga gb : List Nat) (a b : Nat) (ha : a ∈ ga) (hb : b ∈ gb) :
    pairIn (cutPairs ga gb) a b = true := by
  unfold pairIn cutPairs
  rw [List.any_eq_true]
  refine ⟨(a, b), ?_, by simp⟩
  rw [List.mem_flatMap]
  exact ⟨a, ha, List.mem_map.mpr ⟨b, hb, rfl⟩⟩

theorem any_lset_same {α} (d : α) (f : α → Bool) (l : List α) (i : Nat) (v : α) (hv : f v = true) :
    (lset d l i v).any f = true := by
  induction l generalizing i with
  | nil => induction i with
    | zero => simp [lset, hv]
    | succ i ih => simp [lset, ih]
  | cons x xs ih => cases i with
    | zero => simp [lset, hv]
    | succ i => simp [lset, ih i]

theorem any_lset_false {α} (d : α) (f : α → Bool) (hd : f d = false) (l : List α) (i : Nat) (v : α)
    (hv : f v = false) (h : (lset d l i v).any f = true) : l.any f = true := by
  induction l generalizing i with
  | nil =>
    exfalso
    induction i with
    | zero => simp [lset, hv] at h
    | succ i ih => simp only [lset, List.any_cons, hd, Bool.false_or] at h; exact ih h
  | cons x xs ih => cases i with
    | zero => simp only [lset, List.any_cons, hv, Bool.false_or] at h; simp [h]
    | succ i =>
      simp only [lset, List.any_cons, Bool.or_eq_true] at h ⊢
      rcases h with h | h
      · exact Or.inl h
      · exact Or.inr (ih i h)

theorem cut_blocks_pair (c : Cfg) (s : Sys D) (h : Nat) (ga gb : List Nat) (now a b : Nat)
    (ha : a ∈ ga) (hb : b ∈ gb) :
    (step c s (.cut h ga gb now)).blocked a b = true ∧ (step c s (.cut h ga gb now)).blocked b a = true := by
  have h1 : (step c s (.cut h ga gb now)).blocked a b = true := by
    show (lset [] s.cuts h (cutPairs ga gb)).any (fun ps => pairIn ps a b) = true
    exact any_lset_same _ _ _ _ _ (pairIn_cutPairs ga gb a b ha hb)
  exact ⟨h1, by rw [blocked_symm']; exact h1⟩

theorem heal_never_blocks (c : Cfg) (s : Sys D) (h now a b : Nat)
    (hb : (step c s (.heal h now)).blocked a b = true) : s.blocked a b = true := by
  have hb' : (lset [] s.cuts h []).any (fun ps => pairIn ps a b) = true := hb
  exact any_lset_false [] _ rfl _ _ _ rfl hb'

theorem mem_routed (s : Sys D) (ms : List Msg) (m : Msg) (h : m ∈ s.routed ms) :
    m ∈ ms ∧ s.blocked m.src m.dst = false := by
  unfold Sys.routed at h
  rw [List.mem_filter] at h
  exact ⟨h.1, by simpa using h.2⟩

theorem commit_soup_unblocked (s : Sys D) (a now : Nat) (r : Node D × List Out) (soup : List Msg)
    (hs : ∀ m ∈ soup, m ∈ s.soup) :
    ∀ m ∈ (s.commit a now r soup).soup, m ∈ s.soup ∨ (m.sent = now ∧ s.blocked m.src m.dst = false) := by
  intro m hm
  have hm' : m ∈ soup ++ s.routed (stamp a now s.nextId r.2) := hm
  rw [List.mem_append] at hm'
  rcases hm' with h | h
  · exact Or.inl (hs m h)
  · have := mem_routed s _ m h
    exact Or.inr ⟨(mem_stamp a now _ _ m this.1).2.1, this.2⟩

/-- one action: a message that is in flight afterwards was in flight before, or was sent just now
    between two endpoints that no active partition separates -/
theorem step_soup_unblocked (c : Cfg) (s : Sys D) (act : Act) :
    ∀ m ∈ (step c s act).soup, m ∈ s.soup ∨ (m.sent = act.time ∧ s.blocked m.src m.dst = false) := by
  have h := step_rel c s act
  generalize step c s act = s' at h
  cases h with
  | idle => exact fun m hm => Or.inl hm
  | crash x => exact fun m hm => Or.inl hm
  | net cuts => exact fun m hm => Or.inl hm
  | drop m0 hm0 hc => exact fun m hm => Or.inl (List.mem_of_mem_erase hm)
  | tick a shuf ha _ => exact commit_soup_unblocked s _ _ _ _ (fun _ h => h)
  | msg m0 hm0 hc => exact commit_soup_unblocked s _ _ _ _ (fun _ h => List.mem_of_mem_erase h)
  | ind a x shuf t ha hp hk hf => exact commit_soup_unblocked s _ _ _ _ (fun _ h => h)
  | susp a x t ha hp hk hf => exact commit_soup_unblocked s _ _ _ _ (fun _ h => h)

end HappyModel.C13
