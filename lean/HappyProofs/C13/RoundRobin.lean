import HappyProofs.C13.Quiet
/-!
Part (b) of the detection bound, node level: the round-robin probe order reaches `x`.

`pot` bounds the number of probe ticks of node `a` until `x` is the probe target, as long as `x` is
not DEAD in `a`'s view: it drops by one at every tick that probes somebody else (`pot_nextTarget`,
for every shuffle the oracle may return) and does not grow when other handlers run in between
(`pot_keep`: members turning DEAD shrink the alive-list to a sublist; each one may cost a pass, which
the potential has budgeted as `(n-1)·(|alive| - (n-k))`).
-/
set_option linter.unusedSectionVars false
set_option linter.unusedSimpArgs false
namespace HappyModel.C13
variable {D : Type} [Inhabited D] [Detector D]

/-- the probe order has no duplicates and contains every member that is not DEAD -/
structure OrdInv (n a : Nat) (nd : Node D) : Prop where
  nodup : nd.order.Nodup
  all : ∀ y, isMember n a y = true → nd.view y ≠ .dead → y ∈ nd.order

theorem mem_aliveOrder (n a y : Nat) (nd : Node D) :
    y ∈ aliveOrder n a nd ↔ y ∈ nd.order ∧ isMember n a y = true ∧ nd.view y ≠ .dead := by
  unfold aliveOrder
  rw [List.mem_filter]
  simp only [Bool.and_eq_true, bne_iff_ne, ne_eq]

theorem aliveOrder_nodup (n a : Nat) (nd : Node D) (h : nd.order.Nodup) : (aliveOrder n a nd).Nodup :=
  List.Sublist.nodup List.filter_sublist h

theorem aliveOrder_length_le (n a : Nat) (ha : a < n) (nd : Node D) (h : nd.order.Nodup) :
    (aliveOrder n a nd).length ≤ n - 1 :=
  members_length_le n a ha _ (aliveOrder_nodup n a nd h)
    (fun y hy => ((mem_aliveOrder n a y nd).mp hy).2.1)

theorem aliveOrder_congr (n a : Nat) {nd nd' : Node D} (hm : nd'.mem = nd.mem)
    (ho : nd'.order = nd.order) : aliveOrder n a nd' = aliveOrder n a nd := by
  unfold aliveOrder Node.view Node.member
  rw [hm, ho]

/-- ticks until `x` is probed; `k` = how many members may be lost (`n - k ≤ |alive|` throughout) -/
def pot (n k a x : Nat) (nd : Node D) : Nat :=
  psiPot (n - 1) (n - k) (aliveOrder n a nd).length nd.pidx (pos x (aliveOrder n a nd))

theorem pot_congr (n k a x : Nat) {nd nd' : Node D} (hm : nd'.mem = nd.mem)
    (ho : nd'.order = nd.order) (hp : nd'.pidx = nd.pidx) : pot n k a x nd' = pot n k a x nd := by
  unfold pot
  rw [aliveOrder_congr n a hm ho, hp]

theorem OrdInv.congr {n a : Nat} {nd nd' : Node D} (h : OrdInv n a nd) (hm : nd'.mem = nd.mem)
    (ho : nd'.order = nd.order) : OrdInv n a nd' := by
  refine ⟨by rw [ho]; exact h.nodup, fun y hy hv => ?_⟩
  rw [ho]
  apply h.all y hy
  unfold Node.view Node.member at *
  rw [← hm]; exact hv

theorem pot_le (n k a x : Nat) (ha : a < n) (nd : Node D) (h : nd.order.Nodup) :
    pot n k a x nd ≤ 2 * (n - 1) + (n - 1) * ((n - 1) - (n - k)) := by
  unfold pot psiPot
  have hL := aliveOrder_length_le n a ha nd h
  have h1 := phiPot_le (aliveOrder n a nd).length nd.pidx (pos x (aliveOrder n a nd))
  have h2 : (n - 1) * ((aliveOrder n a nd).length - (n - k)) ≤ (n - 1) * ((n - 1) - (n - k)) :=
    Nat.mul_le_mul_left _ (by omega)
  omega

theorem ordInv_keep (n a : Nat) {nd nd' : Node D} (hk : Keep nd nd') (hO : OrdInv n a nd) :
    OrdInv n a nd' := by
  refine ⟨by rw [hk.order]; exact hO.nodup, fun y hy hv => ?_⟩
  rw [hk.order]
  exact hO.all y hy (fun hd => hv (hk.dead y hd))

/-- handlers other than the tick: the alive-list shrinks to a sublist, the potential does not grow -/
theorem pot_keep (n k a x : Nat) (ha : a < n) {nd nd' : Node D} (hk : Keep nd nd') (hO : OrdInv n a nd)
    (hx : x ∈ aliveOrder n a nd') (hmin : n - k ≤ (aliveOrder n a nd').length) :
    pot n k a x nd' ≤ pot n k a x nd := by
  have hsub : (aliveOrder n a nd').Sublist (aliveOrder n a nd) := by
    unfold aliveOrder
    rw [hk.order]
    apply filter_sublist_of_imp
    intro y hy
    simp only [Bool.and_eq_true, bne_iff_ne, ne_eq] at hy ⊢
    exact ⟨hy.1, fun hd => hy.2 (hk.dead y hd)⟩
  have hnd := aliveOrder_nodup n a nd hO.nodup
  have hp := pos_sublist x hsub hx hnd
  have hl := hsub.length_le
  have hlt := pos_lt x _ hx
  have hN := aliveOrder_length_le n a ha nd' (by rw [hk.order]; exact hO.nodup)
  unfold pot
  rw [hk.pidx]
  exact psi_shrink _ _ _ _ _ _ _ hl hp.1 hp.2 hlt hN hmin

/-- the probe tick proper (`_next_probe_target`), for every admissible shuffle: either `x` is the
    target, or the potential drops by one; the alive-list keeps its length -/
theorem pot_nextTarget (n k a x : Nat) (nd : Node D) (shuf : List Nat) (hO : OrdInv n a nd)
    (hx : x ∈ aliveOrder n a nd)
    (hsh : (aliveOrder n a nd).length ≤ nd.pidx → shuf.Perm (aliveOrder n a nd)) :
    OrdInv n a (nextTarget n a nd shuf).1 ∧
    (aliveOrder n a (nextTarget n a nd shuf).1).length = (aliveOrder n a nd).length ∧
    ((nextTarget n a nd shuf).2 = some x ∨
      pot n k a x (nextTarget n a nd shuf).1 + 1 ≤ pot n k a x nd) := by
  have hne : (aliveOrder n a nd).isEmpty = false := by
    cases h : aliveOrder n a nd with
    | nil => rw [h] at hx; cases hx
    | cons _ _ => rfl
  have hlt := pos_lt x _ hx
  unfold nextTarget
  simp only [hne, Bool.false_eq_true, if_false]
  by_cases hp : (aliveOrder n a nd).length ≤ nd.pidx
  · -- a new pass: the oracle's permutation becomes the order
    have hperm := hsh hp
    simp only [ge_iff_le, hp, if_true]
    have hal : aliveOrder n a ({ nd with order := shuf, pidx := 1 } : Node D) = shuf := by
      show shuf.filter _ = shuf
      rw [List.filter_eq_self]
      intro y hy
      have := (mem_aliveOrder n a y nd).mp (hperm.mem_iff.mp hy)
      simp only [Bool.and_eq_true, bne_iff_ne, ne_eq]
      exact ⟨this.2.1, this.2.2⟩
    have hxs : x ∈ shuf := hperm.mem_iff.mpr hx
    refine ⟨⟨hperm.nodup_iff.mpr (aliveOrder_nodup n a nd hO.nodup), fun y hy hv => ?_⟩, ?_, ?_⟩
    · exact hperm.mem_iff.mpr ((mem_aliveOrder n a y nd).mpr ⟨hO.all y hy hv, hy, hv⟩)
    · rw [hal]; exact hperm.length_eq
    · by_cases h0 : pos x shuf = 0
      · left
        have := lget_pos x shuf hxs
        rw [h0] at this
        simp only [Nat.zero_mod, this]
      · right
        unfold pot psiPot
        rw [hal, hperm.length_eq]
        have := phi_restart (aliveOrder n a nd).length nd.pidx (pos x (aliveOrder n a nd)) (pos x shuf)
          hp hlt (by omega)
        show phiPot _ 1 _ + _ + 1 ≤ _
        omega
  · -- inside a pass
    simp only [ge_iff_le, hp, if_false]
    have hp' : nd.pidx < (aliveOrder n a nd).length := by omega
    have hal : aliveOrder n a ({ nd with pidx := nd.pidx + 1 } : Node D) = aliveOrder n a nd := rfl
    refine ⟨⟨hO.nodup, hO.all⟩, by rw [hal], ?_⟩
    by_cases h0 : nd.pidx = pos x (aliveOrder n a nd)
    · left
      rw [Nat.mod_eq_of_lt hp', h0, lget_pos x _ hx]
    · right
      unfold pot psiPot
      rw [hal]
      have := phi_advance (aliveOrder n a nd).length nd.pidx (pos x (aliveOrder n a nd)) hp' h0
      show phiPot _ (nd.pidx + 1) _ + _ + 1 ≤ _
      omega

/-- what `_handle_probe_tick` does around `_next_probe_target` -/
theorem onTick_shape (c : Cfg) (a now x : Nat) (shuf : List Nat) (nd : Node D) :
    (onTick c a now shuf nd).1.mem = (nextTarget c.n a (phiCheck c.n a now nd) shuf).1.mem ∧
    (onTick c a now shuf nd).1.order = (nextTarget c.n a (phiCheck c.n a now nd) shuf).1.order ∧
    (onTick c a now shuf nd).1.pidx = (nextTarget c.n a (phiCheck c.n a now nd) shuf).1.pidx ∧
    (onTick c a now shuf nd).1.nextTick = now + c.interval ∧
    ((nextTarget c.n a (phiCheck c.n a now nd) shuf).2 = some x → isMember c.n a x = true →
      (onTick c a now shuf nd).1.pendOf x = some ⟨.ind, now + c.half⟩) := by
  unfold onTick
  simp only []
  split
  · rename_i h
    exact ⟨rfl, rfl, rfl, rfl, fun h' => by rw [h] at h'; cases h'⟩
  · rename_i t h
    split
    · refine ⟨rfl, rfl, rfl, rfl, fun h' _ => ?_⟩
      rw [h] at h'
      have : t = x := by injection h'
      subst this
      show (Node.setPend _ t _).pendOf t = _
      simp
    · rename_i hm
      refine ⟨rfl, rfl, rfl, rfl, fun h' hx => ?_⟩
      rw [h] at h'
      have : t = x := by injection h'
      subst this
      exact absurd hx hm

/-- the probe order stays duplicate-free and complete across a probe tick -/
theorem ordInv_onTick (c : Cfg) (a now : Nat) (shuf : List Nat) (nd : Node D) (hO : OrdInv c.n a nd)
    (hsh : (aliveOrder c.n a (phiCheck c.n a now nd)).length ≤ nd.pidx →
      shuf.Perm (aliveOrder c.n a (phiCheck c.n a now nd))) :
    OrdInv c.n a (onTick c a now shuf nd).1 := by
  obtain ⟨hm, ho, _, _, _⟩ := onTick_shape c a now 0 shuf nd
  have hk := keep_phiCheck c.n a now nd
  have hO1 := ordInv_keep c.n a hk hO
  by_cases hemp : (aliveOrder c.n a (phiCheck c.n a now nd)) = []
  · -- nobody left to probe: the order is not touched
    have : (nextTarget c.n a (phiCheck c.n a now nd) shuf).1 = phiCheck c.n a now nd := by
      unfold nextTarget
      simp [hemp]
    refine hO1.congr (by rw [hm, this]) (by rw [ho, this])
  · obtain ⟨y, hy⟩ := List.exists_mem_of_ne_nil _ hemp
    have hsh' : (aliveOrder c.n a (phiCheck c.n a now nd)).length ≤ (phiCheck c.n a now nd).pidx →
        shuf.Perm (aliveOrder c.n a (phiCheck c.n a now nd)) := by
      rw [hk.pidx]; exact hsh
    exact (pot_nextTarget c.n 0 a y _ shuf hO1 hy hsh').1.congr hm ho

/-- the whole probe tick: with `x` still not DEAD afterwards, either the ack timer for `x` is armed
    or the potential has dropped by one -/
theorem pot_onTick (c : Cfg) (k a now x : Nat) (shuf : List Nat) (nd : Node D) (ha : a < c.n)
    (hxm : isMember c.n a x = true) (hO : OrdInv c.n a nd)
    (hsh : (aliveOrder c.n a (phiCheck c.n a now nd)).length ≤ nd.pidx →
      shuf.Perm (aliveOrder c.n a (phiCheck c.n a now nd))) :
    (onTick c a now shuf nd).1.nextTick = now + c.interval ∧
    ((onTick c a now shuf nd).1.view x ≠ .dead →
      c.n - k ≤ (aliveOrder c.n a (onTick c a now shuf nd).1).length →
      ((onTick c a now shuf nd).1.pendOf x = some ⟨.ind, now + c.half⟩ ∨
        pot c.n k a x (onTick c a now shuf nd).1 + 1 ≤ pot c.n k a x nd)) := by
  obtain ⟨hm, ho, hp, ht, hpend⟩ := onTick_shape c a now x shuf nd
  have hk := keep_phiCheck c.n a now nd
  have hO1 := ordInv_keep c.n a hk hO
  have hview : ∀ y, (onTick c a now shuf nd).1.view y = (phiCheck c.n a now nd).view y := by
    intro y
    unfold Node.view Node.member
    rw [hm, mem_nextTarget]
  refine ⟨ht, fun hv hmin => ?_⟩
  have hx1 : x ∈ aliveOrder c.n a (phiCheck c.n a now nd) := by
    rw [hview] at hv
    exact (mem_aliveOrder _ _ _ _).mpr ⟨hO1.all x hxm hv, hxm, hv⟩
  have hsh' : (aliveOrder c.n a (phiCheck c.n a now nd)).length ≤ (phiCheck c.n a now nd).pidx →
      shuf.Perm (aliveOrder c.n a (phiCheck c.n a now nd)) := by
    rw [hk.pidx]; exact hsh
  obtain ⟨_, hlen, hcase⟩ := pot_nextTarget c.n k a x _ shuf hO1 hx1 hsh'
  have hal : aliveOrder c.n a (onTick c a now shuf nd).1 =
      aliveOrder c.n a (nextTarget c.n a (phiCheck c.n a now nd) shuf).1 := aliveOrder_congr c.n a hm ho
  rcases hcase with h | h
  · exact Or.inl (hpend h hxm)
  · right
    have h1 : pot c.n k a x (phiCheck c.n a now nd) ≤ pot c.n k a x nd :=
      pot_keep c.n k a x ha hk hO hx1 (by rw [← hlen, ← hal]; exact hmin)
    rw [pot_congr c.n k a x hm ho hp]
    omega

end HappyModel.C13
