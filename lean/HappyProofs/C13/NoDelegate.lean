import HappyProofs.C13.Detect
import HappyModel.C13.Spec
/-! Observers that have nobody to relay an indirect probe through: a pair (`n = 2`),
`indirect_probe_count = 0`, or every other peer already DEAD.  The repaired ack-timeout handler
suspects the probed member *before* it looks for delegates, so the no-delegate branch sends nothing
and still leaves the member not-ALIVE with the suspicion timer armed; a lone observer probes its only
peer at every tick. -/
set_option linter.unusedSectionVars false
set_option linter.unusedSimpArgs false
namespace HappyModel.C13
variable {D : Type} [Inhabited D] [Detector D]

/-! ### when there is no delegate -/

theorem mem_delegateCands (n a x y : Nat) (nd : Node D) :
    y ∈ delegateCands n a x nd ↔ y < n ∧ isMember n a y = true ∧ y ≠ x ∧ nd.view y ≠ .dead := by
  unfold delegateCands
  simp [List.mem_filter, and_assoc]

/-- every peer other than the probed one is DEAD: nobody to relay through -/
theorem delegateCands_all_dead (n a x : Nat) (nd : Node D)
    (h : ∀ y, y < n → y ≠ a → y ≠ x → nd.view y = .dead) : delegateCands n a x nd = [] := by
  apply List.eq_nil_iff_forall_not_mem.mpr
  intro y hy
  rw [mem_delegateCands] at hy
  obtain ⟨hn, hm, hx, hd⟩ := hy
  have hya : y ≠ a := by
    intro e; subst e; simp [isMember] at hm
  exact hd (h y hn hya hx)

/-- a pair never has a delegate -/
theorem delegateCands_pair (a x : Nat) (nd : Node D) (ha : a < 2) (hx : x < 2) (hax : a ≠ x) :
    delegateCands 2 a x nd = [] := by
  apply delegateCands_all_dead
  intro y hy hya hyx
  omega

theorem indirectOuts_nil (x : Nat) (ups : List Update) : indirectOuts x ups [] = [] := rfl

theorem upds_suspect_pend (nd : Node D) (x y : Nat) : (suspect nd x).pendOf y = nd.pendOf y := by
  unfold suspect
  simp only []
  split <;> rfl

/-- **node level**: with no delegate (`shuf.take c.indirect = []`: the count is 0, or the shuffled
    candidate list is empty) the repaired handler sends nothing, the probed member is not ALIVE, the
    suspicion timer is armed, and the "suspect" update stays queued for the next message -/
theorem onIndTimeout_no_delegate (c : Cfg) (hfix : c.fix = true) (a now x : Nat) (shuf : List Nat)
    (nd : Node D) (h : shuf.take c.indirect = []) :
    (onIndTimeout c a now x shuf nd).2 = [] ∧
    NA x (onIndTimeout c a now x shuf nd).1 ∧
    (onIndTimeout c a now x shuf nd).1.pendOf x = some ⟨.susp, now + c.susp⟩ ∧
    (onIndTimeout c a now x shuf nd).1.upds = (suspect nd x).upds := by
  refine ⟨?_, na_onIndTimeout_self c hfix a now x shuf nd, ?_, ?_⟩
  · unfold onIndTimeout
    simp only [h, indirectOuts_nil]
  · unfold onIndTimeout
    simp only []
    exact pendOf_setPend_same _ _ _
  · unfold onIndTimeout
    simp only [hfix, h, if_true, List.isEmpty_nil, upds_setPend]

theorem take_zero_or_nil (k : Nat) (shuf : List Nat) (h : k = 0 ∨ shuf = []) : shuf.take k = [] := by
  rcases h with h | h
  · subst h; rfl
  · subst h; simp

/-! ### a lone observer probes its only peer at every tick -/

/-- what `phiCheck` leaves alone, as a predicate preserved by every `phiStep` -/
def Lone (x : Nat) (nd : Node D) : Prop := nd.order = [x] ∧ nd.view x ≠ .dead

theorem lone_suspect (x y : Nat) (nd : Node D) (h : Lone x nd) : Lone x (suspect nd y) := by
  unfold suspect
  simp only []
  split
  · rename_i hst
    refine ⟨h.1, ?_⟩
    show ((nd.setMember y _).member x).st ≠ .dead
    by_cases hx : x = y
    · subst hx; rw [member_setMember_same]; simp
    · rw [member_setMember_other _ _ _ _ hx]; exact h.2
  · exact h

theorem lone_phiStep (a now x : Nat) (nd : Node D) (y : Nat) (h : Lone x nd) :
    Lone x (phiStep a now nd y) := by
  unfold phiStep
  split
  · exact h
  · simp only []
    split
    · exact lone_suspect x y nd h
    · exact h

theorem lone_phiCheck (n a now x : Nat) (nd : Node D) (h : Lone x nd) : Lone x (phiCheck n a now nd) :=
  foldl_pred (Lone x) _ (fun nd y => lone_phiStep a now x nd y) _ nd h

theorem aliveOrder_lone (n a x : Nat) (nd : Node D) (hm : isMember n a x = true) (h : Lone x nd) :
    aliveOrder n a nd = [x] := by
  unfold aliveOrder
  rw [h.1]
  have hv : (nd.view x != MState.dead) = true := by simpa using h.2
  simp [List.filter, hm, hv]

/-- `_next_probe_target` of a lone observer returns its only peer, whether or not the round is
    exhausted (the reshuffle of a one-element list is that list) -/
theorem nextTarget_lone (n a x : Nat) (nd : Node D) (hm : isMember n a x = true) (h : Lone x nd) :
    (nextTarget n a nd [x]).2 = some x ∧ (nextTarget n a nd [x]).1.order = [x] ∧
    (nextTarget n a nd [x]).1.mem = nd.mem ∧ (nextTarget n a nd [x]).1.upds = nd.upds := by
  unfold nextTarget
  simp only [aliveOrder_lone n a x nd hm h, List.isEmpty_cons, Bool.false_eq_true, if_false,
    List.length_cons, List.length_nil]
  split
  · exact ⟨by simp [lget], rfl, rfl, rfl⟩
  · rename_i hp
    have hp0 : nd.pidx = 0 := by omega
    exact ⟨by simp [hp0, lget], h.1, rfl, rfl⟩

/-- **node level**: every probe tick of a lone observer (its probe order is `[x]`, `x` not DEAD)
    probes `x`: one ping to `x`, the ack timeout armed `half` later, the order unchanged -/
theorem onTick_lone (c : Cfg) (a now x : Nat) (nd : Node D) (hm : isMember c.n a x = true)
    (h : Lone x nd) :
    (onTick c a now [x] nd).1.pendOf x = some ⟨.ind, now + c.half⟩ ∧
    Lone x (onTick c a now [x] nd).1 ∧
    (∃ us, (onTick c a now [x] nd).2 = [⟨.ping, x, none, us⟩]) ∧
    (onTick c a now [x] nd).1.nextTick = now + c.interval := by
  have h1 := lone_phiCheck c.n a now x nd h
  obtain ⟨ht, ho, hmem, _⟩ := nextTarget_lone c.n a x _ hm h1
  unfold onTick
  simp only [ht, hm, if_true]
  refine ⟨pendOf_setPend_same _ _ _, ⟨ho, ?_⟩, ⟨_, rfl⟩, trivial⟩
  show (lget default (nextTarget c.n a (phiCheck c.n a now nd) [x]).1.mem x).st ≠ .dead
  rw [hmem]
  exact h1.2

/-! ### system level -/

theorem onSuspTimeout_view_self (x : Nat) (nd : Node D) (h : NA x nd) :
    (onSuspTimeout x nd).view x = .dead := by
  unfold onSuspTimeout
  simp only []
  show (Node.member _ x).st = .dead
  rw [member_setPend]
  split
  · show ((nd.setMember x _).member x).st = .dead
    rw [member_setMember_same]
  · rename_i hs
    unfold NA at h
    rw [view_def] at h
    cases hst : (nd.member x).st
    · exact absurd hst h
    · exact absurd hst hs
    · rfl

theorem step_indTimeout (c : Cfg) (s : Sys D) (a x now : Nat) (shuf : List Nat)
    (ha : s.isCrashed a = false) (hp : (s.node a).pendOf x = some ⟨.ind, now⟩) :
    step c s (.timeout a x now shuf) = s.commit a now (onIndTimeout c a now x shuf (s.node a)) s.soup := by
  simp only [step, ha, hp, Bool.false_eq_true, if_false, bne_self_eq_false]

theorem step_suspTimeout (c : Cfg) (s : Sys D) (a x now : Nat) (shuf : List Nat)
    (ha : s.isCrashed a = false) (hp : (s.node a).pendOf x = some ⟨.susp, now⟩) :
    step c s (.timeout a x now shuf) = s.commit a now (onSuspTimeout x (s.node a), []) s.soup := by
  simp only [step, ha, hp, Bool.false_eq_true, if_false, bne_self_eq_false]

theorem step_tick (c : Cfg) (s : Sys D) (a now : Nat) (shuf : List Nat)
    (ha : s.isCrashed a = false) (ht : (s.node a).nextTick = now) :
    step c s (.tick a now shuf) = s.commit a now (onTick c a now shuf (s.node a)) s.soup := by
  simp only [step, ha, ht, Bool.false_or, bne_self_eq_false, Bool.false_eq_true, if_false]

theorem commit_nothing_sent (s : Sys D) (a now : Nat) (r : Node D × List Out) (soup : List Msg)
    (h : r.2 = []) : (s.commit a now r soup).soup = soup ∧ (s.commit a now r soup).nextId = s.nextId := by
  unfold Sys.commit
  simp [h, stamp, Sys.routed]

/-- the un-acked probe without a delegate, at system level -/
theorem no_delegate_core (c : Cfg) (hfix : c.fix = true) (s : Sys D) (a x now : Nat)
    (shuf : List Nat) (acts : List Act) (ha : s.isCrashed a = false)
    (hp : (s.node a).pendOf x = some ⟨.ind, now⟩) (hd : c.indirect = 0 ∨ shuf = [])
    (hq : QuietRun c a x (step c s (.timeout a x now shuf)) acts) :
    (step c s (.timeout a x now shuf)).soup = s.soup ∧
    (step c s (.timeout a x now shuf)).nextId = s.nextId ∧
    ((step c s (.timeout a x now shuf)).node a).pendOf x = some ⟨.susp, now + c.susp⟩ ∧
    (run c s (.timeout a x now shuf :: acts)).view a x ≠ .alive := by
  have hnd := onIndTimeout_no_delegate c hfix a now x shuf (s.node a) (take_zero_or_nil _ _ hd)
  have hs := step_indTimeout c s a x now shuf ha hp
  have hc := commit_nothing_sent s a now (onIndTimeout c a now x shuf (s.node a)) s.soup hnd.1
  refine ⟨by rw [hs]; exact hc.1, by rw [hs]; exact hc.2, ?_, ?_⟩
  · rw [hs, node_commit_same]; exact hnd.2.2.1
  · have h1 : NA x ((step c s (.timeout a x now shuf)).node a) := by
      rw [hs, node_commit_same]; exact hnd.2.1
    exact na_run c a x _ acts h1 hq

/-- ack timeout, then the suspicion timeout it armed: DEAD (with or without delegates) -/
theorem dead_after_suspicion_core (c : Cfg) (hfix : c.fix = true) (s : Sys D) (a x now : Nat)
    (shuf shuf' : List Nat) (ha : s.isCrashed a = false)
    (hp : (s.node a).pendOf x = some ⟨.ind, now⟩) :
    (run c s [.timeout a x now shuf, .timeout a x (now + c.susp) shuf']).view a x = .dead := by
  have hs := step_indTimeout c s a x now shuf ha hp
  show (step c (step c s (.timeout a x now shuf)) (.timeout a x (now + c.susp) shuf')).view a x = .dead
  rw [hs]
  have ha1 : (s.commit a now (onIndTimeout c a now x shuf (s.node a)) s.soup).isCrashed a = false := by
    rw [crashed_commit]; exact ha
  have hp1 : ((s.commit a now (onIndTimeout c a now x shuf (s.node a)) s.soup).node a).pendOf x =
      some ⟨.susp, now + c.susp⟩ := by
    rw [node_commit_same, onIndTimeout_pend]; simp
  rw [step_suspTimeout c _ a x (now + c.susp) shuf' ha1 hp1]
  unfold Sys.view
  rw [node_commit_same, node_commit_same]
  exact onSuspTimeout_view_self x _ (na_onIndTimeout_self c hfix a now x shuf _)

/-- a lone observer: its next tick probes the only peer, the ack timeout of that probe leaves the peer
    not-ALIVE for the rest of any quiet run -/
theorem lone_observer_core (c : Cfg) (hfix : c.fix = true) (s : Sys D) (a x now : Nat)
    (acts : List Act) (ha : s.isCrashed a = false) (hm : isMember c.n a x = true)
    (hl : Lone x (s.node a)) (ht : (s.node a).nextTick = now)
    (hq : QuietRun c a x (run c s [.tick a now [x], .timeout a x (now + c.half) []]) acts) :
    (run c s (.tick a now [x] :: .timeout a x (now + c.half) [] :: acts)).view a x ≠ .alive := by
  have hs := step_tick c s a now [x] ha ht
  have hl1 := onTick_lone c a now x (s.node a) hm hl
  have ha1 : (step c s (.tick a now [x])).isCrashed a = false := by
    rw [hs, crashed_commit]; exact ha
  have hp1 : ((step c s (.tick a now [x])).node a).pendOf x = some ⟨.ind, now + c.half⟩ := by
    rw [hs, node_commit_same]; exact hl1.1
  have hs2 := step_indTimeout c _ a x (now + c.half) [] ha1 hp1
  have h1 : NA x ((step c (step c s (.tick a now [x])) (.timeout a x (now + c.half) [])).node a) := by
    rw [hs2, node_commit_same]; exact na_onIndTimeout_self c hfix a _ x [] _
  exact na_run c a x _ acts h1 hq

/-- the tick-plus-ack-timeout of a lone observer fits the deadline the judge uses for a pair -/
theorem pair_deadline (k interval half delta c0 now : Nat) (h : now ≤ c0 + delta + interval) :
    now + half ≤ Spec.detectDeadline 2 k interval half delta c0 := by
  unfold Spec.detectDeadline Spec.detectTicks
  have : interval ≤ ((k + 1) * (2 - 1) + 2) * interval := Nat.le_mul_of_pos_left _ (by omega)
  omega

end HappyModel.C13
