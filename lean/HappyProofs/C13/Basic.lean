import HappyModel.C13.Model
/-! Frame lemmas for node-level primitives. -/
set_option linter.unusedSectionVars false
namespace HappyModel.C13
variable {D : Type} [Inhabited D] [Detector D]

@[simp] theorem member_setMember_same (nd : Node D) (x : Nat) (m : Member D) :
    (nd.setMember x m).member x = m := by simp [Node.member, Node.setMember]

theorem member_setMember_other (nd : Node D) (x y : Nat) (m : Member D) (h : y ≠ x) :
    (nd.setMember x m).member y = nd.member y := by
  simp [Node.member, Node.setMember, lget_lset_other _ _ _ _ _ h]

@[simp] theorem member_setPend (nd : Node D) (x y : Nat) (t : Option Timer) :
    (nd.setPend x t).member y = nd.member y := rfl

@[simp] theorem pendOf_setMember (nd : Node D) (x y : Nat) (m : Member D) :
    (nd.setMember x m).pendOf y = nd.pendOf y := rfl

@[simp] theorem upds_setMember (nd : Node D) (x : Nat) (m : Member D) :
    (nd.setMember x m).upds = nd.upds := rfl

@[simp] theorem upds_setPend (nd : Node D) (x : Nat) (t : Option Timer) :
    (nd.setPend x t).upds = nd.upds := rfl

@[simp] theorem pendOf_setPend_same (nd : Node D) (x : Nat) (t : Option Timer) :
    (nd.setPend x t).pendOf x = t := by simp [Node.pendOf, Node.setPend]

theorem pendOf_setPend_other (nd : Node D) (x y : Nat) (t : Option Timer) (h : y ≠ x) :
    (nd.setPend x t).pendOf y = nd.pendOf y := by
  simp [Node.pendOf, Node.setPend, lget_lset_other _ _ _ _ _ h]

theorem view_def (nd : Node D) (x : Nat) : nd.view x = (nd.member x).st := rfl

/-- a fold preserves a reflexive-transitive relation that every step satisfies -/
theorem foldl_rel {α β} (R : α → α → Prop) (hr : ∀ a, R a a) (ht : ∀ a b c, R a b → R b c → R a c)
    (f : α → β → α) (hf : ∀ a b, R a (f a b)) (l : List β) (a : α) : R a (l.foldl f a) := by
  induction l generalizing a with
  | nil => exact hr a
  | cons b bs ih => exact ht _ _ _ (hf a b) (ih (f a b))

/-! ### system-level frame -/

theorem node_commit_same (s : Sys D) (a now : Nat) (r : Node D × List Out) (soup : List Msg) :
    (s.commit a now r soup).node a = r.1 := by simp [Sys.commit, Sys.node]

theorem node_commit_other (s : Sys D) (a b now : Nat) (r : Node D × List Out) (soup : List Msg)
    (h : b ≠ a) : (s.commit a now r soup).node b = s.node b := by
  simp [Sys.commit, Sys.node, lget_lset_other _ _ _ _ _ h]

end HappyModel.C13
