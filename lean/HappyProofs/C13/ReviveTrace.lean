import HappyProofs.C13.Revive
/-! Clause 3 over whole histories: the scan the judge runs (`Spec.reviveTrace`) is the pairwise
clause, and every cell history of the model passes it. -/
set_option linter.unusedSectionVars false
namespace HappyModel.C13
open Spec

theorem aliveOk_noteDead (d : Option Nat) (c c' : Cell) :
    aliveOk (noteDead d c) c' = (aliveOk d c' && reviveOk c c') := by
  unfold noteDead reviveOk
  by_cases hd : c.st = .dead
  · cases d with
    | none =>
      simp only [hd, beq_self_eq_true, if_true, aliveOk, Bool.true_and]
    | some k =>
      simp only [hd, beq_self_eq_true, if_true, aliveOk, Bool.true_and]
      by_cases ha : c'.st = .alive
      · simp only [ha, beq_self_eq_true, Bool.true_and]
        have hm : (c'.inc ≤ max k c.inc) ↔ (c'.inc ≤ k ∨ c'.inc ≤ c.inc) := by omega
        by_cases h1 : c'.inc ≤ k <;> by_cases h2 : c'.inc ≤ c.inc <;> simp [h1, h2, hm]
      · have : (c'.st == MState.alive) = false := by simpa using ha
        simp [this]
  · have : (c.st == MState.dead) = false := by simpa using hd
    simp [this]

/-- the judge's scan = "every earlier/later pair of reports satisfies `reviveOk`" (and every report
    is admissible w.r.t. the DEAD reports `d` made before the list starts) -/
theorem reviveTrace_iff (d : Option Nat) (cs : List Cell) :
    reviveTrace d cs = true ↔ (∀ c ∈ cs, aliveOk d c = true) ∧ cs.Pairwise (fun a b => reviveOk a b = true) := by
  induction cs generalizing d with
  | nil => simp [reviveTrace]
  | cons c cs ih =>
    simp only [reviveTrace, Bool.and_eq_true, ih, List.mem_cons, forall_eq_or_imp, List.pairwise_cons,
      aliveOk_noteDead]
    constructor
    · rintro ⟨h0, h1, h2⟩
      exact ⟨⟨h0, fun a ha => (h1 a ha).1⟩, fun a ha => (h1 a ha).2, h2⟩
    · rintro ⟨⟨h0, h1⟩, h2, h3⟩
      exact ⟨h0, fun a ha => ⟨h1 a ha, h2 a ha⟩, h3⟩

theorem reviveTrace_iff_pairwise (cs : List Cell) :
    reviveTrace none cs = true ↔ cs.Pairwise (fun a b => reviveOk a b = true) := by
  rw [reviveTrace_iff]
  simp [aliveOk]

variable {D : Type} [Inhabited D] [Detector D]

def obsCell (s : Sys D) (a x : Nat) : Spec.Cell := ⟨s.view a x, ((s.node a).member x).inc⟩

/-- the successive reports of the cell (a, x): before the run and after every action -/
def cellTrace (c : Cfg) (a x : Nat) : Sys D → List Act → List Spec.Cell
  | s, [] => [obsCell s a x]
  | s, act :: rest => obsCell s a x :: cellTrace c a x (step c s act) rest

theorem reviveOk_of_srev (s0 s : Sys D) (h : SRev s0 s) (a x : Nat) :
    reviveOk (obsCell s0 a x) (obsCell s a x) = true := by
  have h := h a x
  unfold Spec.reviveOk obsCell Sys.view Node.view
  simp only [Bool.not_eq_true', Bool.and_eq_false_imp, Bool.and_eq_true, beq_iff_eq, decide_eq_false_iff_not,
    Nat.not_le, and_imp]
  intro hd ha
  exact h.2 hd (by rw [ha]; simp)

theorem cellTrace_after (c : Cfg) (a x : Nat) (s0 s : Sys D) (acts : List Act) (h : SRev s0 s) :
    ∀ cell ∈ cellTrace c a x s acts, reviveOk (obsCell s0 a x) cell = true := by
  induction acts generalizing s with
  | nil =>
    intro cell hc
    simp only [cellTrace, List.mem_singleton] at hc
    subst hc; exact reviveOk_of_srev s0 s h a x
  | cons act rest ih =>
    intro cell hc
    simp only [cellTrace, List.mem_cons] at hc
    rcases hc with rfl | hc
    · exact reviveOk_of_srev s0 s h a x
    · exact ih _ (SRev.trans h (srev_step c s act)) cell hc

theorem cellTrace_pairwise (c : Cfg) (a x : Nat) (s : Sys D) (acts : List Act) :
    (cellTrace c a x s acts).Pairwise (fun p q => reviveOk p q = true) := by
  induction acts generalizing s with
  | nil => simp [cellTrace]
  | cons act rest ih =>
    simp only [cellTrace, List.pairwise_cons]
    exact ⟨cellTrace_after c a x s _ rest (srev_step c s act), ih _⟩

end HappyModel.C13
