import HappyProofs.C13.Keep
/-!
Part (a) of the detection bound: a crashed member falls silent.

Schedule hypotheses (`monoRun`: action times do not decrease; `timelyRun`, defined here so that the
lemmas can use it: nothing in flight is older than `δ`).  After `crash x` at time `cx` the crashed
node handles nothing, so every message from `x` still in flight was sent at or before `cx`; under a
timely schedule none of them is in flight when an action later than `cx + δ` happens.  No handler
ever creates an "alive" update (`SNoAlive`).  Together: `QuietTo s a x` before every action later
than `cx + δ` — the hypothesis `QuietRun` of `failure_detected_partial`.
-/
set_option linter.unusedSectionVars false
set_option linter.unusedSimpArgs false
namespace HappyModel.C13
variable {D : Type} [Inhabited D] [Detector D]

/-- simulated time does not run backwards along the action list -/
def monoRun (c : Cfg) : Sys D → List Act → Bool
  | _, [] => true
  | s, act :: rest => decide (s.now ≤ act.time) && monoRun c (step c s act) rest

/-- every message in flight was sent in the past -/
def SentLe (s : Sys D) : Prop := ∀ m ∈ s.soup, m.sent ≤ s.now

theorem now_commit (s : Sys D) (a now : Nat) (r : Node D × List Out) (soup : List Msg) :
    (s.commit a now r soup).now = now := rfl

theorem step_now (c : Cfg) (s s' : Sys D) (now : Nat) (h : Step c s now s') : s'.now = now := by
  cases h <;> rfl

theorem sentle_commit (s : Sys D) (b now : Nat) (r : Node D × List Out) (soup : List Msg)
    (hn : s.now ≤ now) (I : SentLe s) (hsoup : ∀ w ∈ soup, w ∈ s.soup) :
    SentLe (s.commit b now r soup) := by
  intro m hm
  have hm' : m ∈ soup ++ s.routed (stamp b now s.nextId r.2) := hm
  rw [now_commit]
  rcases List.mem_append.mp hm' with h | h
  · exact Nat.le_trans (I m (hsoup m h)) hn
  · obtain ⟨_, hs, _⟩ := mem_stamp _ _ _ _ _ (mem_routed s _ m h).1
    omega

theorem sentle_step (c : Cfg) (s s' : Sys D) (now : Nat) (h : Step c s now s') (hn : s.now ≤ now)
    (I : SentLe s) : SentLe s' := by
  cases h with
  | idle => exact fun m hm => Nat.le_trans (I m hm) hn
  | crash y => exact fun m hm => Nat.le_trans (I m hm) hn
  | net cuts => exact fun m hm => Nat.le_trans (I m hm) hn
  | drop m hm hc => exact fun w hw => Nat.le_trans (I w (List.mem_of_mem_erase hw)) hn
  | tick b shuf hb _ => exact sentle_commit s b now _ _ hn I (fun _ h => h)
  | msg m hm hc => exact sentle_commit s _ now _ _ hn I (fun _ h => List.mem_of_mem_erase h)
  | ind b y shuf t hb hp hk hf => exact sentle_commit s b now _ _ hn I (fun _ h => h)
  | susp b y t hb hp hk hf => exact sentle_commit s b now _ _ hn I (fun _ h => h)

/-! ### crashes are for good -/

theorem crashed_step (c : Cfg) (s s' : Sys D) (now : Nat) (h : Step c s now s') (y : Nat)
    (hy : s.isCrashed y = true) : s'.isCrashed y = true := by
  cases h with
  | crash z =>
    show lget false (lset false s.crashed z true) y = true
    by_cases hyz : y = z
    · subst hyz; simp
    · rw [lget_lset_other _ _ _ _ _ hyz]; exact hy
  | idle => exact hy
  | net cuts => exact hy
  | drop m hm hc => exact hy
  | tick b shuf hb _ => exact hy
  | msg m hm hc => exact hy
  | ind b y' shuf t hb hp hk hf => exact hy
  | susp b y' t hb hp hk hf => exact hy

theorem crashed_run (c : Cfg) (s : Sys D) (acts : List Act) (y : Nat) (hy : s.isCrashed y = true) :
    (run c s acts).isCrashed y = true := by
  induction acts generalizing s with
  | nil => exact hy
  | cons act rest ih => exact ih _ (crashed_step c s _ act.time (step_rel c s act) y hy)

/-- a node that is up at the end was up all along -/
theorem live_of_run (c : Cfg) (s : Sys D) (acts : List Act) (y : Nat)
    (hy : (run c s acts).isCrashed y = false) : s.isCrashed y = false := by
  cases h : s.isCrashed y with
  | false => rfl
  | true => rw [crashed_run c s acts y h] at hy; cases hy

theorem crash_crashes (c : Cfg) (s : Sys D) (x cx : Nat) : (step c s (.crash x cx)).isCrashed x = true := by
  show lget false (lset false s.crashed x true) x = true
  simp

/-! ### what a crashed node has in flight only gets older -/

/-- every message from `x` in flight was sent at or before `T` -/
def FromBound (s : Sys D) (x T : Nat) : Prop := ∀ m ∈ s.soup, m.src = x → m.sent ≤ T

theorem frombound_commit (s : Sys D) (b now x T : Nat) (r : Node D × List Out) (soup : List Msg)
    (hbx : b ≠ x) (I : FromBound s x T) (hsoup : ∀ w ∈ soup, w ∈ s.soup) :
    FromBound (s.commit b now r soup) x T := by
  intro m hm hsrc
  have hm' : m ∈ soup ++ s.routed (stamp b now s.nextId r.2) := hm
  rcases List.mem_append.mp hm' with h | h
  · exact I m (hsoup m h) hsrc
  · obtain ⟨hs, _, _⟩ := mem_stamp _ _ _ _ _ (mem_routed s _ m h).1
    exact absurd (hs.symm.trans hsrc) hbx

theorem frombound_step (c : Cfg) (s s' : Sys D) (now x T : Nat) (h : Step c s now s')
    (hx : s.isCrashed x = true) (I : FromBound s x T) : FromBound s' x T := by
  have ne_of_live : ∀ b, s.isCrashed b = false → b ≠ x := by
    intro b hb e; rw [e, hx] at hb; cases hb
  cases h with
  | idle => exact I
  | crash y => exact I
  | net cuts => exact I
  | drop m hm hc => exact fun w hw => I w (List.mem_of_mem_erase hw)
  | tick b shuf hb _ => exact frombound_commit s b now x T _ _ (ne_of_live b hb) I (fun _ h => h)
  | msg m hm hc =>
    exact frombound_commit s _ now x T _ _ (ne_of_live _ hc) I (fun _ h => List.mem_of_mem_erase h)
  | ind b y shuf t hb hp hk hf => exact frombound_commit s b now x T _ _ (ne_of_live b hb) I (fun _ h => h)
  | susp b y t hb hp hk hf => exact frombound_commit s b now x T _ _ (ne_of_live b hb) I (fun _ h => h)

/-- timely schedule, as in `Props` (`timelyRun` there is this function) -/
def timelyRun (c : Cfg) (δ : Nat) : Sys D → List Act → Bool
  | _, [] => true
  | s, act :: rest => s.soup.all (fun m => decide (act.time ≤ m.sent + δ)) && (step c s act).whole &&
      timelyRun c δ (step c s act) rest

/-- `QuietTo` holds before every action later than `T` -/
def QuietAfter (c : Cfg) (a x T : Nat) : Sys D → List Act → Prop
  | _, [] => True
  | s, act :: rest => (T < act.time → QuietTo s a x) ∧ QuietAfter c a x T (step c s act) rest

/-- the state in which a crashed member has fallen silent towards everybody: nothing of it is in
    flight when an action later than `T + δ` happens -/
theorem quiet_of_frombound (δ : Nat) (s : Sys D) (a x T t : Nat) (hN : SNoAlive s)
    (hF : FromBound s x T) (ht : ∀ m ∈ s.soup, t ≤ m.sent + δ) (hlate : T + δ < t) : QuietTo s a x := by
  intro m hm _
  refine ⟨fun hsrc => ?_, (hN.soup m hm).not_hasAlive x⟩
  have h1 := hF m hm hsrc
  have h2 := ht m hm
  omega

theorem quietAfter_run (c : Cfg) (δ : Nat) (s : Sys D) (acts : List Act) (a x cx : Nat)
    (hN : SNoAlive s) (hx : s.isCrashed x = true) (hF : FromBound s x cx)
    (ht : timelyRun c δ s acts = true) : QuietAfter c a x (cx + δ) s acts := by
  induction acts generalizing s with
  | nil => trivial
  | cons act rest ih =>
    simp only [timelyRun, Bool.and_eq_true, List.all_eq_true, decide_eq_true_eq] at ht
    have hst := step_rel c s act
    refine ⟨fun hlate => quiet_of_frombound δ s a x cx act.time hN hF ht.1.1 hlate, ?_⟩
    exact ih _ (snoalive_step c s _ _ hst hN) (crashed_step c s _ _ hst x hx)
      (frombound_step c s _ _ x cx hst hx hF) ht.2

/-- a quiet-after run all of whose actions are late is a `QuietRun` -/
theorem quietRun_of_after (c : Cfg) (a x T : Nat) (s : Sys D) (acts : List Act)
    (hq : QuietAfter c a x T s acts) (hl : ∀ act ∈ acts, T < act.time) : QuietRun c a x s acts := by
  induction acts generalizing s with
  | nil => trivial
  | cons act rest ih =>
    exact ⟨hq.1 (hl act (by simp)), ih _ hq.2 (fun b hb => hl b (by simp [hb]))⟩

/-! ### global invariants from the initial state -/

theorem snoalive_run (c : Cfg) (s : Sys D) (acts : List Act) (I : SNoAlive s) : SNoAlive (run c s acts) := by
  induction acts generalizing s with
  | nil => exact I
  | cons act rest ih => exact ih _ (snoalive_step c s _ _ (step_rel c s act) I)

theorem sentle_run (c : Cfg) (s : Sys D) (acts : List Act) (hm : monoRun c s acts = true) (I : SentLe s) :
    SentLe (run c s acts) := by
  induction acts generalizing s with
  | nil => exact I
  | cons act rest ih =>
    simp only [monoRun, Bool.and_eq_true, decide_eq_true_eq] at hm
    exact ih _ hm.2 (sentle_step c s _ _ (step_rel c s act) hm.1 I)

theorem monoRun_append (c : Cfg) (s : Sys D) (l1 l2 : List Act) :
    monoRun c s (l1 ++ l2) = (monoRun c s l1 && monoRun c (run c s l1) l2) := by
  induction l1 generalizing s with
  | nil => simp [monoRun, run]
  | cons act rest ih => simp only [List.cons_append, monoRun, run, ih, Bool.and_assoc]

theorem timelyRun_append (c : Cfg) (δ : Nat) (s : Sys D) (l1 l2 : List Act) :
    timelyRun c δ s (l1 ++ l2) = (timelyRun c δ s l1 && timelyRun c δ (run c s l1) l2) := by
  induction l1 generalizing s with
  | nil => simp [timelyRun, run]
  | cons act rest ih => simp only [List.cons_append, timelyRun, run, ih, Bool.and_assoc]

theorem run_append (c : Cfg) (s : Sys D) (l1 l2 : List Act) :
    run c s (l1 ++ l2) = run c (run c s l1) l2 := by
  induction l1 generalizing s with
  | nil => rfl
  | cons act rest ih => simp only [List.cons_append, run, ih]

theorem run_now_le (c : Cfg) (s : Sys D) (acts : List Act) (hm : monoRun c s acts = true) :
    s.now ≤ (run c s acts).now := by
  induction acts generalizing s with
  | nil => exact Nat.le_refl _
  | cons act rest ih =>
    simp only [monoRun, Bool.and_eq_true, decide_eq_true_eq] at hm
    have := ih _ hm.2
    rw [step_now c s _ _ (step_rel c s act)] at this
    exact Nat.le_trans hm.1 this

/-- **part (a)**: from a state with no "alive" update anywhere and nothing in flight from the
    future, a crash of `x` at `cx` followed by any timely, time-monotone action list is quiet
    towards every `a` for `x` after `cx + δ`: nothing from `x` in flight older than `δ`, nothing
    sent by `x` afterwards, and nobody vouches for `x`. -/
theorem crash_quiet_core (c : Cfg) (δ : Nat) (s : Sys D) (post : List Act) (a x cx : Nat)
    (hN : SNoAlive s) (hS : SentLe s) (hnow : s.now ≤ cx)
    (ht : timelyRun c δ s (.crash x cx :: post) = true) :
    QuietAfter c a x (cx + δ) (step c s (.crash x cx)) post := by
  simp only [timelyRun, Bool.and_eq_true] at ht
  have hst := step_rel c s (.crash x cx)
  refine quietAfter_run c δ _ post a x cx (snoalive_step c s _ _ hst hN) (crash_crashes c s x cx) ?_ ht.2
  intro m hm _
  have : m ∈ s.soup := hm
  exact Nat.le_trans (hS m this) hnow

end HappyModel.C13
