import HappyProofs.C13.SafetyNode
/-! System-level invariant behind `no_false_death`. -/
set_option linter.unusedSectionVars false
set_option linter.unusedSimpArgs false
namespace HappyModel.C13
variable {D : Type} [Inhabited D] [Detector D]

def Sys.live (s : Sys D) (x : Nat) : Prop := s.isCrashed x = false

/-- what `step` can do, with the enabling facts spelled out -/
inductive Step (c : Cfg) (s : Sys D) (now : Nat) : Sys D → Prop
  | idle : Step c s now { s with now := now }
  | crash (x : Nat) : Step c s now { s with now := now, crashed := lset false s.crashed x true }
  | net (cuts : List (List (Nat × Nat))) : Step c s now { s with now := now, cuts := cuts }
  | drop (m : Msg) (hm : m ∈ s.soup) (hc : s.isCrashed m.dst = true) :
      Step c s now { s with now := now, soup := s.soup.erase m }
  | tick (a : Nat) (shuf : List Nat) (ha : s.isCrashed a = false) (ht : (s.node a).nextTick = now) :
      Step c s now (s.commit a now (onTick c a now shuf (s.node a)) s.soup)
  | msg (m : Msg) (hm : m ∈ s.soup) (hc : s.isCrashed m.dst = false) :
      Step c s now (s.commit m.dst now (handleMsg c m.dst now m (s.node m.dst)) (s.soup.erase m))
  | ind (a x : Nat) (shuf : List Nat) (t : Timer) (ha : s.isCrashed a = false)
      (hp : (s.node a).pendOf x = some t) (hk : t.kind = .ind) (hf : t.fire = now) :
      Step c s now (s.commit a now (onIndTimeout c a now x shuf (s.node a)) s.soup)
  | susp (a x : Nat) (t : Timer) (ha : s.isCrashed a = false)
      (hp : (s.node a).pendOf x = some t) (hk : t.kind = .susp) (hf : t.fire = now) :
      Step c s now (s.commit a now (onSuspTimeout x (s.node a), []) s.soup)

theorem step_rel (c : Cfg) (s : Sys D) (act : Act) : Step c s act.time (step c s act) := by
  cases act with
  | tick a now shuf =>
    simp only [step, Act.time]
    split
    · exact Step.idle
    · rename_i h
      have ha : s.isCrashed a = false := by
        cases hc : s.isCrashed a <;> simp_all
      have ht : (s.node a).nextTick = now := by
        cases hc : s.isCrashed a <;> simp_all
      exact Step.tick a shuf ha ht
  | deliver id now =>
    simp only [step, Act.time]
    split
    · exact Step.idle
    · rename_i m hfind
      have hm : m ∈ s.soup := List.mem_of_find?_eq_some hfind
      split
      · rename_i hc; exact Step.drop m hm hc
      · rename_i hc
        exact Step.msg m hm (by simpa using hc)
  | timeout a x now shuf =>
    simp only [step, Act.time]
    split
    · exact Step.idle
    · rename_i ha
      split
      · exact Step.idle
      · rename_i t hp
        split
        · exact Step.idle
        · rename_i hf
          have hf' : t.fire = now := by simpa using hf
          split
          · rename_i hk; exact Step.ind a x shuf t (by simpa using ha) hp hk hf'
          · rename_i hk; exact Step.susp a x t (by simpa using ha) hp hk hf'
  | crash x now => exact Step.crash x
  | cut h ga gb now => exact Step.net _
  | heal h now => exact Step.net _

/-! ### evidence that an armed timer will be cancelled in time -/

def deadlineOf (susp : Nat) (t : Timer) : Nat :=
  match t.kind with
  | .ind => t.fire + susp
  | .susp => t.fire

/-- a ping `a → x` or an ack `x → a` is in flight and its (round-trip) deadline is before `F` -/
def Evid (δ : Nat) (soup : List Msg) (a x F : Nat) : Prop :=
  ∃ m ∈ soup, (m.kind = .ping ∧ m.src = a ∧ m.dst = x ∧ m.sent + δ + δ < F) ∨
              (m.kind = .ack ∧ m.src = x ∧ m.dst = a ∧ m.sent + δ < F)

theorem Evid.mono {δ : Nat} {soup soup' : List Msg} {a x F : Nat}
    (h : Evid δ soup a x F) (hs : ∀ m ∈ soup, m ∈ soup') : Evid δ soup' a x F := by
  obtain ⟨m, hm, hc⟩ := h
  exact ⟨m, hs m hm, hc⟩

structure Inv (c : Cfg) (δ : Nat) (s : Sys D) : Prop where
  /-- no partition is active: the network routes everything it is handed -/
  whole : s.whole = true
  pendMem : ∀ a x t, (s.node a).pendOf x = some t → isMember c.n a x = true
  clean : ∀ a x, s.live x → Clean x (s.node a)
  soupClean : ∀ m ∈ s.soup, ∀ x, s.live x → ¬ hasDead x m.upds
  evid : ∀ a x t, s.live a → s.live x → (s.node a).pendOf x = some t →
    Evid δ s.soup a x (deadlineOf c.susp t)

def TimelyAt (δ : Nat) (s : Sys D) (now : Nat) : Prop := ∀ m ∈ s.soup, now ≤ m.sent + δ

/-! ### stamping -/

theorem mem_stamp (a now : Nat) (k : Nat) (os : List Out) (m : Msg) (h : m ∈ stamp a now k os) :
    m.src = a ∧ m.sent = now ∧ ∃ o ∈ os, m.kind = o.kind ∧ m.dst = o.dst ∧ m.upds = o.upds := by
  induction os generalizing k with
  | nil => simp [stamp] at h
  | cons o os ih =>
    simp only [stamp, List.mem_cons] at h
    rcases h with rfl | h
    · exact ⟨rfl, rfl, o, by simp, rfl, rfl, rfl⟩
    · obtain ⟨h1, h2, o', ho', h3⟩ := ih _ h
      exact ⟨h1, h2, o', by simp [ho'], h3⟩

theorem pairIn_nil (a b : Nat) : pairIn [] a b = false := rfl

theorem blocked_of_whole (s : Sys D) (h : s.whole = true) (a b : Nat) : s.blocked a b = false := by
  unfold Sys.blocked
  unfold Sys.whole at h
  rw [List.all_eq_true] at h
  rw [List.any_eq_false]
  intro ps hps
  have := h ps hps
  have hnil : ps = [] := by simpa using this
  subst hnil
  simp [pairIn_nil]

theorem routed_of_whole (s : Sys D) (h : s.whole = true) (ms : List Msg) : s.routed ms = ms := by
  unfold Sys.routed
  rw [List.filter_eq_self]
  intro m _
  simp [blocked_of_whole s h]

/-- with no active partition every sent message enters the soup -/
theorem soup_commit (s : Sys D) (a now : Nat) (r : Node D × List Out) (soup : List Msg)
    (h : s.whole = true) :
    (s.commit a now r soup).soup = soup ++ stamp a now s.nextId r.2 := by
  show soup ++ s.routed (stamp a now s.nextId r.2) = _
  rw [routed_of_whole s h]

theorem whole_commit (s : Sys D) (a now : Nat) (r : Node D × List Out) (soup : List Msg) :
    (s.commit a now r soup).whole = s.whole := rfl

theorem crashed_commit (s : Sys D) (a now : Nat) (r : Node D × List Out) (soup : List Msg) :
    (s.commit a now r soup).isCrashed = s.isCrashed := rfl

/-! ### `_pending_acks` after each handler -/

theorem onTick_pend (c : Cfg) (a now : Nat) (shuf : List Nat) (nd : Node D) (y : Nat) :
    (onTick c a now shuf nd).1.pendOf y = nd.pendOf y ∨
    ((onTick c a now shuf nd).1.pendOf y = some ⟨.ind, now + c.half⟩ ∧ isMember c.n a y = true ∧
      ∃ us, (onTick c a now shuf nd).2 = [⟨.ping, y, none, us⟩]) := by
  unfold onTick
  simp only []
  have hbase : (nextTarget c.n a (phiCheck c.n a now nd) shuf).1.pendOf y = nd.pendOf y := by
    rw [pendOf_nextTarget, pendOf_phiCheck]
  split
  · exact Or.inl hbase
  · rename_i t _
    split
    · rename_i hmem
      by_cases hy : y = t
      · subst hy
        refine Or.inr ⟨?_, hmem, _, rfl⟩
        show (Node.setPend _ y _).pendOf y = _
        simp
      · refine Or.inl ?_
        show (Node.setPend _ t _).pendOf y = _
        rw [pendOf_setPend_other _ _ _ _ hy]; exact hbase
    · exact Or.inl hbase

theorem onAck_pend (c : Cfg) (a now : Nat) (m : Msg) (nd : Node D) (y : Nat) :
    (onAck c a now m nd).1.pendOf y =
      if isMember c.n a m.src = true ∧ y = m.src then none else nd.pendOf y := by
  unfold onAck
  simp only []
  split
  · rename_i hmem
    by_cases hy : y = m.src
    · subst hy; simp [hmem]
    · rw [pendOf_setPend_other _ _ _ _ hy, pendOf_heard, pendOf_applyUpdates]; simp [hy]
  · rename_i hmem
    simp only [hmem, false_and, if_false]
    exact pendOf_applyUpdates _ _ _ _ _

theorem onIndTimeout_pend (c : Cfg) (a now x : Nat) (shuf : List Nat) (nd : Node D) (y : Nat) :
    (onIndTimeout c a now x shuf nd).1.pendOf y =
      if y = x then some ⟨.susp, now + c.susp⟩ else nd.pendOf y := by
  unfold onIndTimeout
  simp only []
  have h0 : Node.pendOf (if c.fix then suspect nd x else nd) y = nd.pendOf y := by
    split
    · exact pendOf_suspect _ _ _
    · rfl
  revert h0
  generalize (if c.fix = true then suspect nd x else nd) = nd0
  intro h0
  by_cases hy : y = x
  · subst hy; simp
  · rw [pendOf_setPend_other _ _ _ _ hy]
    simp only [hy, if_false]
    rw [← h0]
    split <;> rfl

theorem onSuspTimeout_pend (x : Nat) (nd : Node D) (y : Nat) :
    (onSuspTimeout x nd).pendOf y = if y = x then none else nd.pendOf y := by
  unfold onSuspTimeout
  simp only []
  by_cases hy : y = x
  · subst hy; simp
  · rw [pendOf_setPend_other _ _ _ _ hy]
    simp only [hy, if_false]
    split <;> rfl

theorem live_crash {s : Sys D} {x y now : Nat}
    (h : Sys.live ({ s with now := now, crashed := lset false s.crashed x true } : Sys D) y) :
    s.live y := by
  unfold Sys.live Sys.isCrashed at *
  by_cases hy : y = x
  · subst hy; simp at h
  · simpa [lget_lset_other _ _ _ _ _ hy] using h

end HappyModel.C13
