import HappyProofs.C01.TraceLive
/-!
# C01 — clause 6 with the crash-window exemption, on the trace of a model with a crash gate

A `GateModel` says what the crash predicate of a machine is made of: a per-entity `down` flag in the
user's state that handlers switch (`entity._crashed`), with the gate consulting the flag of the
popped event's target.  The trace of such a model carries a `C` / `U` line for every entity whose
flag a handler changed (`GateModel.flags`).  Then the judge's exemption is exactly right:

* `gated_event_is_exempt` : an event the model dropped at the gate has its target down at some moment
  of the stretch of the trace in which it falls due (`Spec.mayBeDown`);
* `engine_trace_no_lost_event_gate` / `engine_trace_satisfies_spec_gate` : clause 6 / the whole judge
  on finished runs of machines *with* a crash gate.
-/
namespace HappyModel.C01
open HappyModel.C01.Spec (Trace Created Deliv)
set_option linter.unusedVariables false
set_option linter.unusedSimpArgs false

variable {σ : Type}

structure GateModel (mc : Machine σ) where
  /-- `entity._crashed` -/
  down : σ → Nat → Bool
  /-- the entities that may be down in a state -/
  support : σ → List Nat
  supp : ∀ ent x, down ent x = true → x ∈ support ent
  /-- the gate drops an event only if its target is down -/
  sound : ∀ ent e, mc.crashed ent e = true → down ent e.target = true

/-- the `C` / `U` lines of a handler that took the state from `a` to `b` -/
def GateModel.flags {mc : Machine σ} (g : GateModel mc) (a b : σ) : List (Nat × Bool) :=
  ((g.support a ++ g.support b).filter (fun x => g.down a x != g.down b x)).map (fun x => (x, g.down b x))

theorem mkFlags_mem (p : Nat) (l : List (Nat × Bool)) :
    ∀ f ∈ mkFlags p l, (f.1, f.2.1) ∈ l ∧ p ≤ f.2.2 ∧ f.2.2 < p + l.length := by
  induction l generalizing p with
  | nil => intro f h; simp [mkFlags] at h
  | cons a r ih =>
    intro f h
    simp only [mkFlags, List.mem_cons] at h
    rcases h with rfl | h
    · exact ⟨by simp, Nat.le_refl _, by simp⟩
    · obtain ⟨h1, h2, h3⟩ := ih (p + 1) f h
      exact ⟨by simp [h1], by omega, by simp only [List.length_cons]; omega⟩

theorem mkFlags_of_mem (p : Nat) (l : List (Nat × Bool)) : ∀ a ∈ l, ∃ f ∈ mkFlags p l, f.1 = a.1 ∧ f.2.1 = a.2 := by
  induction l generalizing p with
  | nil => intro a h; simp at h
  | cons b r ih =>
    intro a h
    rcases List.mem_cons.mp h with rfl | h
    · exact ⟨(a.1, a.2, p), by simp [mkFlags], rfl, rfl⟩
    · obtain ⟨f, hf, h1, h2⟩ := ih (p + 1) a h
      exact ⟨f, by simp [mkFlags, hf], h1, h2⟩

/-- a list with an element satisfying `P` splits at the last such element -/
theorem exists_last_split {α} (P : α → Prop) [DecidablePred P] (l : List α) (h : ∃ a ∈ l, P a) :
    ∃ A g B, l = A ++ g :: B ∧ P g ∧ ∀ b ∈ B, ¬ P b := by
  induction l with
  | nil => obtain ⟨a, ha, _⟩ := h; simp at ha
  | cons x r ih =>
    by_cases hr : ∃ a ∈ r, P a
    · obtain ⟨A, g, B, hl, hg, hB⟩ := ih hr
      exact ⟨x :: A, g, B, by simp [hl], hg, hB⟩
    · obtain ⟨a, ha, hpa⟩ := h
      rcases List.mem_cons.mp ha with rfl | ha
      · exact ⟨[], a, r, rfl, hpa, fun b hb hpb => hr ⟨b, hb, hpb⟩⟩
      · exact absurd ⟨a, ha, hpa⟩ hr

/-- the judge's `downDuring`, from the last line of the entity before a position `L` inside the stretch -/
theorem downDuring_of_split (flags A B : List (Nat × Bool × Nat)) (g : Nat × Bool × Nat) (x lo hi L : Nat)
    (hf : flags = A ++ g :: B) (hgx : g.1 = x) (hgd : g.2.1 = true) (hgL : g.2.2 < L)
    (hB : ∀ f ∈ B, f.1 = x → L ≤ f.2.2) (hlo : lo ≤ L) (hhi : L ≤ hi) :
    Spec.downDuring flags x lo hi = true := by
  unfold Spec.downDuring
  simp only [Bool.or_eq_true]
  by_cases hpos : lo ≤ g.2.2
  · right
    rw [List.any_eq_true]
    refine ⟨g, ?_, ?_⟩
    · rw [hf]; simp [hgx]
    · simp [hgd]; omega
  · left
    have hglt : g.2.2 < lo := by omega
    have hBf : (B.filter (fun f => f.1 == x)).filter (fun f => decide (f.2.2 < lo)) = [] := by
      rw [List.filter_eq_nil_iff]
      intro f hf'
      have hmem := List.mem_filter.mp hf'
      have := hB f hmem.1 (by simpa using hmem.2)
      simp; omega
    have : ((flags.filter (fun f => f.1 == x)).filter (fun f => decide (f.2.2 < lo)))
        = ((A.filter (fun f => f.1 == x)).filter (fun f => decide (f.2.2 < lo))) ++ [g] := by
      rw [hf]
      simp only [List.filter_append, List.filter_cons, hgx, beq_self_eq_true, if_true, hglt, decide_true, hBf,
        List.append_nil]
    rw [this, List.getLast?_concat]
    simp [hgd]

/-- the link for the `C` / `U` lines and for the events dropped at the gate -/
structure TG {mc : Machine σ} (gm : GateModel mc) (s : St σ) (t : Trace) : Prop where
  pos_f : ∀ f ∈ t.flags, f.2.2 < t.len
  fd : ∀ x, gm.down s.ent x = true →
      ∃ A g B, t.flags = A ++ g :: B ∧ g.1 = x ∧ g.2.1 = true ∧ ∀ f ∈ B, f.1 ≠ x
  gate_now : ∀ e, (e, Verdict.gated) ∈ s.popped → e.time ≤ s.now
  gate_heap : ∀ e, (e, Verdict.gated) ∈ s.popped → ∀ h ∈ s.heap, s.now ≤ h.time → keyLt e h = true
  gate_rec : ∀ e, (e, Verdict.gated) ∈ s.popped → ∃ L A g B, L ≤ t.len ∧ t.flags = A ++ g :: B ∧
      g.1 = e.target ∧ g.2.1 = true ∧ g.2.2 < L ∧ (∀ f ∈ B, f.1 = e.target → L ≤ f.2.2) ∧
      (∃ p, cOf e p ∈ t.created ∧ p < L) ∧
      (∀ d ∈ t.delivs, d.pos < L → (d.clock < e.time ∨ (d.clock = e.time ∧ d.tag < e.id + 1))) ∧
      (∀ d ∈ t.delivs, L ≤ d.pos → (e.time < d.clock ∨ (d.clock = e.time ∧ e.id + 1 < d.tag)))

theorem TG_skip {mc : Machine σ} (gm : GateModel mc) (s : St σ) (t : Trace) (m : Ev) (v : Verdict) (a b c prim : Nat)
    (hv : v ≠ .gated) (h : TG gm s t) :
    TG gm { s with heap := s.heap.erase m, primary := prim, now := s.now, processed := a, nCancelled := b,
                   nStale := c, popped := s.popped ++ [(m, v)] } t := by
  have old : ∀ e, (e, Verdict.gated) ∈ s.popped ++ [(m, v)] → (e, Verdict.gated) ∈ s.popped := by
    intro e he
    rcases List.mem_append.mp he with he | he
    · exact he
    · simp only [List.mem_singleton, Prod.mk.injEq] at he
      exact absurd he.2.symm hv
  exact
    { pos_f := h.pos_f, fd := h.fd, gate_now := fun e he => h.gate_now e (old e he),
      gate_heap := fun e he x hx hn => h.gate_heap e (old e he) x (List.mem_of_mem_erase hx) hn,
      gate_rec := fun e he => h.gate_rec e (old e he) }

theorem TG_step {mc : Machine σ} (gm : GateModel mc) (endT : Option Nat) (s : St σ) (t : Trace) (m : Ev)
    (hm : m ∈ s.heap) (hmin : ∀ y ∈ s.heap, keyLt y m = false)
    (inv : Inv s) (ti : TI s t) (tj : TJ mc endT s t) (h : TG gm s t) :
    TG gm (stepWith mc s m) (traceStep gm.flags mc s t m) := by
  unfold stepWith traceStep
  simp only []
  split
  · exact TG_skip gm s t m .cancelled _ _ _ _ (by simp) h
  · split
    · exact TG_skip gm s t m .stale _ _ _ _ (by simp) h
    · rename_i hnc hns
      have hnow : s.now ≤ m.time := by omega
      have hne : ∀ e ∈ s.heap.erase m, e.id ≠ m.id := fun e he => ne_id_of_mem_erase inv.nodup hm he
      have hold : ∀ e ∈ s.heap.erase m, keyLt m e = true := fun e he =>
        keyLt_of_not (hne e he) (hmin e (List.mem_of_mem_erase he))
      split
      · -- dropped at the gate: a record for `m`
        rename_i hg
        have hdown := gm.sound s.ent m hg
        obtain ⟨A, g, B, hfl, hgx, hgd, hB⟩ := h.fd m.target hdown
        have hgpos : g.2.2 < t.len := h.pos_f g (by rw [hfl]; simp)
        obtain ⟨p, hp⟩ := ti.cre_heap m hm
        have hppos := tj.pos_c _ hp
        refine
          { pos_f := h.pos_f, fd := h.fd, gate_now := ?_, gate_heap := ?_, gate_rec := ?_ }
        · intro e he
          rcases List.mem_append.mp he with he | he
          · have := h.gate_now e he; simp only []; omega
          · simp only [List.mem_singleton, Prod.mk.injEq] at he
            obtain ⟨rfl, _⟩ := he
            exact Nat.le_refl _
        · intro e he x hx hn
          rcases List.mem_append.mp he with he | he
          · exact h.gate_heap e he x (List.mem_of_mem_erase hx) (by simp only [] at hn; omega)
          · simp only [List.mem_singleton, Prod.mk.injEq] at he
            obtain ⟨rfl, _⟩ := he
            exact hold x hx
        · intro e he
          rcases List.mem_append.mp he with he | he
          · exact h.gate_rec e he
          · simp only [List.mem_singleton, Prod.mk.injEq] at he
            obtain ⟨rfl, _⟩ := he
            refine ⟨t.len, A, g, B, Nat.le_refl _, hfl, hgx, hgd, hgpos, ?_, ⟨p, hp, by simpa [cOf] using hppos⟩, ?_, ?_⟩
            · intro f hf hfx; exact absurd hfx (hB f hf)
            · intro d hd _
              have hk : dkey d ∈ s.log.map ekey := by
                rw [← ti.delivs_eq]; exact List.mem_map.mpr ⟨d, hd, rfl⟩
              obtain ⟨e', he', hk'⟩ := List.mem_map.mp hk
              have h1 : d.tag = e'.id + 1 := (congrArg (·.1) hk').symm
              have h2 : d.clock = e'.time := (congrArg (·.2.1) hk').symm
              have := inv.log_lt_heap e' he' e hm hnow
              unfold keyLt at this
              simp at this
              omega
            · intro d hd hL
              have := ti.pos_d d hd
              omega
      · -- delivered
        generalize ho : mc.handle s.ent m.time m = o
        have hnew := mkEvents_id s.nextId m.time o.specs
        have hmk : keyLt m m = false := keyLt_irrefl m
        refine
          { pos_f := ?_, fd := ?_, gate_now := ?_, gate_heap := ?_, gate_rec := ?_ }
        · intro f hf
          rcases List.mem_append.mp hf with hf | hf
          · have := h.pos_f f hf; simp only []; omega
          · have := (mkFlags_mem _ _ f hf).2.2
            simp only []; omega
        · intro x hx
          simp only [] at hx
          by_cases hchg : gm.down s.ent x = gm.down o.ent x
          · -- unchanged: the old last line, no new line for `x`
            obtain ⟨A, g, B, hfl, hgx, hgd, hB⟩ := h.fd x (by rw [hchg]; exact hx)
            refine ⟨A, g, B ++ mkFlags (t.len + 1 + (mkEvents s.nextId m.time o.specs).length + o.cancels.length)
              (gm.flags s.ent o.ent), by simp [hfl], hgx, hgd, ?_⟩
            intro f hf
            rcases List.mem_append.mp hf with hf | hf
            · exact hB f hf
            · intro hfx
              have hmem := (mkFlags_mem _ _ f hf).1
              unfold GateModel.flags at hmem
              obtain ⟨y, hy, hyf⟩ := List.mem_map.mp hmem
              have hyx : y = x := by
                have := congrArg (·.1) hyf; simp at this; omega
              have := (List.mem_filter.mp hy).2
              simp [hyx, hchg] at this
          · -- changed to down: a new `C` line for `x`
            have hxs : x ∈ gm.support s.ent ++ gm.support o.ent :=
              List.mem_append_right _ (gm.supp o.ent x hx)
            have hin : (x, gm.down o.ent x) ∈ gm.flags s.ent o.ent := by
              unfold GateModel.flags
              exact List.mem_map.mpr ⟨x, List.mem_filter.mpr ⟨hxs, by simpa using hchg⟩, rfl⟩
            obtain ⟨f0, hf0, hf01, hf02⟩ := mkFlags_of_mem
              (t.len + 1 + (mkEvents s.nextId m.time o.specs).length + o.cancels.length) _ _ hin
            obtain ⟨A, g, B, hl, hg, hB⟩ := exists_last_split (fun f : Nat × Bool × Nat => f.1 = x)
              (mkFlags (t.len + 1 + (mkEvents s.nextId m.time o.specs).length + o.cancels.length)
                (gm.flags s.ent o.ent)) ⟨f0, hf0, hf01⟩
            refine ⟨t.flags ++ A, g, B, by simp [hl], hg, ?_, hB⟩
            have hgm : g ∈ mkFlags (t.len + 1 + (mkEvents s.nextId m.time o.specs).length + o.cancels.length)
                (gm.flags s.ent o.ent) := by rw [hl]; simp
            have hmem := (mkFlags_mem _ _ g hgm).1
            unfold GateModel.flags at hmem
            obtain ⟨y, hy, hyf⟩ := List.mem_map.mp hmem
            have hyx : y = x := by
              have := congrArg (·.1) hyf; simp at this; omega
            have := congrArg (·.2) hyf
            simp at this
            rw [← this, hyx]; exact hx
        · intro e he
          rcases List.mem_append.mp he with he | he
          · have := h.gate_now e he; simp only []; omega
          · simp at he
        · intro e he x hx hn
          rcases List.mem_append.mp he with he | he
          · rcases List.mem_append.mp hx with hx | hx
            · exact h.gate_heap e he x (List.mem_of_mem_erase hx) (by simp only [] at hn; omega)
            · have h1 := h.gate_now e he
              have h2 := inv.fresh_popped _ he
              have h3 := (hnew x hx).1
              simp only [] at hn h2
              unfold keyLt
              simp
              omega
          · simp at he
        · intro e he
          rcases List.mem_append.mp he with he | he
          · obtain ⟨L, A, g, B, hL, hfl, hgx, hgd, hgL, hB, ⟨p, hp, hpL⟩, hd1, hd2⟩ := h.gate_rec e he
            refine ⟨L, A, g, B ++ mkFlags (t.len + 1 + (mkEvents s.nextId m.time o.specs).length + o.cancels.length)
              (gm.flags s.ent o.ent), by simp only []; omega, by simp [hfl], hgx, hgd, hgL, ?_,
              ⟨p, List.mem_append_left _ hp, hpL⟩, ?_, ?_⟩
            · intro f hf hfx
              rcases List.mem_append.mp hf with hf | hf
              · exact hB f hf hfx
              · have := (mkFlags_mem _ _ f hf).2.1
                omega
            · intro d hd hdL
              rcases List.mem_append.mp hd with hd | hd
              · exact hd1 d hd hdL
              · simp only [List.mem_singleton] at hd
                subst hd
                simp only [] at hdL
                omega
            · intro d hd hdL
              rcases List.mem_append.mp hd with hd | hd
              · exact hd2 d hd hdL
              · simp only [List.mem_singleton] at hd
                subst hd
                have := h.gate_heap e he m hm hnow
                unfold keyLt at this
                simp at this
                simp only []
                omega
          · simp at he

theorem TG_init {mc : Machine σ} (gm : GateModel mc) (ent : σ) (start : Nat) (pre : List Spec)
    (hup : ∀ x, gm.down ent x = false) : TG gm (init ent start pre) (initTrace start pre) :=
  { pos_f := by simp [initTrace], fd := by intro x hx; simp [init, hup] at hx,
    gate_now := by simp [init], gate_heap := by simp [init], gate_rec := by simp [init] }

theorem TG_run {mc : Machine σ} (gm : GateModel mc) (endT : Option Nat) (n : Nat) (s : St σ) (t : Trace)
    (inv : Inv s) (ti : TI s t) (tj : TJ mc endT s t) (h : TG gm s t) :
    TG gm (run mc endT n s) (traceRun gm.flags mc endT n s t) := by
  induction n generalizing s t with
  | zero => simpa [run, traceRun]
  | succ n ih =>
    unfold run traceRun step
    cases hh : s.heap with
    | nil => simpa
    | cons x xs =>
      simp only []
      by_cases hc : continues endT s = true
      · simp only [hc, if_true]
        have hmem : minOf x xs ∈ s.heap := by rw [hh]; exact (pop_is_min x xs).1
        have hmin : ∀ y ∈ s.heap, keyLt y (minOf x xs) = false := by rw [hh]; exact (pop_is_min x xs).2
        exact ih _ _ (step_preserves mc s x xs hh inv) (TI_step gm.flags mc s t _ hmem inv ti)
          (TJ_step gm.flags mc endT s t _ hmem hmin hc inv ti tj) (TG_step gm endT s t _ hmem hmin inv ti tj h)
      · simp only [hc, Bool.false_eq_true, if_false]
        exact h

/-- **an event dropped at the gate is exempt**: in the trace of a model with a crash gate, an event the
    engine popped while its target was down has its target down at some moment of the stretch of the
    trace in which it falls due — the judge's `mayBeDown` holds for its creation line -/
theorem gated_event_is_exempt {mc : Machine σ} (gm : GateModel mc) (s : St σ) (t : Trace)
    (ti : TI s t) (h : TG gm s t) (e : Ev) (he : (e, Verdict.gated) ∈ s.popped)
    (c : Created) (hc : c ∈ t.created) (hce : c = cOf e c.pos) : Spec.mayBeDown t c = true := by
  obtain ⟨L, A, g, B, hL, hfl, hgx, hgd, hgL, hB, ⟨p, hp, hpL⟩, hd1, hd2⟩ := h.gate_rec e he
  -- the creation line of `e` is `c`
  have hcp : c.pos < L := by
    have htag : (cOf e p).tag = c.tag := by rw [hce]; rfl
    have := inj_of_nodup_map (fun x : Created => x.tag) ti.cre_nodup hp hc htag
    rw [← this]; exact hpL
  have f1 : c.tag = e.id + 1 := by rw [hce]; rfl
  have f2 : c.time = e.time := by rw [hce]; rfl
  have f3 : c.target = e.target := by rw [hce]; rfl
  have htg : ∀ d ∈ Spec.tagged t, d ∈ t.delivs := fun d hd => (List.mem_filter.mp hd).1
  unfold Spec.mayBeDown
  simp only []
  apply downDuring_of_split t.flags A B g c.target _ _ L hfl (by rw [f3]; exact hgx) hgd hgL
    (by intro f hf hfx; exact hB f hf (by rw [← f3]; exact hfx))
  · -- lo ≤ L
    apply Nat.max_le.mpr
    refine ⟨?_, Nat.le_of_lt hcp⟩
    cases hlast : ((Spec.tagged t).filter fun d => decide (d.clock < c.time) || (d.clock == c.time && decide (d.tag < c.tag))).getLast? with
    | none => simp
    | some d =>
      simp only [Option.map_some, Option.getD_some]
      have hmem := List.mem_of_getLast? hlast
      have hm := List.mem_filter.mp hmem
      have hk := hm.2
      simp only [Bool.or_eq_true, decide_eq_true_eq, Bool.and_eq_true, beq_iff_eq] at hk
      rcases Nat.lt_or_ge d.pos L with hlt | hge
      · exact Nat.le_of_lt hlt
      · have := hd2 d (htg d hm.1) hge
        omega
  · -- L ≤ hi
    cases hfind : (Spec.tagged t).find? (fun d => decide (c.time < d.clock) || (d.clock == c.time && decide (c.tag < d.tag))) with
    | none => simpa using hL
    | some d =>
      simp only [Option.map_some, Option.getD_some]
      have hk := List.find?_some hfind
      have hmem := List.mem_of_find?_eq_some hfind
      simp only [Bool.or_eq_true, decide_eq_true_eq, Bool.and_eq_true, beq_iff_eq] at hk
      rcases Nat.lt_or_ge d.pos L with hlt | hge
      · have := hd1 d (htg d hmem) hlt
        omega
      · exact hge

/-- the complete link for the trace of a model with a crash gate -/
theorem traceOf_linked_gate {mc : Machine σ} (gm : GateModel mc) (ent : σ) (start : Nat) (pre : List Spec)
    (endT : Option Nat) (n : Nat) (hup : ∀ x, gm.down ent x = false) :
    TG gm (runFrom mc ent start pre endT n) (traceOf gm.flags mc ent start pre endT n) := by
  have tg := TG_run gm endT n _ _ (init_inv ent start pre) (TI_init ent start pre) (TJ_init mc endT ent start pre)
    (TG_init gm ent start pre hup)
  exact ⟨tg.pos_f, tg.fd, tg.gate_now, tg.gate_heap, tg.gate_rec⟩

/-- **clause 6 with the crash-window exemption**: on a finished run of a model with a crash gate (all
    entities up at the start), the judge finds no lost event — every created event that is live, due
    within the horizon and whose target is *not* down at any moment of the stretch in which it falls
    due has a delivery line; the events the gate dropped are exactly covered by the exemption -/
theorem engine_trace_no_lost_event_gate {mc : Machine σ} (gm : GateModel mc) (ent : σ) (start : Nat)
    (pre : List Spec) (endT : Option Nat) (n : Nat) (hup : ∀ x, gm.down ent x = false)
    (hhalt : step mc endT (runFrom mc ent start pre endT n) = none)
    (hlen : (traceOf gm.flags mc ent start pre endT n).len < 1000000000) :
    Spec.lostEvent (traceOf gm.flags mc ent start pre endT n) = none := by
  refine no_lost_event_core gm.flags mc ent start pre endT n ?_ hhalt hlen
  intro e he c hc hce
  exact gated_event_is_exempt gm _ _ (traceOf_linked gm.flags mc ent start pre endT n).2.1
    (traceOf_linked_gate gm ent start pre endT n hup) e he c hc hce

/-- **the trace of a model with a crash gate satisfies the trace Spec**: clauses 1–6 raise nothing on a
    finished run; with no end time clause 7 can only report its second grade (the known finding) -/
theorem engine_trace_satisfies_spec_gate {mc : Machine σ} (gm : GateModel mc) (ent : σ) (start : Nat)
    (pre : List Spec) (endT : Option Nat) (n : Nat) (hup : ∀ x, gm.down ent x = false)
    (hhalt : step mc endT (runFrom mc ent start pre endT n) = none)
    (hlen : (traceOf gm.flags mc ent start pre endT n).len < 1000000000) :
    Spec.judge (traceOf gm.flags mc ent start pre endT n) = none ∨
    (endT = none ∧ Spec.judge (traceOf gm.flags mc ent start pre endT n)
        = some "engine/autoterm/ran-with-no-primary-pending") := by
  have h15 := engine_trace_order_clauses gm.flags mc ent start pre endT n
  have h6 := engine_trace_no_lost_event_gate gm ent start pre endT n hup hhalt hlen
  unfold Spec.judge Spec.judgeLive
  rw [h15, h6]
  simp only []
  cases hE : endT with
  | some te =>
    left
    have : (traceOf gm.flags mc ent start pre (some te) n).endT = some te := rfl
    simp [this]
  | none =>
    have : (traceOf gm.flags mc ent start pre none n).endT = none := rfl
    simp only [this]
    rcases engine_trace_autoterm_grade gm.flags mc ent start pre n with h | h
    · left; exact h
    · right; exact ⟨trivial, h⟩

/-- a model with a crash gate: the state is the list of entities that are down; the handler of kind 1
    crashes entity 0, kind 3 restores it, kind 2 sends entity 0 two events (due in 1 and in 4) -/
def demoGateMachine : Machine (List Nat) :=
  { handle := fun dn now e =>
      { ent := if e.kind = 1 then 0 :: dn else if e.kind = 3 then dn.filter (· != 0) else dn,
        specs := if e.kind = 2 then [⟨now + 1, 0, 7, false, 0, 0⟩, ⟨now + 4, 0, 8, false, 0, 0⟩] else [] },
    crashed := fun dn e => dn.contains e.target }

def demoGate : GateModel demoGateMachine :=
  { down := fun dn x => dn.contains x, support := fun dn => dn,
    supp := by intro dn x h; simpa using h,
    sound := by intro dn e h; exact h }

-- non-vacuity: entity 0 is down from t = 5 to t = 8; of the two events scheduled for it at t = 6 the one
-- due at 7 is dropped at the gate (and exempt: a `C` line precedes it, the `U` line follows), the one due at
-- 10 is delivered; the judge accepts the trace
example :
    let pre : List Spec := [⟨5, 1, 1, false, 0, 0⟩, ⟨6, 1, 2, false, 0, 0⟩, ⟨8, 1, 3, false, 0, 0⟩]
    step demoGateMachine (some 20) (runFrom demoGateMachine [] 0 pre (some 20) 20) = none ∧
    (traceOf demoGate.flags demoGateMachine [] 0 pre (some 20) 20).flags.map (fun f => (f.1, f.2.1)) = [(0, true), (0, false)] ∧
    (traceOf demoGate.flags demoGateMachine [] 0 pre (some 20) 20).delivs.map (·.clock) = [5, 6, 8, 10] ∧
    ((runFrom demoGateMachine [] 0 pre (some 20) 20).popped.filter (fun p => p.2 == .gated)).length = 1 ∧
    Spec.judge (traceOf demoGate.flags demoGateMachine [] 0 pre (some 20) 20) = none := by decide

end HappyModel.C01
